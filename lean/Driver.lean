/-
fvdriver: line-protocol driver over the executable models.
One request per line: `<cmd> <args…>`; one response line per request.
Unknown or malformed requests answer `bad-op` (never a default value).
-/
import FontVerif.Drv.C15

open FontVerif

def dispatch (cmd : String) (args : List String) : String :=
  let handlers : List (String → List String → Option String) := [
    Drv.C15.handle
  ]
  let rec go : List (String → List String → Option String) → String
    | [] => "bad-op"
    | h :: hs => match h cmd args with
      | some r => r
      | none => go hs
  go handlers

partial def loop (h : IO.FS.Stream) (out : IO.FS.Stream) : IO Unit := do
  let line ← h.getLine
  if line.isEmpty then return ()
  let toks := (line.trimAscii.toString.splitOn " ").filter (· ≠ "")
  match toks with
  | [] => out.putStrLn "bad-op"
  | cmd :: args => out.putStrLn (dispatch cmd args)
  loop h out

def main : IO Unit := do
  let stdin ← IO.getStdin
  let stdout ← IO.getStdout
  loop stdin stdout
