-- Root of the library: models, lemmas and property theorems that are complete.
import FontVerif.DriverMain
import FontVerif.Model.Base
import FontVerif.Model.Fixed
import FontVerif.Lemmas.Round
import FontVerif.Props.C15
