import FontVerif.Model.Base
import FontVerif.Model.Fixed
import FontVerif.Lemmas.Round
