/-
C07 — determinism of compilation.  Self-contained model of the parts of write-fonts that CONSUME object ids or
hash-container iteration order:

* `write-fonts/src/graph.rs`
    - `OBJECT_COUNTER` / `ObjectId::next`  ↔ `fetchAdd`, `runSched` (a schedule = which thread performs the next
      `fetch_add(1, Relaxed)`; a single atomic RMW has a total modification order, which is all that is used)
    - `ObjectStore.objects : HashMap<TableData, ObjectId>` ↔ a list of entries in ARBITRARY order
    - `Graph::from_obj_store` (`into_iter().map(|(k,v)| (v,k)).collect::<BTreeMap>()`) ↔ `fromObjStore`
    - `BTreeMap` / `BTreeSet` ↔ `OMap` / `OSet` (strictly ascending association lists)
    - `sort_kahn` (BinaryHeap<Reverse<ObjectId>>: pop the smallest id) ↔ `sortKahn`
    - `serialize` ↔ `serialize` (bytes contain offsets = differences of positions, never ids)
* the consumption patterns of the inventoried hash-container iterations (`translate/sites.py`), one function per
  lemma class (`SiteClass`).

Object ids are `Nat`.  No imports beyond Base: linked into the driver.
-/
import FontVerif.Model.Base
namespace FontVerif.Determinism

/-- lemma classes of the site inventory (`translate/sites_classes.json`; names must match `KNOWN_CLASSES`) -/
inductive SiteClass
  | collect_ordered | collect_hash | set_algebra | fold_commutative | sort_total_key | max_total_tiebreak
  | unique_match | remove_insert_disjoint | pointwise_update | check_only | insertion_ordered
  | fnv_seedless_sorted | debug_only | test_only | not_hash | lookup_only | iterated_see_sites
  | counter_fresh_id | global_constant | off_output_path | verif_hook
  deriving DecidableEq, Repr

/-- classes for which `Props/C07.lean` contains the permutation-invariance / equivariance lemma, or which need none
    (not a hash container, never iterated, not on the output path) -/
def SiteClass.discharged : SiteClass → Bool
  | .pointwise_update => false      -- no site uses it; no lemma proved
  | .fnv_seedless_sorted => false   -- no site uses it; no lemma proved
  | .off_output_path => false       -- must be argued per site; none present
  | .test_only => false
  | _ => true

/-- object ids (`ObjectId(u64)`) are plain `Nat`s -/
abbrev Id := Nat

/-! ## the process-wide counter -/

def U64 : Nat := 18446744073709551616

/-- `OBJECT_COUNTER.fetch_add(1, Relaxed)`: returns the previous value, stores the wrapped successor -/
def fetchAdd (c : Nat) : Nat × Nat := (c, (c + 1) % U64)

/-- Run a schedule from counter value `c`: element `t` of the schedule means "thread `t` performs the next
    `ObjectId::next()`".  Result: the trace of (thread, id obtained). -/
def runSched : Nat → List Nat → List (Nat × Nat)
  | _, [] => []
  | c, t :: ts => (t, (fetchAdd c).1) :: runSched (fetchAdd c).2 ts

/-- the ids thread `t` obtained, in its own program order -/
def idsOf (t : Nat) (tr : List (Nat × Nat)) : List Nat :=
  (tr.filter (fun e => e.1 == t)).map (·.2)

/-! ## ordered maps and sets (BTreeMap / BTreeSet) as strictly ascending lists -/

abbrev OMap (α : Type) := List (Nat × α)

def OMap.insert {α : Type} (k : Nat) (v : α) : OMap α → OMap α
  | [] => [(k, v)]
  | (k', v') :: rest =>
    if k < k' then (k, v) :: (k', v') :: rest
    else if k = k' then (k, v) :: rest
    else (k', v') :: OMap.insert k v rest

/-- `iter.collect::<BTreeMap<_,_>>()` -/
def OMap.ofList {α : Type} (l : List (Nat × α)) : OMap α :=
  l.foldl (fun m e => OMap.insert e.1 e.2 m) []

def OMap.get? {α : Type} (k : Nat) : OMap α → Option α
  | [] => none
  | (k', v) :: rest => if k = k' then some v else OMap.get? k rest

def OMap.erase {α : Type} (k : Nat) : OMap α → OMap α
  | [] => []
  | (k', v) :: rest => if k = k' then rest else (k', v) :: OMap.erase k rest

def OMap.keys {α : Type} (m : OMap α) : List Nat := m.map (·.1)

abbrev OSet := List Nat

def OSet.insert (k : Nat) : OSet → OSet
  | [] => [k]
  | k' :: rest => if k < k' then k :: k' :: rest else if k = k' then k' :: rest else k' :: OSet.insert k rest

def OSet.erase (k : Nat) : OSet → OSet
  | [] => []
  | k' :: rest => if k = k' then rest else k' :: OSet.erase k rest

def OSet.ofList (l : List Nat) : OSet := l.foldl (fun s k => OSet.insert k s) []

/-! ## objects -/

structure Link where
  pos : Nat
  width : Nat      -- 2, 3 or 4
  target : Nat
  adj : Nat
  deriving DecidableEq, Repr

structure Obj where
  bytes : List Nat
  links : List Link
  deriving DecidableEq, Repr

def Link.rename (ρ : Nat → Nat) (l : Link) : Link := { l with target := ρ l.target }
def Obj.rename (ρ : Nat → Nat) (o : Obj) : Obj := { o with links := o.links.map (Link.rename ρ) }

/-- `Graph::from_obj_store`: the entries of the `HashMap<TableData, ObjectId>` in the (arbitrary) order its iterator
    yields them, swapped and collected into a `BTreeMap<ObjectId, TableData>` -/
def fromObjStore (entries : List (Obj × Nat)) : OMap Obj :=
  OMap.ofList (entries.map (fun e => (e.2, e.1)))

/-- renaming of a whole object map (keys and link targets) -/
def renameMap (ρ : Nat → Nat) (m : OMap Obj) : OMap Obj := m.map (fun e => (ρ e.1, e.2.rename ρ))

/-! ## consumption patterns of hash-container iterations (one per lemma class) -/

/-- `set_algebra` as used by `remove_orphans`: `for id in keys.difference(&visited) { map.remove(id) }` -/
def eraseAll {α : Type} (ks : List Nat) (m : OMap α) : OMap α := ks.foldl (fun m k => OMap.erase k m) m

/-- insertion sort by a `Nat` key (stands for `sort_unstable_by_key` / `sort_by_key` with an injective key: any
    correct sort yields the same list then) -/
def insertByKey {α : Type} (key : α → Nat) (x : α) : List α → List α
  | [] => [x]
  | y :: ys => if key x ≤ key y then x :: y :: ys else y :: insertByKey key x ys

def sortByKey {α : Type} (key : α → Nat) (l : List α) : List α := l.foldr (insertByKey key) []

/-- `Iterator::max_by_key` (keeps the LAST maximum) -/
def maxByKey {α : Type} (key : α → Nat) : List α → Option α
  | [] => none
  | x :: xs => match maxByKey key xs with
    | none => some x
    | some m => if key x > key m then some x else some m

/-- `remove_insert_disjoint`, `isolate_subgraph_hb`:
    `for (old, new) in id_map { if roots.remove(&old) { roots.insert(new); } }` -/
def renameRoots (idMap : List (Nat × Nat)) (roots : OSet) : OSet :=
  idMap.foldl (fun r e => if r.contains e.1 then OSet.insert e.2 (OSet.erase e.1 r) else r) roots

/-- `IndexMap`: association list in insertion order; re-inserting an existing key keeps its position -/
def IndexMap.insertWith {κ α : Type} [DecidableEq κ] (f : Option α → α) (k : κ) : List (κ × α) → List (κ × α)
  | [] => [(k, f none)]
  | (k', v) :: rest => if k = k' then (k', f (some v)) :: rest else (k', v) :: IndexMap.insertWith f k rest

/-- `count_peak_tuples`: `*counter.entry(k).or_default() += 1` for every key of the input sequence -/
def IndexMap.countAll {κ : Type} [DecidableEq κ] (ks : List κ) : List (κ × Nat) :=
  ks.foldl (fun m k => IndexMap.insertWith (fun o => o.getD 0 + 1) k m) []

/-! ## Kahn sort with the id tie-break, and serialisation -/

/-- smallest element of a list (`BinaryHeap<Reverse<ObjectId>>::pop`) -/
def popMin : List Nat → Option (Nat × List Nat)
  | [] => none
  | x :: xs => match popMin xs with
    | none => some (x, [])
    | some (m, rest) => if x ≤ m then some (x, xs) else some (m, x :: rest)

/-- number of incoming links of `id` (the length of `nodes[id].parents` after `update_parents`) -/
def inDegree (m : OMap Obj) (id : Nat) : Nat :=
  (m.map (fun e => (e.2.links.filter (fun l => l.target == id)).length)).sum

def bump (k : Nat) : List (Nat × Nat) → List (Nat × Nat)
  | [] => [(k, 1)]
  | (k', n) :: rest => if k = k' then (k', n + 1) :: rest else (k', n) :: bump k rest

def seenOf (k : Nat) : List (Nat × Nat) → Nat
  | [] => 0
  | (k', n) :: rest => if k = k' then n else seenOf k rest

/-- the inner `for link in &next.offsets` loop of `sort_kahn` -/
def kahnLinks (m : OMap Obj) : List Link → List Nat → List (Nat × Nat) → List Nat × List (Nat × Nat)
  | [], q, seen => (q, seen)
  | l :: ls, q, seen =>
    let seen' := bump l.target seen
    if seenOf l.target seen' = inDegree m l.target then kahnLinks m ls (l.target :: q) seen'
    else kahnLinks m ls q seen'

/-- `Graph::sort_kahn` main loop (fuel = an upper bound on the number of pops; `kahnFuel` suffices).
    Returns the write order and the final `removed_edges` table. -/
def kahnLoop (m : OMap Obj) : Nat → List Nat → List (Nat × Nat) → List Nat → List Nat × List (Nat × Nat)
  | 0, _, seen, order => (order.reverse, seen)
  | fuel + 1, q, seen, order =>
    match popMin q with
    | none => (order.reverse, seen)
    | some (id, q') =>
      match OMap.get? id m with
      | none => (order.reverse, seen)   -- `self.objects[&id]` would panic; unreachable: links point to objects
      | some o =>
        let r := kahnLinks m o.links q' seen
        kahnLoop m fuel r.1 r.2 (id :: order)

def kahnFuel (m : OMap Obj) : Nat := m.length + (m.map (fun e => e.2.links.length)).sum + 1

/-- `Graph::sort_kahn`: the order in which objects are written -/
def sortKahn (m : OMap Obj) (root : Nat) : List Nat :=
  if m.length ≤ 1 then m.keys else (kahnLoop m (kahnFuel m) [root] [] []).1

/-- the final check of `sort_kahn`: `panic!("cycle or something?")` iff some touched object has not seen all its
    incoming links (a cycle, or a parent that is not reachable from the root) -/
def kahnPanics (m : OMap Obj) (root : Nat) : Bool :=
  if m.length ≤ 1 then false
  else (kahnLoop m (kahnFuel m) [root] [] []).2.any (fun e => e.2 != inDegree m e.1)

/-- positions assigned by a write order -/
def positions (m : OMap Obj) : List Nat → Nat → List (Nat × Nat)
  | [], _ => []
  | id :: rest, off => (id, off) :: positions m rest (off + ((OMap.get? id m).map (·.bytes.length)).getD 0)

def posOf (ps : List (Nat × Nat)) (id : Nat) : Nat :=
  match ps.find? (fun e => e.1 == id) with
  | some e => e.2
  | none => 0

/-- big-endian encoding of `v` in `w` bytes -/
def beBytes : Nat → Nat → List Nat
  | 0, _ => []
  | w + 1, v => (v / 256 ^ w) % 256 :: beBytes w v

def writeAt (bs : List Nat) (pos : Nat) (patch : List Nat) : List Nat :=
  bs.take pos ++ patch ++ bs.drop (pos + patch.length)

/-- bytes of one object with its offsets resolved (`rel_off = abs_off − (table_head + adjustment)`) -/
def resolveObj (ps : List (Nat × Nat)) (head : Nat) (o : Obj) : List Nat :=
  o.links.foldl (fun bs l => writeAt bs l.pos (beBytes l.width (posOf ps l.target - (head + l.adj)))) o.bytes

/-- `Graph::serialize` for a given write order -/
def serialize (m : OMap Obj) (order : List Nat) : List Nat :=
  let ps := positions m order 0
  (order.map (fun id => match OMap.get? id m with
    | some o => resolveObj ps (posOf ps id) o
    | none => [])).flatten

/-- `dump_table` when the Kahn order has no overflow: sort, serialise -/
def packSimple (m : OMap Obj) (root : Nat) : List Nat := serialize m (sortKahn m root)

/-! ## one compilation, abstracted from the ids it happens to draw -/

/-- What `TableWriter` does, with the ids abstracted: `tmpl` is the list of distinct `TableData` in the order in which
    they are first added to the `ObjectStore` (each gets the next id the compiling thread draws: `ids`), link targets in
    `tmpl` are indices into that list.  The result is the content of the `HashMap<TableData, ObjectId>`. -/
def instantiate (tmpl : List Obj) (ids : List Nat) : List (Obj × Nat) :=
  (tmpl.zip ids).map (fun p =>
    ({ bytes := p.1.bytes, links := p.1.links.map (fun l => { l with target := ids.getD l.target 0 }) }, p.2))

end FontVerif.Determinism
