/-
Model of one glyph's variation data ("GlyphVariationData"): how write-fonts builds and serialises
it from `GlyphVariations`, and how read-fonts takes it apart again.

writer  write-fonts/src/tables/gvar.rs
          Tent::{new, requires_intermediate, implied_intermediates_for_peak},
          GlyphDeltas::{new, pick_best_point_number_repr, build_non_sparse_data, build_sparse_data, build},
          GlyphTupleVariationData::{compute_size, write_into},
          GlyphVariations::{validate, compute_shared_points, build}, max_by_first_key,
          GlyphVariationData::{compute_tuple_variation_count, compute_data_offset, compute_size, write_into},
          Gvar::new (compute_shared_peak_tuples, axis-count check, shared index map, sort by gid),
          generated_gvar.rs `impl FontWrite for Gvar` (the 20 header bytes), SharedTuples
        write-fonts/src/tables/variations.rs
          TupleVariationHeader::{new, compute_size}, generated `impl FontWrite for TupleVariationHeader`
reader  read-fonts/src/tables/gvar.rs       GlyphVariationData::new (header, serialized data offset,
                                            shared point numbers), Gvar::glyph_variation_data
        read-fonts/src/tables/variations.rs TupleIndex, TupleVariationCount, TupleVariationHeader::read
                                            (generated), byte_len, TupleVariationHeaderIter::next,
                                            TupleVariationIter::next_tuple, TupleVariation::{peak,
                                            intermediate_start/end, has_deltas_for_all_points,
                                            point_numbers_and_packed_deltas, deltas}

`F2Dot14` values are raw bit patterns (`Int` in the i16 range), delta values are `Int`s, bytes are
`Nat`s below 256.  `none` from a writer function = the Rust panics (assert / `unwrap` on a checked
operation).  A `PackedPointNumbers` is `none` (= `All`) or `some pts` (= `Some(pts)`).
-/
import FontVerif.Model.Base
import FontVerif.Model.PackedDeltas
namespace FontVerif.GvarData
open FontVerif FontVerif.PackedDeltas

/-! ## scalars -/

/-- `u16::write_into` (big endian) -/
def be16 (n : Nat) : List Nat := [n / 256 % 256, n % 256]
/-- `u32::write_into` -/
def be32 (n : Nat) : List Nat := [n / 16777216 % 256, n / 65536 % 256, n / 256 % 256, n % 256]
/-- `F2Dot14::write_into`: the i16 bit pattern, two's complement -/
def i16Bytes (v : Int) : List Nat := be16 (v % 65536).toNat
/-- `Vec<F2Dot14>::write_into` -/
def tupleBytes (t : List Int) : List Nat := t.flatMap i16Bytes

/-- `u16` read (`BigEndian<u16>::get`) -/
def rd16 (a b : Nat) : Nat := a * 256 + b
/-- `F2Dot14` read: the i16 bit pattern -/
def rdI16 (a b : Nat) : Int := wrapI16 ((a * 256 + b : Nat) : Int)

/-! ## writer: `Tent` -/

structure Tent where
  peak : Int
  min : Int
  max : Int
  deriving Repr, DecidableEq

/-- `Tent::implied_intermediates_for_peak`: `(peak.min(ZERO), peak.max(ZERO))` -/
def impliedFor (peak : Int) : Int × Int := (if peak ≤ 0 then peak else 0, if peak ≤ 0 then 0 else peak)

/-- `Tent::new(peak, intermediate)` -/
def Tent.new (peak : Int) (inter : Option (Int × Int)) : Tent :=
  match inter with
  | some (a, b) => ⟨peak, a, b⟩
  | none => ⟨peak, (impliedFor peak).1, (impliedFor peak).2⟩

/-- `Tent::requires_intermediate`: `(self.min, self.max) != implied_intermediates_for_peak(self.peak)` -/
def Tent.requiresIntermediate (t : Tent) : Bool := decide ((t.min, t.max) ≠ impliedFor t.peak)

/-! ## writer: `GlyphDeltas` -/

/-- `PackedPointNumbers`: `none` = `All`, `some pts` = `Some(pts)` -/
abbrev PPN := Option (List Nat)

/-- `PackedPointNumbers::write_into` (`All` writes the count byte 0 and no runs) -/
def ppnBytes : PPN → Option (List Nat)
  | none => some [0]
  | some pts => encodePoints pts

/-- `PackedPointNumbers::compute_size` -/
def ppnSize : PPN → Option Nat
  | none => some 1
  | some pts => ptComputeSize pts

/-- `Option<PackedPointNumbers>::write_into`: nothing for `None` -/
def optPpnBytes : Option PPN → Option (List Nat)
  | none => some []
  | some p => ppnBytes p

/-- a `GlyphDelta { x, y, required }` -/
abbrev GDelta := Int × Int × Bool

/-- `GlyphTupleVariationData::compute_size`:
`private.map(compute_size).unwrap_or_default().checked_add(x.compute_size()).unwrap().checked_add(y.compute_size()).unwrap()` -/
def tupleDataSize (priv : Option PPN) (xs ys : List Int) : Option Nat :=
  match (match priv with | none => some 0 | some p => ppnSize p), computeSize xs, computeSize ys with
  | some p, some x, some y =>
    if p + x > 65535 then none else if p + x + y > 65535 then none else some (p + x + y)
  | _, _, _ => none

/-- `enumerate().filter_map(|(i, d)| d.required.then_some(i as u16))` starting at index `i` -/
def requiredIdx : Nat → List GDelta → List Nat
  | _, [] => []
  | i, d :: ds => if d.2.2 then (i % 65536) :: requiredIdx (i + 1) ds else requiredIdx (i + 1) ds

/-- `GlyphDeltas::pick_best_point_number_repr` (after fix 3183a1d: nothing required ⇒ `All`) -/
def pickBest (ds : List GDelta) : Option PPN :=
  if ds.all (·.2.2) || !ds.any (·.2.2) then some none else
  let req := ds.filter (·.2.2)
  -- build_non_sparse_data / build_sparse_data + compute_size
  match tupleDataSize (some none) (ds.map (·.1)) (ds.map (·.2.1)),
        tupleDataSize (some (some (requiredIdx 0 ds))) (req.map (·.1)) (req.map (·.2.1)) with
  | some dense, some sparse => some (if sparse < dense then some (requiredIdx 0 ds) else none)
  | _, _ => none

/-- a `GlyphDeltas` value (only `GlyphDeltas::new` constructs one) -/
structure TupleIn where
  peak : List Int
  inter : Option (List Int × List Int)
  deltas : List GDelta
  best : PPN
  deriving Repr, DecidableEq

/-- `GlyphDeltas::new(tents, deltas)` -/
def glyphDeltasNew (tents : List Tent) (ds : List GDelta) : Option TupleIn :=
  match pickBest ds with
  | none => none
  | some b =>
    some { peak := tents.map (·.peak)
           inter := if tents.any Tent.requiresIntermediate
                    then some (tents.map (·.min), tents.map (·.max)) else none
           deltas := ds, best := b }

/-- a `TupleVariationHeader` as written -/
structure Header where
  dataSize : Nat
  tupleIndex : Nat
  peak : List Int
  start : List Int
  end_ : List Int
  deriving Repr, DecidableEq

/-- `TupleVariationHeader::new`: `idx = shared_tuple_idx.unwrap_or_default()`, then the three flag
bits are OR-ed in.  The shared index comes from `compute_shared_peak_tuples`, which keeps at most
4095 tuples, so it is below 4096 and every OR is an addition. -/
def tupleIndexBits (sharedIdx : Option Nat) (hasInter hasPrivate : Bool) : Nat :=
  (match sharedIdx with | some i => i | none => 32768) +
  (if hasInter then 16384 else 0) + (if hasPrivate then 8192 else 0)

/-- `TupleVariationHeader::compute_size`: `usize` sum, `try_into::<u16>().unwrap()` -/
def Header.size (h : Header) : Option Nat :=
  let n := 4 + 2 * h.peak.length + 2 * h.start.length + 2 * h.end_.length
  if n > 65535 then none else some n

/-- generated `impl FontWrite for TupleVariationHeader` -/
def Header.bytes (h : Header) : List Nat :=
  be16 h.dataSize ++ be16 h.tupleIndex ++ tupleBytes h.peak ++ tupleBytes h.start ++ tupleBytes h.end_

/-- the `(x_deltas, y_deltas)` selection of `GlyphDeltas::build`: all deltas, or `deltas[*idx]` for
the listed points (`none` = index out of bounds panic) -/
def selectDeltas (best : PPN) (ds : List GDelta) : Option (List Int × List Int) :=
  match best with
  | none => some (ds.map (·.1), ds.map (·.2.1))
  | some pts =>
    match pts.mapM (fun p => ds[p]?) with
    | none => none
    | some sel => some (sel.map (·.1), sel.map (·.2.1))

/-- `GlyphDeltas::build(shared_tuple_map, shared_points)`: the header and the serialised
`GlyphTupleVariationData` (`[private point numbers] x-deltas y-deltas`).
`sharedIdx` is the result of `shared_tuple_map.get(&peak_tuple)`. -/
def buildTuple (sharedIdx : Option Nat) (sharedPts : Option PPN) (t : TupleIn) :
    Option (Header × List Nat) :=
  let hasPrivate := decide (some t.best ≠ sharedPts)
  match selectDeltas t.best t.deltas with
  | none => none
  | some (xs, ys) =>
    let priv : Option PPN := if hasPrivate then some t.best else none
    match tupleDataSize priv xs ys, optPpnBytes priv with
    | some size, some pb =>
      some ({ dataSize := size
              tupleIndex := tupleIndexBits sharedIdx t.inter.isSome hasPrivate
              peak := if sharedIdx.isSome then [] else t.peak
              start := match t.inter with | some (s, _) => s | none => []
              end_ := match t.inter with | some (_, e) => e | none => [] },
            pb ++ encodeDeltas xs ++ encodeDeltas ys)
    | _, _ => none

/-! ## writer: `GlyphVariations` -/

/-- the `IndexMap` of `compute_shared_points`: key = point packing, value = `(size, count)`, in
first-insertion order; `compute_size` is evaluated when a key is first inserted -/
def countPackings : List TupleIn → List (PPN × Nat × Nat) → Option (List (PPN × Nat × Nat))
  | [], acc => some acc
  | t :: ts, acc =>
    if acc.any (fun e => e.1 == t.best) then
      countPackings ts (acc.map fun e => if e.1 == t.best then (e.1, e.2.1, e.2.2 + 1) else e)
    else
      match ppnSize t.best with
      | none => none
      | some sz => countPackings ts (acc ++ [(t.best, sz, 1)])

/-- `max_by_first_key`: the first element with the greatest key -/
def maxByFirstKey {α : Type} (key : α → Nat) : List α → Option α
  | [] => none
  | x :: xs =>
    some (xs.foldl (fun best y => if key y ≤ key best then best else y) x)

/-- `GlyphVariations::compute_shared_points`; outer `none` = panic -/
def computeSharedPoints (ts : List TupleIn) : Option (Option PPN) :=
  match countPackings ts [] with
  | none => none
  | some counts =>
    some ((maxByFirstKey (fun e : PPN × Nat × Nat => (e.2.2 - 1) * e.2.1)
      (counts.filter fun e => e.2.2 > 1)).map (·.1))

/-- `GlyphVariationData::write_into` for a glyph with at least one tuple, given the built headers
and per-tuple data:
`tupleVariationCount | dataOffset | headers | shared point numbers | per-tuple data`.
`none` = `assert!(len <= 4095)` / `compute_data_offset` `try_into::<u16>().unwrap()` /
a header size panic. -/
def serializeGlyph (sharedPts : Option PPN) (built : List (Header × List Nat)) : Option (List Nat) :=
  if built.length > 4095 then none else
  match built.mapM (fun b => b.1.size), optPpnBytes sharedPts with
  | some sizes, some sp =>
    let off := sizes.sum + 4
    if off > 65535 then none else
    some (be16 (built.length + (if sharedPts.isSome then 32768 else 0)) ++ be16 off ++
      built.flatMap (fun b => b.1.bytes) ++ sp ++ built.flatMap (·.2))
  | _, _ => none

/-- `GlyphVariations::build` + `write_into` with the shared-tuple lookup and the shared point
numbers given (any choice); an empty glyph (`is_empty()`) writes nothing -/
def writeGlyphWith (lookup : List Int → Option Nat) (sharedPts : Option PPN) (ts : List TupleIn) :
    Option (List Nat) :=
  if ts.isEmpty then some [] else
  match ts.mapM (fun t => buildTuple (lookup t.peak) sharedPts t) with
  | none => none
  | some built => serializeGlyph sharedPts built

/-- `shared_tuple_map.get(&peak)` for the map built from the shared tuple list (keys are distinct
there: first index) -/
def lookupIn : List (List Int) → List Int → Option Nat
  | [], _ => none
  | s :: ss, p => if s = p then some 0 else (lookupIn ss p).map (· + 1)

/-- `GlyphVariations::build` + `write_into` as `Gvar::new` calls it -/
def writeGlyph (shared : List (List Int)) (ts : List TupleIn) : Option (List Nat) :=
  match computeSharedPoints ts with
  | none => none
  | some sp => writeGlyphWith (lookupIn shared) sp ts

/-! ## writer: `Gvar::new` -/

/-- `count_peak_tuples` over all glyphs: the `IndexMap` of peak tuples in first-insertion order -/
def countPeaks : List (List Int) → List (List Int × Nat) → List (List Int × Nat)
  | [], acc => acc
  | p :: ps, acc =>
    if acc.any (fun e => e.1 == p) then
      countPeaks ps (acc.map fun e => if e.1 == p then (e.1, e.2 + 1) else e)
    else countPeaks ps (acc ++ [(p, 1)])

/-- stable insertion of `x` (which precedes every element of the list in the original order) into a
list sorted by descending count (`sort_by_key(Reverse(n))`, stable: `x` stays before equal counts) -/
def insertDesc (x : List Int × Nat) : List (List Int × Nat) → List (List Int × Nat)
  | [] => [x]
  | y :: ys => if y.2 > x.2 then y :: insertDesc x ys else x :: y :: ys

/-- `compute_shared_peak_tuples`: tuples used more than once, most used first (stable), at most 4095 -/
def sharedPeakTuples (glyphs : List (List TupleIn)) : List (List Int) :=
  let counts := countPeaks (glyphs.flatten.map (·.peak)) []
  let toShare := (counts.filter fun e => e.2 > 1).foldr insertDesc []
  (toShare.take 4095).map (·.1)

/-- `GlyphVariations::validate`: the error it returns, if any -/
def validateGlyph (ts : List TupleIn) : Option String :=
  match ts with
  | [] => none
  | t0 :: _ =>
    ts.findSome? fun t =>
      if t.peak.length ≠ t0.peak.length then some "InconsistentGlyphAxisCount"
      else if (match t.inter with
               | some (s, e) => decide (s.length ≠ t0.peak.length ∨ e.length ≠ t0.peak.length)
               | none => false) then some "InconsistentTupleLengths"
      else if t.deltas.length ≠ t0.deltas.length then some "InconsistentDeltaLength"
      else none

/-- stable insertion sort of the glyphs by gid (`sort_unstable_by_key`; gids are distinct in every
use, so stability is immaterial) -/
def insertByGid (x : Nat × List TupleIn) : List (Nat × List TupleIn) → List (Nat × List TupleIn)
  | [] => [x]
  | y :: ys => if y.1 ≤ x.1 then y :: insertByGid x ys else x :: y :: ys

inductive NewResult where
  | err (e : String)
  | panic
  /-- shared tuples, per-glyph serialised data (in gid order) -/
  | ok (shared : List (List Int)) (blobs : List (List Nat))
  deriving Repr

/-- `Gvar::new(variations, axis_count)` followed by serialising every glyph -/
def gvarNew (glyphs : List (Nat × List TupleIn)) (axisCount : Nat) : NewResult :=
  match glyphs.findSome? (fun g => validateGlyph g.2) with
  | some e => .err e
  | none =>
    if glyphs.any (fun g => match g.2 with | t :: _ => t.peak.length ≠ axisCount | [] => false)
    then .err "UnexpectedAxisCount" else
    let shared := sharedPeakTuples (glyphs.map (·.2))
    let sorted := glyphs.foldr insertByGid []
    match sorted.mapM (fun g => writeGlyph shared g.2) with
    | none => .panic
    | some blobs => .ok shared blobs

/-- the 20 header bytes of generated `impl FontWrite for Gvar`: version 1.0, axisCount,
sharedTupleCount, sharedTuplesOffset, glyphCount, flags, glyphVariationDataArrayOffset -/
def gvarHeader (axisCount nShared sharedOff nGlyphs : Nat) (long : Bool) (dao : Nat) : List Nat :=
  [0, 1, 0, 0] ++ be16 axisCount ++ be16 nShared ++ be32 sharedOff ++ be16 nGlyphs ++
    be16 (if long then 1 else 0) ++ be32 dao

/-! ## reader -/

/-- one `TupleVariation` as the iterator hands it out -/
structure RawTuple where
  tupleIndex : Nat
  /-- embedded peak (`header.peak_tuple()`) -/
  peak : Option (List Int)
  inter : Option (List Int × List Int)
  /-- `serialized_data` of this tuple (`take_up_to(variation_data_size)`) -/
  data : List Nat
  deriving Repr, DecidableEq

/-- read `n` F2Dot14 values; `none` = not enough bytes -/
def readTuple : Nat → List Nat → Option (List Int × List Nat)
  | 0, bs => some ([], bs)
  | n + 1, a :: b :: bs =>
    match readTuple n bs with
    | none => none
    | some (vs, rest) => some (rdI16 a b :: vs, rest)
  | _ + 1, _ => none

/-- `TupleVariationHeader::read(data, axis_count)` + `byte_len`: `(variationDataSize, tupleIndex,
embedded peak, intermediate tuples, remaining header data)`; `none` = `Err` -/
def readHeader (axisCount : Nat) (bs : List Nat) :
    Option (Nat × Nat × Option (List Int) × Option (List Int × List Int) × List Nat) :=
  match bs with
  | s0 :: s1 :: t0 :: t1 :: rest =>
    let ti := rd16 t0 t1
    let embedded := ti / 32768 % 2 = 1
    let hasInter := ti / 16384 % 2 = 1
    match (if embedded then (readTuple axisCount rest).map fun (v, r) => (some v, r) else some (none, rest)) with
    | none => none
    | some (peak, rest1) =>
      if hasInter then
        match readTuple axisCount rest1 with
        | none => none
        | some (st, rest2) =>
          match readTuple axisCount rest2 with
          | none => none
          | some (en, rest3) => some (rd16 s0 s1, ti, peak, some (st, en), rest3)
      else some (rd16 s0 s1, ti, peak, none, rest1)
  | _ => none

/-- `TupleVariationIter::next_tuple` repeated `count` times (stops at the first `None`):
`hdr` = remaining header data (runs to the end of the glyph's data), `ser` = remaining serialized data -/
def readTuples (axisCount : Nat) : Nat → List Nat → List Nat → List RawTuple
  | 0, _, _ => []
  | n + 1, hdr, ser =>
    match readHeader axisCount hdr with
    | none => []
    | some (size, ti, peak, inter, hdr') =>
      if size > ser.length then [] else
      { tupleIndex := ti, peak := peak, inter := inter, data := ser.take size }
        :: readTuples axisCount n hdr' (ser.drop size)

/-- a `GlyphVariationData` (`TupleVariationData<GlyphDelta>`) -/
structure GlyphRead where
  /-- `tuple_count` bits -/
  countBits : Nat
  /-- the data of `shared_point_numbers` (runs to the end of the glyph's data), if flagged -/
  sharedPts : Option (List Nat)
  tuples : List RawTuple
  deriving Repr

/-- `GlyphVariationData::new(data, axis_count, shared_tuples)` and `tuples().collect()`;
`none` = `Err` (fewer than 4 bytes, null or out-of-bounds serialized data offset) -/
def readGlyph (axisCount : Nat) (data : List Nat) : Option GlyphRead :=
  match data with
  | c0 :: c1 :: o0 :: o1 :: hdr =>
    let bits := rd16 c0 c1
    let off := rd16 o0 o1
    if off = 0 ∨ off > data.length then none else
    let ser := data.drop off
    let hasShared := bits / 32768 % 2 = 1
    let ser' := if hasShared then splitRemainder ser else ser
    some { countBits := bits
           sharedPts := if hasShared then some ser else none
           tuples := readTuples axisCount (bits % 4096) hdr ser' }
  | _ => none

/-- `TupleVariation::peak()`: `tuple_records_index().and_then(|i| shared_tuples.get(i).ok())
.or_else(|| header.peak_tuple()).unwrap_or_default()`; `shared` = the font's shared tuples -/
def RawTuple.peakOf (t : RawTuple) (shared : List (List Int)) : List Int :=
  let embedded := t.tupleIndex / 32768 % 2 = 1
  match (if embedded then none else shared[t.tupleIndex % 4096]?) with
  | some p => p
  | none => t.peak.getD []

/-- `point_numbers_and_packed_deltas`: `(point number data, packed delta data)` -/
def RawTuple.ptsAndDeltas (t : RawTuple) (sharedPts : Option (List Nat)) : List Nat × List Nat :=
  if t.tupleIndex / 8192 % 2 = 1 then (t.data, splitRemainder t.data)
  else (sharedPts.getD [], t.data)

/-- `TupleVariation::has_deltas_for_all_points` -/
def RawTuple.allPoints (t : RawTuple) (sharedPts : Option (List Nat)) : Bool :=
  if t.tupleIndex / 8192 % 2 = 1 then (countAndCountBytes t.data).1 == 0
  else match sharedPts with
    | some sp => (countAndCountBytes sp).1 == 0
    | none => false

/-- `TupleVariation::deltas().collect()`: `(position, x, y)` -/
def RawTuple.deltas (t : RawTuple) (sharedPts : Option (List Nat)) : List (Nat × Int × Int) :=
  tupleDeltas (t.ptsAndDeltas sharedPts).1 (t.ptsAndDeltas sharedPts).2

end FontVerif.GvarData
