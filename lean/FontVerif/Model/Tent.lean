/-
Model of the variation-region ("tent") arithmetic of the reader:
  read-fonts/src/tables/variations.rs
    VariationRegion::compute_scalar, ItemVariationStore::compute_delta,
    ItemVariationData::{delta_set, delta_row_len}, ItemDeltas::next,
    DeltaSetIndexMap::get, advance_delta / item_delta.

Coordinates are raw `F2Dot14` bit patterns (`Int` in the i16 range); scalars are raw
`Fixed` 16.16 bit patterns.  `Fixed` `+`/`-` are `wrapping_add`/`wrapping_sub`
(font-types/src/fixed.rs `impl Add/Sub`), `mul_div` is `Fixed.mulDiv`.
-/
import FontVerif.Model.Base
import FontVerif.Model.Fixed
namespace FontVerif.Tent
open FontVerif

/-- `Fixed - Fixed` : `self.0.wrapping_sub(other.0)`. -/
def fsub (a b : Int) : Int := wrapI32 (a - b)
/-- `Fixed + Fixed` : `self.0.wrapping_add(other.0)`. -/
def fadd (a b : Int) : Int := wrapI32 (a + b)

/-- One iteration of the loop body of `VariationRegion::compute_scalar`; all arguments are
`Fixed` bit patterns (`F2Dot14::to_fixed` already applied).  `none` = `return ZERO`,
`some s` = carry on with scalar `s`.

```
if start > peak || peak > end || peak == ZERO || start < ZERO && end > ZERO { continue; }
else if coord < start || coord > end { return ZERO; }
else if coord == peak { continue; }
else if coord < peak { scalar = scalar.mul_div(coord - start, peak - start); }
else { scalar = scalar.mul_div(end - coord, end - peak); }
``` -/
def axisStep (scalar coord start peak end_ : Int) : Option Int :=
  if start > peak ∨ peak > end_ ∨ peak = 0 ∨ (start < 0 ∧ end_ > 0) then some scalar
  else if coord < start ∨ coord > end_ then none
  else if coord = peak then some scalar
  else if coord < peak then some (Fixed.mulDiv scalar (fsub coord start) (fsub peak start))
  else some (Fixed.mulDiv scalar (fsub end_ coord) (fsub end_ peak))

/-- the loop of `compute_scalar`: `axes` are the region's `(start, peak, end)` F2Dot14 records,
`coords` the remaining user coordinates (`coords.get(i)`, missing ⇒ `ZERO`). -/
def computeScalarGo (scalar : Int) : List (Int × Int × Int) → List Int → Int
  | [], _ => scalar
  | (s, p, e) :: rest, coords =>
    let c := Fixed.f2dot14ToFixed (coords.headD 0)
    match axisStep scalar c (Fixed.f2dot14ToFixed s) (Fixed.f2dot14ToFixed p) (Fixed.f2dot14ToFixed e) with
    | none => 0
    | some sc => computeScalarGo sc rest coords.tail

/-- `VariationRegion::compute_scalar(coords)`, starting from `Fixed::ONE`. -/
def computeScalar (axes : List (Int × Int × Int)) (coords : List Int) : Int :=
  computeScalarGo 65536 axes coords

/-- the accumulation of `compute_delta`: `accum += region_delta as i64 * scalar.to_bits() as i64`
over `(delta, scalar)` pairs.  (i64 cannot overflow: at most 65535 terms of magnitude ≤ 2^47.) -/
def accumulate (pairs : List (Int × Int)) : Int :=
  pairs.foldl (fun acc ds => acc + ds.1 * ds.2) 0

/-- the final rounding of `compute_delta`: `((accum + 0x8000) >> 16) as i32`. -/
def roundAccum (accum : Int) : Int := wrapI32 ((accum + 32768) / 65536)

/-- deltas paired with the scalar of their region. -/
def computeDeltaPairs (pairs : List (Int × Int)) : Int := roundAccum (accumulate pairs)

/-! ### reader side of ItemVariationData -/

/-- `ItemVariationData::delta_row_len(word_delta_count, region_index_count)`. -/
def deltaRowLen (wordDeltaCount regionCount : Nat) : Nat :=
  let longWords := wordDeltaCount / 32768 % 2 = 1
  let wordSize := if longWords then 4 else 2
  let smallSize := if longWords then 2 else 1
  let longCount := wordDeltaCount % 32768
  let shortCount := regionCount - longCount   -- saturating_sub
  longCount * wordSize + shortCount * smallSize

def readS1 : List Nat → Option (Int × List Nat)
  | b :: rest => some ((if b < 128 then (b : Int) else (b : Int) - 256), rest)
  | _ => none
def readS2 : List Nat → Option (Int × List Nat)
  | a :: b :: rest =>
    let u : Int := (a : Int) * 256 + b
    some ((if u < 32768 then u else u - 65536), rest)
  | _ => none
def readS4 : List Nat → Option (Int × List Nat)
  | a :: b :: c :: d :: rest =>
    let u : Int := (((a : Int) * 256 + b) * 256 + c) * 256 + d
    some ((if u < 2147483648 then u else u - 4294967296), rest)
  | _ => none

/-- width in bytes of column `pos` as decided in `ItemDeltas::next`:
`match (pos >= word_delta_count, long_words)`. -/
def colWidth (wdcLow : Nat) (longWords : Bool) (pos : Nat) : Nat :=
  match decide (pos ≥ wdcLow), longWords with
  | true, true => 2
  | false, false => 2
  | true, false => 1
  | false, true => 4

def readW (w : Nat) (bytes : List Nat) : Option (Int × List Nat) :=
  if w = 1 then readS1 bytes else if w = 2 then readS2 bytes else readS4 bytes

/-- `ItemDeltas` iterator collected: reads columns `pos .. len-1`; a failed read ends the
iteration (`.ok()?`). -/
def itemDeltas (wdcLow : Nat) (longWords : Bool) (len : Nat) : Nat → List Nat → List Int
  | pos, bytes =>
    if _h : pos ≥ len then [] else
    match readW (colWidth wdcLow longWords pos) bytes with
    | none => []
    | some (v, rest) => v :: itemDeltas wdcLow longWords len (pos + 1) rest
  termination_by pos _ => len - pos

/-- `ItemVariationData::delta_set(inner)` collected: slice the row at
`delta_row_len * inner` (out of range ⇒ empty data) and iterate. -/
def deltaSet (wordDeltaCount regionCount : Nat) (data : List Nat) (inner : Nat) : List Int :=
  let off := deltaRowLen wordDeltaCount regionCount * inner
  let sliced := if off ≤ data.length then data.drop off else []
  itemDeltas (wordDeltaCount % 32768) (wordDeltaCount / 32768 % 2 = 1) regionCount 0 sliced

/-- one `ItemVariationData` as seen by the reader. -/
structure SubTable where
  itemCount : Nat
  wordDeltaCount : Nat
  regionIndexes : List Nat
  /-- all bytes that follow the region indexes (to the end of the table data) -/
  data : List Nat
  deriving Repr

/-- result of `compute_delta`: `err` models `Err(ReadError::OutOfBounds)` from
`regions.get(region_index)?`. -/
inductive DeltaResult where
  | ok (v : Int)
  | err
  deriving Repr, DecidableEq

/-- body of the `for (i, region_delta) in data.delta_set(inner).enumerate()` loop. -/
def deltaLoop (regions : List (List (Int × Int × Int))) (coords : List Int) :
    List Int → List Nat → Int → Option Int
  | [], _, acc => some acc
  | _ :: _, [], _ => none           -- region_indices.get(i) failed (MalformedData)
  | d :: ds, ri :: ris, acc =>
    match regions[ri]? with
    | none => none
    | some axes => deltaLoop regions coords ds ris (acc + d * computeScalar axes coords)

/-- `ItemVariationStore::compute_delta(index, coords)`.  `subtables[outer] = some none` models a
NULL offset in the array (`ArrayOfNullableOffsets::get` gives `None` ⇒ `Ok(0)`); an `outer`
beyond the array gives `Some(Err(InvalidCollectionIndex))` ⇒ error. -/
def computeDelta (regions : List (List (Int × Int × Int))) (subtables : List (Option SubTable))
    (outer inner : Nat) (coords : List Int) : DeltaResult :=
  if coords.isEmpty then .ok 0 else
  match subtables[outer]? with
  | none => .err
  | some none => .ok 0
  | some (some st) =>
    -- `ItemVariationData::read`: the `delta_sets` array is `delta_sets_len(..)` =
    -- `row_len * item_count` bytes and must lie inside the table data (`data?` fails otherwise)
    let need := deltaRowLen st.wordDeltaCount st.regionIndexes.length * st.itemCount
    if st.data.length < need then .err else
    let deltas := deltaSet st.wordDeltaCount st.regionIndexes.length (st.data.take need) inner
    match deltaLoop regions coords deltas st.regionIndexes 0 with
    | none => .err
    | some acc => .ok (roundAccum acc)

/-! ### DeltaSetIndexMap::get -/

/-- `DeltaSetIndexMap::get(index)` on `(entry_format, map_count, map_data)`:
`index.min(map_count.saturating_sub(1))`, big-endian entry of `entry_size` bytes,
`outer = entry >> bit_count`, `inner = entry & ((1 << bit_count) - 1)`; `none` = read error. -/
def dsimGet (entryFormat mapCount : Nat) (data : List Nat) (index : Nat) : Option (Nat × Nat) :=
  let entrySize := entryFormat / 16 % 4 + 1
  let bitCount := entryFormat % 16 + 1
  let idx := min index (mapCount - 1)
  let off := idx * entrySize
  if off + entrySize ≤ data.length then
    let entry := beValue ((data.drop off).take entrySize)
    some ((entry / 2 ^ bitCount) % 65536, entry % 2 ^ bitCount % 65536)
  else none

/-- `variations::advance_delta` index selection when there is no map:
`DeltaSetIndex { outer: 0, inner: gid as u16 }`. -/
def implicitIndex (gid : Nat) : Nat × Nat := (0, gid % 65536)

end FontVerif.Tent
