/-
Model of user → normalized coordinate conversion:
  read-fonts/src/tables/fvar.rs   VariationAxisRecord::normalize, Fvar::user_to_normalized (avar-1 part)
  read-fonts/src/tables/avar.rs   SegmentMaps::apply
  skrifa/src/variation.rs         Axis::normalize (= record.normalize(..).to_f2dot14())
All values are raw `Fixed` 16.16 bit patterns unless stated otherwise.
-/
import FontVerif.Model.Base
import FontVerif.Model.Fixed
namespace FontVerif.Normalize
open FontVerif

/-- `i32::saturating_sub`. -/
def satSub (a b : Int) : Int :=
  let d := a - b
  if d > 2147483647 then 2147483647 else if d < -2147483648 then -2147483648 else d

/-- `Ord::clamp(min, max)` (requires `min ≤ max`, asserted by std). -/
def clamp (v lo hi : Int) : Int := if v < lo then lo else if v > hi then hi else v

/-- `impl Neg for Fixed` on a value that is not `i32::MIN` (the quotient below is ≥ 0). -/
def fneg (a : Int) : Int := wrapI32 (-a)

/-- `VariationAxisRecord::normalize(value)`:
```
let max_value = self.max_value().max(min_value);
value = value.clamp(min_value, max_value);
value = match value.cmp(&default_value) {
  Less    => -((default_value.saturating_sub(value)) / (default_value.saturating_sub(min_value))),
  Greater => (value.saturating_sub(default_value)) / (max_value.saturating_sub(default_value)),
  Equal   => Fixed::ZERO };
value.clamp(-Fixed::ONE, Fixed::ONE)
``` -/
def normalize (minV defV maxV value : Int) : Int :=
  let maxV := if maxV < minV then minV else maxV
  let v := clamp value minV maxV
  let r :=
    if v < defV then fneg (Fixed.div (satSub defV v) (satSub defV minV))
    else if v > defV then Fixed.div (satSub v defV) (satSub maxV defV)
    else 0
  clamp r (-65536) 65536

/-- `Fixed - Fixed` / `Fixed + Fixed` (wrapping). -/
def fsub (a b : Int) : Int := wrapI32 (a - b)
def fadd (a b : Int) : Int := wrapI32 (a + b)

/-- the loop of `SegmentMaps::apply(coord)`; `maps` are `(from, to)` as `Fixed`
(`F2Dot14::to_fixed` applied), `prev` the previous record (zero initially), `first` ⇔ `i == 0`.
```
match from.cmp(&coord) {
  Equal => return to,
  Greater => { if i == 0 { return coord; }
               return prev_to + (to - prev_to).mul_div(coord - prev_from, from - prev_from); }
  _ => {} }
prev = *axis_value_map;
```
falls off the end ⇒ `coord`. -/
def applyGo (coord : Int) : Int × Int → Bool → List (Int × Int) → Int
  | _, _, [] => coord
  | prev, first, (f, t) :: rest =>
    if f = coord then t
    else if f > coord then
      if first then coord
      else fadd prev.2 (Fixed.mulDiv (fsub t prev.2) (fsub coord prev.1) (fsub f prev.1))
    else applyGo coord (f, t) false rest

/-- `SegmentMaps::apply` on F2Dot14 `(from, to)` records. -/
def avarApply (maps : List (Int × Int)) (coord : Int) : Int :=
  applyGo coord (0, 0) true (maps.map fun m => (Fixed.f2dot14ToFixed m.1, Fixed.f2dot14ToFixed m.2))

/-- per-axis step of `Fvar::user_to_normalized` without avar2:
`axis.normalize(v)`, optional `mapping.apply`, `.to_f2dot14()`. -/
def userToNormalized (minV defV maxV : Int) (maps : Option (List (Int × Int))) (value : Int) : Int :=
  let c := normalize minV defV maxV value
  let c := match maps with
    | some m => avarApply m c
    | none => c
  Fixed.toF2Dot14 c

/-! ### the loop of `Fvar::user_to_normalized` over several settings (avar version 1 part) -/

/-- a `VariationAxisRecord`: tag (big-endian `u32` of the four bytes) and the three `Fixed` values. -/
structure AxisRec where
  tag : Nat
  minV : Int
  defV : Int
  maxV : Int
  deriving Repr, DecidableEq

/-- `avar_mappings.as_ref().and_then(|m| m.get(i).transpose().ok()).flatten()`: the segment map of
axis `i` when an avar table is given and holds (at least) `i + 1` readable maps. -/
def mapFor (maps : Option (List (List (Int × Int)))) (i : Nat) : Option (List (Int × Int)) :=
  match maps with
  | none => none
  | some ms => ms[i]?

/-- the inner loop for one `(tag, value)` setting, axes `i, i+1, …`:
```
for (i, axis) in axes.iter().enumerate().filter(|(_, axis)| axis.axis_tag() == user_coord.0) {
    if let Some(target_coord) = normalized_coords.get_mut(i) {
        *target_coord = … axis.normalize(value) … mapping.apply(coord) … .to_f2dot14();
```
every axis carrying the tag is written (duplicate tags), indices beyond the slice are skipped. -/
def setAxesFrom (maps : Option (List (List (Int × Int)))) (tag : Nat) (value : Int) :
    Nat → List AxisRec → List Int → List Int
  | _, [], out => out
  | i, a :: rest, out =>
    let out' :=
      if a.tag = tag then
        (if i < out.length then
          out.set i (userToNormalized a.minV a.defV a.maxV (mapFor maps i) value)
        else out)
      else out
    setAxesFrom maps tag value (i + 1) rest out'

/-- `Fvar::user_to_normalized(avar, user_coords, normalized_coords)` for an avar table of version 1
(or none): `normalized_coords.fill(0)` then one pass of the inner loop per setting, in order.
`outLen = normalized_coords.len()` (may be smaller or larger than the axis count). -/
def userToNormalizedAll (axes : List AxisRec) (maps : Option (List (List (Int × Int))))
    (settings : List (Nat × Int)) (outLen : Nat) : List Int :=
  settings.foldl (fun out s => setAxesFrom maps s.1 s.2 0 axes out) (List.replicate outLen 0)

end FontVerif.Normalize
