/-
Model of the IUP ("interpolate untouched points") delta optimiser and of the reader-side
inference of omitted deltas.

writer  write-fonts/src/tables/gvar/iup.rs
          must_encode_at, iup_must_encode, iup_segment, can_iup_in_between,
          iup_initial_lookback, iup_contour_optimize_dp, iup_contour_optimize (both "assemble
          solution" loops are `walkLim`), iup_delta_optimize
spec    OpenType gvar "Inferred deltas for un-referenced point numbers": `inferSpec`
          (nearest retained point before / after in cyclic contour order, `prevReq` / `nextReq`)
reader  skrifa/src/outline/glyf/deltas.rs
          interpolate_deltas  -> `scanFirst`, `innerLoop`, `readerContourCalls`, `readerCalls`
                                 (the loops, as the list of `Jiggler` calls they make)
          Jiggler::{shift, interpolate} in 16.16 -> `applyCall`, `fxInterpAxis`, `readerInterpolate`
                                 (bit-exact; font-types `Fixed` add/sub/mul/div as `fx*`)
          the same per-point computation in exact arithmetic -> `readerAxis`, `readerExactAt`

Writer inputs are INTEGER coordinates and deltas (the f64 comparisons of the Rust are then exact,
except the interpolated value `d1 + (c - c1) * scale`, which the model keeps as an exact fraction:
the f64 rounding of that value is NOT modelled).  The tolerance is the rational `tn / td` with
`td > 0`.  An interpolated value is a fraction `(num, den)` with `den > 0`.
-/
import FontVerif.Model.Base
namespace FontVerif.Iup
open FontVerif

abbrev Pt := Int × Int

/-- tolerance `tn / td`, `td > 0` -/
structure Tol where
  n : Int
  d : Int

/-- `x.abs() > tolerance` for an integer `x` -/
def Tol.absGt (t : Tol) (x : Int) : Bool := decide (iabs x * t.d > t.n)

def getP (l : List Pt) (i : Nat) : Pt := l.getD i (0, 0)

def axisOf (p : Pt) (a : Bool) : Int := if a then p.2 else p.1

/-- one axis of `must_encode_at`; `(lc, ld)`/`(c, d)`/`(nc, nd)` = previous/current/next point. -/
def mustEncodeAxis (t : Tol) (lcj ldj cj dj ncj ndj : Int) : Bool :=
  let c1 := if lcj ≤ ncj then lcj else ncj
  let c2 := if lcj ≤ ncj then ncj else lcj
  let d1 := if lcj ≤ ncj then ldj else ndj
  let d2 := if lcj ≤ ncj then ndj else ldj
  if c1 = c2 then
    t.absGt (d1 - d2) && t.absGt dj
  else if c1 ≤ cj ∧ cj ≤ c2 then
    -- !(d1.min(d2) - tolerance <= dj && dj <= d1.max(d2) + tolerance)
    !(decide (min d1 d2 * t.d - t.n ≤ dj * t.d) && decide (dj * t.d ≤ max d1 d2 * t.d + t.n))
  else
    if d1 ≠ d2 ∧ t.absGt dj then
      if cj < c1 then
        -- (dj - d1).abs() > tolerance && (dj - tolerance < d1) != (d1 < d2)
        t.absGt (dj - d1) && (decide (dj * t.d - t.n < d1 * t.d) != decide (d1 < d2))
      else
        -- (dj - d2).abs() > tolerance && (d2 < dj + tolerance) != (d1 < d2)
        t.absGt (dj - d2) && (decide (d2 * t.d < dj * t.d + t.n) != decide (d1 < d2))
    else false

/-- `must_encode_at` (`wrapping_prev` / `wrapping_next` neighbours). -/
def mustEncodeAt (t : Tol) (ds cs : List Pt) (i : Nat) : Bool :=
  let n := ds.length
  let p := if i = 0 then n - 1 else i - 1
  let q := if i = n - 1 then 0 else i + 1
  [false, true].any fun a =>
    mustEncodeAxis t (axisOf (getP cs p) a) (axisOf (getP ds p) a) (axisOf (getP cs i) a)
      (axisOf (getP ds i) a) (axisOf (getP cs q) a) (axisOf (getP ds q) a)

/-- `iup_must_encode` as a membership list (index `i` ↦ forced?). -/
def mustEncode (t : Tol) (ds cs : List Pt) : List Bool :=
  (List.range ds.length).map (mustEncodeAt t ds cs)

/-- one axis of `iup_segment` for one coordinate `c`: the exact inferred delta `num / den`. -/
def iupAxis (c1 d1 c2 d2 c : Int) : Int × Int :=
  if c1 = c2 then (if d1 = d2 then d1 else 0, 1)
  else
    let lo := if c1 > c2 then c2 else c1
    let hi := if c1 > c2 then c1 else c2
    let dlo := if c1 > c2 then d2 else d1
    let dhi := if c1 > c2 then d1 else d2
    if c ≤ lo then (dlo, 1)
    else if c ≥ hi then (dhi, 1)
    else (dlo * (hi - lo) + (c - lo) * (dhi - dlo), hi - lo)

/-- `(d - i).hypot2() <= tolerance²` for the real delta `d` and inferred `(ix, iy)`:
`(dx - nx/qx)² + (dy - ny/qy)² ≤ (tn/td)²`, cleared of denominators. -/
def withinTol (t : Tol) (d : Pt) (ix iy : Int × Int) : Bool :=
  let ex := d.1 * ix.2 - ix.1
  let ey := d.2 * iy.2 - iy.1
  decide ((ex * ex * (iy.2 * iy.2) + ey * ey * (ix.2 * ix.2)) * (t.d * t.d)
    ≤ t.n * t.n * (ix.2 * ix.2) * (iy.2 * iy.2))

/-- the inferred delta of the point with coordinates `c` between reference points
`(rc1, rd1)` and `(rc2, rd2)`: both axes of `iup_segment`. -/
def iupPoint (rc1 rd1 rc2 rd2 c : Pt) : (Int × Int) × (Int × Int) :=
  (iupAxis rc1.1 rd1.1 rc2.1 rd2.1 c.1, iupAxis rc1.2 rd1.2 rc2.2 rd2.2 c.2)

/-- is point `k` reproduced within tolerance by inference from reference indices `a`, `b`? -/
def okAt (t : Tol) (ds cs : List Pt) (a b k : Nat) : Bool :=
  let i := iupPoint (getP cs a) (getP ds a) (getP cs b) (getP ds b) (getP cs k)
  withinTol t (getP ds k) i.1 i.2

/-- `can_iup_in_between(from, to)`; `from = -1` means the last point.  The `AchievedInvalidState`
guard (`from < -1 || to - from < 2`) cannot fire for the arguments the DP passes
(`max(i - lookback, -2) < j ≤ i - 2`) and is not modelled. -/
def canIup (t : Tol) (ds cs : List Pt) (frm : Int) (to : Nat) : Bool :=
  let a := if frm < 0 then ds.length - 1 else frm.toNat
  let lo := (frm + 1).toNat
  (List.range (to - lo)).all fun k => okAt t ds cs a to (lo + k)

/-- `iup_initial_lookback`. -/
def lookback (n : Nat) : Nat := min n 8

/-- the inner `for j in (j_min + 1..j_max + 1).rev()` loop of `iup_contour_optimize_dp`;
`steps` = iterations left, `j` = current index.  Returns `(best_cost, chain[i])`. -/
def dpInner (t : Tol) (ds cs : List Pt) (must : List Bool) (costs : List Int) (i : Nat) :
    Nat → Int → Int → Option Nat → Int × Option Nat
  | 0, _, best, ch => (best, ch)
  | steps + 1, j, best, ch =>
    let cost := if j ≥ 0 then costs.getD j.toNat 0 + 1 else 1
    let me := if j ≥ 0 then must.getD j.toNat false else false
    let upd := decide (cost < best) && canIup t ds cs j i
    let best' := if upd then cost else best
    let ch' := if upd then (if j ≥ 0 then some j.toNat else none) else ch
    if me then (best', ch') else dpInner t ds cs must costs i steps (j - 1) best' ch'

/-- the outer loop of `iup_contour_optimize_dp` from index `i` on; `costs`/`chain` hold the
entries for indices `< i`. -/
def dpOuter (t : Tol) (ds cs : List Pt) (must : List Bool) (lb : Nat) (n : Nat) :
    Nat → Nat → List Int → List (Option Nat) → List Int × List (Option Nat)
  | 0, _, costs, chain => (costs, chain)
  | fuel + 1, i, costs, chain =>
    if i ≥ n then (costs, chain) else
    let best := (if i > 0 then costs.getD (i - 1) 0 else 0) + 1
    let init : Option Nat := if i > 0 then some (i - 1) else none
    if i > 0 ∧ must.getD (i - 1) false then
      dpOuter t ds cs must lb n fuel (i + 1) (costs ++ [best]) (chain ++ [init])
    else
      let jmin : Int := max ((i : Int) - lb) (-2)
      let jmax : Int := (i : Int) - 2
      let r := dpInner t ds cs must costs i (jmax - jmin).toNat jmax best init
      dpOuter t ds cs must lb n fuel (i + 1) (costs ++ [r.1]) (chain ++ [r.2])

/-- `iup_contour_optimize_dp`: `(costs, chain)`; for `n < 2` the costs are empty and the chain is
the initial one. -/
def contourDp (t : Tol) (ds cs : List Pt) (must : List Bool) (lb : Nat) :
    List Int × List (Option Nat) :=
  let n := ds.length
  if n < 2 then ([], (List.range n).map fun i => if i > 0 then some (i - 1) else none)
  else dpOuter t ds cs must lb n n 0 [] []

/-- `usize::checked_sub` -/
def checkedSub (a b : Nat) : Option Nat := if a < b then none else some (a - b)

/-- `Some(idx) > lim` in Rust's `Option<usize>` order -/
def gtLim (lim : Option Nat) (idx : Nat) : Bool :=
  match lim with
  | none => true
  | some l => decide (idx > l)

/-- follow `chain` downwards from `i` while `i > lim` (Rust `Option<usize>` order: `None` is
below every `Some`).  One function for the two "assemble solution" loops of
`iup_contour_optimize`:
* rotated branch: `loop { encode.insert(i); i = match chain[i] { Some(v) => v, None => break } }`
  is `lim = none` (runs while `i` is `Some`);
* doubled branch: `while i > start.checked_sub(n) { solution.insert(idx % n); i = chain[idx] }`.
Returns the visited raw indices (descending) and the final `i`. -/
def walkLim (chain : List (Option Nat)) (lim : Option Nat) :
    Nat → Option Nat → List Nat × Option Nat
  | 0, i => ([], i)
  | _ + 1, none => ([], none)
  | fuel + 1, some idx =>
    if gtLim lim idx then
      let r := walkLim chain lim fuel (chain.getD idx none)
      (idx :: r.1, r.2)
    else ([], some idx)

def rotateRight (l : List α) (k : Nat) : List α :=
  if l.length = 0 then l else
  let k := k % l.length
  l.drop (l.length - k) ++ l.take (l.length - k)

def maxTrue (l : List Bool) : Nat :=
  (List.range l.length).foldl (fun acc i => if l.getD i false then i else acc) 0

/-- `ot_round` of an integer-valued f64 to `i16` (`as i16` saturates). -/
def otRound16 (x : Int) : Int := if x > 32767 then 32767 else if x < -32768 then -32768 else x

/-- outcome of `iup_contour_optimize`: the set of indices to encode (as a membership list) or
`none` for `AchievedInvalidState`. -/
def contourEncode (t : Tol) (ds cs : List Pt) : Option (List Bool) :=
  let n := ds.length
  match ds with
  | [] => some []
  | first :: _ =>
    if ds.all (· == first) then
      if first == (0, 0) then some (List.replicate n false)
      else some ((List.range n).map (· == 0))
    else
      let must := mustEncode t ds cs
      if must.any id then
        let mid := n - 1 - maxTrue must
        let ds' := rotateRight ds mid
        let cs' := rotateRight cs mid
        let must' := rotateRight must mid
        let dp := contourDp t ds' cs' must' (lookback n)
        let enc := (walkLim dp.2 none (2 * n + 2) (some (n - 1))).1
        let encB := (List.range n).map fun i => enc.contains i
        if (List.range n).all (fun i => !must'.getD i false || encB.getD i false) then
          -- rotate the solution back: idx ↦ (idx + n - mid) % n
          some ((List.range n).map fun i => encB.getD ((i + mid) % n) false)
        else none
      else
        let dp := contourDp t (ds ++ ds) (cs ++ cs) must (lookback n)
        let starts := (List.range (dp.1.length - 1 - (n - 1))).map (· + (n - 1))
        let r := starts.foldl (fun (acc : Option (List Nat) × Int) start =>
          let lim : Option Nat := checkedSub start n
          let w := walkLim dp.2 lim (2 * n + 2) (some start)
          if w.2 == lim then
            let cost := dp.1.getD start 0 - (if n < start then dp.1.getD (start - n) 0 else 0)
            if cost ≤ acc.2 then (some (w.1.map (· % n)), cost) else acc
          else acc) (none, (n + 1 : Int))
        match r.1 with
        | none => none
        | some sol => some ((List.range n).map fun i => sol.contains i)

/-- `iup_contour_optimize`: per point `(x, y, required)`. -/
def contourOptimize (t : Tol) (ds cs : List Pt) : Option (List (Int × Int × Bool)) :=
  match contourEncode t ds cs with
  | none => none
  | some enc =>
    some ((List.range ds.length).map fun i =>
      (otRound16 (getP ds i).1, otRound16 (getP ds i).2, enc.getD i false))

inductive OptResult where
  | ok (l : List (Int × Int × Bool))
  | err (e : String)

/-- insertion sort (`contour_ends.sort()`). -/
def insertSorted (x : Nat) : List Nat → List Nat
  | [] => [x]
  | y :: ys => if x ≤ y then x :: y :: ys else y :: insertSorted x ys
def sortNat (l : List Nat) : List Nat := l.foldr insertSorted []

/-- the per-contour loop of `iup_delta_optimize`. -/
def optimizeLoop (t : Tol) (ds cs : List Pt) : List Nat → Nat → List (Int × Int × Bool) → OptResult
  | [], _, acc => .ok acc
  | e :: ends, start, acc =>
    -- slice `start..=end`; `start ≤ end + 1` because the ends are sorted
    let len := e + 1 - start
    match contourOptimize t ((ds.drop start).take len) ((cs.drop start).take len) with
    | none => .err "AchievedInvalidState"
    | some r => optimizeLoop t ds cs ends (e + 1) (acc ++ r)

/-- `iup_delta_optimize`. -/
def deltaOptimize (t : Tol) (ds cs : List Pt) (ends : List Nat) : OptResult :=
  let nc := cs.length
  if nc < 4 then .err "NotEnoughCoords"
  else if ds.length ≠ nc then .err "DeltaCoordLengthMismatch"
  else
    let ends := sortNat ends
    let expected := (match ends.getLast? with | some v => v + 1 | none => 0) + 4
    if nc ≠ expected then .err "CoordEndsMismatch"
    else optimizeLoop t ds cs (ends ++ [nc - 4, nc - 3, nc - 2, nc - 1]) 0 []

/-! ## the specification's inference of omitted deltas (OpenType gvar, "Inferred deltas for
un-referenced point numbers"), stated for one closed contour of `n` points: the references of
an omitted point are the nearest retained points before and after it in cyclic point order. -/

/-- cyclic predecessor / successor of point `k` in a contour of `n` points -/
def predC (n k : Nat) : Nat := if k = 0 then n - 1 else k - 1
def succC (n k : Nat) : Nat := if k + 1 ≥ n then 0 else k + 1

/-- first retained point at or (cyclically) before `p`, looking at most `fuel` points -/
def prevFrom (enc : List Bool) (n : Nat) : Nat → Nat → Option Nat
  | 0, _ => none
  | f + 1, p => if enc.getD p false then some p else prevFrom enc n f (predC n p)

/-- first retained point at or (cyclically) after `p` -/
def nextFrom (enc : List Bool) (n : Nat) : Nat → Nat → Option Nat
  | 0, _ => none
  | f + 1, p => if enc.getD p false then some p else nextFrom enc n f (succC n p)

def prevReq (enc : List Bool) (n k : Nat) : Option Nat := prevFrom enc n n (predC n k)
def nextReq (enc : List Bool) (n k : Nat) : Option Nat := nextFrom enc n n (succC n k)

/-- the delta the specification assigns to point `k` of the contour `(cs, ds)` when only the
deltas flagged in `enc` are stored: the stored delta for a retained point; for an omitted point
the per-axis interpolation between the nearest retained neighbours (one retained point: both
neighbours are that point, which makes every point move by its delta; none: zero). -/
def inferSpec (cs ds : List Pt) (enc : List Bool) (k : Nat) : (Int × Int) × (Int × Int) :=
  if enc.getD k false then (((getP ds k).1, 1), ((getP ds k).2, 1)) else
  match prevReq enc ds.length k, nextReq enc ds.length k with
  | some a, some b => iupPoint (getP cs a) (getP ds a) (getP cs b) (getP ds b) (getP cs k)
  | _, _ => ((0, 1), (0, 1))

/-! ## reader side: FreeType-style inference (skrifa `interpolate_deltas`), exact arithmetic -/

/-- one axis of `Jiggler::interpolate` for one point, in exact arithmetic.  `in*` are the
reference points' original coordinates, `d*` their deltas (`out = in + d`), `c` the coordinate of
the point being inferred.  Returns the inferred DELTA `out - c` as a fraction. -/
def readerAxis (in1 d1 in2 d2 c : Int) : Int × Int :=
  -- `if points[ref1] > points[ref2] { swap }`
  let i1 := if in1 > in2 then in2 else in1
  let i2 := if in1 > in2 then in1 else in2
  let e1 := if in1 > in2 then d2 else d1
  let e2 := if in1 > in2 then d1 else d2
  let out1 := i1 + e1
  let out2 := i2 + e2
  if i1 ≠ i2 ∨ out1 = out2 then
    if c ≤ i1 then (e1, 1)                 -- `out += d1`
    else if c ≥ i2 then (e2, 1)            -- `out += d2`
    else
      -- `out = out1 + (out - in1) * scale`, `scale = (out2 - out1) / (in2 - in1)`
      ((out1 - c) * (i2 - i1) + (c - i1) * (out2 - out1), i2 - i1)
  else (0, 1)                              -- untouched: inferred delta is zero

/-- inferred delta of point `k` from references `a`, `b` (both axes), reader arithmetic -/
def readerPoint (cs ds : List Pt) (a b k : Nat) : (Int × Int) × (Int × Int) :=
  (readerAxis (getP cs a).1 (getP ds a).1 (getP cs b).1 (getP ds b).1 (getP cs k).1,
   readerAxis (getP cs a).2 (getP ds a).2 (getP cs b).2 (getP ds b).2 (getP cs k).2)

/-! ## reader side, loop-faithful: skrifa `interpolate_deltas::<i32, Fixed>` with its 16.16
arithmetic (`Fixed` add/sub wrap, `Mul`/`Div` round as in font-types).  Working points are raw
`Fixed` bits. -/

/-- one `Jiggler` call made by `interpolate_deltas`: `interpolate(lo ..= hi, RefPoints(r1, r2))`,
or `shift(lo ..= hi, r1)` when `shift` is set -/
structure Call where
  lo : Nat
  hi : Nat
  r1 : Nat
  r2 : Nat
  shift : Bool
deriving Repr, DecidableEq

/-- `while point_ix <= end_point_ix && !flags.get(point_ix)?.has_marker(HAS_DELTA) { point_ix += 1 }`;
`none` = the `?` fired (index beyond the `np` points). -/
def scanFirst (has : List Bool) (np last : Nat) : Nat → Nat → Option Nat
  | 0, p => some p
  | f + 1, p =>
    if p ≤ last then
      if p ≥ np then none
      else if has.getD p false then some p
      else scanFirst has np last f (p + 1)
    else some p

/-- the `while point_ix <= end_point_ix { if has(point_ix) { interpolate(cur+1 ..= point_ix-1,
(cur, point_ix)); cur = point_ix } point_ix += 1 }` loop: the calls made and the final
`cur_delta_ix`. -/
def innerLoop (has : List Bool) (np last : Nat) : Nat → Nat → Nat → List Call → Option (List Call × Nat)
  | 0, _, cur, calls => some (calls, cur)
  | f + 1, p, cur, calls =>
    if p ≤ last then
      if p ≥ np then none
      else if has.getD p false then
        innerLoop has np last f (p + 1) p (calls ++ [⟨cur + 1, p - 1, cur, p, false⟩])
      else innerLoop has np last f (p + 1) cur calls
    else some (calls, cur)

/-- the body of `for &end_point_ix in contours` for one contour starting at `point_ix = first`:
the calls made and the new `point_ix`. -/
def readerContourCalls (has : List Bool) (np first last : Nat) : Option (List Call × Nat) :=
  match scanFirst has np last (last + 2 - first) first with
  | none => none
  | some fd =>
    if fd > last then some ([], fd)          -- no deltas in this contour (or `first > last`)
    else
      match innerLoop has np last (last + 1 - fd) (fd + 1) fd [] with
      | none => none
      | some (calls, cur) =>
        if cur = fd then some (calls ++ [⟨first, last, cur, cur, true⟩], last + 1)
        else
          some (calls ++ [⟨cur + 1, last, cur, fd, false⟩] ++
            (if fd > 0 then [⟨first, fd - 1, cur, fd, false⟩] else []), last + 1)

/-- all calls of `interpolate_deltas`, contour after contour -/
def readerCalls (has : List Bool) (np : Nat) : List Nat → Nat → List Call → Option (List Call)
  | [], _, acc => some acc
  | e :: ends, p, acc =>
    match readerContourCalls has np p e with
    | none => none
    | some (calls, p') => readerCalls has np ends p' (acc ++ calls)

def fxAdd (a b : Int) : Int := wrapI32 (a + b)
def fxSub (a b : Int) : Int := wrapI32 (a - b)
def fxFromI32 (i : Int) : Int := wrapI32 (i * 65536)
/-- `impl Mul for Fixed` -/
def fxMul (a b : Int) : Int :=
  let ab := a * b
  wrapI32 ((ab + 32768 - (if ab < 0 then 1 else 0)) / 65536)
/-- `impl Div for Fixed` -/
def fxDiv (a b : Int) : Int :=
  let ua := iabs a
  let ub := iabs b
  let neg := (a < 0) != (b < 0)
  let q := if ub = 0 then 2147483647 else wrapU32 ((ua * 65536 + ub / 2) / ub)
  if neg then wrapI32 (-(wrapI32 q)) else wrapI32 q

/-- one axis of `Jiggler::interpolate` (the `interp_coord!` macro) for the point with original
coordinate `c` and current working value `old`; `p1`/`p2` are the original coordinates of
`RefPoints(r1, r2)`, `o1`/`o2` their working values. -/
def fxInterpAxis (p1 o1 p2 o2 c old : Int) : Int :=
  -- `if points[ref1] > points[ref2] { swap }` compares the unconverted coordinates
  let sw := decide (p1 > p2)
  let in1 := fxFromI32 (if sw then p2 else p1)
  let in2 := fxFromI32 (if sw then p1 else p2)
  let out1 := if sw then o2 else o1
  let out2 := if sw then o1 else o2
  if in1 ≠ in2 ∨ out1 = out2 then
    let scale := if in1 ≠ in2 then fxDiv (fxSub out2 out1) (fxSub in2 in1) else 0
    let d1 := fxSub out1 in1
    let d2 := fxSub out2 in2
    let out := fxFromI32 c
    if out ≤ in1 then fxAdd out d1
    else if out ≥ in2 then fxAdd out d2
    else fxAdd out1 (fxMul (fxSub out in1) scale)
  else old

/-- apply one call to the working points -/
def applyCall (pts out : List Pt) (c : Call) : List Pt :=
  if c.hi < c.lo then out else
  let p1 := getP pts c.r1
  let p2 := getP pts c.r2
  let o1 := getP out c.r1
  let o2 := getP out c.r2
  if c.shift then
    let dx := fxSub o1.1 (fxFromI32 p1.1)
    let dy := fxSub o1.2 (fxFromI32 p1.2)
    if dx = 0 ∧ dy = 0 then out else
    (List.range out.length).map fun k =>
      let o := getP out k
      if c.lo ≤ k ∧ k ≤ c.hi ∧ k ≠ c.r1 then (fxAdd o.1 dx, fxAdd o.2 dy) else o
  else
    (List.range out.length).map fun k =>
      let o := getP out k
      if c.lo ≤ k ∧ k ≤ c.hi then
        (fxInterpAxis p1.1 o1.1 p2.1 o2.1 (getP pts k).1 o.1,
         fxInterpAxis p1.2 o1.2 p2.2 o2.2 (getP pts k).2 o.2)
      else o

/-- `interpolate_deltas(points, flags, contours, out_points)`: the final working points, or `none`
when the function returns `None`. -/
def readerInterpolate (pts : List Pt) (has : List Bool) (ends : List Nat) (out : List Pt) :
    Option (List Pt) :=
  match readerCalls has pts.length ends 0 [] with
  | none => none
  | some calls => some (calls.foldl (applyCall pts) out)

/-- does call `c` write point `k`? (`shift` skips its reference point) -/
def covers (c : Call) (k : Nat) : Bool :=
  decide (c.lo ≤ k) && decide (k ≤ c.hi) && !(c.shift && decide (k = c.r1))

/-- the delta `interpolate_deltas` gives point `k`, with the calls of the loop-faithful model but
the per-point arithmetic done exactly (`readerAxis`; `shift(r)` is `interpolate` with both
references `r`): the stored delta for an explicit point, zero for a point no call writes. -/
def readerExactAt (cs ds : List Pt) (has : List Bool) (calls : List Call) (k : Nat) :
    (Int × Int) × (Int × Int) :=
  if has.getD k false then (((getP ds k).1, 1), ((getP ds k).2, 1)) else
  match calls.find? (fun c => covers c k) with
  | some c => readerPoint cs ds c.r1 c.r2 k
  | none => ((0, 1), (0, 1))

end FontVerif.Iup
