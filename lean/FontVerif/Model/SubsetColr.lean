/-
Model of the COLR subsetter of klippa (post-fix 9be19c4, bf538d7, 634af31, 409a0cf, 4de3654, 9baf987, 32aa83b) and of the part of the
plan that feeds it:

  klippa/src/colr.rs   Colr::subset, serialize_v0, downgrade_to_v0,
                       `impl SubsetTable` for &[BaseGlyph], &[Layer], BaseGlyphList, BaseGlyphPaint,
                       LayerList, ClipList (+ serialize_clips, serialize_clip), ClipBox{,Format1,Format2},
                       ColorStop, VarColorStop, ColorLine, VarColorLine, Paint and all 32 paint formats,
                       Affine2x3, VarAffine2x3, create_deltaset_index_map_subset_plan
  klippa/src/lib.rs    remap_indices, remap_variation_indices, generate_varstore_inner_maps,
                       remap_delta_set_indices and the variation part of Plan::colr_closure
  klippa/src/variations.rs   ItemVariationStore::subset / DeltaSetIndexMap::serialize — REUSED from
                       `Model/SubsetHvar.lean` (`subsetStore`, `subBytes`, `regionListBytes`, `serializeMap`)
  klippa/src/offset.rs, offset_array.rs, serialize.rs — `Model/SubsetColrSer.lean`
  read-fonts generated_colr.rs — the `read` functions (which byte ranges must exist), offset resolution
                       (`ResolveOffset`: 0 = NullOffset, `split_off`), `ArrayOfOffsets::get`

Input: the bytes of the source COLR table (an `Array` for O(1) access) and the plan fields the code reads
(`PlanIn`; every hash map as an association list — only `get` / `contains_key` / `len` / `is_empty` are
used on them, so iteration order never matters).

Outcomes (`R`): `ok bytes`; `dropped` = `Colr::subset` returned `Err` while the serializer carries no
error (`lib.rs subset` then omits the table) or an offset overflowed; `fail` = a serializer error was
set (`subset_font` returns `Err`); `trap` = panic.

The paint graph is walked exactly like the Rust does: recursion along 24-bit offsets, children packed
before parents (`Offset24::serialize_subset`), every object handed to `pop_pack(share = true)`.  Child
offsets are strictly positive, so a child always starts behind its parent: the recursion is bounded by
the table length (`fuel`, never exhausted: `Lemmas/SubsetColr*.lean`).
-/
import FontVerif.Model.SubsetColrSer
import FontVerif.Model.Layout
namespace FontVerif.SubsetColr
open FontVerif FontVerif.ColrSer
open FontVerif.SubsetHvar (Err R)

/-! ## source access -/

def rd (w : Nat) (b : Array Nat) (p : Nat) : Option Nat :=
  if p + w ≤ b.size then some (beValue (b.extract p (p + w)).toList) else none

/-- `data.get(p .. p + n)` -/
def sl (b : Array Nat) (p n : Nat) : Option (List Nat) :=
  if p + n ≤ b.size then some (b.extract p (p + n)).toList else none

def NO_VARIATION_INDEX : Nat := 0xFFFFFFFF

/-- the plan fields read by `Colr::subset` -/
structure PlanIn where
  /-- `glyphset_colred`, ascending -/
  colred : List Nat
  /-- `glyph_map`: old → new -/
  glyphMap : List (Nat × Nat)
  /-- `colr_palettes` -/
  palettes : List (Nat × Nat)
  /-- `colrv1_layers` -/
  layers : List (Nat × Nat)
  /-- `colr_varidx_delta_map` (the delta component is always 0) -/
  varIdx : List (Nat × Nat)
  /-- `colr_varstore_inner_maps` (`IncBiMap::keys` of each) -/
  innerMaps : List (List Nat)
  /-- `colr_new_deltaset_idx_varidx_map` -/
  newDs : List (Nat × Nat)
  deriving Repr

/-! ## lib.rs: the index maps of the plan -/

/-- `remap_indices` for the layer indices (u32): the i-th smallest index ↦ i
(fix: the rank used to be truncated to u16) -/
def remapIndices (xs : List Nat) : List (Nat × Nat) :=
  xs.zipIdx.map fun (x, i) => (x, i)

/-- loop of `remap_variation_indices`: state (new_major, new_minor, last_major) -/
def remapVarGo (count : Nat) : List Nat → Nat → Nat → Nat → List (Nat × Nat)
  | [], _, _, _ => []
  | v :: rest, newMajor, newMinor, lastMajor =>
    let major := v / 65536
    if major ≥ count then []
    else
      let (newMajor, newMinor) := if major ≠ lastMajor then (newMajor + 1, 0) else (newMajor, newMinor)
      (v, (newMajor * 65536 + newMinor) % 4294967296) :: remapVarGo count rest newMajor (newMinor + 1) major

/-- `remap_variation_indices(vardata_count, varidx_set)` -/
def remapVariationIndices (count : Nat) (set : List Nat) : List (Nat × Nat) :=
  match set with
  | [] => []
  | first :: _ => if count = 0 then [] else remapVarGo count set 0 0 (first / 65536)

/-- `generate_varstore_inner_maps` -/
def genInnerMaps (set : List Nat) (count : Nat) : List (List Nat) :=
  if set.isEmpty ∨ count = 0 then []
  else
    let used := set.takeWhile (fun v => v / 65536 < count)
    (List.range count).map fun m => (used.filter (fun v => v / 65536 = m)).map (· % 65536)

/-- `remap_delta_set_indices`: returns (new delta-set index → new var index, old delta-set index → new) -/
def remapDeltaSetGo (dsVar : List (Nat × Nat)) (varMap : List (Nat × Nat)) :
    List Nat → Nat → List (Nat × Nat) × List (Nat × Nat)
  | [], _ => ([], [])
  | d :: rest, newIdx =>
    match dsVar.lookup d with
    | none => remapDeltaSetGo dsVar varMap rest newIdx
    | some v =>
      let nv : Option Nat := if v = NO_VARIATION_INDEX then some NO_VARIATION_INDEX else varMap.lookup v
      match nv with
      | none => remapDeltaSetGo dsVar varMap rest newIdx
      | some nv =>
        let r := remapDeltaSetGo dsVar varMap rest (newIdx + 1)
        ((newIdx, nv) :: r.1, (d, newIdx) :: r.2)

/-- source `DeltaSetIndexMap` of COLR as `colr.var_index_map()` reports it -/
inductive DsimIn where
  | null
  | bad
  | ok (entryFormat mapCount : Nat) (data : List Nat)
  deriving Repr

/-- the variation part of `Plan::colr_closure`: from the indices collected by `v1_closure`
to (`colr_varidx_delta_map`, `colr_varstore_inner_maps`, `colr_new_deltaset_idx_varidx_map`).
`storeCount` = `Some(Ok(store)).item_variation_data_count()`, `none` otherwise. -/
def varPlan (storeCount : Option Nat) (dsim : DsimIn) (collected : List Nat) :
    List (Nat × Nat) × List (List Nat) × List (Nat × Nat) :=
  if collected.isEmpty then ([], [], []) else
  match storeCount with
  | none => (collected.map fun v => (v, NO_VARIATION_INDEX), [], [])    -- fix 32aa83b
  | some count =>
    match dsim with
    | .bad => ([], [], [])
    | .null =>
      (remapVariationIndices count collected, genInnerMaps collected count, [])
    | .ok ef mc data =>
      let dsVar : List (Nat × Nat) := collected.filterMap fun d =>
        (Tent.dsimGet ef mc data d).map fun (o, i) => (d, o * 65536 + i)
      let varSet := SubsetHvar.setAddAll [] (dsVar.map (·.2))
      let varMap := remapVariationIndices count varSet
      let r := remapDeltaSetGo dsVar varMap collected 0
      (r.2, genInnerMaps varSet count, r.1)

/-! ## header -/

structure Header where
  version : Nat
  numBase : Nat
  baseOff : Nat
  layerOff : Nat
  numLayers : Nat
  /-- baseGlyphList, layerList, clipList, varIndexMap, itemVariationStore offsets when version ≥ 1 -/
  v1 : Option (Nat × Nat × Nat × Nat × Nat)
  deriving Repr

/-- `Colr::read` -/
def readHeader (b : Array Nat) : Option Header := do
  let version ← rd 2 b 0
  let numBase ← rd 2 b 2
  let baseOff ← rd 4 b 4
  let layerOff ← rd 4 b 8
  let numLayers ← rd 2 b 12
  if version ≥ 1 then
    let a ← rd 4 b 14
    let l ← rd 4 b 18
    let c ← rd 4 b 22
    let m ← rd 4 b 26
    let s ← rd 4 b 30
    pure { version, numBase, baseOff, layerOff, numLayers, v1 := some (a, l, c, m, s) }
  else pure { version, numBase, baseOff, layerOff, numLayers, v1 := none }

/-! ## paints -/

/-- byte length of the fixed part of a paint table, by format -/
def paintSize : Nat → Option Nat
  | 1 => some 6 | 2 => some 5 | 3 => some 9
  | 4 => some 16 | 5 => some 20 | 6 => some 16 | 7 => some 20 | 8 => some 12 | 9 => some 16
  | 10 => some 6 | 11 => some 3 | 12 => some 7 | 13 => some 7
  | 14 => some 8 | 15 => some 12 | 16 => some 8 | 17 => some 12
  | 18 => some 12 | 19 => some 16 | 20 => some 6 | 21 => some 10
  | 22 => some 10 | 23 => some 14 | 24 => some 6 | 25 => some 10
  | 26 => some 10 | 27 => some 14 | 28 => some 8 | 29 => some 12
  | 30 => some 12 | 31 => some 16 | 32 => some 8
  | _ => none

/-- `Paint::read` succeeds at the absolute position `off` (known format, fixed part inside the table) -/
def paintOk (b : Array Nat) (off : Nat) : Bool :=
  match rd 1 b off with
  | none => false
  | some f =>
    match paintSize f with
    | none => false
    | some sz => off + sz ≤ b.size

/-- resolve a non-nullable offset field of width `w` at `base + pos` relative to `base`:
`none` = NullOffset / OutOfBounds -/
def resolveOff (b : Array Nat) (w base pos : Nat) : Option Nat := do
  let v ← rd w b (base + pos)
  if v = 0 then none
  if base + v ≤ b.size then some (base + v) else none

def lookupOrFail (m : List (Nat × Nat)) (k : Nat) : R Nat :=
  match m.lookup k with
  | some v => pure v
  | none => throw Err.fail

/-- remap a `VarIdxBase` field at `pos` of the bytes just embedded -/
def patchVar (p : PlanIn) (bytes : List Nat) (pos : Nat) : R (List Nat) :=
  if beValue ((bytes.drop pos).take 4) = NO_VARIATION_INDEX then pure bytes
  else match p.varIdx.lookup (beValue ((bytes.drop pos).take 4)) with
    | none => throw Err.fail
    | some nv => pure (writeBE bytes pos 4 nv)

/-- `pop_pack(true)` + `add_link` of `serialize_subset`; an empty object makes it return `Err(s.error())`
with no error set -/
def packChild (packed : List Obj) (o : Obj) : R (Nat × List Obj) :=
  match popPack packed o with
  | (pk, some i) => pure (i, pk)
  | (_, none) => throw Err.dropped

/-- one `ColorStop` / `VarColorStop` at absolute position `q` -/
def stopBytes (b : Array Nat) (p : PlanIn) (isVar : Bool) (q : Nat) : R (List Nat) :=
  match sl b q 2, rd 2 b (q + 2), sl b (q + 4) 2 with
  | some so, some pal, some alpha =>
    match p.palettes.lookup pal with
    | none => throw Err.fail
    | some npal =>
      if isVar then
        match rd 4 b (q + 6) with
        | none => throw Err.fail
        | some v =>
          if v = NO_VARIATION_INDEX then pure (so ++ beBytes 2 npal ++ alpha ++ beBytes 4 v)
          else match p.varIdx.lookup v with
            | none => throw Err.fail
            | some nv => pure (so ++ beBytes 2 npal ++ alpha ++ beBytes 4 nv)
      else pure (so ++ beBytes 2 npal ++ alpha)
  | _, _, _ => throw Err.fail

/-- the stops `i .. i + n` of a colour line whose stop array starts at `base` -/
def stopsGo (b : Array Nat) (p : PlanIn) (isVar : Bool) (base : Nat) : Nat → Nat → R (List Nat)
  | _, 0 => pure []
  | i, n + 1 =>
    stopBytes b p isVar (base + i * (if isVar then 10 else 6)) >>= fun s =>
    stopsGo b p isVar base (i + 1) n >>= fun rest => pure (s ++ rest)

/-- `ColorLine::subset` / `VarColorLine::subset` on the colour line at absolute position `off` -/
def colorLineObj (b : Array Nat) (p : PlanIn) (off : Nat) (isVar : Bool) : R Obj :=
  match rd 1 b off, rd 2 b (off + 1) with
  | some ext, some n =>
    if off + 3 + n * (if isVar then 10 else 6) > b.size then throw Err.fail
    else
      stopsGo b p isVar (off + 3) 0 n >>= fun stops =>
      -- `Extend` is an enum: unknown values read as `Unknown` (= 3) and are written back as such
      pure ⟨[if ext ≤ 2 then ext else 3] ++ beBytes 2 n ++ stops, []⟩
  | _, _ => throw Err.fail

/-- positions of the 24-bit offsets to child PAINTS, in the order `subset` follows them -/
def kidPositions (fmt : Nat) : List Nat :=
  if fmt = 32 then [1, 5] else if fmt = 10 ∨ (12 ≤ fmt ∧ fmt ≤ 31) then [1] else []

/-- the non-paint child of a paint: a colour line or an affine matrix -/
inductive Blob where
  | line (isVar : Bool)
  | affine (isVar : Bool)
  deriving Repr, DecidableEq

/-- position of the 24-bit offset to the non-paint child (followed after the child paints) -/
def blobOf (fmt : Nat) : Option (Nat × Blob) :=
  if 4 ≤ fmt ∧ fmt ≤ 9 then some (1, .line (fmt % 2 = 1))
  else if fmt = 12 then some (4, .affine false)
  else if fmt = 13 then some (4, .affine true)
  else none

/-- the bytes of the object a paint of format `fmt` with fixed part `src` becomes: ids renamed through
the plan's maps; the offset fields are zero where the Rust writes the fields one by one (formats 10, 12,
13, 32) and keep the SOURCE offset (overwritten when links are resolved, but taking part in the object
comparison of `pop_pack`) where it embeds `min_table_bytes()`.  Any failed lookup is
`set_err(SERIALIZE_ERROR_OTHER)`: the order of the checks relative to the children does not matter. -/
def renameNode (p : PlanIn) (fmt : Nat) (src : List Nat) : R (List Nat) :=
  if fmt = 1 then
    -- PaintColrLayers (an empty range is copied as is: fix b17fcc8)
    if src.getD 1 0 = 0 then pure src
    else match p.layers.lookup (beValue ((src.drop 2).take 4)) with
      | none => throw Err.fail
      | some nf => pure (writeBE src 2 4 nf)
  else if fmt = 2 ∨ fmt = 3 then
    -- PaintSolid / PaintVarSolid
    match p.palettes.lookup (beValue ((src.drop 1).take 2)) with
    | none => throw Err.fail
    | some npal => if fmt = 3 then patchVar p (writeBE src 1 2 npal) 5 else pure (writeBE src 1 2 npal)
  else if fmt = 10 then
    -- PaintGlyph
    match p.glyphMap.lookup (beValue ((src.drop 4).take 2)) with
    | none => throw Err.fail
    | some ng => pure ([10, 0, 0, 0] ++ beBytes 2 ng)
  else if fmt = 11 then
    -- PaintColrGlyph
    match p.glyphMap.lookup (beValue ((src.drop 1).take 2)) with
    | none => throw Err.fail
    | some ng => pure ([11] ++ beBytes 2 ng)
  else if fmt = 12 ∨ fmt = 13 then pure [fmt, 0, 0, 0, 0, 0, 0]
  else if fmt = 32 then
    -- `CompositeMode` is an enum: unknown values are written back as `Unknown` (= 28)
    pure [32, 0, 0, 0, if src.getD 4 0 ≤ 27 then src.getD 4 0 else 28, 0, 0, 0]
  else
    -- gradients 4..9 and formats 14..31: the source bytes; odd formats: VarIdxBase is the last field
    if fmt % 2 = 1 then patchVar p src (src.length - 4) else pure src

/-- build an object for every item (which may pack objects of its own), pack it (`serialize_subset`),
and collect the indices of the packed objects in order -/
def packEach {α : Type} (build : α → List Obj → R (Obj × List Obj)) :
    List α → List Obj → R (List Nat × List Obj)
  | [], packed => pure ([], packed)
  | a :: as, packed =>
    build a packed >>= fun r =>
    packChild r.2 r.1 >>= fun ip =>
    packEach build as ip.2 >>= fun more =>
    pure (ip.1 :: more.1, more.2)

/-- links of width `width` at the positions `first + k * stride` to the `k`-th target -/
def linksAt (first stride width : Nat) (targets : List Nat) : List Link :=
  targets.zipIdx.map fun tk => ⟨first + tk.2 * stride, width, tk.1⟩

/-- the child paint behind the 24-bit offset at `pos` of the paint at `off`: resolve, read, subset -/
def kidBuild (rec : Nat → List Obj → R (Obj × List Obj)) (b : Array Nat) (off : Nat) (pos : Nat)
    (packed : List Obj) : R (Obj × List Obj) :=
  match resolveOff b 3 off pos with
  | none => throw Err.fail
  | some c => if !paintOk b c then throw Err.fail else rec c packed

/-- follow the child paint offsets at `positions` of the paint at `off`; returns the links and the packed
list -/
def packKids (rec : Nat → List Obj → R (Obj × List Obj)) (b : Array Nat) (off : Nat)
    (positions : List Nat) (packed : List Obj) : R (List Link × List Obj) :=
  packEach (kidBuild rec b off) positions packed >>= fun tp =>
  pure (List.zipWith (fun pos t => ⟨pos, 3, t⟩) positions tp.1, tp.2)

/-- the object of the non-paint child behind the offset at `pos` -/
def blobObj (b : Array Nat) (p : PlanIn) (off pos : Nat) (kind : Blob) : R Obj :=
  match resolveOff b 3 off pos with
  | none => throw Err.fail
  | some c =>
    match kind with
    | .line isVar => colorLineObj b p c isVar
    | .affine isVar =>
      match sl b c (if isVar then 28 else 24) with
      | none => throw Err.fail
      | some a => if isVar then patchVar p a 24 >>= fun a' => pure ⟨a', []⟩ else pure ⟨a, []⟩

def packBlob (b : Array Nat) (p : PlanIn) (off : Nat) (spec : Option (Nat × Blob)) (packed : List Obj) :
    R (List Link × List Obj) :=
  match spec with
  | none => pure ([], packed)
  | some (pos, kind) =>
    blobObj b p off pos kind >>= fun o =>
    packChild packed o >>= fun ip => pure ([⟨pos, 3, ip.1⟩], ip.2)

/-- `Paint::subset` for the paint at absolute position `off` (already read successfully by the caller):
the object to pack and the packed list after its children. -/
def subsetPaint (b : Array Nat) (p : PlanIn) : Nat → Nat → List Obj → R (Obj × List Obj)
  | 0, _, _ => throw Err.trap
  | fuel + 1, off, packed =>
    match rd 1 b off with
    | none => throw Err.fail
    | some fmt =>
      match paintSize fmt with
      | none => throw Err.fail
      | some size =>
        match sl b off size with
        | none => throw Err.fail
        | some src =>
          renameNode p fmt src >>= fun bytes =>
          packKids (subsetPaint b p fuel) b off (kidPositions fmt) packed >>= fun ks =>
          packBlob b p off (blobOf fmt) ks.2 >>= fun bl =>
          pure (⟨bytes, ks.1 ++ bl.1⟩, bl.2)

/-- fuel that is never exhausted: a child starts behind its parent -/
def paintFuel (b : Array Nat) : Nat := b.size + 1

/-! ## BaseGlyphList, LayerList, ClipList -/

/-- records of the `BaseGlyphList` at `off`: (glyph id, raw paint offset); `none` = read error -/
def baseGlyphPaintRecords (b : Array Nat) (off : Nat) : Option (List (Nat × Nat)) := do
  let n ← rd 4 b off
  if off + 4 + n * 6 > b.size then none
  (List.range n).mapM fun i => do
    let g ← rd 2 b (off + 4 + 6 * i)
    let o ← rd 4 b (off + 4 + 6 * i + 2)
    pure (g, o)

/-- one `BaseGlyphPaint::subset`: glyph id through the glyph map, `self.paint(offset_data)`, the paint -/
def bglBuild (b : Array Nat) (p : PlanIn) (off : Nat) (r : Nat × Nat) (packed : List Obj) : R (Obj × List Obj) :=
  match p.glyphMap.lookup r.1 with
  | none => throw Err.fail
  | some _ =>
    if r.2 = 0 ∨ off + r.2 > b.size then throw Err.fail
    else if !paintOk b (off + r.2) then throw Err.fail
    else subsetPaint b p (paintFuel b) (off + r.2) packed

/-- `BaseGlyphList::subset`: the records whose glyph is in `glyphset_colred`, in source order -/
def baseListObj (b : Array Nat) (p : PlanIn) (off : Nat) (recs : List (Nat × Nat)) (packed : List Obj) :
    R (Obj × List Obj) :=
  let kept := recs.filter fun r => p.colred.contains r.1
  packEach (bglBuild b p off) kept packed >>= fun tp =>
  pure (⟨beBytes 4 (kept.length % 4294967296) ++
          kept.flatMap (fun r => beBytes 2 ((p.glyphMap.lookup r.1).getD 0) ++ [0, 0, 0, 0]),
         linksAt 6 6 4 tp.1⟩, tp.2)

/-- one retained layer: `ArrayOfOffsets::get(idx)` (read error ⇒ Err(READ_ERROR) without a serializer
error), then the paint -/
def layerBuild (b : Array Nat) (p : PlanIn) (off : Nat) (idx : Nat) (packed : List Obj) : R (Obj × List Obj) :=
  match resolveOff b 4 off (4 + 4 * idx) with
  | none => throw Err.dropped
  | some c => if !paintOk b c then throw Err.dropped else subsetPaint b p (paintFuel b) c packed

/-- `LayerList::subset`; `none` = `SERIALIZE_ERROR_EMPTY` (nothing written, offset stays 0) -/
def layerListObj (b : Array Nat) (p : PlanIn) (off numLayers : Nat) (packed : List Obj) :
    R (Option (Obj × List Obj)) :=
  if p.layers.isEmpty then pure none
  else
    let kept := (List.range numLayers).filter fun i => (p.layers.lookup i).isSome
    packEach (layerBuild b p off) kept packed >>= fun tp =>
    pure (some (⟨beBytes 4 (p.layers.length % 4294967296) ++ List.replicate (4 * kept.length) 0,
                 linksAt 4 4 4 tp.1⟩, tp.2))

/-- the clips of the `ClipList` at `off`: (start, end, raw box offset) -/
def clipRecords (b : Array Nat) (off : Nat) : Option (List (Nat × Nat × Nat)) := do
  let n ← rd 4 b (off + 1)
  if off + 5 + n * 7 > b.size then none
  (List.range n).mapM fun i => do
    let s ← rd 2 b (off + 5 + 7 * i)
    let e ← rd 2 b (off + 5 + 7 * i + 2)
    let o ← rd 3 b (off + 5 + 7 * i + 4)
    pure (s, e, o)

/-- insert / overwrite in an association list kept sorted by key (`new_gids_set` + `new_gids_offset_map`) -/
def amInsert (k v : Nat) : List (Nat × Nat) → List (Nat × Nat)
  | [] => [(k, v)]
  | (k', v') :: rest =>
    if k < k' then (k, v) :: (k', v') :: rest
    else if k = k' then (k, v) :: rest
    else (k', v') :: amInsert k v rest

/-- first loop of `ClipList::subset`: new gid → box offset -/
def clipMap (p : PlanIn) (clips : List (Nat × Nat × Nat)) : List (Nat × Nat) :=
  match p.colred.head?, p.colred.getLast? with
  | some first, some last =>
    clips.foldl (fun m (s, e, o) =>
      if e < first ∨ s > last then m
      else (p.colred.filter fun g => s ≤ g ∧ g ≤ e).foldl (fun m g =>
        match p.glyphMap.lookup g with
        | none => m
        | some ng => amInsert (ng % 65536) o m) m) []
  | _, _ => []

/-- `serialize_clips`: runs of consecutive new gids with the same box offset → (start, end, offset) -/
def clipRuns : List (Nat × Nat) → Nat → Nat → Nat → List (Nat × Nat × Nat)
  | [], start, prev, off => [(start, prev, off)]
  | (g, o) :: rest, start, prev, off =>
    if g = prev + 1 ∧ o = off then clipRuns rest start g off
    else (start, prev, off) :: clipRuns rest g g o

/-- `ClipBox::subset` for the box behind the raw offset `o` of the ClipList at `off`;
`prev_offset.resolve(..)`: errors are returned without setting a serializer error -/
def clipBoxObj (b : Array Nat) (p : PlanIn) (off o : Nat) : R Obj :=
  if o = 0 ∨ off + o > b.size then throw Err.dropped
  else
    match rd 1 b (off + o) with
    | none => throw Err.dropped
    | some fmt =>
      if fmt = 1 then
        match sl b (off + o) 9 with
        | none => throw Err.dropped
        | some src => pure ⟨src, []⟩
      else if fmt = 2 then
        match sl b (off + o) 13 with
        | none => throw Err.dropped
        | some src => patchVar p src 9 >>= fun bytes => pure ⟨bytes, []⟩
      else throw Err.dropped

/-- `ClipList::subset`; `none` = `SERIALIZE_ERROR_EMPTY` -/
def clipListObj (b : Array Nat) (p : PlanIn) (off : Nat) (clips : List (Nat × Nat × Nat))
    (packed : List Obj) : R (Option (Obj × List Obj)) :=
  match clipMap p clips with
  | [] => pure none
  | (g0, o0) :: rest =>
    let runs := clipRuns rest g0 g0 o0
    match rd 1 b off with
    | none => throw Err.dropped
    | some fmt =>
      packEach (fun (r : Nat × Nat × Nat) pk => clipBoxObj b p off r.2.2 >>= fun o => pure (o, pk)) runs packed
        >>= fun tp =>
      pure (some (⟨[fmt] ++ beBytes 4 (runs.length % 4294967296) ++
                    runs.flatMap (fun r => beBytes 2 r.1 ++ beBytes 2 r.2.1 ++ [0, 0, 0]),
                   linksAt 9 7 3 tp.1⟩, tp.2))

/-! ## the variation tables of COLR -/

def toI16 (v : Nat) : Int := if v ≥ 32768 then (v : Int) - 65536 else v

structure StoreIn where
  format : Nat
  /-- `variation_region_list()`: axis count and regions; `none` = read error -/
  regions : Option (Nat × List (List (Int × Int × Int)))
  subs : List SubsetHvar.SubIn
  deriving Repr

/-- one `ItemVariationData` at absolute position `q` -/
def readVarData (b : Array Nat) (q : Nat) : SubsetHvar.SubIn :=
  match rd 2 b q, rd 2 b (q + 2), rd 2 b (q + 4) with
  | some ic, some wdc, some ric =>
    match (List.range ric).mapM (fun i => rd 2 b (q + 6 + 2 * i)) with
    | none => .bad
    | some ris =>
      match sl b (q + 6 + 2 * ric) (Tent.deltaRowLen wdc ric * ic) with
      | none => .bad
      | some data => .ok { itemCount := ic, wordDeltaCount := wdc, regionIndexes := ris, data }
  | _, _, _ => .bad

/-- `ItemVariationStore::read` at `off` + the lazily resolved pieces; outer `none` = `Some(Err(_))` -/
def readStore (b : Array Nat) (off : Nat) : Option StoreIn := do
  if off > b.size then none
  let format ← rd 2 b off
  let rlOff ← rd 4 b (off + 2)
  let count ← rd 2 b (off + 6)
  if off + 8 + 4 * count > b.size then none
  let regions : Option (Nat × List (List (Int × Int × Int))) := do
    if rlOff = 0 ∨ off + rlOff > b.size then none
    let q := off + rlOff
    let ac ← rd 2 b q
    let rc ← rd 2 b (q + 2)
    if q + 4 + rc * ac * 6 > b.size then none
    let regs ← (List.range rc).mapM fun r => (List.range ac).mapM fun a => do
      let base := q + 4 + (r * ac + a) * 6
      let s ← rd 2 b base
      let pk ← rd 2 b (base + 2)
      let e ← rd 2 b (base + 4)
      pure (toI16 s, toI16 pk, toI16 e)
    pure (ac, regs)
  let subs ← (List.range count).mapM fun i => do
    let o ← rd 4 b (off + 8 + 4 * i)
    if o = 0 then pure SubsetHvar.SubIn.null
    else if off + o > b.size then pure SubsetHvar.SubIn.bad
    else pure (readVarData b (off + o))
  pure { format, regions, subs }

/-- `DeltaSetIndexMap::read` at `off` -/
def readDsim (b : Array Nat) (off : Nat) : DsimIn :=
  if off > b.size then .bad else
  match rd 1 b off, rd 1 b (off + 1) with
  | some fmt, some ef =>
    let entrySize := ef / 16 % 4 + 1
    if fmt = 0 then
      match rd 2 b (off + 2) with
      | some mc => match sl b (off + 4) (entrySize * mc) with
        | some data => .ok ef mc data
        | none => .bad
      | none => .bad
    else if fmt = 1 then
      match rd 4 b (off + 2) with
      | some mc => match sl b (off + 6) (entrySize * mc) with
        | some data => .ok ef mc data
        | none => .bad
      | none => .bad
    else .bad
  | _, _ => .bad

/-- `Offset32::serialize_subset(&var_store, .., &plan.colr_varstore_inner_maps, 30)`:
`none` = `SERIALIZE_ERROR_EMPTY` (tolerated: the offset stays 0) -/
def storeObj (st : StoreIn) (innerMaps : List (List Nat)) (packed : List Obj) : R (Option (Obj × List Obj)) :=
  if innerMaps.isEmpty then pure none
  else
    match st.regions with
    -- `variation_region_list()` error: Err(READ_ERROR) without a serializer error
    | none => throw Err.dropped
    | some (axisCount, regions) =>
      SubsetHvar.collectAll st.subs innerMaps [] >>= fun refs =>
      if (refs.filter (· < regions.length)).isEmpty then pure none
      else
        SubsetHvar.subsetStore axisCount regions st.subs innerMaps >>= fun out =>
        -- the region list is packed first, then every retained ItemVariationData
        packEach (fun (o : Obj) pk => pure (o, pk))
          (⟨SubsetHvar.regionListBytes axisCount out.regions, []⟩ ::
            out.subs.map fun sub => ⟨SubsetHvar.subBytes sub, []⟩) packed >>= fun tp =>
        pure (some (⟨beBytes 2 st.format ++ [0, 0, 0, 0] ++ beBytes 2 (out.subs.length % 65536) ++
                      List.replicate (4 * out.subs.length) 0,
                     ⟨2, 4, tp.1.headD 0⟩ :: linksAt 8 4 4 tp.1.tail⟩, tp.2))

/-- `create_deltaset_index_map_subset_plan` -/
def dsimPlan (newDs : List (Nat × Nat)) : R (Option SubsetHvar.MapPlan) :=
  let count := newDs.length
  if count = 0 then pure none else
  match newDs.lookup (count - 1) with
  | none => throw Err.trap
  | some lastVar =>
    -- trailing entries equal to the last one are trimmed
    let rec back : Nat → Nat → R Nat
      | 0, lastIdx => pure lastIdx
      | i + 1, lastIdx =>
        match newDs.lookup i with
        | none => throw Err.trap
        | some v => if v ≠ lastVar then pure lastIdx else back i i
    do
      let lastIdx ← back (count - 1) (count - 1)
      let mapCount := lastIdx + 1
      let vals ← (List.range mapCount).mapM fun i =>
        match newDs.lookup i with
        | none => throw Err.trap
        | some v => pure v
      let outerBits := vals.foldl (fun m v => max m (Ivs.bitLen (v / 65536))) 1
      let innerBits := vals.foldl (fun m v => max m (Ivs.bitLen (v % 65536))) 1
      pure (some { mapCount, outerBits, innerBits, output := newDs })

/-! ## COLR v0 -/

/-- `n` records of three u16 at `off` -/
def readRecs3 (b : Array Nat) : Nat → Nat → Option (List (Nat × Nat × Nat))
  | _, 0 => some []
  | off, n + 1 =>
    match rd 2 b off, rd 2 b (off + 2), rd 2 b (off + 4), readRecs3 b (off + 6) n with
    | some x, some y, some z, some rest => some ((x, y, z) :: rest)
    | _, _, _, _ => none

/-- `n` records of two u16 at `off` -/
def readRecs2 (b : Array Nat) : Nat → Nat → Option (List (Nat × Nat))
  | _, 0 => some []
  | off, n + 1 =>
    match rd 2 b off, rd 2 b (off + 2), readRecs2 b (off + 4) n with
    | some x, some y, some rest => some ((x, y) :: rest)
    | _, _, _ => none

/-- the source `BaseGlyph` records: (glyph id, first layer index, num layers) -/
def baseRecords (b : Array Nat) (h : Header) : Option (List (Nat × Nat × Nat)) :=
  if h.baseOff + 6 * h.numBase > b.size then none else readRecs3 b h.baseOff h.numBase

/-- the source `Layer` records: (glyph id, palette index) -/
def layerRecords (b : Array Nat) (h : Header) : Option (List (Nat × Nat)) :=
  if h.layerOff + 4 * h.numLayers > b.size then none else readRecs2 b h.layerOff h.numLayers

def encodeRecs3 (rs : List (Nat × Nat × Nat)) : List Nat :=
  rs.flatMap fun r => beBytes 2 r.1 ++ beBytes 2 r.2.1 ++ beBytes 2 r.2.2

def encodeRecs2 (rs : List (Nat × Nat)) : List Nat :=
  rs.flatMap fun r => beBytes 2 r.1 ++ beBytes 2 r.2

/-- which records `serialize_v0` retains (indices into the source array): per kept glyph a binary
search when the records outnumber `|glyph set| * bit length`, else a linear filter -/
def retainedRecords (p : PlanIn) (recs : List (Nat × Nat × Nat)) : List Nat :=
  let n := recs.length
  if n > p.colred.length * Ivs.bitLen (n % 65536) then
    p.colred.filterMap fun g =>
      match Layout.binarySearchBy n (fun i => Layout.natCmp (recs[i]?.getD (0, 0, 0)).1 g) with
      | .ok i => some i
      | .err _ => none
  else
    (List.range n).filter fun i => p.colred.contains (recs[i]?.getD (0, 0, 0)).1

/-- `impl SubsetTable for &[BaseGlyph]`: the records written (new glyph id, new first layer index,
num layers) and the total number of layers; `num_layers.checked_add(..)` ⇒ set_err(INT_OVERFLOW) -/
def baseRecordsGo (p : PlanIn) : List (Nat × Nat × Nat) → Nat → R (List (Nat × Nat × Nat) × Nat)
  | [], total => pure ([], total)
  | (g, _, n) :: rest, total =>
    match p.glyphMap.lookup g with
    | none => throw Err.fail
    | some ng =>
      if total + n ≥ 65536 then throw Err.fail
      else
        baseRecordsGo p rest (total + n) >>= fun r => pure ((ng, total, n) :: r.1, r.2)

/-- the layers `f .. f + n` of the source, glyph ids and palette indices mapped -/
def layerRange (p : PlanIn) (layers : List (Nat × Nat)) : Nat → Nat → R (List (Nat × Nat))
  | _, 0 => pure []
  | f, n + 1 =>
    match layers[f]? with
    | none => throw Err.fail
    | some (g, pi) =>
      match p.glyphMap.lookup g, p.palettes.lookup pi with
      | some ng, some npi => layerRange p layers (f + 1) n >>= fun r => pure ((ng, npi) :: r)
      | _, _ => throw Err.fail

/-- `impl SubsetTable for &[Layer]` -/
def layersGo (p : PlanIn) (layers : List (Nat × Nat)) : List (Nat × Nat × Nat) → R (List (Nat × Nat))
  | [] => pure []
  | (_, f, n) :: rest =>
    layerRange p layers f n >>= fun a =>
    layersGo p layers rest >>= fun r => pure (a ++ r)

/-- `serialize_v0`: the header bytes (14 or 34), its links and the packed objects -/
def serializeV0 (b : Array Nat) (h : Header) (p : PlanIn) (toV0 : Bool) :
    R (List Nat × List Link × List Obj) :=
  if h.numBase = 0 ∧ toV0 then throw Err.dropped
  else
    let hdr := List.replicate (if toV0 then 14 else 34) 0
    if h.baseOff = 0 then pure (hdr, [], [])       -- `base_glyph_records()` is None
    else
      match baseRecords b h with
      | none => throw Err.dropped
      | some recs =>
        let idxs := retainedRecords p recs
        if idxs.isEmpty then
          (if toV0 then throw Err.dropped else pure (hdr, [], []))
        else
          let kept := idxs.map fun i => recs[i]?.getD (0, 0, 0)
          baseRecordsGo p kept 0 >>= fun bn =>
          packChild [] ⟨encodeRecs3 bn.1, []⟩ >>= fun ip =>
          let hdr := writeBE (writeBE hdr 2 2 (idxs.length % 65536)) 12 2 bn.2
          -- no layer at all: nothing to serialize, the offset stays null (fix 4de3654)
          if bn.2 = 0 then pure (hdr, [⟨4, 4, ip.1⟩], ip.2)
          -- `colr.layer_records()`: read error or NULL ⇒ Err without a serializer error (fix 2ad446b)
          else if h.layerOff = 0 then throw Err.dropped
          else
            match layerRecords b h with
            | none => throw Err.dropped
            | some layers =>
              layersGo p layers kept >>= fun lb =>
              packChild ip.2 ⟨encodeRecs2 lb, []⟩ >>= fun jp =>
              pure (hdr, [⟨4, 4, ip.1⟩, ⟨8, 4, jp.1⟩], jp.2)

/-! ## `Colr::subset` -/

/-- one optional version 1 table: `r` = its object (or `none` for SERIALIZE_ERROR_EMPTY, which leaves the
offset null), linked from the header at `pos` -/
def linkTable (r : R (Option (Obj × List Obj))) (pos : Nat) (links : List Link) (packed : List Obj) :
    R (List Link × List Obj) :=
  r >>= fun x =>
    match x with
    | none => pure (links, packed)
    | some (o, pk) => packChild pk o >>= fun ip => pure (links ++ [⟨pos, 4, ip.1⟩], ip.2)

/-- `self.base_glyph_list().transpose()`: `.ok none` = NULL offset / version 0 -/
def readBaseGlyphList (b : Array Nat) (h : Header) : R (Option (Nat × List (Nat × Nat))) :=
  match h.v1 with
  | none => pure none
  | some (a, _, _, _, _) =>
    if a = 0 then pure none
    else if a > b.size then throw Err.dropped
    else match baseGlyphPaintRecords b a with
      | none => throw Err.dropped
      | some recs => pure (some (a, recs))

/-- `downgrade_to_v0` -/
def downgradeToV0 (p : PlanIn) (bgl : Option (Nat × List (Nat × Nat))) : Bool :=
  match bgl with
  | none => true
  | some (_, recs) => !recs.any fun r => p.colred.contains r.1

/-- the version 1 part of `Colr::subset`: variation store (30), BaseGlyphList (14), LayerList (18),
ClipList (22), DeltaSetIndexMap (26), in this order -/
def v1Tables (b : Array Nat) (p : PlanIn) (bglOff : Nat) (bglRecs : List (Nat × Nat))
    (lOff cOff mOff sOff : Nat) (links : List Link) (packed : List Obj) : R (List Link × List Obj) :=
  -- ItemVariationStore
  (if sOff = 0 then pure (links, packed)
   else match readStore b sOff with
     | none => throw Err.dropped
     | some st => linkTable (storeObj st p.innerMaps packed) 30 links packed) >>= fun s1 =>
  -- BaseGlyphList
  linkTable ((baseListObj b p bglOff bglRecs s1.2).map some) 14 s1.1 s1.2 >>= fun s2 =>
  -- LayerList
  (if lOff = 0 then pure s2
   else if lOff > b.size then throw Err.dropped
   else match rd 4 b lOff with
     | none => throw Err.dropped
     | some n =>
       if lOff + 4 + 4 * n > b.size then throw Err.dropped
       else linkTable (layerListObj b p lOff n s2.2) 18 s2.1 s2.2) >>= fun s3 =>
  -- ClipList
  (if cOff = 0 then pure s3
   else if cOff > b.size then throw Err.dropped
   else match clipRecords b cOff with
     | none => throw Err.dropped
     | some clips => linkTable (clipListObj b p cOff clips s3.2) 22 s3.1 s3.2) >>= fun s4 =>
  -- DeltaSetIndexMap
  (if mOff = 0 then pure s4
   else match readDsim b mOff with
     | .bad => throw Err.dropped
     | .null => pure s4
     | .ok _ _ _ =>
       linkTable (dsimPlan p.newDs >>= fun mp =>
         match mp with
         | none => pure none
         | some mp => SubsetHvar.serializeMap mp >>= fun mo =>
             pure (some (⟨SubsetHvar.mapBytes mo, []⟩, s4.2))) 26 s4.1 s4.2)

/-- `Colr::subset` up to `end_serialize`: the packed objects and the root object -/
def colrObjects (b : Array Nat) (p : PlanIn) : R (List Obj × Obj) :=
  match readHeader b with
  | none => throw Err.dropped
  | some h =>
    readBaseGlyphList b h >>= fun bgl =>
    let toV0 := downgradeToV0 p bgl
    serializeV0 b h p toV0 >>= fun v0 =>
    if toV0 then pure (v0.2.2, ⟨v0.1, v0.2.1⟩)
    else
      match h.v1, bgl with
      | some (_, lOff, cOff, mOff, sOff), some (bglOff, bglRecs) =>
        v1Tables b p bglOff bglRecs lOff cOff mOff sOff v0.2.1 v0.2.2 >>= fun r =>
        pure (r.2, ⟨writeBE v0.1 0 2 1, r.1⟩)
      | _, _ => throw Err.trap

def subsetColr (b : Array Nat) (p : PlanIn) : R (List Nat) :=
  colrObjects b p >>= fun r => layout r.1 r.2

end FontVerif.SubsetColr
