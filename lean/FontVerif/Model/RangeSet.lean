/-
Model of `read-fonts/src/collections/range_set.rs` (`RangeSet<T>`).

`RangeSet<T>` is a `BTreeMap<T, T>` (start ↦ end, inclusive).  The model is the map's
in-order entry list `List (Int × Int)` (keys strictly ascending is the BTreeMap's own
representation invariant; every function below preserves it).  Elements are `Int`s: for
`u32`/`u16` the value itself, for `Fixed` the raw bits (`Fixed::EPSILON` is one raw unit), so
`OrdAdjacency::are_adjacent` (`checked_add(1) == rhs` either way) is `a + 1 = b ∨ b + 1 = a`
— the `checked_add` overflow case returns `None`, and `a + 1 = b` cannot hold for in-range `b`
when `a` is the type's maximum, so the unbounded reading agrees on all in-range values.
-/
namespace FontVerif.RangeSet

abbrev Ranges := List (Int × Int)

/-- `OrdAdjacency::are_adjacent` -/
def areAdjacent (a b : Int) : Bool := a + 1 == b || b + 1 == a

/-- `ranges_overlap_or_adjacent(a_start, a_end, b_start, b_end)` -/
def overlapOrAdjacent (as ae bs be : Int) : Bool :=
  (decide (as ≤ be) && decide (bs ≤ ae)) || areAdjacent ae bs || areAdjacent be as

/-- `range_is_subset(a_start, a_end, b_start, b_end)` -/
def isSubset (as ae bs be : Int) : Bool := decide (as ≥ bs) && decide (ae ≤ be)

/-- `RangeSet::prev_range`: `self.ranges.range(..start).next_back()` — the last entry whose key
is `< start`. -/
def prevRange : Ranges → Int → Option (Int × Int)
  | [], _ => none
  | (a, b) :: rest, start =>
    if a < start then
      match prevRange rest start with
      | some r => some r
      | none => some (a, b)
    else none

/-- `RangeSet::next_range`: `self.ranges.range(start..).next()` — the first entry whose key is
`≥ start`. -/
def nextRange : Ranges → Int → Option (Int × Int)
  | [], _ => none
  | (a, b) :: rest, start => if start ≤ a then some (a, b) else nextRange rest start

/-- `BTreeMap::remove(&key)` -/
def mapRemove (rs : Ranges) (k : Int) : Ranges := rs.filter (fun p => p.1 != k)

/-- `BTreeMap::insert(key, value)` (replaces the value of an existing key) -/
def mapInsert : Ranges → Int → Int → Ranges
  | [], k, v => [(k, v)]
  | (a, b) :: rest, k, v =>
    if k < a then (k, v) :: (a, b) :: rest
    else if k = a then (k, v) :: rest
    else (a, b) :: mapInsert rest k v

/-- the `loop { … }` of `RangeSet::insert`; every iteration that continues removes one entry, so
`rs.length + 1` units of fuel always suffice (`insertLoop_fuel` in Props/C14). -/
def insertLoop : Nat → Ranges → Int → Int → Ranges
  | 0, rs, s, e => mapInsert rs s e
  | fuel + 1, rs, s, e =>
    match nextRange rs s with
    | none => mapInsert rs s e
    | some (ns, ne) =>
      if isSubset s e ns ne then rs
      else if overlapOrAdjacent s e ns ne then
        insertLoop fuel (mapRemove rs ns) (min s ns) (max e ne)
      else mapInsert rs s e

/-- `RangeSet::insert(range)` -/
def insert (rs : Ranges) (s e : Int) : Ranges :=
  if e < s then rs
  else
    match prevRange rs s with
    | some (ps, pe) =>
      if isSubset s e ps pe then rs
      else if overlapOrAdjacent s e ps pe then
        let rs' := mapRemove rs ps
        insertLoop (rs'.length + 1) rs' (min s ps) (max e pe)
      else insertLoop (rs.length + 1) rs s e
    | none => insertLoop (rs.length + 1) rs s e

/-- `Extend` / `FromIterator`: insert every range in order. -/
def insertAll (rs : Ranges) (ops : List (Int × Int)) : Ranges :=
  ops.foldl (fun acc r => insert acc r.1 r.2) rs

/-- `range_intersection(a, b)` -/
def rangeIntersection (a b : Int × Int) : Option (Int × Int) :=
  if a.1 ≤ b.2 ∧ b.1 ≤ a.2 then some (max a.1 b.1, min a.2 b.2) else none

/-- `IntersectionIter::next` run to exhaustion (`step_iterators` advances the side(s) whose
current range ends first). -/
def intersection : Ranges → Ranges → Ranges
  | [], _ => []
  | _ :: _, [] => []
  | a :: as, b :: bs =>
    let out := rangeIntersection a b
    let rest :=
      if a.2 < b.2 then intersection as (b :: bs)
      else if a.2 = b.2 then intersection as bs
      else intersection (a :: as) bs
    match out with
    | some r => r :: rest
    | none => rest
termination_by as bs => as.length + bs.length
decreasing_by all_goals simp_wf <;> omega

/-- membership in the union of the ranges -/
def Mem (rs : Ranges) (x : Int) : Prop := ∃ p ∈ rs, p.1 ≤ x ∧ x ≤ p.2

/-- sorted ∧ disjoint ∧ non-adjacent ∧ well-formed (each start ≤ end) -/
def RInv (rs : Ranges) : Prop :=
  rs.Pairwise (fun p q => p.2 + 1 < q.1) ∧ ∀ p ∈ rs, p.1 ≤ p.2

end FontVerif.RangeSet
