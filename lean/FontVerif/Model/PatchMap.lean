/-
Model of IFT patch-map intersection (C19), part 1: subset definitions, entries, intersection.

Transcribes `incremental-font-transfer/src/patchmap.rs`:
`SubsetDefinition::{union, intersection, design_space_intersection}`, `Entry::intersects`,
`Entry::design_space_intersects`, `EntryIntersectionCache`, `add_intersecting_format2_patches`,
`decode_format2_entries` / `decode_format2_entry` / `format2_new_entry_id` /
`compute_format2_new_entry_index` (at the level of parsed entry fields; the sparse-bit-set codec and
`IntSet`/`RangeSet` internals belong to C14 and appear here as canonical range lists),
`IntersectionInfo` (+ `Ord`), `PatchFormat`, format-1 glyph-map / feature-map intersection.

Sets of integers (`IntSet<u32>`, `RangeSet<Fixed>`) are lists of inclusive ranges over `Int`
(`Fixed` = its raw `i32` bits).  Tags are their big-endian `u32` value (same order as `Tag: Ord`).
No imports beyond `Model.Base`: the driver is a linked executable.
-/
import FontVerif.Model.Base
namespace FontVerif.PatchMap
open FontVerif

/-! ## integer sets as inclusive range lists -/

abbrev Ranges := List (Int × Int)

/-- membership (a degenerate range `lo > hi` has no members) -/
def rMem (c : Int) (s : Ranges) : Bool := s.any fun r => decide (r.1 ≤ c) && decide (c ≤ r.2)

def rangesOverlap (r s : Int × Int) : Bool :=
  decide (r.1 ≤ r.2) && decide (s.1 ≤ s.2) && decide (r.1 ≤ s.2) && decide (s.1 ≤ r.2)

/-- `IntSet::intersects_set`, `RangeSet::intersection(..).next().is_some()` -/
def rIntersects (a b : Ranges) : Bool := a.any fun r => b.any fun s => rangesOverlap r s

/-- `IntSet::is_empty` / `RangeSet::is_empty` (on canonical lists: `[]`) -/
def rIsEmpty (a : Ranges) : Bool := !(a.any fun r => decide (r.1 ≤ r.2))

/-- `RangeSet::insert` result on a canonical (sorted, merged) list: overlapping **or adjacent**
ranges are merged (`OrdAdjacency`: `end + 1 == start`; `Fixed::EPSILON` is one raw unit). -/
def rsInsert (r : Int × Int) : Ranges → Ranges
  | [] => [r]
  | s :: rest =>
    if r.2 + 1 < s.1 then r :: s :: rest
    else if s.2 + 1 < r.1 then s :: rsInsert r rest
    else rsInsert (min r.1 s.1, max r.2 s.2) rest

/-- insert, ignoring malformed ranges (`range.end() < range.start()`) -/
def rsAdd (s : Ranges) (r : Int × Int) : Ranges := if r.2 < r.1 then s else rsInsert r s

/-- canonical form of a union of ranges -/
def rsNorm (rs : Ranges) : Ranges := rs.foldl rsAdd []

def rsUnion (a b : Ranges) : Ranges := b.foldl rsAdd a

/-- pairwise intersections (for canonical inputs: the ranges `IntersectionIter` yields, in order) -/
def rInterRaw (a b : Ranges) : Ranges :=
  a.flatMap fun r => b.filterMap fun s =>
    if rangesOverlap r s then some (max r.1 s.1, min r.2 s.2) else none

/-- `a.intersection(b).collect::<RangeSet>()` / `IntSet::intersect` -/
def rInter (a b : Ranges) : Ranges := rsNorm (rInterRaw a b)

/-- number of members of a canonical (disjoint) range list: `IntSet::len` -/
def rCount (a : Ranges) : Int := a.foldl (fun acc r => acc + (r.2 - r.1 + 1)) 0

/-- canonical lists: non-degenerate, strictly increasing with a gap of at least one value -/
def rsCanonical : Ranges → Bool
  | [] => true
  | [r] => decide (r.1 ≤ r.2)
  | r :: s :: rest => decide (r.1 ≤ r.2) && decide (r.2 + 1 < s.1) && rsCanonical (s :: rest)

/-! ## tag sets (BTreeSet<Tag>) as sorted duplicate-free lists -/

def tagInsert (t : Nat) : List Nat → List Nat
  | [] => [t]
  | x :: xs => if t < x then t :: x :: xs else if t = x then x :: xs else x :: tagInsert t xs

def tagsNorm (ts : List Nat) : List Nat := ts.foldl (fun acc t => tagInsert t acc) []

/-! ## SubsetDefinition -/

/-- `FeatureSet` -/
inductive FeatureSet where
  | all
  | set (tags : List Nat)
  deriving Repr, DecidableEq, Inhabited

/-- `DesignSpace`: `Ranges(HashMap<Tag, RangeSet<Fixed>>)` as an association list sorted by tag -/
inductive DesignSpace where
  | all
  | ranges (axes : List (Nat × Ranges))
  deriving Repr, DecidableEq, Inhabited

structure SubsetDef where
  cps : Ranges
  feats : FeatureSet
  ds : DesignSpace
  deriving Repr, DecidableEq, Inhabited

/-- `SubsetDefinition::default()` (also what `Entry::new` starts from) -/
def SubsetDef.empty : SubsetDef := ⟨[], .set [], .ranges []⟩

/-- `SubsetDefinition::all()`; the codepoint domain of `IntSet<u32>` is `0 ..= u32::MAX` -/
def SubsetDef.allDef : SubsetDef := ⟨[(0, 4294967295)], .all, .all⟩

def axLookup (tag : Nat) : List (Nat × Ranges) → Option Ranges
  | [] => none
  | (t, r) :: rest => if t = tag then some r else axLookup tag rest

/-- `ranges.entry(tag).or_default()` then apply `f`, keeping the list sorted by tag -/
def axUpdate (tag : Nat) (f : Ranges → Ranges) : List (Nat × Ranges) → List (Nat × Ranges)
  | [] => [(tag, f [])]
  | (t, r) :: rest =>
    if tag < t then (tag, f []) :: (t, r) :: rest
    else if tag = t then (t, f r) :: rest
    else (t, r) :: axUpdate tag f rest

/-- `FeatureSet::len` (`usize::MAX` for `All`, as a 64-bit target) -/
def FeatureSet.len : FeatureSet → Nat
  | .all => 18446744073709551615
  | .set s => s.length

/-- `FeatureSet::extend` -/
def FeatureSet.extend : FeatureSet → List Nat → FeatureSet
  | .all, _ => .all
  | .set s, ts => .set (ts.foldl (fun acc t => tagInsert t acc) s)

/-- `DesignSpace::is_empty` -/
def DesignSpace.isEmpty : DesignSpace → Bool
  | .all => false
  | .ranges axes => axes.isEmpty

/-- `SubsetDefinition::union` -/
def SubsetDef.union (self other : SubsetDef) : SubsetDef :=
  { cps := rsUnion self.cps other.cps
    feats := match other.feats with
      | .all => .all
      | .set s => self.feats.extend s
    ds := match other.ds, self.ds with
      | _, .all => .all
      | .all, _ => .all
      | .ranges o, .ranges s =>
        .ranges (o.foldl (fun acc (p : Nat × Ranges) => axUpdate p.1 (fun cur => rsUnion cur p.2) acc) s) }

/-- `SubsetDefinition::design_space_intersection` -/
def dsIntersection (self other : DesignSpace) : DesignSpace :=
  match self, other with
  | .all, .all => .all
  | .all, .ranges r => .ranges r
  | .ranges r, .all => .ranges r
  | .ranges selfR, .ranges otherR =>
    .ranges (otherR.filterMap fun (p : Nat × Ranges) =>
      match axLookup p.1 selfR with
      | none => none
      | some entrySegs =>
        let rs := rInter p.2 entrySegs
        if rs.isEmpty then none else some (p.1, rs))

/-- `SubsetDefinition::intersection` -/
def SubsetDef.intersection (self other : SubsetDef) : SubsetDef :=
  { cps := rInter self.cps other.cps
    feats := match self.feats, other.feats with
      | .all, .set t => .set t
      | .set a, .set b => .set (a.filter fun t => b.contains t)
      | .all, .all => .all
      | .set a, .all => .set a
    ds := dsIntersection self.ds other.ds }

/-! ## Entry::intersects -/

/-- `Entry::design_space_intersects` -/
def designSpaceIntersects (a b : List (Nat × Ranges)) : Bool :=
  a.any fun (p : Nat × Ranges) =>
    match axLookup p.1 b with
    | none => false
    | some bs => rIntersects p.2 bs

/-- `Entry::intersects(&self, subset_definition)`; `e` is the entry's own subset definition -/
def localIntersects (e d : SubsetDef) : Bool :=
  let cp := rIsEmpty e.cps || rIntersects e.cps d.cps
  if !cp then false else
  let ft := match e.feats with
    | .all => decide (d.feats.len > 0)
    | .set s => match d.feats with
      | .all => true
      | .set o => s.isEmpty || s.any fun t => o.contains t
  if !ft then false else
  match e.ds with
  | .all => !d.ds.isEmpty
  | .ranges er => match d.ds with
    | .all => true
    | .ranges o => er.isEmpty || designSpaceIntersects er o

/-! ## patch formats, ids, uris -/

/-- `PatchFormat` -/
inductive PatchFormat where
  | tkFull      -- TableKeyed { fully_invalidating: true }   (format number 1)
  | tkPartial   -- TableKeyed { fully_invalidating: false }  (format number 2)
  | glyphKeyed  -- (format number 3)
  deriving Repr, DecidableEq, Inhabited

/-- `PatchFormat::from_format_number` -/
def PatchFormat.ofNumber : Nat → Option PatchFormat
  | 1 => some .tkFull
  | 2 => some .tkPartial
  | 3 => some .glyphKeyed
  | _ => none

def PatchFormat.number : PatchFormat → Nat
  | .tkFull => 1 | .tkPartial => 2 | .glyphKeyed => 3

/-- `PatchFormat::is_invalidating` -/
def PatchFormat.isInvalidating : PatchFormat → Bool
  | .glyphKeyed => false
  | _ => true

/-- `PatchId` -/
inductive PatchId where
  | num (n : Nat)
  | str (bytes : List Nat)
  deriving Repr, DecidableEq, Inhabited

/-- `IntersectionInfo`; `ds` is the `BTreeMap<Tag, Fixed>` as a tag-sorted list of raw values -/
structure IntersectionInfo where
  cps : Nat
  tags : Nat
  ds : List (Nat × Int)
  order : Nat
  deriving Repr, DecidableEq, Inhabited

/-- `IntersectionInfo::default()` -/
def IntersectionInfo.zero : IntersectionInfo := ⟨0, 0, [], 0⟩

/-- which mapping table an entry came from (`IftTableTag`, without the compat id payload) -/
inductive TableTag where
  | ift | iftx
  deriving Repr, DecidableEq, Inhabited

/-- `PatchUri`; `compat` is the `CompatibilityId` carried inside `IftTableTag` (as a number) -/
structure PatchUri where
  template : List Nat
  id : PatchId
  enc : PatchFormat
  table : TableTag
  compat : Nat
  bit : Nat
  info : IntersectionInfo
  deriving Repr, DecidableEq, Inhabited

/-- `IntersectionInfo::design_space_size`: per axis the (wrapping `Fixed`) sum of `end - start` -/
def designSpaceSize : DesignSpace → List (Nat × Int)
  | .all => []
  | .ranges axes => axes.map fun (p : Nat × Ranges) =>
      (p.1, p.2.foldl (fun acc r => wrapI32 (acc + wrapI32 (r.2 - r.1))) 0)

/-- `IntersectionInfo::from_subset` -/
def IntersectionInfo.fromSubset (v : SubsetDef) (order : Nat) : IntersectionInfo :=
  { cps := (rCount v.cps).toNat, tags := v.feats.len, ds := designSpaceSize v.ds, order := order }

/-- lexicographic comparison of `BTreeMap<Tag, Fixed>` (iterator `cmp` over `(key, value)` pairs) -/
def dsCmp : List (Nat × Int) → List (Nat × Int) → Ordering
  | [], [] => .eq
  | [], _ :: _ => .lt
  | _ :: _, [] => .gt
  | a :: as, b :: bs =>
    if a.1 < b.1 then .lt else if b.1 < a.1 then .gt
    else if a.2 < b.2 then .lt else if b.2 < a.2 then .gt
    else dsCmp as bs

/-- `impl Ord for IntersectionInfo`: codepoints, then layout tags, then design space, then the
**reversed** entry order (so that the maximum is the earliest entry among equals). -/
def IntersectionInfo.cmp (a b : IntersectionInfo) : Ordering :=
  if a.cps < b.cps then .lt else if b.cps < a.cps then .gt
  else if a.tags < b.tags then .lt else if b.tags < a.tags then .gt
  else match dsCmp a.ds b.ds with
    | .lt => .lt
    | .gt => .gt
    | .eq => if b.order < a.order then .lt else if a.order < b.order then .gt else .eq

/-! ## format 2: entries, cache evaluation, offered patches -/

/-- decoded `Entry` -/
structure Entry where
  sd : SubsetDef
  children : List Nat
  conj : Bool
  ignored : Bool
  uri : PatchUri
  deriving Repr, DecidableEq, Inhabited

/-- `all_children_intersect` / `some_children_intersect` over already computed results
(`entries.get(index)` out of range answers `false`) -/
def childrenOk (e : Entry) (res : List Bool) : Bool :=
  if e.children.isEmpty then true
  else if e.conj then e.children.all fun c => res.getD c false
  else e.children.any fun c => res.getD c false

/-- `EntryIntersectionCache::compute_intersection` given the results of all earlier entries -/
def entryValue (d : SubsetDef) (res : List Bool) (e : Entry) : Bool :=
  localIntersects e.sd d && childrenOk e res

/-- the cache after visiting the entries in index order
(`add_intersecting_format2_patches` evaluates every entry, ignored or not, in index order) -/
def evalFrom (d : SubsetDef) : List Bool → List Entry → List Bool
  | res, [] => res
  | res, e :: es => evalFrom d (res ++ [entryValue d res e]) es

def evalAll (es : List Entry) (d : SubsetDef) : List Bool := evalFrom d [] es

/-- the uri pushed for an intersecting entry -/
def offeredUri (d : SubsetDef) (order : Nat) (e : Entry) : PatchUri :=
  if e.uri.enc.isInvalidating then
    { e.uri with info := IntersectionInfo.fromSubset (e.sd.intersection d) order }
  else e.uri

/-- indices of the offered entries -/
def offeredIdx (es : List Entry) (d : SubsetDef) : List Nat :=
  let res := evalAll es d
  (List.range es.length).filter fun i =>
    !(es.getD i default).ignored && res.getD i false

/-- `add_intersecting_format2_patches` -/
def offeredF2 (es : List Entry) (d : SubsetDef) : List PatchUri :=
  (offeredIdx es d).map fun i => offeredUri d i (es.getD i default)

end FontVerif.PatchMap
