/-
IEEE-754 binary32 / binary64 values and the few correctly rounded operations that the
scalar code of font-types (`fixed.rs` float conversions) and write-fonts (`round.rs`) uses,
computed exactly on dyadic integers.

A finite value is `(-1)^neg · m · 2^e` with `m : Nat`, `e : Int` (signed zeros: `m = 0`).
Every operation first computes the exact dyadic result and then rounds it once with
`roundNE` (round to nearest, ties to even, gradual underflow, overflow to infinity) — which is
what IEEE-754 prescribes for `+ - * /` and for integer → float conversion, and what Rust
guarantees for `f32` / `f64`.  Floats never appear in the line protocol: an argument is the
bit pattern (`f32::to_bits` / `f64::to_bits`, a decimal integer), a result is printed as an
exact `m·2^e` (see `FVal.show`).
-/
import FontVerif.Model.Base
namespace FontVerif.Ieee

/-- a binary interchange format. -/
structure Fmt where
  /-- precision: significand bits including the hidden bit (24 / 53) -/
  p : Nat
  /-- width of the exponent field (8 / 11) -/
  w : Nat
  /-- exponent of the unit in the last place of the subnormals (-149 / -1074) -/
  emin : Int
  /-- magnitudes `≥ 2^etop` overflow to infinity (128 / 1024) -/
  etop : Int

def f32 : Fmt := ⟨24, 8, -149, 128⟩
def f64 : Fmt := ⟨53, 11, -1074, 1024⟩

inductive FVal where
  | nan
  | inf (neg : Bool)
  | fin (neg : Bool) (m : Nat) (e : Int)
  deriving DecidableEq, Repr, Inhabited

/-- number of significant bits of `n` (`0` for `0`): `2^(bitLen n - 1) ≤ n < 2^(bitLen n)`. -/
def bitLenAux : Nat → Nat → Nat
  | 0, _ => 0
  | fuel + 1, n => if n = 0 then 0 else bitLenAux fuel (n / 2) + 1

def bitLen (n : Nat) : Nat := bitLenAux n n

/-- the one rounding step of every operation: the exact magnitude `a · 2^e` with sign `neg`
rounded to the nearest value of the format, ties to the even significand; results below the
normal range keep the fixed exponent `emin` (gradual underflow), results of magnitude
`≥ 2^etop` become infinite. -/
def roundNE (f : Fmt) (neg : Bool) (a : Nat) (e : Int) : FVal :=
  if a = 0 then .fin neg 0 0 else
  let L : Int := bitLen a
  let q : Int := if e + L - f.p < f.emin then f.emin else e + L - f.p
  if q ≤ e then
    -- exactly representable: at most `p` significant bits, exponent not below `emin`
    if e + L > f.etop then .inf neg else .fin neg a e
  else
    let s := (q - e).toNat
    let n := a / 2 ^ s
    let r := a % 2 ^ s
    let n' := if 2 * r > 2 ^ s ∨ (2 * r = 2 ^ s ∧ n % 2 = 1) then n + 1 else n
    if q + (bitLen n' : Int) > f.etop then .inf neg else .fin neg n' q

/-- `fN::from_bits`. -/
def decode (f : Fmt) (bits : Nat) : FVal :=
  let fb := f.p - 1
  let frac := bits % 2 ^ fb
  let ex := bits / 2 ^ fb % 2 ^ f.w
  let neg := decide (bits / 2 ^ (fb + f.w) % 2 = 1)
  if ex = 2 ^ f.w - 1 then (if frac = 0 then .inf neg else .nan)
  else if ex = 0 then .fin neg frac f.emin
  else .fin neg (frac + 2 ^ fb) ((ex : Int) - 1 + f.emin)

def FVal.neg : FVal → FVal
  | .nan => .nan
  | .inf s => .inf (!s)
  | .fin s m e => .fin (!s) m e

/-- `x * 2^k` / `x / 2^(-k)` (the factor is an exactly representable power of two, so the exact
product is `m · 2^(e+k)`; it still overflows / underflows like any product). -/
def mulPow2 (f : Fmt) (x : FVal) (k : Int) : FVal :=
  match x with
  | .nan => .nan
  | .inf s => .inf s
  | .fin s m e => roundNE f s m (e + k)

/-- `i as fN` (integer → float conversion rounds to nearest even). -/
def ofInt (f : Fmt) (i : Int) : FVal := roundNE f (decide (i < 0)) i.natAbs 0

/-- the exact sum of two finite values as a signed integer multiple of `2^(min e g)`. -/
def exactSum (s : Bool) (m : Nat) (e : Int) (t : Bool) (n : Nat) (g : Int) : Int × Int :=
  let e0 := if e ≤ g then e else g
  ((if s then -1 else 1) * ((m : Int) * 2 ^ (e - e0).toNat)
    + (if t then -1 else 1) * ((n : Int) * 2 ^ (g - e0).toNat), e0)

/-- `x + y`. An exact zero sum is `+0` unless both operands are negative (zeros). -/
def add (f : Fmt) (x y : FVal) : FVal :=
  match x, y with
  | .nan, _ => .nan
  | _, .nan => .nan
  | .inf s, .inf t => if s = t then .inf s else .nan
  | .inf s, .fin _ _ _ => .inf s
  | .fin _ _ _, .inf t => .inf t
  | .fin s m e, .fin t n g =>
    let A := exactSum s m e t n g
    if A.1 = 0 then .fin (s && t) 0 0 else roundNE f (decide (A.1 < 0)) A.1.natAbs A.2

/-- `x - y`. -/
def sub (f : Fmt) (x y : FVal) : FVal := add f x y.neg

/-- `fN::floor` (exact: the result has no more significant bits than the argument). -/
def floor : FVal → FVal
  | .nan => .nan
  | .inf s => .inf s
  | .fin s m e =>
    if e ≥ 0 then .fin s m e else
    let G := 2 ^ (-e).toNat
    if s then .fin true ((m + G - 1) / G) 0 else .fin false (m / G) 0

/-- Rust's float → integer `as` cast: truncates toward zero, saturates at the ends of the target
type, `NaN ↦ 0`. -/
def toIntSat (lo hi : Int) : FVal → Int
  | .nan => 0
  | .inf s => if s then lo else hi
  | .fin s m e =>
    let t : Int := if e ≥ 0 then (m : Int) * 2 ^ e.toNat else (m : Int) / 2 ^ (-e).toNat
    let v := if s then -t else t
    if v < lo then lo else if v > hi then hi else v

/-- `x >= 0.5` (false for NaN). -/
def geHalf : FVal → Bool
  | .nan => false
  | .inf s => !s
  | .fin s m e => !s && decide (2 ^ (-e).toNat ≤ 2 * m)

/-- `x <= -0.5`. -/
def leNegHalf (x : FVal) : Bool := geHalf x.neg

/-- `0.5`. -/
def half : FVal := .fin false 1 (-1)

/-- `x <= y` on non-NaN values (used by the monotonicity statements; NaN compares false). -/
def le : FVal → FVal → Bool
  | .nan, _ => false
  | _, .nan => false
  | .inf s, .inf t => s || !t
  | .inf s, .fin _ _ _ => s
  | .fin _ _ _, .inf t => !t
  | .fin s m e, .fin t n g =>
    let A := exactSum s m e (!t) n g      -- x - y
    decide (A.1 ≤ 0)

/-! ### exact printing -/

def stripZeros : Nat → Nat → Int → Nat × Int
  | 0, m, e => (m, e)
  | fuel + 1, m, e => if m ≠ 0 ∧ m % 2 = 0 then stripZeros fuel (m / 2) (e + 1) else (m, e)

/-- canonical exact rendering: `nan`, `inf`, `-inf`, `0`, `-0`, or `[-]<odd m>e<e>` = `±m·2^e`. -/
def FVal.show : FVal → String
  | .nan => "nan"
  | .inf s => if s then "-inf" else "inf"
  | .fin s m e =>
    let sg := if s then "-" else ""
    if m = 0 then sg ++ "0" else
    let (m', e') := stripZeros (bitLen m) m e
    sg ++ toString m' ++ "e" ++ toString e'

end FontVerif.Ieee
