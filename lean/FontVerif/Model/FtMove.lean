/-
Model of the value computation of FreeType's Ins_MIRP / Ins_MIAP / Ins_MDRP (ttinterp.c, FreeType
2.12.1 as bundled by freetype-sys 0.17.0, TT_SUPPORT_SUBPIXEL_HINTING_INFINALITY off — the v40
"minimal" interpreter has no special cases in these three functions): `FT_F26Dot6` is a 64-bit
`long`; `ADD_LONG`/`SUB_LONG`/`NEG_LONG` wrap mod 2^64, plain `+`, `-`, unary `-` on longs are
modelled exactly (no overflow in the ranges of the theorems; C leaves it undefined).
`exc->func_round( exc, d, opcode & 3 )` is `FtRound.round` with compensation 0 (all four
`tt_metrics.compensations` are 0), the non-rounding paths call `Round_None`.
Same parameters as Model/HintMove.lean.
-/
import FontVerif.Model.FtRound
import FontVerif.Model.Lxor
import FontVerif.Model.HintMove
namespace FontVerif.FtMove
open FontVerif FontVerif.FtCalc

/-- `if ( delta < 0 ) delta = NEG_LONG( delta );` -/
def absLong (d : Int) : Int := if d < 0 then negLong d else d

/-- minimum distance test of Ins_MIRP / Ins_MDRP. -/
def minDist (md org d : Int) : Int :=
  if org ≥ 0 then (if d < md then md else d)
  else (if d > negLong md then negLong md else d)

/-- Ins_MIRP "single width test". -/
def mirpSw (g : HintMove.Gs) (c : Int) : Int :=
  if absLong (subLong c g.sw) < g.swci then (if c ≥ 0 then g.sw else -g.sw) else c

/-- Ins_MIRP from "auto-flip test" to the argument of `func_move`. -/
def mirpMove (g : HintMove.Gs) (rnd mind same : Bool) (c org cur : Int) : Int :=
  let c1 := if g.autoFlip ∧ lxorInt org c < 0 then negLong c else c
  let d :=
    if rnd then
      let c2 := if same ∧ absLong (subLong c1 org) > g.cutin then org else c1
      FtRound.round g.mode g.thr g.ph g.per 0 c2
    else FtRound.roundNone 0 c1
  let d := if mind then minDist g.md org d else d
  subLong d cur

def mirp (g : HintMove.Gs) (rnd mind same : Bool) (c org cur : Int) : Int :=
  mirpMove g rnd mind same (mirpSw g c) org cur

/-- Ins_MIAP. -/
def miap (g : HintMove.Gs) (rnd : Bool) (c cur : Int) : Int :=
  let d :=
    if rnd then
      let c1 := if absLong (subLong c cur) > g.cutin then cur else c
      FtRound.round g.mode g.thr g.ph g.per 0 c1
    else c
  subLong d cur

/-- Ins_MDRP from "single width cut-in test" on. -/
def mdrp (g : HintMove.Gs) (rnd mind : Bool) (org cur : Int) : Int :=
  let o1 := if g.swci > 0 ∧ org < g.sw + g.swci ∧ org > g.sw - g.swci
    then (if org ≥ 0 then g.sw else -g.sw) else org
  let d := if rnd then FtRound.round g.mode g.thr g.ph g.per 0 o1 else FtRound.roundNone 0 o1
  let d := if mind then minDist g.md o1 d else d
  subLong d cur

end FontVerif.FtMove
