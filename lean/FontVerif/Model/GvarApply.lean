/-
Model of the APPLICATION of glyph variation deltas by the reader:

read-fonts/src/tables/variations.rs
    TupleVariation::compute_scalar (16.16, `Fixed::mul_div`), TupleVariationData::active_tuples_at,
    TupleVariation::{accumulate_dense_deltas, accumulate_sparse_deltas}, read_dense_deltas,
    read_sparse_deltas (the run-at-a-time fast paths)
read-fonts/src/tables/gvar.rs
    GlyphDelta::apply_scalar, Gvar::phantom_point_deltas (the tuple loop)
skrifa/src/outline/glyf/deltas.rs
    compute_deltas_for_glyph, simple_glyph (dense fast path / sparse path with HAS_DELTA markers
    reset per tuple + interpolate_deltas), composite_glyph (no inference)
skrifa/src/outline/glyf/mod.rs (FreeType-style scaler, unscaled)
    load_simple: `unscaled += delta.map(Fixed::to_i32)`; load_composite: component offset
    `x += delta.x.to_i32()`, phantom `+= delta.map(Fixed::to_i32)`; outline.rs ScaledOutline::new
    (shift by the first phantom point)

All coordinates / deltas of type `Fixed` are raw 16.16 bit patterns (`Int` in the i32 range);
`Fixed` `+ - *` wrap / round exactly as font-types does (Model/Fixed.lean, Model/Iup.lean `fx*`).
`none` = the Rust returns `Err`.  F2Dot14 values are raw bits.
-/
import FontVerif.Model.Base
import FontVerif.Model.Fixed
import FontVerif.Model.Tent
import FontVerif.Model.PackedDeltas
import FontVerif.Model.Iup
import FontVerif.Model.GvarData
namespace FontVerif.GvarApply
open FontVerif FontVerif.PackedDeltas FontVerif.GvarData

abbrev Pt := Int × Int

/-! ## `TupleVariation::compute_scalar` -/

/-- one trip of the `for (i, peak) in peak.values.iter().enumerate().filter(|(_, peak)| peak != ZERO)`
loop; all arguments are `Fixed` bits (`to_fixed()` applied), `inter` = this axis' intermediate
`(start, end)` if the header has intermediate tuples.  `none` = `return None`. -/
def scalarAxis (scalar coord peak : Int) (inter : Option (Int × Int)) : Option Int :=
  if peak = 0 then some scalar            -- filtered out
  else if peak = coord then some scalar   -- `continue`
  else if coord = 0 then none
  else
    match inter with
    | some (start, end_) =>
      if coord ≤ start ∨ coord ≥ end_ then none
      else if coord < peak then
        some (Fixed.mulDiv scalar (Tent.fsub coord start) (Tent.fsub peak start))
      else some (Fixed.mulDiv scalar (Tent.fsub end_ coord) (Tent.fsub end_ peak))
    | none =>
      if coord < min peak 0 ∨ coord > max peak 0 then none
      else some (Fixed.mulDiv scalar coord peak)

/-- the loop; `peak`, `starts`, `ends` are F2Dot14 bits per axis (`inter_start.get(i)
.unwrap_or_default()`), `coords` the remaining user coordinates (`coords.get(i)`, missing ⇒ 0) -/
def scalarGo (hasInter : Bool) (scalar : Int) : List Int → List Int → List Int → List Int → Option Int
  | [], _, _, _ => some scalar
  | p :: ps, starts, ends, coords =>
    let inter := if hasInter then
      some (Fixed.f2dot14ToFixed (starts.headD 0), Fixed.f2dot14ToFixed (ends.headD 0)) else none
    match scalarAxis scalar (Fixed.f2dot14ToFixed (coords.headD 0)) (Fixed.f2dot14ToFixed p) inter with
    | none => none
    | some s => scalarGo hasInter s ps starts.tail ends.tail coords.tail

/-- `TupleVariation::compute_scalar(coords)`: `None` when the peak has the wrong number of axes,
the location is outside the region, or the scalar is zero -/
def tupleScalar (ax : Nat) (peak : List Int) (inter : Option (List Int × List Int))
    (coords : List Int) : Option Int :=
  if peak.length ≠ ax then none else
  match scalarGo inter.isSome 65536 peak ((inter.map (·.1)).getD []) ((inter.map (·.2)).getD []) coords with
  | none => none
  | some s => if s = 0 then none else some s

/-! ## `read_sparse_deltas` / `accumulate_*_deltas` -/

/-- take up to `n` point numbers from the shared point iterator (`zip(points_iter.by_ref())`) -/
def takePts : Nat → PtIter → List Nat × PtIter
  | 0, it => ([], it)
  | n + 1, it =>
    match it.next with
    | none => ([], it)
    | some (p, it') => let r := takePts n it'; (p :: r.1, r.2)

/-- `read_sparse_deltas(cursor, point_numbers, count, f)`: the calls `f(point_ix, delta)` it makes,
in order, and the cursor afterwards; `none` = `Err`.  Typed runs: `packed_deltas.iter().zip(points)`
stops at the shorter side without consuming an extra point; zero runs take one point per value and
fail when the points run out. -/
def readSparse : Nat → Nat → Nat → PtIter → List Nat → Option (List (Nat × Int) × List Nat)
  | 0, _, _, _, _ => none
  | fuel + 1, cur, count, pts, bs =>
    if cur < count then
      match bs with
      | [] => none
      | c :: bs' =>
        let ty := runTypeOf c
        let rc := c % 64 + 1
        match readArray ty rc bs' with
        | none => none
        | some (vs, bs'') =>
          let tp := takePts rc pts
          if ty = .zero ∧ tp.1.length < rc then none else
          match readSparse fuel (cur + rc) count tp.2 bs'' with
          | none => none
          | some (rest, bs3) => some (tp.1.zip vs ++ rest, bs3)
    else some ([], bs)

def fxScaled (scalar d : Int) : Int :=
  if scalar = 65536 then Fixed.fromI32 d else Fixed.mul (Fixed.fromI32 d) scalar

/-- `if let Some(delta) = deltas.get_mut(ix) { *delta = f(*delta) }` -/
def addAt : List Pt → Nat → (Pt → Pt) → List Pt
  | [], _, _ => []
  | p :: ps, 0, f => f p :: ps
  | p :: ps, k + 1, f => p :: addAt ps k f

/-- `flags.get_mut(ix)` … `set_marker(HAS_DELTA)` -/
def setAt : List Bool → Nat → List Bool
  | [], _ => []
  | _ :: bs, 0 => true :: bs
  | b :: bs, k + 1 => b :: setAt bs k

/-- the x-pass closure of `accumulate_sparse_deltas`:
`if let Some((delta, flag)) = deltas.get_mut(ix).zip(flags.get_mut(ix)) { delta.x += …; flag.set_marker(HAS_DELTA) }` -/
def xStep (scalar : Int) (st : List Pt × List Bool) (c : Nat × Int) : List Pt × List Bool :=
  if c.1 < st.1.length ∧ c.1 < st.2.length then
    (addAt st.1 c.1 (fun p => (Iup.fxAdd p.1 (fxScaled scalar c.2), p.2)), setAt st.2 c.1)
  else st

/-- the y-pass closure: `if let Some(delta) = deltas.get_mut(ix) { delta.y += … }` -/
def yStep (scalar : Int) (b : List Pt) (c : Nat × Int) : List Pt :=
  if c.1 < b.length then addAt b c.1 (fun p => (p.1, Iup.fxAdd p.2 (fxScaled scalar c.2))) else b

/-- `TupleVariation::accumulate_sparse_deltas(deltas, flags, scalar)` with `D = Fixed`, given the
point-number data and the packed delta data of `point_numbers_and_packed_deltas` -/
def accSparse (ptBytes dBytes : List Nat) (scalar : Int) (buf : List Pt) (flags : List Bool) :
    Option (List Pt × List Bool) :=
  let count := (countAndCountBytes ptBytes).1
  match readSparse (count + 1) 0 count (ptIterOf ptBytes) dBytes with
  | none => none
  | some (xcalls, bs) =>
    match readSparse (count + 1) 0 count (ptIterOf ptBytes) bs with
    | none => none
    | some (ycalls, _) =>
      let st := xcalls.foldl (xStep scalar) (buf, flags)
      some (ycalls.foldl (yStep scalar) st.1, st.2)

/-- `TupleVariation::accumulate_dense_deltas(deltas, scalar)` -/
def accDense (dBytes : List Nat) (scalar : Int) (deltas : List Pt) : Option (List Pt) :=
  let n := deltas.length
  match readDense (n + 1) 0 n dBytes with
  | none => none
  | some (xs, bs) =>
    match readDense (n + 1) 0 n bs with
    | none => none
    | some (ys, _) =>
      some ((List.range n).map fun k =>
        let p := deltas.getD k (0, 0)
        (Iup.fxAdd p.1 (fxScaled scalar (xs.getD k 0)), Iup.fxAdd p.2 (fxScaled scalar (ys.getD k 0))))

/-! ## `simple_glyph` / `composite_glyph` -/

/-- `var_data.active_tuples_at(coords)`: the tuples with a non-`None` scalar, in order -/
def activeTuples (ax : Nat) (shared : List (List Int)) (g : GlyphRead) (coords : List Int) :
    List (RawTuple × Int) :=
  g.tuples.filterMap fun t =>
    (tupleScalar ax (t.peakOf shared) t.inter coords).map fun s => (t, s)

def ptSub (a b : Pt) : Pt := (Iup.fxSub a.1 b.1, Iup.fxSub a.2 b.2)
def ptAdd (a b : Pt) : Pt := (Iup.fxAdd a.1 b.1, Iup.fxAdd a.2 b.2)
def ptFromI32 (p : Pt) : Pt := (Fixed.fromI32 p.1, Fixed.fromI32 p.2)

/-- the closure passed to `compute_deltas_for_glyph` by `simple_glyph` for one sparse tuple:
working buffer := points in 16.16, HAS_DELTA cleared; explicit deltas added; untouched points
interpolated; `delta += working - point`. -/
def simpleSparseTuple (points : List Pt) (ends : List Nat) (t : RawTuple) (sp : Option (List Nat))
    (scalar : Int) (deltas : List Pt) : Option (List Pt) :=
  let buf0 := points.map ptFromI32
  let flags0 := points.map fun _ => false
  match accSparse (t.ptsAndDeltas sp).1 (t.ptsAndDeltas sp).2 scalar buf0 flags0 with
  | none => none
  | some (buf, has) =>
    match Iup.readerInterpolate points has ends buf with
    | none => none
    | some out =>
      some ((List.range deltas.length).map fun k =>
        if k < points.length then
          ptAdd (deltas.getD k (0, 0)) (ptSub (out.getD k (0, 0)) (ptFromI32 (points.getD k (0, 0))))
        else deltas.getD k (0, 0))

/-- `simple_glyph::<i32, Fixed>(gvar, gid, coords, glyph, iup_buffer, deltas)`: the accumulated
deltas (`deltas` has one entry per point incl. the four phantom points); `data` = the glyph's
variation data if `glyph_variation_data` returned `Ok(Some(..))`.  `none` = `Err`. -/
def simpleGlyph (ax : Nat) (shared : List (List Int)) (data : Option (List Nat)) (coords : List Int)
    (points : List Pt) (ends : List Nat) : Option (List Pt) :=
  if points.length < 4 then none else
  let zero : List Pt := points.map fun _ => (0, 0)
  match data with
  | none => some zero
  | some bytes =>
    match readGlyph ax bytes with
    | none => some zero            -- "Empty variation data for a glyph is not an error."
    | some g =>
      (activeTuples ax shared g coords).foldl (fun (acc : Option (List Pt)) (ts : RawTuple × Int) =>
        match acc with
        | none => none
        | some deltas =>
          if ts.1.allPoints g.sharedPts then accDense (ts.1.ptsAndDeltas g.sharedPts).2 ts.2 deltas
          else simpleSparseTuple points ends ts.1 g.sharedPts ts.2 deltas) (some zero)

/-- `GlyphDelta::apply_scalar::<Fixed>` and `+=` for every delta of `tuple.deltas()` -/
def compositeSparseTuple (t : RawTuple) (sp : Option (List Nat)) (scalar : Int) (deltas : List Pt) :
    List Pt :=
  (t.deltas sp).foldl (fun (acc : List Pt) (d : Nat × Int × Int) =>
    if d.1 < acc.length then
      addAt acc d.1 (fun p => ptAdd p (Fixed.mul (Fixed.fromI32 d.2.1) scalar, Fixed.mul (Fixed.fromI32 d.2.2) scalar))
    else acc) deltas

/-- `composite_glyph::<Fixed>(gvar, gid, coords, deltas)` for `count` = components + 4 -/
def compositeGlyph (ax : Nat) (shared : List (List Int)) (data : Option (List Nat)) (coords : List Int)
    (count : Nat) : Option (List Pt) :=
  let zero : List Pt := (List.range count).map fun _ => (0, 0)
  match data with
  | none => some zero
  | some bytes =>
    match readGlyph ax bytes with
    | none => some zero
    | some g =>
      (activeTuples ax shared g coords).foldl (fun (acc : Option (List Pt)) (ts : RawTuple × Int) =>
        match acc with
        | none => none
        | some deltas =>
          if ts.1.allPoints g.sharedPts then accDense (ts.1.ptsAndDeltas g.sharedPts).2 ts.2 deltas
          else some (compositeSparseTuple ts.1 g.sharedPts ts.2 deltas)) (some zero)

/-! ## the scaler's use of the deltas (FreeType style, unscaled) -/

/-- `load_simple`, unscaled: `unscaled += delta.map(Fixed::to_i32)` for every point incl. phantoms,
then `ScaledOutline::new` shifts x by the first phantom point.  `points` incl. the 4 phantoms. -/
def adjustSimple (points deltas : List Pt) : List Pt :=
  let adj := (List.range points.length).map fun k =>
    let p := points.getD k (0, 0)
    let d := deltas.getD k (0, 0)
    (p.1 + Fixed.toI32 d.1, p.2 + Fixed.toI32 d.2)
  let shift := (adj.getD (points.length - 4) (0, 0)).1
  (adj.take (points.length - 4)).map fun p => (p.1 - shift, p.2)

/-- one component of a composite glyph as `load_composite` sees it after loading it: the child's
adjusted points (own deltas applied, not yet shifted), the x of the child's first phantom point
after the child's deltas, the USE_MY_METRICS flag, the component's `(x, y)` offset -/
structure Comp where
  pts : List Pt
  pp0x : Int
  useMyMetrics : Bool
  offset : Pt

/-- `load_composite`, FreeType style, unscaled, offset-anchored components without transform:
the composite's phantom points get `Fixed::to_i32` of their deltas (entries `ncomp ..`); every
component's points are moved by `offset + Fixed::to_i32(delta_i)`; a component with USE_MY_METRICS
leaves ITS phantom points in place of the composite's (later ones win); finally
`ScaledOutline::new` shifts everything by the first phantom point's x. -/
def adjustComposite (pp0x : Int) (deltas : List Pt) (comps : List Comp) : List Pt :=
  let ownPp0 := pp0x + Fixed.toI32 (deltas.getD comps.length (0, 0)).1
  let finalPp0 := comps.foldl (fun acc c => if c.useMyMetrics then c.pp0x else acc) ownPp0
  let moved := (List.range comps.length).flatMap fun i =>
    match comps[i]? with
    | none => []
    | some c =>
      let d := deltas.getD i (0, 0)
      c.pts.map fun p => (p.1 + (c.offset.1 + Fixed.toI32 d.1), p.2 + (c.offset.2 + Fixed.toI32 d.2))
  moved.map fun p => (p.1 - finalPp0, p.2)

end FontVerif.GvarApply
