/-
Model of glyph metric lookup with variation deltas:
  skrifa/src/metrics.rs   GlyphMetrics::{advance_width, left_side_bearing}, FixedScaleFactor::apply
  read-fonts/src/tables/variations.rs   advance_delta / item_delta (`Fixed::from_i32(delta)`)
-/
import FontVerif.Model.Base
import FontVerif.Model.Fixed
import FontVerif.Model.Ieee
import FontVerif.Model.IeeeArith
import FontVerif.Model.FixedConv
import FontVerif.Model.Tent
namespace FontVerif.Metrics
open FontVerif

/-- `delta.to_f64() as i32` for `delta = Fixed::from_i32(d)`: the 16.16 value truncated toward
zero (the float is exact).  `Fixed::from_i32` keeps only the low 16 bits of `d`. -/
def deltaInt (d : Int) : Int := Int.tdiv (Fixed.fromI32 d) 65536

/-- base advance: `h_metrics.get(gid).map(advance).unwrap_or(default_advance_width)` where the
default is the last long metric's advance (0 if there is none). -/
def baseAdvance (hMetrics : List (Int × Int)) (gid : Nat) : Int :=
  match hMetrics[gid]? with
  | some m => m.1
  | none => match hMetrics.getLast? with
    | some m => m.1
    | none => 0

/-- base lsb: the long metric's side bearing, else
`lsbs.get(gid.saturating_sub(h_metrics.len()))`, else 0. -/
def baseLsb (hMetrics : List (Int × Int)) (lsbs : List Int) (gid : Nat) : Int :=
  match hMetrics[gid]? with
  | some m => m.2
  | none => (lsbs[gid - hMetrics.length]?).getD 0

/-- `advance_width` in font units before scaling: `None` when `gid ≥ glyph_count`;
`delta` is the HVAR `compute_delta` result if a table is present and evaluation succeeded. -/
def advanceUnits (glyphCount : Nat) (hMetrics : List (Int × Int)) (gid : Nat) (delta : Option Int) :
    Option Int :=
  if gid ≥ glyphCount then none else
  some (baseAdvance hMetrics gid + (match delta with | some d => deltaInt d | none => 0))

def lsbUnits (glyphCount : Nat) (hMetrics : List (Int × Int)) (lsbs : List Int) (gid : Nat)
    (delta : Option Int) : Option Int :=
  if gid ≥ glyphCount then none else
  some (baseLsb hMetrics lsbs gid + (match delta with | some d => deltaInt d | none => 0))

/-- `FixedScaleFactor::apply(value)`: `scale.mul_div(Fixed(value), Fixed(64))` as 16.16 bits
(the `to_f32` of the result is not modelled). -/
def applyScale (scale value : Int) : Int := Fixed.mulDiv scale value 64

/-! ### scaled sizes (`Size::fixed_linear_scale`, `FixedScaleFactor::apply` incl. the `to_f32`) -/

/-- `Size::fixed_linear_scale(units_per_em)`; `ppem = none` is `Size::unscaled()`.
```
Some(ppem) if units_per_em > 0 => Fixed::from_bits((ppem * 64.) as i32) / Fixed::from_bits(units_per_em as i32),
_ => Fixed::from_bits(0x10000 * 64)
``` -/
def fixedLinearScale (ppem : Option Ieee.FVal) (upem : Nat) : Int :=
  match ppem with
  | some p =>
    if upem > 0 then
      Fixed.div (Ieee.toIntSat (-2147483648) 2147483647 (Ieee.mul Ieee.f32 p (.fin false 1 6))) upem
    else 4194304
  | none => 4194304

/-- `FixedScaleFactor::apply(value)` in full: `scale.mul_div(Fixed(value), Fixed(64)).to_f32()`
(`Fixed::to_f32` = `bits as f32 * (1.0 / 65536.0)`: rounds to 24 significant bits). -/
def applyScaleF32 (scale value : Int) : Ieee.FVal :=
  FixedConv.toF32Lossy 16 (applyScale scale value)

/-! ### gvar fallback (`GlyphMetrics::metric_deltas_from_gvar`, `Gvar::phantom_point_deltas`) -/

/-- a glyph as `find_glyph_and_point_count` sees it. -/
inductive GlyphKind where
  | empty
  | simple (numPoints : Nat)
  /-- components: `(glyph id, USE_MY_METRICS)` -/
  | composite (components : List (Nat × Bool))
  /-- `loca.get_glyf` failed -/
  | unreadable
  deriving Repr

/-- `find_glyph_and_point_count(glyf, loca, glyph_id, recurse_depth)`: the glyph whose phantom points
drive the metrics and the index where they start.  `fuel` ≥ 66 − depth suffices (the recursion
stops with an error beyond depth 64). -/
def findGlyphAndPointCount (glyphs : List GlyphKind) : Nat → Nat → Nat → Option (Nat × Nat)
  | 0, _, _ => none
  | fuel + 1, gid, depth =>
    if depth > 64 then none else
    match glyphs[gid]? with
    | none => none                      -- `loca.get_glyf` out of range ⇒ error
    | some .unreadable => none
    | some .empty => some (gid, 0)
    | some (.simple n) => some (gid, n)
    | some (.composite comps) =>
      -- first component with USE_MY_METRICS, else the composite itself with the component count
      match comps.find? (fun c => c.2) with
      | some c => findGlyphAndPointCount glyphs fuel c.1 (depth + 1)
      | none => some (gid, comps.length)

/-- one active tuple: its scalar (`Fixed`) and the `(position, x_delta)` of its deltas. -/
abbrev TupleX := Int × List (Nat × Int)

/-- the `x` of `phantom_deltas[k]` after the loop of `phantom_point_deltas`:
`phantom_deltas[ix - start] += tuple_delta.apply_scalar(scalar)` for every delta whose position is
`start + k` (`apply_scalar` = `Fixed::from_i32(x_delta) * scalar`, `+=` wrapping). -/
def phantomX (tuples : List TupleX) (start k : Nat) : Int :=
  tuples.foldl (fun acc t =>
    t.2.foldl (fun acc d =>
      if d.1 = start + k then Tent.fadd acc (Fixed.mul (Fixed.fromI32 d.2) t.1) else acc) acc) 0

/-- `metric_deltas_from_gvar`: `deltas[1] -= deltas[0]; [deltas[0], deltas[1]].map(|d| d.x.to_i32())`
= `[lsb delta, advance delta]`. -/
def gvarMetricDeltas (p0 p1 : Int) : Int × Int :=
  (Fixed.toI32 p0, Fixed.toI32 (Tent.fsub p1 p0))

/-- where the variation delta of a metric comes from. -/
inductive DeltaSrc where
  /-- HVAR present: `Some(delta)` if `advance_width_delta` / `lsb_delta` returned `Ok` -/
  | hvar (d : Option Int)
  /-- no HVAR, gvar present: phantom `x` deltas of points 0 and 1 if `phantom_point_deltas` gave some -/
  | gvar (ph : Option (Int × Int))
  | none
  deriving Repr

/-- the amount added to the advance. -/
def advanceDeltaOf : DeltaSrc → Int
  | .hvar (some d) => deltaInt d
  | .gvar (some p) => (gvarMetricDeltas p.1 p.2).2
  | _ => 0

/-- the amount added to the left side bearing. -/
def lsbDeltaOf : DeltaSrc → Int
  | .hvar (some d) => deltaInt d
  | .gvar (some p) => (gvarMetricDeltas p.1 p.2).1
  | _ => 0

/-- `GlyphMetrics::advance_width(gid)` in full: lookup, variation delta, scale, `to_f32`. -/
def advanceWidth (scale : Int) (glyphCount : Nat) (hMetrics : List (Int × Int)) (gid : Nat)
    (src : DeltaSrc) : Option Ieee.FVal :=
  if gid ≥ glyphCount then none else
  some (applyScaleF32 scale (baseAdvance hMetrics gid + advanceDeltaOf src))

/-- `GlyphMetrics::left_side_bearing(gid)` in full. -/
def leftSideBearing (scale : Int) (glyphCount : Nat) (hMetrics : List (Int × Int)) (lsbs : List Int)
    (gid : Nat) (src : DeltaSrc) : Option Ieee.FVal :=
  if gid ≥ glyphCount then none else
  some (applyScaleF32 scale (baseLsb hMetrics lsbs gid + lsbDeltaOf src))

/-! ### HVAR / VVAR delta lookup (read-fonts variations.rs `advance_delta`, `item_delta`), MVAR -/

/-- result of the delta functions: `Fixed` bits or an error. -/
inductive FixedResult where
  | ok (bits : Int)
  | err
  deriving Repr, DecidableEq

/-- a compiled `DeltaSetIndexMap` as the reader sees it: `(entry_format, map_count, map_data)`. -/
abbrev Dsim := Nat × Nat × List Nat

abbrev Store := List (List (Int × Int × Int)) × List (Option Tent.SubTable)

def fromDelta : Tent.DeltaResult → FixedResult
  | .ok v => .ok (Fixed.fromI32 v)
  | .err => .err

/-- `variations::advance_delta(dsim, ivs, glyph_id, coords)` — `Hvar::advance_width_delta`,
`Vvar::advance_height_delta`: without a map the index is `(0, gid as u16)`. `store = none`: the
store offset does not resolve. -/
def advanceDelta (dsim : Option Dsim) (store : Option Store) (gid : Nat) (coords : List Int) :
    FixedResult :=
  if coords.isEmpty then .ok 0 else
  let ix : Option (Nat × Nat) := match dsim with
    | some (fmt, cnt, data) => Tent.dsimGet fmt cnt data gid
    | none => some (Tent.implicitIndex gid)
  match ix, store with
  | some (o, i), some (regions, subs) => fromDelta (Tent.computeDelta regions subs o i coords)
  | _, _ => .err

/-- `variations::item_delta` — `Hvar::lsb_delta / rsb_delta`, `Vvar::tsb_delta / bsb_delta /
v_org_delta`: no map ⇒ `Err(NullOffset)`. -/
def itemDelta (dsim : Option Dsim) (store : Option Store) (gid : Nat) (coords : List Int) :
    FixedResult :=
  if coords.isEmpty then .ok 0 else
  match dsim with
  | none => .err
  | some (fmt, cnt, data) =>
    match Tent.dsimGet fmt cnt data gid, store with
    | some (o, i), some (regions, subs) => fromDelta (Tent.computeDelta regions subs o i coords)
    | _, _ => .err

/-- the binary search of `Mvar::metric_delta` over `(value_tag, outer, inner)` records
(`tag.cmp(&record.value_tag())` = comparison of the big-endian `u32`s):
```
while lo < hi { let i = (lo + hi) / 2; match tag.cmp(..) { Less => hi = i, Greater => lo = i + 1, Equal => return .. } }
``` -/
def mvarSearch (records : List (Nat × Nat × Nat)) (tag : Nat) : Nat → Nat → Nat → Option (Nat × Nat)
  | 0, _, _ => none
  | fuel + 1, lo, hi =>
    if lo < hi then
      let i := (lo + hi) / 2
      match records[i]? with
      | none => none
      | some r =>
        if tag < r.1 then mvarSearch records tag fuel lo i
        else if tag > r.1 then mvarSearch records tag fuel (i + 1) hi
        else some r.2
    else none

/-- `Mvar::metric_delta(tag, coords)`: `err` covers `MetricIsMissing`, `NullOffset` and read errors. -/
def mvarMetricDelta (records : List (Nat × Nat × Nat)) (store : Option Store) (tag : Nat)
    (coords : List Int) : FixedResult :=
  match mvarSearch records tag (records.length + 1) 0 records.length with
  | none => .err
  | some (o, i) =>
    match store with
    | none => .err
    | some (regions, subs) => fromDelta (Tent.computeDelta regions subs o i coords)

/-! ### vertical metrics (read-fonts vmtx.rs / hmtx.rs `advance`, `side_bearing`; vorg.rs) -/

/-- `hmtx::advance(metrics, gid)` (`Hmtx::advance`, `Vmtx::advance`):
`metrics.get(gid).or_else(|| metrics.last()).map(advance)`. -/
def longAdvance (metrics : List (Int × Int)) (gid : Nat) : Option Int :=
  match metrics[gid]? with
  | some m => some m.1
  | none => metrics.getLast?.map (·.1)

/-- `hmtx::side_bearing(metrics, side_bearings, gid)` (`Hmtx::side_bearing`, `Vmtx::side_bearing`). -/
def longSideBearing (metrics : List (Int × Int)) (bearings : List Int) (gid : Nat) : Option Int :=
  match metrics[gid]? with
  | some m => some m.2
  | none => bearings[gid - metrics.length]?

/-- `Vorg::vertical_origin_y(gid)`: `binary_search_by` over `(glyph_index, vert_origin_y)` records
(std's algorithm: `size = len; base = 0; while size > 1 { half = size/2; mid = base+half;
base = if cmp(mid) == Greater { base } else { mid }; size -= half }` then compare at `base`),
default when not found. -/
def vorgSearch (records : List (Nat × Int)) (gid : Nat) : Nat → Nat → Nat → Nat
  | 0, base, _ => base
  | fuel + 1, base, size =>
    if size > 1 then
      let half := size / 2
      let mid := base + half
      let base' := match records[mid]? with
        | some r => if r.1 > gid then base else mid
        | none => base
      vorgSearch records gid fuel base' (size - half)
    else base

def vorgY (default : Int) (records : List (Nat × Int)) (gid : Nat) : Int :=
  if records.isEmpty then default else
  let base := vorgSearch records gid records.length 0 records.length
  match records[base]? with
  | some r => if r.1 = gid then r.2 else default
  | none => default

end FontVerif.Metrics
