/-
Model of glyph metric lookup with variation deltas:
  skrifa/src/metrics.rs   GlyphMetrics::{advance_width, left_side_bearing}, FixedScaleFactor::apply
  read-fonts/src/tables/variations.rs   advance_delta / item_delta (`Fixed::from_i32(delta)`)
-/
import FontVerif.Model.Base
import FontVerif.Model.Fixed
namespace FontVerif.Metrics
open FontVerif

/-- `delta.to_f64() as i32` for `delta = Fixed::from_i32(d)`: the 16.16 value truncated toward
zero (the float is exact).  `Fixed::from_i32` keeps only the low 16 bits of `d`. -/
def deltaInt (d : Int) : Int := Int.tdiv (Fixed.fromI32 d) 65536

/-- base advance: `h_metrics.get(gid).map(advance).unwrap_or(default_advance_width)` where the
default is the last long metric's advance (0 if there is none). -/
def baseAdvance (hMetrics : List (Int × Int)) (gid : Nat) : Int :=
  match hMetrics[gid]? with
  | some m => m.1
  | none => match hMetrics.getLast? with
    | some m => m.1
    | none => 0

/-- base lsb: the long metric's side bearing, else
`lsbs.get(gid.saturating_sub(h_metrics.len()))`, else 0. -/
def baseLsb (hMetrics : List (Int × Int)) (lsbs : List Int) (gid : Nat) : Int :=
  match hMetrics[gid]? with
  | some m => m.2
  | none => (lsbs[gid - hMetrics.length]?).getD 0

/-- `advance_width` in font units before scaling: `None` when `gid ≥ glyph_count`;
`delta` is the HVAR `compute_delta` result if a table is present and evaluation succeeded. -/
def advanceUnits (glyphCount : Nat) (hMetrics : List (Int × Int)) (gid : Nat) (delta : Option Int) :
    Option Int :=
  if gid ≥ glyphCount then none else
  some (baseAdvance hMetrics gid + (match delta with | some d => deltaInt d | none => 0))

def lsbUnits (glyphCount : Nat) (hMetrics : List (Int × Int)) (lsbs : List Int) (gid : Nat)
    (delta : Option Int) : Option Int :=
  if gid ≥ glyphCount then none else
  some (baseLsb hMetrics lsbs gid + (match delta with | some d => deltaInt d | none => 0))

/-- `FixedScaleFactor::apply(value)`: `scale.mul_div(Fixed(value), Fixed(64))` as 16.16 bits
(the `to_f32` of the result is not modelled). -/
def applyScale (scale value : Int) : Int := Fixed.mulDiv scale value 64

end FontVerif.Metrics
