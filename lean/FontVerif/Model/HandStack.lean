/-
C01 (hand-written code) — the value-carrying part of the CFF operand stack,
read-fonts/src/tables/postscript/stack.rs: `Stack::{push_impl, pop, get_i32, pop_i32, clear, reverse,
number_values, fixed_values, fixed_array::<N>, apply_blend}`.

`values: [i32; 513]`, `value_is_fixed: [bool; 513]`, `top`.  (Model/HandIter.lean has the same stack without
the numeric values of fixed entries, for the DICT walk; here the values are tracked because `apply_blend`
computes indices from a popped operand.)  Every slice expression (`values[..top]`, `values[start..end]`,
`split_at_mut`) and every direct index (`deltas[delta_ix]`) of the Rust is a representable `trap`; plain
`usize` `+` / `*` trap beyond `usize::MAX`.  Props/C01HandStack.lean shows that no trap is reachable from a
well-formed stack (`top ≤ 513`), for every operand value and every blend state.

The blend state is abstracted to what `apply_blend` observes: `region_count()` (`rc`) and the items of
`scalars()` (`some bits` = `Ok(Fixed)`, `none` = `Err`).
-/
import FontVerif.Model.Fixed
import FontVerif.Model.HandRead
namespace FontVerif.HandStack
open FontVerif

def MAX_STACK : Nat := 513

structure St where
  vals : List Int
  fx : List Bool
  top : Nat
  deriving Repr, DecidableEq

/-- `Stack::new` -/
def St.new : St := ⟨List.replicate 513 0, List.replicate 513 false, 0⟩

/-- the arrays have their 513 slots and `top` is an index into them (`Stack`'s invariant) -/
def St.wf (s : St) : Prop := s.vals.length = 513 ∧ s.fx.length = 513 ∧ s.top ≤ 513

inductive SErr where
  | overflow
  | underflow
  | expectedI32 (i : Nat)
  | invalidAccess (i : Nat)
  /-- an `Err` item of `BlendState::scalars()` -/
  | blend
  deriving Repr, DecidableEq

/-- a value, a Rust `Err`, or a panic -/
inductive Res (α : Type) where
  | ok (a : α)
  | err (e : SErr)
  | trap
  deriving Repr, DecidableEq

/-- `push_impl(value, is_fixed)` -/
def push (s : St) (v : Int) (isFixed : Bool) : Res Unit × St :=
  if s.top = MAX_STACK then (.err .overflow, s)
  else if s.top < s.vals.length ∧ s.top < s.fx.length then
    (.ok (), ⟨s.vals.set s.top v, s.fx.set s.top isFixed, s.top + 1⟩)
  else (.trap, s)

/-- `get_i32(index)`: `values.get(index).ok_or(InvalidStackAccess)`, then `value_is_fixed[index]` -/
def getI32 (s : St) (i : Nat) : Res Int :=
  match s.vals[i]? with
  | none => .err (.invalidAccess i)
  | some v =>
    match s.fx[i]? with
    | none => .trap
    | some true => .err (.expectedI32 i)
    | some false => .ok v

/-- `pop_i32`: `pop()?` then `get_i32` -/
def popI32 (s : St) : Res Int × St :=
  if s.top > 0 then let s' : St := { s with top := s.top - 1 }; (getI32 s' (s.top - 1), s')
  else (.err .underflow, s)

/-- `clear` -/
def clear (s : St) : St := { s with top := 0 }

/-- `reverse`: `values[..top].reverse(); value_is_fixed[..top].reverse()` -/
def reverse (s : St) : Res Unit × St :=
  if s.top ≤ s.vals.length ∧ s.top ≤ s.fx.length then
    (.ok (), ⟨(s.vals.take s.top).reverse ++ s.vals.drop s.top, (s.fx.take s.top).reverse ++ s.fx.drop s.top, s.top⟩)
  else (.trap, s)

/-- `number_values().collect()`: `values[..top].iter().zip(&value_is_fixed)`; items `(is_fixed, raw)`;
`none` = the slice panics -/
def numberValues (s : St) : Option (List (Bool × Int)) :=
  if s.top ≤ s.vals.length then some (((s.vals.take s.top).zip s.fx).map (fun p => (p.2, p.1))) else none

/-- `Fixed::from_bits` / `Fixed::from_i32` by the flag -/
def asFixed (v : Int) (isFixed : Bool) : Int := if isFixed then v else Fixed.fromI32 v

/-- `fixed_values().collect()` (16.16 bits) -/
def fixedValues (s : St) : Option (List Int) :=
  if s.top ≤ s.vals.length then some (((s.vals.take s.top).zip s.fx).map (fun p => asFixed p.1 p.2)) else none

/-- `fixed_array::<N>(first_index)` -/
def fixedArray (s : St) (n first : Nat) : Res (List Int) :=
  if first ≥ s.top then .err (.invalidAccess first)
  else
    match HandRead.checkedAdd first n with
    | none => .trap
    | some e =>
      if e > s.top then .err (.invalidAccess (e - 1))
      else if e ≤ s.vals.length ∧ e ≤ s.fx.length then
        .ok ((((s.vals.drop first).take n).zip ((s.fx.drop first).take n)).map (fun p => asFixed p.1 p.2))
      else .trap

/-- `i32 as usize` (sign extension to 64 bits) -/
def asUsize (v : Int) : Nat := (v % 18446744073709551616).toNat

/-- the inner loop of `apply_blend` for one region: `for (value_ix, value) in values.iter_mut().enumerate()`,
`delta_ix = region_count * value_ix + region_ix`, `deltas[delta_ix]` (`deltas` = `values[start..][tvc..]`),
`*value = value.wrapping_add(delta * scalar)`.  `none` = panic. -/
def innerLoop (rc regionIx start tvc : Nat) (scalar : Int) : List Nat → List Int → Option (List Int)
  | [], vals => some vals
  | vi :: rest, vals =>
    let deltaIx := rc * vi + regionIx
    if deltaIx > HandRead.MAXU then none
    else if deltaIx < vals.length - start - tvc then
      match vals[start + tvc + deltaIx]?, vals[start + vi]? with
      | some d, some v => innerLoop rc regionIx start tvc scalar rest (vals.set (start + vi) (wrapI32 (v + Fixed.mul d scalar)))
      | _, _ => none
    else none

/-- the outer loop: `for (region_ix, maybe_scalar) in blend_state.scalars()?.enumerate()` -/
def outerLoop (rc start tvc : Nat) : Nat → List (Option Int) → List Int → Res Unit × List Int
  | _, [], vals => (.ok (), vals)
  | _, none :: _, vals => (.err .blend, vals)
  | ri, some sc :: rest, vals =>
    if sc = 0 then outerLoop rc start tvc (ri + 1) rest vals
    else
      match innerLoop rc ri start tvc sc (List.range tvc) vals with
      | none => (.trap, vals)
      | some vals' => outerLoop rc start tvc (ri + 1) rest vals'

/-- `apply_blend(blend_state)`; the stack keeps every modification made before an `Err` -/
def applyBlend (s : St) (rc : Nat) (scalars : List (Option Int)) : Res Unit × St :=
  match popI32 s with
  | (.err e, s1) => (.err e, s1)
  | (.trap, s1) => (.trap, s1)
  | (.ok v, s1) =>
    let tvc := asUsize v
    if tvc > s1.top then (.err .underflow, s1)
    else
      match HandRead.checkedAdd rc 1 with
      | none => (.trap, s1)
      | some rc1 =>
        match HandRead.checkedMul tvc rc1 with
        | none => (.trap, s1)
        | some opc =>
          if s1.top < opc then (.err .underflow, s1)
          else
            let start := s1.top - opc
            let end_ := start + opc
            -- `values[start..end]`, `value_is_fixed[start..]`
            if end_ ≤ s1.vals.length ∧ start ≤ s1.fx.length then
              let k := min opc (s1.fx.length - start)        -- zip stops at the shorter side
              let conv := ((s1.vals.drop start).take k).zip ((s1.fx.drop start).take k) |>.map (fun p => asFixed p.1 p.2)
              let vals1 := s1.vals.take start ++ conv ++ s1.vals.drop (start + k)
              let fx1 := s1.fx.take start ++ List.replicate k true ++ s1.fx.drop (start + k)
              let s2 : St := ⟨vals1, fx1, s1.top⟩
              -- `values[start..].split_at_mut(target_value_count)`
              if tvc ≤ vals1.length - start then
                match outerLoop rc start tvc 0 scalars vals1 with
                | (.ok (), vals2) => (.ok (), ⟨vals2, fx1, start + tvc⟩)
                | (.err e, vals2) => (.err e, ⟨vals2, fx1, s1.top⟩)
                | (.trap, vals2) => (.trap, ⟨vals2, fx1, s1.top⟩)
              else (.trap, s2)
            else (.trap, s1)

/-! ## scripted operations (driver / harness protocol) -/

inductive Op where
  | pushI (v : Int)
  | pushF (v : Int)
  | pop
  | rev
  | nums
  | fixeds
  | arr (n first : Nat)
  | clr
  | blend (rc : Nat) (scalars : List (Option Int))
  deriving Repr, DecidableEq

end FontVerif.HandStack
