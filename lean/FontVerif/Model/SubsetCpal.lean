/-
Model of the CPAL subsetter of klippa and of the plan's palette-index renumbering:

  klippa/src/cpal.rs   Cpal::subset, subset_v0, subset_v1,
                       `impl SubsetTable for &[ColorRecord]`, `impl SubsetTable for &[BigEndian<NameId>]`
  klippa/src/lib.rs    remap_palette_indices
  read-fonts           generated_cpal.rs `Cpal::read` (field layout, `cursor.finish` length check),
                       `color_records_array`, `color_record_indices`, `palette_entry_labels_array`

Input: the bytes of the source CPAL table and `plan.colr_palettes` as a list of (old, new) pairs sorted
by old index (an `FnvHashMap`; only `keys()` collected into an `IntSet` — ascending — `contains_key`
and `is_empty` are used, so the order of the hash map never matters).
Outcome: `ok bytes`, `dropped` (the subsetter returned `Err` and the serializer is not in error:
`lib.rs subset` omits the table), `fail` (serializer error: `subset_font` returns `Err`), `trap`
(panic; none left after the overflow fix).
-/
import FontVerif.Model.SubsetColrSer
namespace FontVerif.SubsetCpal
open FontVerif FontVerif.ColrSer
open FontVerif.SubsetHvar (Err R)

/-- `remap_palette_indices` (lib.rs): the i-th smallest index becomes `i as u16`, 0xFFFF stays. -/
def remapPaletteIndices (indices : List Nat) : List (Nat × Nat) :=
  indices.zipIdx.map fun (x, i) => if x = 0xFFFF then (0xFFFF, 0xFFFF) else (x, i % 65536)

/-- the header as `Cpal::read` sees it -/
structure Header where
  version : Nat
  numEntries : Nat
  numPalettes : Nat
  numColorRecords : Nat
  recordsOffset : Nat
  indices : List Nat
  /-- position of `paletteTypesArrayOffset` when `version >= 1` -/
  v1Pos : Option Nat
  deriving Repr

def rdList16 (b : List Nat) (p : Nat) : Nat → Option (List Nat)
  | 0 => some []
  | n + 1 => do
    let v ← rd16 b p
    let rest ← rdList16 b (p + 2) n
    pure (v :: rest)

/-- `Cpal::read`: `none` = `Err(ReadError)` (`font.cpal()` fails: the table is dropped) -/
def readHeader (b : List Nat) : Option Header :=
  match rd16 b 0, rd16 b 2, rd16 b 4, rd16 b 6, rd32 b 8 with
  | some version, some numEntries, some numPalettes, some numColorRecords, some recordsOffset =>
    match rdList16 b 12 numPalettes with
    | some indices =>
      let fin := 12 + 2 * numPalettes
      if version ≥ 1 then
        if fin + 12 ≤ b.length then
          some { version, numEntries, numPalettes, numColorRecords, recordsOffset, indices, v1Pos := some fin }
        else none
      else
        some { version, numEntries, numPalettes, numColorRecords, recordsOffset, indices, v1Pos := none }
    | none => none
  | _, _, _, _, _ => none

/-- inner loop of `impl SubsetTable for &[ColorRecord]`: the records `first + e` for the retained
entries `e`, in order; `self.get(record_idx)` = None ⇒ set_err(OTHER) -/
def recordsOf (records : List Nat) (first : Nat) : List Nat → R (List Nat)
  | [] => pure []
  | e :: es =>
    match slice records (4 * (first + e)) 4 with
    | none => throw Err.fail
    | some r => do
      let rest ← recordsOf records first es
      pure (r ++ rest)

/-- `impl SubsetTable for &[ColorRecord]`: loop over the palettes' first indices; the state is
(`first_record_idx_map` as an association list in insertion order, `new_idx`, the bytes written).
`records` = the source `colorRecords` array bytes (`numColorRecords * 4` bytes). -/
def recordsGo (records : List Nat) (retained : List Nat) :
    List Nat → List (Nat × Nat) → Nat → List Nat → R (List (Nat × Nat) × List Nat)
  | [], map, _, out => pure (map, out)
  | first :: rest, map, newIdx, out =>
    if (map.lookup first).isSome then recordsGo records retained rest map newIdx out
    else do
      let recs ← recordsOf records first retained
      -- `new_idx` is a usize, stored `as u16` (fix 93c035d: an index beyond u16 implies the overflow
      -- reported by the caller)
      recordsGo records retained rest (map ++ [(first, newIdx % 65536)]) (newIdx + retained.length % 65536)
        (out ++ recs)

/-- `Offset32::serialize_subset` of an object without links -/
def packLeaf (packed : List Obj) (bytes : List Nat) (pos : Nat) (links : List Link) :
    R (List Obj × List Link) :=
  match popPack packed ⟨bytes, []⟩ with
  | (pk, some i) => pure (pk, links ++ [⟨pos, 4, i⟩])
  | (_, none) => throw Err.dropped               -- `return Err(s.error())` with no error flag set

/-- the bytes of the root object up to and including `colorRecordIndices` -/
def v0Bytes (version numColors numPalettes numColorRecords : Nat) (newIndices : List Nat) : List Nat :=
  beBytes 2 version ++ beBytes 2 numColors ++ beBytes 2 numPalettes ++
    beBytes 2 numColorRecords ++ [0, 0, 0, 0] ++ newIndices.flatMap (beBytes 2)

/-- one optional array of `subset_v1`: nothing when the source offset is null, a read error without
serializer error when the source bytes are missing (`.ok_or(READ_ERROR)?`), else a packed leaf -/
def optLeaf (present : Bool) (src : Option (List Nat)) (f : List Nat → List Nat) (pos : Nat)
    (packed : List Obj) (links : List Link) : R (List Obj × List Link) :=
  if present then
    match src with
    | none => throw Err.dropped
    | some s => packLeaf packed (f s) pos links
  else pure (packed, links)

/-- `&[BigEndian<NameId>]::subset`: the labels of the entries that are keys of `colr_palettes` -/
def keptLabels (numEntries : Nat) (palettes : List (Nat × Nat)) (src : List Nat) : List Nat :=
  ((List.range numEntries).filter fun e => (palettes.lookup e).isSome).flatMap
    fun e => (src.drop (2 * e)).take 2

/-- `subset_v1`: the three optional arrays, each packed as a leaf and linked from the header extension
at `typesPos` -/
def subsetV1 (b : List Nat) (h : Header) (palettes : List (Nat × Nat)) (typesPos : Nat)
    (packed : List Obj) (links : List Link) : R (List Obj × List Link) :=
  match h.v1Pos with
  | none => throw Err.trap
  | some p =>
    match rd32 b p, rd32 b (p + 4), rd32 b (p + 8) with
    | some typesOff, some labelsOff, some entryLabelsOff =>
      optLeaf (typesOff != 0) (slice b typesOff (4 * h.numPalettes)) id typesPos packed links >>= fun r1 =>
      optLeaf (labelsOff != 0) (slice b labelsOff (2 * h.numPalettes)) id (typesPos + 4) r1.1 r1.2 >>= fun r2 =>
      optLeaf (entryLabelsOff != 0) (slice b entryLabelsOff (2 * h.numEntries))
        (keptLabels h.numEntries palettes) (typesPos + 8) r2.1 r2.2
    | _, _, _ => throw Err.trap

/-- the retained palette entries: the keys of `colr_palettes` except 0xFFFF (an `IntSet`: ascending) -/
def retainedOf (palettes : List (Nat × Nat)) : List Nat := (palettes.map (·.1)).filter (· ≠ 0xFFFF)

/-- `Cpal::subset` up to `end_serialize`: the packed objects and the root object.
(Written with explicit `if … else` / `>>=` so that every branch is a separate case for the proofs.) -/
def cpalObjects (b : List Nat) (palettes : List (Nat × Nat)) : R (List Obj × Obj) :=
  match readHeader b with
  | none => throw Err.dropped
  | some h =>
    -- subset_v0
    let retained := retainedOf palettes
    let numColors := retained.length % 65536
    if palettes.isEmpty ∨ h.numPalettes = 0 ∨ retained.isEmpty then throw Err.dropped
    -- `color_records_array()`: NULL offset or unreadable ⇒ set_err(READ_ERROR)
    else if h.recordsOffset = 0 then throw Err.fail
    else match slice b h.recordsOffset (4 * h.numColorRecords) with
      | none => throw Err.fail
      | some records =>
        recordsGo records retained h.indices [] 0 [] >>= fun mr =>
        packLeaf [] mr.2 8 [] >>= fun pl =>
        -- `u16::try_from(first_record_idx_map.len())…checked_mul(num_colors)`: set_err(INT_OVERFLOW)
        if mr.1.length * numColors ≥ 65536 then throw Err.fail
        else
          let v0 := v0Bytes h.version numColors h.numPalettes (mr.1.length * numColors)
            (h.indices.map fun f => (mr.1.lookup f).getD 0)
          -- (a version >= 2 table keeps its version number but loses the version 1 header fields)
          if h.version ≠ 1 then pure (pl.1, ⟨v0, pl.2⟩)
          else
            subsetV1 b h palettes v0.length pl.1 pl.2 >>= fun r =>
            pure (r.1, ⟨v0 ++ List.replicate 12 0, r.2⟩)

/-- `Cpal::subset` + `end_serialize` + `copy_bytes` -/
def subsetCpal (b : List Nat) (palettes : List (Nat × Nat)) : R (List Nat) := do
  let (packed, root) ← cpalObjects b palettes
  layout packed root

/-! ## reader (what a client of read-fonts `Cpal` computes) -/

/-- the colour of entry `entry` of palette `palette`:
`color_records_array()[color_record_indices()[palette] + entry]` as (blue, green, red, alpha) -/
def color (b : List Nat) (palette entry : Nat) : Option (List Nat) :=
  match readHeader b with
  | none => none
  | some h =>
    if entry ≥ h.numEntries then none else
    match h.indices[palette]? with
    | none => none
    | some first =>
      if h.recordsOffset = 0 then none else
      match slice b h.recordsOffset (4 * h.numColorRecords) with
      | none => none
      | some records => slice records (4 * (first + entry)) 4

/-- one element of an optional version 1 array: the 32-bit offset field number `k` (0 types, 1 labels,
2 entry labels) behind the header, an array of `count` elements of width `w` -/
def v1Elem (b : List Nat) (k w : Nat) (count : Header → Nat) (i : Nat) : Option Nat :=
  match readHeader b with
  | none => none
  | some h =>
    match h.v1Pos with
    | none => none
    | some p =>
      match rd32 b (p + 4 * k) with
      | none => none
      | some off =>
        if off = 0 then none else
        match slice b off (w * count h) with
        | none => none
        | some arr => rdN w arr (w * i)

/-- `palette_entry_labels_array()[entry]` (`none` = no array / out of range) -/
def entryLabel (b : List Nat) (entry : Nat) : Option Nat := v1Elem b 2 2 (·.numEntries) entry

/-- `palette_types_array()[palette]` -/
def paletteType (b : List Nat) (palette : Nat) : Option Nat := v1Elem b 0 4 (·.numPalettes) palette

/-- `palette_labels_array()[palette]` -/
def paletteLabel (b : List Nat) (palette : Nat) : Option Nat := v1Elem b 1 2 (·.numPalettes) palette

end FontVerif.SubsetCpal
