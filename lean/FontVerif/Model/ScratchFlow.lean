/-
Scratch-memory flow of the `glyf` scalers: a small abstract interpreter for the WRITE-BEFORE-READ
discipline of the slices carved from the caller's buffer
(`skrifa/src/outline/glyf/{mod.rs, deltas.rs, hint/instance.rs}`).

translate/c12_wbr.py extracts, per function of the draw path, the ordered slice accesses it can see
statically (`Ev`, below) and emits them as data (Gen/C12Wbr.lean).  This file gives that data its
meaning:

  * `expand`   — unfolds one function (calls inlined, closures bound, branches forked, flags tracked)
                 into its finitely many *paths*: straight-line lists of accesses whose ranges are
                 linear forms (`Lin`) over the symbols of the function (point counts, bases, …);
  * `symRun`   — runs a path over the set of ranges known to be initialised and rejects a read that
                 is not covered (the per-function obligation `segOK … = true` is decided by the kernel);
  * `wbrOK`    — the concrete counterpart on numeric ranges (what the symbolic check is sound for:
                 Lemmas/ScratchFlow.lean), and
  * `Trace`    — the control skeleton of `Scaler::load` / `load_composite` (recursion over the glyph
                 tree, running point / contour counters) that strings the per-function paths together;
  * `Proc`     — a machine that uses the scratch memory only through range accesses and whose control
                 flow may depend on everything it has read: the object the independence theorem is
                 about.
-/
import FontVerif.Model.Base
import FontVerif.Model.Carve
namespace FontVerif.ScratchFlow

/-! ## linear forms -/

/-- `Σ coefs[i] · sym_i + const`; the symbols are those of one function (names in the generated
`…Syms` table), all ranging over `Nat` -/
structure Lin where
  coefs : List Nat
  const : Nat
deriving DecidableEq, Repr

def dot : List Nat → List Nat → Nat
  | c :: cs, v :: vs => c * v + dot cs vs
  | _, _ => 0

def Lin.eval (env : List Nat) (l : Lin) : Nat := dot l.coefs env + l.const

/-- coefficient-wise `≤` (missing coefficients are 0) -/
def coefsLe : List Nat → List Nat → Bool
  | [], _ => true
  | a :: as, [] => a == 0 && coefsLe as []
  | a :: as, b :: bs => decide (a ≤ b) && coefsLe as bs

/-- syntactic `≤`: holds under every assignment of the symbols -/
def Lin.le (a b : Lin) : Bool := coefsLe a.coefs b.coefs && decide (a.const ≤ b.const)

def coefsAdd : List Nat → List Nat → List Nat
  | [], bs => bs
  | as, [] => as
  | a :: as, b :: bs => (a + b) :: coefsAdd as bs

def Lin.add (a b : Lin) : Lin := ⟨coefsAdd a.coefs b.coefs, a.const + b.const⟩

def coefsSub : List Nat → List Nat → List Nat
  | as, [] => as
  | [], _ :: _ => []
  | a :: as, b :: bs => (a - b) :: coefsSub as bs

/-- `a - b`, defined when `b ≤ a` syntactically -/
def Lin.sub (a b : Lin) : Option Lin :=
  if b.le a then some ⟨coefsSub a.coefs b.coefs, a.const - b.const⟩ else none

def Lin.ofNat (n : Nat) : Lin := ⟨[], n⟩

/-! ## symbolic ranges and straight-line paths -/

/-- `field[lo, hi)`; fields are numbered by the generated `…Fields` table -/
structure SRng where
  field : Nat
  lo : Lin
  hi : Lin
deriving DecidableEq, Repr

/-- one statement / loop of the source: may read any element of `reads`, writes every element of
`writes` -/
structure SAcc where
  label : String
  reads : List SRng
  writes : List SRng
deriving DecidableEq, Repr

inductive SEv
  | one (a : SAcc)
  /-- a loop whose iterations each take one of the alternative bodies, any number of times -/
  | rep (alts : List (List SAcc))
deriving DecidableEq, Repr

abbrev SPath := List SEv

/-- is `r` inside one of the ranges known to be initialised (or syntactically empty)? -/
def covered (init : List SRng) (r : SRng) : Bool :=
  r.hi.le r.lo || init.any (fun s => s.field == r.field && s.lo.le r.lo && r.hi.le s.hi)

/-- the union of two ranges if they provably touch or overlap -/
def merge1 (s r : SRng) : Option SRng :=
  if s.field != r.field then none
  else if s.lo.le r.lo && r.lo.le s.hi then
    if r.hi.le s.hi then some s else if s.hi.le r.hi then some ⟨s.field, s.lo, r.hi⟩ else none
  else if r.lo.le s.lo && s.lo.le r.hi then
    if s.hi.le r.hi then some r else if r.hi.le s.hi then some ⟨s.field, r.lo, s.hi⟩ else none
  else none

def addInit : List SRng → SRng → List SRng
  | [], r => [r]
  | s :: rest, r =>
    match merge1 s r with
    | some u => addInit rest u
    | none => s :: addInit rest r

def accOK (init : List SRng) (a : SAcc) : Bool := a.reads.all (covered init)
def accPost (init : List SRng) (a : SAcc) : List SRng := a.writes.foldl addInit init

def runAccs : List SAcc → List SRng → Option (List SRng)
  | [], init => some init
  | a :: rest, init => if accOK init a then runAccs rest (accPost init a) else none

/-- run a path over the initialised set; `none` = some read is not covered.  A loop body is checked
from the state at the loop head (the set only grows, so later iterations are covered as well) and
contributes nothing (it may run zero times). -/
def symRun : SPath → List SRng → Option (List SRng)
  | [], init => some init
  | .one a :: rest, init => if accOK init a then symRun rest (accPost init a) else none
  | .rep alts :: rest, init =>
    if alts.all (fun b => (runAccs b init).isSome) then symRun rest init else none

/-! ## the extracted per-function data -/

inductive Part
  | all
  /-- the last four elements (the phantom points) -/
  | last4
deriving DecidableEq, Repr

/-- how a function refers to a slice -/
inductive PRef
  /-- a range of a field of the scaler's memory struct (`self.memory.F[lo..hi]`, or through a local
  alias of it) -/
  | abs (r : SRng)
  /-- (part of) the i-th slice parameter of this function -/
  | par (i : Nat) (part : Part)
  /-- (part of) the i-th slice argument a closure is called back with -/
  | cpar (i : Nat) (part : Part)
deriving Repr

inductive Mode
  | rd | wr | rw
deriving DecidableEq, Repr

structure Item where
  mode : Mode
  ref : PRef
deriving Repr

inductive Ev
  /-- every item is accessed over its whole extent (`fill`, `copy_from_slice`, a loop over all
  elements, an indexed loop over a constant range) -/
  | acc (label : String) (items : List Item)
  /-- lock-step iteration (`a.iter_mut().zip(b)…`): the common prefix of all items; `lens` are the
  lengths of the partners that are not scratch slices (`self.phantom`, font data) -/
  | zip (label : String) (lens : List Lin) (items : List Item)
  /-- call into code that is not analysed (read-fonts, the interpreter): it may read every `rd` /
  `rw` item anywhere; nothing is assumed to be written -/
  | opaque (label : String) (items : List Item)
  /-- call whose effect on the items is established by a hand model and the named theorem -/
  | modelled (label : String) (thm : String) (items : List Item)
  | set (flag : Nat) (v : Bool)
  | ifFlag (flag : Nat) (t e : List Ev)
  /-- condition not tracked: both arms are possible -/
  | branch (label : String) (t e : List Ev)
  /-- `return` / `?`: `ok = true` returns `Ok` early, `false` an error -/
  | exit (ok : Bool)
  | loop (label : String) (body : List Ev)
  /-- call of an analysed function (index into the function table) with slice arguments, an optional
  closure argument, and the flag that receives `.is_ok()` (`none`: the result is propagated with `?`) -/
  | call (f : Nat) (args : List PRef) (closure : List Ev) (okFlag : Option Nat)
  /-- (inside a callee) invocation of the closure argument -/
  | callback (args : List PRef)

structure Fn where
  name : String
  params : List String
  body : List Ev

/-- one path under construction -/
structure PSt where
  /-- reversed -/
  path : List SEv
  flags : List (Nat × Bool)
  /-- `none` running, `some true` returned `Ok` early, `some false` left with an error -/
  exited : Option Bool
  /-- the data could not be interpreted (unbound parameter, zip without a provable minimum, …) -/
  bad : Bool
deriving Repr

structure Closure where
  body : List Ev
  args : List SRng

structure Frame where
  args : List SRng
  cargs : List SRng
  closure : Option Closure

def last4 (r : SRng) : Option SRng := (r.hi.sub (Lin.ofNat 4)).map fun lo => ⟨r.field, lo, r.hi⟩

def partOf (r : SRng) : Part → Option SRng
  | .all => some r
  | .last4 => if r.lo.le ((r.hi.sub (Lin.ofNat 4)).getD r.lo) then last4 r else none

def resolve (fr : Frame) : PRef → Option SRng
  | .abs r => some r
  | .par i p => (fr.args[i]?).bind (partOf · p)
  | .cpar i p => (fr.cargs[i]?).bind (partOf · p)

def resolveItems (fr : Frame) (items : List Item) : Option (List (Mode × SRng)) :=
  items.mapM fun it => (resolve fr it.ref).map fun r => (it.mode, r)

def readsOf (l : List (Mode × SRng)) : List SRng := (l.filter (fun x => x.1 != .wr)).map (·.2)
def writesOf (l : List (Mode × SRng)) : List SRng := (l.filter (fun x => x.1 != .rd)).map (·.2)

/-- the length of the iteration partner that is provably the shortest -/
def minLen (extra : List Lin) (l : List (Mode × SRng)) : Option Lin :=
  match l.mapM (fun x => x.2.hi.sub x.2.lo) with
  | none => none
  | some lens => (extra ++ lens).find? (fun m => (extra ++ lens).all (fun n => m.le n))

def zipAcc (label : String) (extra : List Lin) (l : List (Mode × SRng)) : Option SAcc :=
  (minLen extra l).map fun m =>
    let cut := l.map fun x => (x.1, ({ x.2 with hi := x.2.lo.add m } : SRng))
    ⟨label, readsOf cut, writesOf cut⟩

def setFlag (flags : List (Nat × Bool)) (f : Nat) (v : Bool) : List (Nat × Bool) :=
  (f, v) :: flags.filter (fun x => x.1 != f)

def getFlag (flags : List (Nat × Bool)) (f : Nat) : Option Bool := (flags.find? (fun x => x.1 == f)).map (·.2)

def PSt.push (s : PSt) (e : Option SEv) : PSt :=
  match e with
  | some e => { s with path := e :: s.path }
  | none => { s with bad := true }

def onlyOnes : List SEv → Option (List SAcc)
  | [] => some []
  | .one a :: rest => (onlyOnes rest).map (a :: ·)
  | .rep _ :: _ => none

/-- all paths of an event list from the given states.  `fuel` bounds the total number of events
handled along one path (it only has to be large enough: running out marks the path `bad`). -/
def expand (fns : List Fn) : Nat → Frame → List Ev → List PSt → List PSt
  | 0, _, _, sts => sts.map fun s => { s with bad := true }
  | _ + 1, _, [], sts => sts
  | fuel + 1, fr, ev :: rest, sts =>
    let live := sts.filter (fun s => s.exited.isNone && !s.bad)
    let dead := sts.filter (fun s => !(s.exited.isNone && !s.bad))
    let next : List PSt :=
      match ev with
      | .acc label items =>
        let e := (resolveItems fr items).map fun l => SEv.one ⟨label, readsOf l, writesOf l⟩
        live.map (·.push e)
      | .modelled label _ items =>
        let e := (resolveItems fr items).map fun l => SEv.one ⟨label, readsOf l, writesOf l⟩
        live.map (·.push e)
      | .opaque label items =>
        let e := (resolveItems fr items).map fun l => SEv.one ⟨label, readsOf l, []⟩
        live.map (·.push e)
      | .zip label lens items =>
        let e := ((resolveItems fr items).bind (zipAcc label lens)).map SEv.one
        live.map (·.push e)
      | .set f v => live.map fun s => { s with flags := setFlag s.flags f v }
      | .ifFlag f t e =>
        live.flatMap fun s =>
          match getFlag s.flags f with
          | some true => expand fns fuel fr t [s]
          | some false => expand fns fuel fr e [s]
          | none => [{ s with bad := true }]
      | .branch _ t e => expand fns fuel fr t live ++ expand fns fuel fr e live
      | .exit ok => live.map fun s => { s with exited := some ok }
      | .loop _ body =>
        live.flatMap fun s =>
          let bs := expand fns fuel fr body [{ path := [], flags := s.flags, exited := none, bad := false }]
          let cont := bs.filter (fun b => b.exited.isNone)
          let exits := bs.filter (fun b => b.exited.isSome)
          match cont.mapM (fun b => onlyOnes b.path.reverse) with
          | none => [{ s with bad := true }]
          | some alts =>
            let s' : PSt := { s with path := SEv.rep alts :: s.path, bad := s.bad || bs.any (·.bad) }
            s' :: exits.map fun b => { s' with path := b.path ++ s'.path, exited := b.exited }
      | .call f args closure okFlag =>
        match fns[f]?, args.mapM (resolve fr) with
        | some fn, some actual =>
          let fr' : Frame := { args := actual, cargs := [], closure := some ⟨closure, fr.args⟩ }
          (expand fns fuel fr' fn.body live).map fun s =>
            match s.exited, okFlag with
            | none, some fl => { s with flags := setFlag s.flags fl true }
            | some true, some fl => { s with exited := none, flags := setFlag s.flags fl true }
            | some true, none => { s with exited := none }
            | some false, some fl => { s with exited := none, flags := setFlag s.flags fl false }
            | _, _ => s
        | _, _ => live.map fun s => { s with bad := true }
      | .callback args =>
        match fr.closure, args.mapM (resolve fr) with
        | some c, some actual =>
          let fr' : Frame := { args := c.args, cargs := actual, closure := none }
          (expand fns fuel fr' c.body live).map fun s =>
            match s.exited with
            | some true => { s with exited := none }
            | _ => s
        | _, _ => live.map fun s => { s with bad := true }
    dead ++ expand fns fuel fr rest next

/-- a finished path of a segment -/
structure Path where
  evs : SPath
  flags : List (Nat × Bool)
  /-- the draw was abandoned with an error on this path -/
  aborted : Bool
  bad : Bool
deriving DecidableEq, Repr

/-- one segment of a top-level function: straight-line piece between the points where the control
skeleton (`Trace`) takes over -/
structure Seg where
  name : String
  syms : List String
  body : List Ev

def expandFuel : Nat := 4000

def paths (fns : List Fn) (seg : Seg) (flags : List (Nat × Bool)) : List Path :=
  (expand fns expandFuel ⟨[], [], none⟩ seg.body [{ path := [], flags := flags, exited := none, bad := false }]).map
    fun s => ⟨s.path.reverse, s.flags, s.exited == some false, s.bad⟩

/-- **the per-function obligation**: along every path of the segment, started with `pre` known to be
initialised, no read touches an element that has not been written; paths that complete (and satisfy
`want`) establish `post` -/
def segOK (fns : List Fn) (seg : Seg) (flags : List (Nat × Bool)) (pre : List SRng)
    (want : Path → Bool) (post : List SRng) : Bool :=
  (paths fns seg flags).all fun p =>
    !p.bad &&
    match symRun p.evs pre with
    | none => false
    | some init => p.aborted || !want p || post.all (covered init)

/-! ## concrete ranges -/

structure CRng where
  field : Nat
  lo : Nat
  hi : Nat
deriving DecidableEq, Repr

structure CAcc where
  reads : List CRng
  writes : List CRng
deriving DecidableEq, Repr

def CRng.has (r : CRng) (f i : Nat) : Prop := r.field = f ∧ r.lo ≤ i ∧ i < r.hi

instance (r : CRng) (f i : Nat) : Decidable (r.has f i) := by unfold CRng.has; infer_instance

/-- which elements (field, index) have been written -/
abbrev Written := Nat → Nat → Prop

def inAny (rs : List CRng) (f i : Nat) : Prop := ∃ r ∈ rs, r.has f i

instance (rs : List CRng) (f i : Nat) : Decidable (inAny rs f i) := by unfold inAny; infer_instance

def stepW (w : Written) (a : CAcc) : Written := fun f i => w f i ∨ inAny a.writes f i

def afterW : List CAcc → Written → Written
  | [], w => w
  | a :: rest, w => afterW rest (stepW w a)

/-- write-before-read on concrete ranges -/
def wbrOK : List CAcc → Written → Prop
  | [], _ => True
  | a :: rest, w => (∀ f i, inAny a.reads f i → w f i) ∧ wbrOK rest (stepW w a)

def SRng.inst (env : List Nat) (r : SRng) : CRng := ⟨r.field, r.lo.eval env, r.hi.eval env⟩
def SAcc.inst (env : List Nat) (a : SAcc) : CAcc := ⟨a.reads.map (·.inst env), a.writes.map (·.inst env)⟩

/-- the concrete access sequences a symbolic path stands for under an assignment of the symbols -/
inductive Conc (env : List Nat) : SPath → List CAcc → Prop
  | nil : Conc env [] []
  | one (a : SAcc) (p : SPath) (cs : List CAcc) : Conc env p cs → Conc env (.one a :: p) (a.inst env :: cs)
  | repStop (alts : List (List SAcc)) (p : SPath) (cs : List CAcc) : Conc env p cs → Conc env (.rep alts :: p) cs
  | repIter (alts : List (List SAcc)) (b : List SAcc) (p : SPath) (cs : List CAcc) :
      b ∈ alts → Conc env (.rep alts :: p) cs → Conc env (.rep alts :: p) (b.map (·.inst env) ++ cs)

/-! ## the control skeleton of `Scaler::load`

`load` (trait default method in glyf/mod.rs) dispatches on the glyph: `load_empty` touches no slice,
`load_simple` is one segment, `load_composite` is: a segment before the component loop, per component
a recursive `load` followed by a segment, and a segment after the loop.  The running counters
`point_count` / `contour_count` are only ever increased by `load_simple`. -/

/-- the segments of one scaler and the symbol positions the skeleton binds.
`simple`:  syms 0..3 = `points_start`, `point_count`, `contours_start`, `contour_count`;
`compPre`: no bound symbols; ends with flag `haveDeltas` set;
`compIter`: syms 0..2 = `point_base`, points loaded by earlier components, points loaded by this one;
            started with flag `haveDeltas`;
`compPost`: syms 0..3 = `point_base`, points loaded by the components, `contour_base`, contours loaded;
`final`:   syms 0..1 = `point_count`, `contour_count` (the slices handed to `to_path`). -/
structure Pipeline where
  fns : List Fn
  simple : Seg
  compPre : Seg
  compIter : Seg
  compPost : Seg
  final : Seg
  haveDeltas : Nat
  /-- fields of the point / flag / contour-end arrays and of the component delta stack -/
  pts : Nat
  flags : Nat
  contours : Nat
  compDeltas : Nat

structure St where
  pc : Nat
  cc : Nat
deriving DecidableEq, Repr

inductive Outcome
  | ok (st : St)
  | aborted
deriving DecidableEq, Repr

inductive Job
  | glyph (g : Option Carve.Glyph)
  /-- the component loop of a composite: `hd` = have_deltas, point base, (delta base, component count:
  symbols 3, 4 of `compIter`), remaining components -/
  | comps (hd : Bool) (pb db k : Nat) (rest : List (Option Carve.Glyph))
  /-- a composite after its `compPre` segment -/
  | compBody (hd : Bool) (st0 : St) (db : Nat) (comps : List (Option Carve.Glyph))

def envStarts (env pre : List Nat) : Prop := env.take pre.length = pre

/-- all access sequences of loading a glyph (tree) with the counters at `st` -/
inductive Trace (P : Pipeline) : Job → St → List CAcc → Outcome → Prop
  | empty (st : St) : Trace P (.glyph none) st [] (.ok st)
  | simple (np nc : Nat) (instr : Bool) (st : St) (p : Path) (env : List Nat) (cs : List CAcc) :
      p ∈ paths P.fns P.simple [] → envStarts env [st.pc, np, st.cc, nc] → Conc env p.evs cs →
      Trace P (.glyph (some (.simple np nc instr))) st cs
        (if p.aborted then .aborted else .ok ⟨st.pc + np, st.cc + nc⟩)
  | compositeAbort (comps : List (Option Carve.Glyph)) (instr : Bool) (st : St) (p : Path) (env : List Nat)
      (cs : List CAcc) :
      p ∈ paths P.fns P.compPre [] → Conc env p.evs cs → p.aborted = true →
      Trace P (.glyph (some (.composite comps instr))) st cs .aborted
  | composite (comps : List (Option Carve.Glyph)) (instr : Bool) (st : St) (p : Path) (env : List Nat)
      (hd : Bool) (db : Nat) (cs cs' : List CAcc) (out : Outcome) :
      p ∈ paths P.fns P.compPre [] → Conc env p.evs cs → p.aborted = false →
      getFlag p.flags P.haveDeltas = some hd →
      (hd = true → envStarts env [db, comps.length]) →
      Trace P (.compBody hd st db comps) st cs' out →
      Trace P (.glyph (some (.composite comps instr))) st (cs ++ cs') out
  | bodyAbort (hd : Bool) (st0 st : St) (db : Nat) (comps : List (Option Carve.Glyph)) (cs : List CAcc) :
      Trace P (.comps hd st0.pc db comps.length comps) st cs .aborted →
      Trace P (.compBody hd st0 db comps) st cs .aborted
  | body (hd : Bool) (st0 st st1 : St) (db : Nat) (comps : List (Option Carve.Glyph)) (p : Path)
      (env : List Nat) (cs cs' : List CAcc) :
      Trace P (.comps hd st0.pc db comps.length comps) st cs (.ok st1) →
      p ∈ paths P.fns P.compPost [] →
      envStarts env [st0.pc, st1.pc - st0.pc, st0.cc, st1.cc - st0.cc] → Conc env p.evs cs' →
      Trace P (.compBody hd st0 db comps) st (cs ++ cs') (if p.aborted then .aborted else .ok st1)
  | compsNil (hd : Bool) (pb db k : Nat) (st : St) : Trace P (.comps hd pb db k []) st [] (.ok st)
  | compsAbort (hd : Bool) (pb db k : Nat) (g : Option Carve.Glyph) (rest : List (Option Carve.Glyph))
      (st : St) (cs : List CAcc) :
      Trace P (.glyph g) st cs .aborted → Trace P (.comps hd pb db k (g :: rest)) st cs .aborted
  | compsIterAbort (hd : Bool) (pb db k : Nat) (g : Option Carve.Glyph) (rest : List (Option Carve.Glyph))
      (st st1 : St) (p : Path) (env : List Nat) (cs cs' : List CAcc) :
      Trace P (.glyph g) st cs (.ok st1) →
      p ∈ paths P.fns P.compIter [(P.haveDeltas, hd)] →
      envStarts env [pb, st.pc - pb, st1.pc - st.pc, db, k] → Conc env p.evs cs' → p.aborted = true →
      Trace P (.comps hd pb db k (g :: rest)) st (cs ++ cs') .aborted
  | compsCons (hd : Bool) (pb db k : Nat) (g : Option Carve.Glyph) (rest : List (Option Carve.Glyph))
      (st st1 : St) (p : Path) (env : List Nat) (cs cs' cs'' : List CAcc) (out : Outcome) :
      Trace P (.glyph g) st cs (.ok st1) →
      p ∈ paths P.fns P.compIter [(P.haveDeltas, hd)] →
      envStarts env [pb, st.pc - pb, st1.pc - st.pc, db, k] → Conc env p.evs cs' → p.aborted = false →
      Trace P (.comps hd pb db k rest) st1 cs'' out →
      Trace P (.comps hd pb db k (g :: rest)) st (cs ++ cs' ++ cs'') out

/-- the accesses of a whole draw: load the glyph from counters 0, then `to_path` reads the result -/
inductive DrawTrace (P : Pipeline) (g : Option Carve.Glyph) : List CAcc → Prop
  | aborted (cs : List CAcc) : Trace P (.glyph g) ⟨0, 0⟩ cs .aborted → DrawTrace P g cs
  | done (st : St) (p : Path) (env : List Nat) (cs cs' : List CAcc) :
      Trace P (.glyph g) ⟨0, 0⟩ cs (.ok st) → p ∈ paths P.fns P.final [] →
      envStarts env [st.pc, st.cc] → Conc env p.evs cs' → DrawTrace P g (cs ++ cs')

/-! ## contracts of the segments (what the skeleton needs from each) -/

def lin (coefs : List Nat) : Lin := ⟨coefs, 0⟩

/-- `load_simple` needs nothing and leaves points / flags `[points_start, +point_count)` and contour
ends `[contours_start, +contour_count)` written -/
def simplePost (P : Pipeline) : List SRng :=
  [⟨P.pts, lin [1], lin [1, 1]⟩, ⟨P.flags, lin [1], lin [1, 1]⟩, ⟨P.contours, lin [0, 0, 1], lin [0, 0, 1, 1]⟩]

/-- before the loop: with `have_deltas`, the deltas of the components `[delta_base, +count)` are written -/
def compPrePost (P : Pipeline) : List SRng := [⟨P.compDeltas, lin [1], lin [1, 1]⟩]

/-- per component: everything loaded so far is written (and the component deltas if `have_deltas`) -/
def compIterPre (P : Pipeline) (hd : Bool) : List SRng :=
  [⟨P.pts, lin [], lin [1, 1, 1]⟩, ⟨P.flags, lin [], lin [1, 1, 1]⟩] ++
  (if hd then [⟨P.compDeltas, lin [0, 0, 0, 1], lin [0, 0, 0, 1, 1]⟩] else [])

def compPostPre (P : Pipeline) : List SRng :=
  [⟨P.pts, lin [], lin [1, 1]⟩, ⟨P.flags, lin [], lin [1, 1]⟩, ⟨P.contours, lin [], lin [0, 0, 1, 1]⟩]

def finalPre (P : Pipeline) : List SRng :=
  [⟨P.pts, lin [], lin [1]⟩, ⟨P.flags, lin [], lin [1]⟩, ⟨P.contours, lin [], lin [0, 1]⟩]

/-- all per-function obligations of one scaler -/
def pipelineOK (P : Pipeline) : Bool :=
  segOK P.fns P.simple [] [] (fun _ => true) (simplePost P) &&
  segOK P.fns P.compPre [] [] (fun p => getFlag p.flags P.haveDeltas == some true) (compPrePost P) &&
  (paths P.fns P.compPre []).all (fun p => p.aborted || (getFlag p.flags P.haveDeltas).isSome) &&
  segOK P.fns P.compIter [(P.haveDeltas, true)] (compIterPre P true) (fun _ => true) [] &&
  segOK P.fns P.compIter [(P.haveDeltas, false)] (compIterPre P false) (fun _ => true) [] &&
  segOK P.fns P.compPost [] (compPostPre P) (fun _ => true) [] &&
  segOK P.fns P.final [] (finalPre P) (fun _ => true) []

/-! ## a machine that uses the scratch buffer through range accesses only

The scaler, seen from the buffer: it repeatedly reads some ranges and writes some ranges; *what* it
does next, what it writes and what it finally returns may depend on the font, the glyph, the size,
the location, the hinting configuration (all fixed in the closure `k`) and on every value it has read
— but on nothing else. -/

abbrev Mem := Nat → Nat → Int

/-- what a step sees of the memory: the elements of its read ranges -/
def restrict (m : Mem) (rs : List CRng) : Mem := fun f i => if inAny rs f i then m f i else 0

/-- after a step: elements of the written ranges get the computed value -/
def update (m : Mem) (ws : List CRng) (v : Mem) : Mem := fun f i => if inAny ws f i then v f i else m f i

inductive Proc (R : Type) where
  | done (r : R)
  /-- read `a.reads`; write `val` (a function of what was read) to `a.writes`; continue with `k` (a
  function of what was read) -/
  | step (a : CAcc) (val : Mem → Mem) (k : Mem → Proc R)

def Proc.run {R : Type} : Proc R → Mem → R
  | .done r, _ => r
  | .step a val k, m => (k (restrict m a.reads)).run (update m a.writes (val (restrict m a.reads)))

/-- the access sequence of a run on the given initial buffer contents -/
def Proc.trace {R : Type} : Proc R → Mem → List CAcc
  | .done _, _ => []
  | .step a val k, m => a :: (k (restrict m a.reads)).trace (update m a.writes (val (restrict m a.reads)))

end FontVerif.ScratchFlow
