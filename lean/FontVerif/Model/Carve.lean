/-
Model of the scratch-memory carving of the `glyf` scaler:
  * `skrifa/src/outline/glyf/memory.rs`: `align_up`, `alloc_slice`,
    `FreeTypeOutlineMemory::new`, `HarfBuzzOutlineMemory::new`;
  * `skrifa/src/outline/glyf/outline.rs`: `Outline::required_buffer_size`;
  * `skrifa/src/outline/glyf/mod.rs`: `Outlines::outline` / `outline_rec` (the per-glyph counts the
    two functions above are fed with).

A byte buffer is `(addr, len)`: the machine address of its first byte and its length.  Addresses are
`Nat`s below `2^64` (`usize`); `align_up`'s `wrapping_neg` is modelled at that width.  The additions
`len + …` in `align_up` and the products `len * size_of::<T>()` are modelled without overflow
(assumption recorded in props/C12.json: the buffer does not end within 8 bytes of the top of the
address space, counts·8 < 2^64).
-/
import FontVerif.Model.Base
namespace FontVerif.Carve

/-- `usize::wrapping_neg` -/
def wrapNeg64 (x : Nat) : Nat := (18446744073709551616 - x % 18446744073709551616) % 18446744073709551616

/-- `align_up(len, alignment) = len + (len.wrapping_neg() & (alignment - 1))` -/
def alignUp (addr align : Nat) : Nat := addr + (wrapNeg64 addr &&& (align - 1))

/-- remaining buffer: address of first byte, length -/
structure Buf where
  addr : Nat
  len : Nat
deriving DecidableEq, Repr

/-- one `alloc_slice::<T>(buf, count)` call: `size_of::<T>()`, `align_of::<T>()`, requested length -/
structure Entry where
  name : String
  size : Nat
  align : Nat
  count : Nat
deriving DecidableEq, Repr

/-- a carved slice: address of its first element, element count, element size.
An empty slice (`Default::default()`) has no meaningful address; it is carried as `addr = 0`. -/
structure Slice where
  name : String
  addr : Nat
  count : Nat
  size : Nat
deriving DecidableEq, Repr

/-- `alloc_slice::<T>(buf, len)` -/
def allocSlice (b : Buf) (e : Entry) : Option (Slice × Buf) :=
  if e.count = 0 then some ({ name := e.name, addr := 0, count := 0, size := e.size }, b)
  else
    let aligned := alignUp b.addr e.align
    let off := aligned - b.addr
    -- `buf.get_mut(aligned_offset..)?`
    if off > b.len then none
    else
      let len' := b.len - off
      let bytes := e.count * e.size
      if bytes > len' then none
      else
        -- `try_cast_slice_mut` cannot fail: address is aligned, byte length is a multiple of size
        some ({ name := e.name, addr := aligned, count := e.count, size := e.size },
              { addr := aligned + bytes, len := len' - bytes })

/-- a sequence of `alloc_slice(…)?` calls threaded through `buf` -/
def carve : List Entry → Buf → Option (List Slice)
  | [], _ => some []
  | e :: es, b =>
    match allocSlice b e with
    | none => none
    | some (s, b') =>
      match carve es b' with
      | none => none
      | some ss => some (s :: ss)

/-- the memory metrics of `glyf::Outline` -/
structure Counts where
  points : Nat
  contours : Nat
  maxSimplePoints : Nat
  maxOtherPoints : Nat
  maxComponentDeltaStack : Nat
  maxStack : Nat
  cvtCount : Nat
  storageCount : Nat
  maxTwilightPoints : Nat
  hasHinting : Bool
  hasVariations : Bool
deriving DecidableEq, Repr

/-- conditional allocation: `if cond { alloc_slice(buf, n)? } else { (Default::default(), buf) }`.
`alloc_slice(buf, 0)` returns `(Default::default(), buf)` as well, so the `else` arm is an entry of
count 0. -/
def cond (c : Bool) (n : Nat) : Nat := if c then n else 0

/-- the `alloc_slice` calls of `FreeTypeOutlineMemory::new`, in call order.
Element types: `Point<F26Dot6>`/`Point<i32>`/`Point<Fixed>` 8/4, `i32` 4/4, `u16` 2/2, `PointFlags` 1/1. -/
def ftProgram (c : Counts) (embedded : Bool) : List Entry :=
  let hinted := c.hasHinting && embedded
  [ ⟨"scaled", 8, 4, c.points⟩,
    ⟨"unscaled", 8, 4, c.maxOtherPoints⟩,
    ⟨"original_scaled", 8, 4, cond hinted c.maxOtherPoints⟩,
    ⟨"deltas", 8, 4, cond c.hasVariations c.maxSimplePoints⟩,
    ⟨"iup_buffer", 8, 4, cond c.hasVariations c.maxSimplePoints⟩,
    ⟨"composite_deltas", 8, 4, cond c.hasVariations c.maxComponentDeltaStack⟩,
    ⟨"stack", 4, 4, cond hinted c.maxStack⟩,
    ⟨"cvt", 4, 4, cond hinted c.cvtCount⟩,
    ⟨"storage", 4, 4, cond hinted c.storageCount⟩,
    ⟨"twilight_scaled", 8, 4, cond hinted c.maxTwilightPoints⟩,
    ⟨"twilight_original_scaled", 8, 4, cond hinted c.maxTwilightPoints⟩,
    ⟨"contours", 2, 2, c.contours⟩,
    ⟨"flags", 1, 1, c.points⟩,
    ⟨"twilight_flags", 1, 1, cond hinted c.maxTwilightPoints⟩ ]

/-- the `alloc_slice` calls of `HarfBuzzOutlineMemory::new`, in call order (`Point<f32>` 8/4) -/
def hbProgram (c : Counts) : List Entry :=
  [ ⟨"points", 8, 4, c.points⟩,
    ⟨"contours", 2, 2, c.contours⟩,
    ⟨"flags", 1, 1, c.points⟩,
    ⟨"deltas", 8, 4, cond c.hasVariations c.maxSimplePoints⟩,
    ⟨"iup_buffer", 8, 4, cond c.hasVariations c.maxSimplePoints⟩,
    ⟨"composite_deltas", 8, 4, cond c.hasVariations c.maxComponentDeltaStack⟩ ]

/-- the count fields of `Outline` (constructor names are the Rust field names) -/
inductive CField
  | points | contours | max_simple_points | max_other_points | max_component_delta_stack
  | max_stack | cvt_count | storage_count | max_twilight_points
deriving DecidableEq, Repr

def Counts.field (c : Counts) : CField → Nat
  | .points => c.points
  | .contours => c.contours
  | .max_simple_points => c.maxSimplePoints
  | .max_other_points => c.maxOtherPoints
  | .max_component_delta_stack => c.maxComponentDeltaStack
  | .max_stack => c.maxStack
  | .cvt_count => c.cvtCount
  | .storage_count => c.storageCount
  | .max_twilight_points => c.maxTwilightPoints

/-- the conditions under which a slice is carved -/
inductive CCond
  | always | hinted | has_variations
deriving DecidableEq, Repr

def condHolds (c : Counts) (embedded : Bool) : CCond → Bool
  | .always => true
  | .hinted => c.hasHinting && embedded
  | .has_variations => c.hasVariations

/-- one row `(struct field, size_of, align_of, count field, condition)` of the carve shape that
translate/c12_src.py re-extracts from memory.rs, instantiated on concrete counts -/
def instantiate (c : Counts) (embedded : Bool) (r : String × Nat × Nat × CField × CCond) : Entry :=
  ⟨r.1, r.2.1, r.2.2.1, cond (condHolds c embedded r.2.2.2.2) (c.field r.2.2.2.1)⟩

/-- the advertised size according to a coefficient table `(hinting, has_variations, coefficients,
slack)` re-extracted from outline.rs -/
def evalSizeTable (t : List (Bool × Bool × List (CField × Nat) × Nat)) (c : Counts) (hinting : Bool) : Nat :=
  match t.find? (fun r => r.1 == hinting && r.2.1 == c.hasVariations) with
  | none => 0
  | some r =>
    let payload := (r.2.2.1.map (fun kv => c.field kv.1 * kv.2)).sum
    if payload = 0 then 0 else payload + r.2.2.2

/-- field order of `struct FreeTypeOutlineMemory` (the order the hook reports) -/
def ftFieldOrder : List String :=
  ["unscaled", "scaled", "original_scaled", "contours", "flags", "deltas", "iup_buffer",
   "composite_deltas", "stack", "cvt", "storage", "twilight_scaled", "twilight_original_scaled",
   "twilight_flags"]

/-- `FreeTypeOutlineMemory::new(outline, buf, hinting)` -/
def ftCarve (c : Counts) (embedded : Bool) (b : Buf) : Option (List Slice) := carve (ftProgram c embedded) b
/-- `HarfBuzzOutlineMemory::new(outline, buf)` -/
def hbCarve (c : Counts) (b : Buf) : Option (List Slice) := carve (hbProgram c) b

/-- `Outline::required_buffer_size(hinting)` -/
def requiredBufferSize (c : Counts) (embedded : Bool) : Nat :=
  let hinting := c.hasHinting && embedded
  let size := c.points * 8
  let size := size + c.maxOtherPoints * 8 * (if hinting then 2 else 1)
  let size := size + c.contours * 2
  let size := size + c.points * 1
  let size := if c.hasVariations then
      size + c.maxSimplePoints * 8 + c.maxSimplePoints * 8 + c.maxComponentDeltaStack * 8
    else size
  let size := if hinting then
      size + c.maxStack * 4 + (c.cvtCount + c.storageCount) * 4 + c.maxTwilightPoints * (8 * 2 + 1)
    else size
  if size ≠ 0 then size + 4 else size

/-! ## `Outlines::outline`: where the counts come from -/

/-- the part of a glyph that `outline_rec` looks at.  A composite lists, per component, the glyph that
`loca.get_glyf` returned (`none` = empty glyph, skipped). -/
inductive Glyph
  | simple (numPoints numContours : Nat) (hasInstructions : Bool)
  | composite (components : List (Option Glyph)) (hasInstructions : Bool)

/-- the fields of `Outline` that `outline_rec` updates (`has_overlaps` is irrelevant for memory) -/
structure Acc where
  points : Nat := 0
  contours : Nat := 0
  maxSimplePoints : Nat := 0
  maxOtherPoints : Nat := 0
  maxComponentDeltaStack : Nat := 0
  hasHinting : Bool := false
deriving DecidableEq, Repr

/-- `GLYF_COMPOSITE_RECURSION_LIMIT` -/
def recursionLimit : Nat := 32

mutual
/-- `outline_rec(glyph, outline, component_depth, recurse_depth)`; `none` = `RecursionLimitExceeded` -/
def outlineRec : Glyph → Acc → Nat → Nat → Option Acc
  | g, acc, componentDepth, recurseDepth =>
    if recurseDepth > recursionLimit then none
    else match g with
    | .simple np nc instr =>
      let withPhantom := np + 4
      some { acc with
        maxSimplePoints := max acc.maxSimplePoints withPhantom
        points := acc.points + np
        contours := acc.contours + nc
        hasHinting := acc.hasHinting || instr
        maxOtherPoints := max acc.maxOtherPoints withPhantom }
    | .composite comps instr =>
      let count := comps.length + 4
      let pointBase := acc.points
      match outlineComps comps acc (componentDepth + count) (recurseDepth + 1) with
      | none => none
      | some acc =>
        let acc := if instr then
            { acc with maxOtherPoints := max acc.maxOtherPoints (acc.points - pointBase + 4) }
          else acc
        some { acc with
          maxComponentDeltaStack := max acc.maxComponentDeltaStack (componentDepth + count)
          hasHinting := acc.hasHinting || instr }
/-- the `for (component, flags) in …` loop -/
def outlineComps : List (Option Glyph) → Acc → Nat → Nat → Option Acc
  | [], acc, _, _ => some acc
  | none :: rest, acc, cd, rd => outlineComps rest acc cd rd
  | some g :: rest, acc, cd, rd =>
    match outlineRec g acc cd rd with
    | none => none
    | some acc => outlineComps rest acc cd rd
end

/-- per-font limits copied into every `Outline` (`maxp` values, `cvt` length, presence of `gvar`) -/
structure FontLimits where
  maxStack : Nat
  cvtCount : Nat
  storageCount : Nat
  maxTwilightPoints : Nat
  hasGvar : Bool
deriving DecidableEq, Repr

/-- `Outlines::new`: the limits are taken from `maxp` (missing fields = 0) with FreeType's safety
margins (`saturating_add` on `u16`), the `cvt ` length and the presence of `gvar` -/
def limitsOfMaxp (maxStackElements maxTwilightPoints maxStorage cvtLen : Nat) (hasGvar : Bool) : FontLimits :=
  { maxStack := min (maxStackElements + 32) 65535
    cvtCount := cvtLen
    storageCount := maxStorage
    maxTwilightPoints := min (maxTwilightPoints + 4) 65535
    hasGvar := hasGvar }

/-- `Outlines::outline(glyph_id)`: `glyph = none` ≙ `loca.get_glyf` returned `None` -/
def outlineCounts (f : FontLimits) (glyph : Option Glyph) : Option Counts :=
  let acc : Option Acc := match glyph with
    | none => some {}
    | some g => outlineRec g {} 0 0
  match acc with
  | none => none
  | some a => some {
      points := a.points + 4
      contours := a.contours
      maxSimplePoints := a.maxSimplePoints
      maxOtherPoints := a.maxOtherPoints
      maxComponentDeltaStack := a.maxComponentDeltaStack
      maxStack := f.maxStack
      cvtCount := f.cvtCount
      storageCount := f.storageCount
      maxTwilightPoints := f.maxTwilightPoints
      hasHinting := a.hasHinting
      hasVariations := f.hasGvar }

/-! ## rendering -/

/-- what the hook reports per slice: name, byte offset from the buffer start (0 for empty slices),
element count, element size -/
def renderSlice (base : Nat) (s : Slice) : String :=
  let off := if s.count = 0 then 0 else s.addr - base
  s!"{s.name}:{off}:{s.count}:{s.size}"

def findSlice (ss : List Slice) (n : String) : Option Slice := ss.find? (·.name == n)

def renderLayout (base : Nat) (order : List String) (r : Option (List Slice)) : String :=
  match r with
  | none => "none"
  | some ss => " ".intercalate (order.map fun n =>
      match findSlice ss n with
      | some s => renderSlice base s
      | none => s!"{n}:missing")

def renderCounts (c : Counts) : String :=
  s!"{c.points} {c.contours} {c.maxSimplePoints} {c.maxOtherPoints} {c.maxComponentDeltaStack} {c.maxStack} {c.cvtCount} {c.storageCount} {c.maxTwilightPoints} {if c.hasHinting then 1 else 0} {if c.hasVariations then 1 else 0}"

end FontVerif.Carve
