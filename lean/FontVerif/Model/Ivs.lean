/-
Model of the ItemVariationStore writer:
  write-fonts/src/tables/variations/ivs_builder.rs
    ColumnBits::for_val, RowShape::{reuse, merge, can_cover, row_cost, n_non_zero_regions,
    count_lengths, region_map}, RegionMap::{encode_raw_delta_values, word_delta_count, indices,
    column_index_for_region}, Encoding::{merge_with, split_off_back, encode,
    ord_matching_fonttools}, DeltaSet::cmp, Encoder::encode, VariationStoreBuilder::{build,
    build_unoptimized, make_region_list}
  write-fonts/src/tables/variations.rs
    DeltaSetIndexMap::{get_entry_format, pack_map_data, from_iter}

`ColumnBits` is represented by its discriminant (0, 1, 2, 4); a `RowShape` is a `List Nat`;
a sparse `DeltaSet` is a `List (Nat × Int)` (region index, delta); a dense row is a `List Int`
indexed by canonical region index.  The optimiser (`Encoder::optimize`) is NOT modelled: the
partition of delta sets into encodings is a parameter of `build`.
-/
import FontVerif.Model.Base
import FontVerif.Model.Tent
namespace FontVerif.Ivs
open FontVerif

/-- `ColumnBits::for_val`. -/
def forVal (v : Int) : Nat :=
  if v = 0 then 0 else if inI8 v then 1 else if inI16 v then 2 else 4

/-- `RowShape::reuse(deltas, n_regions)`: all `None`, then `self.0[region] = for_val(delta)`
for each entry in order (a later entry for the same region overwrites). -/
def reuse (deltas : List (Nat × Int)) (n : Nat) : List Nat :=
  deltas.foldl (fun sh rd => sh.set rd.1 (forVal rd.2)) (List.replicate n 0)

/-- `RowShape::merge`: column-wise max (zip ⇒ truncates to the shorter). -/
def merge (a b : List Nat) : List Nat := List.zipWith max a b

/-- `RowShape::can_cover`. -/
def canCover (a b : List Nat) : Bool := (List.zipWith (fun x y => decide (x ≥ y)) a b).all id

/-- `RowShape::row_cost`. -/
def rowCost (s : List Nat) : Nat := s.foldl (· + ·) 0

/-- canonical indices of the columns whose bits equal `b`, ascending. -/
def idxWith (b : Nat) (s : List Nat) : List Nat :=
  s.zipIdx.filterMap (fun p => if p.1 = b then some p.2 else none)

/-- `RegionMap::indices()`: canonical region index of each active column, in column order.
`region_map` sorts `(idx, bits)` by `(Reverse(bits), idx)` — keys are distinct, so the order
is: all `Four` columns by index, then `Two`, then `One` (then the inactive `None` ones). -/
def indices (s : List Nat) : List Nat := idxWith 4 s ++ idxWith 2 s ++ idxWith 1 s

/-- `count_lengths` → `(count_8, count_16, count_32)`. -/
def count (b : Nat) (s : List Nat) : Nat := (s.filter (· = b)).length

def longWords (s : List Nat) : Bool := count 4 s > 0
/-- `n_long_regions = if long_words { count_32 } else { count_16 }`. -/
def nLong (s : List Nat) : Nat := if longWords s then count 4 s else count 2 s
/-- `n_active_regions` (= `n_non_zero_regions`). -/
def nActive (s : List Nat) : Nat := count 1 s + count 2 s + count 4 s
/-- `RegionMap::word_delta_count`: `n_long_regions | (long_words ? 0x8000 : 0)`. -/
def wordDeltaCount (s : List Nat) : Nat := nLong s ||| (if longWords s then 32768 else 0)

/-- dense row from a sparse delta set (later entries overwrite, as the writes to
`raw_deltas[idx]` in `Encoding::encode` do). -/
def dense (deltas : List (Nat × Int)) (n : Nat) : List Int :=
  deltas.foldl (fun row rd => row.set rd.1 rd.2) (List.replicate n 0)

/-- one row of `raw_deltas`: value of each active column. -/
def rawRow (s : List Nat) (row : List Int) : List Int := (indices s).map (fun r => row.getD r 0)

/-- big-endian bytes of `x as i8`, `x as i16`, `x` (i32). -/
def be1 (x : Int) : List Nat := [(x % 256).toNat]
def be2 (x : Int) : List Nat := let u := (x % 65536).toNat; [u / 256, u % 256]
def be4 (x : Int) : List Nat :=
  let u := (x % 4294967296).toNat; [u / 16777216, u / 65536 % 256, u / 256 % 256, u % 256]

/-- `encode_words(long, short, long_words)` for one chunk of `raw_deltas`. -/
def encodeWords (long : Bool) (nLong : Nat) (raw : List Int) : List Nat :=
  if long then (raw.take nLong).flatMap be4 ++ (raw.drop nLong).flatMap be2
  else (raw.take nLong).flatMap be2 ++ (raw.drop nLong).flatMap be1

/-- one row as written by `RegionMap::encode_raw_delta_values`. -/
def encodeRow (s : List Nat) (row : List Int) : List Nat :=
  encodeWords (longWords s) (nLong s) (rawRow s row)

/-- `Encoding::encode` (for `deltas.len() ≤ 0xFFFF`): `None` for an empty encoding. -/
def encodeSub (s : List Nat) (rows : List (List Int)) : Option Tent.SubTable :=
  if rows.isEmpty then none else
  some { itemCount := rows.length, wordDeltaCount := wordDeltaCount s,
         regionIndexes := indices s, data := rows.flatMap (encodeRow s) }

/-- `Encoding::iter_split_into_table_size_chunks`: chunks of at most 0xFFFF rows. -/
def chunks {α} (k : Nat) (xs : List α) : List (List α) :=
  if _h : k = 0 ∨ xs.length ≤ k then [xs] else
    xs.take k :: chunks k (xs.drop k)
  termination_by xs.length
  decreasing_by simp [List.length_drop]; omega

/-! ### ordering (determines inner / outer indices) -/

/-- `DenseDeltaIter` collected up to and including `maxIdx`, consuming a *sorted* sparse list:
emits the head's delta when its region equals the position, else 0. -/
def denseIter (maxIdx : Nat) : Nat → List (Nat × Int) → List Int
  | pos, ds =>
    if _h : pos > maxIdx then [] else
    match ds with
    | (r, d) :: rest => if r = pos then d :: denseIter maxIdx (pos + 1) rest
                        else 0 :: denseIter maxIdx (pos + 1) ds
    | [] => 0 :: denseIter maxIdx (pos + 1) []
  termination_by pos _ => maxIdx + 1 - pos

def cmpLex : List Int → List Int → Ordering
  | a :: as, b :: bs => if a < b then .lt else if a > b then .gt else cmpLex as bs
  | _, _ => .eq

/-- `impl Ord for DeltaSet`. -/
def deltaSetCmp (a b : List (Nat × Int)) : Ordering :=
  let maxIdx := (a ++ b).foldl (fun m rd => max m rd.1) 0
  cmpLex (denseIter maxIdx 0 a) (denseIter maxIdx 0 b)

/-- order of `(&DeltaSet, TemporaryDeltaSetId)` tuples used by `enc.deltas.sort_unstable()`. -/
def rowLe (a b : (List (Nat × Int)) × Nat) : Bool :=
  match deltaSetCmp a.1 b.1 with
  | .lt => true
  | .gt => false
  | .eq => a.2 ≤ b.2

def cmpNatLex : List Nat → List Nat → Ordering
  | a :: as, b :: bs => if a < b then .lt else if a > b then .gt else cmpNatLex as bs
  | _, _ => .eq

/-- `Encoding::ord_matching_fonttools` as a `≤`: row cost, then columns compared in reverse. -/
def shapeLe (a b : List Nat) : Bool :=
  if rowCost a < rowCost b then true else if rowCost a > rowCost b then false
  else cmpNatLex a.reverse b.reverse != .gt

/-! ### whole build, parameterised by the partition chosen by the optimiser -/

/-- `add_deltas` normalisation: sort by `(region, delta)`; all-zero ⇒ empty set. -/
def pairLe (a b : Nat × Int) : Bool := a.1 < b.1 || (a.1 = b.1 && a.2 ≤ b.2)
def normalizeDeltaSet (ds : List (Nat × Int)) : List (Nat × Int) :=
  let s := ds.mergeSort pairLe
  if s.all (fun rd => rd.2 = 0) then [] else s

/-- shape of an encoding whose members are the given delta sets: the join of their shapes
(what any sequence of `merge_with` produces). -/
def joinShape (n : Nat) (sets : List (List (Nat × Int))) : List Nat :=
  sets.foldl (fun sh ds => merge sh (reuse ds n)) (List.replicate n 0)

structure Built where
  subtables : List (Option Tent.SubTable)
  /-- `(temporary id, outer, inner)` for every member, in encoding order -/
  remap : List (Nat × Nat × Nat)
  /-- canonical indices of the regions kept by `make_region_list`, ascending -/
  usedRegions : List Nat
  deriving Repr

/-- `make_region_list`: the used canonical indices in ascending order; new index = position. -/
def usedRegions (n : Nat) (subs : List (Option Tent.SubTable)) : List Nat :=
  (List.range n).filter fun r => subs.any fun st => match st with
    | some st => st.regionIndexes.contains r
    | none => false

def remapRegions (used : List Nat) (subs : List (Option Tent.SubTable)) : List (Option Tent.SubTable) :=
  subs.map fun st => st.map fun st => { st with regionIndexes := st.regionIndexes.map (fun r => used.idxOf r) }

/-- encode a list of `(shape, ordered members)`: split into ≤ 0xFFFF chunks, number the chunks
(`enumerate` ⇒ `i as u16`), encode each, record the remapping. -/
def encodeAll (n : Nat) (encs : List (List Nat × List (List (Nat × Int) × Nat))) : Built :=
  let chunked : List (List Nat × List (List (Nat × Int) × Nat)) :=
    encs.flatMap fun e => (chunks 65535 e.2).map fun c => (e.1, c)
  let subs := chunked.map fun e => encodeSub e.1 (e.2.map fun m => dense m.1 n)
  let remap := chunked.zipIdx.flatMap fun ei =>
    ei.1.2.zipIdx.map fun mi => (mi.1.2, ei.2 % 65536, mi.2 % 65536)
  let used := usedRegions n subs
  { subtables := remapRegions used subs, remap := remap, usedRegions := used }

/-- `build()` for the de-duplicating storage after `optimize()` chose `groups` (each a set of
`(delta set, temporary id)`): members sorted by `sort_unstable()`, encodings sorted by
`ord_matching_fonttools`, then `Encoder::encode` + `make_region_list`.  Members are the raw
`add_deltas` inputs (canonical region index, delta); `add_deltas`' normalisation is applied here. -/
def buildOptimized (n : Nat) (groups : List (List (List (Nat × Int) × Nat))) : Built :=
  let groups := groups.map fun g => g.map fun m => (normalizeDeltaSet m.1, m.2)
  let encs := groups.map fun g => (joinShape n (g.map (·.1)), g.mergeSort rowLe)
  let encs := encs.mergeSort fun a b => shapeLe a.1 b.1
  encodeAll n encs

/-- `build()` for `new_with_implicit_indices` (`build_unoptimized`): one encoding holding every
delta set in insertion order (ids 0..), shape = join. -/
def buildDirect (n : Nat) (sets : List (List (Nat × Int))) : Built :=
  let sets := sets.map normalizeDeltaSet
  let members := sets.zipIdx
  let shape := joinShape n sets
  let sub := encodeSub shape (sets.map fun ds => dense ds n)
  let subs := [sub]
  let remap := if sets.isEmpty then [] else members.map fun m => (m.2, 0, m.2 % 65536)
  let used := usedRegions n subs
  { subtables := remapRegions used subs, remap := remap, usedRegions := used }

/-! ### DeltaSetIndexMap packing (write-fonts/src/tables/variations.rs) -/

def bitLen : Nat → Nat
  | 0 => 0
  | n + 1 => bitLen ((n + 1) / 2) + 1
  decreasing_by omega

/-- `DeltaSetIndexMap::get_entry_format(mapping)` as the raw format byte. -/
def entryFormat (mapping : List Nat) : Nat :=
  let ored := mapping.foldl (· ||| ·) 0
  let inner := ored % 65536
  let innerBits := max (bitLen inner) 1
  let ored2 := (ored / 2 ^ (16 - innerBits)) ||| (ored % 2 ^ innerBits)
  let entrySize := if ored2 ≤ 0xFF then 1 else if ored2 ≤ 0xFFFF then 2 else if ored2 ≤ 0xFFFFFF then 3 else 4
  ((entrySize - 1) * 16) ||| (innerBits - 1)

/-- trailing entries equal to their predecessor are dropped (`map_count`). -/
def trimmedCount : List Nat → Nat
  | [] => 0
  | [_] => 1
  | l@(_ :: _ :: _) =>
    let r := l.reverse
    -- number of leading duplicates of the last element
    let dups := (r.tail.takeWhile (· = r.head!)).length
    l.length - dups

/-- `pack_map_data`: `(format, map_count, bytes)`. -/
def packMap (mapping : List Nat) : Nat × Nat × List Nat :=
  let fmt := entryFormat mapping
  let innerBits := fmt % 16 + 1
  let entrySize := fmt / 16 % 4 + 1
  let cnt := trimmedCount mapping
  let data := (mapping.take cnt).flatMap fun idx =>
    let v := ((idx / 65536 * 65536) / 2 ^ (16 - innerBits)) ||| (idx % 2 ^ innerBits)
    beBytes entrySize (v % 4294967296)
  (fmt, cnt, data)

/-! ### `add_deltas` / `DeltaSetStorage::add` (de-duplication) and canonical region indices -/

/-- `DeltaSetStorage::Deduplicated(IndexMap<DeltaSet, TemporaryDeltaSetId>)` as an insertion-ordered
association list; `add`: `*deltas.entry(delta_set).or_insert(deltas.len() as u32)`. -/
def dedupAdd (entries : List (List (Nat × Int) × Nat)) (ds : List (Nat × Int)) :
    List (List (Nat × Int) × Nat) × Nat :=
  match entries.find? (fun e => e.1 == ds) with
  | some e => (entries, e.2)
  | none => (entries ++ [(ds, entries.length % 4294967296)], entries.length % 4294967296)

/-- a sequence of `add_deltas` calls on the de-duplicating storage (inputs already carry canonical
region indices): final storage `iter()` order and the temporary id returned by each call. -/
def addAllDedup (entries : List (List (Nat × Int) × Nat)) :
    List (List (Nat × Int)) → List (List (Nat × Int) × Nat) × List Nat
  | [] => (entries, [])
  | ds :: rest =>
    let r := dedupAdd entries (normalizeDeltaSet ds)
    let r' := addAllDedup r.1 rest
    (r'.1, r.2 :: r'.2)

/-- `canonical_index_for_region`: `*all_regions.entry(region).or_insert(all_regions.len())` with the
map as the list of regions in index order. -/
def canonIndex {R} [BEq R] (all : List R) (r : R) : List R × Nat :=
  if all.contains r then (all, all.idxOf r) else (all ++ [r], all.length)

/-! ### serialisation of the store: `FontWrite for ItemVariationStore / VariationRegionList /
ItemVariationData` (write-fonts/generated/generated_variations.rs; field programs
`variations_ItemVariationStore_w`, `variations_VariationRegionList_w`, `variations_ItemVariationData_w`
of Gen/WriteProgs.lean) and the reader's view of the bytes (read-fonts generated `FontRead`s,
offsets resolved from the start of the store).  Where the packer puts the child tables (and which
identical ones it shares) is a parameter: `placed` lists the distinct child byte strings in file
order. -/

def be2n (v : Nat) : List Nat := [v / 256 % 256, v % 256]
def be4n (v : Nat) : List Nat := [v / 16777216 % 256, v / 65536 % 256, v / 256 % 256, v % 256]

/-- one `ItemVariationData` table: item_count, word_delta_count, region_index_count, region
indexes, delta sets. -/
def ivdBytes (st : Tent.SubTable) : List Nat :=
  be2n st.itemCount ++ be2n st.wordDeltaCount ++ be2n st.regionIndexes.length ++
    st.regionIndexes.flatMap be2n ++ st.data

def axisBytes (a : Int × Int × Int) : List Nat := be2 a.1 ++ be2 a.2.1 ++ be2 a.2.2

/-- `VariationRegionList`: axis_count, region_count, `region_count × axis_count` records. -/
def regionListBytes (axisCount : Nat) (regions : List (List (Int × Int × Int))) : List Nat :=
  be2n axisCount ++ be2n regions.length ++ regions.flatMap (fun r => r.flatMap axisBytes)

/-- position of a child object: header length plus the lengths of the objects placed before it. -/
def offsetIn (hdr : Nat) (placed : List (List Nat)) (obj : List Nat) : Nat :=
  hdr + ((placed.take (placed.idxOf obj)).map List.length).sum

/-- the compiled `ItemVariationStore`: format 1, offset of the region list, count, one `Offset32`
per subtable (0 = NULL), then the child objects. -/
def storeBytes (axisCount : Nat) (regions : List (List (Int × Int × Int)))
    (subs : List (Option Tent.SubTable)) (placed : List (List Nat)) : List Nat :=
  let hdr := 8 + 4 * subs.length
  be2n 1 ++ be4n (offsetIn hdr placed (regionListBytes axisCount regions)) ++ be2n subs.length ++
    subs.flatMap (fun st => match st with
      | none => be4n 0
      | some st => be4n (offsetIn hdr placed (ivdBytes st))) ++
    placed.flatten

/-- the child objects of a store in header order: region list, then the non-NULL subtables. -/
def childObjects (axisCount : Nat) (regions : List (List (Int × Int × Int)))
    (subs : List (Option Tent.SubTable)) : List (List Nat) :=
  regionListBytes axisCount regions :: subs.filterMap (fun st => st.map ivdBytes)

/-! reader side -/

def rdU16 (bs : List Nat) (off : Nat) : Option Nat :=
  if off + 2 ≤ bs.length then some (beValue ((bs.drop off).take 2)) else none
def rdU32 (bs : List Nat) (off : Nat) : Option Nat :=
  if off + 4 ≤ bs.length then some (beValue ((bs.drop off).take 4)) else none
def rdI16 (bs : List Nat) (off : Nat) : Option Int :=
  (rdU16 bs off).map fun u => if u < 32768 then (u : Int) else (u : Int) - 65536

/-- `n` region-axis records starting at `off`. -/
def rdAxes (bs : List Nat) : Nat → Nat → Option (List (Int × Int × Int))
  | 0, _ => some []
  | n + 1, off =>
    match rdI16 bs off, rdI16 bs (off + 2), rdI16 bs (off + 4), rdAxes bs n (off + 6) with
    | some a, some b, some c, some rest => some ((a, b, c) :: rest)
    | _, _, _, _ => none

def rdRegions (bs : List Nat) (axisCount : Nat) : Nat → Nat → Option (List (List (Int × Int × Int)))
  | 0, _ => some []
  | n + 1, off =>
    match rdAxes bs axisCount off, rdRegions bs axisCount n (off + 6 * axisCount) with
    | some r, some rest => some (r :: rest)
    | _, _ => none

def rdU16s (bs : List Nat) : Nat → Nat → Option (List Nat)
  | 0, _ => some []
  | n + 1, off =>
    match rdU16 bs off, rdU16s bs n (off + 2) with
    | some v, some rest => some (v :: rest)
    | _, _ => none

/-- `ItemVariationData::read` at `off`, in the representation of `Tent.SubTable` (`data` = all
bytes after the region indexes). -/
def rdSub (bs : List Nat) (off : Nat) : Option Tent.SubTable :=
  match rdU16 bs off, rdU16 bs (off + 2), rdU16 bs (off + 4) with
  | some ic, some wdc, some rc =>
    match rdU16s bs rc (off + 6) with
    | some ris => some { itemCount := ic, wordDeltaCount := wdc, regionIndexes := ris,
                         data := bs.drop (off + 6 + 2 * rc) }
    | none => none
  | _, _, _ => none

def rdSubs (bs : List Nat) : Nat → Nat → Option (List (Option Tent.SubTable))
  | 0, _ => some []
  | n + 1, off =>
    match rdU32 bs off with
    | none => none
    | some 0 => (rdSubs bs n (off + 4)).map (none :: ·)
    | some o =>
      match rdSub bs o, rdSubs bs n (off + 4) with
      | some st, some rest => some (some st :: rest)
      | _, _ => none

/-- the reader's view of a compiled store: `(axis_count, regions, subtables)`; `none` = some
table fails to read. -/
def parseStore (bs : List Nat) :
    Option (Nat × List (List (Int × Int × Int)) × List (Option Tent.SubTable)) :=
  match rdU32 bs 2, rdU16 bs 6 with
  | some rlOff, some cnt =>
    match rdU16 bs rlOff, rdU16 bs (rlOff + 2) with
    | some ac, some rcnt =>
      match rdRegions bs ac rcnt (rlOff + 4), rdSubs bs cnt 8 with
      | some regions, some subs => some (ac, regions, subs)
      | _, _ => none
    | _, _ => none
  | _, _ => none

/-- `build()` for `new_with_implicit_indices` including the item limit: more than 0xFFFF delta sets
trip `debug_assert!(.. <= u16::MAX ..)` / `assert!(self.deltas.len() <= 0xffff)` (`none` = panic). -/
def buildDirectChecked (n : Nat) (sets : List (List (Nat × Int))) : Option Built :=
  if sets.length > 65535 then none else some (buildDirect n sets)

end FontVerif.Ivs
