/-
Model of the HVAR / VVAR subsetter of klippa (post-fix 13c1b30, ba89e32, 7615279, 67546f5):

  klippa/src/hvar.rs
    Hvar::subset, serialize_index_maps, IndexMapSubsetPlan::{new, remap, is_identity,
    to_serialize_plan}, HvarVvarSubsetPlan::new
  klippa/src/vvar.rs
    Vvar::subset (identical, four maps: advance height, tsb, bsb, vorg)
  klippa/src/variations.rs
    ItemVariationStore::subset, VariationRegionList::subset, serialize_var_data_offset_array,
    ItemVariationData::subset, get_item_delta, set_item_delta, collect_region_refs,
    DeltaSetIndexMap::serialize (DeltaSetIndexMapSerializePlan::width)
  klippa/src/inc_bimap.rs
    IncBiMap::{add, get, get_backward, keys, len, sort, from_iter}

Inputs are plain data: the region list, every `ItemVariationData` as the reader sees it
(`Tent.SubTable`: item count, word delta count, region indexes, delta-set bytes), every
`DeltaSetIndexMap` as `(entry format, map count, map data)` (`none` = NULL offset), and from the
plan `new_to_old_gid_list`, `glyphset` and the retain-gids flag.  `DeltaSetIndexMap::get` is
`Tent.dsimGet` (C11).  The output is the subset store and maps again in reader form, plus the
serialised bytes of every piece (region list, each ItemVariationData, each map); the order in which
the Serializer packs the pieces (and its sharing of identical objects) is not modelled.

Outcomes: `dropped` = the subsetter returned `Err` without flagging the serializer (lib.rs `subset`
then silently omits the table), `fail` = serializer error (`subset_font` returns `Err`),
`trap` = panic.

Containers: an `IncBiMap` is its `back_map` (a duplicate-free list; `get` = position);
an `IntSet<u16>` is a strictly ascending list (`iter()` = the list).
-/
import FontVerif.Model.Base
import FontVerif.Model.Tent
import FontVerif.Model.Ivs
namespace FontVerif.SubsetHvar
open FontVerif

inductive Err where
  | dropped | fail | trap
  deriving Repr, DecidableEq

abbrev R := Except Err

/-! ## IncBiMap -/

/-- `IncBiMap::add`. -/
def bmAdd (m : List Nat) (x : Nat) : List Nat := if x ∈ m then m else m ++ [x]
/-- `IncBiMap::get`. -/
def bmGet (m : List Nat) (x : Nat) : Option Nat := if x ∈ m then some (m.idxOf x) else none
/-- `FromIterator for IncBiMap`. -/
def bmFrom (xs : List Nat) : List Nat := xs.foldl bmAdd []

/-! ## IntSet<u16> -/

/-- `IntSet::insert` on a strictly ascending list. -/
def setInsert (x : Nat) : List Nat → List Nat
  | [] => [x]
  | y :: ys => if x < y then x :: y :: ys else if x = y then y :: ys else y :: setInsert x ys

/-- `extend` / `union`. -/
def setAddAll (s : List Nat) (xs : List Nat) : List Nat := xs.foldl (fun s x => setInsert x s) s

/-- `IncBiMap::sort`: the distinct keys in ascending order, re-added in that order. -/
def bmSort (m : List Nat) : List Nat := setAddAll [] m

/-- `IntSet::subtract`. -/
def setSubtract (a b : List Nat) : List Nat := a.filter (fun x => ¬ x ∈ b)

/-! ## variations.rs: `get_item_delta` -/

/-- read one big-endian signed value of width `w` at byte position `pos`
(`delta_bytes.get(pos..pos + w)`, `None` ⇒ 0). -/
def rdAt (bytes : List Nat) (w pos : Nat) : Int :=
  match Tent.readW w (bytes.drop pos) with
  | some (v, _) => v
  | none => 0

/-- `get_item_delta(var_data, item, region, row_size, delta_bytes)` with
`row_size = get_delta_row_len()`, `delta_bytes = delta_sets()` (exactly `row_size * item_count`
bytes of the table). -/
def getItemDelta (st : Tent.SubTable) (item region : Nat) : Int :=
  let ric := st.regionIndexes.length
  if item ≥ st.itemCount ∨ region ≥ ric then 0 else
  let rowSize := Tent.deltaRowLen st.wordDeltaCount ric
  let bytes := st.data.take (rowSize * st.itemCount)
  let p := item * rowSize
  let wc := st.wordDeltaCount % 32768
  let isLong : Bool := st.wordDeltaCount / 32768 % 2 = 1
  if isLong then
    if region < wc then rdAt bytes 4 (p + region * 4)
    else rdAt bytes 2 (p + 4 * wc + 2 * (region - wc))
  else
    if region < wc then rdAt bytes 2 (p + region * 2)
    else rdAt bytes 1 (p + 2 * wc + (region - wc))

/-- `collect_region_refs(var_data, inner_map, region_indices)`. -/
def collectRegionRefs (st : Tent.SubTable) (keys : List Nat) (acc : List Nat) : List Nat :=
  if keys.isEmpty then acc else
  st.regionIndexes.zipIdx.foldl (fun acc ri =>
    if ri.1 ∈ acc then acc
    else if keys.any (fun item => getItemDelta st item ri.2 ≠ 0) then setInsert ri.1 acc
    else acc) acc

/-! ## variations.rs: `ItemVariationData::subset` -/

/-- the per-column loop deciding `DeltaSize` (0 = Zero, 1 = NonWord, 2 = Word), with its `break`s
and the `short_circuit`. -/
def classifyGo (gd : Nat → Int) (minT maxT : Int) (shortCircuit : Bool) : List Nat → Nat → Nat
  | [], sz => sz
  | item :: rest, sz =>
    let d := gd item
    if d < minT ∨ d > maxT then 2
    else if d ≠ 0 then (if shortCircuit then 1 else classifyGo gd minT maxT shortCircuit rest 1)
    else classifyGo gd minT maxT shortCircuit rest sz

/-- `has_long`: only looked for when the source has LONG_WORDS, over its word columns. -/
def hasLong (st : Tent.SubTable) (keys : List Nat) : Bool :=
  let srcLong : Bool := st.wordDeltaCount / 32768 % 2 = 1
  srcLong && (List.range (st.wordDeltaCount % 32768)).any fun r =>
    keys.any fun item => ¬ (-32768 ≤ getItemDelta st item r ∧ getItemDelta st item r ≤ 32767)

/-- `delta_sz` for every source column. -/
def deltaSizes (st : Tent.SubTable) (keys : List Nat) : List Nat :=
  let srcLong : Bool := st.wordDeltaCount / 32768 % 2 = 1
  let srcWc := st.wordDeltaCount % 32768
  let hl := hasLong st keys
  let minT : Int := if hl then -32768 else -128
  let maxT : Int := if hl then 32767 else 127
  (List.range st.regionIndexes.length).map fun r =>
    classifyGo (fun item => getItemDelta st item r) minT maxT ((srcLong == hl) && decide (srcWc ≤ r)) keys 0

/-- `ri_map[..new_ri_count]`: the Word columns in source order, then the NonWord columns. -/
def riMap (sz : List Nat) : List Nat := Ivs.idxWith 2 sz ++ Ivs.idxWith 1 sz

/-- `set_item_delta` for one row: every value must pass the `try_from` of its cell. -/
def rowFits (hl : Bool) (wc : Nat) (raw : List Int) : Bool :=
  if hl then (raw.drop wc).all (fun d => decide (inI16 d))
  else (raw.take wc).all (fun d => decide (inI16 d)) && (raw.drop wc).all (fun d => decide (inI8 d))

/-- `ItemVariationData::subset(inner_map, region_map)` → the new table in reader form. -/
def subsetVarData (st : Tent.SubTable) (innerMap regionMap : List Nat) : R Tent.SubTable := do
  let hl := hasLong st innerMap
  let sz := deltaSizes st innerMap
  let newWc := Ivs.count 2 sz
  let cols := riMap sz
  let newWdc := if hl then newWc ||| 32768 else newWc
  -- region indexes
  let newRis ← cols.mapM fun c =>
    match st.regionIndexes[c]? with
    | none => throw Err.dropped
    | some oldR =>
      match bmGet regionMap oldR with
      | none => throw Err.dropped
      | some r => pure (r % 65536)
  -- rows
  let newItemCount := innerMap.length % 65536
  let rows ← (List.range newItemCount).mapM fun i =>
    match innerMap[i]? with
    | none => throw Err.dropped
    | some oldI =>
      let raw := cols.map fun c => getItemDelta st oldI c
      if rowFits hl newWc raw then pure (Ivs.encodeWords hl newWc raw) else throw Err.dropped
  pure { itemCount := newItemCount, wordDeltaCount := newWdc, regionIndexes := newRis,
         data := rows.flatten }

/-- the bytes of one `ItemVariationData`. -/
def subBytes (st : Tent.SubTable) : List Nat :=
  beBytes 2 st.itemCount ++ beBytes 2 st.wordDeltaCount ++ beBytes 2 st.regionIndexes.length ++
    st.regionIndexes.flatMap (beBytes 2) ++ st.data

/-! ## variations.rs: `ItemVariationStore::subset` -/

/-- an entry of the `itemVariationDataOffsets` array as `ArrayOfNullableOffsets::get` reports it. -/
inductive SubIn where
  | null                          -- `None`
  | bad                           -- `Some(Err(_))`
  | ok (st : Tent.SubTable)       -- `Some(Ok(var_data))`
  deriving Repr

structure StoreOut where
  axisCount : Nat
  /-- old indices of the retained regions (`region_map.back_map`) -/
  regionMap : List Nat
  regions : List (List (Int × Int × Int))
  /-- retained subtables in output order -/
  subs : List Tent.SubTable
  deriving Repr

/-- first loop of `ItemVariationStore::subset`: collect the referenced regions. -/
def collectAll : List SubIn → List (List Nat) → List Nat → R (List Nat)
  | _, [], acc => pure acc
  | [], _ :: _, _ => throw Err.fail          -- `get(i)` beyond the array: `Some(Err(_))`
  | s :: ss, im :: ims, acc =>
    match s with
    | .ok st => collectAll ss ims (collectRegionRefs st im acc)
    | .null => collectAll ss ims acc
    | .bad => throw Err.fail

/-- `serialize_var_data_offset_array`. -/
def subsetSubs (regionMap : List Nat) : List SubIn → List (List Nat) → R (List Tent.SubTable)
  | _, [] => pure []
  | [], im :: ims => if im.length = 0 then subsetSubs regionMap [] ims else throw Err.dropped
  | s :: ss, im :: ims =>
    if im.length = 0 then subsetSubs regionMap ss ims else
    match s with
    | .ok st => do
      let o ← subsetVarData st im regionMap
      let rest ← subsetSubs regionMap ss ims
      pure (o :: rest)
    | _ => throw Err.dropped

/-- `ItemVariationStore::subset(inner_maps)`. -/
def subsetStore (axisCount : Nat) (regions : List (List (Int × Int × Int))) (subs : List SubIn)
    (innerMaps : List (List Nat)) : R StoreOut := do
  if innerMaps.isEmpty then throw Err.dropped
  let refs ← collectAll subs innerMaps []
  let regionMap := refs.filter (· < regions.length)     -- remove_range(region_count..=u16::MAX)
  if regionMap.isEmpty then throw Err.dropped
  let newRegions := regionMap.map fun r => regions.getD r []
  let outSubs ← subsetSubs regionMap subs innerMaps
  if outSubs.isEmpty then throw Err.dropped
  pure { axisCount, regionMap, regions := newRegions, subs := outSubs }

/-- `VariationRegionList::subset`: axis count, region count, the retained records. -/
def regionListBytes (axisCount : Nat) (regions : List (List (Int × Int × Int))) : List Nat :=
  beBytes 2 axisCount ++ beBytes 2 (regions.length % 65536) ++
    regions.flatMap fun r => r.flatMap fun a => Ivs.be2 a.1 ++ Ivs.be2 a.2.1 ++ Ivs.be2 a.2.2

/-! ## hvar.rs: `IndexMapSubsetPlan` -/

structure MapIn where
  entryFormat : Nat
  mapCount : Nat
  data : List Nat
  deriving Repr

structure MapPlan where
  mapCount : Nat := 0
  maxInners : List Nat := []
  outerBits : Nat := 0
  innerBits : Nat := 0
  /-- `output_map`, newest insertion first (`List.lookup` = `HashMap::get`) -/
  output : List (Nat × Nat) := []
  deriving Repr

/-- `m.get(old_gid)` or, without a map, `DeltaSetIndex { outer: (old_gid >> 16) as u16,
inner: (old_gid & 0xFFFF) as u16 }`. -/
def mapGet (m : Option MapIn) (old : Nat) : Option (Nat × Nat) :=
  match m with
  | some m => Tent.dsimGet m.entryFormat m.mapCount m.data old
  | none => some (old / 65536 % 65536, old % 65536)

/-- the backwards scan for the last run of equal entries: returns `last_gid`. -/
def scanBack (m : Option MapIn) : List (Nat × Nat) → Option (Nat × (Nat × Nat)) → R (Option Nat)
  | [], last => pure (last.map (·.1))
  | (gid, old) :: rest, last =>
    match mapGet m old with
    | none => throw Err.dropped
    | some val =>
      match last with
      | none => scanBack m rest (some (gid, val))
      | some (lg, lv) => if val ≠ lv then pure (some lg) else scanBack m rest (some (gid, lv))

structure Acc where
  outerMap : List Nat
  innerSets : List (List Nat)
  deriving Repr

/-- the forward loop of `new` over an explicit map: records outer indices, inner sets and
`max_inners`; stops at `map_count` and at the first outer index without a subtable. -/
def collectFwd (m : MapIn) (mapCount : Nat) :
    List (Nat × Nat) → Acc → List Nat → R (Acc × List Nat)
  | [], acc, mi => pure (acc, mi)
  | (new, old) :: rest, acc, mi =>
    if new ≥ mapCount then pure (acc, mi) else
    match Tent.dsimGet m.entryFormat m.mapCount m.data old with
    | none => throw Err.dropped
    | some (outer, inner) =>
      if outer ≥ mi.length then pure (acc, mi) else
      collectFwd m mapCount rest
        { outerMap := bmAdd acc.outerMap outer,
          innerSets := acc.innerSets.modify outer (setInsert inner) }
        (mi.set outer (max (mi.getD outer 0) inner))

/-- `IndexMapSubsetPlan::new(index_map, plan, bypass_empty, outer_map, inner_sets)`. -/
def planNew (m : Option MapIn) (n2o : List (Nat × Nat)) (glyphset : List Nat) (bypassEmpty : Bool)
    (acc : Acc) : R (MapPlan × Acc) :=
  if bypassEmpty && m.isNone then pure ({}, acc) else
  let ef := match m with
    | some m => m.entryFormat % 64
    | none => 1
  let entrySize := ef / 16 % 4 + 1
  let bitCount := ef % 16 + 1
  let outerBits := entrySize * 8 - bitCount                 -- saturating_sub (fix 7615279)
  let maxInners := List.replicate acc.innerSets.length 0
  match scanBack m n2o.reverse none with
  | .error e => .error e
  | .ok none => pure ({ outerBits, maxInners }, acc)
  | .ok (some lg) =>
    let mapCount := (lg + 1) % 65536
    match m with
    | none =>
      -- `inner_sets[0]`, `max_inners[0]`: index panics without a subtable
      match acc.innerSets, n2o.getLast? with
      | s0 :: ss, some last =>
        pure ({ mapCount, maxInners := maxInners.set 0 (last.2 % 65536), outerBits },
              { outerMap := bmAdd acc.outerMap 0,
                innerSets := setAddAll s0 (glyphset.map (· % 65536)) :: ss })
      | _, _ => throw Err.trap
    | some mm =>
      match collectFwd mm mapCount n2o acc maxInners with
      | .error e => .error e
      | .ok (acc', mi) => pure ({ mapCount, maxInners := mi, outerBits }, acc')

/-- the loop of `remap`: fills `output_map`, tracks the largest new inner index. -/
def remapGo (m : Option MapIn) (mapCount : Nat) (outerMap : List Nat) (innerMaps : List (List Nat)) :
    List (Nat × Nat) → List (Nat × Nat) → Nat → R (List (Nat × Nat) × Nat)
  | [], out, mx => pure (out, mx)
  | (new, old) :: rest, out, mx =>
    if new % 65536 ≥ mapCount then pure (out, mx) else
    match mapGet m old with
    | none => throw Err.trap                       -- `.unwrap()` of a read error
    | some (outer, inner) =>
      if outer ≥ innerMaps.length then remapGo m mapCount outerMap innerMaps rest out mx else
      match bmGet outerMap outer, bmGet (innerMaps.getD outer []) inner with
      | some no, some ni =>
        remapGo m mapCount outerMap innerMaps rest ((new, no * 65536 ||| ni) :: out) (max mx ni)
      | _, _ => throw Err.trap                     -- `.unwrap()` of a missing key

/-- `IndexMapSubsetPlan::remap`. -/
def remap (p : MapPlan) (m : Option MapIn) (n2o : List (Nat × Nat)) (outerMap : List Nat)
    (innerMaps : List (List Nat)) : R MapPlan := do
  let (out, mx) ← remapGo m p.mapCount outerMap innerMaps n2o [] 0
  pure { p with output := out, innerBits := max (Ivs.bitLen mx) 1 }

/-! ## hvar.rs: `HvarVvarSubsetPlan::new` -/

def planRest (n2o : List (Nat × Nat)) (glyphset : List Nat) :
    List (Option MapIn) → Acc → R (List MapPlan × Acc)
  | [], acc => pure ([], acc)
  | m :: ms, acc =>
    match planNew m n2o glyphset true acc with
    | .error e => .error e
    | .ok (p, acc') =>
      match planRest n2o glyphset ms acc' with
      | .error e => .error e
      | .ok (ps, acc'') => pure (p :: ps, acc'')

def remapAll (n2o : List (Nat × Nat)) (outerMap : List Nat) (innerMaps : List (List Nat)) :
    List MapPlan → List (Option MapIn) → R (List MapPlan)
  | p :: ps, m :: ms =>
    match remap p m n2o outerMap innerMaps with
    | .error e => .error e
    | .ok p' =>
      match remapAll n2o outerMap innerMaps ps ms with
      | .error e => .error e
      | .ok ps' => pure (p' :: ps')
  | _, _ => pure []

structure SubsetPlan where
  outerMap : List Nat
  innerMaps : List (List Nat)
  plans : List MapPlan
  deriving Repr

def subsetPlan (vardataCount : Nat) (maps : List (Option MapIn)) (n2o : List (Nat × Nat))
    (glyphset : List Nat) (retainGids : Bool) : R SubsetPlan :=
  if vardataCount = 0 then throw Err.dropped else   -- `ReadError::MalformedData` (fix 67546f5)
  match maps with
  | [] => throw Err.trap                             -- `index_maps[0]`
  | m0 :: ms =>
    match planNew m0 n2o glyphset false
        { outerMap := [], innerSets := List.replicate vardataCount [] } with
    | .error e => .error e
    | .ok (p0, acc1) =>
      let advSet : List Nat := if m0.isNone then acc1.innerSets.headD [] else []
      match planRest n2o glyphset ms acc1 with
      | .error e => .error e
      | .ok (ps, acc2) =>
        let outerMap := bmSort acc2.outerMap
        let set0 := acc2.innerSets.headD []
        let inner0 : List Nat :=
          if m0.isNone && retainGids then set0.foldl bmAdd (bmFrom (n2o.map (·.2)))
          else (setSubtract set0 advSet).foldl bmAdd (bmFrom advSet)
        let innerMaps := inner0 :: acc2.innerSets.tail.map bmFrom
        match remapAll n2o outerMap innerMaps (p0 :: ps) maps with
        | .error e => .error e
        | .ok plans => pure { outerMap, innerMaps, plans }

/-! ## variations.rs: `DeltaSetIndexMap::serialize` -/

structure MapOut where
  format : Nat
  entryFormat : Nat
  mapCount : Nat
  data : List Nat
  deriving Repr

/-- `DeltaSetIndexMapSerializePlan::width`. -/
def mapWidth (p : MapPlan) : Nat := (p.outerBits + p.innerBits + 7) / 8

def serializeMap (p : MapPlan) : R MapOut := do
  let width := mapWidth p
  let ib := p.innerBits
  -- sanity check (u8 arithmetic: `inner_bit_count - 1` underflows for 0)
  if p.mapCount > 0 ∧ ib = 0 then throw Err.trap
  if p.mapCount > 0 ∧ ((ib - 1) / 16 ≠ 0 ∨ (width - 1) / 4 ≠ 0) then throw Err.dropped
  let format := if p.mapCount ≤ 65535 then 0 else 1
  let entryFormat := ((width - 1) * 16 % 256) ||| (ib - 1)
  let data := (List.range p.mapCount).flatMap fun i =>
    match p.output.lookup i with
    | none => List.replicate width 0
    | some v =>
      let outer := v / 65536
      let inner := v % 65536
      let u := (outer * 2 ^ ib ||| inner) % 4294967296
      beBytes width u
  pure { format, entryFormat, mapCount := p.mapCount, data }

def mapBytes (m : MapOut) : List Nat :=
  [m.format, m.entryFormat] ++ (if m.format = 0 then beBytes 2 m.mapCount else beBytes 4 m.mapCount) ++
    m.data

/-- `serialize_index_maps`: identity plans leave a NULL offset. -/
def serializeMaps : List MapPlan → R (List (Option MapOut))
  | [] => pure []
  | p :: ps =>
    if p.output.isEmpty then (serializeMaps ps).map (none :: ·) else
    match serializeMap p with
    | .error e => .error e
    | .ok mo => (serializeMaps ps).map (some mo :: ·)

/-! ## `Hvar::subset` / `Vvar::subset` -/

structure TableIn where
  axisCount : Nat
  regions : List (List (Int × Int × Int))
  subs : List SubIn
  /-- HVAR: advance width, lsb, rsb; VVAR: advance height, tsb, bsb, vorg -/
  maps : List (Option MapIn)
  n2o : List (Nat × Nat)
  glyphset : List Nat
  retainGids : Bool
  deriving Repr

structure TableOut where
  store : StoreOut
  maps : List (Option MapOut)
  deriving Repr

def subsetTable (t : TableIn) : R TableOut :=
  match subsetPlan t.subs.length t.maps t.n2o t.glyphset t.retainGids with
  | .error e => .error e
  | .ok plan =>
    match subsetStore t.axisCount t.regions t.subs plan.innerMaps with
    | .error e => .error e
    | .ok store =>
      match serializeMaps plan.plans with
      | .error e => .error e
      | .ok maps => pure { store, maps }

/-! ## the reader's view (C11): `advance_delta` / `item_delta` -/

/-- `variations::advance_delta` (`isAdvance`) / `variations::item_delta` on reader-form data:
`none` = `Err(_)`. -/
def readerDelta (regions : List (List (Int × Int × Int))) (subs : List (Option Tent.SubTable))
    (map : Option (Nat × Nat × List Nat)) (isAdvance : Bool) (gid : Nat) (coords : List Int) :
    Option Int :=
  if coords.isEmpty then some 0 else
  let ix : Option (Nat × Nat) :=
    match map with
    | some (ef, mc, data) => Tent.dsimGet ef mc data gid
    | none => if isAdvance then some (Tent.implicitIndex gid) else none
  match ix with
  | none => none
  | some (outer, inner) =>
    match Tent.computeDelta regions subs outer inner coords with
    | .ok v => some v
    | .err => none

/-- the original array as the reader sees it (`none` = NULL offset; an unreadable entry never
reaches a successful subset) -/
def SubIn.toReader : SubIn → Option Tent.SubTable
  | .ok st => some st
  | _ => none

def MapIn.triple (m : MapIn) : Nat × Nat × List Nat := (m.entryFormat, m.mapCount, m.data)
def MapOut.triple (m : MapOut) : Nat × Nat × List Nat := (m.entryFormat, m.mapCount, m.data)

end FontVerif.SubsetHvar
