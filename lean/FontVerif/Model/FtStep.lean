/-
FreeType 2.12.1's TrueType interpreter (ttinterp.c, v40, non-pedantic, glyph program) as a step function
on the shared machine state (Model/TtState.lean): the same instruction subset and protocol as
Model/HintStep.lean, transcribed from the `Ins_*` functions.  Value computations: Model/FtVec.lean,
FtInterp.lean, FtMove.lean, FtRound.lean, FtCalc.lean.  Stack cells, coordinates and the cvt are 64-bit
`long`s (`args[]` is `FT_Long*`); point / contour numbers are read as `(FT_UShort)args[i]`.
The function pointers (`func_project`, `func_move`, …) and `F_dot_P` are recomputed from the three
vectors by `computeFuncs` (= `Compute_Funcs`, which FreeType runs after every write of a vector).
-/
import FontVerif.Model.FtInterp
set_option linter.unusedVariables false
namespace FontVerif.FtStep
open FontVerif FontVerif.FtCalc FontVerif.Tt FontVerif.FtVec FontVerif.FtInterp

def funcs (s : St) : Funcs := computeFuncs s.pv s.dv s.fv

def mpt (p : ZPt) : HintVec.MPt := ⟨p.cur.x, p.cur.y, p.tx, p.ty⟩
def withM (p : ZPt) (m : HintVec.MPt) : ZPt := { p with cur := ⟨m.x, m.y⟩, tx := m.tx, ty := m.ty }

def getZ (s : St) (z i : Nat) : R ZPt := getPt (s.zone z) i
def setZ (s : St) (z i : Nat) (p : ZPt) : St := s.setZone z ((s.zone z).set i p)

def iupd (s : St) : Bool := s.iupx && s.iupy

def push (s : St) (v : Int) : St := { s with stack := v :: s.stack }

def setVecs (s : St) (t : Vec × Vec × Vec) : St := { s with pv := t.1, dv := t.2.1, fv := t.2.2 }

/-- normalisation ran out of fuel (never observed). -/
def ofN {α : Type} (o : Option α) : R α :=
  match o with
  | some a => pure a
  | none => throw "fuel"

def gs (s : St) : HintMove.Gs :=
  { mode := s.rmode, thr := s.rthr, ph := s.rph, per := s.rper, cutin := s.cutin, sw := s.sw,
    swci := s.swci, md := s.md, autoFlip := s.autoFlip }

/-- `exc->func_move( exc, &zone, i, d )`. -/
def moveAt (s : St) (z i : Nat) (d : Int) : R St := do
  let p ← getZ s z i
  pure (setZ s z i (withM p (funcMove (funcs s) s.bc (iupd s) (mpt p) d)))

def moveZp2Many (s : St) (g : Funcs) (dx dy : Int) (touch : Bool) : List Nat → R St
  | [] => pure s
  | i :: rest => do
    let p ← getZ s s.zp2 i
    let s := setZ s s.zp2 i (withM p (moveZp2Point g s.bc (iupd s) (mpt p) dx dy touch))
    moveZp2Many s g dx dy touch rest

/-- `Compute_Point_Displacement`. -/
def displacement (s : St) (g : Funcs) (a : Bool) : R (Nat × Nat × Int × Int) := do
  let (z, i) := if a then (s.zp0, s.rp1) else (s.zp1, s.rp2)
  let p ← getZ s z i
  let (dx, dy) := pointDisplacement g p.cur p.org
  pure (z, i, dx, dy)

def setCvt (s : St) (i : Nat) (v : Int) : R St :=
  if i < s.cvt.length then pure { s with cvt := s.cvt.set i v } else throw "oob"

def getCvt (s : St) (i : Nat) : R Int :=
  match s.cvt[i]? with
  | some v => pure v
  | none => throw "oob"

/-- `C = ( (FT_ULong)B & 0xF0 ) >> 4; C += 16/32; C += exc->GS.delta_base`. -/
def deltaPpem (b bias : Int) : Int := (wrapU64 b % 256) / 16 + bias
/-- `B = ( (FT_ULong)B & 0xF ) - 8; if ( B >= 0 ) B++; B *= 1L << ( 6 - exc->GS.delta_shift )`. -/
def deltaStep (b shift : Int) : Int :=
  let m := (wrapU64 b % 16) - 8
  let m := if m ≥ 0 then m + 1 else m
  m * (2 : Int) ^ (6 - shift).toNat

def popPairs (s : St) : Nat → R (List (Int × Int) × St)
  | 0 => pure ([], s)
  | n + 1 => do
    let (a, s) ← s.pop
    let (b, s) ← s.pop
    let (rest, s) ← popPairs s n
    pure ((a, b) :: rest, s)

/-- one exception of `Ins_DELTAP` on point `A` (function pointers `g`): `C = ((FT_ULong)B & 0xF0) >> 4
(+16/32) + delta_base; if ( P == C ) { B = ((FT_ULong)B & 0xF) - 8; if ( B >= 0 ) B++; B *= 1L << ( 6 -
delta_shift ); … func_move }` with the v40 condition `!( iupx_called && iupy_called ) && ( ( is_composite
&& freeVector.y != 0 ) || ( tags[A] & FT_CURVE_TAG_TOUCH_Y ) )` in backward compatibility mode. -/
def deltapOne (g : Funcs) (ppem bias shift : Int) (bc iup composite : Bool) (b : Int) (p : HintVec.MPt) : HintVec.MPt :=
  if wrapU64 ppem = deltaPpem b bias then
    let d := deltaStep b shift
    if bc then (if ¬ iup ∧ ((composite ∧ g.fv.y ≠ 0) ∨ p.ty) then funcMove g bc iup p d else p)
    else funcMove g bc iup p d
  else p

/-- one exception of `Ins_DELTAC`: `func_move_cvt` = `cvt[A] = ADD_LONG( cvt[A], B )`. -/
def deltacOne (ppem bias shift : Int) (b v : Int) : Int :=
  if wrapU64 ppem = deltaPpem b bias then addLong v (deltaStep b shift) else v

def deltapLoop (s : St) (bias : Int) : List (Int × Int) → R St
  | [] => pure s
  | (a, b) :: rest => do
    let i ← asIndex a
    let p ← getZ s s.zp0 i
    let m := deltapOne (funcs s) s.ppem bias s.deltaShift s.bc (iupd s) s.composite b (mpt p)
    deltapLoop (setZ s s.zp0 i (withM p m)) bias rest

def deltacLoop (s : St) (bias : Int) : List (Int × Int) → R St
  | [] => pure s
  | (a, b) :: rest => do
    let i ← asIndex a
    let v ← getCvt s i
    let s ← setCvt s i (deltacOne s.ppem bias s.deltaShift b v)
    deltacLoop s bias rest

/-- `Ins_GETINFO` (v40; `exc->grayscale` is always false there, `face->blend` null for static fonts,
not rotated / stretched): `lean` = `subpixel_hinting_lean`, `vlcd` = `vertical_lcd_lean`, `grayCt` =
`grayscale_cleartype`. -/
def getinfo (sel : Int) (lean vlcd grayCt : Bool) : Int :=
  let bit (k : Int) : Bool := sel / k % 2 = 1
  let k := if bit 1 then 40 else 0
  let k := if lean ∧ bit 64 then k + 8192 else k
  let k := if lean ∧ bit 256 ∧ vlcd then k + 32768 else k
  let k := if lean ∧ bit 1024 then k + 131072 else k
  let k := if lean ∧ bit 2048 ∧ lean then k + 262144 else k
  let k := if lean ∧ bit 4096 ∧ grayCt then k + 524288 else k
  k

def shpixLoop (g : Funcs) (dx dy : Int) (inTw : Bool) (s : St) : List Nat → R St
  | [] => pure s
  | i :: rest => do
    let p ← getZ s s.zp2 i
    let s := if shpixMoves s.bc (iupd s) inTw s.composite s.fv p.ty
      then setZ s s.zp2 i (withM p (moveZp2Point g s.bc (iupd s) (mpt p) (if s.bc then 0 else dx) dy true)) else s
    shpixLoop g dx dy inTw s rest

def ipLoop (g : Funcs) (tw : Bool) (oldRange curRange : Int) (b : ZPt) (s : St) : List Nat → R St
  | [] => pure s
  | i :: rest => do
    let p ← getZ s s.zp2 i
    ipLoop g tw oldRange curRange b (setZ s s.zp2 i (withM p (ipPoint g s.bc (iupd s) tw oldRange curRange b p))) rest

def alignrpLoop (g : Funcs) (s : St) : List Nat → R St
  | [] => pure s
  | i :: rest => do
    let p ← getZ s s.zp1 i
    let r ← getZ s s.zp0 s.rp0
    alignrpLoop g (setZ s s.zp1 i (withM p (alignrp g s.bc (iupd s) (mpt p) r.cur))) rest

def flipLoop (s : St) : List Nat → R St
  | [] => pure s
  | i :: rest => do
    let p ← getPt s.glyph i
    flipLoop { s with glyph := s.glyph.set i (flipPt p) } rest

/-- `Ins_SCANCTRL` (`tt_metrics.rotated` / `stretched` false): `A = (FT_Int)( args[0] & 0xFF )`. -/
def scanctrl (n ppem : Int) (sc : Bool) : Bool :=
  let a := n % 256
  if a = 255 then true
  else if a = 0 then false
  else
    let sc := if n / 256 % 2 = 1 ∧ ppem ≤ a then true else sc
    let sc := if n / 2048 % 2 = 1 ∧ ppem > a then false else sc
    sc

/-- `tt_size_run_prep`: `size->cvt[i] = FT_MulFix( face->cvt[i], size->ttmetrics.scale >> 6 )` with
`face->cvt[i] = FT_GET_SHORT() * 64` (ttpload.c). -/
def cvtSetup (units scale : Int) : Int := mulFix (units * 64) (scale / 64)

/-- `Ins_INSTCTRL`: `K = (FT_ULong)args[1]; L = (FT_ULong)args[0]`; `exc->iniRange == tt_coderange_cvt`
in the prep, `tt_coderange_glyph` in a glyph program. -/
def instctrl (s : St) (sel v : Int) : St :=
  let k := wrapU64 sel
  let l := wrapU64 v
  if k < 1 ∨ k > 3 then s
  else
    let kf := (2 : Int) ^ (k - 1).toNat
    if l ≠ 0 ∧ l ≠ kf then s
    else if s.inPrep then
      -- exc->GS.instruct_control &= ~(FT_Byte)Kf; exc->GS.instruct_control |= (FT_Byte)L;
      { s with instructControl := (s.instructControl - (if s.instructControl / kf % 2 = 1 then kf else 0)) + l % 256 }
    else if k = 3 then { s with bc := ¬ (l = 4) }
    else s

/-- the state a glyph program starts in: `tt_loader_init` (backward compatibility from
`subpixel_hinting_lean` and instruct control bit 2, computed AFTER `if ( instruct_control & 2 ) exec->GS =
tt_default_graphics_state`), then `TT_Hint_Glyph`'s `exec->GS = size->GS` (which undoes that reset: the
prep's graphics state is used whatever bit 1 says) and `TT_Run_Context` (vectors, zone pointers, round
state, loop).  The cvt, storage and twilight zone live in the size object. -/
def startGlyph (p : St) (lean : Bool) (glyph : List ZPt) (ends : List Nat) : St :=
  let ic := if p.instructControl / 2 % 2 = 1 then 0 else p.instructControl
  { p with glyph := glyph, ends := ends, stack := [],
           pv := ⟨16384, 0⟩, dv := ⟨16384, 0⟩, fv := ⟨16384, 0⟩,
           rp0 := 0, rp1 := 0, rp2 := 0, zp0 := 1, zp1 := 1, zp2 := 1, loop := 1,
           rmode := 0,
           bc := lean ∧ ic / 4 % 2 = 0, iupx := false, iupy := false, inPrep := false }

/-- one instruction. -/
def step (op imm : Int) (s : St) : R St := do
  if op = 256 then pure (push s imm)
  else if 0 ≤ op ∧ op ≤ 5 then pure (setVecs s (sxytca op s.pv s.dv s.fv))
  else if 6 ≤ op ∧ op ≤ 9 then do
    let (i1, s) ← s.popIdx
    let (i2, s) ← s.popIdx
    let p1 ← getZ s s.zp1 i2
    let p2 ← getZ s s.zp2 i1
    let t ← ofN (svtl op p1.cur p2.cur s.pv s.dv s.fv)
    pure (setVecs s t)
  else if op = 0x0A then do
    let (y, s) ← s.pop
    let (x, s) ← s.pop
    let t ← ofN (spvfs x y s.pv s.dv s.fv)
    pure (setVecs s t)
  else if op = 0x0B then do
    let (y, s) ← s.pop
    let (x, s) ← s.pop
    let t ← ofN (sfvfs x y s.pv s.dv s.fv)
    pure (setVecs s t)
  else if op = 0x0C then pure (push (push s s.pv.x) s.pv.y)
  else if op = 0x0D then pure (push (push s s.fv.x) s.fv.y)
  else if op = 0x0E then pure (setVecs s (s.pv, s.dv, s.pv))
  -- ISECT: point = args[0], a0 = args[1], a1 = args[2], b0 = args[3], b1 = args[4] (top)
  else if op = 0x0F then do
    let (b1, s) ← s.popIdx
    let (b0, s) ← s.popIdx
    let (a1, s) ← s.popIdx
    let (a0, s) ← s.popIdx
    let (pi, s) ← s.popIdx
    let pa0 ← getZ s s.zp1 a0
    let pa1 ← getZ s s.zp1 a1
    let pb0 ← getZ s s.zp0 b0
    let pb1 ← getZ s s.zp0 b1
    let p ← getZ s s.zp2 pi
    pure (setZ s s.zp2 pi { p with cur := isect pa0.cur pa1.cur pb0.cur pb1.cur, tx := true, ty := true })
  else if op = 0x10 then do let (i, s) ← s.popIdx; pure { s with rp0 := i }
  else if op = 0x11 then do let (i, s) ← s.popIdx; pure { s with rp1 := i }
  else if op = 0x12 then do let (i, s) ← s.popIdx; pure { s with rp2 := i }
  else if op = 0x13 then do let (v, s) ← s.pop; if v = 0 ∨ v = 1 then pure { s with zp0 := v.toNat } else throw "oob"
  else if op = 0x14 then do let (v, s) ← s.pop; if v = 0 ∨ v = 1 then pure { s with zp1 := v.toNat } else throw "oob"
  else if op = 0x15 then do let (v, s) ← s.pop; if v = 0 ∨ v = 1 then pure { s with zp2 := v.toNat } else throw "oob"
  else if op = 0x16 then do
    let (v, s) ← s.pop
    if v = 0 ∨ v = 1 then pure { s with zp0 := v.toNat, zp1 := v.toNat, zp2 := v.toNat } else throw "oob"
  else if op = 0x17 then do
    let (v, s) ← s.pop
    if v < 0 then throw "unmodelled" else pure { s with loop := if v > 65535 then 65535 else v }
  else if op = 0x18 then pure { s with rmode := 0 }
  else if op = 0x19 then pure { s with rmode := 1 }
  else if op = 0x3D then pure { s with rmode := 2 }
  else if op = 0x7D then pure { s with rmode := 3 }
  else if op = 0x7C then pure { s with rmode := 4 }
  else if op = 0x7A then pure { s with rmode := 5 }
  else if op = 0x76 ∨ op = 0x77 then do
    let (sel, s) ← s.pop
    let (p, ph, t) := FtRound.setSuperRound (if op = 0x76 then 0x4000 else 0x2D41) sel
    pure { s with rmode := if op = 0x76 then 6 else 7, rper := p, rph := ph, rthr := t }
  else if op = 0x1A then do let (v, s) ← s.pop; pure { s with md := v }
  else if op = 0x1D then do let (v, s) ← s.pop; pure { s with cutin := v }
  else if op = 0x1E then do let (v, s) ← s.pop; pure { s with swci := v }
  else if op = 0x1F then do let (v, s) ← s.pop; pure { s with sw := mulFix v s.scale }
  else if op = 0x20 then do let (v, s) ← s.pop; pure (push (push s v) v)
  else if op = 0x21 then do let (_, s) ← s.pop; pure s
  else if op = 0x23 then do let (a, s) ← s.pop; let (b, s) ← s.pop; pure (push (push s a) b)
  -- ALIGNPTS: p1 = args[0], p2 = args[1] (top)
  else if op = 0x27 then do
    let (i2, s) ← s.popIdx
    let (i1, s) ← s.popIdx
    let p2 ← getZ s s.zp0 i2
    let p1 ← getZ s s.zp1 i1
    let d := alignptsDist (funcs s) p2.cur p1.cur
    let s ← moveAt s s.zp1 i1 d
    moveAt s s.zp0 i2 (negLong d)
  else if op = 0x29 then do
    let (i, s) ← s.popIdx
    let p ← getZ s s.zp0 i
    pure (setZ s s.zp0 i (utp s.fv p))
  else if op = 0x2E ∨ op = 0x2F then do
    let (i, s) ← s.popIdx
    let p ← getZ s s.zp0 i
    let m := mdap (funcs s) s.bc (iupd s) (op = 0x2F) s.rmode s.rthr s.rph s.rper (mpt p)
    pure { setZ s s.zp0 i (withM p m) with rp0 := i, rp1 := i }
  else if op = 0x30 ∨ op = 0x31 then do
    let ax := op = 0x31
    if s.bc ∧ s.iupx ∧ s.iupy then pure s
    else
      let s := if s.bc then (if ax then { s with iupx := true } else { s with iupy := true }) else s
      if s.ends.isEmpty then pure s else pure { s with glyph := iup ax s.glyph s.ends }
  else if op = 0x32 ∨ op = 0x33 then do
    let g := funcs s
    let (_, _, dx, dy) ← displacement s g (op = 0x33)
    let n := s.loop.toNat
    let s := { s with loop := 1 }
    let (ixs, s) ← s.popLoop n
    moveZp2Many s g dx dy true ixs
  else if op = 0x34 ∨ op = 0x35 then do
    let (c, s) ← s.popIdx
    let g := funcs s
    -- bounds = ( exc->GS.gep2 == 0 ) ? 1 : exc->zp2.n_contours
    let bounds := if s.zp2 = 0 then 1 else s.ends.length
    if c ≥ bounds then pure s
    else do
      let (z, ri, dx, dy) ← displacement s g (op = 0x35)
      let start := if c = 0 then 0 else (s.ends.getD (c - 1) 0) + 1
      let limit := if s.zp2 = 0 then s.twi.length else s.ends.getD c 0 + 1
      let ixs := (List.range limit).filter fun i => start ≤ i ∧ ¬ (z = s.zp2 ∧ ri = i)
      moveZp2Many s g dx dy true ixs
  else if op = 0x36 ∨ op = 0x37 then do
    let (e, s) ← s.pop
    if ¬ (e = 0 ∨ e = 1) then throw "oob"
    let g := funcs s
    let (z, ri, dx, dy) ← displacement s g (op = 0x37)
    let limit := if s.zp2 = 0 then s.twi.length else (match s.ends.getLast? with | some l => l + 1 | none => 0)
    let ixs := (List.range limit).filter fun i => ¬ (z = s.zp2 ∧ ri = i)
    moveZp2Many s g dx dy false ixs
  else if op = 0x38 then do
    let (amount, s) ← s.pop
    let g := funcs s
    let (dx, dy) := shpixDisp s.fv amount
    let inTw := s.zp0 = 0 ∨ s.zp1 = 0 ∨ s.zp2 = 0
    let n := s.loop.toNat
    let s := { s with loop := 1 }
    let (ixs, s) ← s.popLoop n
    shpixLoop g dx dy inTw s ixs
  else if op = 0x39 then do
    let g := funcs s
    let n := s.loop.toNat
    let s := { s with loop := 1 }
    let tw := s.zp0 = 0 ∨ s.zp1 = 0 ∨ s.zp2 = 0
    let b ← getZ s s.zp0 s.rp1
    let r2 ← getZ s s.zp1 s.rp2
    let (oldRange, curRange) := ipRanges g tw b r2
    let (ixs, s) ← s.popLoop n
    ipLoop g tw oldRange curRange b s ixs
  -- MSIRP: point = args[0], distance = args[1] (top)
  else if op = 0x3A ∨ op = 0x3B then do
    let (d, s) ← s.pop
    let (i, s) ← s.popIdx
    let g := funcs s
    let r ← getZ s s.zp0 s.rp0
    let p ← getZ s s.zp1 i
    let s :=
      if s.zp1 = 0 then
        let o := funcMoveOrig g r.org d
        setZ s s.zp1 i { p with org := o, cur := o }
      else s
    let p ← getZ s s.zp1 i
    let r ← getZ s s.zp0 s.rp0
    let s := setZ s s.zp1 i (withM p (msirp g s.bc (iupd s) (mpt p) r.cur d))
    pure { s with rp1 := s.rp0, rp2 := i, rp0 := if op = 0x3B then i else s.rp0 }
  else if op = 0x3C then do
    let g := funcs s
    let n := s.loop.toNat
    let s := { s with loop := 1 }
    let (ixs, s) ← s.popLoop n
    alignrpLoop g s ixs
  -- MIAP: point = args[0], cvtEntry = args[1] (top)
  else if op = 0x3E ∨ op = 0x3F then do
    let (ci, s) ← s.popIdx
    let (i, s) ← s.popIdx
    let g := funcs s
    let c ← getCvt s ci
    let p ← getZ s s.zp0 i
    let s :=
      if s.zp0 = 0 then
        let o : Vec := ⟨mulFix14 (wrapI32 c) s.fv.x, mulFix14 (wrapI32 c) s.fv.y⟩
        setZ s s.zp0 i { p with org := o, cur := o }
      else s
    let p ← getZ s s.zp0 i
    let cur := fastProject g p.cur
    let s ← moveAt s s.zp0 i (FtMove.miap (gs s) (op = 0x3F) c cur)
    pure { s with rp0 := i, rp1 := i }
  else if op = 0x44 then do
    let (v, s) ← s.pop
    let (i, s) ← s.popIdx
    setCvt s i v
  else if op = 0x45 then do
    let (i, s) ← s.popIdx
    let v ← getCvt s i
    pure (push s v)
  else if op = 0x70 then do
    let (v, s) ← s.pop
    let (i, s) ← s.popIdx
    setCvt s i (mulFix v s.scale)
  else if op = 0x46 ∨ op = 0x47 then do
    let (i, s) ← s.popIdx
    let p ← getZ s s.zp2 i
    pure (push s (gc (funcs s) (op = 0x47) p.org p.cur))
  else if op = 0x48 then do
    let (v, s) ← s.pop
    let (i, s) ← s.popIdx
    let p ← getZ s s.zp2 i
    let p := withM p (scfs (funcs s) s.bc (iupd s) (mpt p) v)
    pure (setZ s s.zp2 i (if s.zp2 = 0 then { p with org := p.cur } else p))
  -- MD: K = args[1] (top, zp1), L = args[0] (zp0)
  else if op = 0x49 ∨ op = 0x4A then do
    let (i1, s) ← s.popIdx
    let (i2, s) ← s.popIdx
    let p2 ← getZ s s.zp0 i2
    let p1 ← getZ s s.zp1 i1
    pure (push s (md (funcs s) (op = 0x49) (s.zp0 = 0 ∨ s.zp1 = 0) (if s.composite then 65536 else s.scale) p2 p1))
  else if op = 0x4B then pure (push s s.ppem)
  -- MPS: `exc->pointSize` = `FT_MulDiv( ppem, 64 * 72, 72 )`
  else if op = 0x4C then pure (push s (mulDiv s.ppem 4608 72))
  else if op = 0x4D then pure { s with autoFlip := true }
  else if op = 0x4E then pure { s with autoFlip := false }
  else if op = 0x5D ∨ op = 0x71 ∨ op = 0x72 then do
    let (n, s) ← s.pop
    -- nump = (FT_ULong)args[0]; the loop stops (and clears the stack) when fewer than two cells are left
    let n := (if n < 0 then 0 else n).toNat
    if n > s.stack.length / 2 then throw "unmodelled"
    let bias := (if op = 0x71 then 16 else if op = 0x72 then 32 else 0) + s.deltaBase
    let (pairs, s) ← popPairs s n
    deltapLoop s bias pairs
  else if op = 0x73 ∨ op = 0x74 ∨ op = 0x75 then do
    let (n, s) ← s.pop
    let n := (if n < 0 then 0 else n).toNat
    if n > s.stack.length / 2 then throw "unmodelled"
    let bias := (if op = 0x74 then 16 else if op = 0x75 then 32 else 0) + s.deltaBase
    let (pairs, s) ← popPairs s n
    deltacLoop s bias pairs
  else if op = 0x5E then do let (v, s) ← s.pop; pure { s with deltaBase := wrapU16 v }
  else if op = 0x5F then do
    let (v, s) ← s.pop
    if wrapU64 v > 6 then throw "unmodelled" else pure { s with deltaShift := v }
  else if op = 0x60 then do let (b, s) ← s.pop; let (a, s) ← s.pop; pure (push s (addLong a b))
  else if op = 0x61 then do let (b, s) ← s.pop; let (a, s) ← s.pop; pure (push s (subLong a b))
  else if op = 0x62 then do
    let (b, s) ← s.pop
    let (a, s) ← s.pop
    if b = 0 then throw "unmodelled" else pure (push s (mulDivNoRound a 64 b))
  else if op = 0x63 then do let (b, s) ← s.pop; let (a, s) ← s.pop; pure (push s (mulDiv a b 64))
  else if op = 0x64 then do let (a, s) ← s.pop; pure (push s (if a < 0 then negLong a else a))
  else if op = 0x65 then do let (a, s) ← s.pop; pure (push s (negLong a))
  else if 0x68 ≤ op ∧ op ≤ 0x6B then do
    let (a, s) ← s.pop
    pure (push s (FtRound.round s.rmode s.rthr s.rph s.rper 0 a))
  else if 0x6C ≤ op ∧ op ≤ 0x6F then do
    let (a, s) ← s.pop
    pure (push s (FtRound.roundNone 0 a))
  else if op = 0x80 then do
    let n := s.loop.toNat
    let s := { s with loop := 1 }
    if s.bc ∧ s.iupx ∧ s.iupy then do
      -- `goto Fail`: `exc->new_top = exc->args` — the arguments are NOT popped … but `args` was already
      -- lowered by the dispatcher only for fixed-arity opcodes; FLIPPT's pops happen in the loop, so here
      -- the loop count cells stay on the stack
      pure s
    else do
      let (ixs, s) ← s.popLoop n
      flipLoop s ixs
  else if op = 0x81 ∨ op = 0x82 then do
    let (hi, s) ← s.popIdx
    let (lo, s) ← s.popIdx
    if s.bc ∧ s.iupx ∧ s.iupy then pure s
    else if hi ≥ s.glyph.length ∨ lo ≥ s.glyph.length then throw "oob"
    else pure { s with glyph := flipRange s.glyph lo hi (op = 0x81) }
  else if op = 0x85 then do
    let (n, s) ← s.pop
    pure { s with scanControl := scanctrl n s.ppem s.scanControl }
  else if op = 0x86 ∨ op = 0x87 then do
    let (i1, s) ← s.popIdx
    let (i2, s) ← s.popIdx
    let p1 ← getZ s s.zp1 i2
    let p2 ← getZ s s.zp2 i1
    let t ← ofN (sdpvtl op p1.org p2.org p1.cur p2.cur s.pv s.dv s.fv)
    pure (setVecs s t)
  else if op = 0x88 then do
    let (sel, s) ← s.pop
    let t := s.scanType
    pure (push s (getinfo sel (t ≠ 0) (t = 4) (t = 1)))
  -- INSTCTRL: K = args[1] (top) selector, L = args[0] value
  else if op = 0x8E then do
    let (sel, s) ← s.pop
    let (v, s) ← s.pop
    pure (instctrl s sel v)
  else if 0xC0 ≤ op ∧ op ≤ 0xDF then do
    let fl := op - 0xC0
    let (i, s) ← s.popIdx
    let g := funcs s
    let p ← getZ s s.zp1 i
    let r ← getZ s s.zp0 s.rp0
    let org :=
      if s.zp0 = 0 ∨ s.zp1 = 0 then dualproj g p.org r.org
      else mulFix (dualproj g p.orus r.orus) (if s.composite then 65536 else s.scale)
    let cur := project g p.cur r.cur
    let s ← moveAt s s.zp1 i (FtMove.mdrp (gs s) (fl / 4 % 2 = 1) (fl / 8 % 2 = 1) org cur)
    pure { s with rp1 := s.rp0, rp2 := i, rp0 := if fl / 16 % 2 = 1 then i else s.rp0 }
  else if 0xE0 ≤ op ∧ op ≤ 0xFF then do
    let fl := op - 0xE0
    let (nraw, s) ← s.pop
    let (i, s) ← s.popIdx
    let g := funcs s
    let n := addLong nraw 1
    if n < 0 ∨ n > s.cvt.length then throw "oob"
    let c0 ← if n = 0 then pure 0 else getCvt s (n - 1).toNat
    let c := FtMove.mirpSw (gs s) c0
    let p ← getZ s s.zp1 i
    let r ← getZ s s.zp0 s.rp0
    let s :=
      if s.zp1 = 0 then
        let o : Vec := ⟨addLong r.org.x (mulFix14 (wrapI32 c) s.fv.x), addLong r.org.y (mulFix14 (wrapI32 c) s.fv.y)⟩
        setZ s s.zp1 i { p with org := o, cur := o }
      else s
    let p ← getZ s s.zp1 i
    let r ← getZ s s.zp0 s.rp0
    let org := dualproj g p.org r.org
    let cur := project g p.cur r.cur
    let s ← moveAt s s.zp1 i (FtMove.mirpMove (gs s) (fl / 4 % 2 = 1) (fl / 8 % 2 = 1) (s.zp0 = s.zp1) c org cur)
    pure { s with rp1 := s.rp0, rp0 := if fl / 16 % 2 = 1 then i else s.rp0, rp2 := i }
  else throw "unmodelled"

def run : List (Int × Int) → St → R St
  | [], s => pure s
  | (op, imm) :: rest, s => do
    let s ← step op imm s
    run rest s

end FontVerif.FtStep
