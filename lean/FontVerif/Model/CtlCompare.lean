/-
C03 — comparing the two control machines: skrifa's (`Model/Interp.lean`, C02) and FreeType's (`Model/FtControl.lean`).

* `errRel`     — the explicit table HintErrorKind ↔ FT_Err
* `sideCond`   — for a pair of (related) states about to dispatch the same instruction: the NAME of the first situation
                 in which the two code bases are known to part ways, `none` when they provably stay together
                 (`Props/C03Control.lean`: `control_step_sim…`).  It is executable: the driver (`cmp.ctl`) runs both
                 machines in lock step and reports the first clause that fires, the harness then requires the two REAL
                 interpreters to agree whenever no clause fired.

Imports only Model files.
-/
import FontVerif.Model.Interp
import FontVerif.Model.FtControl
import FontVerif.Model.HintControl
namespace FontVerif.CtlCompare
open FontVerif

/-- which FreeType error corresponds to which `HintErrorKind` (both sides abort the program). `Stack_Overflow` is
FreeType's code for both stacks; `Too_Many_*_Defs` also covers an out-of-range key. -/
def errRel : Interp.Err → FtControl.Err → Bool
  | .unexpectedEnd, .codeOverflow => true
  | .unhandledOpcode, .invalidOpcode => true
  | .defInGlyph, .defInGlyfBytecode => true
  | .nestedDef, .nestedDefs => true
  | .tooManyDefs, .tooManyFunctionDefs => true
  | .tooManyDefs, .tooManyInstructionDefs => true
  | .invalidDef, .invalidReference => true
  | .vsOverflow, .stackOverflow => true
  | .vsUnderflow, .tooFewArguments => true
  | .csOverflow, .stackOverflow => true
  | .csUnderflow, .endfInExecStream => true
  | .invalidJump, .badArgument => true
  | .budget, .executionTooLong => true
  | .data a, .data b => a == b
  | _, _ => false

/-- skrifa's view of a FreeType definition record: (program, start) -/
def ftDefView (d : FtControl.DefRec) : Nat × Nat := (d.range - 1, d.start)
def skDefView (d : Interp.Def) : Nat × Nat := (d.prog, d.start)

variable {D : Type}

/-- the jump clauses shared by JMPR / JROT / JROF: `v` = offset, `ipc` = pc of the instruction, `deeper` = there are
stack cells below the arguments (FreeType's `exc->args != 0`). -/
def jumpCond (c : Interp.Cfg D) (fc : FtControl.Cfg D) (s : Interp.St D) (t : FtControl.St D)
    (v : Int) (ipc : Nat) (deeper : Bool) : Option String :=
  if ¬ (-2147483648 < v ∧ v < 2147483648) then some "jump:operand-beyond-i32"
  else if v = 0 then
    -- skrifa: InvalidJump always; FreeType: Bad_Argument only when the stack is otherwise empty, else it re-executes
    -- the jump instruction in place with the NEXT stack cell(s) as operands
    if deeper then some "jump:zero-offset-with-deeper-stack" else none
  else if (ipc : Int) + v < 0 then some "jump:negative-target"       -- FreeType Bad_Argument, skrifa wraps and ends Ok
  else if FtControl.pastEnd t ((ipc : Int) + v) then some "jump:target-past-definition-end"  -- FreeType Bad_Argument, skrifa goes on
  else if v < 0 ∧ (decide (s.backJumps + 1 > c.limit) ≠ decide (t.negJumps + 1 > fc.negJumpMax)) then some "budget:backward-jump"
  else none

/-- does FreeType's definition search find the key / is there room; skrifa's `allocate` succeeds -/
def defCond (c : Interp.Cfg D) (fc : FtControl.Cfg D) (s : Interp.St D) (t : FtControl.St D)
    (isFunc : Bool) (k : Int) (startPc : Nat) : Option String :=
  if s.initial = 2 then none
  else
    let limit : Int := if isFunc then 0xFFFF else 0xFF
    let ftDefs := if isFunc then t.fdefs else t.idefs
    let cap := if isFunc then fc.maxFDefs else fc.maxIDefs
    let skDefs := if isFunc then s.funcs else s.idefs
    if ¬ (0 ≤ k ∧ k ≤ limit) then some "def:key-out-of-range"          -- FreeType Too_Many_*_Defs, skrifa accepts any i32
    else
      let found := FtControl.findIx (fun r => r.opc = k.toNat) ftDefs 0
      let ftFull : Bool := found.isNone && decide (ftDefs.length ≥ cap)
      let skFull : Bool := match Interp.allocate skDefs k with | .ok _ => false | .error _ => true
      if ftFull ≠ skFull then some "def:table-capacity"
      else if ftFull then none
      else
        let ix := found.getD ftDefs.length
        if t.callStack.any (fun r => r.isFunc = isFunc ∧ r.defIx = ix) then some "def:redefinition-of-running-definition"
        else
          let code := c.code s.current
          match Interp.scanDef code (code.size + 1) startPc with
          | some (.ok (endf, _)) =>
            if c.pedantic ∧ endf + 1 - startPc > Interp.MAX_DEFINITION_SIZE then some "def:too-large-pedantic" else none
          | _ => none

/-- see the header.  `decEq` compares data states (the data semantics are parameters of both machines). -/
def sideCond [DecidableEq D] (c : Interp.Cfg D) (fc : FtControl.Cfg D) (s : Interp.St D) (t : FtControl.St D) : Option String :=
  if ¬ s.pc < 4294967296 then some "pc-beyond-u32"
  else
  match Interp.decode (c.code s.current) s.pc with
  | .eof => if s.calls ≠ [] then some "end-of-code-inside-call" else none   -- FreeType Code_Overflow, skrifa Ok
  | .bad => none
  | .ins op operands ipc _ =>
    let vs := s.vs
    let depth := vs.length
    let npop := FtControl.pops op
    -- FreeType zeroes ALL argument cells when some are missing; skrifa substitutes 0 for the missing ones only
    if ¬ c.pedantic ∧ depth < npop ∧ vs.any (· ≠ 0) then some s!"underflow:partial:{op}"
    else if (if depth < npop then 0 else depth - npop) + FtControl.pushes op > fc.stackSize then some s!"precheck:stack-overflow:{op}"
    else
    let v0 : Int := match vs with | v :: _ => v | [] => 0
    let v1 : Int := match vs with | _ :: v :: _ => v | _ => 0
    if op = 0x58 ∨ op = 0x1B ∨ op = 0x59 ∨ op = 0x2D ∨ op = 0x2B then none
    else if op = 0x1C then jumpCond c fc s t v0 ipc (decide (depth ≥ 2))
    else if op = 0x78 ∨ op = 0x79 then
      if (if op = 0x78 then v0 ≠ 0 else v0 = 0) then jumpCond c fc s t v1 ipc (decide (depth ≥ 3)) else none
    else if op = 0x2A then
      let f := v0
      let count := v1
      if ¬ (count < 2147483648) then some "loopcall:count-beyond-i32"
      else
        let bad : Bool := (FtControl.lookupFunc t f).isNone || decide (t.callStack.length ≥ fc.callSize)
        if count ≤ 0 then
          -- FreeType validates the function and the call stack before looking at the count
          if bad then some "loopcall:nonpositive-count-with-invalid-function" else none
        else
          let skOver := decide (s.loopCalls + count.toNat > c.limit)
          let ftOver := decide (t.loopCalls + count.toNat > fc.loopcallMax)
          if skOver ≠ ftOver then some "budget:loopcall"
          else if skOver ∧ bad then some "loopcall:error-order" else none
    else if op = 0x2C then defCond c fc s t true v0 (ipc + 1)
    else if op = 0x89 then defCond c fc s t false v0 (ipc + 1)
    else if Interp.isUnknownFor c.axisCount op then
      if op = 0x92 ∧ (FtControl.lookupIns t op).isSome then some "getdata:stale-cell-pushed" else none
    else
      -- data opcode: the two data semantics must agree on this very state
      if depth < npop then some s!"underflow:data:{op}"
      else
        match c.sem op operands (vs, s.data), fc.sem op operands (vs, t.data) with
        | .ok (a, d1), .ok (b, d2) => if a = b ∧ d1 = d2 then none else some s!"data:result:{op}"
        | .error e1, .error e2 => if errRel e1 e2 then none else some s!"data:error-kind:{op}"
        | _, _ => some s!"data:outcome:{op}"

end FontVerif.CtlCompare
