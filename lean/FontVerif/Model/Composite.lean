/-
C02 core 2 — composite glyph nesting in skrifa's glyf loader.

Transcribed from /repo/skrifa/src/outline/glyf/mod.rs `Outlines::outline` and `Outlines::outline_rec`
(`GLYF_COMPOSITE_RECURSION_LIMIT = 32`, skrifa/src/lib.rs).  The draw-time loaders (`Scaler::load` /
`load_composite`) walk the same graph with the same `recurse_depth > LIMIT` test.

The glyf/loca bytes are abstracted to a lookup `G : glyph id → GlyphInfo` (what `loca.get_glyf` returns and, for
a composite, the component glyph ids in order); the harness evaluates it with read-fonts on each input.
`visits` is a ghost counter (number of `outline_rec` activations), everything else is a field of `Outline`.
-/
import FontVerif.Model.Base
namespace FontVerif.Composite

def RECURSION_LIMIT : Nat := 32
def PHANTOM : Nat := 4

inductive GlyphInfo
  | readErr                                      -- `loca.get_glyf` returned `Err`
  | empty                                        -- `Ok(None)`
  | simple (points contours : Nat) (hasIns : Bool)
  | composite (comps : List Nat) (hasIns : Bool)
deriving Repr, DecidableEq, Inhabited

def GlyphInfo.present : GlyphInfo → Bool
  | .simple .. => true
  | .composite .. => true
  | _ => false

inductive Err | recursionLimit | read
deriving Repr, DecidableEq

/-- the counters of `Outline` that `outline_rec` accumulates -/
structure Out where
  points : Nat := 0
  contours : Nat := 0
  maxSimple : Nat := 0
  maxOther : Nat := 0
  maxDeltaStack : Nat := 0
  hasHinting : Bool := false
  visits : Nat := 0
deriving Repr, DecidableEq

abbrev Rec := GlyphInfo → Out → Nat → Except Err Out

/-- the `for (component, flags) in composite.component_glyphs_and_flags()` loop; `prev` = `outline_rec` one level
    deeper -/
def loop (G : Nat → GlyphInfo) (prev : Rec) : List Nat → Out → Nat → Except Err Out
  | [], o, _ => .ok o
  | c :: cs, o, cd =>
    match G c with
    | .readErr => .error .read          -- `get_glyf(..)?`
    | .empty => loop G prev cs o cd     -- `continue`
    | g =>
      match prev g o cd with
      | .error e => .error e
      | .ok o' => loop G prev cs o' cd

/-- body of `outline_rec` after the depth test -/
def level (G : Nat → GlyphInfo) (prev : Rec) : Rec
  | .simple p c h, o, _ =>
    let withPhantom := p + PHANTOM
    .ok { o with visits := o.visits + 1, maxSimple := max o.maxSimple withPhantom, points := o.points + p,
                 contours := o.contours + c, hasHinting := o.hasHinting || h,
                 maxOther := max o.maxOther withPhantom }
  | .composite cs h, o, cd =>
    let count := cs.length + PHANTOM
    let base := o.points
    match loop G prev cs { o with visits := o.visits + 1 } (cd + count) with
    | .error e => .error e
    | .ok o' =>
      let o' := if h then { o' with maxOther := max o'.maxOther (o'.points - base + PHANTOM) } else o'
      .ok { o' with maxDeltaStack := max o'.maxDeltaStack (cd + count), hasHinting := o'.hasHinting || h }
  | _, o, _ => .ok o

/-- `outline_rec` with `fuel = 33 - recurse_depth`: `recurse_depth > 32` ⇔ `fuel = 0` -/
def recF (G : Nat → GlyphInfo) : Nat → Rec
  | 0 => fun _ _ _ => .error .recursionLimit
  | f + 1 => level G (recF G f)

/-- `Outlines::outline(glyph_id)` (counters before the final `points += 4`) -/
def outline (G : Nat → GlyphInfo) (gid : Nat) : Except Err Out :=
  match G gid with
  | .readErr => .error .read
  | .empty => .ok {}
  | g => recF G (RECURSION_LIMIT + 1) g {} 0

end FontVerif.Composite
