/-
C01 (hand-written code) — models of hand-written iterators / lookups of read-fonts that are not
in Model/ReadIter.lean, built on the cursor model of Model/HandRead.lean and the iterator machine
(`Out`, `run`) of Model/ReadIter.lean:

* `VarcComponentIter::next` / `VarcComponent::parse`            read-fonts/src/tables/varc.rs
* `read_offset`, `Index1/Index2::{get_offset,get,size_in_bytes}`,
  `Index::new`                                                  tables/postscript/index.rs
* `dict::{tokens,parse_token,parse_int,parse_bcd,entries,parse_entry}`,
  `Blues::new`, `StemSnaps::new`                                tables/postscript/dict.rs
  with the operand `Stack` (`push/pop/get_i32/get_fixed/…`)     tables/postscript/stack.rs
* `Charset::{string_id,iter}`, `string_id_from_ranges`,
  `RangeIter::next`                                             tables/postscript/charset.rs
* `FdSelect::font_index`                                        tables/postscript/fd_select.rs
* `Lookup0/2/4/6/8/10::value`                                   tables/aat.rs

`Out.trap` marks a panic (index out of bounds of a fixed-size array, arithmetic overflow of the
strict profile); Props/C01Hand.lean shows it is never produced.
-/
import FontVerif.Model.ReadIter
import FontVerif.Model.HandRead
namespace FontVerif.HandIter
open FontVerif FontVerif.ReadIter FontVerif.HandRead

/-! ## VARC — `VarcComponentIter`

State: the data the iterator's cursor walks and the cursor.  `VarcComponent::parse` replaces the
cursor by one over the *remaining* data when it skips the packed axis values
(`*cursor = deltas.iter().end()`), so the data is part of the state. -/

structure VSt where
  d : List Nat
  c : Cur
  deriving Repr, DecidableEq

/-- bytes left in front of the cursor (`Cursor::remaining_bytes`) — the termination measure -/
def VSt.rem (s : VSt) : Nat := s.d.length - s.c.pos

/-- `while self.next().is_some() {}` of `DeltaRunIter::end`; `none` = out of fuel -/
def dlEndLoop (d : List Nat) : Nat → DlSt → Option DlSt
  | 0, _ => none
  | fuel + 1, s =>
    match dlNext d s with
    | (.yield _, s') => dlEndLoop d fuel s'
    | (_, s') => some s'

/-- one action of `VarcComponent::parse` after the flags were read -/
inductive Act where
  /-- `cursor.read::<T>()?` of `sz` bytes -/
  | rd (sz : Nat)
  /-- `cursor.read_u32_var()?` -/
  | var
  /-- the `HAVE_AXES` block: `read_u32_var()?`, `table.axis_indices(ix)?.count()`, and for a
  non-zero count `cursor.remaining()` (else `Err`), `PackedDeltas::new(data, n).iter().end()` -/
  | axes
  deriving Repr, DecidableEq

/-- run one action; `false` = the `?` returned `Err` (the cursor keeps what was consumed).
`ax i` = `table.axis_indices(i).map(|d| d.count())` (`none` = `Err`). -/
def Act.run (ax : Nat → Option Nat) (s : VSt) : Act → Bool × VSt
  | .rd sz => let r := s.c.read s.d sz; (r.1.isSome, { s with c := r.2 })
  | .var => let r := s.c.readU32Var s.d; (r.1.isSome, { s with c := r.2 })
  | .axes =>
    let r := s.c.readU32Var s.d
    let s1 : VSt := { s with c := r.2 }
    match r.1 with
    | none => (false, s1)
    | some ix =>
      match ax ix with
      | none => (false, s1)
      | some n =>
        if n = 0 then (true, s1)
        else if s1.c.pos ≤ s1.d.length then
          let dd := s1.d.drop s1.c.pos
          match dlEndLoop dd (n + 1) (dlInit (some n)) with
          | none => (false, s1)  -- unreachable (`dlEndLoop_some`)
          | some e => (true, { d := dd, c := ⟨min e.pos HandRead.MAXU⟩ })  -- a `usize` cursor position
        else (false, s1)

/-- run the actions in order, stopping at the first `Err` -/
def runActs (ax : Nat → Option Nat) : List Act → VSt → Bool × VSt
  | [], s => (true, s)
  | a :: rest, s =>
    match a.run ax s with
    | (false, s') => (false, s')
    | (true, s') => runActs ax rest s'

def bit (raw k : Nat) : Bool := raw.testBit k

/-- number of set bits of `raw & RESERVED_MASK` (bits 15..31) -/
def reservedCount (raw : Nat) : Nat := ((List.range 17).filter (fun i => bit raw (15 + i))).length

/-- the reads of `VarcComponent::parse` implied by the raw flags, in source order -/
def actsOf (raw : Nat) : List Act :=
  [if bit raw 12 then Act.rd 3 else Act.rd 2] ++          -- gid: GID_IS_24BIT
  (if bit raw 7 then [Act.var] else []) ++                 -- HAVE_CONDITION
  (if bit raw 1 then [Act.axes] else []) ++                -- HAVE_AXES
  (if bit raw 2 then [Act.var] else []) ++                 -- AXIS_VALUES_HAVE_VARIATION
  (if bit raw 3 then [Act.var] else []) ++                 -- TRANSFORM_HAS_VARIATION
  (if bit raw 4 then [Act.rd 2] else []) ++                -- HAVE_TRANSLATE_X
  (if bit raw 5 then [Act.rd 2] else []) ++                -- HAVE_TRANSLATE_Y
  (if bit raw 6 then [Act.rd 2] else []) ++                -- HAVE_ROTATION
  (if bit raw 8 then [Act.rd 2] else []) ++                -- HAVE_SCALE_X
  (if bit raw 9 then [Act.rd 2] else []) ++                -- HAVE_SCALE_Y
  (if bit raw 13 then [Act.rd 2] else []) ++               -- HAVE_SKEW_X
  (if bit raw 14 then [Act.rd 2] else []) ++               -- HAVE_SKEW_Y
  (if bit raw 10 then [Act.rd 2] else []) ++               -- HAVE_TCENTER_X
  (if bit raw 11 then [Act.rd 2] else []) ++               -- HAVE_TCENTER_Y
  List.replicate (reservedCount raw) Act.var

/-- `VarcComponent::parse`: `true` = `Ok` -/
def varcParse (ax : Nat → Option Nat) (s : VSt) : Bool × VSt :=
  let r := s.c.readU32Var s.d
  let s1 : VSt := { s with c := r.2 }
  match r.1 with
  | none => (false, s1)
  | some raw => runActs ax (actsOf raw) s1

/-- `VarcComponentIter::next`: `if self.cursor.is_empty() { return None }`,
`Some(VarcComponent::parse(..))` -/
def varcStep (ax : Nat → Option Nat) (s : VSt) : Out Bool × VSt :=
  if s.c.isEmpty s.d then (.done, s)
  else let r := varcParse ax s; (.yield r.1, r.2)

/-- `glyph.components().collect()` on glyph record `d` -/
def varcTrace (ax : Nat → Option Nat) (d : List Nat) : Option (List (Out Bool)) :=
  run (varcStep ax) (d.length + 1) ⟨d, Cur.init⟩

/-! ## CFF / CFF2 INDEX -/

inductive IErr where
  | oob
  | zeroOffset
  | badOffSize (n : Nat)
  deriving Repr, DecidableEq

/-- a successfully read `Index1` / `Index2` (generated reader): `hdr` = 3 / 5 header bytes -/
structure Idx where
  hdr : Nat
  count : Nat
  offSize : Nat
  offsets : List Nat
  data : List Nat
  deriving Repr, DecidableEq

/-- generated `Index1::read` / `Index2::read`: count (2 / 4 bytes), off_size (1 byte),
`(count + 1) * off_size` offset bytes, the rest is data; `none` = `Err(OutOfBounds)` -/
def idxRead (d : List Nat) (cff2 : Bool) : Option Idx :=
  let cw := if cff2 then 4 else 2
  match readAt d 0 cw, readAt d cw 1 with
  | some count, some offSize =>
    let olen := (count + 1) * offSize
    if cw + 1 + olen ≤ d.length then
      some { hdr := cw + 1, count := count, offSize := offSize,
             offsets := (d.drop (cw + 1)).take olen, data := d.drop (cw + 1 + olen) }
    else none
  | _, _ => none

/-- `read_offset(index, count, offset_size, offset_data)` -/
def readOffset (ix : Idx) (index : Nat) : Except IErr Nat :=
  if index > ix.count then .error .oob
  else
    let off := index * ix.offSize
    if 1 ≤ ix.offSize ∧ ix.offSize ≤ 4 then
      match readAt ix.offsets off ix.offSize with
      | none => .error .oob
      | some v => if v = 0 then .error .zeroOffset else .ok (v - 1)
    else .error (.badOffSize ix.offSize)

/-- `Index1/Index2::get(index)`: `data.get(get_offset(i)?..get_offset(i + 1)?)`; `ok (a, b)` is the
byte range handed out -/
def idxGet (ix : Idx) (index : Nat) : Except IErr (Nat × Nat) :=
  match readOffset ix index with
  | .error e => .error e
  | .ok a =>
    match readOffset ix (index + 1) with
    | .error e => .error e
    | .ok b => if a ≤ b ∧ b ≤ ix.data.length then .ok (a, b) else .error .oob

/-- `size_in_bytes`: every error of `get_offset(count)` is mapped to `OutOfBounds` -/
def idxSize (ix : Idx) : Option Nat :=
  if ix.count = 0 then some (ix.hdr - 1)
  else match readOffset ix ix.count with
    | .ok v => some (ix.hdr + ix.offsets.length + v)
    | .error _ => none

/-- `Index::new(data, is_cff2)` -/
inductive IndexR where
  | err
  | empty
  | fmt (ix : Idx)
  deriving Repr, DecidableEq

def indexNew (d : List Nat) (cff2 : Bool) : IndexR :=
  match idxRead d cff2 with
  | some ix => .fmt ix
  | none =>
    match readAt d 0 (if cff2 then 4 else 2) with
    | some 0 => .empty
    | _ => .err

/-! ## DICT operand stack (`postscript/stack.rs`)

`values: [i32; 513]`, `value_is_fixed: [bool; 513]`, `top`.  `clear()` only resets `top`, and
`get_i32/get_fixed(index)` check the index against the ARRAY size, not `top`, so stale entries
are observable; the model keeps the whole arrays.  The numeric value of a fixed-point entry is not
tracked (it never influences control flow when no blend state is supplied). -/

def MAX_STACK : Nat := 513

/-- a slot: an integer (`value_is_fixed = false`) or some 16.16 value -/
inductive Slot where
  | int (v : Int)
  | fixed
  deriving Repr, DecidableEq

structure Stack where
  slots : List Slot
  top : Nat
  deriving Repr, DecidableEq

def Stack.new : Stack := ⟨List.replicate MAX_STACK (.int 0), 0⟩

inductive SErr where
  | overflow
  | underflow
  | expectedI32 (i : Nat)
  | invalidAccess (i : Nat)
  | oob
  deriving Repr, DecidableEq

/-- result of a stack operation: a value, a Rust `Err`, or a panic (array index out of bounds) -/
inductive SR (α : Type) where
  | ok (a : α)
  | err (e : SErr)
  | trap
  deriving Repr

/-- `push_impl`: `if top == MAX_STACK { Err(StackOverflow) }`, `values[top] = …` (panics for
`top > 513`: excluded by the invariant `top ≤ 513`) -/
def Stack.push (s : Stack) (x : Slot) : SR Stack :=
  if s.top = MAX_STACK then .err .overflow
  else if s.top < s.slots.length then .ok ⟨s.slots.set s.top x, s.top + 1⟩
  else .trap

/-- `get_i32(index)` -/
def Stack.getI32 (s : Stack) (i : Nat) : SR Int :=
  match s.slots[i]? with
  | none => .err (.invalidAccess i)
  | some (.int v) => .ok v
  | some .fixed => .err (.expectedI32 i)

/-- `get_fixed(index)`: only whether it succeeds -/
def Stack.getFixed (s : Stack) (i : Nat) : SR Unit :=
  match s.slots[i]? with
  | none => .err (.invalidAccess i)
  | some _ => .ok ()

/-- `pop_i32` -/
def Stack.popI32 (s : Stack) : SR Int × Stack :=
  if s.top > 0 then let s' : Stack := ⟨s.slots, s.top - 1⟩; (s'.getI32 (s.top - 1), s')
  else (.err .underflow, s)

/-- `pop_fixed` -/
def Stack.popFixed (s : Stack) : SR Unit × Stack :=
  if s.top > 0 then let s' : Stack := ⟨s.slots, s.top - 1⟩; (s'.getFixed (s.top - 1), s')
  else (.err .underflow, s)

/-- `apply_delta_prefix_sum`: for `top > 1` every slot below `top` becomes fixed -/
def Stack.prefixSum (s : Stack) : Stack :=
  if s.top > 1 then ⟨(List.replicate (min s.top s.slots.length) Slot.fixed) ++ s.slots.drop s.top, s.top⟩ else s

/-- `clear` -/
def Stack.clear (s : Stack) : Stack := ⟨s.slots, 0⟩

/-! ## `Blues::new`, `StemSnaps::new` -/

/-- `Blues::new(values)`: `for (i, value) in values.take(MAX_BLUE_VALUES * 2).enumerate()`,
`blues.values[i / 2] = …` for odd `i` (an index ≥ 7 is a panic).  `n` = number of values the
iterator offers; returns `len`.  `some` result, `none` = panic. -/
def bluesLoop : List Nat → Nat → Option Nat
  | [], len => some len
  | i :: rest, len =>
    if i % 2 = 0 then bluesLoop rest len
    else if i / 2 < 7 then bluesLoop rest (len + 1) else none

def bluesNew (n : Nat) : Option Nat := bluesLoop (List.range (min n 14)) 0

/-- `StemSnaps::new`: `values.take(12).zip(&mut snaps.values)` — no indexing -/
def stemSnapsNew (n : Nat) : Nat := min n 12

/-! ## DICT tokens (`parse_token`, `parse_int`, `parse_bcd`) -/

inductive DErr where
  | oob
  | invalidNumber
  | invalidOperator (b : Nat)
  | stack (e : SErr)
  | missingBlendState
  deriving Repr, DecidableEq

/-- characters `parse_bcd` can push -/
inductive BcdCh where
  | digit
  | dot
  | e
  | minus
  deriving Repr, DecidableEq

/-- what `str::parse::<f64>` accepts over that alphabet:
`-? (digit+ (. digit*)? | . digit+) (E -? digit+)?` -/
def f64Exp : List BcdCh → Bool
  | [] => false
  | .minus :: r => !r.isEmpty && r.all (· == .digit)
  | r => r.all (· == .digit)

def f64Frac : List BcdCh → Bool → Bool     -- after the dot; `seen` = a mantissa digit was seen
  | [], seen => seen
  | .digit :: r, _ => f64Frac r true
  | .e :: r, seen => seen && f64Exp r
  | _ :: _, _ => false

def f64Int : List BcdCh → Bool → Bool      -- integer digits
  | [], seen => seen
  | .digit :: r, _ => f64Int r true
  | .dot :: r, seen => f64Frac r seen
  | .e :: r, seen => seen && f64Exp r
  | .minus :: _, _ => false

def f64Accepts : List BcdCh → Bool
  | .minus :: r => f64Int r false
  | r => f64Int r false

/-- push into the 32 byte buffer: `none` = `Err(InvalidNumber)` -/
def bcdPush (buf : List BcdCh) (c : BcdCh) : Option (List BcdCh) :=
  if buf.length < 32 then some (buf ++ [c]) else none

/-- one nibble: `some (buf, stop)` or `none` = `Err(InvalidNumber)` -/
def bcdNibble (buf : List BcdCh) (n : Nat) : Option (List BcdCh × Bool) :=
  if n ≤ 9 then (bcdPush buf .digit).map (·, false)
  else if n = 0xA then (bcdPush buf .dot).map (·, false)
  else if n = 0xB then (bcdPush buf .e).map (·, false)
  else if n = 0xC then ((bcdPush buf .e).bind (bcdPush · .minus)).map (·, false)
  else if n = 0xE then (bcdPush buf .minus).map (·, false)
  else if n = 0xF then some (buf, true)
  else none

/-- the `'outer: loop` of `parse_bcd` over the bytes in front of the cursor; returns the result
and the number of bytes the cursor advanced (a failed read advances it, too) -/
def bcdLoop : List Nat → List BcdCh → Nat → Except DErr Unit × Nat
  | [], _, used => (.error .oob, used + 1)
  | b :: rest, buf, used =>
    match bcdNibble buf (b / 16 % 16) with
    | none => (.error .invalidNumber, used + 1)
    | some (buf1, true) => ((if f64Accepts buf1 then .ok () else .error .invalidNumber), used + 1)
    | some (buf1, false) =>
      match bcdNibble buf1 (b % 16) with
      | none => (.error .invalidNumber, used + 1)
      | some (buf2, true) => ((if f64Accepts buf2 then .ok () else .error .invalidNumber), used + 1)
      | some (buf2, false) => bcdLoop rest buf2 (used + 1)

inductive Tok where
  | operand (s : Slot)
  | operator (ext : Bool) (b : Nat)
  deriving Repr, DecidableEq

def toI16 (v : Nat) : Int := if v < 32768 then v else (v : Int) - 65536
def toI32 (v : Nat) : Int := if v < 2147483648 then v else (v : Int) - 4294967296

/-- opcodes `Operator::from_opcode` knows -/
def knownOp (b : Nat) : Bool := b ≤ 11 || (13 ≤ b && b ≤ 24)
/-- opcodes `Operator::from_extended_opcode` knows -/
def knownExtOp (b : Nat) : Bool := b ≤ 14 || (17 ≤ b && b ≤ 23) || (30 ≤ b && b ≤ 38)

/-- `parse_token(cursor)`: result and the new cursor -/
def parseToken (d : List Nat) (c : Cur) : Except DErr Tok × Cur :=
  match c.read d 1 with
  | (none, c1) => (.error .oob, c1)
  | (some b0, c1) =>
    if b0 = 12 then
      match c1.read d 1 with
      | (none, c2) => (.error .oob, c2)
      | (some b1, c2) => (if knownExtOp b1 then .ok (.operator true b1) else .error (.invalidOperator b1), c2)
    else if b0 = 28 then
      match c1.read d 2 with
      | (none, c2) => (.error .oob, c2)
      | (some v, c2) => (.ok (.operand (.int (toI16 v))), c2)
    else if b0 = 29 then
      match c1.read d 4 with
      | (none, c2) => (.error .oob, c2)
      | (some v, c2) => (.ok (.operand (.int (toI32 v))), c2)
    else if b0 = 30 then
      let r := bcdLoop (d.drop c1.pos) [] 0
      let c2 := c1.advanceBy r.2
      match r.1 with
      | .ok () => (.ok (.operand .fixed), c2)
      | .error e => (.error e, c2)
    else if 32 ≤ b0 ∧ b0 ≤ 246 then (.ok (.operand (.int ((b0 : Int) - 139))), c1)
    else if 247 ≤ b0 ∧ b0 ≤ 250 then
      match c1.read d 1 with
      | (none, c2) => (.error .oob, c2)
      | (some b1, c2) => (.ok (.operand (.int (((b0 : Int) - 247) * 256 + b1 + 108))), c2)
    else if 251 ≤ b0 ∧ b0 ≤ 254 then
      match c1.read d 1 with
      | (none, c2) => (.error .oob, c2)
      | (some b1, c2) => (.ok (.operand (.int (-((b0 : Int) - 251) * 256 - b1 - 108))), c2)
    else (if knownOp b0 then .ok (.operator false b0) else .error (.invalidOperator b0), c1)

/-! ## DICT entries (`entries`, `parse_entry`) with `blend_state = None` -/

/-- how `parse_entry` consumes the stack for an operator -/
inductive EKind where
  | sid | i32 | usize | u32 | bool | fixed | none
  | bbox (n : Nat)      -- `get_fixed(0..n)`
  | privRange
  | blues
  | snaps
  | ros
  | blendOrVsindex
  deriving Repr, DecidableEq

/-- operator → (Debug name of the `Entry` variant, stack use) -/
def opInfo (ext : Bool) (b : Nat) : String × EKind :=
  if !ext then
    match b with
    | 0 => ("Version", .sid) | 1 => ("Notice", .sid) | 2 => ("FullName", .sid)
    | 3 => ("FamilyName", .sid) | 4 => ("Weight", .sid) | 5 => ("FontBbox", .bbox 4)
    | 13 => ("UniqueId", .i32) | 14 => ("Xuid", .none) | 15 => ("Charset", .usize)
    | 16 => ("Encoding", .usize) | 17 => ("CharstringsOffset", .usize)
    | 18 => ("PrivateDictRange", .privRange) | 24 => ("VariationStoreOffset", .usize)
    | 6 => ("BlueValues", .blues) | 7 => ("OtherBlues", .blues) | 8 => ("FamilyBlues", .blues)
    | 9 => ("FamilyOtherBlues", .blues) | 10 => ("StdHw", .fixed) | 11 => ("StdVw", .fixed)
    | 19 => ("SubrsOffset", .usize) | 20 => ("DefaultWidthX", .fixed) | 21 => ("NominalWidthX", .fixed)
    | 22 => ("VariationStoreIndex", .blendOrVsindex) | 23 => ("Blend", .blendOrVsindex)
    | _ => ("?", .none)
  else
    match b with
    | 0 => ("Copyright", .sid) | 1 => ("IsFixedPitch", .bool) | 2 => ("ItalicAngle", .fixed)
    | 3 => ("UnderlinePosition", .fixed) | 4 => ("UnderlineThickness", .fixed) | 5 => ("PaintType", .i32)
    | 6 => ("CharstringType", .i32) | 7 => ("FontMatrix", .bbox 6) | 8 => ("StrokeWidth", .fixed)
    | 20 => ("SyntheticBase", .i32) | 21 => ("PostScript", .sid) | 22 => ("BaseFontName", .sid)
    | 23 => ("BaseFontBlend", .none) | 30 => ("Ros", .ros) | 31 => ("CidFontVersion", .fixed)
    | 32 => ("CidFontRevision", .fixed) | 33 => ("CidFontType", .i32) | 34 => ("CidCount", .u32)
    | 35 => ("UidBase", .i32) | 36 => ("FdArrayOffset", .usize) | 37 => ("FdSelectOffset", .usize)
    | 38 => ("FontName", .sid) | 9 => ("BlueScale", .fixed) | 10 => ("BlueShift", .fixed)
    | 11 => ("BlueFuzz", .fixed) | 12 => ("StemSnapH", .snaps) | 13 => ("StemSnapV", .snaps)
    | 14 => ("ForceBold", .bool) | 17 => ("LanguageGroup", .i32) | 18 => ("ExpansionFactor", .fixed)
    | 19 => ("InitialRandomSeed", .i32) | _ => ("?", .none)

/-- an entry as the harness renders it -/
inductive ER where
  | ok (s : String)
  | err (e : DErr)
  | trap
  deriving Repr, DecidableEq

def asU16 (v : Int) : Nat := (v % 65536).toNat
def asU32 (v : Int) : Nat := (v % 4294967296).toNat
/-- `i32 as usize` (sign extension to 64 bits) -/
def asUsize (v : Int) : Nat := (v % 18446744073709551616).toNat

def liftS {α : Type} (r : SR α) (k : α → ER) : ER :=
  match r with
  | .ok a => k a
  | .err e => .err (.stack e)
  | .trap => .trap

/-- `parse_entry(op, &mut stack)` (the caller clears the stack afterwards) -/
def parseEntry (name : String) (k : EKind) (st : Stack) : ER :=
  match k with
  | .sid => liftS st.popI32.1 (fun v => .ok s!"{name}:{asU16 v}")
  | .i32 => liftS st.popI32.1 (fun v => .ok s!"{name}:{v}")
  | .usize => liftS st.popI32.1 (fun v => .ok s!"{name}:{asUsize v}")
  | .u32 => liftS st.popI32.1 (fun v => .ok s!"{name}:{asU32 v}")
  | .bool => liftS st.popI32.1 (fun v => .ok s!"{name}:{if v ≠ 0 then 1 else 0}")
  | .fixed => liftS st.popFixed.1 (fun _ => .ok name)
  | .none => .ok name
  | .bbox n =>
    -- `get_fixed(i)` only fails for `i ≥ 513`
    if n ≤ st.slots.length then .ok name else .err (.stack (.invalidAccess st.slots.length))
  | .privRange =>
    liftS (st.getI32 0) (fun len =>
      liftS (st.getI32 1) (fun start =>
        match HandRead.checkedAdd (asUsize start) (asUsize len) with
        | none => .err .oob
        | some e => .ok s!"{name}:{asUsize start}:{e}"))
  | .blues =>
    match bluesNew st.top with
    | some len => .ok s!"{name}:{len}"
    | none => .trap
  | .snaps => .ok s!"{name}:{stemSnapsNew st.top}"
  | .ros =>
    liftS (st.getI32 0) (fun reg =>
      liftS (st.getI32 1) (fun ord =>
        liftS (st.getFixed 2) (fun _ => .ok s!"Ros:{asU16 reg}:{asU16 ord}")))
  | .blendOrVsindex => .err .missingBlendState

structure DSt where
  c : Cur
  st : Stack
  deriving Repr, DecidableEq

/-- one trip round the `loop` of the `entries` closure (= one token) -/
def dictStep (d : List Nat) (s : DSt) : Out ER × DSt :=
  -- `tokens`: `if cursor.remaining_bytes() == 0 { None }`
  if s.c.remainingBytes d = 0 then (.done, s)
  else
    match parseToken d s.c with
    | (.error e, c') => (.yield (.err e), { s with c := c' })
    | (.ok (.operand x), c') =>
      match s.st.push x with
      | .ok st' => (.cont, { c := c', st := st' })
      | .err e => (.yield (.err (.stack e)), { s with c := c' })
      | .trap => (.trap, { s with c := c' })
    | (.ok (.operator ext b), c') =>
      let info := opInfo ext b
      if info.2 = .blendOrVsindex then (.yield (.err .missingBlendState), { s with c := c' })
      else
        -- the array operators run `apply_delta_prefix_sum` first
        let st1 := if info.2 = .blues ∨ info.2 = .snaps then s.st.prefixSum else s.st
        match parseEntry info.1 info.2 st1 with
        | .trap => (.trap, { c := c', st := st1.clear })
        | r => (.yield r, { c := c', st := st1.clear })

/-- `dict::entries(data, None).collect()` -/
def dictTrace (d : List Nat) : Option (List (Out ER)) :=
  run (dictStep d) (d.length + 1) ⟨Cur.init, Stack.new⟩

/-! ## charset -/

/-- `string_id_from_ranges(ranges, glyph_id)`; ranges are `(first, n_left)`; `none` = `Err` -/
def sidFromRanges : List (Nat × Nat) → Nat → Nat → Option Nat
  | [], _, _ => none
  | (first, nLeft) :: rest, gid, e =>
    let nextEnd := e + (nLeft + 1)
    if nextEnd ≥ 4294967296 then none
    else if gid < nextEnd then
      let sid := (gid - e) + first
      if sid < 4294967296 ∧ sid < 65536 then some sid else none
    else sidFromRanges rest gid nextEnd

inductive CharsetK where
  | f0 (sids : List Nat)
  | ranges (rs : List (Nat × Nat))
  deriving Repr, DecidableEq

/-- `Charset::string_id(gid)` for a custom charset -/
def charsetSid (k : CharsetK) (numGlyphs gid : Nat) : Option Nat :=
  if gid ≥ numGlyphs then none
  else match k with
    | .f0 sids => if gid = 0 then some 0 else sids[gid - 1]?
    | .ranges rs => if gid = 0 then some 0 else sidFromRanges rs (gid - 1) 0

/-- `RangeIter` state -/
structure RSt where
  ranges : List (Nat × Nat)
  gid : Nat
  first : Nat
  end_ : Nat
  prevEnd : Nat
  deriving Repr, DecidableEq

/-- `RangeIter::new` -/
def rangeInit (rs : List (Nat × Nat)) : RSt :=
  match rs with
  | [] => { ranges := [], gid := 0, first := 0, end_ := 0, prevEnd := 0 }
  | (f, n) :: rest => { ranges := rest, gid := 0, first := f, end_ := n + 1, prevEnd := 0 }

/-- the `while gid >= self.end` loop: `none` = the `?` on `next_range` / `checked_add` returned -/
def rangeAdvance : List (Nat × Nat) → Nat → Nat → Nat → Nat → Option (List (Nat × Nat) × Nat × Nat × Nat)
  | rs, gid, first, e, prevEnd =>
    if gid < e then some (rs, first, e, prevEnd)
    else match rs with
      | [] => none
      | (f, n) :: rest =>
        if e + (n + 1) ≥ 4294967296 then none
        else rangeAdvance rest gid f (e + (n + 1)) e
termination_by rs => rs.length

/-- `RangeIter::next` (one call); items are `(gid, sid)` -/
def rangeNext (numGlyphs : Nat) (s : RSt) : Out (Nat × Nat) × RSt :=
  if s.gid ≥ numGlyphs then (.done, s)
  else if s.gid = 0 then (.yield (0, 0), { s with gid := 1 })
  else
    let gid := s.gid - 1
    if s.gid + 1 ≥ 4294967296 then (.done, s)
    else
      let s1 := { s with gid := s.gid + 1 }
      match rangeAdvance s.ranges gid s.first s.end_ s.prevEnd with
      | none => (.done, { s1 with ranges := [] })
      | some (rs, first, e, prevEnd) =>
        let s2 := { s1 with ranges := rs, first := first, end_ := e, prevEnd := prevEnd }
        if gid < prevEnd then (.done, s2)
        else
          let sid := first + (gid - prevEnd)
          if sid < 4294967296 ∧ sid < 65536 then (.yield (gid + 1, sid), s2) else (.done, s2)

/-- `Iter::Simple` for a format 0 charset: state = `cur` -/
def simpleNext (sids : List Nat) (numGlyphs : Nat) (cur : Nat) : Out (Nat × Nat) × Nat :=
  match charsetSid (.f0 sids) numGlyphs cur with
  | none => (.done, cur)
  | some sid => if cur + 1 ≥ 4294967296 then (.done, cur) else (.yield (cur, sid), cur + 1)

/-- `charset.iter().collect()`; fuel `numGlyphs + 1` always suffices -/
def charsetTrace (k : CharsetK) (numGlyphs : Nat) : Option (List (Out (Nat × Nat))) :=
  match k with
  | .f0 sids => run (simpleNext sids numGlyphs) (numGlyphs + 1) 0
  | .ranges rs => run (rangeNext numGlyphs) (numGlyphs + 1) (rangeInit rs)

/-! ## FDSelect, AAT lookups: binary searches over `first` keys

`<[T]>::binary_search_by(|r| r.first.cmp(&gid))` on keys that are strictly increasing returns
`Ok(i)` for the `i` with `first[i] = gid`, else `Err(k)`, `k` = number of keys below `gid`.  The code
then uses `Ok(i) → i`, `Err(k) → k.saturating_sub(1)`: in both cases the index of the last key
`≤ gid`, or 0.  (For unsorted keys the result of the search is unspecified by `std`; only the
no-panic oracle applies then.) -/

/-- number of leading keys `≤ gid` minus one, saturating: the index both branches produce -/
def lastLe (keys : List Nat) (gid : Nat) : Nat := (keys.filter (· ≤ gid)).length - 1

/-- `FdSelect::font_index` formats 3 / 4 over `(first, fd)` ranges -/
def fdSelectRanges (rs : List (Nat × Nat)) (gid : Nat) : Option Nat :=
  (rs[lastLe (rs.map (·.1)) gid]?).map (·.2)

/-- format 0: `fds.get(gid)` -/
def fdSelect0 (fds : List Nat) (gid : Nat) : Option Nat := fds[gid]?

/-- AAT `Lookup2::value` over `(last, first, value)` segments with strictly increasing `first` -/
def lookup2 (segs : List (Nat × Nat × Nat)) (g : Nat) : Option Nat :=
  match segs[lastLe (segs.map (·.2.1)) g]? with
  | none => none
  | some (last, first, v) => if first ≤ g ∧ g ≤ last then some v else none

/-- AAT `Lookup4::value`: segments `(last, first, value_offset)`; the value is read at
`value_offset + (g - first) * size` of the table data -/
def lookup4 (d : List Nat) (segs : List (Nat × Nat × Nat)) (g size : Nat) : Option Nat :=
  match segs[lastLe (segs.map (·.2.1)) g]? with
  | none => none
  | some (last, first, off) =>
    if first ≤ g ∧ g ≤ last then readAt d (off + (g - first) * size) size else none

/-- AAT `Lookup6::value`: exact match on strictly increasing glyph keys -/
def lookup6 (es : List (Nat × Nat)) (g : Nat) : Option Nat :=
  (es.find? (·.1 = g)).map (·.2)

/-- AAT `Lookup0::value`: `values[g]` over `data_len / size` whole elements -/
def lookup0 (values : List Nat) (size g : Nat) : Option Nat :=
  if g < values.length / size then some (beAt values (g * size) size) else none

/-- AAT `Lookup8::value`: `g.checked_sub(first)`, `value_array.get(ix)` -/
def lookup8 (first : Nat) (vals : List Nat) (g : Nat) : Option Nat :=
  if g < first then none else vals[g - first]?

/-- AAT `Lookup10::value`: `g.checked_sub(first)`, cursor `advance_by(ix * unit_size)`, read
`unit_size ∈ {1,2,4}` bytes (`none` = `Err`: out of bounds or invalid unit size) -/
def lookup10 (first unitSize : Nat) (vals : List Nat) (g : Nat) : Option Nat :=
  if g < first then none
  else if unitSize = 1 ∨ unitSize = 2 ∨ unitSize = 4 then readAt vals ((g - first) * unitSize) unitSize
  else none

/-! ## traversal of a computed-size record array (`read-fonts/src/traversal.rs`)

`impl SomeArray for ComputedArrayOfRecords`: `get(idx)` returns `None` for `idx >= self.array.len()`
and otherwise `self.array.get(idx).ok()`; the array printer (`DebugPrintArray`:
`while let Some(item) = self.0.get(idx) { idx += 1; … }`) and `SomeArray::iter` (`ArrayIter::next`)
walk until the first `None`. -/

/-- `<ComputedArrayOfRecords as SomeArray>::get` -/
def travGet (dataLen itemLen idx : Nat) : Option Nat :=
  if idx ≥ compLen dataLen itemLen then none else compGet dataLen itemLen idx

/-- one trip of the printer loop / one `ArrayIter::next`; the state is `idx` -/
def travStep (dataLen itemLen idx : Nat) : Out Nat × Nat :=
  match travGet dataLen itemLen idx with
  | none => (.done, idx)
  | some off => (.yield off, idx + 1)

/-- the whole walk -/
def travTrace (dataLen itemLen : Nat) : Option (List (Out Nat)) :=
  run (travStep dataLen itemLen) (compLen dataLen itemLen + 1) 0

/-! ## the depth / node budget of the Debug printer (`read-fonts/src/traversal.rs` `DebugGuard`)

`DEBUG_STATE: thread_local Cell<(depth, nodes)>`.  `DebugGuard::enter`: a call at `depth == 0` is a
top-level call and starts with a fresh node count; `None` (printed as `..`, state untouched) when
`depth >= MAX_DEBUG_DEPTH` or `nodes >= MAX_DEBUG_NODES`; otherwise `(depth + 1, nodes + 1)`.
`Drop`: `depth - 1` (saturating), `nodes` unchanged.  A table / array is printed by entering, printing
its children in order, leaving. -/

def MAX_DEBUG_DEPTH : Nat := 64
def MAX_DEBUG_NODES : Nat := 1048576

/-- the thread-local state -/
structure DbgSt where
  depth : Nat
  nodes : Nat
  deriving Repr, DecidableEq

/-- `DebugGuard::enter`: `(entered?, new state)` -/
def dbgEnter (s : DbgSt) : Bool × DbgSt :=
  let nodes := if s.depth = 0 then 0 else s.nodes
  if s.depth ≥ MAX_DEBUG_DEPTH ∨ nodes ≥ MAX_DEBUG_NODES then (false, s)
  else (true, ⟨s.depth + 1, nodes + 1⟩)

/-- `Drop for DebugGuard` -/
def dbgLeave (s : DbgSt) : DbgSt := ⟨s.depth - 1, s.nodes⟩

/-- what is printed: the tree of tables / arrays reachable through offsets (shared targets appear once
per path) -/
inductive DTree where
  | node (kids : List DTree)

mutual
/-- `DebugPrintTable::fmt` / `DebugPrintArray::fmt`: the output is the pre-order list of
"printed in full" (`true`) / "printed as `..`" (`false`) marks -/
def dbgPrint (s : DbgSt) : DTree → DbgSt × List Bool
  | .node kids =>
    match dbgEnter s with
    | (false, s') => (s', [false])
    | (true, s') =>
      let r := dbgPrintAll s' kids
      (dbgLeave r.1, true :: r.2)
def dbgPrintAll (s : DbgSt) : List DTree → DbgSt × List Bool
  | [] => (s, [])
  | t :: ts =>
    let r := dbgPrint s t
    let r2 := dbgPrintAll r.1 ts
    (r2.1, r.2 ++ r2.2)
end

/-- a sequence of top-level `{:?}` calls on one thread: the outputs, in order -/
def dbgCalls : DbgSt → List DTree → DbgSt × List (List Bool)
  | s, [] => (s, [])
  | s, t :: ts =>
    let r := dbgPrint s t
    let r2 := dbgCalls r.1 ts
    (r2.1, r.2 :: r2.2)

end FontVerif.HandIter
