/-
Models of `MarkToMarkBuilder` and `MarkToLigBuilder` (write-fonts/src/tables/gpos/builders.rs).

`MarkToMarkBuilder { attaching_marks: MarkList, base_marks: BTreeMap<GlyphId16, Vec<(u16, AnchorBuilder)>> }`
is the SAME code as `MarkToBaseBuilder` (`insert_mark1` = `MarkList::insert`, `insert_mark2` =
`get_class` + `entry(glyph).or_default().push`, `build` = `MarkList::build` + `vec![None; n_classes]`
rows with `anchor_offsets[class] = Some(..)`), so its model IS the `MarkToBase` model of
Model/LayoutLookup.lean under other names.

`MarkToLigBuilder { marks: MarkList, ligatures: BTreeMap<GlyphId16, Vec<BTreeMap<String, AnchorBuilder>>> }`
keeps, per ligature glyph and per component, a map from mark class NAME to anchor; names become class
ids only in `build` (`marks.get_class(&class)`, a panic for a name no mark uses).  Class names are
numbers, panics are `none`.
-/
import FontVerif.Model.LayoutLookup
namespace FontVerif.Layout

/-! ## `MarkToMarkBuilder` -/

abbrev MarkToMark (A : Type) := MarkToBase A

/-- `insert_mark1` -/
def MarkToMark.insertMark1 {A : Type} (b : MarkToMark A) (g name : Nat) (a : A) : MarkToMark A :=
  MarkToBase.insertMark b g name a

/-- `insert_mark2` -/
def MarkToMark.insertMark2 {A : Type} (b : MarkToMark A) (g name : Nat) (a : A) : Option (MarkToMark A) :=
  MarkToBase.insertBase b g name a

/-- `MarkToMarkBuilder::build`: a MarkMarkPos format 1 subtable has the shape of a MarkBasePos one
(mark1 coverage / mark2 coverage / class count / mark1 array / mark2 array) -/
def MarkToMark.build {A : Type} (b : MarkToMark A) : Option (MarkBase A) := MarkToBase.build b

/-! ## `MarkToLigBuilder` -/

structure MarkToLig (A : Type) where
  marks : MarkList A
  /-- ligature glyph → components → (class name → anchor), both maps in key order -/
  ligatures : List (Nat × List (List (Nat × A)))

def MarkToLig.empty {A : Type} : MarkToLig A := ⟨⟨[], []⟩, []⟩

/-- `insert_mark` -/
def MarkToLig.insertMark {A : Type} (b : MarkToLig A) (g name : Nat) (a : A) : MarkToLig A :=
  { b with marks := (b.marks.insert g name a).1 }

/-- `add_ligature_components_directly`: `self.ligatures.insert(glyph, components)` (replaces) -/
def MarkToLig.addDirectly {A : Type} (b : MarkToLig A) (g : Nat) (comps : List (List (Nat × A))) : MarkToLig A :=
  { b with ligatures := bmInsert g comps b.ligatures }

/-- the loop of `insert_ligature`: `if let Some(anchor) = anchor { component_list[i].insert(class, anchor) }`
(an index beyond the component list panics) -/
def ligInsertGo {A : Type} (name : Nat) : Nat → List (Option A) → List (List (Nat × A)) →
    Option (List (List (Nat × A)))
  | _, [], cl => some cl
  | i, none :: rest, cl => ligInsertGo name (i + 1) rest cl
  | i, some a :: rest, cl =>
    match cl[i]? with
    | none => none
    | some m => ligInsertGo name (i + 1) rest (cl.set i (bmInsert name a m))

/-- `insert_ligature(glyph, class, components)`: an empty (new) component list is resized to the
number of components given; a different length is only a warning -/
def MarkToLig.insertLigature {A : Type} (b : MarkToLig A) (g name : Nat) (comps : List (Option A)) :
    Option (MarkToLig A) :=
  let cl := (bmGet g b.ligatures).getD []
  let cl := if cl.isEmpty then List.replicate comps.length [] else cl
  match ligInsertGo name 0 comps cl with
  | none => none
  | some cl' => some { b with ligatures := bmInsert g cl' b.ligatures }

/-- one `ComponentRecord`: `for (class, anchor) in anchors { let class_idx = marks.get_class(&class);
anchor_offsets[class_idx] = Some(anchor) }` -/
def componentRecord {A : Type} (classes : List (Nat × Nat)) (n : Nat) (anchors : List (Nat × A)) :
    Option (List (Option A)) :=
  setMany (fun e => (classId classes e.1).map (fun idx => (idx, some e.2))) anchors (List.replicate n none)

/-- a compiled MarkLigPos format 1 subtable -/
structure MarkLig (A : Type) where
  markCov : Coverage
  ligCov : Coverage
  classCount : Nat
  marks : List (Nat × A)
  /-- `ligature_array`: per ligature coverage index, per component, one optional anchor per class -/
  ligs : List (List (List (Option A)))

/-- `MarkToLigBuilder::build` -/
def MarkToLig.build {A : Type} (b : MarkToLig A) : Option (MarkLig A) :=
  let n := b.marks.classes.length
  match mapOpt (fun e => mapOpt (componentRecord b.marks.classes n) e.2) b.ligatures with
  | none => none
  | some ligs =>
    some ⟨buildCoverage (b.marks.glyphs.map (·.1)), buildCoverage (b.ligatures.map (·.1)), n,
      b.marks.glyphs.map (·.2), ligs⟩

/-- reference lookup (HarfBuzz `MarkLigPosFormat1::apply`): mark and ligature covered, the component
index selects the component record, the mark's class the anchor; a null anchor is no match -/
def MarkLig.lookup {A : Type} (t : MarkLig A) (m l comp : Nat) : Option (A × A) :=
  match t.markCov.get m, t.ligCov.get l with
  | some mi, some li =>
    match t.marks[mi]?, t.ligs[li]? with
    | some (cls, am), some comps =>
      match comps[comp]? with
      | some row =>
        match row[cls]? with
        | some (some al) => some (am, al)
        | _ => none
      | none => none
    | _, _ => none
  | _, _ => none

/-- one builder call -/
inductive MlOp (A : Type) where
  | mark (g name : Nat) (a : A)
  | lig (g name : Nat) (comps : List (Option A))
  | direct (g : Nat) (comps : List (List (Nat × A)))

def MarkToLig.apply {A : Type} (b : MarkToLig A) : MlOp A → Option (MarkToLig A)
  | .mark g n a => some (b.insertMark g n a)
  | .lig g n cs => b.insertLigature g n cs
  | .direct g cs => some (b.addDirectly g cs)

def MarkToLig.ofOps {A : Type} : List (MlOp A) → MarkToLig A → Option (MarkToLig A)
  | [], b => some b
  | op :: ops, b =>
    match b.apply op with
    | none => none
    | some b' => MarkToLig.ofOps ops b'

end FontVerif.Layout
