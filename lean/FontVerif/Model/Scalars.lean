/-
The remaining scalar types of font-types: comparison (`Ord` / `PartialOrd`) of the native types
and of `BigEndian<T>` (raw.rs), `Int24` / `Uint24` checked constructors, `Version16Dot16`,
`MajorMinor`, `FWord` / `UfWord`, offsets, `GlyphId16 ↔ GlyphId`, `Tag`, `NameId`.
Values are plain `Int`s in the type's range, byte strings are `List Int` (each `0 … 255`).
-/
import FontVerif.Model.Base
import FontVerif.Model.Fixed
namespace FontVerif.Scalars
open FontVerif FontVerif.Fixed

/-! ### ordering -/

/-- `Ord::cmp` of the primitive integers (and, through `#[derive(PartialOrd, Ord)]` on a
one-field tuple struct, of `FWord`, `UfWord`, `Int24`, `Uint24`, `Fixed`, `F2Dot14`, `F4Dot12`,
`F6Dot10`, `F26Dot6`, `LongDateTime`, `Version16Dot16`, `GlyphId16`, `GlyphId`, `NameId`,
`Offset16/24/32`): comparison of the inner integer. -/
def cmpInt (a b : Int) : Ordering := if a < b then .lt else if a = b then .eq else .gt

/-- `Ord` of arrays / slices and of derived structs: lexicographic, a strict prefix is less. -/
def lexCmp : List Int → List Int → Ordering
  | [], [] => .eq
  | [], _ :: _ => .lt
  | _ :: _, [] => .gt
  | a :: as, b :: bs => if a < b then .lt else if a = b then lexCmp as bs else .gt

/-- the scalar kinds by their `Scalar::from_raw`. -/
inductive Kind where
  /-- `u8/u16/u32` and the newtypes over them (`UfWord`, `GlyphId16`, `NameId`, `Offset16/32`,
  `Version16Dot16`), `n` bytes -/
  | u (n : Nat)
  /-- `i8/i16/i32/i64` and the newtypes over them (`FWord`, `F2Dot14`, `F4Dot12`, `F6Dot10`,
  `Fixed`, `LongDateTime`), `n` bytes -/
  | s (n : Nat)
  | i24
  /-- `Uint24`, `Offset24` -/
  | u24
  /-- `Tag`: the four bytes themselves -/
  | tag
  /-- `MajorMinor { major, minor }` -/
  | mm

/-- `T::from_raw(bytes)` as the list of fields that `T`'s derived `Ord` compares in order. -/
def key : Kind → List Int → List Int
  | .u _, bs => [fromBeU bs]
  | .s n, bs => [fromBeS n bs]
  | .i24, [b0, b1, b2] => [int24FromBe b0 b1 b2]
  | .u24, [b0, b1, b2] => [uint24FromBe b0 b1 b2]
  | .tag, bs => bs
  | .mm, [b0, b1, b2, b3] => [fromBeU [b0, b1], fromBeU [b2, b3]]
  | _, _ => []

/-- `impl Ord for BigEndian<T>`: `self.get().cmp(&other.get())`. -/
def beCmp (k : Kind) (a b : List Int) : Ordering := lexCmp (key k a) (key k b)

/-- `impl PartialOrd for BigEndian<T>`: `self.get().partial_cmp(&other.get())`; every `T` here has
a total order, its (derived) `partial_cmp` is `Some(cmp)`. -/
def bePartialCmp (k : Kind) (a b : List Int) : Option Ordering := some (beCmp k a b)

/-- derived `PartialEq` of `BigEndian<T>`: equality of the raw bytes. -/
def beEq (a b : List Int) : Bool := decide (a = b)

/-- `impl PartialEq<T> for BigEndian<T>`: `self.get() == *other` (on decoded keys). -/
def beEqValue (k : Kind) (a : List Int) (v : List Int) : Bool := decide (key k a = v)

/-- cross-type `PartialOrd<GlyphId16> for GlyphId` and vice versa: `Some(u32 cmp)`. -/
def gidCrossCmp (a b : Int) : Option Ordering := some (cmpInt a b)

def showOrd : Ordering → String
  | .lt => "lt"
  | .eq => "eq"
  | .gt => "gt"

/-! ### Int24 / Uint24 -/

/-- `Int24::checked_new`. -/
def int24Checked (raw : Int) : Option Int :=
  if raw > 8388607 ∨ raw < -8388608 then none else some raw

/-- `Uint24::checked_new`. -/
def uint24Checked (raw : Int) : Option Int := if raw > 16777215 then none else some raw

/-- `impl TryFrom<usize> for Uint24`: `u32::try_from(value)` then `checked_new`. -/
def uint24TryFromUsize (v : Int) : Option Int :=
  if v > 4294967295 then none else uint24Checked v

/-! ### Version16Dot16, MajorMinor -/

/-- `Version16Dot16::new`: `assert!(minor < 10)`; `((major as u32) << 16) | ((minor as u32) << 12)`
(the two bit ranges are disjoint because `minor < 10`, so `|` is `+`).  `none` = panic. -/
def versionNew (major minor : Int) : Option Int :=
  if minor < 10 then some (major * 65536 + minor * 4096) else none

/-- `to_major_minor`: `((self.0 >> 16) as u16, ((self.0 & 0xFFFF) >> 12) as u16)`. -/
def versionToMajorMinor (v : Int) : Int × Int := (v / 65536 % 65536, v % 65536 / 4096)

/-- `impl Compatible for Version16Dot16`. -/
def versionCompatible (a b : Int) : Bool :=
  let x := versionToMajorMinor a
  let y := versionToMajorMinor b
  decide (x.1 = y.1) && decide (x.2 ≥ y.2)

/-- `impl Compatible<(u16, u16)> for Version16Dot16`: goes through `Version16Dot16::new`, so it
panics for `minor ≥ 10`. -/
def versionCompatiblePair (a major minor : Int) : Option Bool :=
  (versionNew major minor).map (versionCompatible a)

/-- `impl Compatible for MajorMinor` (and for `(u16, u16)` through `MajorMinor::new`). -/
def mmCompatible (aMajor aMinor bMajor bMinor : Int) : Bool :=
  decide (aMajor = bMajor) && decide (aMinor ≥ bMinor)

/-- `impl Compatible for u16`. -/
def u16Compatible (a b : Int) : Bool := decide (a ≥ b)

/-- `MajorMinor::to_be_bytes` / `Scalar::from_raw`. -/
def mmToBe (major minor : Int) : List Int := toBeU 2 major ++ toBeU 2 minor
def mmFromRaw (b0 b1 b2 b3 : Int) : Int × Int := (fromBeU [b0, b1], fromBeU [b2, b3])

/-! ### FWord / UfWord -/

/-- `FWord::to_fixed` / `UfWord::to_fixed`: `Fixed::from_i32(self.0 as i32)`. -/
def fwordToFixed (v : Int) : Int := fromI32 v

/-! ### offsets -/

/-- `Offset16/24/32::is_null`: `self.to_u32() == 0`; `Nullable<T>::is_null`: `self.0 == 0`. -/
def offsetIsNull (v : Int) : Bool := decide (v = 0)

/-! ### glyph ids -/

/-- `impl TryFrom<GlyphId> for GlyphId16`: `u16::try_from(value.0)`, error carries the value. -/
def gid16TryFrom (v : Int) : Except Int Int := if v ≤ 65535 then .ok v else .error v

/-! ### Tag -/

inductive TagErr where
  | len (n : Nat)
  | byte (pos : Nat) (b : Int)
  | after (pos : Nat)
  deriving DecidableEq, Repr

/-- the `while` loop of `Tag::new_checked`. -/
def checkedGo : List Int → Nat → Bool → Except TagErr (List Int)
  | [], _, _ => .ok []
  | b :: rest, i, seen =>
    if b = 32 ∧ i = 0 then .error (.byte i b)
    else if b ≤ 31 ∨ b ≥ 127 then .error (.byte i b)
    else if (33 ≤ b ∧ b ≤ 126) ∧ seen then .error (.byte i b)
    else
      match checkedGo rest (i + 1) (seen || decide (b = 32)) with
      | .ok l => .ok (b :: l)
      | .error e => .error e

/-- `Tag::new_checked`: 1 to 4 bytes, padded with spaces. -/
def tagNewChecked (src : List Int) : Except TagErr (List Int) :=
  if src.isEmpty ∨ src.length > 4 then .error (.len src.length) else
  match checkedGo src 0 false with
  | .ok l => .ok (l ++ List.replicate (4 - l.length) 32)
  | .error e => .error e

/-- the `for` loop of `Tag::validate`. -/
def validateGo : List Int → Nat → Bool → Except TagErr Unit
  | [], _, _ => .ok ()
  | b :: rest, i, seen =>
    if b = 32 ∧ i = 0 then .error (.byte i b)
    else if b = 32 then validateGo rest (i + 1) true
    else if b ≤ 31 ∨ b ≥ 127 then .error (.byte i b)
    else if (33 ≤ b ∧ b ≤ 126) ∧ seen then .error (.after i)
    else validateGo rest (i + 1) seen

/-- `Tag::validate` (four bytes). -/
def tagValidate (bs : List Int) : Except TagErr Unit :=
  if bs = [32, 32, 32, 32] then .error (.len 0) else validateGo bs 0 false

/-- `Tag::from_u32` = `from_be_bytes(src.to_be_bytes())`. -/
def tagFromU32 (v : Int) : List Int := toBeU 4 v

def showTagErr : TagErr → String
  | .len n => s!"err:len {n}"
  | .byte p b => s!"err:byte {p} {b}"
  | .after p => s!"err:after {p}"

/-! ### NameId -/

/-- `NameId::is_reserved`. -/
def nameIdIsReserved (v : Int) : Bool := decide (v ≤ 255)

/-- `NameId::checked_add`: `self.0.saturating_add(rhs)`, `None` beyond `LAST_ALLOWED_NAME_ID`. -/
def nameIdCheckedAdd (a b : Int) : Option Int :=
  let r := if a + b > 65535 then 65535 else a + b
  if r > 32767 then none else some r

end FontVerif.Scalars
