/-
Model/EdgeRing.lean — the ring of segments of ONE autohinter edge (skrifa autohint/topo): `edge_next_ix` of every
segment as a function `next : Nat → Option Nat`, the edge's `first_ix` / `last_ix`, and — ghost — the list of the
segments appended so far, newest first (`ms.head = last_ix`, `ms.getLast = first_ix`).

The three writers:
  * `newEdge seg`  — topo/edges.rs, "We couldn't find an edge": `first_ix = last_ix = segment_ix`,
                     `axis.segments[segment_ix].edge_next_ix = Some(segment_ix)`;
  * `append seg`   — `Axis::append_segment_to_edge` (topo/mod.rs): `edge.last_ix = segment_ix`,
                     `segment.edge_next_ix = Some(first_ix)`, `segments[old last_ix].edge_next_ix = Some(segment_ix)`;
  * `foreign x v`  — the same two code sites acting on ANOTHER edge: they write `edge_next_ix` only of that edge's
                     new segment and of that edge's old last segment, i.e. of a segment `x` that is not in this ring.
-/
namespace FontVerif.EdgeRing

structure Ring where
  next : Nat → Option Nat
  first : Nat
  last : Nat
  ms : List Nat

def upd (f : Nat → Option Nat) (i : Nat) (v : Option Nat) : Nat → Option Nat := fun j => if j = i then v else f j

def newEdge (next : Nat → Option Nat) (seg : Nat) : Ring :=
  ⟨upd next seg (some seg), seg, seg, [seg]⟩

def append (r : Ring) (seg : Nat) : Ring :=
  ⟨upd (upd r.next seg (some r.first)) r.last (some seg), r.first, seg, seg :: r.ms⟩

def foreign (r : Ring) (x : Nat) (v : Option Nat) : Ring := { r with next := upd r.next x v }

inductive Op where
  | append (seg : Nat)
  | foreign (x : Nat) (v : Option Nat)

/-- an operation is admissible when the segment it (re)links is not yet in this ring: every segment index is
appended at most once, and other edges only touch their own segments -/
def Op.ok (r : Ring) : Op → Prop
  | .append seg => seg ∉ r.ms
  | .foreign x _ => x ∉ r.ms

def Op.run (r : Ring) : Op → Ring
  | .append seg => FontVerif.EdgeRing.append r seg
  | .foreign x v => FontVerif.EdgeRing.foreign r x v

/-- the chain, newest first: each older segment links to the next newer one, the oldest is `first` -/
def ChainRev (next : Nat → Option Nat) (first : Nat) : List Nat → Prop
  | [] => False
  | [a] => a = first
  | b :: a :: rest => next a = some b ∧ ChainRev next first (a :: rest)

/-- the ring invariant -/
def RingInv (r : Ring) : Prop :=
  r.ms.Nodup ∧ r.ms.head? = some r.last ∧ ChainRev r.next r.first r.ms ∧ r.next r.last = some r.first

/-- the walks of link_segments_to_edges / compute_edge_properties (topo/edges.rs):
`loop { …; if ix == last_ix { break }; ix = edge_next_ix.unwrap_or(last_ix) }` — `true` iff it breaks within `fuel` -/
def walk (next : Nat → Option Nat) (last : Nat) : Nat → Nat → Bool
  | 0, _ => false
  | fuel + 1, ix => if ix = last then true else walk next last fuel ((next ix).getD last)

/-- the CJK link walk of `compute_edges` (topo/edges.rs:105):
`loop { if let Some(link1) = seg1.link(..) { …; if dist2 >= threshold { break } }
        if seg1.edge_next_ix == Some(first_ix) { break }
        if let Some(next) = seg1.next_in_edge(..) { seg1 = next } else { break } }`
`stop ix` = the data exit at segment `ix`; `valid ix` = `segments.get(ix)` is `Some` (`next_in_edge` returns `None`
for a missing link or an index outside the table).  `true` iff it breaks within `fuel` iterations. -/
def walkCjk (next : Nat → Option Nat) (first : Nat) (stop valid : Nat → Bool) : Nat → Nat → Bool
  | 0, _ => false
  | fuel + 1, ix =>
    if stop ix then true
    else if next ix = some first then true
    else match next ix with
      | some nx => if valid nx then walkCjk next first stop valid fuel nx else true
      | none => true

/-! ### All edges of an axis: one `edge_next_ix` array shared by all rings -/

/-- (first_ix, last_ix, ghost member list) of one edge -/
structure Entry where
  first : Nat
  last : Nat
  ms : List Nat

/-- `axis.edges` (identified by creation order `0 … count-1`; `insert_edge` moves the records around in the Rust
array but each keeps its `first_ix` / `last_ix`), the shared `edge_next_ix` array, and — ghost — the segment indices
linked so far, newest first -/
structure Axis where
  next : Nat → Option Nat
  edge : Nat → Entry
  count : Nat
  linked : List Nat

def Axis.ring (g : Axis) (j : Nat) : Ring := ⟨g.next, (g.edge j).first, (g.edge j).last, (g.edge j).ms⟩

def Axis.empty (next : Nat → Option Nat) : Axis := ⟨next, fun _ => ⟨0, 0, []⟩, 0, []⟩

inductive GOp where
  /-- "we couldn't find an edge": a new edge for segment `seg` -/
  | newEdge (seg : Nat)
  /-- `append_segment_to_edge(seg, k)` -/
  | append (k seg : Nat)

def GOp.seg : GOp → Nat
  | .newEdge seg => seg
  | .append _ seg => seg

def GOp.run (g : Axis) : GOp → Axis
  | .newEdge seg =>
    ⟨upd g.next seg (some seg), fun j => if j = g.count then ⟨seg, seg, [seg]⟩ else g.edge j, g.count + 1, seg :: g.linked⟩
  | .append k seg =>
    let e := g.edge k
    ⟨upd (upd g.next seg (some e.first)) e.last (some seg),
     fun j => if j = k then ⟨e.first, seg, seg :: e.ms⟩ else g.edge j, g.count, seg :: g.linked⟩

/-- an operation of `compute_edges` is admissible when its segment has not been linked before and the edge it
appends to exists -/
def GOp.ok (g : Axis) : GOp → Prop
  | .newEdge seg => seg ∉ g.linked
  | .append k seg => seg ∉ g.linked ∧ k < g.count

/-- all operations of a sequence are admissible when they are reached -/
def AllOk : Axis → List GOp → Prop
  | _, [] => True
  | g, op :: rest => op.ok g ∧ AllOk (op.run g) rest

end FontVerif.EdgeRing
