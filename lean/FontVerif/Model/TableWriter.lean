/-
Model of the bridge between a `FontWrite` value and the packing graph (C04 ⇄ C05):
  write-fonts/src/write.rs    TableWriter { tables, stack, offset_adjustment }, TableWriter::make_graph, add_table,
                              write_slice, write_offset, adjust_offsets, pad_to_2byte_aligned,
                              TableData { type_, bytes, offsets }, TableData::add_offset / write_bytes,
                              `impl PartialEq / Hash for TableData` (bytes + offsets, NOT type_), dump_table
  write-fonts/src/offsets.rs  `FontWrite for OffsetMarker<T, N>` (`write_offset(obj, N)`),
                              `FontWrite for NullableOffsetMarker<T, N>` (`None` ⇒ `write_slice([0u8; N])`, no record)
  write-fonts/src/graph.rs    ObjectStore { objects: HashMap<TableData, ObjectId> }, ObjectStore::add
                              (`*entry(data).or_insert_with(ObjectId::next)`), Graph::from_obj_store

Representation.
* A `FontWrite` value is the sequence of calls its `write_into` makes on the `TableWriter`; that sequence is the value
  tree `Fields` (the task's `Node { fields }`): a byte run (`write_slice`), a null offset of `N` bytes, a non-null
  offset of nominal width `N` to a child table (its `table_type()` and its own fields), a block run under
  `adjust_offsets(adj, |w| …)`, `pad_to_2byte_aligned`.
* The `stack: Vec<TableData>` is the recursion of `writeFields` (`add_table` pushes a fresh `TableData`, runs the child's
  `write_into`, pops it); `offset_adjustment` is *writer-global* state exactly as in the Rust: it is NOT saved per stack
  level, so a child written inside an `adjust_offsets` block records its own offsets with the parent's adjustment, and a
  nested `adjust_offsets` resets it to 0 for the remainder of the enclosing block (`adjAfter`).
* `ObjectStore` is an association list in insertion order; a lookup compares `bytes` and `offsets` only (the hand
  written `PartialEq`), so the `type_` of the FIRST object with a given content wins.
* `ObjectId::next()` is the `k`-th value `ids k` of an id supply (process-wide atomic counter: strictly increasing,
  hence injective — the hypothesis of the theorems), `next` counts the draws.
* `pos: self.bytes.len() as u32` wraps at 2³² (the theorems assume tables below 4 GiB, `Fields.Ok`; for such a table
  `Graph::from_objects` would panic on `try_into().unwrap()` anyway).
-/
import FontVerif.Model.Graph
namespace FontVerif.TableWriter
open FontVerif FontVerif.Graph

/-- the calls a `write_into` makes, in order (children nested) -/
inductive Fields where
  | nil
  /-- `write_slice(bs)`: scalars, arrays of scalars, records … -/
  | bytes (bs : List Nat) (rest : Fields)
  /-- `NullableOffsetMarker<T, N>` holding `None`: `write_slice([0u8; N])`, nothing recorded -/
  | null (width : Nat) (rest : Fields)
  /-- `OffsetMarker<T, N>` / `NullableOffsetMarker<T, N>` holding `Some`: `write_offset(child, N)`; `ty` is the child's
  `table_type()`, `child` its fields -/
  | link (width : Nat) (ty : TType) (child : Fields) (rest : Fields)
  /-- `adjust_offsets(adj, |writer| body)` -/
  | adjust (adj : Nat) (body : Fields) (rest : Fields)
  /-- `pad_to_2byte_aligned()` -/
  | pad2 (rest : Fields)
  deriving Repr, DecidableEq, Inhabited

/-- a table value: its `table_type()` and what its `write_into` does -/
structure Table where
  ty : TType
  fields : Fields
  deriving Repr, DecidableEq, Inhabited

/-- `TableData { type_, bytes, offsets }` -/
structure TData where
  ty : TType
  bytes : List Nat
  offsets : List Link
  deriving Repr, DecidableEq, Inhabited

/-- `TableData::default()` -/
def TData.empty : TData := ⟨TType.other, [], []⟩

/-- `impl PartialEq for TableData`: `self.bytes == other.bytes && self.offsets == other.offsets` -/
def TData.same (a b : TData) : Bool := decide (a.bytes = b.bytes) && decide (a.offsets = b.offsets)

/-- `TableData::write_bytes` -/
def TData.writeBytes (d : TData) (bs : List Nat) : TData := { d with bytes := d.bytes ++ bs }

/-- the `OffsetLen` `add_offset` records: `2 => Offset16, 3 => Offset24, _ => Offset32` (as `len as u8`) -/
def lenOf (width : Nat) : Nat := if width = 2 then 2 else if width = 3 then 3 else 4

def U32 : Nat := 4294967296

/-- `TableData::add_offset(object, width, adjustment)`: push the record at `bytes.len() as u32`, then write
`PLACEHOLDER_BYTES.get(..width.min(4))` = `width.min(4)` bytes `0xff` -/
def TData.addOffset (d : TData) (object width adjustment : Nat) : TData :=
  { d with offsets := d.offsets ++ [⟨d.bytes.length % U32, lenOf width, object, adjustment⟩]
           bytes := d.bytes ++ List.replicate (min width 4) 255 }

/-- `ObjectStore.objects: HashMap<TableData, ObjectId>`, in insertion order -/
abbrev Store := List (TData × Nat)

/-- `HashMap::get` with `TableData`'s `Eq` -/
def Store.find? : Store → TData → Option Nat
  | [], _ => none
  | (d', id) :: rest, d => if d'.same d then some id else Store.find? rest d

/-- `TableWriter` without its stack -/
structure Writer where
  tables : Store
  /-- number of ids drawn from `ObjectId::next()` so far -/
  next : Nat
  /-- `offset_adjustment` -/
  adj : Nat
  deriving Repr, Inhabited

/-- `TableWriter::default()` (`tables` empty, `offset_adjustment: 0`) with the id supply at draw `k` -/
def Writer.init (k : Nat) : Writer := ⟨[], k, 0⟩

/-- `ObjectStore::add`: `*self.objects.entry(data).or_insert_with(ObjectId::next)` — an object with the same bytes and
the same offset records keeps its id (and its first `type_`); otherwise the next id is drawn -/
def Writer.add (ids : Nat → Nat) (w : Writer) (d : TData) : Nat × Writer :=
  match w.tables.find? d with
  | some id => (id, w)
  | none => (ids w.next, { w with tables := w.tables ++ [(d, ids w.next)], next := w.next + 1 })

/-- run the calls of one `write_into` on the `TableData` on top of the stack (`cur`).
`link`: `write_offset(obj, width)` = `let obj_id = self.add_table(obj)` (push `TableData::default()`, run the child,
pop, `table_data.type_ = table.table_type()`, `self.tables.add(table_data)`), then
`data.add_offset(obj_id, width, self.offset_adjustment)` with the adjustment in force AFTER the child returned. -/
def writeFields (ids : Nat → Nat) : Fields → TData → Writer → TData × Writer
  | .nil, cur, w => (cur, w)
  | .bytes bs rest, cur, w => writeFields ids rest (cur.writeBytes bs) w
  | .null width rest, cur, w => writeFields ids rest (cur.writeBytes (List.replicate width 0)) w
  | .link width ty child rest, cur, w =>
    let r1 := writeFields ids child TData.empty w
    let r2 := r1.2.add ids { r1.1 with ty := ty }
    writeFields ids rest (cur.addOffset r2.1 width r2.2.adj) r2.2
  | .adjust a body rest, cur, w =>
    let r1 := writeFields ids body cur { w with adj := a }
    writeFields ids rest r1.1 { r1.2 with adj := 0 }
  | .pad2 rest, cur, w =>
    writeFields ids rest (if cur.bytes.length % 2 ≠ 0 then cur.writeBytes [0] else cur) w

/-- `TableWriter::add_table` for the root -/
def addTable (ids : Nat → Nat) (t : Table) (w : Writer) : Nat × Writer :=
  let r := writeFields ids t.fields TData.empty w
  r.2.add ids { r.1 with ty := t.ty }

/-- the task's `writeTable : Node → Store → ObjectId × Store` (the store together with the id counter and the
adjustment) -/
abbrev writeTable := addTable

def toObj (d : TData) : Obj := ⟨d.bytes.length, d.bytes, d.offsets⟩

/-- `Graph::from_obj_store`: `store.objects.into_iter().map(|(k, v)| (v, k)).collect::<BTreeMap<_, _>>()` -/
def Store.objects (s : Store) : Map Obj := s.foldl (fun m e => m.insert e.2 (toObj e.1)) []

/-- the `type_` of the objects that are GPOS / GSUB lookups (the typed layer of Model/Graph.lean) -/
def Store.types (s : Store) : Map TType :=
  s.foldl (fun m e => if e.1.ty = TType.other then m else m.insert e.2 e.1.ty) []

/-- `TableWriter::make_graph(root)`: the ids are drawn from draw `k` of the supply on -/
def makeGraphFrom (ids : Nat → Nat) (k : Nat) (t : Table) : Graph :=
  let r := addTable ids t (Writer.init k)
  Graph.fromObjects r.2.tables.objects r.1

def makeGraph (ids : Nat → Nat) (t : Table) : Graph := makeGraphFrom ids 0 t

def makeTGraph (ids : Nat → Nat) (t : Table) : TGraph :=
  let r := addTable ids t (Writer.init 0)
  ⟨Graph.fromObjects r.2.tables.objects r.1, r.2.tables.types⟩

/-- `dump_table` after validation, for tables without promotable / splittable lookups (`Graph.dump`): `fresh` are the
ids the packer may draw after the writer -/
def dumpTable (ids : Nat → Nat) (t : Table) (fresh : List Nat) : Option (Option (List Nat)) :=
  dump (makeGraph ids t) fresh

/-- typed `dump_table` (with `try_promoting_subtables`) -/
def dumpTableT (ids : Nat → Nat) (t : Table) (fresh : List Nat) : Option (Option (List Nat)) :=
  dumpWith selectPromotions (makeTGraph ids t) fresh

/-! ## what the value tree determines without running the writer -/

/-- `offset_adjustment` after the calls `fs`, when it was `a` before -/
def adjAfter : Fields → Nat → Nat
  | .nil, a => a
  | .bytes _ rest, a => adjAfter rest a
  | .null _ rest, a => adjAfter rest a
  | .link _ _ child rest, a => adjAfter rest (adjAfter child a)
  | .adjust _ _ rest, _ => adjAfter rest 0
  | .pad2 rest, a => adjAfter rest a

/-- the bytes `fs` appends to a `TableData` that holds `len` bytes (offset slots as placeholders) -/
def flat : Fields → Nat → List Nat
  | .nil, _ => []
  | .bytes bs rest, len => bs ++ flat rest (len + bs.length)
  | .null width rest, len => List.replicate width 0 ++ flat rest (len + width)
  | .link width _ _ rest, len => List.replicate (min width 4) 255 ++ flat rest (len + min width 4)
  | .adjust _ body rest, len => flat body len ++ flat rest (len + (flat body len).length)
  | .pad2 rest, len => (if len % 2 ≠ 0 then [0] else []) ++ flat rest (len + (if len % 2 ≠ 0 then 1 else 0))

/-- the offset records `fs` appends, with the target left open (`0`): position, recorded width, adjustment -/
def skelLinks : Fields → Nat → Nat → List Link
  | .nil, _, _ => []
  | .bytes bs rest, len, a => skelLinks rest (len + bs.length) a
  | .null width rest, len, a => skelLinks rest (len + width) a
  | .link width _ child rest, len, a =>
    ⟨len % U32, lenOf width, 0, adjAfter child a⟩ :: skelLinks rest (len + min width 4) (adjAfter child a)
  | .adjust n body rest, len, _ => skelLinks body len n ++ skelLinks rest (len + (flat body len).length) 0
  | .pad2 rest, len, a => skelLinks rest (len + (if len % 2 ≠ 0 then 1 else 0)) a

/-- the shape of the object a table with fields `fs` becomes (written while the adjustment is `a`) -/
def skel (fs : Fields) (a : Nat) : Obj := ⟨(flat fs 0).length, flat fs 0, skelLinks fs 0 a⟩

/-- nesting depth of the offsets -/
def depth : Fields → Nat
  | .nil => 0
  | .bytes _ rest => depth rest
  | .null _ rest => depth rest
  | .link _ _ child rest => max (depth child + 1) (depth rest)
  | .adjust _ body rest => max (depth body) (depth rest)
  | .pad2 rest => depth rest

/-- number of non-null offset slots (all levels) -/
def linkCount : Fields → Nat
  | .nil => 0
  | .bytes _ rest => linkCount rest
  | .null _ rest => linkCount rest
  | .link _ _ child rest => 1 + linkCount child + linkCount rest
  | .adjust _ body rest => linkCount body + linkCount rest
  | .pad2 rest => linkCount rest

end FontVerif.TableWriter
