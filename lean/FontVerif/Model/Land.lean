/-
Bitwise AND of two's-complement machine integers as a function on `Int` (Lean core has no
`Int.land`).  `landInt a b` is the AND of the sign-extended operands: for operands in the i32
range it is Rust's `i32 & i32`; for operands in the i64 range it is C's `long & long` on LP64
(sign extension commutes with AND, so one definition serves both widths).
Defined by bit recursion with `/ 2`, `% 2` (floor division = arithmetic shift) so that it unfolds
on literal masks and `omega` can finish.
-/
import FontVerif.Model.Base
namespace FontVerif

/-- AND of the low `n` bits, then the AND of the remaining sign words (`0` or `-1` once
`n` exceeds the operand width). -/
def landN : Nat → Int → Int → Int
  | 0, a, b => if a < 0 ∧ b < 0 then -1 else 0
  | n + 1, a, b => (a % 2) * (b % 2) + 2 * landN n (a / 2) (b / 2)

/-- `a & b` for operands in the i64 (or i32) range. -/
def landInt (a b : Int) : Int := landN 64 a b

/-- `!x` (bitwise NOT) in two's complement. -/
def notInt (x : Int) : Int := -x - 1

end FontVerif
