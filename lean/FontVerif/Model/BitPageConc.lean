/-
Element-level model of `read-fonts/src/collections/int_set/bitpage.rs`: a `BitPage` is
`storage: [u64; 8]` + the cached `length: u32`.  Every operation is transcribed with its
per-element loop and its u64 arithmetic (`<<` / `>>` / `!` on 64-bit words).  `CPage.abs` packs the
eight words into the one 512-bit natural of `Model/IntSet.lean` (`Page`); the refinement
theorems (`Props/C14Conc.lean`, `page_ops_refine`) show every operation here commutes with it.
-/
import FontVerif.Model.IntSet
namespace FontVerif.IntSet

/-- `PAGE_SIZE` -/
def PAGE_SIZE : Nat := 8
/-- `ELEM_BITS` -/
def ELEM_BITS : Nat := 64
/-- `Element::MAX` -/
def U64_MAX : Nat := 2 ^ 64 - 1

/-- `BitPage { storage: [Element; 8], length: u32 }` -/
structure CPage where
  elems : List Nat
  len : Nat
deriving Repr, DecidableEq, Inhabited

/-- `BitPage::new_zeroes` -/
def CPage.zero : CPage := ⟨List.replicate 8 0, 0⟩

/-- well-formed storage: exactly 8 words, each a `u64` -/
def CPage.wf (p : CPage) : Bool := p.elems.length == 8 && p.elems.all (fun e => decide (e < 2 ^ 64))

/-- little-endian packing of the words into one natural (`elems[i]` holds bits `64 i .. 64 i + 63`) -/
def pack : List Nat → Nat
  | [] => 0
  | e :: es => e + 2 ^ 64 * pack es

/-- the abstraction function to the 512-bit page of `Model/IntSet.lean` -/
def CPage.abs (p : CPage) : Page := ⟨pack p.elems, p.len⟩

/-- `u64::count_ones` -/
def countOnes (e : Nat) : Nat := ((List.range 64).filter (fun i => e.testBit i)).length

/-- `recompute_length`: `storage.iter().map(u64::count_ones).sum()` -/
def recomputeLength (es : List Nat) : Nat := (es.map countOnes).foldl (· + ·) 0

/-- `BitPage::element_index(value)`: `(value & PAGE_MASK) / ELEM_BITS` -/
def elementIndex (v : Nat) : Nat := (v % 512) / 64

/-- `elem_index_bit_mask(value)`: `1 << (value & ELEM_MASK)` -/
def elemIndexBitMask (v : Nat) : Nat := 2 ^ (v % 64)

/-- `!x` on a `u64` -/
def not64 (x : Nat) : Nat := U64_MAX ^^^ (x % 2 ^ 64)

/-- `x << n` on a `u64` (bits shifted out are dropped; `n < 64` at every call site) -/
def shl64 (x n : Nat) : Nat := (x <<< n) % 2 ^ 64

/-- `*self.element(value)` -/
def CPage.element (p : CPage) (v : Nat) : Nat := p.elems.getD (elementIndex v) 0

/-- `BitPage::len` -/
def CPage.length (p : CPage) : Nat := p.len
/-- `BitPage::is_empty`: reads the cached length -/
def CPage.isEmpty (p : CPage) : Bool := p.len == 0

/-- `BitPage::contains(val)` -/
def CPage.contains (p : CPage) (v : Nat) : Bool := (p.element v &&& elemIndexBitMask v) != 0

/-- `BitPage::insert(val)` → (page, is_new) -/
def CPage.insert (p : CPage) (v : Nat) : CPage × Bool :=
  let el := p.element v
  let mask := elemIndexBitMask v
  let isNew := (el &&& mask) == 0
  (⟨p.elems.set (elementIndex v) (el ||| mask), p.len + (if isNew then 1 else 0)⟩, isNew)

/-- `BitPage::remove(val)` → (page, was_present) -/
def CPage.remove (p : CPage) (v : Nat) : CPage × Bool :=
  let ret := p.contains v
  (⟨p.elems.set (elementIndex v) (p.element v &&& not64 (elemIndexBitMask v)),
    p.len - (if ret then 1 else 0)⟩, ret)

/-- the mask computed for one element inside `insert_range` / `remove_range`:
`elem_start = max(first, elem_idx*64) & 63`, `elem_last = min(last, (elem_idx+1)*64-1) & 63`,
`end_shift = 64 - elem_last - 1`, `(u64::MAX << (elem_start + end_shift)) >> end_shift` -/
def elemRangeMask (first last elemIdx : Nat) : Nat :=
  let elemStart := (max first (elemIdx * 64)) % 64
  let elemLast := (min last ((elemIdx + 1) * 64 - 1)) % 64
  let endShift := 64 - elemLast - 1
  (shl64 U64_MAX (elemStart + endShift)) >>> endShift

/-- `BitPage::insert_range(first, last)`: the `for elem_idx in first_elem_idx..=last_elem_idx` loop -/
def CPage.insertRange (p : CPage) (first last : Nat) : CPage :=
  let first := first % 512
  let last := last % 512
  let fi := first / 64
  let li := last / 64
  let es := (List.range (li + 1 - fi)).foldl (fun es i =>
    let idx := fi + i
    es.set idx (es.getD idx 0 ||| elemRangeMask first last idx)) p.elems
  ⟨es, recomputeLength es⟩

/-- `BitPage::remove_range(first, last)` -/
def CPage.removeRange (p : CPage) (first last : Nat) : CPage :=
  let first := first % 512
  let last := last % 512
  let fi := first / 64
  let li := last / 64
  let es := (List.range (li + 1 - fi)).foldl (fun es i =>
    let idx := fi + i
    es.set idx (es.getD idx 0 &&& not64 (elemRangeMask first last idx))) p.elems
  ⟨es, recomputeLength es⟩

/-- `BitPage::clear` -/
def CPage.clear (p : CPage) : CPage := ⟨p.elems.map (fun _ => 0), 0⟩

/-- `BitPage::process(self, other, op)`: `out.storage[i] = op(self.storage[i], other.storage[i])`
for `i in 0..8`, then `recompute_length` -/
def CPage.process (op : Nat → Nat → Nat) (a b : CPage) : CPage :=
  let es := (List.range 8).map (fun i => op (a.elems.getD i 0) (b.elems.getD i 0))
  ⟨es, recomputeLength es⟩

/-- `|a, b| a | b` -/
def elemUnion (a b : Nat) : Nat := a ||| b
/-- `|a, b| a & b` -/
def elemIntersect (a b : Nat) : Nat := a &&& b
/-- `|a, b| a & !b` -/
def elemSubtract (a b : Nat) : Nat := a &&& not64 b

/-- `BitPage::union` -/
def CPage.union := CPage.process elemUnion
/-- `BitPage::intersect` -/
def CPage.intersect := CPage.process elemIntersect
/-- `BitPage::subtract` -/
def CPage.subtract := CPage.process elemSubtract
/-- `|a, b| BitPage::subtract(b, a)` (the closure of `BitSet::reversed_subtract`) -/
def CPage.revSubtract (a b : CPage) : CPage := CPage.subtract b a

/-! ## the element iterator `struct Iter` and `BitPage::iter` / `iter_after`

`Iter { val: Element, forward_index: i32, backward_index: i32 }`: the two indices are `i32`s because
`backward_index` becomes `-1` after bit 0 was yielded from the back; they are modelled as `Int`. -/

/-- `struct Iter` -/
structure EIter where
  val : Nat
  fwd : Int
  bwd : Int
deriving Repr, DecidableEq, Inhabited

/-- `Iter::new(elem)`: `forward_index: 0, backward_index: ELEM_BITS as i32 - 1` -/
def EIter.new (elem : Nat) : EIter := ⟨elem, 0, 63⟩

/-- `Iter::from(elem, index)`: `forward_index: index as i32` (`index ≤ 64` at the only call site) -/
def EIter.from (elem : Nat) (index : Nat) : EIter := ⟨elem, index, 63⟩

/-- `u64::trailing_zeros` (64 for zero) -/
def ctz64 (x : Nat) : Nat := ((List.range 64).find? (fun i => x.testBit i)).getD 64

/-- highest set bit below `n`, searching downwards -/
def highBit? (x : Nat) : Nat → Option Nat
  | 0 => none
  | n + 1 => if x.testBit n then some n else highBit? x n

/-- `u64::leading_zeros` (64 for zero) -/
def clz64 (x : Nat) : Nat :=
  match highBit? x 64 with
  | some i => 63 - i
  | none => 64

/-- `<Iter as Iterator>::next`:
```
if self.forward_index > self.backward_index { return None; }
let mask = (1u64 << self.forward_index) - 1;
let masked = self.val & !mask;
let next_index = masked.trailing_zeros() as i32;
if next_index > self.backward_index { return None; }
self.forward_index = next_index + 1;
Some(next_index as u32)
``` -/
def EIter.next (it : EIter) : Option Nat × EIter :=
  if it.fwd > it.bwd then (none, it)
  else
    let mask := shl64 1 it.fwd.toNat - 1
    let masked := it.val &&& not64 mask
    let nextIndex : Int := (ctz64 masked : Nat)
    if nextIndex > it.bwd then (none, it)
    else (some nextIndex.toNat, { it with fwd := nextIndex + 1 })

/-- `<Iter as DoubleEndedIterator>::next_back`:
```
if self.backward_index < self.forward_index { return None; }
let mask = 1u64.checked_shl(self.backward_index as u32 + 1).map(|v| v - 1).unwrap_or(Element::MAX);
let masked = self.val & mask;
let next_index = (ELEM_BITS as i32) - (masked.leading_zeros() as i32) - 1;
if next_index < self.forward_index { return None; }
self.backward_index = next_index - 1;
Some(next_index as u32)
```
(`checked_shl(n)` is `None` exactly when `n ≥ 64`) -/
def EIter.nextBack (it : EIter) : Option Nat × EIter :=
  if it.bwd < it.fwd then (none, it)
  else
    let sh := it.bwd.toNat + 1
    let mask := if sh < 64 then 1 <<< sh - 1 else U64_MAX
    let masked := it.val &&& mask
    let nextIndex : Int := 64 - (clz64 masked : Nat) - 1
    if nextIndex < it.fwd then (none, it)
    else (some nextIndex.toNat, { it with bwd := nextIndex - 1 })

/-- call `next` until it returns `None` (at most `fuel` times; 65 calls always suffice) -/
def EIter.drain : Nat → EIter → List Nat
  | 0, _ => []
  | n + 1, it =>
    match it.next with
    | (some v, it') => v :: EIter.drain n it'
    | (none, _) => []

/-- call `next_back` until it returns `None` -/
def EIter.drainBack : Nat → EIter → List Nat
  | 0, _ => []
  | n + 1, it =>
    match it.nextBack with
    | (some v, it') => v :: EIter.drainBack n it'
    | (none, _) => []

/-- `iter.collect()` -/
def EIter.toList (it : EIter) : List Nat := it.drain 65
/-- `iter.rev().collect()` -/
def EIter.toListRev (it : EIter) : List Nat := it.drainBack 65

/-- an arbitrary interleaving of `next` (`true`) and `next_back` (`false`) calls:
(values yielded at the front in call order, values yielded at the back in call order, final state) -/
def EIter.runSched : EIter → List Bool → List Nat × List Nat × EIter
  | it, [] => ([], [], it)
  | it, true :: s =>
    match it.next with
    | (some v, it') => let r := EIter.runSched it' s; (v :: r.1, r.2.1, r.2.2)
    | (none, it') => EIter.runSched it' s
  | it, false :: s =>
    match it.nextBack with
    | (some v, it') => let r := EIter.runSched it' s; (r.1, v :: r.2.1, r.2.2)
    | (none, it') => EIter.runSched it' s

/-- `BitPage::iter().collect()`:
`storage.iter().enumerate().filter(|(_, elem)| **elem != 0).flat_map(|(i, elem)| Iter::new(*elem).map(move |idx| i * 64 + idx))` -/
def CPage.iterM (p : CPage) : List Nat :=
  (p.elems.zipIdx.filter (fun ei => ei.1 != 0)).flatMap
    (fun ei => (EIter.new ei.1).toList.map (fun idx => ei.2 * 64 + idx))

/-- `BitPage::iter().rev().collect()`: `FlatMap::next_back` walks the filtered elements from the
last one and each element iterator from its back -/
def CPage.iterRevM (p : CPage) : List Nat :=
  (p.elems.zipIdx.filter (fun ei => ei.1 != 0)).reverse.flatMap
    (fun ei => (EIter.new ei.1).toListRev.map (fun idx => ei.2 * 64 + idx))

/-- the element iterator chosen by the closure of `iter_after` for the `i`-th element of
`storage[start_index..]` -/
def iterAfterElem (value start : Nat) (ei : Nat × Nat) : EIter :=
  let i := ei.2 + start
  if start == i then EIter.from ei.1 (value % 64 + 1) else EIter.new ei.1

/-- `BitPage::iter_after(value).collect()` -/
def CPage.iterAfterM (p : CPage) (value : Nat) : List Nat :=
  let start := elementIndex value
  ((p.elems.drop start).zipIdx.filter (fun ei => ei.1 != 0)).flatMap
    (fun ei => (iterAfterElem value start ei).toList.map (fun idx => (ei.2 + start) * 64 + idx))

/-- `BitPage::iter_after(value).rev().collect()` -/
def CPage.iterAfterRevM (p : CPage) (value : Nat) : List Nat :=
  let start := elementIndex value
  ((p.elems.drop start).zipIdx.filter (fun ei => ei.1 != 0)).reverse.flatMap
    (fun ei => (iterAfterElem value start ei).toListRev.map (fun idx => (ei.2 + start) * 64 + idx))

end FontVerif.IntSet
