/-
Element-level model of `read-fonts/src/collections/int_set/bitpage.rs`: a `BitPage` is
`storage: [u64; 8]` + the cached `length: u32`.  Every operation is transcribed with its
per-element loop and its u64 arithmetic (`<<` / `>>` / `!` on 64-bit words).  `CPage.abs` packs the
eight words into the one 512-bit natural of `Model/IntSet.lean` (`Page`); the refinement
theorems (`Props/C14Conc.lean`, `page_ops_refine`) show every operation here commutes with it.
-/
import FontVerif.Model.IntSet
namespace FontVerif.IntSet

/-- `PAGE_SIZE` -/
def PAGE_SIZE : Nat := 8
/-- `ELEM_BITS` -/
def ELEM_BITS : Nat := 64
/-- `Element::MAX` -/
def U64_MAX : Nat := 2 ^ 64 - 1

/-- `BitPage { storage: [Element; 8], length: u32 }` -/
structure CPage where
  elems : List Nat
  len : Nat
deriving Repr, DecidableEq, Inhabited

/-- `BitPage::new_zeroes` -/
def CPage.zero : CPage := ⟨List.replicate 8 0, 0⟩

/-- well-formed storage: exactly 8 words, each a `u64` -/
def CPage.wf (p : CPage) : Bool := p.elems.length == 8 && p.elems.all (fun e => decide (e < 2 ^ 64))

/-- little-endian packing of the words into one natural (`elems[i]` holds bits `64 i .. 64 i + 63`) -/
def pack : List Nat → Nat
  | [] => 0
  | e :: es => e + 2 ^ 64 * pack es

/-- the abstraction function to the 512-bit page of `Model/IntSet.lean` -/
def CPage.abs (p : CPage) : Page := ⟨pack p.elems, p.len⟩

/-- `u64::count_ones` -/
def countOnes (e : Nat) : Nat := ((List.range 64).filter (fun i => e.testBit i)).length

/-- `recompute_length`: `storage.iter().map(u64::count_ones).sum()` -/
def recomputeLength (es : List Nat) : Nat := (es.map countOnes).foldl (· + ·) 0

/-- `BitPage::element_index(value)`: `(value & PAGE_MASK) / ELEM_BITS` -/
def elementIndex (v : Nat) : Nat := (v % 512) / 64

/-- `elem_index_bit_mask(value)`: `1 << (value & ELEM_MASK)` -/
def elemIndexBitMask (v : Nat) : Nat := 2 ^ (v % 64)

/-- `!x` on a `u64` -/
def not64 (x : Nat) : Nat := U64_MAX ^^^ (x % 2 ^ 64)

/-- `x << n` on a `u64` (bits shifted out are dropped; `n < 64` at every call site) -/
def shl64 (x n : Nat) : Nat := (x <<< n) % 2 ^ 64

/-- `*self.element(value)` -/
def CPage.element (p : CPage) (v : Nat) : Nat := p.elems.getD (elementIndex v) 0

/-- `BitPage::len` -/
def CPage.length (p : CPage) : Nat := p.len
/-- `BitPage::is_empty`: reads the cached length -/
def CPage.isEmpty (p : CPage) : Bool := p.len == 0

/-- `BitPage::contains(val)` -/
def CPage.contains (p : CPage) (v : Nat) : Bool := (p.element v &&& elemIndexBitMask v) != 0

/-- `BitPage::insert(val)` → (page, is_new) -/
def CPage.insert (p : CPage) (v : Nat) : CPage × Bool :=
  let el := p.element v
  let mask := elemIndexBitMask v
  let isNew := (el &&& mask) == 0
  (⟨p.elems.set (elementIndex v) (el ||| mask), p.len + (if isNew then 1 else 0)⟩, isNew)

/-- `BitPage::remove(val)` → (page, was_present) -/
def CPage.remove (p : CPage) (v : Nat) : CPage × Bool :=
  let ret := p.contains v
  (⟨p.elems.set (elementIndex v) (p.element v &&& not64 (elemIndexBitMask v)),
    p.len - (if ret then 1 else 0)⟩, ret)

/-- the mask computed for one element inside `insert_range` / `remove_range`:
`elem_start = max(first, elem_idx*64) & 63`, `elem_last = min(last, (elem_idx+1)*64-1) & 63`,
`end_shift = 64 - elem_last - 1`, `(u64::MAX << (elem_start + end_shift)) >> end_shift` -/
def elemRangeMask (first last elemIdx : Nat) : Nat :=
  let elemStart := (max first (elemIdx * 64)) % 64
  let elemLast := (min last ((elemIdx + 1) * 64 - 1)) % 64
  let endShift := 64 - elemLast - 1
  (shl64 U64_MAX (elemStart + endShift)) >>> endShift

/-- `BitPage::insert_range(first, last)`: the `for elem_idx in first_elem_idx..=last_elem_idx` loop -/
def CPage.insertRange (p : CPage) (first last : Nat) : CPage :=
  let first := first % 512
  let last := last % 512
  let fi := first / 64
  let li := last / 64
  let es := (List.range (li + 1 - fi)).foldl (fun es i =>
    let idx := fi + i
    es.set idx (es.getD idx 0 ||| elemRangeMask first last idx)) p.elems
  ⟨es, recomputeLength es⟩

/-- `BitPage::remove_range(first, last)` -/
def CPage.removeRange (p : CPage) (first last : Nat) : CPage :=
  let first := first % 512
  let last := last % 512
  let fi := first / 64
  let li := last / 64
  let es := (List.range (li + 1 - fi)).foldl (fun es i =>
    let idx := fi + i
    es.set idx (es.getD idx 0 &&& not64 (elemRangeMask first last idx))) p.elems
  ⟨es, recomputeLength es⟩

/-- `BitPage::clear` -/
def CPage.clear (p : CPage) : CPage := ⟨p.elems.map (fun _ => 0), 0⟩

/-- `BitPage::process(self, other, op)`: `out.storage[i] = op(self.storage[i], other.storage[i])`
for `i in 0..8`, then `recompute_length` -/
def CPage.process (op : Nat → Nat → Nat) (a b : CPage) : CPage :=
  let es := (List.range 8).map (fun i => op (a.elems.getD i 0) (b.elems.getD i 0))
  ⟨es, recomputeLength es⟩

/-- `|a, b| a | b` -/
def elemUnion (a b : Nat) : Nat := a ||| b
/-- `|a, b| a & b` -/
def elemIntersect (a b : Nat) : Nat := a &&& b
/-- `|a, b| a & !b` -/
def elemSubtract (a b : Nat) : Nat := a &&& not64 b

/-- `BitPage::union` -/
def CPage.union := CPage.process elemUnion
/-- `BitPage::intersect` -/
def CPage.intersect := CPage.process elemIntersect
/-- `BitPage::subtract` -/
def CPage.subtract := CPage.process elemSubtract
/-- `|a, b| BitPage::subtract(b, a)` (the closure of `BitSet::reversed_subtract`) -/
def CPage.revSubtract (a b : CPage) : CPage := CPage.subtract b a

end FontVerif.IntSet
