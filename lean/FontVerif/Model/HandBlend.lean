/-
C01 (hand-written code) — the CFF2 blend state, read-fonts/src/tables/postscript/blend.rs:
`BlendState::{new, set_store_index, region_count, scalars, update_precomputed_scalars, region_scalar}`.

The ItemVariationStore is abstracted to what these functions observe of it (`Store`): per item-variation-data
index `None` (null offset → `InvalidVariationStoreIndex`), `Some(Err)` (also for an index beyond the offset
array: `InvalidCollectionIndex`) or the region index list; whether `variation_region_list()` reads; and the region records (`variation_regions().get(i)`: a computed
array of `axis_count * 6`-byte records — with `axis_count = 0` every index is answered with the empty record).
The scalar of a region is `VariationRegion::compute_scalar` = `Tent.computeScalar` (Model/Tent.lean, C10).
The two slice expressions of `scalars()` (`self.scalars[..min(16, n)]`, `self.region_indices[16..]`) are
representable traps (`none`); Props/C01HandBlend.lean shows they are unreachable and that `scalars()` yields
exactly `region_count()` items — the hypothesis of `C01HandStack.applyBlend_total`.
-/
import FontVerif.Model.Tent
namespace FontVerif.HandBlend
open FontVerif

def MAX_PRECOMPUTED_SCALARS : Nat := 16

/-- what `item_variation_data().get(i)` gives -/
inductive DataAt where
  /-- `None` -/
  | absent
  /-- `Some(Err(_))` -/
  | bad
  /-- `Some(Ok(data))` with `data.region_indexes()` -/
  | ok (regionIndexes : List Nat)
  deriving Repr, DecidableEq

structure Store where
  datas : List DataAt
  regionListOk : Bool
  axisCount : Nat
  regions : List (List (Int × Int × Int))
  deriving Repr

inductive BErr where
  | invalidStoreIndex (i : Nat)
  | read
  deriving Repr, DecidableEq

/-- `variation_region_list()?.variation_regions().get(index)?.compute_scalar(coords)` -/
def regionScalar (s : Store) (coords : List Int) (index : Nat) : Except BErr Int :=
  if !s.regionListOk then .error .read
  else if s.axisCount = 0 then .ok (Tent.computeScalar [] coords)
  else match s.regions[index]? with
    | none => .error .read
    | some axes => .ok (Tent.computeScalar axes coords)

structure BSt where
  storeIndex : Nat
  hasData : Bool
  regionIndices : List Nat
  /-- `scalars: [Fixed; 16]` -/
  scalars : List Int
  deriving Repr, DecidableEq

/-- the `for (region_ix, scalar) in region_indices.iter().take(16).zip(&mut self.scalars)` loop: slot `k` onwards;
an `Err` returns with the slots written so far -/
def precompute (s : Store) (coords : List Int) : List Nat → Nat → List Int → Except BErr Unit × List Int
  | [], _, sc => (.ok (), sc)
  | ri :: rest, k, sc =>
    if k < sc.length then
      match regionScalar s coords ri with
      | .error e => (.error e, sc)
      | .ok v => precompute s coords rest (k + 1) (sc.set k v)
    else (.ok (), sc)      -- `zip` ends with the shorter side

/-- `update_precomputed_scalars` -/
def update (s : Store) (coords : List Int) (st : BSt) : Except BErr Unit × BSt :=
  let st1 : BSt := { st with hasData := false, regionIndices := [] }
  match s.datas[st.storeIndex]? with
  | none => (.error .read, st1)        -- `Some(Err(InvalidCollectionIndex))`: index beyond the offset array
  | some .absent => (.error (.invalidStoreIndex st.storeIndex), st1)
  | some .bad => (.error .read, st1)
  | some (.ok ris) =>
    if !s.regionListOk then (.error .read, st1)
    else
      match precompute s coords (ris.take MAX_PRECOMPUTED_SCALARS) 0 st1.scalars with
      | (.error e, sc) => (.error e, { st1 with scalars := sc })
      | (.ok (), sc) => (.ok (), { st1 with scalars := sc, hasData := true, regionIndices := ris })

/-- `BlendState::new(store, coords, store_index)` (`Err` drops the state) -/
def new (s : Store) (coords : List Int) (storeIndex : Nat) : Except BErr Unit × BSt :=
  update s coords ⟨storeIndex, false, [], List.replicate 16 0⟩

/-- `set_store_index` -/
def setStoreIndex (s : Store) (coords : List Int) (st : BSt) (storeIndex : Nat) : Except BErr Unit × BSt :=
  if st.storeIndex ≠ storeIndex then update s coords { st with storeIndex := storeIndex }
  else (.ok (), st)

/-- `region_count` -/
def regionCount (st : BSt) : Nat := st.regionIndices.length

/-- `scalars()?.collect()`: `none` = one of the slices panics -/
def scalars (s : Store) (coords : List Int) (st : BSt) : Option (List (Except BErr Int)) :=
  let total := st.regionIndices.length
  let n := min MAX_PRECOMPUTED_SCALARS total
  if n ≤ st.scalars.length then
    let cached := (st.scalars.take n).map (fun v => (Except.ok v : Except BErr Int))
    if total > MAX_PRECOMPUTED_SCALARS then
      if MAX_PRECOMPUTED_SCALARS ≤ st.regionIndices.length then
        some (cached ++ (st.regionIndices.drop MAX_PRECOMPUTED_SCALARS).map (regionScalar s coords))
      else none
    else some cached
  else none

end FontVerif.HandBlend
