/-
Concrete model of `read-fonts/src/collections/int_set/bitset.rs`:

  struct BitSet { pages: Vec<BitPage>, page_map: Vec<PageInfo { index, major_value }>, length: u64 }

`page_map` is sorted by `major_value`; `index` points into `pages`, whose order is the order of
page CREATION (`ensure_page_index_for_major` pushes at the end), later rearranged only by
`process` (`compact` / `compact_pages` / `resize`, right-hand pages appended).  Every operation
is transcribed with its index arithmetic and its in-place updates; `Vec` reads that would panic
when out of bounds (`[]`, `unwrap`) are `getD` / no-op `set` here, `CInv` (Lemmas/IntSetConc.lean)
shows they stay in bounds.  `CBitSet.abs` reads the pages through the map, in map order, and
packs each page (`CPage.abs`) — this is the abstract `BitSet` of `Model/IntSet.lean`.

(The version of bitset.rs in /repo has no `last_page_map_index` field: `page_index_for_major`
is a plain `binary_search_by`; the only caches are the local `last_page_index` /
`last_major_value` pairs of `BitSetBuilder` and `remove_all`, transcribed below.)
-/
import FontVerif.Model.BitPageConc
namespace FontVerif.IntSet

/-- `PageInfo` as `(major_value, index)` -/
abbrev PMap := List (Nat × Nat)

structure CBitSet where
  pages : List CPage
  pageMap : PMap
  len : Nat
deriving Repr, DecidableEq, Inhabited

/-- `BitSet::empty` -/
def CBitSet.empty : CBitSet := ⟨[], [], 0⟩

/-- `usize::MAX` (sentinel in `compact` and `BitSetBuilder::start`) -/
def USIZE_MAX : Nat := 2 ^ 64 - 1
/-- `u32::MAX` (sentinel major value in `BitSetBuilder::start` / `remove_all`) -/
def U32_MAX : Nat := 2 ^ 32 - 1

/-- the pages read through the map, in map order (`iter_pages`): `(major, page)` -/
def cview (pm : PMap) (pages : List CPage) : List (Nat × CPage) :=
  pm.map (fun e => (e.1, pages.getD e.2 CPage.zero))

/-- the abstraction function -/
def CBitSet.abs (s : CBitSet) : BitSet :=
  ⟨(cview s.pageMap s.pages).map (fun kp => (kp.1, kp.2.abs)), s.len⟩

/-- std `slice::binary_search_by(|probe| probe.major_value.cmp(&major))` by its specification on a
slice strictly sorted by key: `(true, i)` = `Ok(i)` with `slice[i].major == major`, `(false, i)` =
`Err(i)` with `i` the insertion point (number of entries with a smaller major). -/
def searchMap : PMap → Nat → Bool × Nat
  | [], _ => (false, 0)
  | (k, _) :: rest, m =>
    if k = m then (true, 0)
    else if m < k then (false, 0)
    else let r := searchMap rest m; (r.1, r.2 + 1)

/-- `page_index_for_major` -/
def CBitSet.pageIndexForMajor (s : CBitSet) (major : Nat) : Option Nat :=
  let r := searchMap s.pageMap major
  if r.1 then some (s.pageMap.getD r.2 (0, 0)).2 else none

/-- `Vec::insert(i, x)` -/
def insertAt {α : Type} (l : List α) (i : Nat) (x : α) : List α := l.take i ++ x :: l.drop i

/-- `ensure_page_index_for_major`: on a miss push a zero page at the END of `pages` and insert
`PageInfo { index: pages.len(), major_value }` into the map at the search position -/
def CBitSet.ensurePageIndexForMajor (s : CBitSet) (major : Nat) : CBitSet × Nat :=
  let r := searchMap s.pageMap major
  if r.1 then (s, (s.pageMap.getD r.2 (0, 0)).2)
  else
    let pageIndex := s.pages.length
    (⟨s.pages ++ [CPage.zero], insertAt s.pageMap r.2 (major, pageIndex), s.len⟩, pageIndex)

/-- `BitSet::insert(val)`: `ensure_page_for_mut(val).insert(val)`, `length += ret` -/
def CBitSet.insert (s : CBitSet) (v : Nat) : CBitSet × Bool :=
  let e := s.ensurePageIndexForMajor (majorOf v)
  let r := (e.1.pages.getD e.2 CPage.zero).insert v
  (⟨e.1.pages.set e.2 r.1, e.1.pageMap, e.1.len + (if r.2 then 1 else 0)⟩, r.2)

/-- one iteration of `for major in major_start..=major_end` in `BitSet::insert_range`;
state `(set, total_added)` -/
def cInsertRangeStep (start end_ : Nat) (st : CBitSet × Nat) (major : Nat) : CBitSet × Nat :=
  let pageStart := max start (majorStart major)
  let pageEnd := min end_ (majorStart major + 511)
  let e := st.1.ensurePageIndexForMajor major
  let p := e.1.pages.getD e.2 CPage.zero
  let p' := p.insertRange pageStart pageEnd
  (⟨e.1.pages.set e.2 p', e.1.pageMap, e.1.len⟩, st.2 + (p'.len - p.len))

/-- `BitSet::insert_range(start..=end)` -/
def CBitSet.insertRange (s : CBitSet) (start end_ : Nat) : CBitSet :=
  if start > end_ then s
  else
    let ms := majorOf start
    let me := majorOf end_
    let r := (List.range (me + 1 - ms)).foldl
      (fun st i => cInsertRangeStep start end_ st (ms + i)) (s, 0)
    ⟨r.1.pages, r.1.pageMap, r.1.len + r.2⟩

/-- `BitSet::extend_unsorted(iter)`: `ensure_page_for_major_mut(major).insert(val)` per value, the
`is_new` flags summed and added to `length` at the end -/
def CBitSet.extendUnsorted (s : CBitSet) (vs : List Nat) : CBitSet :=
  let r := vs.foldl (fun (st : CBitSet × Nat) v =>
    let e := st.1.ensurePageIndexForMajor (majorOf v)
    let q := (e.1.pages.getD e.2 CPage.zero).insert v
    (⟨e.1.pages.set e.2 q.1, e.1.pageMap, e.1.len⟩, st.2 + (if q.2 then 1 else 0))) (s, 0)
  ⟨r.1.pages, r.1.pageMap, r.1.len + r.2⟩

/-- `BitSetBuilder { set, last_page_index, last_major_value }` -/
structure CBuilder where
  set : CBitSet
  lastPageIndex : Nat
  lastMajorValue : Nat
deriving Repr

/-- `BitSetBuilder::start` -/
def CBuilder.start (s : CBitSet) : CBuilder := ⟨s, USIZE_MAX, U32_MAX⟩

/-- `BitSetBuilder::insert(val)`: the page index is looked up only when the major changes;
`pages.get_mut(last_page_index)` (a miss is silently skipped) -/
def CBuilder.insert (b : CBuilder) (v : Nat) : CBuilder :=
  let major := majorOf v
  let b1 : CBuilder :=
    if major ≠ b.lastMajorValue then
      let e := b.set.ensurePageIndexForMajor major
      ⟨e.1, e.2, major⟩
    else b
  if b1.lastPageIndex < b1.set.pages.length then
    let q := (b1.set.pages.getD b1.lastPageIndex CPage.zero).insert v
    ⟨⟨b1.set.pages.set b1.lastPageIndex q.1, b1.set.pageMap, b1.set.len + (if q.2 then 1 else 0)⟩,
      b1.lastPageIndex, b1.lastMajorValue⟩
  else b1

/-- `impl Extend<u32> for BitSet` -/
def CBitSet.extend (s : CBitSet) (vs : List Nat) : CBitSet :=
  (vs.foldl CBuilder.insert (CBuilder.start s)).set

/-- `BitSet::remove(val)`: `page_for_mut(val)` -/
def CBitSet.remove (s : CBitSet) (v : Nat) : CBitSet × Bool :=
  match s.pageIndexForMajor (majorOf v) with
  | none => (s, false)
  | some idx =>
    if idx < s.pages.length then
      let r := (s.pages.getD idx CPage.zero).remove v
      (⟨s.pages.set idx r.1, s.pageMap, s.len - (if r.2 then 1 else 0)⟩, r.2)
    else (s, false)

/-- loop state of `BitSet::remove_all` -/
structure CRemoveAll where
  set : CBitSet
  lastPageIndex : Option Nat
  lastMajorValue : Nat
  totalRemoved : Nat

/-- one iteration of the loop of `BitSet::remove_all` -/
def CRemoveAll.step (st : CRemoveAll) (v : Nat) : CRemoveAll :=
  let major := majorOf v
  let st1 : CRemoveAll :=
    if major ≠ st.lastMajorValue then
      { st with lastPageIndex := st.set.pageIndexForMajor major, lastMajorValue := major }
    else st
  match st1.lastPageIndex with
  | none => st1
  | some idx =>
    if idx < st1.set.pages.length then
      let r := (st1.set.pages.getD idx CPage.zero).remove v
      { st1 with set := ⟨st1.set.pages.set idx r.1, st1.set.pageMap, st1.set.len⟩,
                 totalRemoved := st1.totalRemoved + (if r.2 then 1 else 0) }
    else st1

/-- `BitSet::remove_all(iter)` -/
def CBitSet.removeAll (s : CBitSet) (vs : List Nat) : CBitSet :=
  let r := vs.foldl CRemoveAll.step ⟨s, none, U32_MAX, 0⟩
  ⟨r.set.pages, r.set.pageMap, r.set.len - r.totalRemoved⟩

/-- `recompute_length`: `self.pages.iter().map(|page| page.len()).sum()` — over the `pages`
vector, not through the map -/
def cSumLens (pages : List CPage) : Nat := pages.foldl (fun acc p => acc + p.len) 0

/-- the `loop` of `BitSet::remove_range` from map position `infoIndex` (fuel = remaining map
entries) -/
def cRemoveRangeLoop (start end_ sm em : Nat) (pm : PMap) :
    Nat → Nat → List CPage → List CPage
  | 0, _, pages => pages
  | fuel + 1, infoIndex, pages =>
    if infoIndex < pm.length then
      let info := pm.getD infoIndex (0, 0)
      if info.2 < pages.length then
        let page := pages.getD info.2 CPage.zero
        if info.1 > em then pages
        else if info.1 = sm then
          cRemoveRangeLoop start end_ sm em pm fuel (infoIndex + 1)
            (pages.set info.2 (page.removeRange start (min (majorStart sm + 511) end_)))
        else if info.1 = em then pages.set info.2 (page.removeRange (majorStart em) end_)
        else cRemoveRangeLoop start end_ sm em pm fuel (infoIndex + 1) (pages.set info.2 page.clear)
      else pages
    else pages

/-- `BitSet::remove_range(start..=end)` -/
def CBitSet.removeRange (s : CBitSet) (start end_ : Nat) : CBitSet :=
  if start > end_ then s
  else
    let sm := majorOf start
    let em := majorOf end_
    let infoIndex := (searchMap s.pageMap sm).2
    let pages := cRemoveRangeLoop start end_ sm em s.pageMap s.pageMap.length infoIndex s.pages
    ⟨pages, s.pageMap, cSumLens pages⟩

/-- `BitSet::contains(val)`: `page_for(val)` -/
def CBitSet.contains (s : CBitSet) (v : Nat) : Bool :=
  match s.pageIndexForMajor (majorOf v) with
  | none => false
  | some idx => if idx < s.pages.length then (s.pages.getD idx CPage.zero).contains v else false

/-- `BitSet::clear` -/
def CBitSet.clear (_ : CBitSet) : CBitSet := CBitSet.empty

/-- `BitSet::num_pages`: `self.pages.len()` -/
def CBitSet.numPages (s : CBitSet) : Nat := s.pages.length

/-! ## `BitSet::process` -/

/-- `passthrough_behavior(op)`: `op(&{0}, &{})`.contains(0), `op(&{}, &{0})`.contains(0) -/
def cPassthrough (cop : CPage → CPage → CPage) : Bool × Bool :=
  let one := (CPage.zero.insert 0).1
  ((cop one CPage.zero).contains 0, (cop CPage.zero one).contains 0)

/-- `page_for_index(i)`: `page_map.get(i).and_then(|info| pages.get(info.index))` -/
def pageForIndex (pm : PMap) (pages : List CPage) (i : Nat) : CPage :=
  pages.getD (pm.getD i (0, 0)).2 CPage.zero

/-- `*page_for_index_mut(i) = p` -/
def setPageForIndex (pm : PMap) (pages : List CPage) (i : Nat) (p : CPage) : List CPage :=
  pages.set (pm.getD i (0, 0)).2 p

/-- result of Step 1 -/
structure Step1 where
  pm : PMap
  idxA : Nat
  idxB : Nat
  count : Nat
  writeIdx : Nat
deriving Repr

/-- Step 1 of `process`: the forward two-pointer scan that estimates the page count and, when
the left side is not passed through, moves the kept map entries to the front of `page_map`
(`self.page_map[write_idx] = self.page_map[idx_a]`). -/
def processStep1 (ptl ptr : Bool) (omap : PMap) (lenA lenB : Nat)
    (pm : PMap) (idxA idxB count writeIdx : Nat) : Step1 :=
  if idxA < lenA ∧ idxB < lenB then
    let aMajor := (pm.getD idxA (0, 0)).1
    let bMajor := (omap.getD idxB (0, 0)).1
    if aMajor = bMajor then
      if !ptl then
        let pm' := if writeIdx < idxA then pm.set writeIdx (pm.getD idxA (0, 0)) else pm
        processStep1 ptl ptr omap lenA lenB pm' (idxA + 1) (idxB + 1) (count + 1) (writeIdx + 1)
      else processStep1 ptl ptr omap lenA lenB pm (idxA + 1) (idxB + 1) (count + 1) writeIdx
    else if aMajor < bMajor then
      processStep1 ptl ptr omap lenA lenB pm (idxA + 1) idxB (count + (if ptl then 1 else 0)) writeIdx
    else
      processStep1 ptl ptr omap lenA lenB pm idxA (idxB + 1) (count + (if ptr then 1 else 0)) writeIdx
  else ⟨pm, idxA, idxB, count, writeIdx⟩
termination_by (lenA - idxA) + (lenB - idxB)
decreasing_by all_goals omega

/-- `compact`: `old_index_to_page_map_index[self.page_map[i].index] = i` for `i in 0..new_len`, on
a table of `pages.len()` entries initialised to `usize::MAX` -/
def compactTable (pm : PMap) (nPages newLen : Nat) : List Nat :=
  (List.range newLen).foldl (fun t i => t.set (pm.getD i (0, 0)).2 i) (List.replicate nPages USIZE_MAX)

/-- `compact_pages`: walk the table (position `i` = old page index) with the running
`write_index`; a referenced page is copied DOWN to `pages[write_index]` (`write_index ≤ i`, so
the source has not been overwritten) and its map entry is re-pointed.  (`.take(self.pages.len())`
is the identity: the table has `pages.len()` entries.) -/
def compactPagesLoop : List Nat → Nat → Nat → List CPage → PMap → List CPage × PMap
  | [], _, _, pages, pm => (pages, pm)
  | pmi :: rest, i, w, pages, pm =>
    if pmi = USIZE_MAX then compactPagesLoop rest (i + 1) w pages pm
    else
      let pages' := if w < i then pages.set w (pages.getD i CPage.zero) else pages
      let pm' := pm.set pmi ((pm.getD pmi (0, 0)).1, w)
      compactPagesLoop rest (i + 1) (w + 1) pages' pm'

/-- `BitSet::compact(new_len)` -/
def compact (pm : PMap) (pages : List CPage) (newLen : Nat) : List CPage × PMap :=
  compactPagesLoop (compactTable pm pages.length newLen) 0 0 pages pm

/-- `Vec::resize(new_len, value)` -/
def resizeList {α : Type} (l : List α) (n : Nat) (d : α) : List α :=
  l.take n ++ List.replicate (n - l.length) d

/-- loop state of Steps 3 and 4 -/
structure Step3 where
  pm : PMap
  pages : List CPage
  idxA : Nat
  idxB : Nat
  count : Nat
  nextPage : Nat
deriving Repr

/-- Steps 3 / 4, a page present on BOTH sides (`Ordering::Equal`): `idx_a -= 1; idx_b -= 1;
count -= 1; page_map[count] = page_map[idx_a]; *page_for_index_mut(count) =
op(page_for_index(idx_a), other.page_for_index(idx_b))` — the result overwrites the left page
in place (same `index`), only the map entry moves. -/
def emitBoth (cop : CPage → CPage → CPage) (o : CBitSet) (st : Step3) : Step3 :=
  let idxA := st.idxA - 1
  let idxB := st.idxB - 1
  let count := st.count - 1
  let pm := st.pm.set count (st.pm.getD idxA (0, 0))
  let page := cop (pageForIndex pm st.pages idxA) (pageForIndex o.pageMap o.pages idxB)
  ⟨pm, setPageForIndex pm st.pages count page, idxA, idxB, count, st.nextPage⟩

/-- a left-only page that is passed through: `idx_a -= 1; count -= 1;
page_map[count] = page_map[idx_a]` (the page itself stays where it is) -/
def emitLeft (st : Step3) : Step3 :=
  { st with pm := st.pm.set (st.count - 1) (st.pm.getD (st.idxA - 1) (0, 0)),
            idxA := st.idxA - 1, count := st.count - 1 }

/-- a left-only page that is dropped: `idx_a -= 1` -/
def skipLeft (st : Step3) : Step3 := { st with idxA := st.idxA - 1 }

/-- a right-only page that is passed through: `idx_b -= 1; count -= 1; page_map[count] =
{ major of other.page_map[idx_b], index: next_page }; next_page += 1;
*page_for_index_mut(count) = other.page_for_index(idx_b).clone()` — appended at the END of the
used part of `pages` -/
def emitRight (o : CBitSet) (st : Step3) : Step3 :=
  let idxB := st.idxB - 1
  let count := st.count - 1
  let pm := st.pm.set count ((o.pageMap.getD idxB (0, 0)).1, st.nextPage)
  let pages := setPageForIndex pm st.pages count (pageForIndex o.pageMap o.pages idxB)
  { st with pm := pm, pages := pages, idxB := idxB, count := count, nextPage := st.nextPage + 1 }

/-- a right-only page that is dropped: `idx_b -= 1` -/
def skipRight (st : Step3) : Step3 := { st with idxB := st.idxB - 1 }

/-- Step 3 of `process`: merge from the LAST page to the first (`while idx_a > 0 && idx_b > 0`),
writing map entries at `page_map[count]` (filling the resized map from the back). -/
def processStep3 (cop : CPage → CPage → CPage) (ptl ptr : Bool) (o : CBitSet) (st : Step3) : Step3 :=
  if st.idxA > 0 ∧ st.idxB > 0 then
    let aMajor := (st.pm.getD (st.idxA - 1) (0, 0)).1
    let bMajor := (o.pageMap.getD (st.idxB - 1) (0, 0)).1
    if aMajor = bMajor then processStep3 cop ptl ptr o (emitBoth cop o st)
    else if aMajor > bMajor then
      processStep3 cop ptl ptr o (if ptl then emitLeft st else skipLeft st)
    else processStep3 cop ptl ptr o (if ptr then emitRight o st else skipRight st)
  else st
termination_by st.idxA + st.idxB
decreasing_by
  all_goals (first
    | (simp only [emitBoth]; omega)
    | (split <;> simp only [emitLeft, skipLeft, emitRight, skipRight] <;> omega))

/-- Step 4, left (`if passthrough_left`): `while idx_a > 0 { idx_a -= 1; count -= 1;
page_map[count] = page_map[idx_a] }` -/
def processStep4Left (st : Step3) : Step3 :=
  if st.idxA > 0 then processStep4Left (emitLeft st) else st
termination_by st.idxA
decreasing_by simp only [emitLeft]; omega

/-- Step 4, right (`if passthrough_right`): `while idx_b > 0 { … clone the right page … }` -/
def processStep4Right (o : CBitSet) (st : Step3) : Step3 :=
  if st.idxB > 0 then processStep4Right o (emitRight o st) else st
termination_by st.idxB
decreasing_by simp only [emitRight]; omega

/-- `BitSet::process(op, other)` -/
def CBitSet.process (cop : CPage → CPage → CPage) (s o : CBitSet) : CBitSet :=
  let pt := cPassthrough cop
  let ptl := pt.1
  let ptr := pt.2
  let lenA := s.pages.length
  let lenB := o.pages.length
  -- Step 1
  let s1 := processStep1 ptl ptr o.pageMap lenA lenB s.pageMap 0 0 0 0
  let count := s1.count + (if ptl then lenA - s1.idxA else 0) + (if ptr then lenB - s1.idxB else 0)
  -- Step 2
  let c := if !ptl then compact s1.pm s.pages s1.writeIdx else (s.pages, s1.pm)
  let lenA' := if !ptl then s1.writeIdx else lenA
  let nextPage := lenA'
  let pm2 := resizeList c.2 count (0, 0)
  let pages2 := resizeList c.1 count CPage.zero
  -- Step 3
  let s3 := processStep3 cop ptl ptr o ⟨pm2, pages2, lenA', lenB, count, nextPage⟩
  -- Step 4
  let s4 := if ptl then processStep4Left s3 else s3
  let s5 := if ptr then processStep4Right o s4 else s4
  let pm := resizeList s5.pm count (0, 0)
  let pages := resizeList s5.pages count CPage.zero
  ⟨pages, pm, cSumLens pages⟩

/-- `BitSet::union` -/
def CBitSet.union := CBitSet.process CPage.union
/-- `BitSet::intersect` -/
def CBitSet.intersect := CBitSet.process CPage.intersect
/-- `BitSet::subtract` -/
def CBitSet.subtract := CBitSet.process CPage.subtract
/-- `BitSet::reversed_subtract` -/
def CBitSet.reversedSubtract := CBitSet.process CPage.revSubtract

/-! ## `IntSet` over the concrete `BitSet` -/

structure CIntSet where
  inverted : Bool
  set : CBitSet
deriving Repr, Inhabited

def CIntSet.abs (s : CIntSet) : IntSet := ⟨s.inverted, s.set.abs⟩

def CIntSet.empty : CIntSet := ⟨false, CBitSet.empty⟩
def CIntSet.all : CIntSet := ⟨true, CBitSet.empty⟩

def CIntSet.insert (s : CIntSet) (v : Nat) : CIntSet × Bool :=
  if s.inverted then let r := s.set.remove v; (⟨true, r.1⟩, r.2)
  else let r := s.set.insert v; (⟨false, r.1⟩, r.2)

def CIntSet.remove (s : CIntSet) (v : Nat) : CIntSet × Bool :=
  if s.inverted then let r := s.set.insert v; (⟨true, r.1⟩, r.2)
  else let r := s.set.remove v; (⟨false, r.1⟩, r.2)

def CIntSet.insertRange (d : Domain) (s : CIntSet) (a b : Nat) : CIntSet :=
  if d.continuous then
    if s.inverted then ⟨true, s.set.removeRange a b⟩ else ⟨false, s.set.insertRange a b⟩
  else
    let vs := expand (d.rangeValues a b)
    if s.inverted then ⟨true, s.set.removeAll vs⟩ else ⟨false, s.set.extend vs⟩

def CIntSet.removeRange (d : Domain) (s : CIntSet) (a b : Nat) : CIntSet :=
  if d.continuous then
    if s.inverted then ⟨true, s.set.insertRange a b⟩ else ⟨false, s.set.removeRange a b⟩
  else
    let vs := expand (d.rangeValues a b)
    if s.inverted then ⟨true, s.set.extend vs⟩ else ⟨false, s.set.removeAll vs⟩

/-- `IntSet::extend` (through `BitSetBuilder`) -/
def CIntSet.extend (s : CIntSet) (vs : List Nat) : CIntSet :=
  if s.inverted then ⟨true, s.set.removeAll vs⟩ else ⟨false, s.set.extend vs⟩

/-- `IntSet::extend_unsorted` -/
def CIntSet.extendUnsorted (s : CIntSet) (vs : List Nat) : CIntSet :=
  if s.inverted then ⟨true, s.set.removeAll vs⟩ else ⟨false, s.set.extendUnsorted vs⟩

def CIntSet.removeAll (s : CIntSet) (vs : List Nat) : CIntSet :=
  if s.inverted then ⟨true, s.set.extend vs⟩ else ⟨false, s.set.removeAll vs⟩

def CIntSet.invert (s : CIntSet) : CIntSet := ⟨!s.inverted, s.set⟩
def CIntSet.clear (_ : CIntSet) : CIntSet := CIntSet.empty

def CIntSet.union (a b : CIntSet) : CIntSet :=
  match a.inverted, b.inverted with
  | false, false => ⟨false, a.set.union b.set⟩
  | false, true => (CIntSet.mk false (a.set.reversedSubtract b.set)).invert
  | true, false => ⟨true, a.set.subtract b.set⟩
  | true, true => ⟨true, a.set.intersect b.set⟩

def CIntSet.intersect (a b : CIntSet) : CIntSet :=
  match a.inverted, b.inverted with
  | false, false => ⟨false, a.set.intersect b.set⟩
  | false, true => ⟨false, a.set.subtract b.set⟩
  | true, false => (CIntSet.mk true (a.set.reversedSubtract b.set)).invert
  | true, true => ⟨true, a.set.union b.set⟩

def CIntSet.subtract (a b : CIntSet) : CIntSet :=
  match a.inverted, b.inverted with
  | false, false => ⟨false, a.set.subtract b.set⟩
  | false, true => ⟨false, a.set.intersect b.set⟩
  | true, false => ⟨true, a.set.union b.set⟩
  | true, true => (CIntSet.mk true (a.set.reversedSubtract b.set)).invert

def CIntSet.contains (s : CIntSet) (v : Nat) : Bool :=
  if s.inverted then !s.set.contains v else s.set.contains v

end FontVerif.IntSet
