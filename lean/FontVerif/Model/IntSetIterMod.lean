/-
C14 — the iterator STATE MACHINES of `IntSet<T>`
(read-fonts/src/collections/int_set/mod.rs: `struct Iter`, `enum RangeIter`, and the constructor
sites `IntSet::iter`, `IntSet::iter_after`, `IntSet::iter_ranges_invertible`).

`Model/IntSet.lean` describes these iterators only by the sequences they yield
(`iterTake`, `iterBackTake`, `iterAfterTake`, `rangesInvertible`).  This file transcribes the
iterator structs themselves, one `next` / `next_back` call at a time, with their mutable fields.

The underlying iterators (`set_values : SetIter`, `all_values : AllValuesIter`,
`ranges : InclusiveRangeIter`) are *generic* (double-ended) iterators in the Rust.  Each one is
modelled as the list of the items it has not yet produced: `next()` pops the head of that list,
`next_back()` pops its last element, and both return `None` on the empty list.  That is exactly
the contract of a (fused) std `DoubleEndedIterator` over a finite sequence; all the concrete
instantiations in mod.rs (`BitSet::iter`, `BitSet::iter_after`, `BitSet::iter_ranges`,
`T::ordered_values`, `T::ordered_values_range`) are of that kind.

All arithmetic is on `Nat`; the two `u32` operations of `next_exclusive` are discussed there
(`start - 1` can trap in the strict profile, modelled as the outer `none`; `end + 1` cannot).
-/
import FontVerif.Model.IntSet
namespace FontVerif.IntSet

/-! ## the generic double-ended iterator contract -/

/-- `it.next()` of an underlying iterator whose remaining items are `l` -/
def popFront {α : Type} (l : List α) : Option α × List α := (l.head?, l.tail)

/-- `it.next_back()` of an underlying iterator whose remaining items are `l` -/
def popBack {α : Type} (l : List α) : Option α × List α := (l.getLast?, l.dropLast)

/-! ## (A) `struct Iter<SetIter, AllValuesIter>` -/

/-- mod.rs `struct Iter { set_values, all_values, next_skipped_forward, next_skipped_backward }` -/
structure Iter where
  /-- `set_values`: the remaining values of the underlying `BitSet` iterator -/
  setValues : List Nat
  /-- `all_values`: `None` for an inclusive set, `Some(remaining domain values)` otherwise -/
  allValues : Option (List Nat)
  nextSkippedForward : Option Nat
  nextSkippedBackward : Option Nat
deriving Repr, DecidableEq

/-- mod.rs `Iter::new(set_values, all_values)`: with `Some(_)` the first skip is pre-fetched
(`next_skipped_forward: set_values.next()`), the backward skip stays `None` -/
def Iter.new (setValues : List Nat) (allValues : Option (List Nat)) : Iter :=
  match allValues with
  | some _ =>
    let f := popFront setValues
    { nextSkippedForward := f.1, nextSkippedBackward := none, setValues := f.2,
      allValues := allValues }
  | none =>
    { nextSkippedForward := none, nextSkippedBackward := none, setValues := setValues,
      allValues := allValues }

/-- mod.rs `Iter::new_bidirectional`: `next_skipped_forward: set_values.next()` is evaluated
first, then `next_skipped_backward: set_values.next_back()` on what is left -/
def Iter.newBidirectional (setValues : List Nat) (allValues : Option (List Nat)) : Iter :=
  match allValues with
  | some _ =>
    let f := popFront setValues
    let b := popBack f.2
    { nextSkippedForward := f.1, nextSkippedBackward := b.1, setValues := b.2,
      allValues := allValues }
  | none =>
    { setValues := setValues, allValues := allValues, nextSkippedForward := none,
      nextSkippedBackward := none }

/-- the body of `Iter::next` for `all_values = Some(..)`:
`for index in all_values_it.by_ref() { loop { … } } None`.
Arguments: the opposite direction's pending skip `bwd` (read only), the remaining `all_values`,
the remaining `set_values`, and `next_skipped_forward`.  Result: the returned item and the new
`(all_values, set_values, next_skipped_forward)`.

* first equation: the `for` loop is exhausted → `None`;
* `fwd = None`: only the pending backward skip is compared (`skip == index` → `break`, i.e. go
  to the next `index`; otherwise `return Some(index)`);
* `fwd = Some(skip)`: `index < skip` → `return Some(index)` (nothing is refilled); otherwise
  `next_skipped_forward = set_values.next()` and then `index > skip` → `continue` (same `index`,
  new skip), `index == skip` → `break` (next `index`). -/
def Iter.nextLoop (bwd : Option Nat) :
    List Nat → List Nat → Option Nat → Option Nat × (List Nat × List Nat × Option Nat)
  | [], sv, fwd => (none, ([], sv, fwd))
  | index :: all, sv, none =>
    if bwd = some index then Iter.nextLoop bwd all sv none
    else (some index, (all, sv, none))
  | index :: all, sv, some skip =>
    if index < skip then (some index, (all, sv, some skip))
    else
      let r := popFront sv
      if index > skip then Iter.nextLoop bwd (index :: all) r.2 r.1
      else Iter.nextLoop bwd all r.2 r.1
termination_by all sv fwd => (all.length, sv.length + (if fwd.isSome then 1 else 0))
decreasing_by
  · simp_wf; exact Prod.Lex.left _ _ (by omega)
  · simp_wf
    apply Prod.Lex.right
    cases sv <;> simp [popFront]
  · simp_wf; exact Prod.Lex.left _ _ (by omega)

/-- mod.rs `impl Iterator for Iter`: `next` -/
def Iter.next (it : Iter) : Option Nat × Iter :=
  match it.allValues with
  | none =>
    let r := popFront it.setValues
    (r.1, { it with setValues := r.2 })
  | some all =>
    let r := Iter.nextLoop it.nextSkippedBackward all it.setValues it.nextSkippedForward
    (r.1, { it with allValues := some r.2.1, setValues := r.2.2.1, nextSkippedForward := r.2.2.2 })

/-- the body of `Iter::next_back` for `all_values = Some(..)`:
`for index in all_values_it.by_ref().rev() { loop { … } } None`.
Both underlying iterators are consumed from the back, so the two list arguments are the remaining
items in REVERSE order (`allRev`, `svRev`): popping their head is `next_back()`.
Mirror image of `nextLoop`: `fwd` is the read-only opposite skip; `index > skip` returns,
otherwise `next_skipped_backward = set_values.next_back()`, then `index < skip` → `continue`,
`index == skip` → `break`. -/
def Iter.nextBackLoop (fwd : Option Nat) :
    List Nat → List Nat → Option Nat → Option Nat × (List Nat × List Nat × Option Nat)
  | [], svRev, bwd => (none, ([], svRev, bwd))
  | index :: allRev, svRev, none =>
    if fwd = some index then Iter.nextBackLoop fwd allRev svRev none
    else (some index, (allRev, svRev, none))
  | index :: allRev, svRev, some skip =>
    if index > skip then (some index, (allRev, svRev, some skip))
    else
      let r := popFront svRev
      if index < skip then Iter.nextBackLoop fwd (index :: allRev) r.2 r.1
      else Iter.nextBackLoop fwd allRev r.2 r.1
termination_by allRev svRev bwd => (allRev.length, svRev.length + (if bwd.isSome then 1 else 0))
decreasing_by
  · simp_wf; exact Prod.Lex.left _ _ (by omega)
  · simp_wf
    apply Prod.Lex.right
    cases svRev <;> simp [popFront]
  · simp_wf; exact Prod.Lex.left _ _ (by omega)

/-- mod.rs `impl DoubleEndedIterator for Iter`: `next_back` -/
def Iter.nextBack (it : Iter) : Option Nat × Iter :=
  match it.allValues with
  | none =>
    let r := popBack it.setValues
    (r.1, { it with setValues := r.2 })
  | some all =>
    let r := Iter.nextBackLoop it.nextSkippedForward all.reverse it.setValues.reverse
      it.nextSkippedBackward
    (r.1, { it with allValues := some r.2.1.reverse, setValues := r.2.2.1.reverse,
                    nextSkippedBackward := r.2.2.2 })

/-- the first `k` items of the iterator (`.take(k)`: stops at the first `None`) -/
def Iter.take : Nat → Iter → List Nat
  | 0, _ => []
  | k + 1, it =>
    match it.next with
    | (none, _) => []
    | (some v, it') => v :: Iter.take k it'

/-- the first `k` items of `.rev()` -/
def Iter.takeBack : Nat → Iter → List Nat
  | 0, _ => []
  | k + 1, it =>
    match it.nextBack with
    | (none, _) => []
    | (some v, it') => v :: Iter.takeBack k it'

/-- the state after `k` calls of `next` -/
def Iter.afterNexts : Nat → Iter → Iter
  | 0, it => it
  | k + 1, it => Iter.afterNexts k it.next.2

/-- an arbitrary interleaving of calls: `true` = `next()`, `false` = `next_back()`; the result
lists, per call, which end was asked and what came back -/
def Iter.runSchedule : List Bool → Iter → List (Bool × Option Nat)
  | [], _ => []
  | true :: rest, it => (true, it.next.1) :: Iter.runSchedule rest it.next.2
  | false :: rest, it => (false, it.nextBack.1) :: Iter.runSchedule rest it.nextBack.2

/-- mod.rs `IntSet::iter` (before the final `.map(from_u32)`): `s.iter()` is `BitSet::iter`
(`BitSet.members`), `T::ordered_values()` is `expand d.ranges` -/
def IntSet.iterMachine (d : Domain) (s : IntSet) : Iter :=
  if s.inverted then Iter.newBidirectional s.set.members (some (expand d.ranges))
  else Iter.newBidirectional s.set.members none

/-- `ordered_values_range(a..=b)` as the remaining-items list of the model: the domain values
`v` with `a ≤ v ≤ b` -/
def orderedValuesRange (D : List Nat) (a b : Nat) : List Nat :=
  D.filter (fun x => decide (a ≤ x) && decide (x ≤ b))

/-- mod.rs `IntSet::iter_after(value)`; `BitSet::iter_after(v)` is `members.filter (· > v)` (as in
`IntSet.iterAfterTake`).  Exclusive arm: `max` = last domain value (`T::ordered_values().next_back()` = `d.max?`); `it` = the domain values of
`value..=max` with one item skipped (`it.next()`: that item is `value` itself because `value: T`
is a domain value); `min` = the next one; the machine then walks `ordered_values_range(min..=max)`.
If `min` or `max` does not exist: `Iter::new(s.iter_after(u32::MAX), None)`, which is empty. -/
def IntSet.iterAfterMachine (d : Domain) (s : IntSet) (value : Nat) : Iter :=
  let D := expand d.ranges
  if s.inverted then
    let max := d.max?
    let it := max.map (fun mx => (popFront (orderedValuesRange D value mx)).2)
    let min := it.bind (fun it => (popFront it).1)
    match min, max with
    | some mn, some mx =>
      Iter.new (s.set.members.filter (fun x => decide (x > value)))
        (some (orderedValuesRange D mn mx))
    | _, _ => Iter.new [] none
  else Iter.new (s.set.members.filter (fun x => decide (x > value))) none

/-! ## (B) `enum RangeIter` -/

/-- mod.rs `enum RangeIter { Inclusive, InclusiveDiscontinuous, Exclusive, ExclusiveDiscontinuous }`.
The type parameter `T` is the `Domain` passed to `next`; `set: &BitSet` is represented by its
`contains` function.  `all_values: Option<AllValuesIter>` is always built as `Some(..)` and only
ever `.unwrap()`ped, so the field is the remaining list. -/
inductive RangeIter where
  | inclusive (ranges : List (Nat × Nat))
  | inclusiveDiscontinuous (ranges : List (Nat × Nat)) (currentRange : Option (Nat × Nat))
  | exclusive (ranges : List (Nat × Nat)) (min max : Nat) (done : Bool)
  | exclusiveDiscontinuous (allValues : List Nat) (set : Nat → Bool) (nextValue : Option Nat)

/-- the `InclusiveDiscontinuous` arm of `RangeIter::next` (`loop { … }`): returns the item and the
new `(ranges, current_range)`.
* `ranges.next() = None` → `return current_range.take()`;
* `current_range = None` → `*current_range = Some(next_range); continue`;
* `are_values_adjacent(range.end, next_range.start)` (= `Domain.adjacent`) → merge, `continue`;
* otherwise `*current_range = Some(next_range); return Some(range)`. -/
def nextInclusiveDiscontinuous (d : Domain) :
    List (Nat × Nat) → Option (Nat × Nat) → Option (Nat × Nat) × (List (Nat × Nat) × Option (Nat × Nat))
  | [], cur => (cur, ([], none))
  | nextRange :: rest, none => nextInclusiveDiscontinuous d rest (some nextRange)
  | nextRange :: rest, some range =>
    if d.adjacent range.2 nextRange.1 then
      nextInclusiveDiscontinuous d rest (some (range.1, nextRange.2))
    else (some range, (rest, some nextRange))

/-- the `loop` of `RangeIter::next_exclusive` (entered with `done = false`).  Result: outer `none`
= strict-profile trap; otherwise the returned item and the new `(ranges, min, done)` (`max` never
changes).
* `ranges.next() = None` → `done = true; return Some(min..=max)`;
* `next_range.contains(min)`: `end >= max` → `break` (then `done = true; None`), else
  `min = end + 1; continue` (`end < max ≤ u32::MAX`, so `end + 1` cannot overflow);
* otherwise `result = min..=(start - 1)`: a `u32` subtraction that underflows iff `start = 0`
  (only possible if the range lies entirely below `min`) — the strict profile (overflow-checks)
  traps there, a release build would wrap to `u32::MAX`; then `end < max` → `min = end + 1`
  else `done = true`; `return Some(result)`. -/
def nextExclusiveLoop (max : Nat) :
    List (Nat × Nat) → Nat → Option (Option (Nat × Nat) × (List (Nat × Nat) × Nat × Bool))
  | [], min => some (some (min, max), ([], min, true))
  | nextRange :: rest, min =>
    if nextRange.1 ≤ min ∧ min ≤ nextRange.2 then
      if nextRange.2 ≥ max then some (none, (rest, min, true))
      else nextExclusiveLoop max rest (nextRange.2 + 1)
    else if nextRange.1 = 0 then none
    else
      let result := (min, nextRange.1 - 1)
      if nextRange.2 < max then some (some result, (rest, nextRange.2 + 1, false))
      else some (some result, (rest, min, true))

/-- the `loop` of `RangeIter::next_discontinuous`, over the values still to come (`pending`) and
the local `current_range`; returns the item and the unconsumed values.
* no more values → `return current_range`;
* `set.contains(next)`: with a current range `return Some(range)` (`next` is dropped), without
  one `continue`;
* otherwise start (`next..=next`) or extend (`start..=next`) the current range. -/
def nextDiscontinuousLoop (contains : Nat → Bool) :
    List Nat → Option (Nat × Nat) → Option (Nat × Nat) × List Nat
  | [], cur => (cur, [])
  | next :: rest, cur =>
    if contains next then
      match cur with
      | some range => (some range, rest)
      | none => nextDiscontinuousLoop contains rest none
    else
      match cur with
      | none => nextDiscontinuousLoop contains rest (some (next, next))
      | some range => nextDiscontinuousLoop contains rest (some (range.1, next))

/-- mod.rs `impl Iterator for RangeIter`: `next`.  Outer `none` = strict-profile trap (only the
`Exclusive` arm can).  In `next_discontinuous` the first value of the loop is
`next_value.take().or_else(|| all_values_iter.next())`: `next_value` is emptied, and the values
the loop sees are `next_value` (if any) followed by `all_values` — so the loop runs on
`nextValue.toList ++ allValues` (no code path ever stores into `next_value`). -/
def RangeIter.next (d : Domain) : RangeIter → Option (Option (Nat × Nat) × RangeIter)
  | .inclusive ranges => some ((popFront ranges).1, .inclusive (popFront ranges).2)
  | .inclusiveDiscontinuous ranges cur =>
    let r := nextInclusiveDiscontinuous d ranges cur
    some (r.1, .inclusiveDiscontinuous r.2.1 r.2.2)
  | .exclusive ranges min max done =>
    if done then some (none, .exclusive ranges min max done)
    else
      match nextExclusiveLoop max ranges min with
      | none => none
      | some (item, (ranges', min', done')) => some (item, .exclusive ranges' min' max done')
  | .exclusiveDiscontinuous allValues set nextValue =>
    let r := nextDiscontinuousLoop set (nextValue.toList ++ allValues) none
    some (r.1, .exclusiveDiscontinuous r.2 set none)

/-- an upper bound on the number of items still to come -/
def RangeIter.size : RangeIter → Nat
  | .inclusive ranges => ranges.length
  | .inclusiveDiscontinuous ranges cur => ranges.length + cur.toList.length
  | .exclusive ranges _ _ done => if done then 0 else ranges.length + 1
  | .exclusiveDiscontinuous allValues _ nextValue => allValues.length + nextValue.toList.length

/-- run the iterator until it returns `None`, collecting the items (`for r in it` / `.collect()`);
`fuel` bounds the number of `next` calls (`size + 1` suffices); `none` = trap -/
def RangeIter.collectFuel (d : Domain) : Nat → RangeIter → Option (List (Nat × Nat))
  | 0, _ => some []
  | fuel + 1, it =>
    match it.next d with
    | none => none
    | some (none, _) => some []
    | some (some r, it') => (RangeIter.collectFuel d fuel it').map (r :: ·)

def RangeIter.collect (d : Domain) (it : RangeIter) : Option (List (Nat × Nat)) :=
  RangeIter.collectFuel d (it.size + 1) it

/-- mod.rs `IntSet::iter_ranges_invertible(inverted)` (before the final `.map`): the `RangeIter`
that is built.  `T::ordered_values().next()` / `.next_back()` are `d.min?` / `d.max?` (first / last
domain value, without expanding the domain); `none` = the `.unwrap()` panic of the `Exclusive` arm
on an empty domain. -/
def IntSet.rangeIterMachine (d : Domain) (s : IntSet) (inverted : Bool) : Option RangeIter :=
  if s.inverted = inverted then
    if d.continuous then some (.inclusive s.set.ranges)
    else some (.inclusiveDiscontinuous s.set.ranges none)
  else if d.continuous then
    match d.min?, d.max? with
    | some lo, some hi => some (.exclusive s.set.ranges lo hi false)
    | _, _ => none
  else some (.exclusiveDiscontinuous (expand d.ranges) s.set.contains none)

end FontVerif.IntSet
