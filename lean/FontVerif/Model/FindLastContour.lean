/-
Model/FindLastContour.lean — `UnscaledOutlineBuf::find_last_contour` (skrifa/src/outline/unscaled.rs), transcribed
statement by statement (translate/c02_blues.py compares the Rust body with the expected text on every run).

The outline is `len` points with their `is_contour_start` flags (`isStart : Nat → Bool`, arbitrary — nothing is assumed
about them); the caller's predicate `f` (an `FnMut(&UnscaledPoint) -> bool`, called at most once per point, in index
order) is the oracle `f : Nat → Bool` on the point index.
-/
namespace FontVerif.FindLastContour

/-- the locals: `best_contour` (start, end), `best_point`, `cur_contour` (start, end), `found_best_in_cur_contour` -/
structure FS where
  bS : Nat
  bE : Nat
  bP : Nat
  cS : Nat
  cE : Nat
  found : Bool
deriving Repr, DecidableEq

/-- one iteration of `for (point_ix, point) in self.points.iter().enumerate()` -/
def step (isStart f : Nat → Bool) (len : Nat) (st : FS) (p : Nat) : FS :=
  -- if point.is_contour_start { if found { best_contour = cur_contour } cur_contour = p..p; found = false; … }
  let st1 : FS :=
    if isStart p = true then
      if st.found = true then ⟨st.cS, st.cE, st.bP, p, p, false⟩ else ⟨st.bS, st.bE, st.bP, p, p, false⟩
    else st
  -- match self.points.get(p + 1) { Some(next) if next.is_contour_start => continue, None => continue, _ => {} }
  if isStart p = true ∧ (p + 1 < len → isStart (p + 1) = true) then st1
  else
    -- cur_contour.end += 1; if f(point) { best_point = p - cur_contour.start; found = true }
    if f p = true then ⟨st1.bS, st1.bE, p - st1.cS, st1.cS, st1.cE + 1, true⟩
    else ⟨st1.bS, st1.bE, st1.bP, st1.cS, st1.cE + 1, st1.found⟩

/-- iterations `p, p+1, …, p+k-1` -/
def loop (isStart f : Nat → Bool) (len : Nat) : Nat → Nat → FS → FS
  | _, 0, st => st
  | p, k + 1, st => loop isStart f len (p + 1) k (step isStart f len st p)

/-- `find_last_contour`: `Some((best_contour.start, best_contour.end, best_point))` or `None` -/
def findLastContour (isStart f : Nat → Bool) (len : Nat) : Option (Nat × Nat × Nat) :=
  -- if self.points.is_empty() { return None }  (the loop below does nothing and best_contour stays empty)
  let st := loop isStart f len 0 len ⟨0, 0, 0, 0, 0, false⟩
  -- if found { best_contour = cur_contour }
  let st : FS := if st.found = true then ⟨st.cS, st.cE, st.bP, st.cS, st.cE, st.found⟩ else st
  -- if !best_contour.is_empty() { Some((best_contour, best_point)) } else { None }
  if st.bS < st.bE then some (st.bS, st.bE, st.bP) else none

end FontVerif.FindLastContour
