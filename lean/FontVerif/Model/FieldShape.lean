/-
C04 ↔ C01: the reader layouts of `Model/Field.lean` (`List RF`, extracted by translate/writers.py) against the
reader shapes of `Model/Shape.lean` (`Shape`, extracted independently by translate/shapes.py for C01, whose generic
theorem proves those readers safe).  `agrees s rs` is a decidable, purely structural comparison: same number of
fields; field `i` of the shape's grouped program (`Shape.prog`) is a scalar of the same width, or an array whose
byte length is `count × element size` with the same count expression (`x as usize` ↦ `affine x 1 0`,
`transforms::subtract(x, n)` ↦ `affine x 1 n`, `transforms::half(x)` ↦ `affine x 2 0`, a literal, or
`remaining_bytes() / n * n` ↦ `rest`) and the same total element size, under the same condition on the same
previously read field.  Locals of the shape (`readVar x`) are resolved to the field that binds them.

It is a cross-check of two independent extractions of the same generated source and names the object C01's safety
theorem is about; it is *not* a proof that `Field.parse` computes what `Shape.run` + the getters compute (that is
exercised by the `rt` correspondence cases).
-/
import FontVerif.Model.Shape
import FontVerif.Model.Field

namespace FontVerif.FieldShape
open FontVerif

/-- the field of the grouped program that binds local `x` -/
def fieldOfVar (prog : List Shape.FieldP) (x : Nat) : Option Nat :=
  (prog.find? fun fp => fp.readsVar == some x).map (·.id)

def condAgrees (prog : List Shape.FieldP) (c : Shape.Cond) (rc : Option (Nat × Field.Cond)) : Bool :=
  match rc with
  | none => false
  | some (g, fc) =>
    match c, fc with
    | .geU16 x v, .geU16 v' => fieldOfVar prog x == some g && v == v'
    | .compatMM x a b, .compatMM a' b' => fieldOfVar prog x == some g && a == a' && b == b'
    | .compatV16 x a b, .compatV16 a' b' => fieldOfVar prog x == some g && a == a' && b == b'
    | .contains x bits, .contains bits' => fieldOfVar prog x == some g && bits == bits'
    | .intersects x bits, .intersects bits' => fieldOfVar prog x == some g && bits == bits'
    | _, _ => false

def countAgrees (prog : List Shape.FieldP) (e : Shape.Expr) (rc : Field.RCount) : Bool :=
  match e, rc with
  | .asUsize x t, .affine g a b => fieldOfVar prog x == some g && a == 1 && b == 0 && !t.signed
  | .lit n, .lit n' => n == n'
  | .xform .subtract [.var x t, .lit n], .affine g a b => fieldOfVar prog x == some g && a == 1 && b == n && !t.signed
  | .xform .half [.var x t], .affine g a b => fieldOfVar prog x == some g && a == 2 && b == 0 && !t.signed
  | _, _ => false

def lenAgrees (prog : List Shape.FieldP) (l : Shape.Len) (cnt : Field.RCount) (elem : List Nat) : Bool :=
  match l with
  | .mul c (.const k) => countAgrees prog c cnt && k == Field.elemSize elem
  | .remFloor k => cnt == .rest && k == Field.elemSize elem
  | _ => false

def fieldAgrees (prog : List Shape.FieldP) (fp : Shape.FieldP) (r : Field.RF) : Bool :=
  fp.id == r.id &&
  match fp.kind, r.item with
  | .scalar sz _, .scalar sz' => r.cond.isNone && sz == sz'
  | .condScalar c sz _, .scalar sz' => condAgrees prog c r.cond && sz == sz'
  | .computed l, .array cnt elem => r.cond.isNone && lenAgrees prog l cnt elem
  | .condComputed c l, .array cnt elem => condAgrees prog c r.cond && lenAgrees prog l cnt elem
  | _, _ => false

def agreesAux (prog : List Shape.FieldP) : List Shape.FieldP → List Field.RF → Bool
  | [], [] => true
  | fp :: fps, r :: rs => fieldAgrees prog fp r && agreesAux prog fps rs
  | _, _ => false

/-- the reader layout `rs` is the value-level reading of the C01 shape `s` (which takes no external arguments) -/
def agrees (s : Shape.Shape) (rs : List Field.RF) : Bool :=
  s.args.isEmpty && agreesAux s.prog s.prog rs

end FontVerif.FieldShape
