/-
C04 ↔ C01: the reader layouts of `Model/Field.lean` (`List RF`, extracted by translate/writers.py) against the
reader shapes of `Model/Shape.lean` (`Shape`, extracted independently by translate/shapes.py for C01, whose generic
theorem proves those readers safe).  `agrees names s rs` is a decidable, purely structural comparison: same number of
fields; field `i` of the shape's grouped program (`Shape.prog`) is a scalar of the same width, or an array whose
byte length is `count × element size` with the same count expression and the same total element size, under the same
condition on the same previously read field.  Locals of the shape (`readVar x`) are resolved to the field that binds
them, the locals bound by `let (a, b) = *args` to the argument ids `argBase + i`.

count expressions: `x as usize` ↦ `affine x 1 0` (or `expr (field x)` when `x` is an argument / a computed count),
`transforms::subtract(x, n)` ↦ `affine x 1 n`, `transforms::half(x)` ↦ `affine x 2 0`, a literal,
`remaining_bytes() / n * n` ↦ `rest`, any other `transforms::f(..)` ↦ `expr` of the transcription of `f`
(`xformNExpr`), a hand-written count function ↦ `expr (app f ..)` with the same function *name* (C01's generated name
table `names`).  element sizes: a constant ↦ the sum of the scalar widths; `<R as ComputeSize>::compute_size(&args)`
↦ a computed layout (`arrayV`) that reads no field / argument outside `args`; `VarSize` ↦ `arrayL` with the same
prefix width, item size and constant.

It is a cross-check of two independent extractions of the same generated source and names the object C01's safety
theorem is about; it is *not* a proof that `Field.parse` computes what `Shape.run` + the getters compute (that is
exercised by the `rt` correspondence cases).
-/
import FontVerif.Model.Shape
import FontVerif.Model.Field

namespace FontVerif.FieldShape
open FontVerif

/-- the field of the grouped program that binds local `x` -/
def fieldOfVar (prog : List Shape.FieldP) (x : Nat) : Option Nat :=
  (prog.find? fun fp => fp.readsVar == some x).map (·.id)

def indexOf (x : Nat) : List Nat → Nat → Option Nat
  | [], _ => none
  | a :: as, i => if a == x then some i else indexOf x as (i + 1)

/-- the view entry that holds local `x`: an argument, or the field that reads it -/
def idOfVar (args : List Nat) (prog : List Shape.FieldP) (x : Nat) : Option Nat :=
  match indexOf x args 0 with
  | some i => some (Field.argBase + i)
  | none => fieldOfVar prog x

def condAgrees (args : List Nat) (prog : List Shape.FieldP) (c : Shape.Cond) (rc : Option (Nat × Field.Cond)) : Bool :=
  match rc with
  | none => false
  | some (g, fc) =>
    match c, fc with
    | .geU16 x v, .geU16 v' => idOfVar args prog x == some g && v == v'
    | .compatMM x a b, .compatMM a' b' => idOfVar args prog x == some g && a == a' && b == b'
    | .compatV16 x a b, .compatV16 a' b' => idOfVar args prog x == some g && a == a' && b == b'
    | .contains x bits, .contains bits' => idOfVar args prog x == some g && bits == bits'
    | .intersects x bits, .intersects bits' => idOfVar args prog x == some g && bits == bits'
    | _, _ => false

/-- an argument of a transform / custom function as an expression over view entries (unsigned locals only) -/
def atomNExpr (args : List Nat) (prog : List Shape.FieldP) : Shape.Atom → Option Field.NExpr
  | .lit n => some (.lit n)
  | .var x t => if t.signed then none else (idOfVar args prog x).map Field.NExpr.field

def atomsNExpr (args : List Nat) (prog : List Shape.FieldP) : List Shape.Atom → Option (List Field.NExpr)
  | [] => some []
  | a :: as =>
    match atomNExpr args prog a, atomsNExpr args prog as with
    | some e, some es => some (e :: es)
    | _, _ => none

/-- `read-fonts/src/lib.rs codegen_prelude::transforms`, as `NExpr` (cf. `Shape.evalXform`) -/
def xformNExpr : Shape.Xform → List Field.NExpr → Option Field.NExpr
  | .subtract, [a, b] => some (.sub a b)
  | .add, [a, b] => some (.add a b)
  | .bitmapLen, [a] => some (.divCeil a 8)
  | .maxValueBitmapLen, [a] => some (.divCeil (.add a (.lit 1)) 8)
  | .addMultiply, [a, b, c] => some (.mul (.add a b) c)
  | .multiplyAdd, [a, b, c] => some (.add (.mul a b) c)
  | .half, [a] => some (.div a 2)
  | .subtractAddTwo, [a, b] => some (.add (.sub a b) (.lit 2))
  | _, _ => none

/-- the Rust path of a hand-written count function, as C01's name table spells it -/
def cfnName : Field.CFn → String
  | .valueCount => "DeltaFormat::value_count"
  | .mapSize => "EntryFormat::map_size"
  | .deltaSetsLen => "ItemVariationData::delta_sets_len"
  | .tupleLen => "TupleIndex::tuple_len"

def customAgrees (names : List String) (f : Nat) (es : List Field.NExpr) : Field.NExpr → Bool
  | .app cf a b c =>
    names[f]? == some (cfnName cf) &&
    (match es with
     | [x] => a == x && b == .lit 0 && c == .lit 0
     | [x, y] => a == x && b == y && c == .lit 0
     | [x, y, z] => a == x && b == y && c == z
     | _ => false)
  | _ => false

def countAgrees (names : List String) (args : List Nat) (prog : List Shape.FieldP) (e : Shape.Expr) (rc : Field.RCount) : Bool :=
  match e, rc with
  | .asUsize x t, .affine g a b => idOfVar args prog x == some g && a == 1 && b == 0 && !t.signed
  | .asUsize x t, .expr (.field g) => idOfVar args prog x == some g && !t.signed
  | .lit n, .lit n' => n == n'
  | .xform .subtract [.var x t, .lit n], .affine g a b => idOfVar args prog x == some g && a == 1 && b == n && !t.signed
  | .xform .half [.var x t], .affine g a b => idOfVar args prog x == some g && a == 2 && b == 0 && !t.signed
  | .xform f as, .expr e' =>
    (match atomsNExpr args prog as with
     | some es => xformNExpr f es == some e'
     | none => false)
  | .custom f as, .expr e' =>
    (match atomsNExpr args prog as with
     | some es => customAgrees names f es e'
     | none => false)
  | _, _ => false

/-- every field / argument a computed element layout reads is one of the arguments passed to `compute_size` -/
def segsWithin (args : List Nat) (prog : List Shape.FieldP) (sargs : List Nat) (segs : Field.Segs) : Bool :=
  (Field.segsRefs segs).all fun g => sargs.any fun x => idOfVar args prog x == some g

def lenAgrees (names : List String) (args : List Nat) (prog : List Shape.FieldP) (l : Shape.Len) : Field.RItem → Bool
  | .array cnt elem =>
    (match l with
     | .mul c (.const k) => countAgrees names args prog c cnt && k == Field.elemSize elem
     | .remFloor k => cnt == .rest && k == Field.elemSize elem
     | _ => false)
  | .arrayV cnt segs computed =>
    (match l with
     | .mul c (.compute _ sargs) => computed && countAgrees names args prog c cnt && segsWithin args prog sargs segs
     | .one (.compute _ sargs) => !computed && cnt == .lit 1 && segsWithin args prog sargs segs
     | _ => false)
  | .arrayL cnt hw item =>
    (match l with
     | .varLen k c => countAgrees names args prog c cnt && k.prefixSize == hw && k.mul == Field.elemSize item && k.add == hw
     | _ => false)
  | .scalar _ => false

def fieldAgrees (names : List String) (args : List Nat) (prog : List Shape.FieldP) (fp : Shape.FieldP) (r : Field.RF) : Bool :=
  fp.id == r.id &&
  match fp.kind, r.item with
  | .scalar sz _, .scalar sz' => r.cond.isNone && sz == sz'
  | .condScalar c sz _, .scalar sz' => condAgrees args prog c r.cond && sz == sz'
  | .computed l, item => r.cond.isNone && lenAgrees names args prog l item
  | .condComputed c l, item => condAgrees args prog c r.cond && lenAgrees names args prog l item
  | _, _ => false

def agreesAux (names : List String) (args : List Nat) (prog : List Shape.FieldP) : List Shape.FieldP → List Field.RF → Bool
  | [], [] => true
  | fp :: fps, r :: rs => fieldAgrees names args prog fp r && agreesAux names args prog fps rs
  | _, _ => false

/-- the reader layout `rs` is the value-level reading of the C01 shape `s`; `names` = C01's table of hand-written
count function names (`Gen.ReadShapes.customNames`) -/
def agrees (names : List String) (s : Shape.Shape) (rs : List Field.RF) : Bool :=
  agreesAux names s.args s.prog s.prog rs

end FontVerif.FieldShape
