/-
Model of the COLR version 0 part of the palette-index closure that feeds klippa's `plan.colr_palettes`
(C17): read-fonts `Colr::v0_closure_palette_indices` (read-fonts/src/tables/colr/closure.rs) as called by
klippa lib.rs `Plan::colr_closure` (`colr.v0_closure_palette_indices(&self.glyphset_colred, &mut palette_indices)`),
the `IntSet<u16>` the indices are collected in (ascending iteration), and `remap_palette_indices`
(Model/SubsetCpal.lean).  The COLRv1 part of the closure (`v1_closure`, the paint traversal) stays an input (`v1`).
Base glyph records are (glyph id, firstLayerIndex, numLayers), layer records (glyph id, palette index), as
`base_glyph_records()` / `layer_records()` yield them; the record is found with `binary_search_by` (C16's model).
-/
import FontVerif.Model.Layout
import FontVerif.Model.SubsetCpal
namespace FontVerif.SubsetColrPal
open FontVerif FontVerif.Layout

/-- the palette indices `v0_closure_palette_indices` inserts for ONE glyph of the set, in program order -/
def v0PalOfGlyph (records : List (Nat × Nat × Nat)) (layers : List (Nat × Nat)) (g : Nat) : List Nat :=
  if g ≥ 65536 then [] else            -- `glyph_id.try_into()` (GlyphId → GlyphId16) fails: `continue`
  match binarySearchBy records.length (fun i => natCmp ((records.getD i (0, 0, 0)).1) g) with
  | .err _ => []
  | .ok idx =>
    let rec_ := records.getD idx (0, 0, 0)
    -- `for layer_index in start..end { if let Ok((_gid, palette_id)) = self.v0_layer(layer_index) {..} }`
    (List.range' rec_.2.1 rec_.2.2).filterMap (fun li => (layers[li]?).map (·.2))

/-- all insertions for a glyph set (ascending iteration of the `IntSet<GlyphId>`) -/
def v0Palettes (records : List (Nat × Nat × Nat)) (layers : List (Nat × Nat)) (glyphs : List Nat) : List Nat :=
  glyphs.flatMap (v0PalOfGlyph records layers)

/-- `IntSet<u16>` as its ascending iteration -/
def paletteSet (xs : List Nat) : List Nat := sortDedup xs

/-- `plan.colr_palettes` from the two parts of the closure (v1 first, then v0 — order is irrelevant for a set) -/
def colrPalettes (v1 : List Nat) (records : List (Nat × Nat × Nat)) (layers : List (Nat × Nat)) (colred : List Nat) :
    List (Nat × Nat) :=
  SubsetCpal.remapPaletteIndices (paletteSet (v1 ++ v0Palettes records layers colred))

end FontVerif.SubsetColrPal
