/-
Model of `SimpleGlyph::from_bezpath` (write-fonts/src/tables/glyf/simple.rs:
`simple_glyphs_from_kurbo` for ONE path, `InterpolatableContourBuilder::{new, line_to, quad_to,
remove_last, build}`, `is_implicit_on_curve`, `is_mid_point`, `BezPath::control_box`) restricted to
paths whose coordinates are INTEGERS in the i16 range.

What the restriction removes: `ot_round` (`(v + 0.5).floor() as i16`) is the identity on such
values, `kurbo::Point::midpoint` `(p0 + p2) / 2` is exact in f64, and `util::isclose(mid, p1)`
(rel_tol 1e-9, abs_tol 0) holds iff `mid == p1` because two distinct values on the half-integer
grid below 2^15 differ by ≥ 0.5 > 1e-9·2^15.  Hence `is_mid_point p0 p1 p2 ⇔ p0 + p2 = 2·p1`
componentwise (both disjuncts of the Rust expression).  Float rounding for non-integer input is
NOT modelled.
-/
import FontVerif.Model.Glyf
import FontVerif.Model.ToPath
namespace FontVerif.GlyfPath
open FontVerif FontVerif.Glyf

/-- `kurbo::PathEl` with integer coordinates (the payload of a cubic is irrelevant) -/
inductive El
  | move (x y : Int)
  | line (x y : Int)
  | quad (cx cy x y : Int)
  | cubic
  | close
deriving DecidableEq, Repr

/-- `MalformedPath` (the variants reachable with a single path) -/
inductive Malformed
  | hasCubic
  | missingMove
deriving DecidableEq, Repr

/-- `WrappingGet::wrapping_prev` -/
def wrapPrev (l : List Point) (i : Nat) : Option Point :=
  if i = 0 then l[l.length - 1]? else l[i - 1]?

/-- `WrappingGet::wrapping_next` -/
def wrapNext (l : List Point) (i : Nat) : Option Point :=
  if i = l.length - 1 then l[0]? else l[i + 1]?

/-- `is_mid_point` on integer coordinates -/
def isMid (p0 p1 p2 : Point) : Bool :=
  decide (p0.x + p2.x = 2 * p1.x) && decide (p0.y + p2.y = 2 * p1.y)

/-- the body of `is_implicit_on_curve` once `p0 = wrapping_prev`, `p1 = points[idx]`,
`p2 = wrapping_next` are fetched -/
def implicit3 (p0 p1 p2 : Point) : Bool :=
  if !p1.on then false
  else if p0.on || (p0.on != p2.on) then false
  else isMid p0 p1 p2

/-- `is_implicit_on_curve(points, idx)` -/
def isImplicit (l : List Point) (i : Nat) : Bool :=
  match l[i]?, wrapPrev l i, wrapNext l i with
  | some p1, some p0, some p2 => implicit3 p0 p1 p2
  | _, _, _ => false

/-- `InterpolatableContourBuilder::build` for one glyph: drop every implied on-curve point -/
def elide (l : List Point) : List Point :=
  ((List.range l.length).filter (fun i => !isImplicit l i)).filterMap (fun i => l[i]?)

/-- state of the element loop: finished contours and the current builder -/
structure St where
  done : List (List Point)
  cur : Option (List Point)
deriving Repr

/-- one iteration of the `for (i, elements) in path_iters.enumerate()` loop -/
def step (s : St) : El → Except Malformed St
  | .move x y =>
    .ok { done := (match s.cur with | some c => s.done ++ [c] | none => s.done),
          cur := some [⟨x, y, true⟩] }
  | .line x y =>
    match s.cur with
    | none => .error .missingMove
    | some c => .ok { s with cur := some (c ++ [⟨x, y, true⟩]) }
  | .quad cx cy x y =>
    match s.cur with
    | none => .error .missingMove
    | some c => .ok { s with cur := some (c ++ [⟨cx, cy, false⟩, ⟨x, y, true⟩]) }
  | .cubic => .error .hasCubic
  | .close =>
    match s.cur with
    | none => .error .missingMove
    | some c =>
      -- `contour.num_points() > 1 && contour.last().eq(contour.first())` → `remove_last`
      if c.length > 1 ∧ c.getLast? = c.head? then .ok { s with cur := some c.dropLast }
      else .ok s

def run : St → List El → Except Malformed St
  | s, [] => .ok s
  | s, e :: es =>
    match step s e with
    | .error m => .error m
    | .ok s' => run s' es

/-- the points `BezPath::control_box` looks at -/
def boxPts : List El → List (Int × Int)
  | [] => []
  | .move x y :: r => (x, y) :: boxPts r
  | .line x y :: r => (x, y) :: boxPts r
  | .quad cx cy x y :: r => (cx, cy) :: (x, y) :: boxPts r
  | _ :: r => boxPts r

def minL : List Int → Int
  | [] => 0
  | a :: r => r.foldl min a
def maxL : List Int → Int
  | [] => 0
  | a :: r => r.foldl max a

/-- `SimpleGlyph::from_bezpath(path)` on an integer path: contours (after elision) and the control
box as bbox; no instructions. -/
def fromBezpath (els : List El) : Except Malformed SimpleGlyph :=
  match run ⟨[], none⟩ els with
  | .error m => .error m
  | .ok s =>
    let cs := match s.cur with | some c => s.done ++ [c] | none => s.done
    let b := boxPts els
    .ok { xMin := minL (b.map (·.1)), yMin := minL (b.map (·.2)),
          xMax := maxL (b.map (·.1)), yMax := maxL (b.map (·.2)),
          contours := cs.map elide, instructions := [] }

/-! ## drawing a simple glyph, unscaled (skrifa/src/outline/glyf/mod.rs → outline/path.rs) -/

/-- skrifa's glyf scaler for a simple glyph with `Size::unscaled()`, no hinting, no variations:
the points come from `read_points_fast` (coordinates, flags reduced to the on-curve bit), are stored
as 26.6 (`unscaled.map(F26Dot6::from_i32)`, i.e. ×64), and are handed with the glyph's contour end
points to `to_path` in the default `PathStyle::FreeType`.  Pen coordinates are the `f32` values
× 64 (exact: |v| < 2^24). -/
def drawUnscaled (pts : List (Int × Int × Nat)) (ends : List Nat) :
    List ToPath.Cmd × Option ToPath.Err :=
  ToPath.toPath ToPath.fixedCoord .freeType (pts.map (fun p => (64 * p.1, 64 * p.2.1)))
    (pts.map (fun p => p.2.2)) ends

end FontVerif.GlyfPath
