/-
Model of klippa's subsetters for the OpenType layout COMMON tables (post-fix 546e1a4):

  klippa/src/layout.rs
    CoverageTable / CoverageFormat1 / CoverageFormat2 :: subset   (both strategies each)
    CoverageTable / CoverageFormat1 / CoverageFormat2 :: serialize
    ClassDef / ClassDefFormat1 / ClassDefFormat2 :: subset          (ClassDefSubsetStruct)
    classdef_remap_and_serialize
    ClassDef / ClassDefFormat1 / ClassDefFormat2 :: serialize
    Device / VariationIndex :: subset

The input tables are C16's structured reader views (`Layout.Coverage`, `Layout.ClassDef`: what
read-fonts hands to the subsetter after parsing); the lookups the subsetter performs on them
(`binary_search_by`, `CoverageTable::get`, `ClassDefFormat2::get`) are C16's reader models, so that
unsorted / overlapping hostile tables behave as in the Rust.  The output is the written table in
"as written" form (`CovW`, `Layout.ClassDef`) plus its byte image.

From the plan the subsetters read `glyphset_gsub` (ascending list), `glyph_map_gsub` (old -> new,
association list with distinct keys) and `font_num_glyphs`.

Errors: `empty` = `Err(SERIALIZE_ERROR_EMPTY)` (the caller usually just omits the subtable),
`soft` = another `Err(_)` returned WITHOUT flagging the serializer (lib.rs `subset` then silently
omits the whole table), `hard` = `s.set_err(..)` (the serializer is in error: `subset_font` fails),
`trap` = panic in the overflow-checked profile.
-/
import FontVerif.Model.Base
import FontVerif.Model.Layout
namespace FontVerif.SubsetLayout
open FontVerif FontVerif.Layout

inductive E where
  | empty | soft | hard | trap
  deriving Repr, DecidableEq

abbrev M := Except E

/-- the plan fields read by the layout subsetters -/
structure LPlan where
  /-- `plan.glyphset_gsub`, ascending -/
  glyphset : List Nat
  /-- `plan.glyph_map_gsub` (old, new) -/
  gmap : List (Nat × Nat)
  /-- `plan.font_num_glyphs` -/
  numGlyphs : Nat
  deriving Repr

/-- `plan.glyph_map_gsub.get(&gid)` -/
def LPlan.get (p : LPlan) (g : Nat) : Option Nat := p.gmap.lookup g

def be16 (v : Nat) : List Nat := [v / 256 % 256, v % 256]
def be32 (v : Nat) : List Nat := [v / 16777216 % 256, v / 65536 % 256, v / 256 % 256, v % 256]

/-- number of significant bits -/
def bitLen : Nat → Nat
  | 0 => 0
  | n + 1 => bitLen ((n + 1) / 2) + 1
  decreasing_by omega

/-- `slice.binary_search_by(..).ok().is_some()` -/
def bsFound (n : Nat) (cmpAt : Nat → Ordering) : Bool :=
  match binarySearchBy n cmpAt with
  | .ok _ => true
  | .err _ => false

/-! ## Coverage: which new glyph ids are retained -/

/-- `RangeRecord::population` / `ClassRangeRecord::population` -/
def popRange (s e : Nat) : Nat := if s > e then 0 else e - s + 1

/-- `CoverageFormat1::subset`: the `retained_glyphs` vector.  `glyph_count` is clamped to
`font_num_glyphs` (the tail of a longer array is ignored); strategy by size: binary search of
every glyph of the plan in the array, or one pass over the array. -/
def cov1Retained (p : LPlan) (xs : List Nat) : List Nat :=
  let gc := min xs.length p.numGlyphs
  let arr := xs.take gc
  let numBits := bitLen (gc % 65536)
  if gc > p.glyphset.length * numBits then
    p.glyphset.filterMap fun old =>
      if bsFound arr.length (fun i => natCmp (arr.getD i 0) old) then p.get old else none
  else arr.filterMap p.get

/-- `CoverageFormat2::subset`: more range records than glyphs is a (flagged) read error. -/
def cov2Retained (p : LPlan) (rs : List RangeRec) : M (List Nat) :=
  if rs.length > p.numGlyphs then .error .hard else
  let numBits := bitLen (rs.length % 65536)
  let pop := (rs.map fun r => popRange r.start r.end_).sum
  if pop > p.gmap.length * numBits then
    pure (p.glyphset.filterMap fun g =>
      if bsFound rs.length (fun i => rangeCmp (rs.getD i default) g) then p.get g else none)
  else pure (rs.flatMap fun r => r.glyphs.filterMap p.get)

def covRetained (p : LPlan) : Coverage → M (List Nat)
  | .fmt1 xs => pure (cov1Retained p xs)
  | .fmt2 rs => cov2Retained p rs

/-! ## Coverage: the writer -/

/-- a coverage table as written: format 1 = count field and the whole array that was allocated
(`count * 2` bytes also when `count as u16` truncated the field); format 2 = range count field and
the allocated records (trailing records stay zero when the 16-bit run count is smaller) -/
inductive CovW where
  | f1 (count : Nat) (glyphs : List Nat)
  | f2 (rangeCount : Nat) (recs : List RangeRec)
  deriving Repr, DecidableEq

def recBytes (r : RangeRec) : List Nat := be16 r.start ++ be16 r.end_ ++ be16 r.startCov

def CovW.bytes : CovW → List Nat
  | .f1 c gs => be16 1 ++ be16 c ++ gs.flatMap be16
  | .f2 c rs => be16 2 ++ be16 c ++ rs.flatMap recBytes

/-- what read-fonts parses from the written bytes -/
def CovW.toCoverage : CovW → Coverage
  | .f1 c gs => .fmt1 (gs.take c)
  | .f2 c rs => .fmt2 (rs.take c)

/-- number of positions `i ≥ 1` with `glyphs[i-1] + 1 != glyphs[i]` (u32 arithmetic) -/
def countBreaks : List Nat → Nat
  | a :: b :: rest => (if a + 1 ≠ b then 1 else 0) + countBreaks (b :: rest)
  | _ => 0

/-- the loop of `CoverageFormat2::serialize` (post-fix) on the `as u16` glyph ids: current record
`(a, b, si)`, `idx` = index of the next glyph; a new record starts when
`last.checked_add(1) != Some(g)`; its coverage index is `idx as u16`. -/
def cov2Go (a b si idx : Nat) : List Nat → List RangeRec
  | [] => [⟨a, b, si⟩]
  | g :: rest =>
    if b + 1 < 65536 ∧ b + 1 = g then cov2Go a g si (idx + 1) rest
    else ⟨a, b, si⟩ :: cov2Go g g (idx % 65536) (idx + 1) rest

def cov2Recs : List Nat → List RangeRec
  | [] => []
  | g :: rest => cov2Go g g 0 1 rest

/-- `CoverageTable::serialize(glyphs)` (`glyphs: &[u32]`): format 1 when
`glyph_count <= num_ranges * 3`.  `num_ranges` is a `u16` counter (trap on overflow). -/
def serializeCoverage (gs : List Nat) : M CovW :=
  if gs.isEmpty then pure (.f1 0 []) else
  let numRanges := 1 + countBreaks gs
  if numRanges ≥ 65536 then .error .trap else
  if gs.length ≤ numRanges * 3 then pure (.f1 (gs.length % 65536) (gs.map (· % 65536)))
  else
    let recs := cov2Recs (gs.map (· % 65536))
    if recs.length > numRanges then .error .hard
    else pure (.f2 numRanges (recs ++ List.replicate (numRanges - recs.length) ⟨0, 0, 0⟩))

/-- `CoverageTable::subset`: `Err(EMPTY)` when nothing is retained -/
def subsetCoverage (p : LPlan) (c : Coverage) : M CovW := do
  let gs ← covRetained p c
  if gs.isEmpty then throw .empty
  serializeCoverage gs

/-! ## ClassDef -/

/-- `ClassDefSubsetStruct` -/
structure CdArgs where
  remapClass : Bool
  keepEmpty : Bool
  useClassZero : Bool
  /-- `glyph_filter: Option<&CoverageTable>` -/
  filter : Option Coverage
  deriving Repr

def passFilter (a : CdArgs) (g : Nat) : Bool :=
  match a.filter with
  | none => true
  | some c => (c.get g).isSome

/-- `glyph_count <= new_gid_classes.len()` with `glyph_count` = number of plan glyphs (that pass
the filter) -/
def useClassZero (p : LPlan) (a : CdArgs) (nPairs : Nat) : Bool :=
  if a.useClassZero then
    let gc := match a.filter with
      | none => p.gmap.length
      | some _ => (p.gmap.filter fun kv => passFilter a kv.1).length
    decide (gc ≤ nPairs)
  else false

/-- `ClassDefFormat1::subset`: the `(new gid as u16, class)` vector, in source glyph order.
`none` = `plan.glyphset_gsub.last().unwrap()` on an empty set. -/
def cd1Pairs (p : LPlan) (a : CdArgs) (start : Nat) (classes : List Nat) : Option (List (Nat × Nat)) :=
  match p.glyphset.getLast? with
  | none => none
  | some last =>
    let end_ := min (last + 1) (start + classes.length)
    some ((List.range' start (end_ - start)).filterMap fun g =>
      match p.get g with
      | none => none
      | some new =>
        if !passFilter a g then none else
        let cls := classes.getD (g - start) 0
        if cls = 0 then none else some (new % 65536, cls))

/-- stable insertion by new gid (`sort_by(|a, b| a.0.cmp(&b.0))`) -/
def insertPair (x : Nat × Nat) : List (Nat × Nat) → List (Nat × Nat)
  | [] => [x]
  | y :: ys => if x.1 < y.1 then x :: y :: ys else y :: insertPair x ys

def sortPairs (ps : List (Nat × Nat)) : List (Nat × Nat) := ps.foldl (fun acc x => insertPair x acc) []

/-- `ClassDefFormat2::subset`: the vector before sorting (strategy by size) -/
def cd2PairsRaw (p : LPlan) (a : CdArgs) (rs : List ClassRangeRec) : Option (List (Nat × Nat)) :=
  match p.glyphset.getLast? with
  | none => none
  | some last =>
    let pop := (rs.map fun r => popRange r.start r.end_).sum
    let numBits := bitLen (rs.length % 65536)
    if pop > p.glyphset.length * numBits then
      some ((p.glyphset.takeWhile (· ≤ 65535)).filterMap fun g =>
        match p.get g with
        | none => none
        | some new =>
          if !passFilter a g then none else
          let cls := (ClassDef.fmt2 rs).get g
          if cls = 0 then none else some (new % 65536, cls))
    else
      some (rs.flatMap fun r =>
        if r.cls = 0 then [] else
        let e := min r.end_ last
        (List.range' r.start (e + 1 - r.start)).filterMap fun g =>
          match p.get g with
          | none => none
          | some new => if !passFilter a g then none else some (new % 65536, r.cls))

def cdPairs (p : LPlan) (a : CdArgs) : ClassDef → Option (List (Nat × Nat))
  | .fmt1 s cs => cd1Pairs p a s cs
  | .fmt2 rs => (cd2PairsRaw p a rs).map sortPairs

/-- `IntSet<u16>::insert` on an ascending list (= C16's `insertUniq`: insert before the first larger
element, nothing when present) -/
abbrev setInsert (x : Nat) (l : List Nat) : List Nat := insertUniq x l

/-- `retained_classes` -/
def retainedClasses (ps : List (Nat × Nat)) : List Nat := ps.foldl (fun s x => setInsert x.2 s) []

/-- the class map of `classdef_remap_and_serialize` (old class, new class), ascending by old class:
class 0 stays 0 unless class zero is reused; the retained classes are numbered from 0 / 1 in
ascending order.  `none` = the `u16` counter `new_idx += 1` overflows. -/
def classMap (useZero : Bool) (retained : List Nat) : Option (List (Nat × Nat)) :=
  if (if useZero then 0 else 1) + retained.length ≥ 65536 then none else
  some ((if useZero then [] else [(0, 0)]) ++
    retained.zipIdx.map fun ci => (ci.1, (if useZero then 0 else 1) + ci.2))

/-! ### the ClassDef writer -/

/-- loop of `ClassDef::serialize` after the first pair: `(glyph_max, num_ranges)`.  A pair continues
the range only when BOTH the glyph id and the class value are the predecessor's plus one
(`checked_add`), which is what the code counts (the format-2 writer merges on equal classes). -/
def cdChooseGo (prevG prevC gmax nr : Nat) : List (Nat × Nat) → Nat × Nat
  | [] => (gmax, nr)
  | (g, c) :: rest =>
    let cont : Bool := decide (prevG + 1 < 65536 ∧ g = prevG + 1 ∧ prevC + 1 < 65536 ∧ c = prevC + 1)
    cdChooseGo g c (max gmax g) (if cont then nr else nr + 1) rest

/-- `ClassDefFormat1::serialize` on the pairs with a non-zero class: start = the FIRST glyph id,
count = `glyph_max - glyph_min + 1` (u16), later pairs overwrite earlier ones -/
def cdWrite1 (nz : List (Nat × Nat)) : M ClassDef :=
  match nz with
  | [] => pure (.fmt1 0 [])
  | (g0, _) :: _ =>
    let gmax := nz.foldl (fun m x => max m x.1) g0
    let count := gmax - g0 + 1
    if count ≥ 65536 then .error .trap else
    if nz.any (fun x => x.1 < g0) then .error .trap else
    pure (.fmt1 g0 (nz.foldl (fun arr x => arr.set (x.1 - g0) x.2) (List.replicate count 0)))

/-- `ClassDefFormat2::serialize`: `iter_class_ranges`-style merging of consecutive glyphs of equal
class; `prev_g + 1` is `u16` (trap), `num` is a `u16` counter (trap) -/
def cdWrite2 (nz : List (Nat × Nat)) : M ClassDef :=
  if nz.length ≥ 65536 then .error .trap else
  if nz.dropLast.any (fun x => x.1 = 65535) then .error .trap else
  pure (.fmt2 (iterClassRanges nz))

/-- `ClassDef::serialize(new_gid_classes)` -/
def serializeClassDef (ps : List (Nat × Nat)) : M ClassDef :=
  let nz := ps.filter (fun x => x.2 ≠ 0)
  match nz with
  | [] => cdWrite2 nz
  | (g0, c0) :: rest =>
    let (gmax, nr) := cdChooseGo g0 c0 g0 1 rest
    if gmax - g0 + 1 < nr * 3 then cdWrite1 nz else cdWrite2 nz

def classRecBytes (r : ClassRangeRec) : List Nat := be16 r.start ++ be16 r.end_ ++ be16 r.cls

def classDefBytes : ClassDef → List Nat
  | .fmt1 s cs => be16 1 ++ be16 s ++ be16 cs.length ++ cs.flatMap be16
  | .fmt2 rs => be16 2 ++ be16 rs.length ++ rs.flatMap classRecBytes

/-- `ClassDef::subset(plan, s, args)`: the written table and the returned class map -/
def subsetClassDef (p : LPlan) (a : CdArgs) (cd : ClassDef) : M (ClassDef × Option (List (Nat × Nat))) :=
  match cdPairs p a cd with
  | none => .error .trap
  | some ps =>
    let uz := useClassZero p a ps.length
    if !a.keepEmpty && ps.isEmpty then .error .empty else
    if !a.remapClass then (serializeClassDef ps).map (·, none) else
    match classMap uz (retainedClasses ps) with
    | none => .error .trap
    | some cm =>
      -- every class of the vector is in the map (it was inserted into `retained_classes`)
      let ps' := ps.map fun x => (x.1, (cm.lookup x.2).getD 0)
      (serializeClassDef ps').map (·, some cm)

/-! ## Device / VariationIndex -/

/-- `DeviceOrVariationIndex` as read: a Device table (its `min_table_bytes`) or a VariationIndex -/
inductive DevIn where
  | device (bytes : List Nat)
  | varIdx (outer inner : Nat)
  deriving Repr, DecidableEq

/-- `DeviceOrVariationIndex::subset(plan, s, &varidx_delta_map)`: a Device is copied; a
VariationIndex is rewritten to its new index (`Err(OTHER)` when the map does not know it) -/
def subsetDevice (vmap : List (Nat × Nat)) : DevIn → M (List Nat)
  | .device bs => pure bs
  | .varIdx o i =>
    match vmap.lookup (o * 65536 + i) with
    | none => .error .soft
    | some new => pure (be32 new ++ be16 0x8000)

end FontVerif.SubsetLayout
