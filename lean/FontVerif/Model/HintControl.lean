/-
C03 — the skrifa side of the control-flow comparison.  The control machine itself is C02's `Model/Interp.lean`
(`Engine::run`, decoder, IF / ELSE / EIF, JMPR / JROT / JROF, FDEF / IDEF / ENDF, CALL / LOOPCALL, call stack, budgets),
imported unchanged.  This file adds what the comparison with FreeType needs on top of it:

* `skLimit`     — skrifa/src/outline/glyf/hint/engine/mod.rs `LoopBudget::new`
* `semSubset`   — the data opcodes of the correspondence harness over the data state shared with Model/FtControl.lean
                  (`FtControl.Dat`: x coordinates of the glyph zone, storage area, stack capacity, pedantic flag):
                  engine/stack.rs + value_stack.rs (`push_inline_operands`, `dup`, `pop`, `clear`, `swap`, `DEPTH`),
                  arith.rs / logical.rs (`ADD SUB NEG LT GTEQ EQ AND OR NOT` through `apply_binary` / `apply_unary`),
                  storage.rs `op_rs` / `op_ws`, data.rs `op_scfs` (both vectors on the x axis), dispatch.rs
                  `DEBUG => pop`, `AA => pop` (fix 9926da4), and the state setters that cannot fail.
* `prepStack`   — hint/instance.rs `HintInstance::reconfigure`: the font program and the control value program run on
                  ONE engine with one `ValueStack`; since fix 83e5236 `Engine::reset` clears it (`value_stack.clear()`),
                  like FreeType's `exec->top = 0` in `tt_size_run_prep`.  The storage area is still shared: what
                  `fpgm` writes survives into `prep` (FreeType clears it in `tt_size_ready_bytecode`).

Only DATA (`FtControl.Dat`) is shared with the FreeType model.
-/
import FontVerif.Model.Interp
import FontVerif.Model.FtControl
namespace FontVerif.HintControl
open FontVerif FontVerif.Interp

/-- `LoopBudget::new(outlines, point_count)`: `point_count` is `Some` for a glyph program -/
def skLimit (pointCount : Option Nat) (cvtLen : Nat) : Nat :=
  match pointCount with
  | some n => max (n * 10) 50 + max (cvtLen / 10) 50
  | none => 300 + 22 * cvtLen

/-- the stack `prep` starts with, given the stack `fpgm` ended with -/
def prepStack (_fpgmFinal : List Int) : List Int := []

abbrev Dat := FtControl.Dat

/-- error codes of the data subset (`Err.data n`): 1 = InvalidPointIndex, 2 = InvalidStorageIndex -/
def E_POINT : Nat := 1
def E_STORAGE : Nat := 2

/-- `pop()? as usize` used as an index -/
def asUsize (v : Int) : Nat := (v % 18446744073709551616).toNat

def semSubset (op : Nat) (bytes : List Nat) (x : List Int × Dat) : Except Err (List Int × Dat) :=
  let (vs, d) := x
  let ped := d.pedantic
  let cap := d.stackSize
  let ret (r : Except Err (List Int)) : Except Err (List Int × Dat) :=
    match r with
    | .ok vs => .ok (vs, d)
    | .error e => .error e
  if op = 0x40 ∨ op = 0x41 ∨ (0xB0 ≤ op ∧ op ≤ 0xBF) then
    let vals := operandValues op bytes
    if vs.length + vals.length ≤ cap then .ok (vals.reverse ++ vs, d) else .error .vsOverflow
  else if op = 0x20 then
    match vs with
    | v :: _ => ret (push cap vs v)
    | [] => if ped then .error .vsUnderflow else ret (push cap vs 0)
  else if op = 0x21 then ret ((pop ped vs).map (·.2))
  else if op = 0x22 then .ok ([], d)
  else if op = 0x23 then
    match pop ped vs with
    | .error e => .error e
    | .ok (a, vs) =>
      match pop ped vs with
      | .error e => .error e
      | .ok (b, vs) =>
        match push cap vs a with
        | .error e => .error e
        | .ok vs => ret (push cap vs b)
  else if op = 0x24 then ret (push cap vs (vs.length : Int))
  else if op = 0x60 then ret (applyBinary ped cap vs (fun a b => wrapI32 (a + b)))
  else if op = 0x61 then ret (applyBinary ped cap vs (fun a b => wrapI32 (a - b)))
  else if op = 0x65 then ret (applyUnary ped cap vs (fun a => wrapI32 (-a)))
  else if op = 0x50 then ret (applyBinary ped cap vs (fun a b => b2i (a < b)))
  else if op = 0x53 then ret (applyBinary ped cap vs (fun a b => b2i (a ≥ b)))
  else if op = 0x54 then ret (applyBinary ped cap vs (fun a b => b2i (a = b)))
  else if op = 0x5A then ret (applyBinary ped cap vs (fun a b => b2i (a ≠ 0 ∧ b ≠ 0)))
  else if op = 0x5B then ret (applyBinary ped cap vs (fun a b => b2i (a ≠ 0 ∨ b ≠ 0)))
  else if op = 0x5C then ret (applyUnary ped cap vs (fun a => b2i (a = 0)))
  else if op = 0x43 then
    -- op_rs
    match pop ped vs with
    | .error e => .error e
    | .ok (loc, vs) =>
      match d.store[asUsize loc]? with
      | some v => ret (push cap vs v)
      | none => if ped then .error (.data E_STORAGE) else ret (push cap vs 0)
  else if op = 0x42 then
    -- op_ws
    match pop ped vs with
    | .error e => .error e
    | .ok (v, vs) =>
      match pop ped vs with
      | .error e => .error e
      | .ok (loc, vs) =>
        let i := asUsize loc
        if i < d.store.length then .ok (vs, { d with store := d.store.set i v })
        else if ped then .error (.data E_STORAGE) else .ok (vs, d)
  else if op = 0x48 then
    -- op_scfs on the x axis: `zp2().point(p)?` fails for an out-of-range point in either mode
    match pop ped vs with
    | .error e => .error e
    | .ok (v, vs) =>
      match pop ped vs with
      | .error e => .error e
      | .ok (p, vs) =>
        let i := asUsize p
        if i < d.xs.length then .ok (vs, { d with xs := d.xs.set i v }) else .error (.data E_POINT)
  else if op = 0x4F ∨ op = 0x7F then ret ((pop ped vs).map (·.2))
  else if op = 0x18 ∨ op = 0x19 ∨ op = 0x3D ∨ op = 0x4D ∨ op = 0x4E ∨ op = 0x7A ∨ op = 0x7C ∨ op = 0x7D then
    .ok (vs, d)
  else .error (.data (1000 + op))   -- not in the subset: the driver answers `tainted`

end FontVerif.HintControl
