/-
Extension of the exact IEEE-754 model (Model/Ieee.lean) with the remaining correctly rounded
operations used by the `f32` / `f64` variation code of read-fonts (`compute_scalar_f32`,
`compute_float_delta`, `apply_float_delta`): `*`, `/`, `f32 as f64`, `f64 as f32`, `<`, `==`.
As in Model/Ieee.lean every operation computes the exact result (for `/`: enough quotient bits
plus a sticky bit) and rounds it once with `roundNE`.
-/
import FontVerif.Model.Base
import FontVerif.Model.Ieee
namespace FontVerif.Ieee

/-- `x * y`: the exact product `m·n · 2^(e+g)` rounded once; `0 · ∞ = NaN`. -/
def mul (f : Fmt) (x y : FVal) : FVal :=
  match x, y with
  | .nan, _ => .nan
  | _, .nan => .nan
  | .inf s, .inf t => .inf (s != t)
  | .inf s, .fin t n _ => if n = 0 then .nan else .inf (s != t)
  | .fin s m _, .inf t => if m = 0 then .nan else .inf (s != t)
  | .fin s m e, .fin t n g => roundNE f (s != t) (m * n) (e + g)

/-- `x / y`.  For finite non-zero operands the quotient `m / n` is developed to
`k = p + 2 + bitLen n` extra binary places (so that it has more than `p + 2` significant bits),
a sticky bit records a non-zero remainder, and `2·q + sticky` is rounded once: with at least two
bits below the rounding position the sticky bit decides exactly like the infinite expansion. -/
def div (f : Fmt) (x y : FVal) : FVal :=
  match x, y with
  | .nan, _ => .nan
  | _, .nan => .nan
  | .inf _, .inf _ => .nan
  | .inf s, .fin t _ _ => .inf (s != t)
  | .fin s _ _, .inf t => .fin (s != t) 0 0
  | .fin s m e, .fin t n g =>
    if n = 0 then (if m = 0 then .nan else .inf (s != t))
    else if m = 0 then .fin (s != t) 0 0
    else
      let k := f.p + 2 + bitLen n
      let q := m * 2 ^ k / n
      let r := m * 2 ^ k % n
      roundNE f (s != t) (2 * q + (if r = 0 then 0 else 1)) (e - g - (k : Int) - 1)

/-- `x as f64` / `x as f32`: conversion to another format rounds once (exact when widening). -/
def cvt (f : Fmt) (x : FVal) : FVal :=
  match x with
  | .nan => .nan
  | .inf s => .inf s
  | .fin s m e => roundNE f s m e

/-- `x < y` (false when either is NaN; `-0 < +0` is false). -/
def lt (x y : FVal) : Bool :=
  match x, y with
  | .nan, _ => false
  | _, .nan => false
  | _, _ => !le y x

/-- `x > y`. -/
def gt (x y : FVal) : Bool := lt y x

/-- `x == y` (false when either is NaN; `-0 == +0`). -/
def feq (x y : FVal) : Bool := le x y && le y x

/-- `1.0`, `0.0`. -/
def one : FVal := .fin false 1 0
def zero : FVal := .fin false 0 0

/-- `fN::to_bits` of a value of the format (canonical quiet NaN `0x7FC00000` / `0x7FF8…`): the
inverse of `decode` on finite values and infinities. -/
def encode (f : Fmt) (x : FVal) : Nat :=
  let fb := f.p - 1
  let sign (s : Bool) : Nat := if s then 2 ^ (fb + f.w) else 0
  match x with
  | .nan => (2 ^ f.w - 1) * 2 ^ fb + 2 ^ (fb - 1)
  | .inf s => sign s + (2 ^ f.w - 1) * 2 ^ fb
  | .fin s m e =>
    if m = 0 then sign s else
    -- normalise to exponent `q = max emin (e + L - p)`; the value is representable, so the
    -- shift is exact
    let L : Int := bitLen m
    let q : Int := if e + L - f.p < f.emin then f.emin else e + L - f.p
    let m' := if q ≤ e then m * 2 ^ (e - q).toNat else m / 2 ^ (q - e).toNat
    if m' < 2 ^ fb then sign s + m'                                   -- subnormal
    else sign s + ((q - f.emin + 1).toNat) * 2 ^ fb + (m' - 2 ^ fb)

end FontVerif.Ieee
