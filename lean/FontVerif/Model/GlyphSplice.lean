/-
C18 — IFT glyph-keyed patch application: patch containers, first-wins dedup and the generic offset-array
builder shared by glyf/loca, gvar and the CFF / CFF2 charstrings INDEX.

Transcribes incremental-font-transfer/src/glyph_keyed.rs
  `dedup_gid_replacement_data`, `retained_glyphs_in_font`, `retained_glyphs_total_size`,
  `OffsetArrayBuilder::build`, `patch_offset_array` (steps 0–2), `OffsetType` (+ the six
  `OffsetTypeInfo`s), `trait GlyphDataOffsetArray` (as the record `OffsetArray`), `GlyfAndLoca`;
read-fonts `GlyphKeyedPatch::read`, `GlyphPatches::read`, `GlyphPatches::glyph_data_for_table`
  (`GlyphDataIterator`), `Loca::{read, get_raw, all_offsets_are_ascending}`.

Abstractions (stated, exercised by the correspondence harness):
  * `IntSet::iter_ranges` / `iter_excluded_ranges` + the peeking merge loop in `build` are modelled
    by `groupRuns`: the maximal runs of equal membership over gids `0..=max` (what the merge visits,
    in order, once `gids.last() ≤ max` has been checked).
  * `klippa::Serializer` is used by `build` only as a bounded append buffer (`embed`,
    `embed_bytes`, `pad`): modelled as list append with the capacity check.
  * `head`/`maxp` are assumed well formed when present (only the fields used are read).
The three implementations of `GlyphDataOffsetArray` live in: this file (`glyfAndLoca`),
Model/GvarKeyed.lean (`gvarArray`, `gvarAssemble`), Model/CffKeyed.lean (`cffArray`, `cffAssemble`);
the font-level loop that dispatches on the table tag is Model/GlyphKeyed.lean.
-/
import FontVerif.Model.TableKeyed
namespace FontVerif.Ift

/-! ## patch containers -/

/-- `GlyphKeyedPatch::read`: `format: Tag, reserved: u32, flags: u8, compat: [u8;16],
max_uncompressed_length: u32, brotli_stream: [u8]` -/
structure GKHeader where
  format : Tag
  wide : Bool
  compat : Bytes
  maxLen : Nat
  stream : Bytes
  deriving Repr

def gkRead (p : Bytes) : Except RErr GKHeader :=
  if p.length < 29 then .error .outOfBounds
  else .ok { format := beValue (sliceLen p 0 4), wide := (p.drop 8).headD 0 % 2 == 1,
             compat := sliceLen p 9 16, maxLen := beValue (sliceLen p 25 4), stream := p.drop 29 }

/-- `GlyphPatches` (decoded payload), structurally read -/
structure GlyphPatches where
  glyphCount : Nat
  tables : List Tag
  gids : List Nat
  offsets : List Nat
  raw : Bytes
  deriving Repr

/-- split `b` into `count` big-endian numbers of `w` bytes (caller checked the length) -/
def beArray (w : Nat) : Nat → Bytes → List Nat
  | 0, _ => []
  | n + 1, b => beValue (b.take w) :: beArray w n (b.drop w)

/-- `GlyphPatches::read(data, flags)`: `glyph_count: u32, table_count: u8,
glyph_ids: [u16|u24; glyph_count], tables: [Tag; table_count],
glyph_data_offsets: [Offset32; glyph_count * table_count + 1]`; `cursor.finish` bounds check. -/
def gpRead (raw : Bytes) (wide : Bool) : Except RErr GlyphPatches :=
  match beAt 4 raw 0, beAt 1 raw 4 with
  | some gc, some tc =>
    let w := if wide then 3 else 2
    let idsLen := gc * w
    let tablesLen := tc * 4
    let offLen := (gc * tc + 1) * 4
    if 5 + idsLen + tablesLen + offLen ≤ raw.length then
      .ok { glyphCount := gc
            gids := beArray w gc (raw.drop 5)
            tables := beArray 4 tc (raw.drop (5 + idsLen))
            offsets := beArray 4 (gc * tc + 1) (raw.drop (5 + idsLen + tablesLen))
            raw := raw }
    else .error .outOfBounds
  | _, _ => .error .outOfBounds

/-- `gid <= previous_gid` when there is a previous gid -/
def notAfter : Option Nat → Nat → Bool
  | some p, g => g ≤ p
  | none, _ => false

/-- `GlyphDataIterator::next`, run to the first error: gids strictly ascending, offsets ascending,
`resolve_offset(start)` (null / out of bounds), `data.get(..len)`. -/
def glyphData (raw : Bytes) : Option Nat → List (Nat × Nat × Nat) → Except RErr (List (Nat × Bytes))
  | _, [] => .ok []
  | prev, (g, s, e) :: rest =>
    if notAfter prev g then
      .error (.malformedData "Glyph IDs are unsorted or duplicated.")
    else if e < s then .error (.malformedData "glyph data offsets are not ascending.")
    else if s = 0 then .error .nullOffset
    else if raw.length < s then .error .outOfBounds
    else if raw.length - s < e - s then .error .outOfBounds
    else
      match glyphData raw (some g) rest with
      | .error x => .error x
      | .ok r => .ok ((g, sliceLen raw s (e - s)) :: r)

/-- `GlyphPatches::glyph_data_for_table(table_index)`: zip of the gids with consecutive offset
pairs starting at `table_index * glyph_count`. -/
def glyphDataForTable (gp : GlyphPatches) (ti : Nat) : Except RErr (List (Nat × Bytes)) :=
  let offs := gp.offsets.drop (ti * gp.glyphCount)
  glyphData gp.raw none (List.zip gp.gids (List.zip offs (offs.drop 1)))

/-! ## dedup_gid_replacement_data -/

/-- `data_for_gid.entry(gid).or_insert(data); gids.insert(gid)` on a gid-sorted association list:
the first data seen for a gid stays. -/
def insertFirst (g : Nat) (d : Bytes) : List (Nat × Bytes) → List (Nat × Bytes)
  | [] => [(g, d)]
  | (g', d') :: rest =>
    if g < g' then (g, d) :: (g', d') :: rest
    else if g = g' then (g', d') :: rest
    else (g', d') :: insertFirst g d rest

def indexOfTag (t : Tag) : List Tag → Nat → Option Nat
  | [], _ => none
  | x :: xs, i => if x = t then some i else indexOfTag t xs (i + 1)

/-- `dedup_gid_replacement_data(glyph_patches, table_tag)`: patches in application order, first
patch wins for a shared gid; result sorted by gid (`IntSet` iteration order). -/
def dedupFrom (tag : Tag) : List GlyphPatches → List (Nat × Bytes) → Except RErr (List (Nat × Bytes))
  | [], acc => .ok acc
  | gp :: rest, acc =>
    match indexOfTag tag gp.tables 0 with
    | none => dedupFrom tag rest acc
    | some ti =>
      match glyphDataForTable gp ti with
      | .error e => .error e
      | .ok items => dedupFrom tag rest (items.foldl (fun a gd => insertFirst gd.1 gd.2 a) acc)

def dedup (tag : Tag) (gps : List GlyphPatches) : Except RErr (List (Nat × Bytes)) :=
  dedupFrom tag gps []

/-! ## offset types -/

inductive OffsetType where
  | cffOne | cffTwo | cffThree | cffFour | shortDivByTwo | long
  deriving Repr, DecidableEq

def OffsetType.width : OffsetType → Nat
  | .cffOne => 1 | .cffTwo => 2 | .cffThree => 3 | .cffFour => 4 | .shortDivByTwo => 2 | .long => 4
def OffsetType.divisor : OffsetType → Nat
  | .shortDivByTwo => 2 | _ => 1
def OffsetType.bias : OffsetType → Nat
  | .cffOne => 1 | .cffTwo => 1 | .cffThree => 1 | .cffFour => 1 | _ => 0

/-- `OffsetType::max_representable_size` -/
def OffsetType.maxRepresentable : OffsetType → Nat
  | .shortDivByTwo => (2 ^ 16 - 1) * 2
  | t => 2 ^ (t.width * 8) - 1 - t.bias

/-- what the builder needs from `trait GlyphDataOffsetArray` -/
structure OffsetArray where
  offsetType : OffsetType
  /-- `available_offset_types()` in ascending order -/
  available : List OffsetType
  /-- `offset_for(gid)` for gid = 0, 1, …  (already ×2 for short loca) -/
  offsets : List Nat
  /-- the bytes `get(range)` slices -/
  data : Bytes
  /-- error of `offset_for` for a missing entry -/
  missing : PErr
  /-- error of `get` for an out-of-bounds range -/
  getErr : PErr
  /-- what `all_offsets_are_ascending()` answers (glyf/loca, gvar: `ascending offsets`; the CFF INDEX
  implementation does not look at the last entry, see Model/CffKeyed.lean) -/
  ascOk : Bool
  /-- indices `g` whose entry exists but whose `offset_for(g)` fails with `missing` all the same
  (CFF INDEX: a stored offset of 0, `checked_sub(1)` of the bias fails); `[]` for glyf/loca and gvar -/
  unreadable : List Nat

def OffsetArray.offsetFor (a : OffsetArray) (g : Nat) : Except PErr Nat :=
  match a.offsets[g]? with
  | some o => if a.unreadable.contains g then .error a.missing else .ok o
  | none => .error a.missing

/-- `all_offsets_are_ascending` over a whole offset list (`Loca`, `Gvar`) -/
def ascending : List Nat → Bool
  | a :: b :: rest => a ≤ b && ascending (b :: rest)
  | _ => true

/-! ## runs of replaced / retained gids -/

/-- maximal runs `(replace?, start, count)` of equal flags, first gid `s` -/
def groupRuns : Nat → List Bool → List (Bool × Nat × Nat)
  | _, [] => []
  | s, b :: bs =>
    match groupRuns (s + 1) bs with
    | (b', s', c) :: rest => if b = b' then (b, s, c + 1) :: rest else (b, s, 1) :: (b', s', c) :: rest
    | [] => [(b, s, 1)]

def isReplaced (repl : List (Nat × Bytes)) (g : Nat) : Bool := repl.any (fun gd => gd.1 == g)

/-- the merged sequence of `gids.iter_ranges()` (replace) and `retained_glyphs_in_font` (keep),
restricted to gids `0..=max` -/
def runsFor (repl : List (Nat × Bytes)) (maxGid : Nat) : List (Bool × Nat × Nat) :=
  groupRuns 0 ((List.range (maxGid + 1)).map (isReplaced repl))

/-- `retained_glyphs_total_size`: over the keep ranges, `offset_for(end+1) - offset_for(start)`. -/
def retainedSize (a : OffsetArray) : List (Bool × Nat × Nat) → Except PErr Nat
  | [] => .ok 0
  | (true, _, _) :: rest => retainedSize a rest
  | (false, s, c) :: rest =>
    match a.offsetFor s with
    | .error e => .error e
    | .ok so =>
      match a.offsetFor (s + c) with
      | .error e => .error e
      | .ok eo =>
        if eo < so then
          .error (.fontParsingFailed (.malformedData "offset entries are not in ascending order"))
        else
          match retainedSize a rest with
          | .error e => .error e
          | .ok t => .ok (eo - so + t)

/-! ## OffsetArrayBuilder::build -/

def SER_OTHER : Nat := 1
def SER_OFFSET_OVERFLOW : Nat := 2
def SER_OUT_OF_ROOM : Nat := 4

/-- the two serializers (`new_data`, `new_offsets`) and the `write_index`, replacement iterator -/
structure BuildState where
  data : Bytes
  offs : Bytes
  writeIndex : Nat
  repl : List (Nat × Bytes)

/-- `Serializer::allocate_size` on a fresh serializer of capacity `cap` -/
def embedBytes (cap : Nat) (buf : Bytes) (d : Bytes) : Except PErr Bytes :=
  if cap - buf.length < d.length then .error (.serializationError SER_OUT_OF_ROOM)
  else .ok (buf ++ d)

/-- `((index / divisor) + bias).try_into::<OffsetType>()` then `new_offsets.embed(..)` -/
def embedOffset (t : OffsetType) (cap : Nat) (buf : Bytes) (index : Nat) : Except PErr Bytes :=
  let v := index / t.divisor + t.bias
  if 2 ^ (t.width * 8) ≤ v then .error .internalError
  else embedBytes cap buf (beBytes t.width v)

/-- replace branch: one gid of `for _ in start..=end` -/
def replaceOne (t : OffsetType) (dataCap offCap : Nat) (st : BuildState) : Except PErr BuildState :=
  match st.repl with
  | [] => .error .internalError
  | (_, d) :: more =>
    match embedBytes dataCap st.data d with
    | .error e => .error e
    | .ok data1 =>
      match embedOffset t offCap st.offs st.writeIndex with
      | .error e => .error e
      | .ok offs1 =>
        let w1 := st.writeIndex + d.length
        if t.divisor > 1 then
          let padding := d.length % t.divisor
          match embedBytes dataCap data1 (List.replicate padding 0) with
          | .error e => .error e
          | .ok data2 => .ok { data := data2, offs := offs1, writeIndex := w1 + padding, repl := more }
        else .ok { data := data1, offs := offs1, writeIndex := w1, repl := more }

def replaceRun (t : OffsetType) (dataCap offCap : Nat) : Nat → BuildState → Except PErr BuildState
  | 0, st => .ok st
  | n + 1, st =>
    match replaceOne t dataCap offCap st with
    | .error e => .error e
    | .ok st' => replaceRun t dataCap offCap n st'

/-- keep branch, the `for gid in start..=end` offset loop: `cur_off - start_off + write_index` -/
def keepOffsets (a : OffsetArray) (t : OffsetType) (offCap : Nat) (startOff w : Nat) :
    Nat → Nat → Bytes → Except PErr Bytes
  | _, 0, buf => .ok buf
  | g, n + 1, buf =>
    match a.offsetFor g with
    | .error e => .error e
    | .ok cur =>
      match embedOffset t offCap buf (cur - startOff + w) with
      | .error e => .error e
      | .ok buf' => keepOffsets a t offCap startOff w (g + 1) n buf'

/-- keep branch for the range `s ..= s+c-1` -/
def keepRun (a : OffsetArray) (t : OffsetType) (dataCap offCap : Nat) (s c : Nat) (st : BuildState) :
    Except PErr BuildState :=
  match a.offsetFor s with
  | .error e => .error e
  | .ok startOff =>
    match a.offsetFor (s + c) with
    | .error e => .error e
    | .ok endOff =>
      if endOff < startOff then .error .internalError
      else if a.data.length < endOff then .error a.getErr     -- self.offset_array.get(start..end)?
      else
        match embedBytes dataCap st.data (sliceLen a.data startOff (endOff - startOff)) with
        | .error e => .error e
        | .ok data1 =>
          match keepOffsets a t offCap startOff st.writeIndex s c st.offs with
          | .error e => .error e
          | .ok offs1 =>
            .ok { st with data := data1, offs := offs1, writeIndex := st.writeIndex + (endOff - startOff) }

def buildRuns (a : OffsetArray) (t : OffsetType) (dataCap offCap : Nat) :
    List (Bool × Nat × Nat) → BuildState → Except PErr BuildState
  | [], st => .ok st
  | (true, _, c) :: rest, st =>
    match replaceRun t dataCap offCap c st with
    | .error e => .error e
    | .ok st' => buildRuns a t dataCap offCap rest st'
  | (false, s, c) :: rest, st =>
    match keepRun a t dataCap offCap s c st with
    | .error e => .error e
    | .ok st' => buildRuns a t dataCap offCap rest st'

/-- `OffsetArrayBuilder::build::<Info, OffsetType>()`; returns `(data, offset_array)` -/
def buildOffsets (a : OffsetArray) (t : OffsetType) (repl : List (Nat × Bytes)) (maxGid : Nat)
    (dataCap offCap : Nat) : Except PErr (Bytes × Bytes) :=
  if !a.ascOk then
    .error (.fontParsingFailed (.malformedData "offset array contains unordered offsets."))
  else
    match buildRuns a t dataCap offCap (runsFor repl maxGid)
        { data := [], offs := [], writeIndex := 0, repl := repl } with
    | .error e => .error e
    | .ok st =>
      match embedOffset t offCap st.offs st.writeIndex with   -- "Write the last offset"
      | .error e => .error e
      | .ok offs => .ok (st.data, offs)

/-! ## patch_offset_array (steps 0–2) -/

def paddedLen (t : OffsetType) (d : Bytes) : Nat := d.length + d.length % t.divisor

/-- `total_data_size` (step 1) -/
def totalDataSize (a : OffsetArray) (repl : List (Nat × Bytes)) (maxGid : Nat) : Except PErr Nat :=
  match retainedSize a (runsFor repl maxGid) with
  | .error e => .error e
  | .ok r => .ok (repl.foldl (fun s gd => s + paddedLen a.offsetType gd.2) r)

/-- "Check to see if the offset size needs to be upgraded" -/
def chooseOffsetType (a : OffsetArray) (total : Nat) : Except PErr OffsetType :=
  if total > a.offsetType.maxRepresentable then
    match a.available.find? (fun c => c.maxRepresentable ≥ total) with
    | some c => .ok c
    | none => .error (.serializationError SER_OFFSET_OVERFLOW)
  else .ok a.offsetType

/-- steps 0–2 of `patch_offset_array`: returns the chosen offset type and `(data, offset_array)`;
`repl` is the result of `dedup`. -/
def patchOffsetArray (a : OffsetArray) (repl : List (Nat × Bytes)) (maxGid : Nat) :
    Except PErr (OffsetType × Bytes × Bytes) :=
  match totalDataSize a repl maxGid with
  | .error e => .error e
  | .ok total =>
    match chooseOffsetType a total with
    | .error e => .error e
    | .ok t =>
      if (match repl.getLast? with | some gd => gd.1 | none => 0) > maxGid then
        .error (.invalidPatch "Patch would add a glyph beyond this fonts maximum.")
      else
        match buildOffsets a t repl maxGid total ((maxGid + 2) * t.width) with
        | .error e => .error e
        | .ok (data, offs) => .ok (t, data, offs)

/-! ## glyf + loca -/

/-- `font.table_data(glyf)`, `font.loca(None)` (needs `head.index_to_loc_format`, `loca` length a
multiple of the entry width) → `GlyfAndLoca` -/
def glyfAndLoca (font : Font) : Option OffsetArray :=
  match font.get TAG_glyf, font.get TAG_head, font.get TAG_loca with
  | some glyf, some head, some loca =>
    let isLong := beValue (sliceLen head 50 2) == 1
    let w := if isLong then 4 else 2
    if loca.length % w ≠ 0 then none
    else
      let raw := beArray w (loca.length / w) loca
      let t := if isLong then OffsetType.long else OffsetType.shortDivByTwo
      let offsets := if isLong then raw else raw.map (· * 2)
      some { offsetType := t, available := [t]
             offsets := offsets
             data := glyf
             missing := .invalidPatch "Start loca entry is missing."
             getErr := .fontParsingFailed .outOfBounds
             ascOk := ascending offsets
             unreadable := [] }
  | _, _, _ => none
end FontVerif.Ift
