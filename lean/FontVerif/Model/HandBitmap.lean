/-
C01 (hand-written code) — transcriptions of the loop-carrying / index-computing hand-written functions of
read-fonts/src/tables/bitmap.rs / cblc.rs / ebdt.rs / sbix.rs (BitmapSize::location, index subtable formats 1-5, bitmap_data, glyph_data).

Every definition cites the Rust function it transcribes (file + fn) and keeps its checked / saturating /
wrapping arithmetic and its error returns; `Res.trap` results mark what would be a panic of
the overflow-checked profile, and Props/C01HandBitmap.lean shows they are never produced.  Tied to the real code
by harness group `bitmap.model` (driver commands `hb.*`, Drv/C01HandBitmap.lean).

Conventions.  Tables are byte lists (`d`, `ld`, `sd`, `img`), every scalar is read big-endian with
`HandRead.readAt` / `HandRead.beAt`; `usize` is 64 bit (`HandRead.MAXU`).  The plain `usize` operators of the
Rust (`a + b`, `a * b`, `a - b`, `v[i]`) are `usizeAdd` / `usizeMul` / `usizeSub` / `index0` / `elseTrap`,
which produce `Res.trap` where the strict profile panics; `checked_*`, `saturating_*`, `<[T]>::get` and
`FontData::slice` are the `HandRead` primitives.  The generated readers that size the arrays
(`IndexSubtableList::read`, `IndexSubtable{1..5}::read`, `Strike::read`, `GlyphData::read`) are transcribed
statement by statement over the `Cur` cursor (`advance`, `advance_by`, `read`, `finish`); the generated
field getters (`read_at(range.start).unwrap()` / `read_array(range).unwrap()` on the ranges the reader
validated) are read with `beAt` — their unwraps are the subject of `C01.generated_getters_safe`.
`core::slice::binary_search_by` is `Layout.binarySearchBy` (the rustc 1.95 loop, shared with C16 / C08).
-/
import FontVerif.Model.ReadIter
import FontVerif.Model.HandRead
import FontVerif.Model.Layout
namespace FontVerif.HandBitmap
open FontVerif FontVerif.HandRead

/-! ## results -/

/-- the `ReadError` values these functions return -/
inductive BErr where
  /-- `ReadError::OutOfBounds` -/
  | oob
  /-- `ReadError::InvalidArrayLen` -/
  | invalidArrayLen
  /-- `ReadError::NullOffset` -/
  | nullOffset
  /-- `ReadError::InvalidFormat(f)` -/
  | invalidFormat (f : Nat)
  /-- `ReadError::InvalidCollectionIndex(gid)` -/
  | invalidIndex (g : Nat)
  /-- `ReadError::MalformedData("expected metrics from location table")` -/
  | noMetrics
  /-- `ReadError::MalformedData("unexpected bitmap data format")` -/
  | badFormat
  deriving DecidableEq, Repr

/-- `Result<α, ReadError>` plus the panic of the overflow-checked profile -/
inductive Res (α : Type) where
  | ok (a : α)
  | err (e : BErr)
  /-- arithmetic overflow / underflow, index out of bounds -/
  | trap
  deriving DecidableEq, Repr

/-- `?` -/
def Res.bind {α β : Type} (x : Res α) (f : α → Res β) : Res β :=
  match x with
  | .ok a => f a
  | .err e => .err e
  | .trap => .trap

instance : Monad Res where
  pure := .ok
  bind := Res.bind

/-- `opt.ok_or(e)?` -/
def okOr {α : Type} (o : Option α) (e : BErr) : Res α :=
  match o with
  | some a => .ok a
  | none => .err e

/-- `slice[i]` with `slice.get(i) = o`: a panic when out of range -/
def elseTrap {α : Type} (o : Option α) : Res α :=
  match o with
  | some a => .ok a
  | none => .trap

def ofExcept {α : Type} (x : Except BErr α) : Res α :=
  match x with
  | .ok a => .ok a
  | .error e => .err e

def ofRErr : RErr → BErr
  | .oob => .oob
  | .invalidArrayLen => .invalidArrayLen

/-- `a + b` on `usize` -/
def usizeAdd (a b : Nat) : Res Nat := if a + b ≤ MAXU then .ok (a + b) else .trap
/-- `a * b` on `usize` -/
def usizeMul (a b : Nat) : Res Nat := if a * b ≤ MAXU then .ok (a * b) else .trap
/-- `a - b` on `usize` -/
def usizeSub (a b : Nat) : Res Nat := if b ≤ a then .ok (a - b) else .trap

/-- `(lo..=hi).contains(&g)` -/
def rangeContains (lo hi g : Nat) : Bool := decide (lo ≤ g ∧ g ≤ hi)

/-- `<[BigEndian<T>]>::get(ix)` on the array of `count` scalars of `elem` bytes at byte `pos` of `sd`
(`stride` bytes apart: records with several fields) -/
def arrGet (sd : List Nat) (pos stride elem count ix : Nat) : Option Nat :=
  if ix < count then some (beAt sd (pos + stride * ix) elem) else none

/-! ## `BitmapSize::index_subtable_list`, `IndexSubtableList::read`, `IndexSubtable::read_with_args` -/

/-- the fields of a `BitmapSize` record `location` uses -/
structure Size where
  listOffset : Nat
  listSize : Nat
  numSubtables : Nat
  startGlyph : Nat
  endGlyph : Nat
  bitDepth : Nat
  deriving DecidableEq, Repr

/-- bitmap.rs `BitmapSize::index_subtable_list(offset_data)`:
`start.checked_add(size).ok_or(OutOfBounds)?`, `offset_data.slice(start..end).ok_or(OutOfBounds)?`, then the
generated `IndexSubtableList::read(data, number_of_index_subtables)`:
`(n as usize).checked_mul(IndexSubtableRecord::RAW_BYTE_LEN = 8).ok_or(OutOfBounds)?`, `cursor.advance_by`,
`cursor.finish`.  Returns the list's data (= its `offset_data()`). -/
def indexSubtableList (d : List Nat) (off size n : Nat) : Except BErr (List Nat) :=
  match checkedAdd off size with
  | none => .error .oob
  | some e =>
    match sliceExcl d off e with
    | none => .error .oob
    | some _ =>
      let ld := (d.drop off).take size
      match checkedMul n 8 with
      | none => .error .oob
      | some bl => if (Cur.init.advanceBy bl).finish ld then .ok ld else .error .oob

/-- `IndexSubtableList::index_subtable_records()`: the `n` records
`(first_glyph_index, last_glyph_index, index_subtable_offset)` at the start of the list data -/
def records (ld : List Nat) (n : Nat) : List (Nat × Nat × Nat) :=
  (List.range n).map (fun i => (beAt ld (8 * i) 2, beAt ld (8 * i + 2) 2, beAt ld (8 * i + 4) 4))

/-- a successfully read `IndexSubtable`: the variant and the element count of its array
(`sbit_offsets().len()` / `glyph_array().len()`) -/
inductive Sub where
  | f1 (count : Nat)
  | f2
  | f3 (count : Nat)
  | f4 (count : Nat)
  | f5 (count : Nat)
  deriving DecidableEq, Repr

/-- `cursor.advance_by(byte_len); cursor.finish(..)` after `fixed` bytes of header -/
def finishAfter (sd : List Nat) (fixed byteLen : Nat) : Bool := ((Cur.mk fixed).advanceBy byteLen).finish sd

/-- bitmap.rs `<IndexSubtable as FontReadWithArgs>::read_with_args(data, &(last, first))` with the generated
readers it dispatches to.  `format = data.read_at(0)?`;
* 1 / 3: three `advance`s (2 + 2 + 4 bytes), `transforms::subtract_add_two(last, first)`
  (`last.saturating_sub(first).saturating_add(2)`) `.checked_mul(4 / 2).ok_or(OutOfBounds)?`, `advance_by`, `finish`;
* 2: `advance`s of 2 + 2 + 4 + 4 bytes and the 8 bytes of `BigGlyphMetrics`, `finish`;
* 4: 2 + 2 + 4 bytes, `num_glyphs: u32 = cursor.read()?`, `transforms::add(num_glyphs, 1)` (saturating)
  `.checked_mul(4)`, `advance_by`, `finish`;
* 5: 2 + 2 + 4 + 4 + 8 bytes, `num_glyphs = cursor.read()?`, `(num_glyphs as usize).checked_mul(2)`, …;
* other: `InvalidFormat(other)`. -/
def readSubtable (sd : List Nat) (last first : Nat) : Except BErr Sub :=
  match readAt sd 0 2 with
  | none => .error .oob
  | some f =>
    if f = 1 then
      let count := satAdd (last - first) 2
      match checkedMul count 4 with
      | none => .error .oob
      | some bl => if finishAfter sd 8 bl then .ok (.f1 count) else .error .oob
    else if f = 2 then
      if finishAfter sd 12 8 then .ok .f2 else .error .oob
    else if f = 3 then
      let count := satAdd (last - first) 2
      match checkedMul count 2 with
      | none => .error .oob
      | some bl => if finishAfter sd 8 bl then .ok (.f3 count) else .error .oob
    else if f = 4 then
      match readAt sd 8 4 with
      | none => .error .oob
      | some n =>
        let count := satAdd n 1
        match checkedMul count 4 with
        | none => .error .oob
        | some bl => if finishAfter sd 12 bl then .ok (.f4 count) else .error .oob
    else if f = 5 then
      match readAt sd 20 4 with
      | none => .error .oob
      | some n =>
        match checkedMul n 2 with
        | none => .error .oob
        | some bl => if finishAfter sd 24 bl then .ok (.f5 n) else .error .oob
    else .error (.invalidFormat f)

/-- `IndexSubtableRecord::index_subtable(data)` = `Offset32::resolve_with_args` (offset.rs):
`non_null().ok_or(NullOffset)`, `data.split_off(off).ok_or(OutOfBounds)`, `IndexSubtable::read_with_args`.
Returns the subtable's data and variant. -/
def resolveSubtable (ld : List Nat) (off last first : Nat) : Except BErr (List Nat × Sub) :=
  if off = 0 then .error .nullOffset
  else
    match splitOff ld off with
    | none => .error .oob
    | some _ =>
      match readSubtable (ld.drop off) last first with
      | .error e => .error e
      | .ok sub => .ok (ld.drop off, sub)

/-- bitmap.rs `IndexSubtable::index_format` / `image_format` / `image_data_offset` (every variant has them at
bytes 0, 2, 4), `offset_data().len()`, `min_byte_range().end` -/
def subIndexFormat (sd : List Nat) : Nat := beAt sd 0 2
def subImageFormat (sd : List Nat) : Nat := beAt sd 2 2
def subImageDataOffset (sd : List Nat) : Nat := beAt sd 4 4
def subMinEnd : Sub → Nat
  | .f1 c => 8 + c * 4
  | .f2 => 20
  | .f3 c => 8 + c * 2
  | .f4 c => 12 + c * 4
  | .f5 c => 24 + c * 2

/-! ## `BitmapSize::location` -/

/-- bitmap.rs `BitmapLocation` (`metrics`: the 8 bytes of the `BigGlyphMetrics`) -/
structure Loc where
  format : Nat
  dataOffset : Nat
  dataSize : Nat
  bitDepth : Nat
  metrics : Option (List Nat)
  deriving DecidableEq, Repr

/-- bitmap.rs `BitmapLocation::is_empty` -/
def Loc.isEmpty (l : Loc) : Bool := l.dataSize == 0

/-- `st.big_metrics()`: the slice of `big_metrics_byte_len / 8 = 1` records at byte `pos` -/
def bigMetrics (sd : List Nat) (pos : Nat) : List (List Nat) := [(sd.drop pos).take 8]

/-- `slice[0]` -/
def index0 {α : Type} : List α → Res α
  | [] => .trap
  | a :: _ => .ok a

/-- the `match &subtable { … }` of `BitmapSize::location` for one record whose range holds `glyph_id`;
`glyphIx = glyph_id - first_glyph_index`.
* Format 1 / 3: `start = image_data_offset as usize + sbit_offsets.get(glyph_ix).ok_or(OutOfBounds)? as usize`,
  `end = … .get(glyph_ix + 1) …`; `end < start` → `OutOfBounds`; `data_size = end - start`.
* Format 2: `data_offset = image_data_offset as usize + glyph_ix * image_size as usize`, `metrics = big_metrics()[0]`.
* Format 4: `array.binary_search_by(|x| x.glyph_id().cmp(&glyph_id))` else `InvalidCollectionIndex(gid)`;
  `start = array[ix].sbit_offset()`, `end = array.get(ix + 1).ok_or(OutOfBounds)?.sbit_offset()` (the image data
  offset is NOT added here), `end < start` → `OutOfBounds`.
* Format 5: the same search over the glyph id array, `data_offset = image_data_offset + ix * image_size`. -/
def subLocation (sd : List Nat) (sub : Sub) (gid glyphIx : Nat) (loc0 : Loc) : Res Loc :=
  let imf := subImageFormat sd
  let ido := subImageDataOffset sd
  match sub with
  | .f1 count => do
    let o0 ← okOr (arrGet sd 8 4 4 count glyphIx) .oob
    let start ← usizeAdd ido o0
    let ix1 ← usizeAdd glyphIx 1
    let o1 ← okOr (arrGet sd 8 4 4 count ix1) .oob
    let end_ ← usizeAdd ido o1
    if end_ < start then .err .oob
    else do
      let size ← usizeSub end_ start
      .ok { loc0 with format := imf, dataOffset := start, dataSize := size }
  | .f2 => do
    let dataSize := beAt sd 8 4
    let m ← usizeMul glyphIx dataSize
    let off ← usizeAdd ido m
    let bm ← index0 (bigMetrics sd 12)
    .ok { loc0 with format := imf, dataOffset := off, dataSize := dataSize, metrics := some bm }
  | .f3 count => do
    let o0 ← okOr (arrGet sd 8 2 2 count glyphIx) .oob
    let start ← usizeAdd ido o0
    let ix1 ← usizeAdd glyphIx 1
    let o1 ← okOr (arrGet sd 8 2 2 count ix1) .oob
    let end_ ← usizeAdd ido o1
    if end_ < start then .err .oob
    else do
      let size ← usizeSub end_ start
      .ok { loc0 with format := imf, dataOffset := start, dataSize := size }
  | .f4 count =>
    match Layout.binarySearchBy count (fun i => Layout.natCmp (beAt sd (12 + 4 * i) 2) gid) with
    | .err _ => .err (.invalidIndex gid)
    | .ok ix => do
      let start ← elseTrap (arrGet sd 14 4 2 count ix)
      let ix1 ← usizeAdd ix 1
      let end_ ← okOr (arrGet sd 14 4 2 count ix1) .oob
      if end_ < start then .err .oob
      else do
        let size ← usizeSub end_ start
        .ok { loc0 with format := imf, dataOffset := start, dataSize := size }
  | .f5 count =>
    match Layout.binarySearchBy count (fun i => Layout.natCmp (beAt sd (24 + 2 * i) 2) gid) with
    | .err _ => .err (.invalidIndex gid)
    | .ok ix => do
      let dataSize := beAt sd 8 4
      let m ← usizeMul ix dataSize
      let off ← usizeAdd ido m
      let bm ← index0 (bigMetrics sd 12)
      .ok { loc0 with format := imf, dataOffset := off, dataSize := dataSize, metrics := some bm }

/-- the `for record in subtable_list.index_subtable_records()` loop of `BitmapSize::location`; the second
component counts the trips.  Per record: `record.index_subtable(list.offset_data())?` (BEFORE the range test: a
broken subtable in front of the wanted one fails the lookup), `continue` unless
`(first..=last).contains(&glyph_id)`, `glyph_ix = glyph_id as usize - first as usize`, the format match,
`return Ok(location)`; after the loop `Err(OutOfBounds)`. -/
def locLoop (ld : List Nat) (gid : Nat) (loc0 : Loc) : List (Nat × Nat × Nat) → Res Loc × Nat
  | [] => (.err .oob, 0)
  | (first, last, off) :: rest =>
    match resolveSubtable ld off last first with
    | .error e => (.err e, 1)
    | .ok (sd, sub) =>
      if rangeContains first last gid then
        ((usizeSub gid first).bind (fun ix => subLocation sd sub gid ix loc0), 1)
      else
        let r := locLoop ld gid loc0 rest
        (r.1, r.2 + 1)

/-- bitmap.rs `BitmapSize::location(offset_data, glyph_id)`: the size's own range test (`OutOfBounds`),
`index_subtable_list(offset_data)?`, `location = { bit_depth, ..default }`, the record loop. -/
def locationT (d : List Nat) (sz : Size) (gid : Nat) : Res Loc × Nat :=
  if rangeContains sz.startGlyph sz.endGlyph gid then
    match indexSubtableList d sz.listOffset sz.listSize sz.numSubtables with
    | .error e => (.err e, 0)
    | .ok ld =>
      locLoop ld gid { format := 0, dataOffset := 0, dataSize := 0, bitDepth := sz.bitDepth, metrics := none }
        (records ld sz.numSubtables)
  else (.err .oob, 0)

def location (d : List Nat) (sz : Size) (gid : Nat) : Res Loc := (locationT d sz gid).1

/-! ## `bitmap_data` (`Ebdt::data` / `Cbdt::data`) -/

/-- `BitmapContent` variant / `BitmapDataFormat` -/
inductive Kind where
  | byteAligned
  | bitAligned
  | png
  | composite
  deriving DecidableEq, Repr

/-- `BitmapData`: metrics (`small` = `BitmapMetrics::Small`, 5 bytes; else `Big`, 8 bytes) and the content
slice: `count` elements (bytes, or 4-byte `BdtComponent`s) starting at byte `start` of the table -/
structure BData where
  small : Bool
  metrics : List Nat
  kind : Kind
  start : Nat
  count : Nat
  deriving DecidableEq, Repr

/-- `usize::div_ceil(8)`: `d = a / 8; r = a % 8; if r > 0 { d + 1 } else { d }` -/
def divCeil8 (a : Nat) : Nat := if a % 8 > 0 then a / 8 + 1 else a / 8

/-- `cursor.read::<T>()?` -/
def readR (img : List Nat) (c : Cur) (sz : Nat) : Res (Nat × Cur) :=
  match c.read img sz with
  | (none, _) => .err .oob
  | (some v, c') => .ok (v, c')

/-- `cursor.read_array::<T>(n)?`: the number of elements and the cursor behind them -/
def readArrR (img : List Nat) (c : Cur) (n elem : Nat) : Res (Nat × Cur) :=
  match c.readArray img n elem with
  | (.error e, _) => .err (ofRErr e)
  | (.ok k, c') => .ok (k, c')

/-- bitmap.rs `read_small_metrics` / `read_big_metrics`: `cursor.read_array::<M>(1)?[0]`, `size_of::<M>() = sz`
(5 / 8).  The record is the `sz` bytes at the old position. -/
def readMetrics (img : List Nat) (c : Cur) (sz : Nat) : Res (List Nat × Cur) := do
  let (k, c') ← readArrR img c 1 sz
  let m ← index0 ((List.range k).map (fun i => (img.drop (c.pos + sz * i)).take sz))
  .ok (m, c')

/-- `metrics.height` / `metrics.width` (bytes 0 / 1 of both metrics records) -/
def mHeight (m : List Nat) : Nat := m.getD 0 0
def mWidth (m : List Nat) : Nat := m.getD 1 0

/-- `BitmapContent::Data(ByteAligned, read_array::<u8>(pitch * height)?)`,
`pitch = (width as usize * bit_depth as usize).div_ceil(8)` -/
def byteAligned (img : List Nat) (off : Nat) (c : Cur) (small : Bool) (m : List Nat) (bitDepth : Nat) : Res BData := do
  let wb ← usizeMul (mWidth m) bitDepth
  let n ← usizeMul (divCeil8 wb) (mHeight m)
  let (k, _) ← readArrR img c n 1
  .ok { small := small, metrics := m, kind := .byteAligned, start := off + c.pos, count := k }

/-- `BitmapContent::Data(BitAligned, read_array::<u8>((width * height).div_ceil(8))?)`,
`width = metrics.width as usize * bit_depth as usize` -/
def bitAligned (img : List Nat) (off : Nat) (c : Cur) (small : Bool) (m : List Nat) (bitDepth : Nat) : Res BData := do
  let wb ← usizeMul (mWidth m) bitDepth
  let bits ← usizeMul wb (mHeight m)
  let (k, _) ← readArrR img c (divCeil8 bits) 1
  .ok { small := small, metrics := m, kind := .bitAligned, start := off + c.pos, count := k }

/-- `count = read::<u16>()? as usize; read_array::<BdtComponent>(count)?` (4-byte records) -/
def composite (img : List Nat) (off : Nat) (c : Cur) (small : Bool) (m : List Nat) : Res BData := do
  let (n, c1) ← readR img c 2
  let (k, _) ← readArrR img c1 n 4
  .ok { small := small, metrics := m, kind := .composite, start := off + c1.pos, count := k }

/-- `data_len = read::<u32>()? as usize; read_array::<u8>(data_len)?` -/
def png (img : List Nat) (off : Nat) (c : Cur) (small : Bool) (m : List Nat) : Res BData := do
  let (n, c1) ← readR img c 4
  let (k, _) ← readArrR img c1 n 1
  .ok { small := small, metrics := m, kind := .png, start := off + c1.pos, count := k }

/-- bitmap.rs `bitmap_data(offset_data, location, is_color)`:
`data_end = data_offset.checked_add(data_size).ok_or(OutOfBounds)?`,
`offset_data.slice(data_offset..data_end).ok_or(OutOfBounds)?.cursor()`, then the format match
(1, 2, 5, 6, 7, 8, 9; 17, 18, 19 only `if is_color`; everything else `MalformedData`). -/
def bitmapData (d : List Nat) (loc : Loc) (isColor : Bool) : Res BData :=
  match checkedAdd loc.dataOffset loc.dataSize with
  | none => .err .oob
  | some e =>
    match sliceExcl d loc.dataOffset e with
    | none => .err .oob
    | some _ =>
      let off := loc.dataOffset
      let img := (d.drop off).take loc.dataSize
      let c0 := Cur.init
      let f := loc.format
      if f = 1 then do
        let (m, c1) ← readMetrics img c0 5
        byteAligned img off c1 true m loc.bitDepth
      else if f = 2 then do
        let (m, c1) ← readMetrics img c0 5
        bitAligned img off c1 true m loc.bitDepth
      else if f = 5 then do
        let m ← okOr loc.metrics .noMetrics
        bitAligned img off c0 false m loc.bitDepth
      else if f = 6 then do
        let (m, c1) ← readMetrics img c0 8
        byteAligned img off c1 false m loc.bitDepth
      else if f = 7 then do
        let (m, c1) ← readMetrics img c0 8
        bitAligned img off c1 false m loc.bitDepth
      else if f = 8 then do
        let (m, c1) ← readMetrics img c0 5
        let (_, c2) ← readR img c1 1
        composite img off c2 true m
      else if f = 9 then do
        let (m, c1) ← readMetrics img c0 8
        composite img off c1 false m
      else if f = 17 ∧ isColor then do
        let (m, c1) ← readMetrics img c0 5
        png img off c1 true m
      else if f = 18 ∧ isColor then do
        let (m, c1) ← readMetrics img c0 8
        png img off c1 false m
      else if f = 19 ∧ isColor then do
        let m ← okOr loc.metrics .noMetrics
        png img off c0 false m
      else .err .badFormat

/-! ## sbix: `Strike::read`, `Strike::glyph_data`, `GlyphData::read` -/

/-- generated `Strike::read(data, num_glyphs)`: two `advance::<u16>()`,
`transforms::add(num_glyphs, 1)` (saturating) `.checked_mul(4).ok_or(OutOfBounds)?`, `advance_by`, `finish`.
Returns `glyph_data_offsets().len()`. -/
def strikeRead (sd : List Nat) (numGlyphs : Nat) : Except BErr Nat :=
  let count := satAdd numGlyphs 1
  match checkedMul count 4 with
  | none => .error .oob
  | some bl => if finishAfter sd 4 bl then .ok count else .error .oob

/-- generated `GlyphData::read(data)`: `advance`s of 2 + 2 + 4 bytes,
`data_byte_len = cursor.remaining_bytes() / 1 * 1`, `advance_by`, `finish` -/
def glyphDataRead (gd : List Nat) : Except BErr Unit :=
  let c := Cur.mk 8
  if (c.advanceBy (c.remainingBytes gd / 1 * 1)).finish gd then .ok () else .error .oob

/-- sbix.rs `Strike::glyph_data(glyph_id)` on a strike with `count` glyph data offsets:
`start = offsets.get(gid).ok_or(OutOfBounds)?`, `end = offsets.get(gid + 1).ok_or(OutOfBounds)?`,
`start == end` → `Ok(None)`, `offset_data().slice(start..end).ok_or(OutOfBounds)?`, `GlyphData::read(data)?`.
`Ok(Some(start, end))`: the glyph data is `sd[start..end]`. -/
def glyphData (sd : List Nat) (count gid : Nat) : Res (Option (Nat × Nat)) := do
  let start ← okOr (arrGet sd 4 4 4 count gid) .oob
  let ix1 ← usizeAdd gid 1
  let end_ ← okOr (arrGet sd 4 4 4 count ix1) .oob
  if start = end_ then .ok none
  else
    match sliceExcl sd start end_ with
    | none => .err .oob
    | some _ =>
      match glyphDataRead ((sd.drop start).take (end_ - start)) with
      | .error e => .err e
      | .ok () => .ok (some (start, end_))

end FontVerif.HandBitmap
