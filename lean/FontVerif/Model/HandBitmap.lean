/-
C01 (hand-written code) — transcriptions of the loop-carrying / index-computing hand-written functions of
read-fonts/src/tables/bitmap.rs / cblc.rs / ebdt.rs / sbix.rs (BitmapSize::location, index subtable formats 1-5, bitmap_data, glyph_data).

Every definition cites the Rust function it transcribes (file + fn) and keeps its checked / saturating /
wrapping arithmetic and its error returns; `Out.trap` / `none`-as-panic results mark what would be a panic of
the overflow-checked profile, and Props/C01HandBitmap.lean shows they are never produced.  Tied to the real code
by harness group `bitmap.model` (driver commands `hb.*`, Drv/C01HandBitmap.lean).
-/
import FontVerif.Model.ReadIter
import FontVerif.Model.HandRead
namespace FontVerif.HandBitmap
open FontVerif FontVerif.ReadIter FontVerif.HandRead

end FontVerif.HandBitmap
