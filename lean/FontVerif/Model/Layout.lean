/-
Model of the OpenType layout coverage / class-definition builders, their read-side lookups and
the coverage / PairPos-format-1 overflow splitting.

  write-fonts/src/tables/layout/builders.rs   CoverageTableBuilder, should_choose_coverage_format_2,
                                              ClassDefBuilderImpl::{prefer_format_1, build},
                                              iter_class_ranges, ClassDefBuilder::{can_add,
                                              checked_add, build_with_mapping}
  write-fonts/src/tables/layout.rs            RangeRecord::iter_for_glyphs, are_sequential
  read-fonts/src/tables/layout.rs             CoverageFormat1::get, CoverageFormat2::get,
                                              ClassDefFormat1::get, ClassDefFormat2::get, iterators
  core::slice::binary_search_by (rustc 1.95)  the branch-free loop used by all three readers
  write-fonts/src/graph/splitting.rs          split_coverage, split_range_record
  write-fonts/src/graph/splitting/pairpos.rs  split_pair_pos_format_1 (split-point heuristic and
                                              split loop), split_off_ppf1

Glyph ids, classes and coverage indices are `Nat`s (`u16` in Rust).  Where the Rust performs
`u16` arithmetic that can trap in the overflow-checked profile the model returns `none`
(`splitRangeRecord`, `splitCoverage`); `saturating_sub` is `Nat` subtraction.
-/
import FontVerif.Model.Base
namespace FontVerif.Layout

/-! ## `core::slice::binary_search_by` -/

/-- `Result<usize, usize>` of a binary search -/
inductive BsResult where
  | ok (i : Nat)
  | err (i : Nat)
deriving DecidableEq, Repr

/-- the `while size > 1 { half = size/2; mid = base+half; base = if cmp==Greater {base} else {mid};
size -= half }` loop; `cmpAt i` is `f(&self[i])`.  Returns the final `base`. -/
def bsLoop (cmpAt : Nat → Ordering) (size base : Nat) : Nat :=
  if _h : size > 1 then
    bsLoop cmpAt (size - size / 2) (if cmpAt (base + size / 2) == .gt then base else base + size / 2)
  else base
termination_by size
decreasing_by omega

/-- `<[T]>::binary_search_by` on a slice of length `n` -/
def binarySearchBy (n : Nat) (cmpAt : Nat → Ordering) : BsResult :=
  if n = 0 then .err 0 else
  let base := bsLoop cmpAt n 0
  match cmpAt base with
  | .eq => .ok base
  | .lt => .err (base + 1)
  | .gt => .err base

/-- `Ord::cmp` on `u16` / `GlyphId16` -/
def natCmp (a b : Nat) : Ordering := if a < b then .lt else if a = b then .eq else .gt

/-! ## Coverage tables -/

/-- `RangeRecord { start_glyph_id, end_glyph_id, start_coverage_index }` -/
structure RangeRec where
  start : Nat
  end_ : Nat
  startCov : Nat
deriving DecidableEq, Repr, Inhabited

/-- `CoverageTable::{Format1, Format2}` -/
inductive Coverage where
  | fmt1 (glyphs : List Nat)
  | fmt2 (recs : List RangeRec)
deriving DecidableEq, Repr

/-- comparison closure of `CoverageFormat2::get` -/
def rangeCmp (r : RangeRec) (g : Nat) : Ordering :=
  if r.end_ < g then .lt else if r.start > g then .gt else .eq

/-- `CoverageTable::get(gid)` (read-fonts).  `gid` is a `GlyphId` (u32); anything above
`0xFFFF` fails the `GlyphId16` conversion.  Format 2 computes
`start_coverage_index.checked_add(gid - start_glyph_id)`. -/
def Coverage.get : Coverage → Nat → Option Nat
  | .fmt1 xs, g =>
    if g ≥ 65536 then none else
    match binarySearchBy xs.length (fun i => natCmp (xs.getD i 0) g) with
    | .ok i => some i
    | .err _ => none
  | .fmt2 rs, g =>
    if g ≥ 65536 then none else
    match binarySearchBy rs.length (fun i => rangeCmp (rs.getD i default) g) with
    | .ok i =>
      let r := rs.getD i default
      let off := g - r.start
      if r.startCov + off < 65536 then some (r.startCov + off) else none
    | .err _ => none

/-- glyphs of one range record, `RangeRecord::iter` (`start..=end`) -/
def RangeRec.glyphs (r : RangeRec) : List Nat := List.range' r.start (r.end_ + 1 - r.start)

def expandRanges : List RangeRec → List Nat
  | [] => []
  | r :: rs => r.glyphs ++ expandRanges rs

/-- `CoverageTable::iter()`: the covered glyphs in coverage-index order -/
def Coverage.glyphs : Coverage → List Nat
  | .fmt1 xs => xs
  | .fmt2 rs => expandRanges rs

/-- `are_sequential(gid1, gid2)`: `gid2.saturating_sub(gid1) == 1` -/
def areSequential (g1 g2 : Nat) : Bool := g2 - g1 == 1

/-- body of `RangeRecord::iter_for_glyphs` with `cur_range = Some((a, b))` and the running
`len`; `len += 1 + b.saturating_sub(a)`. -/
def rangesGo (a b len : Nat) : List Nat → List RangeRec
  | [] => [⟨a, b, len⟩]
  | g :: rest =>
    if areSequential b g then rangesGo a g len rest
    else ⟨a, b, len⟩ :: rangesGo g g (len + 1 + (b - a)) rest

/-- `RangeRecord::iter_for_glyphs(glyphs)` -/
def iterForGlyphs : List Nat → List RangeRec
  | [] => []
  | g :: rest => rangesGo g g 0 rest

/-- insert into a strictly increasing list, dropping duplicates -/
def insertUniq (g : Nat) : List Nat → List Nat
  | [] => [g]
  | x :: xs => if g < x then g :: x :: xs else if g = x then x :: xs else x :: insertUniq g xs

/-- `glyphs.sort_unstable(); glyphs.dedup()` of `CoverageTableBuilder::from_glyphs` (the unique
strictly increasing list with the same members) -/
def sortDedup (gs : List Nat) : List Nat := gs.foldr insertUniq []

/-- `should_choose_coverage_format_2` -/
def shouldChooseFormat2 (gs : List Nat) : Bool :=
  4 + (iterForGlyphs gs).length * 6 < 4 + gs.length * 2

/-- `CoverageTableBuilder::build` on an already sorted/deduplicated vector -/
def buildCoverageSorted (gs : List Nat) : Coverage :=
  if shouldChooseFormat2 gs then .fmt2 (iterForGlyphs gs) else .fmt1 gs

/-- `CoverageTableBuilder::from_glyphs(gs).build()` -/
def buildCoverage (gs : List Nat) : Coverage := buildCoverageSorted (sortDedup gs)

/-- position of `g` in a list (specification side) -/
def indexIn (g : Nat) : List Nat → Option Nat
  | [] => none
  | x :: xs => if x = g then some 0 else (indexIn g xs).map (· + 1)

/-! ## Class definitions -/

/-- `ClassRangeRecord { start_glyph_id, end_glyph_id, class }` -/
structure ClassRangeRec where
  start : Nat
  end_ : Nat
  cls : Nat
deriving DecidableEq, Repr, Inhabited

inductive ClassDef where
  | fmt1 (startGlyph : Nat) (classes : List Nat)
  | fmt2 (recs : List ClassRangeRec)
deriving DecidableEq, Repr

/-- `ClassDef::get(gid)` (read-fonts `ClassDefFormat1::get`, `ClassDefFormat2::get`) -/
def ClassDef.get : ClassDef → Nat → Nat
  | .fmt1 s cs, g => if g < s then 0 else (cs[g - s]?).getD 0
  | .fmt2 rs, g =>
    let ix := match binarySearchBy rs.length (fun i => natCmp (rs.getD i default).start g) with
      | .ok i => i
      | .err i => i - 1
    match rs[ix]? with
    | some r => if r.start ≤ g ∧ g ≤ r.end_ then r.cls else 0
    | none => 0

/-- `BTreeMap::insert` on the in-order entry list -/
def insertItem (g c : Nat) : List (Nat × Nat) → List (Nat × Nat)
  | [] => [(g, c)]
  | (k, v) :: rest =>
    if g < k then (g, c) :: (k, v) :: rest
    else if g = k then (g, c) :: rest
    else (k, v) :: insertItem g c rest

/-- `ClassDefBuilderImpl::from_iter`: drop class 0, collect into a `BTreeMap` (last wins) -/
def collectItems (ps : List (Nat × Nat)) : List (Nat × Nat) :=
  (ps.filter (fun p => p.2 != 0)).foldl (fun m p => insertItem p.1 p.2 m) []

/-- body of `iter_class_ranges` with `prev = Some((s, e, c))` -/
def classRangesGo (s e c : Nat) : List (Nat × Nat) → List ClassRangeRec
  | [] => [⟨s, e, c⟩]
  | (g, cls) :: rest =>
    if areSequential e g && c == cls then classRangesGo s g c rest
    else ⟨s, e, c⟩ :: classRangesGo g g cls rest

/-- `iter_class_ranges(items)` -/
def iterClassRanges : List (Nat × Nat) → List ClassRangeRec
  | [] => []
  | (g, c) :: rest => classRangesGo g g c rest

/-- `ClassDefBuilderImpl::prefer_format_1` -/
def preferFormat1 (items : List (Nat × Nat)) : Bool :=
  match items.head?, items.getLast? with
  | some f, some l =>
    6 + ((l.1 - f.1) + 1) * 2 < 4 + (iterClassRanges items).length * 6
  | _, _ => false

/-- `BTreeMap::get` -/
def itemGet (g : Nat) : List (Nat × Nat) → Option Nat
  | [] => none
  | (k, v) :: rest => if k = g then some v else itemGet g rest

/-- `ClassDefBuilderImpl::build` -/
def buildClassDefItems (items : List (Nat × Nat)) : ClassDef :=
  if preferFormat1 items then
    match items.head?, items.getLast? with
    | some f, some l =>
      .fmt1 f.1 ((List.range' f.1 (l.1 + 1 - f.1)).map (fun g => (itemGet g items).getD 0))
    | _, _ => .fmt1 0 [0]  -- unreachable: prefer_format_1 is false on an empty map
  else .fmt2 (iterClassRanges items)

/-- `pairs.into_iter().collect::<ClassDef>()` -/
def buildClassDef (ps : List (Nat × Nat)) : ClassDef := buildClassDefItems (collectItems ps)

/-- specification side: the class assigned to `g` by a list of `(glyph, class)` pairs as
`FromIterator` sees them (class-0 pairs are dropped first, then the last pair for a glyph wins) -/
def assignedClass (ps : List (Nat × Nat)) (g : Nat) : Nat :=
  match (ps.filter (fun p => p.2 != 0)).reverse.find? (fun p => p.1 == g) with
  | some p => p.2
  | none => 0

/-! ### `ClassDefBuilder` (sets of glyphs → class ids) -/

/-- `ClassDefBuilder { classes, all_glyphs, use_class_0 }`; a class (`IntSet<GlyphId16>`) is its
strictly increasing member list, `classes` lists the distinct sets, `all_glyphs` is their union
(maintained only by `checked_add`, so it is derived here). -/
structure ClassDefBuilder where
  classes : List (List Nat)
  useClass0 : Bool
deriving Repr

def ClassDefBuilder.allGlyphsContains (b : ClassDefBuilder) (g : Nat) : Bool :=
  b.classes.any (fun c => c.contains g)

/-- `ClassDefBuilder::can_add` -/
def ClassDefBuilder.canAdd (b : ClassDefBuilder) (cls : List Nat) : Bool :=
  b.classes.contains cls || cls.all (fun g => !b.allGlyphsContains g)

/-- `ClassDefBuilder::checked_add` -/
def ClassDefBuilder.checkedAdd (b : ClassDefBuilder) (cls : List Nat) : ClassDefBuilder × Bool :=
  if b.canAdd cls then
    (if b.classes.contains cls then b else { b with classes := b.classes ++ [cls] }, true)
  else (b, false)

/-- sort key of `build_with_mapping`: `(Reverse(cls.len()), first glyph or 0)`; `keyLe a b` is
`key a ≤ key b` -/
def classKeyLe (a b : List Nat) : Bool :=
  a.length > b.length || (a.length == b.length && a.headD 0 ≤ b.headD 0)

def insertClass (c : List Nat) : List (List Nat) → List (List Nat)
  | [] => [c]
  | x :: xs => if classKeyLe c x then c :: x :: xs else x :: insertClass c xs

/-- `classes.sort_unstable_by_key(..)` (keys of distinct disjoint sets are distinct, so the
result does not depend on the sorting algorithm) -/
def sortClasses (cs : List (List Nat)) : List (List Nat) := cs.foldr insertClass []

/-- `ClassDefBuilder::build_with_mapping`: the mapping as `(class set, id)` in id order, and the
class definition collected from `(glyph, id)` pairs. -/
def ClassDefBuilder.buildWithMapping (b : ClassDefBuilder) : ClassDef × List (List Nat × Nat) :=
  let addOne := if b.useClass0 then 0 else 1
  let sorted := sortClasses b.classes
  let mapping := (List.range sorted.length).zipWith (fun i cls => (cls, i + addOne)) sorted
  let pairs := mapping.flatMap (fun p => p.1.map (fun g => (g, p.2)))
  (buildClassDef pairs, mapping)

/-! ## Coverage splitting (`graph/splitting.rs`) -/

def subU16 (a b : Nat) : Option Nat := if b ≤ a then some (a - b) else none
def addU16 (a b : Nat) : Option Nat := if a + b < 65536 then some (a + b) else none

/-- `split_range_record(record, start, end)` (`end` inclusive).  Outer `none` = `u16` overflow
trap; inner `none` = the record does not intersect. -/
def splitRangeRecord (r : RangeRec) (start end_ : Nat) : Option (Option RangeRec) := do
  let covStart := r.startCov
  let len ← subU16 r.end_ r.start
  let covEnd ← addU16 covStart len
  if covStart > end_ || covEnd < start then return none
  let newCovStart := covStart - start
  let startGlyphDelta := start - covStart
  let startGlyph ← addU16 r.start startGlyphDelta
  let rangeLen ← subU16 (min covEnd end_) (max covStart start)
  let endGlyph ← addU16 startGlyph rangeLen
  return some ⟨startGlyph, endGlyph, newCovStart⟩

/-- `filter_map(|record| split_range_record(record, start, end - 1))`, aborting on a trap -/
def splitRecords (start endIncl : Nat) : List RangeRec → Option (List RangeRec)
  | [] => some []
  | r :: rs => do
    let x ← splitRangeRecord r start endIncl
    let rest ← splitRecords start endIncl rs
    return match x with
      | some r' => r' :: rest
      | none => rest

/-- `split_coverage(coverage, start, end)`; `none` = panic (`assert!(start <= end)`, slice index
out of range, or a trap in `split_range_record`).  An empty range gives an empty table in both
formats (format 2: `if start == end { Vec::new() }`, since /repo 5c740c8). -/
def splitCoverage (c : Coverage) (start end_ : Nat) : Option Coverage :=
  if start > end_ then none else
  match c with
  | .fmt1 xs => if end_ > xs.length then none else some (.fmt1 ((xs.drop start).take (end_ - start)))
  | .fmt2 rs =>
    if start = end_ then some (.fmt2 []) else
    (splitRecords start (end_ - 1) rs).map .fmt2

/-! ## PairPos format 1 at the level "coverage + one pair set per covered glyph" -/

/-- a PairPos format 1 subtable: pair set `i` belongs to coverage index `i`; a pair set is a list
of `(second glyph, value)`.  `V` is the (opaque) pair of value records. -/
structure PairPos1 (V : Type) where
  cov : Coverage
  pairSets : List (List (Nat × V))

/-- lookup of `(g1, g2)` in one subtable: coverage index of `g1`, then the first record of that
pair set whose second glyph is `g2`. -/
def PairPos1.lookup {V : Type} (t : PairPos1 V) (g1 g2 : Nat) : Option V :=
  match t.cov.get g1 with
  | none => none
  | some i =>
    match t.pairSets[i]? with
    | none => none
    | some ps => (ps.find? (fun p => p.1 == g2)).map (·.2)

/-- first matching subtable wins -/
def firstMatch {V : Type} (ts : List (PairPos1 V)) (g1 g2 : Nat) : Option V :=
  ts.findSome? (fun t => t.lookup g1 g2)

/-! ## `PairPosBuilder`: glyph pairs (`tables/gpos/builders.rs`: `insert_pair`,
`GlyphPairPosBuilder::build`) at the rule level; `V` = the (opaque) pair of value records -/

/-- `GlyphPairPosBuilder(BTreeMap<g1, BTreeMap<g2, (record1, record2)>>)` as an association list
in insertion order -/
abbrev GlyphPairs (V : Type) := List ((Nat × Nat) × V)

/-- `PairPosBuilder::insert_pair`: `.entry(glyph1).or_default().entry(glyph2).or_insert((record1,
record2))` — the FIRST rule for a glyph pair is kept ("later conflicting rules are skipped"),
whatever its value -/
def GlyphPairs.insertPair {V : Type} (b : GlyphPairs V) (g1 g2 : Nat) (v : V) : GlyphPairs V :=
  if b.any (fun e => e.1.1 == g1 && e.1.2 == g2) then b else b ++ [((g1, g2), v)]

/-- a sequence of `insert_pair` calls on an empty builder -/
def GlyphPairs.ofRules {V : Type} (rules : List ((Nat × Nat) × V)) : GlyphPairs V :=
  rules.foldl (fun b r => b.insertPair r.1.1 r.1.2 r.2) []

/-- the `Vec<PairValueRecord>` of first glyph `g` within one value-format group: the group's
records for `g` in second-glyph order (iteration order of the inner `BTreeMap`) -/
def pairSetOf {V : Type} (es : GlyphPairs V) (g : Nat) : List (Nat × V) :=
  ((es.filter (fun e => e.1.1 == g)).mergeSort (fun a c => decide (a.1.2 ≤ c.1.2))).map
    (fun e => (e.1.2, e.2))

/-- the PairPos format 1 subtable of one value-format key `f`: coverage collected from the first
glyphs of the key's pairs (`CoverageTableBuilder`), one pair set per first glyph in glyph order -/
def glyphPairGroup {V : Type} (fmt : V → Nat) (b : GlyphPairs V) (f : Nat) : PairPos1 V :=
  let es := b.filter (fun e => fmt e.2 == f)
  ⟨buildCoverage (es.map (·.1.1)), (sortDedup (es.map (·.1.1))).map (pairSetOf es)⟩

/-- `GlyphPairPosBuilder::build`: EVERY pair is pushed into `split_by_format[(v1.format(),
v2.format())][g1]` (`fmt` = the format key; no pair is dropped, also not an all-zero one); one
subtable per key in key order -/
def buildGlyphPairs {V : Type} (fmt : V → Nat) (b : GlyphPairs V) : List (PairPos1 V) :=
  (sortDedup (b.map (fun e => fmt e.2))).map (glyphPairGroup fmt b)

/-- `split_off_ppf1(graph, subtable, start, end)` -/
def splitOffPpf1 {V : Type} (t : PairPos1 V) (start end_ : Nat) : Option (PairPos1 V) :=
  if end_ < start then none else
  match splitCoverage t.cov start end_ with
  | none => none
  | some c => some ⟨c, (t.pairSets.drop start).take (end_ - start)⟩

/-- the `for next_split in split_points { split_off_ppf1(prev_split, next_split); … }` loop -/
def splitPpf1Go {V : Type} (t : PairPos1 V) (prev : Nat) : List Nat → Option (List (PairPos1 V))
  | [] => some []
  | p :: ps =>
    match splitOffPpf1 t prev p, splitPpf1Go t p ps with
    | some a, some rest => some (a :: rest)
    | _, _ => none

/-- state of the size loop in `split_pair_pos_format_1` -/
structure Ppf1Acc where
  partialCov : Nat
  accumulated : Nat
  visited : List Nat
  points : List Nat   -- reversed

/-- one iteration of the size loop for pair set `i` = `(object id, subgraph size)`;
`BASE_SIZE = 10`, `MAX_TABLE_SIZE = 65535`. -/
def ppf1Step (coverageSize : Nat) (st : Ppf1Acc) (i : Nat) (ps : Nat × Nat) : Ppf1Acc :=
  let fresh := !st.visited.contains ps.1
  let tableSize := if fresh then ps.2 else 0
  let visited := if fresh then ps.1 :: st.visited else st.visited
  let delta := tableSize + 2
  let partialCov := st.partialCov + 2
  let accumulated := st.accumulated + delta
  let total := accumulated + min coverageSize partialCov
  if total > 65535 then
    { partialCov := 6, accumulated := 10 + delta, visited := [], points := i :: st.points }
  else
    { partialCov := partialCov, accumulated := accumulated, visited := visited, points := st.points }

def ppf1Loop (coverageSize : Nat) : Ppf1Acc → Nat → List (Nat × Nat) → Ppf1Acc
  | st, _, [] => st
  | st, i, ps :: rest => ppf1Loop coverageSize (ppf1Step coverageSize st i ps) (i + 1) rest

/-- the split points computed by `split_pair_pos_format_1` from the coverage table's byte size
and the per-pair-set `(object id, size of the pair set and its device tables)` list; `none` =
"nothing to split"; otherwise the list ends with the pair-set count. -/
def ppf1SplitPoints (coverageSize : Nat) (pairSets : List (Nat × Nat)) : Option (List Nat) :=
  let st := ppf1Loop coverageSize ⟨4, 10, [], []⟩ 0 pairSets
  if st.points.isEmpty then none else some (st.points.reverse ++ [pairSets.length])

/-! ## the split loop shared by all three splitters -/

/-- `let mut prev_split = 0; for next_split in split_points { new.push(split_off(prev_split,
next_split)); prev_split = next_split; }` -/
def splitLoop {S : Type} (f : Nat → Nat → Option S) (prev : Nat) : List Nat → Option (List S)
  | [] => some []
  | p :: ps =>
    match f prev p, splitLoop f p ps with
    | some a, some rest => some (a :: rest)
    | _, _ => none

/-! ## PairPos format 2 at the level "coverage + two class definitions + class1 × class2 matrix"
(`graph/splitting/pairpos.rs::split_off_ppf2`; value records are opaque) -/

structure PairPos2 (V : Type) where
  cov : Coverage
  classDef1 : ClassDef
  classDef2 : ClassDef
  /-- `class1_records`: one row per class-1 value, one entry per class-2 value -/
  rows : List (List V)

/-- reference lookup of `(g1, g2)` in one subtable (OpenType / HarfBuzz `PairPosFormat2::apply`):
`g1` must be covered; the two classes index the matrix; an index outside the matrix is no match. -/
def PairPos2.lookup {V : Type} (t : PairPos2 V) (g1 g2 : Nat) : Option V :=
  match t.cov.get g1 with
  | none => none
  | some _ =>
    match t.rows[t.classDef1.get g1]? with
    | none => none
    | some row => row[t.classDef2.get g2]?

/-- `split_off_ppf2(graph, subtable, start, end, _)`: the covered glyphs whose class-1 value lies in
`start..end` (`coverage.iter().filter_map(..)` collected into a `HashMap`), a new coverage table and
a new class definition 1 (classes shifted down by `start`, `saturating_sub`) built from that map,
class definition 2 reused, rows `start..end` copied.  `none` = `end - start` underflow. -/
def splitOffPpf2 {V : Type} (t : PairPos2 V) (start end_ : Nat) : Option (PairPos2 V) :=
  if end_ < start then none else
  let classMap := t.cov.glyphs.filterMap (fun g =>
    let c := t.classDef1.get g
    if start ≤ c ∧ c < end_ then some (g, c - start) else none)
  some ⟨buildCoverage (classMap.map (·.1)), buildClassDef classMap, t.classDef2,
    (t.rows.drop start).take (end_ - start)⟩

/-- the split loop of `split_pair_pos_format_2` -/
def splitPpf2Go {V : Type} (t : PairPos2 V) (prev : Nat) (pts : List Nat) : Option (List (PairPos2 V)) :=
  splitLoop (splitOffPpf2 t) prev pts

def firstMatch2 {V : Type} (ts : List (PairPos2 V)) (g1 g2 : Nat) : Option V :=
  ts.findSome? (fun t => t.lookup g1 g2)

/-! ## device / variation-index offsets of PairPos format 2 value records
(`graph/splitting/pairpos.rs::split_off_ppf2` record loop, `copy_value_rec`)

On the packing graph a subtable is `TableData { bytes, offsets }`: every offset field holds a
placeholder (`0xFFFF`, so that `is_null()` is false) and `offsets` lists the linked objects in the
order the fields were written.  For PairPos format 2 that is: coverage, class definition 1, class
definition 2, then the NON-NULL device offsets of all class-2 records in row-major order, value
record 1 before value record 2, fields in the order x_placement_device, y_placement_device,
x_advance_device, y_advance_device.  Null device offsets have no entry. -/

/-- a value record as reparsed from the subtable's bytes: the scalar fields (opaque) and, for the
four device fields, whether the offset is non-null -/
structure RawVR (S : Type) where
  scalars : S
  devs : List Bool
  deriving DecidableEq

/-- a value record whose device offsets are resolved to the ids of the objects they point to -/
structure DevVR (S : Type) where
  scalars : S
  devs : List (Option Nat)
  deriving DecidableEq

/-- the device half of `copy_value_rec(target, rec, format, dev_offsets)`: for every non-null device
offset `seen_offsets += 1; target.add_offset(dev_offsets[seen_offsets - 1].object, ..)` (`none` = index
out of bounds), otherwise a null offset / no field.  Returns the links written and `seen_offsets`. -/
def copyDevs (devOffsets : List Nat) : Nat → List Bool → Option (List (Option Nat) × Nat)
  | seen, [] => some ([], seen)
  | seen, true :: fs =>
    match devOffsets[seen]? with
    | none => none
    | some o =>
      match copyDevs devOffsets (seen + 1) fs with
      | some (ds, n) => some (some o :: ds, n)
      | none => none
  | seen, false :: fs =>
    match copyDevs devOffsets seen fs with
    | some (ds, n) => some (none :: ds, n)
    | none => none

/-- `copy_value_rec`: the scalar fields are copied, the device offsets re-linked; returns the number
of non-null offsets encountered in this record -/
def copyValueRec {S : Type} (r : RawVR S) (devOffsets : List Nat) : Option (DevVR S × Nat) :=
  match copyDevs devOffsets 0 r.devs with
  | none => none
  | some (ds, n) => some (⟨r.scalars, ds⟩, n)

/-- Rust `&xs[n..]` (panics when `n > len`) -/
def sliceFrom {α : Type} (xs : List α) (n : Nat) : Option (List α) :=
  if n ≤ xs.length then some (xs.drop n) else none

/-- the body of the `for class2rec in ..` loop of `split_off_ppf2`:
```
let rec_offset_start = first_device_idx + seen_offsets;
let rec_offsets = &graph.objects[&subtable].offsets[rec_offset_start..];
let rec1_seen = copy_value_rec(&mut new_ppf2, class2rec.value_record1(), value_format1, rec_offsets);
let rec_offsets = &rec_offsets[rec1_seen..];
seen_offsets += rec1_seen;
seen_offsets += copy_value_rec(&mut new_ppf2, class2rec.value_record2(), value_format2, rec_offsets);
```
returns the copied record and the new `seen_offsets` -/
def copyClass2Rec {S : Type} (offsets : List Nat) (firstDeviceIdx seen : Nat)
    (c : RawVR S × RawVR S) : Option ((DevVR S × DevVR S) × Nat) :=
  match sliceFrom offsets (firstDeviceIdx + seen) with
  | none => none
  | some recOffsets =>
    match copyValueRec c.1 recOffsets with
    | none => none
    | some (r1, rec1Seen) =>
      match sliceFrom recOffsets rec1Seen with
      | none => none
      | some recOffsets2 =>
        match copyValueRec c.2 recOffsets2 with
        | none => none
        | some (r2, rec2Seen) => some ((r1, r2), seen + rec1Seen + rec2Seen)

/-- the loop over the class-2 records of one class-1 record -/
def copyCells {S : Type} (offsets : List Nat) (firstDeviceIdx : Nat) :
    Nat → List (RawVR S × RawVR S) → Option (List (DevVR S × DevVR S) × Nat)
  | seen, [] => some ([], seen)
  | seen, c :: cs =>
    match copyClass2Rec offsets firstDeviceIdx seen c with
    | none => none
    | some (r, seen') =>
      match copyCells offsets firstDeviceIdx seen' cs with
      | none => none
      | some (rs, n) => some (r :: rs, n)

/-- `.skip(start).take(class1_count).flat_map(class2_records)`: the loop over the class-1 records -/
def copyRows {S : Type} (offsets : List Nat) (firstDeviceIdx : Nat) :
    Nat → List (List (RawVR S × RawVR S)) → Option (List (List (DevVR S × DevVR S)) × Nat)
  | seen, [] => some ([], seen)
  | seen, row :: rows =>
    match copyCells offsets firstDeviceIdx seen row with
    | none => none
    | some (r, seen') =>
      match copyRows offsets firstDeviceIdx seen' rows with
      | none => none
      | some (rs, n) => some (r :: rs, n)

/-- a PairPos format 2 subtable on the packing graph -/
structure PairPos2G (S : Type) where
  tbl : PairPos2 (RawVR S × RawVR S)
  /-- `graph.objects[&subtable].offsets` (object ids) -/
  offsets : List Nat

/-- `split_off_ppf2(graph, subtable, start, end, first_device_idx)` including the record loop:
returns the new subtable (device links resolved) and the number of non-null device offsets
encountered (`seen_offsets`). -/
def splitOffPpf2G {S : Type} (t : PairPos2G S) (start end_ firstDeviceIdx : Nat) :
    Option (PairPos2 (DevVR S × DevVR S) × Nat) :=
  match splitOffPpf2 t.tbl start end_ with
  | none => none
  | some p =>
    match copyRows t.offsets firstDeviceIdx 0 p.rows with
    | none => none
    | some (rows, used) => some (⟨p.cov, p.classDef1, p.classDef2, rows⟩, used)

/-- the split loop of `split_pair_pos_format_2`:
```
let mut prev_split = 0;
let mut next_device_offset = 3; // after coverage & two class defs
for next_split in split_points {
    let (new_subtable, offsets_used) = split_off_ppf2(graph, subtable, prev_split, next_split, next_device_offset);
    prev_split = next_split;
    next_device_offset += offsets_used;
    ..
}
``` -/
def splitPpf2GGo {S : Type} (t : PairPos2G S) :
    Nat → Nat → List Nat → Option (List (PairPos2 (DevVR S × DevVR S)))
  | _, _, [] => some []
  | prev, nextDev, p :: ps =>
    match splitOffPpf2G t prev p nextDev with
    | none => none
    | some (a, used) =>
      match splitPpf2GGo t p (nextDev + used) ps with
      | none => none
      | some rest => some (a :: rest)

/-! the meaning of the unsplit graph subtable (specification side; one walk with an absolute
counter, no slicing): the `k`-th non-null device offset in writing order links to `offsets[3 + k]` -/

def countDevs (fs : List Bool) : Nat := fs.count true

def resolveDevs (offsets : List Nat) : Nat → List Bool → List (Option Nat)
  | _, [] => []
  | k, true :: fs => offsets[k]? :: resolveDevs offsets (k + 1) fs
  | k, false :: fs => none :: resolveDevs offsets k fs

def cellDevs {S : Type} (c : RawVR S × RawVR S) : Nat := countDevs c.1.devs + countDevs c.2.devs

def rowDevs {S : Type} (row : List (RawVR S × RawVR S)) : Nat := (row.map cellDevs).sum

def rowsDevs {S : Type} (rows : List (List (RawVR S × RawVR S))) : Nat := (rows.map rowDevs).sum

def resolveCell {S : Type} (offsets : List Nat) (k : Nat) (c : RawVR S × RawVR S) : DevVR S × DevVR S :=
  (⟨c.1.scalars, resolveDevs offsets k c.1.devs⟩,
   ⟨c.2.scalars, resolveDevs offsets (k + countDevs c.1.devs) c.2.devs⟩)

def resolveCells {S : Type} (offsets : List Nat) : Nat → List (RawVR S × RawVR S) → List (DevVR S × DevVR S)
  | _, [] => []
  | k, c :: cs => resolveCell offsets k c :: resolveCells offsets (k + cellDevs c) cs

def resolveRows {S : Type} (offsets : List Nat) :
    Nat → List (List (RawVR S × RawVR S)) → List (List (DevVR S × DevVR S))
  | _, [] => []
  | k, row :: rows => resolveCells offsets k row :: resolveRows offsets (k + rowDevs row) rows

/-- the unsplit subtable with every device offset resolved -/
def PairPos2G.resolved {S : Type} (t : PairPos2G S) : PairPos2 (DevVR S × DevVR S) :=
  ⟨t.tbl.cov, t.tbl.classDef1, t.tbl.classDef2, resolveRows t.offsets 3 t.tbl.rows⟩

/-- every non-null device offset has its entry in `offsets` -/
def PairPos2G.WF {S : Type} (t : PairPos2G S) : Prop := 3 + rowsDevs t.tbl.rows ≤ t.offsets.length

/-! ## MarkBasePos format 1 (`graph/splitting/mark2base.rs::split_off_mark_pos`; anchors opaque) -/

structure MarkBase (A : Type) where
  markCov : Coverage
  baseCov : Coverage
  /-- `mark_class_count` -/
  classCount : Nat
  /-- `mark_array`: `(mark_class, anchor)` per mark coverage index -/
  marks : List (Nat × A)
  /-- `base_array`: per base coverage index one optional anchor per mark class -/
  bases : List (List (Option A))

/-- reference lookup of `(mark, base)` (HarfBuzz `MarkBasePosFormat1::apply` /
`MarkArray::apply`): both covered, the mark's class selects the base anchor; a null base anchor is
no match. -/
def MarkBase.lookup {A : Type} (t : MarkBase A) (m b : Nat) : Option (A × A) :=
  match t.markCov.get m, t.baseCov.get b with
  | some mi, some bi =>
    match t.marks[mi]?, t.bases[bi]? with
    | some (cls, am), some row =>
      match row[cls]? with
      | some (some ab) => some (am, ab)
      | _ => none
    | _, _ => none
  | _, _ => none

/-- `iter().enumerate().filter(|(i, _)| set.contains(i))` -/
def filterIdx {α : Type} (sel : Nat → Bool) (i : Nat) : List α → List α
  | [] => []
  | x :: xs => if sel i then x :: filterIdx sel (i + 1) xs else filterIdx sel (i + 1) xs

/-- `mark_glyphs_by_cov_id.contains(&i)`: the mark record `i` has a class in `start..end`
(`get_class_info` skips classes `>= mark_class_count`) -/
def markSel {A : Type} (t : MarkBase A) (start end_ : Nat) (i : Nat) : Bool :=
  match t.marks[i]? with
  | some p => decide (start ≤ p.1 ∧ p.1 < end_ ∧ p.1 < t.classCount)
  | none => false

/-- `split_off_mark_pos(graph, subtable, start, end, class_info)`: `mark_glyphs_by_cov_id` is the
set of mark-record indices whose class lies in `start..end` (`get_class_info` drops classes
`>= mark_class_count`); the mark coverage and the mark array are both filtered by that index set
(classes shifted down by `start`), the base coverage is reused, every base record keeps its anchors
for classes `start..end`.  `none` = `end - start` underflow. -/
def splitOffMarkBase {A : Type} (t : MarkBase A) (start end_ : Nat) : Option (MarkBase A) :=
  if end_ < start then none else
  some ⟨buildCoverage (filterIdx (markSel t start end_) 0 t.markCov.glyphs), t.baseCov, end_ - start,
    (filterIdx (markSel t start end_) 0 t.marks).map (fun p => (p.1 - start, p.2)),
    t.bases.map (fun row => (row.drop start).take (end_ - start))⟩

def splitMarkBaseGo {A : Type} (t : MarkBase A) (prev : Nat) (pts : List Nat) : Option (List (MarkBase A)) :=
  splitLoop (splitOffMarkBase t) prev pts

def firstMatchMB {A : Type} (ts : List (MarkBase A)) (m b : Nat) : Option (A × A) :=
  ts.findSome? (fun t => t.lookup m b)

/-! ## the size heuristic of `split_pair_pos_format_2` (value formats without device tables) -/

/-- `count_num_ranges(glyphs)` on a sorted glyph set: number of maximal runs -/
def countRangesGo (prev : Nat) : List Nat → Nat
  | [] => 0
  | g :: gs => (if g == prev + 1 then 0 else 1) + countRangesGo g gs

def countRanges : List Nat → Nat
  | [] => 0
  | g :: gs => 1 + countRangesGo g gs

/-- `ClassDefSizeEstimator` for the `(glyph, class1)` list of the coverage table -/
structure Ppf2Est where
  gc : List (Nat × Nat)

/-- the `BTreeSet` of glyphs of one class -/
def Ppf2Est.glyphsOf (e : Ppf2Est) (c : Nat) : List Nat :=
  sortDedup ((e.gc.filter (fun p => p.2 == c)).map (·.1))

/-- `increment_coverage_size(class)` -/
def Ppf2Est.incCov (e : Ppf2Est) (c : Nat) : Nat := 2 * (e.glyphsOf c).length

/-- `increment_class_def_size(class)`: 6 bytes per range (the format 2 size, an upper bound of
what the builder emits; since /repo 3404bb2 there is no "consecutive glyphs ⇒ format 1" shortcut);
class 0 has no entry in `num_ranges_per_class` -/
def Ppf2Est.incClassDef (e : Ppf2Est) (c : Nat) : Nat :=
  6 * (if c = 0 then 0 else countRanges (e.glyphsOf c))

structure Ppf2Acc where
  accumulated : Nat
  covSize : Nat
  cd1Size : Nat
  points : List Nat   -- reversed

/-- one iteration of the size loop for class-1 value `idx`; `BASE_SIZE = 16` -/
def ppf2Step (e : Ppf2Est) (recSize cd2Size : Nat) (st : Ppf2Acc) (idx : Nat) : Ppf2Acc :=
  let covSize := st.covSize + e.incCov idx
  let cd1Size := st.cd1Size + e.incClassDef idx
  let accumulated := st.accumulated + recSize
  let largest := max (max covSize cd1Size) cd2Size
  let total := accumulated + covSize + cd1Size + cd2Size - largest
  if total > 65535 then
    { accumulated := 16 + recSize, covSize := 4 + e.incCov idx, cd1Size := 4 + e.incClassDef idx,
      points := idx :: st.points }
  else { accumulated := accumulated, covSize := covSize, cd1Size := cd1Size, points := st.points }

/-- split points of `split_pair_pos_format_2` (no device tables): `gc` lists the covered glyphs
with their class-1 value in coverage order, `recSize = class2_count * (len(vf1) + len(vf2))`,
`cd2Size` the byte size of class definition 2.  `none` = nothing to split. -/
def ppf2SplitPoints (gc : List (Nat × Nat)) (class1Count recSize cd2Size : Nat) : Option (List Nat) :=
  let e : Ppf2Est := ⟨gc⟩
  let st := (List.range class1Count).foldl (ppf2Step e recSize cd2Size) ⟨16, 4, 4, []⟩
  if st.points.isEmpty then none else some (st.points.reverse ++ [class1Count])

end FontVerif.Layout
