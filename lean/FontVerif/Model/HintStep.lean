/-
skrifa's TrueType interpreter as a step function on the shared machine state (Model/TtState.lean):
one step = one instruction of the subset below, transcribed from the `op_*` handlers of
skrifa/src/outline/glyf/hint/engine/{graphics,outline,data,arith,stack,cvt,delta,misc,round}.rs
(non-pedantic mode, glyph program).  The value computations live in Model/HintVec.lean,
HintInterp.lean, HintMove.lean, HintRound.lean, HintMath.lean; this file is the plumbing: which
points / registers an instruction reads and writes.
An instruction is `(opcode, immediate)`; pseudo-opcode 256 = push `immediate` (PUSHB/PUSHW/NPUSH*).
NOT modelled (`unmodelled`): control flow (IF/ELSE/JMP*/CALL/LOOPCALL/FDEF/IDEF), the storage area and
stack-shuffling opcodes the generator does not emit; error paths (`oob`, `underflow`).
-/
import FontVerif.Model.HintInterp
set_option linter.unusedVariables false
namespace FontVerif.HintStep
open FontVerif FontVerif.HintMath FontVerif.HintMove FontVerif.HintRound FontVerif.Tt FontVerif.HintVec
open FontVerif.HintInterp

def proj (s : St) : R Proj := ofOpt (updateProjectionState s.pv s.dv s.fv)

def mpt (p : ZPt) : MPt := ⟨p.cur.x, p.cur.y, p.tx, p.ty⟩
def withM (p : ZPt) (m : MPt) : ZPt := { p with cur := ⟨m.x, m.y⟩, tx := m.tx, ty := m.ty }

def getZ (s : St) (z i : Nat) : R ZPt := getPt (s.zone z) i
def setZ (s : St) (z i : Nat) (p : ZPt) : St := s.setZone z ((s.zone z).set i p)

def iupd (s : St) : Bool := s.iupx && s.iupy

def push (s : St) (v : Int) : St := { s with stack := v :: s.stack }

/-- write the three vectors; `update_projection_state` runs (and may trap) at once. -/
def setVecs (s : St) (t : Vec × Vec × Vec) : R St := do
  let s := { s with pv := t.1, dv := t.2.1, fv := t.2.2 }
  let _ ← proj s
  pure s

def gs (s : St) : HintMove.Gs :=
  { mode := s.rmode, thr := s.rthr, ph := s.rph, per := s.rper, cutin := s.cutin, sw := s.sw,
    swci := s.swci, md := s.md, autoFlip := s.autoFlip }

/-- `move_point(zone, ix, d)` on the state. -/
def moveAt (s : St) (z i : Nat) (d : Int) : R St := do
  let g ← proj s
  let p ← getZ s z i
  pure (setZ s z i (withM p (movePoint g s.bc (iupd s) (mpt p) d)))

/-- `move_zp2_point` over a list of zp2 indices. -/
def moveZp2Many (s : St) (g : Proj) (dx dy : Int) (touch : Bool) : List Nat → R St
  | [] => pure s
  | i :: rest => do
    let p ← getZ s s.zp2 i
    let s := setZ s s.zp2 i (withM p (moveZp2Point g s.bc (iupd s) (mpt p) dx dy touch))
    moveZp2Many s g dx dy touch rest

/-- `point_displacement(opcode)`: `(zone, point, dx, dy)`. -/
def displacement (s : St) (g : Proj) (a : Bool) : R (Nat × Nat × Int × Int) := do
  let (z, i) := if a then (s.zp0, s.rp1) else (s.zp1, s.rp2)
  let p ← getZ s z i
  let (dx, dy) ← ofOpt (pointDisplacement g p.cur p.org)
  pure (z, i, dx, dy)

def setCvt (s : St) (i : Nat) (v : Int) : R St :=
  if i < s.cvt.length then pure { s with cvt := s.cvt.set i v } else throw "oob"

def getCvt (s : St) (i : Nat) : R Int :=
  match s.cvt[i]? with
  | some v => pure v
  | none => throw "oob"

/-- DELTAP / DELTAC exception decoding: `c = ((b as u32 & 0xF0) >> 4) + bias`, and for a firing exception
the step `b = (b & 0xF) - 8; if b >= 0 { b += 1 }; b *= 1 << (6 - delta_shift)`. -/
def deltaPpem (b bias : Int) : Int := (wrapU32 b % 256) / 16 + bias
def deltaStep (b shift : Int) : Option Int :=
  let m := (wrapU32 b % 16) - 8
  let m := if m ≥ 0 then m + 1 else m
  chk (m * (2 : Int) ^ (6 - shift).toNat)

/-- the pairs `(point_ix, b)` of a DELTA instruction. -/
def popPairs (s : St) : Nat → R (List (Int × Int) × St)
  | 0 => pure ([], s)
  | n + 1 => do
    let (a, s) ← s.pop
    let (b, s) ← s.pop
    let (rest, s) ← popPairs s n
    pure ((a, b) :: rest, s)

/-- one DELTAP exception `(point_ix, b)` of `op_deltap` on the point `p` (cached projection state `g`):
`c = ((b as u32 & 0xF0) >> 4) + bias; if ppem as u32 == c { b = (b & 0xF) - 8; if b >= 0 { b += 1 };
b *= 1 << (6 - delta_shift); … move_point }` with the backward-compatibility condition
`!did_iup && ((is_composite && fv.y != 0) || touched_y)`.  `none` = the checked multiply traps. -/
def deltapOne (g : Proj) (ppem bias shift : Int) (bc iup composite : Bool) (b : Int) (p : MPt) : Option MPt :=
  if wrapU32 ppem = deltaPpem b bias then
    (deltaStep b shift).map fun d =>
      if bc then (if ¬ iup ∧ ((composite ∧ g.fv.y ≠ 0) ∨ p.ty) then movePoint g bc iup p d else p)
      else movePoint g bc iup p d
  else some p

/-- one DELTAC exception on the cvt value `v`: `cvt_val + F26Dot6::from_bits(b)`. -/
def deltacOne (ppem bias shift : Int) (b v : Int) : Option Int :=
  if wrapU32 ppem = deltaPpem b bias then (deltaStep b shift).map fun d => wadd v d else some v

def deltapLoop (s : St) (bias : Int) : List (Int × Int) → R St
  | [] => pure s
  | (a, b) :: rest => do
    let i ← asIndex a
    let p ← getZ s s.zp0 i
    let g ← proj s
    let m ← ofOpt (deltapOne g s.ppem bias s.deltaShift s.bc (iupd s) s.composite b (mpt p))
    deltapLoop (setZ s s.zp0 i (withM p m)) bias rest

def deltacLoop (s : St) (bias : Int) : List (Int × Int) → R St
  | [] => pure s
  | (a, b) :: rest => do
    let i ← asIndex a
    let v ← getCvt s i
    let v' ← ofOpt (deltacOne s.ppem bias s.deltaShift b v)
    let s ← setCvt s i v'
    deltacLoop s bias rest

/-- `op_getinfo`: `smooth`, `vlcd`, `sym`, `grayCt` = `target.is_smooth()`, `is_vertical_lcd()`,
`symmetric_rendering()`, `is_grayscale_cleartype()`; static font, not rotated / stretched. -/
def getinfo (sel : Int) (smooth vlcd sym grayCt : Bool) : Int :=
  let bit (k : Int) : Bool := sel / k % 2 = 1
  let r := if bit 1 then 40 else 0
  let r := if smooth ∧ bit 64 then r + 8192 else r
  let r := if smooth ∧ bit 256 ∧ vlcd then r + 32768 else r
  let r := if smooth ∧ bit 1024 then r + 131072 else r
  let r := if smooth ∧ bit 2048 ∧ sym then r + 262144 else r
  let r := if smooth ∧ bit 4096 ∧ grayCt then r + 524288 else r
  r

/-- rendering target bits carried in `instructControl`'s upper part by the driver protocol: see
`Drv/C03Prog.lean` (`St.scanType` is reused as the target code: 0 mono, 1 normal, 2 light, 3 lcd, 4 vlcd). -/
def targetSmooth (t : Int) : Bool := t ≠ 0

def shpixLoop (g : Proj) (dx dy : Int) (inTw : Bool) (s : St) : List Nat → R St
  | [] => pure s
  | i :: rest => do
    let p ← getZ s s.zp2 i
    let s := if shpixMoves s.bc (iupd s) inTw s.composite s.fv p.ty
      then setZ s s.zp2 i (withM p (moveZp2Point g s.bc (iupd s) (mpt p) dx dy true)) else s
    shpixLoop g dx dy inTw s rest

def ipLoop (g : Proj) (tw : Bool) (oldRange curRange : Int) (b : ZPt) (s : St) : List Nat → R St
  | [] => pure s
  | i :: rest => do
    let p ← getZ s s.zp2 i
    let m ← ofOpt (ipPoint g s.bc (iupd s) tw oldRange curRange b p)
    ipLoop g tw oldRange curRange b (setZ s s.zp2 i (withM p m)) rest

def alignrpLoop (g : Proj) (s : St) : List Nat → R St
  | [] => pure s
  | i :: rest => do
    let p ← getZ s s.zp1 i
    let r ← getZ s s.zp0 s.rp0
    let m ← ofOpt (alignrp g s.bc (iupd s) (mpt p) r.cur)
    alignrpLoop g (setZ s s.zp1 i (withM p m)) rest

def flipLoop (s : St) : List Nat → R St
  | [] => pure s
  | i :: rest => do
    let p ← getPt s.glyph i
    flipLoop { s with glyph := s.glyph.set i (flipPt p) } rest

/-- `op_scanctrl` for an unrotated, unstretched glyph: the new `scan_control`. -/
def scanctrl (n ppem : Int) (sc : Bool) : Bool :=
  let thr := n % 256
  if thr = 255 then true
  else if thr = 0 then false
  else
    let sc := if n / 256 % 2 = 1 ∧ ppem ≤ thr then true else sc
    let sc := if n / 2048 % 2 = 1 ∧ ppem > thr then false else sc
    sc

/-- CVT setup of `HintInstance::setup`: `(value as i32) * 64`, then `Fixed(v) * Fixed(scale >> 6)`. -/
def cvtSetup (units scale : Int) : Option Int :=
  (chk (units * 64)).map fun v => Fixed.mul v (scale / 64)

/-- `op_instctrl` (`target.preserve_linear_metrics()` is false for every target the comparison tool
uses): `selector = pop() as u32; value = pop() as u32`. -/
def instctrl (s : St) (sel v : Int) : St :=
  let sel := wrapU32 sel
  let v := wrapU32 v
  if ¬ (1 ≤ sel ∧ sel ≤ 3) then s
  else
    let flag := (2 : Int) ^ (sel - 1).toNat
    if v ≠ 0 ∧ v ≠ flag then s
    else if s.inPrep then
      -- instruct_control &= !(selector_flag as u8); instruct_control |= value as u8
      { s with instructControl := (s.instructControl - (if s.instructControl / flag % 2 = 1 then flag else 0)) + v % 256 }
    else if sel = 3 then { s with bc := v ≠ 4 }
    else s

/-- `Engine::reset(Program::Glyph)` after the prep: the retained graphics state, cvt, storage and twilight
zone are kept; everything else is `GraphicsState::default()`; instruct control bit 1 resets the
retained state (`reset_retained`); backward compatibility from the target (`smooth`) and bit 2. -/
def startGlyph (p : St) (smooth : Bool) (glyph : List ZPt) (ends : List Nat) : St :=
  let p := if p.instructControl / 2 % 2 = 1 then
      { p with autoFlip := true, cutin := 68, deltaBase := 9, deltaShift := 3, instructControl := 0, md := 64,
               scanControl := false, swci := 0, sw := 0 }
    else p
  { p with glyph := glyph, ends := ends, stack := [],
           pv := ⟨16384, 0⟩, dv := ⟨16384, 0⟩, fv := ⟨16384, 0⟩,
           rp0 := 0, rp1 := 0, rp2 := 0, zp0 := 1, zp1 := 1, zp2 := 1, loop := 1,
           rmode := 0, rthr := 0, rph := 0, rper := 64,
           bc := smooth ∧ p.instructControl / 4 % 2 = 0, iupx := false, iupy := false, inPrep := false }

/-- one instruction. -/
def step (op imm : Int) (s : St) : R St := do
  if op = 256 then pure (push s (wrapI32 imm))
  -- SVTCA / SPVTCA / SFVTCA
  else if 0 ≤ op ∧ op ≤ 5 then setVecs s (svtca op s.pv s.dv s.fv)
  -- SPVTL / SFVTL
  else if 6 ≤ op ∧ op ≤ 9 then do
    let (i1, s) ← s.popIdx
    let (i2, s) ← s.popIdx
    let p1 ← getZ s s.zp1 i2
    let p2 ← getZ s s.zp2 i1
    let t ← ofOpt (svtl op p1.cur p2.cur s.pv s.dv s.fv)
    setVecs s t
  else if op = 0x0A then do
    let (y, s) ← s.pop
    let (x, s) ← s.pop
    let t ← ofOpt (spvfs x y s.pv s.dv s.fv)
    setVecs s t
  else if op = 0x0B then do
    let (y, s) ← s.pop
    let (x, s) ← s.pop
    let t ← ofOpt (sfvfs x y s.pv s.dv s.fv)
    setVecs s t
  else if op = 0x0C then pure (push (push s s.pv.x) s.pv.y)
  else if op = 0x0D then pure (push (push s s.fv.x) s.fv.y)
  else if op = 0x0E then setVecs s (s.pv, s.dv, s.pv)
  -- ISECT
  else if op = 0x0F then do
    let (b1, s) ← s.popIdx
    let (b0, s) ← s.popIdx
    let (a1, s) ← s.popIdx
    let (a0, s) ← s.popIdx
    let (pi, s) ← s.popIdx
    let pa0 ← getZ s s.zp1 a0
    let pa1 ← getZ s s.zp1 a1
    let pb0 ← getZ s s.zp0 b0
    let pb1 ← getZ s s.zp0 b1
    let p ← getZ s s.zp2 pi
    pure (setZ s s.zp2 pi { p with cur := isect pa0.cur pa1.cur pb0.cur pb1.cur, tx := true, ty := true })
  else if op = 0x10 then do let (i, s) ← s.popIdx; pure { s with rp0 := i }
  else if op = 0x11 then do let (i, s) ← s.popIdx; pure { s with rp1 := i }
  else if op = 0x12 then do let (i, s) ← s.popIdx; pure { s with rp2 := i }
  else if op = 0x13 then do let (v, s) ← s.pop; if v = 0 ∨ v = 1 then pure { s with zp0 := v.toNat } else throw "oob"
  else if op = 0x14 then do let (v, s) ← s.pop; if v = 0 ∨ v = 1 then pure { s with zp1 := v.toNat } else throw "oob"
  else if op = 0x15 then do let (v, s) ← s.pop; if v = 0 ∨ v = 1 then pure { s with zp2 := v.toNat } else throw "oob"
  else if op = 0x16 then do
    let (v, s) ← s.pop
    if v = 0 ∨ v = 1 then pure { s with zp0 := v.toNat, zp1 := v.toNat, zp2 := v.toNat } else throw "oob"
  -- SLOOP: `(n as u32).min(0xFFFF)`, negative is an error
  else if op = 0x17 then do
    let (v, s) ← s.pop
    if v < 0 then throw "unmodelled" else pure { s with loop := if v > 65535 then 65535 else v }
  -- round state
  else if op = 0x18 then pure { s with rmode := 0 }
  else if op = 0x19 then pure { s with rmode := 1 }
  else if op = 0x3D then pure { s with rmode := 2 }
  else if op = 0x7D then pure { s with rmode := 3 }
  else if op = 0x7C then pure { s with rmode := 4 }
  else if op = 0x7A then pure { s with rmode := 5 }
  else if op = 0x76 ∨ op = 0x77 then do
    let (sel, s) ← s.pop
    let (p, ph, t) ← ofOpt (superRound (if op = 0x76 then 0x4000 else 0x2D41) sel)
    pure { s with rmode := if op = 0x76 then 6 else 7, rper := p, rph := ph, rthr := t }
  else if op = 0x1A then do let (v, s) ← s.pop; pure { s with md := v }
  else if op = 0x1D then do let (v, s) ← s.pop; pure { s with cutin := v }
  else if op = 0x1E then do let (v, s) ← s.pop; pure { s with swci := v }
  else if op = 0x1F then do let (v, s) ← s.pop; pure { s with sw := mul v s.scale }
  else if op = 0x20 then do let (v, s) ← s.pop; pure (push (push s v) v)
  else if op = 0x21 then do let (_, s) ← s.pop; pure s
  else if op = 0x23 then do let (a, s) ← s.pop; let (b, s) ← s.pop; pure (push (push s a) b)
  -- ALIGNPTS
  else if op = 0x27 then do
    let (i2, s) ← s.popIdx
    let (i1, s) ← s.popIdx
    let g ← proj s
    let p2 ← getZ s s.zp0 i2
    let p1 ← getZ s s.zp1 i1
    let d ← ofOpt (alignptsDist g p2.cur p1.cur)
    let s ← moveAt s s.zp1 i1 d
    moveAt s s.zp0 i2 (wneg d)
  -- UTP
  else if op = 0x29 then do
    let (i, s) ← s.popIdx
    let p ← getZ s s.zp0 i
    pure (setZ s s.zp0 i (utp s.fv p))
  -- MDAP
  else if op = 0x2E ∨ op = 0x2F then do
    let (i, s) ← s.popIdx
    let g ← proj s
    let p ← getZ s s.zp0 i
    let m ← ofOpt (mdap g s.bc (iupd s) (op = 0x2F) s.rmode s.rthr s.rph s.rper (mpt p))
    pure { setZ s s.zp0 i (withM p m) with rp0 := i, rp1 := i }
  -- IUP
  else if op = 0x30 ∨ op = 0x31 then do
    let ax := op = 0x31
    let run := ¬ (s.bc ∧ s.iupx ∧ s.iupy)
    let s := if s.bc then (if ax then { s with iupx := true } else { s with iupy := true }) else s
    if run then do
      let pts ← ofOpt (iup ax s.glyph s.ends)
      pure { s with glyph := pts }
    else pure s
  -- SHP
  else if op = 0x32 ∨ op = 0x33 then do
    let g ← proj s
    let (_, _, dx, dy) ← displacement s g (op = 0x33)
    let n := s.loop.toNat
    let s := { s with loop := 1 }
    let (ixs, s) ← s.popLoop n
    moveZp2Many s g dx dy true ixs
  -- SHC
  else if op = 0x34 ∨ op = 0x35 then do
    let (c, s) ← s.popIdx
    let g ← proj s
    -- the twilight zone is built with ONE contour (`[twilight_count]`, hint/instance.rs)
    let nContours := if s.zp2 = 0 then 1 else s.ends.length
    if c ≥ nContours then
      -- `!is_pedantic && contour_ix >= zp2().contours.len()`: nothing happens
      pure s
    else do
      let (z, ri, dx, dy) ← displacement s g (op = 0x35)
      let start := if c ≠ 0 then (s.ends.getD (c - 1) 0) + 1 else 0
      let stop := if s.zp2 = 0 then s.twi.length else s.ends.getD c 0 + 1
      let ixs := (List.range stop).filter fun i => start ≤ i ∧ ¬ (z = s.zp2 ∧ ri = i)
      moveZp2Many s g dx dy true ixs
  -- SHZ
  else if op = 0x36 ∨ op = 0x37 then do
    let (e, s) ← s.pop
    if ¬ (e = 0 ∨ e = 1) then throw "oob"
    let g ← proj s
    let (z, ri, dx, dy) ← displacement s g (op = 0x37)
    let stop := if s.zp2 = 0 then s.twi.length else (match s.ends.getLast? with | some l => l + 1 | none => 0)
    let ixs := (List.range stop).filter fun i => ¬ (z = s.zp2 ∧ ri = i)
    moveZp2Many s g dx dy false ixs
  -- SHPIX
  else if op = 0x38 then do
    let (amount, s) ← s.pop
    let g ← proj s
    let (dx, dy) := shpixDisp s.fv amount
    let inTw := s.zp0 = 0 ∨ s.zp1 = 0 ∨ s.zp2 = 0
    let n := s.loop.toNat
    let s := { s with loop := 1 }
    let (ixs, s) ← s.popLoop n
    shpixLoop g dx dy inTw s ixs
  -- IP
  else if op = 0x39 then do
    let g ← proj s
    let n := s.loop.toNat
    let s := { s with loop := 1 }
    let tw := s.zp0 = 0 ∨ s.zp1 = 0 ∨ s.zp2 = 0
    let b ← getZ s s.zp0 s.rp1
    let r2 ← getZ s s.zp1 s.rp2
    let (oldRange, curRange) ← ofOpt (ipRanges g tw b r2)
    let (ixs, s) ← s.popLoop n
    ipLoop g tw oldRange curRange b s ixs
  -- MSIRP
  else if op = 0x3A ∨ op = 0x3B then do
    let (d, s) ← s.pop
    let (i, s) ← s.popIdx
    let g ← proj s
    let r ← getZ s s.zp0 s.rp0
    let p ← getZ s s.zp1 i
    let s :=
      if s.zp1 = 0 then
        let o := moveOriginal g r.org d
        setZ s s.zp1 i { p with org := o, cur := o }
      else s
    let p ← getZ s s.zp1 i
    let r ← getZ s s.zp0 s.rp0
    let m ← ofOpt (msirp g s.bc (iupd s) (mpt p) r.cur d)
    let s := setZ s s.zp1 i (withM p m)
    pure { s with rp1 := s.rp0, rp2 := i, rp0 := if op = 0x3B then i else s.rp0 }
  -- ALIGNRP
  else if op = 0x3C then do
    let g ← proj s
    let n := s.loop.toNat
    let s := { s with loop := 1 }
    let (ixs, s) ← s.popLoop n
    alignrpLoop g s ixs
  -- MIAP
  else if op = 0x3E ∨ op = 0x3F then do
    let (ci, s) ← s.popIdx
    let (i, s) ← s.popIdx
    let g ← proj s
    let c ← getCvt s ci
    let p ← getZ s s.zp0 i
    let s :=
      if s.zp0 = 0 then
        let o : Vec := ⟨mul14 c s.fv.x, mul14 c s.fv.y⟩
        setZ s s.zp0 i { p with org := o, cur := o }
      else s
    let p ← getZ s s.zp0 i
    let cur ← ofOpt (project g p.cur Vec.zero)
    let mv ← ofOpt (miap (gs s) (op = 0x3F) c cur)
    let s ← moveAt s s.zp0 i mv
    pure { s with rp0 := i, rp1 := i }
  -- WCVTP, RCVT, WCVTF
  else if op = 0x44 then do
    let (v, s) ← s.pop
    let (i, s) ← s.popIdx
    setCvt s i v
  else if op = 0x45 then do
    let (i, s) ← s.popIdx
    let v ← getCvt s i
    pure (push s v)
  else if op = 0x70 then do
    let (v, s) ← s.pop
    let (i, s) ← s.popIdx
    setCvt s i (mul v s.scale)
  -- GC
  else if op = 0x46 ∨ op = 0x47 then do
    let (i, s) ← s.popIdx
    let g ← proj s
    let p ← getZ s s.zp2 i
    let v ← ofOpt (gc g (op = 0x47) p.org p.cur)
    pure (push s v)
  -- SCFS
  else if op = 0x48 then do
    let (v, s) ← s.pop
    let (i, s) ← s.popIdx
    let g ← proj s
    let p ← getZ s s.zp2 i
    let m ← ofOpt (scfs g s.bc (iupd s) (mpt p) v)
    let p := withM p m
    pure (setZ s s.zp2 i (if s.zp2 = 0 then { p with org := p.cur } else p))
  -- MD
  else if op = 0x49 ∨ op = 0x4A then do
    let (i1, s) ← s.popIdx
    let (i2, s) ← s.popIdx
    let g ← proj s
    let p2 ← getZ s s.zp0 i2
    let p1 ← getZ s s.zp1 i1
    let v ← ofOpt (md g (op = 0x49) (s.zp0 = 0 ∨ s.zp1 = 0) (if s.composite then 65536 else s.scale) p2 p1)
    pure (push s v)
  -- MPPEM, MPS
  else if op = 0x4B then pure (push s s.ppem)
  else if op = 0x4C then pure (push s (if s.ppem * 64 > 2147483647 then 2147483647 else if s.ppem * 64 < -2147483648 then -2147483648 else s.ppem * 64))
  else if op = 0x4D then pure { s with autoFlip := true }
  else if op = 0x4E then pure { s with autoFlip := false }
  -- DELTAP1/2/3
  else if op = 0x5D ∨ op = 0x71 ∨ op = 0x72 then do
    let (n, s) ← s.pop
    let n := (if n < 0 then 0 else n).toNat
    let n := if n ≤ s.stack.length / 2 then n else s.stack.length / 2
    let bias := (if op = 0x71 then 16 else if op = 0x72 then 32 else 0) + s.deltaBase
    let (pairs, s) ← popPairs s n
    deltapLoop s bias pairs
  -- DELTAC1/2/3
  else if op = 0x73 ∨ op = 0x74 ∨ op = 0x75 then do
    let (n, s) ← s.pop
    let n := (if n < 0 then 0 else n).toNat
    let n := if n ≤ s.stack.length / 2 then n else s.stack.length / 2
    let bias := (if op = 0x74 then 16 else if op = 0x75 then 32 else 0) + s.deltaBase
    let (pairs, s) ← popPairs s n
    deltacLoop s bias pairs
  else if op = 0x5E then do let (v, s) ← s.pop; pure { s with deltaBase := wrapU16 v }
  else if op = 0x5F then do
    let (v, s) ← s.pop
    if wrapU32 v > 6 then throw "unmodelled" else pure { s with deltaShift := v }
  -- arithmetic
  else if op = 0x60 then do let (b, s) ← s.pop; let (a, s) ← s.pop; pure (push s (wrapI32 (a + b)))
  else if op = 0x61 then do let (b, s) ← s.pop; let (a, s) ← s.pop; pure (push s (wrapI32 (a - b)))
  else if op = 0x62 then do
    let (b, s) ← s.pop
    let (a, s) ← s.pop
    if b = 0 then throw "unmodelled" else pure (push s (mulDivNoRound a 64 b))
  else if op = 0x63 then do let (b, s) ← s.pop; let (a, s) ← s.pop; pure (push s (mulDiv a b 64))
  else if op = 0x64 then do let (a, s) ← s.pop; pure (push s (wabs32 a))
  else if op = 0x65 then do let (a, s) ← s.pop; pure (push s (wrapI32 (-a)))
  -- ROUND[ab] / NROUND[ab]
  else if 0x68 ≤ op ∧ op ≤ 0x6B then do
    let (a, s) ← s.pop
    let r ← ofOpt (HintRound.round s.rmode s.rthr s.rph s.rper a)
    pure (push s r)
  else if 0x6C ≤ op ∧ op ≤ 0x6F then pure s
  -- FLIPPT
  else if op = 0x80 then do
    let n := s.loop.toNat
    let s := { s with loop := 1 }
    -- blocked after both IUPs in backward compatibility mode: returns before popping (fix 2e3eaf9)
    if s.bc ∧ s.iupx ∧ s.iupy then pure s
    else do
      let (ixs, s) ← s.popLoop n
      flipLoop s ixs
  -- FLIPRGON / FLIPRGOFF
  else if op = 0x81 ∨ op = 0x82 then do
    let (hi, s) ← s.popIdx
    let (lo, s) ← s.popIdx
    if s.bc ∧ s.iupx ∧ s.iupy then pure s
    else if hi ≥ s.glyph.length ∨ lo > hi + 1 then throw "oob"
    else pure { s with glyph := flipRange s.glyph lo hi (op = 0x81) }
  -- SCANCTRL
  else if op = 0x85 then do
    let (n, s) ← s.pop
    pure { s with scanControl := scanctrl n s.ppem s.scanControl }
  -- SDPVTL
  else if op = 0x86 ∨ op = 0x87 then do
    let (i1, s) ← s.popIdx
    let (i2, s) ← s.popIdx
    let p1 ← getZ s s.zp1 i2
    let p2 ← getZ s s.zp2 i1
    let t ← ofOpt (sdpvtl op p1.org p2.org p1.cur p2.cur s.fv)
    setVecs s t
  -- GETINFO (the rendering target is carried in `scanType`: 0 mono, 1 normal, 2 light, 3 lcd, 4 vertical lcd)
  else if op = 0x88 then do
    let (sel, s) ← s.pop
    let t := s.scanType
    pure (push s (getinfo sel (t ≠ 0) (t = 4) (t ≠ 0) (t = 1)))
  -- INSTCTRL: in the prep it edits `instruct_control`, in a glyph program only selector 3 has an effect
  else if op = 0x8E then do
    let (sel, s) ← s.pop
    let (v, s) ← s.pop
    pure (instctrl s sel v)
  -- MDRP
  else if 0xC0 ≤ op ∧ op ≤ 0xDF then do
    let fl := op - 0xC0
    let (i, s) ← s.popIdx
    let g ← proj s
    let p ← getZ s s.zp1 i
    let r ← getZ s s.zp0 s.rp0
    let org ←
      if s.zp0 = 0 ∨ s.zp1 = 0 then ofOpt (dualProject g p.org r.org)
      else do
        let d ← ofOpt (dualProjectUnscaled g p.orus r.orus)
        pure (mul d (if s.composite then 65536 else s.scale))
    let cur ← ofOpt (project g p.cur r.cur)
    let mv ← ofOpt (mdrp (gs s) (fl / 4 % 2 = 1) (fl / 8 % 2 = 1) org cur)
    let s ← moveAt s s.zp1 i mv
    pure { s with rp1 := s.rp0, rp2 := i, rp0 := if fl / 16 % 2 = 1 then i else s.rp0 }
  -- MIRP
  else if 0xE0 ≤ op ∧ op ≤ 0xFF then do
    let fl := op - 0xE0
    let (nraw, s) ← s.pop
    let (i, s) ← s.popIdx
    let g ← proj s
    let n := wrapI32 (nraw + 1)
    if n < 0 ∨ n > s.cvt.length then throw "oob"
    let c0 ← if n = 0 then pure 0 else getCvt s (n - 1).toNat
    let c := mirpSw (gs s) c0
    let p ← getZ s s.zp1 i
    let r ← getZ s s.zp0 s.rp0
    let s :=
      if s.zp1 = 0 then
        let o : Vec := ⟨wadd r.org.x (mul14 c s.fv.x), wadd r.org.y (mul14 c s.fv.y)⟩
        setZ s s.zp1 i { p with org := o, cur := o }
      else s
    let p ← getZ s s.zp1 i
    let r ← getZ s s.zp0 s.rp0
    let org ← ofOpt (dualProject g p.org r.org)
    let cur ← ofOpt (project g p.cur r.cur)
    let mv ← ofOpt (mirpMove (gs s) (fl / 4 % 2 = 1) (fl / 8 % 2 = 1) (s.zp0 = s.zp1) c org cur)
    let s ← moveAt s s.zp1 i mv
    pure { s with rp1 := s.rp0, rp0 := if fl / 16 % 2 = 1 then i else s.rp0, rp2 := i }
  else throw "unmodelled"

/-- run a program. -/
def run : List (Int × Int) → St → R St
  | [], s => pure s
  | (op, imm) :: rest, s => do
    let s ← step op imm s
    run rest s

end FontVerif.HintStep
