/-
C01 — transcriptions of the *hand-written* functions that generated readers call (the `Ext`
parameter of Model/Shape.lean), used by the driver so that the real `read` can be compared with
`Shape.run` on concrete bytes.  The generic safety theorem (`Props/C01.lean`) holds for every
`Ext`; `concreteExt_hrec` discharges its only hypothesis for this one.

Sources:
* `read-fonts/src/tables/ift.rs`        `TryFrom<MatchModeAndCount> for usize`, `ComputeSize for
                                         U8Or16 / U16Or24 / IdDeltaOrLength`, their `read_with_args`
* `read-fonts/src/tables/layout.rs`     `DeltaFormat::value_count`
* `read-fonts/src/tables/variations.rs` `TupleIndex::tuple_len`, `EntryFormat::{entry_size,map_size}`,
                                         `ItemVariationData::{delta_row_len,delta_sets_len}`
* `read-fonts/src/tables/value_record.rs` `ValueFormat::record_byte_len`, `ComputeSize for
                                         ValueRecord`, `ValueRecord::read`
* `read-fonts/src/tables/gvar.rs` `ComputeSize for U16Or32`; `instance_record.rs`, `hdmx.rs`
  `ComputeSize for InstanceRecord / DeviceRecord`
* generated `impl ComputeSize for R` (sums of `*_byte_len` expressions; data `recSizes` emitted by
  translate/shapes.py)
-/
import FontVerif.Model.Shape

namespace FontVerif.Shape

/-- `count_ones` of the low `k` bits -/
def popcount : Nat → Nat → Nat
  | 0, _ => 0
  | k + 1, n => n % 2 + popcount k (n / 2)

/-- names of the hand-written count functions this file transcribes -/
def knownCustom : List String :=
  ["usize::try_from<MatchModeAndCount>", "DeltaFormat::value_count", "TupleIndex::tuple_len",
   "EntryFormat::map_size", "ItemVariationData::delta_sets_len"]

/-- hand-written count functions on the raw (big-endian) values of their arguments -/
def customByName (name : String) (args : List Nat) : Nat :=
  match name, args with
  -- `Ok(value.count() as usize)`, `count = self.0 & 0b0111_1111`
  | "usize::try_from<MatchModeAndCount>", [v] => v % 128
  -- `range_len = (end_size as usize + 1).saturating_sub(start_size as usize)` (/repo fix 112aec4: the
  -- u16 `saturating_add(1)` made the count one short for `end_size == 0xFFFF`);
  -- `val_per_word` 8 / 4 / 2 for Local{2,4,8}BitDeltas (raw 1, 2, 3), any other format → 0;
  -- `range_len / val_per_word + (range_len % val_per_word).min(1)`
  | "DeltaFormat::value_count", [fmt, startSize, endSize] =>
    let rangeLen := (endSize + 1) - startSize
    let vpw := if fmt = 1 then 8 else if fmt = 2 then 4 else if fmt = 3 then 2 else 0
    if vpw = 0 then 0 else rangeLen / vpw + min (rangeLen % vpw) 1
  -- `flag == 0`: `embedded_peak_tuple() (0x8000) as usize * axis_count`, else `intermediate_region() (0x4000)`
  | "TupleIndex::tuple_len", [ti, axisCount, flag] =>
    if flag = 0 then (ti / 32768 % 2) * axisCount else (ti / 16384 % 2) * axisCount
  -- `entry_size() as usize * map_count`, `entry_size = ((bits & 0x30) >> 4) + 1`
  | "EntryFormat::map_size", [ef, mapCount] => (ef / 16 % 4 + 1) * mapCount
  -- `delta_row_len(word_delta_count, region_index_count) * item_count`
  | "ItemVariationData::delta_sets_len", [itemCount, wdc, ric] =>
    let long := wdc / 32768 % 2 = 1
    let wordSize := if long then 4 else 2
    let smallSize := if long then 2 else 1
    let longCount := wdc % 32768
    (longCount * wordSize + (ric - longCount) * smallSize) * itemCount
  | _, _ => 0

/-- records whose `ComputeSize` impl is hand-written -/
def knownHandSizes : List String :=
  ["ValueRecord", "U8Or16", "U16Or24", "IdDeltaOrLength", "U16Or32", "InstanceRecord", "DeviceRecord"]

/-- hand-written `ComputeSize::compute_size` impls on raw argument values (all return `Ok`) -/
def handSize (name : String) (args : List Nat) : Option Nat :=
  match name, args with
  -- `args.record_byte_len()` = `bits().count_ones() * 2`; `ValueFormat::from_raw` truncates to the
  -- eight defined flags (0x00FF)
  | "ValueRecord", [fmt] => some (2 * popcount 8 (fmt % 256))
  | "U8Or16", [maxEntryIndex] => some (if maxEntryIndex < 256 then 1 else 2)
  -- `GlyphKeyedFlags::WIDE_GLYPH_IDS` = bit 0
  | "U16Or24", [flags] => some (if flags % 2 = 1 then 3 else 2)
  | "IdDeltaOrLength", [off] => some (if off = 0 then 3 else 2)
  -- `GvarFlags::LONG_OFFSETS` = bit 0
  | "U16Or32", [flags] => some (if flags % 2 = 1 then 4 else 2)
  | "InstanceRecord", [_axisCount, instanceSize] => some instanceSize
  | "DeviceRecord", [_numGlyphs, sizeDeviceRecord] => some sizeDeviceRecord
  | _, _ => none

/-- `R::read_with_args(n bytes, args).is_ok()` for the records a generated getter returns by value.
* `ValueRecord::read`: one `cursor.read_be::<u16>()?` per set flag of the (truncated) format;
* `IdDeltaOrLength`: `read_at::<Int24>(0)` if the offset is null, else `read_at::<u16>(0)`. -/
def handRecRead (name : String) (args : List Nat) (n : Nat) : Bool :=
  match name, args with
  | "ValueRecord", [fmt] => decide (2 * popcount 8 (fmt % 256) ≤ n)
  | "IdDeltaOrLength", [off] => decide ((if off = 0 then 3 else 2) ≤ n)
  | _, _ => false

/-- the generated data the driver interprets sizes against -/
structure Tables where
  sizeNames : List String
  customNames : List String
  recSizes : List (String × List Nat × List Len)

def sumLens (ext : Ext) (vars : Env) : List Len → Nat → Except RErr Nat
  | [], acc => .ok acc
  | l :: ls, acc =>
    match evalLen ext ⟨0, fun _ => 0⟩ 0 vars l with
    | .error e => .error e
    | .ok n =>
      match checkedAdd acc n with
      | none => .error .oob
      | some acc' => sumLens ext vars ls acc'

def customFn (t : Tables) (f : Nat) (args : List Nat) : Nat :=
  match t.customNames[f]? with
  | some name => customByName name args
  | none => 0

/-- `<R as ComputeSize>::compute_size(&args)`; `fuel` bounds the nesting of records
(`Class1Record` → `Class2Record` → `ValueRecord`). -/
def sizeFn (t : Tables) : Nat → Nat → List Nat → Except RErr Nat
  | 0, _, _ => .error .stuck
  | fuel + 1, r, args =>
    match t.sizeNames[r]? with
    | none => .error .stuck
    | some name =>
      match handSize name args with
      | some n => .ok n
      | none =>
        match t.recSizes.lookup name with
        | none => .error .stuck
        | some (_, lens) =>
          let ext : Ext := ⟨customFn t, sizeFn t fuel, fun _ _ _ => false⟩
          sumLens ext ((List.range args.length).zip args) lens 0

def recReadFn (t : Tables) (r : Nat) (args : List Nat) (n : Nat) : Bool :=
  match t.sizeNames[r]? with
  | none => false
  | some name =>
    match name, args with
    | "ValueRecord", [_] => handRecRead name args n
    | "IdDeltaOrLength", [_] => handRecRead name args n
    | _, _ =>
      -- not returned by value by any generated getter; "a slice of at least the computed size"
      match sizeFn t 8 r args with
      | .ok k => decide (k ≤ n)
      | .error _ => false

/-- the interpretation of hand-written callees used by the driver -/
def concreteExt (t : Tables) : Ext := ⟨customFn t, sizeFn t 8, recReadFn t⟩

/-- names the generated readers reference that this file does not transcribe (must be empty) -/
def unmodelled (t : Tables) : List String :=
  t.customNames.filter (fun n => !(knownCustom.contains n)) ++
  t.sizeNames.filter (fun n => !(knownHandSizes.contains n) && (t.recSizes.lookup n).isNone)

end FontVerif.Shape
