/-
Model of the floating point variation path of read-fonts/src/tables/variations.rs:
  VariationRegion::compute_scalar_f32, ItemVariationStore::compute_float_delta,
  FloatItemDelta, FloatItemDeltaTarget::apply_float_delta for Fixed / FWord / UfWord / F2Dot14,
and of the avar version 2 step of read-fonts/src/tables/fvar.rs (Fvar::user_to_normalized).
Floats are exact IEEE values (Model/Ieee.lean, Model/IeeeArith.lean); every Rust operation is one
model operation, in the code's order.
-/
import FontVerif.Model.Base
import FontVerif.Model.Ieee
import FontVerif.Model.IeeeArith
import FontVerif.Model.FixedConv
import FontVerif.Model.Tent
import FontVerif.Model.Normalize
namespace FontVerif.FloatDelta
open FontVerif FontVerif.Ieee

/-- `F2Dot14::to_f32` (`float_conv!` `$to`). -/
def f2ToF32 (raw : Int) : FVal := FixedConv.toFloat FixedConv.F2Dot14 raw

/-- loop body of `VariationRegion::compute_scalar_f32`; `none` = `return 0.0`.
```
if start > peak || peak > end || peak == 0.0 || start < 0.0 && end > 0.0 { continue; }
else if coord < start || coord > end { return 0.0; }
else if coord == peak { continue; }
else if coord < peak { scalar = (scalar * (coord - start)) / (peak - start); }
else { scalar = (scalar * (end - coord)) / (end - peak); }
``` -/
def axisStepF (scalar coord start peak end_ : FVal) : Option FVal :=
  if gt start peak || gt peak end_ || feq peak zero || (lt start zero && gt end_ zero) then some scalar
  else if lt coord start || gt coord end_ then none
  else if feq coord peak then some scalar
  else if lt coord peak then
    some (div f32 (mul f32 scalar (sub f32 coord start)) (sub f32 peak start))
  else some (div f32 (mul f32 scalar (sub f32 end_ coord)) (sub f32 end_ peak))

/-- `coords.get(i).map(|coord| coord.to_f32()).unwrap_or(0.0)` for the current axis. -/
def coordF (coords : List Int) : FVal :=
  match coords with
  | [] => zero
  | c :: _ => f2ToF32 c

/-- the loop of `compute_scalar_f32`. -/
def scalarGoF (scalar : FVal) : List (Int × Int × Int) → List Int → FVal
  | [], _ => scalar
  | (s, p, e) :: rest, coords =>
    match axisStepF scalar (coordF coords) (f2ToF32 s) (f2ToF32 p) (f2ToF32 e) with
    | none => zero
    | some sc => scalarGoF sc rest coords.tail

/-- `VariationRegion::compute_scalar_f32(coords)`, starting from `1.0`. -/
def computeScalarF32 (axes : List (Int × Int × Int)) (coords : List Int) : FVal :=
  scalarGoF one axes coords

/-- body of the accumulation loop of `compute_float_delta`:
`accum += region_delta as f64 * scalar as f64` (an `f64` product, then an `f64` sum). -/
def floatLoop (regions : List (List (Int × Int × Int))) (coords : List Int) :
    List Int → List Nat → FVal → Option FVal
  | [], _, acc => some acc
  | _ :: _, [], _ => none
  | d :: ds, ri :: ris, acc =>
    match regions[ri]? with
    | none => none
    | some axes =>
      floatLoop regions coords ds ris
        (add f64 acc (mul f64 (ofInt f64 d) (cvt f64 (computeScalarF32 axes coords))))

/-- `ItemVariationStore::compute_float_delta(index, coords)`: the same table walk as
`compute_delta` (`Tent.computeDelta`), accumulating in `f64`; `none` = `Err(..)`. -/
def computeFloatDelta (regions : List (List (Int × Int × Int))) (subtables : List (Option Tent.SubTable))
    (outer inner : Nat) (coords : List Int) : Option FVal :=
  if coords.isEmpty then some zero else
  match subtables[outer]? with
  | none => none
  | some none => some zero
  | some (some st) =>
    let need := Tent.deltaRowLen st.wordDeltaCount st.regionIndexes.length * st.itemCount
    if st.data.length < need then none else
    let deltas := Tent.deltaSet st.wordDeltaCount st.regionIndexes.length (st.data.take need) inner
    floatLoop regions coords deltas st.regionIndexes zero

/-! ### `apply_float_delta` -/

/-- `impl FloatItemDeltaTarget for F2Dot14`: `self.to_f32() + (delta.0 * (1.0 / 16384.0)) as f32`. -/
def applyF2Dot14 (raw : Int) (delta : FVal) : FVal :=
  add f32 (f2ToF32 raw) (cvt f32 (mul f64 delta (.fin false 1 (-14))))

/-- `impl FloatItemDeltaTarget for Fixed`: `self.to_f32() + (delta.0 * (1.0 / 65536.0)) as f32`
(`Fixed::to_f32` is the lossy `self.0 as f32 * (1.0 / 65536.0)`). -/
def applyFixed (raw : Int) (delta : FVal) : FVal :=
  add f32 (FixedConv.toF32Lossy 16 raw) (cvt f32 (mul f64 delta (.fin false 1 (-16))))

/-- `impl FloatItemDeltaTarget for FWord / UfWord`: `self.to_i16() as f32 + delta.0 as f32`. -/
def applyWord (v : Int) (delta : FVal) : FVal := add f32 (ofInt f32 v) (cvt f32 delta)

/-! ### avar version 2 (`Fvar::user_to_normalized`, second half) -/

/-- the tables an avar version-2 header points at, as the reader sees them.  `indexMap = none`:
NULL offset or unreadable map (both ⇒ implicit index `(0, i)`); `store = none`: NULL / unreadable
store (⇒ nothing changes). -/
structure Avar2 where
  indexMap : Option (Nat × Nat × List Nat)
  store : Option (List (List (Int × Int × Int)) × List (Option Tent.SubTable))

/-- `F2Dot14::from_f32(x).clamp(-F2Dot14::ONE, F2Dot14::ONE)` (after the `fix:` commit; the
code clamped to `F2Dot14::MIN ..= F2Dot14::MAX` before, i.e. not at all). -/
def clampUnit (v : Int) : Int := if v < -16384 then -16384 else if v > 16384 then 16384 else v

/-- the delta set for coordinate `i`: `map.get(i)` (`none` = `Err`, the coordinate is skipped) or
the implicit `(0, i as u16)`. -/
def avar2Index (t : Avar2) (i : Nat) : Option (Nat × Nat) :=
  match t.indexMap with
  | some (fmt, cnt, data) => Tent.dsimGet fmt cnt data i
  | none => some (0, i % 65536)

/-- new value of coordinate `i` (`v` = its version-1 value, `coords` = all version-1 values):
```
let var_index = if let Some(Ok(ref map)) = var_index_map { map.get(i as u32).ok() }
                else { Some(DeltaSetIndex { outer: 0, inner: i as u16 }) };
if var_index.is_none() { continue; }
if let Some(Ok(varstore)) = var_store.as_ref() {
    if let Ok(delta) = varstore.compute_float_delta(var_index.unwrap(), normalized_coords) {
        new_coords[i] = F2Dot14::from_f32((*v).apply_float_delta(delta)).clamp(-ONE, ONE);
``` -/
def avar2Coord (t : Avar2) (coords : List Int) (i : Nat) (v : Int) : Int :=
  match avar2Index t i, t.store with
  | some (outer, inner), some (regions, subs) =>
    match computeFloatDelta regions subs outer inner coords with
    | some delta => clampUnit (FixedConv.fromFloat FixedConv.F2Dot14 (applyF2Dot14 v delta))
    | none => v
  | _, _ => v

/-- the avar-2 step on the whole slice: only the first `min(axis count, slice length)` entries take
part (and serve as the location for the store); more than 64 of them ⇒ skipped entirely. -/
def applyAvar2 (t : Avar2) (axisCount : Nat) (out : List Int) : List Int :=
  let n := min axisCount out.length
  if n > 64 then out else
  let coords := out.take n
  (coords.zipIdx.map fun vi => avar2Coord t coords vi.2 vi.1) ++ out.drop n

/-- `Fvar::user_to_normalized` with any avar table: `avar2 = none` for no table / version 1.0. -/
def userToNormalizedFull (axes : List Normalize.AxisRec) (maps : Option (List (List (Int × Int))))
    (avar2 : Option Avar2) (settings : List (Nat × Int)) (outLen : Nat) : List Int :=
  let v1 := Normalize.userToNormalizedAll axes maps settings outLen
  match avar2 with
  | none => v1
  | some t => applyAvar2 t axes.length v1

end FontVerif.FloatDelta
