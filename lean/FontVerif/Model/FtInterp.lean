/-
Model of FreeType 2.12.1's interpolation / shifting opcodes (value computations), ttinterp.c:
  `Ins_IUP`, `_iup_worker_shift`, `_iup_worker_interpolate`, `Ins_IP`, `Ins_SHPIX` (displacement and the
  v40 backward-compatibility condition), `Ins_ISECT`, `Ins_ALIGNPTS`, `Ins_ALIGNRP`, `Ins_MSIRP`, `Ins_MDAP`.
64-bit `long` coordinates; `exc->metrics.x_scale == exc->metrics.y_scale` (square pixel sizes) so the
`orus` branches without per-axis scaling are the ones taken.
-/
import FontVerif.Model.FtVec
import FontVerif.Model.HintInterp
set_option linter.unusedVariables false
namespace FontVerif.FtInterp
open FontVerif FontVerif.FtCalc FontVerif.Tt FontVerif.FtVec

/-! ### IUP -/

/-- the worker's coordinate arrays: `V.orgs/curs/orus` point at the x members for `IUP[x]`, at the y
members (`(FT_Pos*)… + 1`) otherwise. -/
def co (ax : Bool) (v : Vec) : Int := if ax then v.x else v.y
def setCo (ax : Bool) (v : Vec) (c : Int) : Vec := if ax then ⟨c, v.y⟩ else ⟨v.x, c⟩
/-- `exc->pts.tags[point] & mask`. -/
def touched (ax : Bool) (p : ZPt) : Bool := if ax then p.tx else p.ty

/-- `_iup_worker_interpolate`: `if ( orus1 > orus2 ) { swap orus1/orus2; swap ref1/ref2 }`. -/
def orderRefs (ax : Bool) (r1 r2 : ZPt) : ZPt × ZPt :=
  if co ax r1.orus > co ax r2.orus then (r2, r1) else (r1, r2)

/-- `_iup_worker_interpolate`, the body of either `for ( i = p1; i <= p2; i++ )` loop for one point:
`x` = `orgs[i].x`, `u` = `orus[i].x`.  `scale` is computed on first use (`scale_valid`); its value
`FT_DivFix( cur2 - cur1, orus2 - orus1 )` does not depend on `i`. -/
def interpCore (orus1 orus2 org1 org2 cur1 cur2 x u : Int) : Int :=
  let delta1 := subLong cur1 org1
  let delta2 := subLong cur2 org2
  if cur1 = cur2 ∨ orus1 = orus2 then
    (if x ≤ org1 then addLong x delta1 else if x ≥ org2 then addLong x delta2 else cur1)
  else
    if x ≤ org1 then addLong x delta1
    else if x ≥ org2 then addLong x delta2
    else
      let scale := divFix (subLong cur2 cur1) (subLong orus2 orus1)
      addLong cur1 (mulFix (subLong u orus1) scale)

def interpCoord (ax : Bool) (r1 r2 : ZPt) (x u : Int) : Int :=
  interpCore (co ax r1.orus) (co ax r2.orus) (co ax r1.org) (co ax r2.org) (co ax r1.cur) (co ax r2.cur) x u

def mapRange (pts : List ZPt) (p1 p2 : Nat) (f : ZPt → ZPt) : List ZPt :=
  (pts.zipIdx).map fun (p, i) => if p1 ≤ i ∧ i ≤ p2 then f p else p

/-- `_iup_worker_interpolate( worker, p1, p2, ref1, ref2 )`. -/
def iupInterpolate (ax : Bool) (pts : List ZPt) (p1 p2 ref1 ref2 : Nat) : List ZPt :=
  if p1 > p2 then pts
  else if ref1 ≥ pts.length ∨ ref2 ≥ pts.length then pts
  else
    match pts[ref1]?, pts[ref2]? with
    | some r1, some r2 =>
      let (r1, r2) := orderRefs ax r1 r2
      mapRange pts p1 p2 fun p => { p with cur := setCo ax p.cur (interpCoord ax r1 r2 (co ax p.org) (co ax p.orus)) }
    | _, _ => pts

/-- `_iup_worker_shift( worker, p1, p2, p )`: `for ( i = p1; i < p; i++ ) …; for ( i = p + 1; i <= p2; i++ ) …`. -/
def iupShift (ax : Bool) (pts : List ZPt) (p1 p2 p : Nat) : List ZPt :=
  match pts[p]? with
  | none => pts
  | some r =>
    let dx := subLong (co ax r.cur) (co ax r.org)
    if dx = 0 then pts
    else
      (pts.zipIdx).map fun (q, i) =>
        if (p1 ≤ i ∧ i < p) ∨ (p + 1 ≤ i ∧ i ≤ p2) then { q with cur := setCo ax q.cur (addLong (co ax q.cur) dx) } else q

def isTouched (ax : Bool) (pts : List ZPt) (i : Nat) : Bool :=
  match pts[i]? with
  | some p => touched ax p
  | none => false

/-- `while ( point <= end_point && ( exc->pts.tags[point] & mask ) == 0 ) point++;` -/
def skipUntouched (ax : Bool) (pts : List ZPt) : Nat → Nat → Nat → Nat
  | 0, point, _ => point
  | fuel + 1, point, endp =>
    if point ≤ endp ∧ ¬ isTouched ax pts point then skipUntouched ax pts fuel (point + 1) endp else point

/-- `while ( point <= end_point ) { if ( tags[point] & mask ) { _iup_worker_interpolate( cur_touched + 1,
point - 1, cur_touched, point ); cur_touched = point; } point++; }` -/
def walkTouched (ax : Bool) : Nat → List ZPt → Nat → Nat → Nat → List ZPt × Nat
  | 0, pts, _, _, ct => (pts, ct)
  | fuel + 1, pts, point, endp, ct =>
    if point ≤ endp then
      if isTouched ax pts point then
        walkTouched ax fuel (iupInterpolate ax pts (ct + 1) (point - 1) ct point) (point + 1) endp point
      else walkTouched ax fuel pts (point + 1) endp ct
    else (pts, ct)

/-- one iteration of the `do { … contour++; } while ( contour < exc->pts.n_contours )` loop of `Ins_IUP`. -/
def iupContour (ax : Bool) (pts : List ZPt) (point e : Nat) : List ZPt × Nat :=
  let endp := if e ≥ pts.length then pts.length - 1 else e
  let first := point
  let point := skipUntouched ax pts (endp + 2) point endp
  if point ≤ endp then
    let firstTouched := point
    let (pts, ct) := walkTouched ax (endp + 2) pts (point + 1) endp point
    let next := if point + 1 ≤ endp then endp + 1 else point + 1
    if ct = firstTouched then (iupShift ax pts first endp ct, next)
    else
      let pts := iupInterpolate ax pts (ct + 1) endp ct firstTouched
      if firstTouched > 0 then (iupInterpolate ax pts first (firstTouched - 1) ct firstTouched, next)
      else (pts, next)
  else (pts, point)

def iupLoop (ax : Bool) : List Nat → List ZPt → Nat → List ZPt
  | [], pts, _ => pts
  | e :: rest, pts, point => let (pts, point) := iupContour ax pts point e; iupLoop ax rest pts point

/-- `Ins_IUP` after the backward-compatibility test (`if ( exc->pts.n_contours == 0 ) return;`). -/
def iup (ax : Bool) (pts : List ZPt) (ends : List Nat) : List ZPt := iupLoop ax ends pts 0

/-! ### UTP, FLIPPT, FLIPRGON / FLIPRGOFF -/

/-- `Ins_UTP`: `mask = 0xFF; if ( freeVector.x != 0 ) mask &= ~TOUCH_X; if ( freeVector.y != 0 ) mask &=
~TOUCH_Y; tags[point] &= mask`. -/
def utp (fv : Vec) (p : ZPt) : ZPt :=
  { p with tx := if fv.x ≠ 0 then false else p.tx, ty := if fv.y ≠ 0 then false else p.ty }

/-- `Ins_FLIPPT`, one point: `tags[point] ^= FT_CURVE_TAG_ON`. -/
def flipPt (p : ZPt) : ZPt := { p with on := ¬ p.on }

/-- `Ins_FLIPRGON` / `Ins_FLIPRGOFF`: `for ( I = L; I <= K; I++ ) tags[I] |= / &= ~ FT_CURVE_TAG_ON`. -/
def flipRange (pts : List ZPt) (lo hi : Nat) (on : Bool) : List ZPt :=
  (pts.zipIdx).map fun (p, i) => if lo ≤ i ∧ i ≤ hi then { p with on := on } else p

/-! ### IP -/

/-- `if ( org_dist ) { if ( old_range ) new_dist = FT_MulDiv( org_dist, cur_range, old_range ); else
new_dist = org_dist; } else new_dist = 0;` -/
def ipNewDist (orgDist curRange oldRange : Int) : Int :=
  if orgDist ≠ 0 then (if oldRange ≠ 0 then mulDiv orgDist curRange oldRange else orgDist) else 0

/-- `Ins_IP`: `(old_range, cur_range)`; `b` = `zp0[rp1]`, `r2` = `zp1[rp2]`. -/
def ipRanges (g : Funcs) (twilight : Bool) (b r2 : ZPt) : Int × Int :=
  let orusBase := if twilight then b.org else b.orus
  let oldRange := if twilight then dualproj g r2.org orusBase else dualproj g r2.orus orusBase
  (oldRange, project g r2.cur b.cur)

/-- `Ins_IP`, one point. -/
def ipPoint (g : Funcs) (bc iupd twilight : Bool) (oldRange curRange : Int) (b p : ZPt) : HintVec.MPt :=
  let orusBase := if twilight then b.org else b.orus
  let orgDist := if twilight then dualproj g p.org orusBase else dualproj g p.orus orusBase
  let curDist := project g p.cur b.cur
  funcMove g bc iupd ⟨p.cur.x, p.cur.y, p.tx, p.ty⟩ (subLong (ipNewDist orgDist curRange oldRange) curDist)

/-! ### SHPIX, ALIGNRP, ALIGNPTS, MSIRP, MDAP, ISECT -/

/-- `dx = TT_MulFix14( args[0], exc->GS.freeVector.x )` (`FT_Int32` parameter: `args[0]` truncated). -/
def shpixDisp (fv : Vec) (amount : Int) : Int × Int :=
  (mulFix14 (wrapI32 amount) fv.x, mulFix14 (wrapI32 amount) fv.y)

/-- `Ins_SHPIX`, v40: in backward-compatibility mode the point is moved (by `(0, dy)`; x is not moved
in that mode anyway) only `if ( in_twilight || ( !( iupx_called && iupy_called ) && ( ( is_composite &&
freeVector.y != 0 ) || ( tags[point] & FT_CURVE_TAG_TOUCH_Y ) ) ) )`. -/
def shpixMoves (bc iupd inTwilight composite : Bool) (fv : Vec) (touchedY : Bool) : Bool :=
  if bc then inTwilight ∨ (¬ iupd ∧ ((composite ∧ fv.y ≠ 0) ∨ touchedY)) else true

/-- `Ins_ALIGNRP`, one point. -/
def alignrp (g : Funcs) (bc iupd : Bool) (p : HintVec.MPt) (rp0 : Vec) : HintVec.MPt :=
  funcMove g bc iupd p (negLong (project g ⟨p.x, p.y⟩ rp0))

/-- `Ins_ALIGNPTS`: `distance = PROJECT( zp0.cur + p2, zp1.cur + p1 ) / 2` (C division truncates). -/
def alignptsDist (g : Funcs) (p2 p1 : Vec) : Int := Int.tdiv (project g p2 p1) 2

/-- `Ins_MSIRP`, after the twilight special case. -/
def msirp (g : Funcs) (bc iupd : Bool) (p : HintVec.MPt) (rp0 : Vec) (distance : Int) : HintVec.MPt :=
  funcMove g bc iupd p (subLong distance (project g ⟨p.x, p.y⟩ rp0))

/-- `Ins_MDAP`: `distance = SUB_LONG( func_round( cur_dist, 3 ), cur_dist )` (compensation 0). -/
def mdap (g : Funcs) (bc iupd a : Bool) (mode thr ph per : Int) (p : HintVec.MPt) : HintVec.MPt :=
  if a then
    let cur := fastProject g ⟨p.x, p.y⟩
    funcMove g bc iupd p (subLong (FtRound.round mode thr ph per 0 cur) cur)
  else funcMove g bc iupd p 0

/-- `FT_ABS( x )` on a long: `x < 0 ? -x : x`. -/
def absL (a : Int) : Int := if a < 0 then -a else a

/-- `Ins_ISECT`: the new `zp2.cur[point]`.  `MUL_LONG( 19, FT_ABS( discriminant ) )` wraps at 64 bits. -/
def isect (a0 a1 b0 b1 : Vec) : Vec :=
  let dbx := subLong b1.x b0.x
  let dby := subLong b1.y b0.y
  let dax := subLong a1.x a0.x
  let day := subLong a1.y a0.y
  let dx := subLong b0.x a0.x
  let dy := subLong b0.y a0.y
  let discriminant := addLong (mulDiv dax (negLong dby) 64) (mulDiv day dbx 64)
  let dotproduct := addLong (mulDiv dax dbx 64) (mulDiv day dby 64)
  if wrapI64 (19 * absL discriminant) > absL dotproduct then
    let v := addLong (mulDiv dx (negLong dby) 64) (mulDiv dy dbx 64)
    let x := mulDiv v dax discriminant
    let y := mulDiv v day discriminant
    ⟨addLong a0.x x, addLong a0.y y⟩
  else
    ⟨Int.tdiv (addLong (addLong a0.x a1.x) (addLong b0.x b1.x)) 4,
     Int.tdiv (addLong (addLong a0.y a1.y) (addLong b0.y b1.y)) 4⟩

end FontVerif.FtInterp
