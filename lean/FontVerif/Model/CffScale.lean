/-
The scale factor handed to the CFF hinter, two transcriptions:
  skrifa   skrifa/src/outline/cff/mod.rs `Outlines::subfont`:
           `hint_scale = Fixed::from_bits((scale.unwrap_or(Fixed::ONE).to_bits() + 32) / 64)`
           — plain `i32` `+` (traps on overflow in the checked profile: `none`) and `/` (truncating);
  FreeType freetype2/src/psaux/psft.c `cf2_getScaleAndHintFlag`:
           `*x_scale = ADD_INT32( decoder->builder.glyph->x_scale, 32 ) / 64;`
           — `ADD_INT32(a,b) = (FT_Int32)( (FT_UInt32)(a) + (FT_UInt32)(b) )` (wraps), C `/` truncates;
           `glyph->x_scale` is the 16.16 `FT_Fixed` size scale (a `long`, converted to 32 bits by the macro).
(The scale "includes a factor of 64": 16.16 pixels per font unit × 64.)
-/
import FontVerif.Model.HintMath
namespace FontVerif.CffScale
open FontVerif

def skHintScale (scale : Int) : Option Int := (HintMath.chk (scale + 32)).map fun t => Int.tdiv t 64

def ftHintScale (xScale : Int) : Int := Int.tdiv (wrapI32 (wrapU32 xScale + 32)) 64

end FontVerif.CffScale
