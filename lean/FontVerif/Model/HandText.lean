/-
C01 (hand-written code) — transcriptions of the loop-carrying / index-computing hand-written functions of
read-fonts/src/tables/name.rs / post.rs / cmap.rs (NameString / CharIter / MacRoman, Post::glyph_name / PString, cmap formats 0/2/6/10/13/14 lookups and iterators).

Every definition cites the Rust function it transcribes (file + fn) and keeps its checked / saturating /
wrapping arithmetic and its error returns; `Out.trap` / `none`-as-panic results mark what would be a panic of
the overflow-checked profile, and Props/C01HandText.lean shows they are never produced.  Tied to the real code
by harness group `text.model` (driver commands `ht.*`, Drv/C01HandText.lean).

cmap.rs of this revision has hand-written code for formats 4, 12 and 14 only (formats 0/2/6/8/10/13 are read by
the generated code and answered `None` by `Cmap::map_codepoint`).  Already modelled elsewhere and reused here:
`ReadIter.Cmap4.lookupGlyphId`, `ReadIter.lookup12` (C01 iterators), `Layout.binarySearchBy` (core's
`binary_search_by`, determined for unsorted keys too), `Cmap.mapVariant` / `Cmap.VarSel` (C08),
`NameStr.macDecodeTable` / `macEncodeTable` / `Encoding.new` / `isChar` (C18), `HandRead.Cur` (cursor),
`ReadIter.varGetPos` (`VarLenArray::get` walk).
-/
import FontVerif.Model.ReadIter
import FontVerif.Model.HandRead
import FontVerif.Model.Layout
import FontVerif.Model.Cmap
import FontVerif.Model.NameStr
namespace FontVerif.HandText
open FontVerif FontVerif.ReadIter FontVerif.HandRead

/-! ## cmap.rs — `Cmap4::map_codepoint`, `Cmap12::map_codepoint`, `Cmap::map_codepoint` -/

/-- outcome of the `while lo < hi` loop of `Cmap4::map_codepoint` / `Cmap12::map_codepoint` -/
inductive Seek where
  /-- the final `else`: segment `i` (whose start code is `sc`) contains the code point -/
  | found (i sc : Nat)
  /-- the loop ended with `lo >= hi` (`None` after the loop) -/
  | miss
  /-- a `.get(i)?` returned `None` -/
  | getFail
  /-- `lo + hi` overflowed `usize` (strict profile) -/
  | trap
  /-- the model ran out of fuel -/
  | fuel
  deriving Repr, DecidableEq

/-- the loop
`while lo < hi { let i = (lo + hi) / 2; let start = starts.get(i)?; if c < start { hi = i }
 else if c > ends.get(i)? { lo = i + 1 } else { return … } }`
with `startAt i` = `starts.get(i)`, `endAt i` = `ends.get(i)` (format 12 reads both from `groups.get(i)`). -/
def seek (startAt endAt : Nat → Option Nat) (c : Nat) : Nat → Nat → Nat → Seek
  | 0, lo, hi => if lo < hi then .fuel else .miss
  | fuel + 1, lo, hi =>
    if lo < hi then
      if lo + hi > MAXU then .trap
      else
        let i := (lo + hi) / 2
        match startAt i with
        | none => .getFail
        | some sc =>
          if c < sc then seek startAt endAt c fuel lo i
          else
            match endAt i with
            | none => .getFail
            | some ec =>
              if c > ec then seek startAt endAt c fuel (i + 1) hi
              else .found i sc
    else .miss

/-- fuel that always suffices for a search over `n` segments (`seek_total`): the interval halves every trip -/
def seekFuel (n : Nat) : Nat := n.log2 + 1

/-- result of a code point lookup -/
inductive MapRes where
  | gid (g : Nat)
  | none
  | trap
  | fuel
  deriving Repr, DecidableEq

def MapRes.ofLook : Look → MapRes
  | .gid g => .gid g
  | .none => .none
  | .trap => .trap

/-- `Cmap4::map_codepoint(codepoint)`: `codepoint > 0xFFFF → None`; `hi = seg_count_x2 as usize / 2`; binary search
over `start_code` / `end_code`; `lookup_glyph_id(codepoint, i, start_code)` (whose `codepoint - start_code`
is a `u16` subtraction — `Look.trap` when it underflows). -/
def map4 (t : Cmap4) (segCountX2 cp : Nat) : MapRes :=
  if cp > 0xFFFF then .none
  else
    match seek (fun i => t.startCode[i]?) (fun i => t.endCode[i]?) cp
        (seekFuel (segCountX2 / 2)) 0 (segCountX2 / 2) with
    | .found i sc => MapRes.ofLook (t.lookupGlyphId cp i sc)
    | .miss => .none
    | .getFail => .none
    | .trap => .trap
    | .fuel => .fuel

/-- `Cmap12::map_codepoint(codepoint)`: `hi = groups.len()`; `groups.get(i)?` gives start, end and start glyph
id of the same record; `lookup_glyph_id` is two wrapping `u32` operations. -/
def map12 (gs : List Group) (cp : Nat) : MapRes :=
  match seek (fun i => gs[i]?.map (·.startChar)) (fun i => gs[i]?.map (·.endChar)) cp
      (seekFuel gs.length) 0 gs.length with
  | .found i sc =>
    match gs[i]? with
    | some g => .gid (lookup12 cp sc g.startGlyph)
    | none => .none
  | .miss => .none
  | .getFail => .none
  | .trap => .trap
  | .fuel => .fuel

/-- what `record.subtable(self.offset_data())` gave for one encoding record -/
inductive Sub where
  | f4 (t : Cmap4) (segCountX2 : Nat)
  | f12 (gs : List Group)
  /-- `Ok` of any other format (`_ => None`) -/
  | other
  /-- `Err(_)`: the record is skipped -/
  | err
  deriving Repr

def Sub.map : Sub → Nat → MapRes
  | .f4 t x, cp => map4 t x cp
  | .f12 gs, cp => map12 gs cp
  | .other, _ => .none
  | .err, _ => .none

/-- `Cmap::map_codepoint`: the `for record in self.encoding_records()` loop; the first subtable that answers
`Some(gid)` wins. -/
def cmapMap : List Sub → Nat → MapRes
  | [], _ => .none
  | s :: rest, cp =>
    match s.map cp with
    | .none => cmapMap rest cp
    | r => r

/-! ## cmap.rs — format 14: `DefaultUvsIter`, `NonDefaultUvsIter`, `Cmap14::selector`, `Cmap14Iter`,
`Cmap14::closure_glyphs`, `Cmap::closure_glyphs`  (`Cmap14::map_variant` = `Cmap.mapVariant`, C08) -/

/-- `DefaultUvsIter { ranges: slice::Iter<UnicodeRange>, cur_range: Range<u32> }`; a range record is
`(start_unicode_value, additional_count)` -/
structure DuSt where
  lo : Nat
  hi : Nat
  rest : List (Nat × Nat)
  deriving Repr, DecidableEq

/-- `start + range.additional_count() as u32 + 1` in `u32` (`none` = overflow trap) -/
def uvsEnd (r : Nat × Nat) : Option Nat :=
  if r.1 + r.2 + 1 < 4294967296 then some (r.1 + r.2 + 1) else none

/-- `DefaultUvsIter::new(ranges)`; `none` = the `u32` addition trapped -/
def duNew : List (Nat × Nat) → Option DuSt
  | [] => some ⟨0, 0, []⟩
  | r :: rs =>
    match uvsEnd r with
    | none => none
    | some e => some ⟨r.1, e, rs⟩

/-- the `loop` of `DefaultUvsIter::next` once `cur_range` (`lo..hi`) is exhausted:
`let range = self.ranges.next()?; … self.cur_range = start..end;` and round again
(`if let Some(cp) = self.cur_range.next() { return Some(cp) }`).  Structural on the remaining ranges; a decoded
record always gives `end > start`, so the second trip returns. -/
def duSkip (lo hi : Nat) : List (Nat × Nat) → Out Nat × DuSt
  | [] => (.done, ⟨lo, hi, []⟩)
  | r :: rs =>
    match uvsEnd r with
    | none => (.trap, ⟨lo, hi, []⟩)
    | some e => if r.1 < e then (.yield r.1, ⟨r.1 + 1, e, rs⟩) else duSkip r.1 e rs

/-- `DefaultUvsIter::next` (one call: `yield` / `done` / `trap`, never `cont`) -/
def duNext (s : DuSt) : Out Nat × DuSt :=
  if s.lo < s.hi then (.yield s.lo, { s with lo := s.lo + 1 }) else duSkip s.lo s.hi s.rest

/-- code points still to come: the rest of the current range and every later range -/
def duRem (s : DuSt) : Nat := (s.hi - s.lo) + (s.rest.map (fun r => r.2 + 1)).sum

/-- `Σ (additional_count + 1)` of a default UVS table -/
def duTotal (ranges : List (Nat × Nat)) : Nat := (ranges.map (fun r => r.2 + 1)).sum

/-- `default_uvs.ranges()` collected through `DefaultUvsIter` (`none` = `new` trapped or out of fuel) -/
def duTrace (ranges : List (Nat × Nat)) : Option (List (Out Nat)) :=
  match duNew ranges with
  | none => some [.trap]
  | some s => run duNext (duTotal ranges + 1) s

/-- `Cmap14Iter { selector_record, default_uvs, non_default_uvs, cur_selector_ix }`;
`NonDefaultUvsIter` is the remaining `(unicode_value, glyph_id)` mappings (`slice::Iter`) -/
structure C14St where
  sel : Option Cmap.VarSel
  du : Option DuSt
  nd : Option (List (Nat × Nat))
  ix : Nat
  deriving Repr, DecidableEq

/-- `Cmap14::selector(index)` followed by the two `.map(…Iter::new)` of `Cmap14Iter::new` / `next`.
`t[i].defaults` / `.nonDefaults` are `selector.default_uvs(data)` / `non_default_uvs(data)` with both
`None` (null offset) and `Some(Err(_))` mapped to `none` (`.transpose().ok().flatten()`).  `none` = trap. -/
def c14Load (t : List Cmap.VarSel) (ix : Nat) : Option C14St :=
  match t[ix]? with
  | none => some { sel := none, du := none, nd := none, ix := ix }
  | some r =>
    match r.defaults with
    | none => some { sel := some r, du := none, nd := r.nonDefaults, ix := ix }
    | some ranges =>
      match duNew ranges with
      | none => none
      | some d => some { sel := some r, du := some d, nd := r.nonDefaults, ix := ix }

/-- state after a trap (the run stops there) -/
def c14Dead (ix : Nat) : C14St := { sel := none, du := none, nd := none, ix := ix }

/-- one trip round the `loop` of `Cmap14Iter::next`; items are `(codepoint, selector, MapVariant)` -/
def c14Step (t : List Cmap.VarSel) (s : C14St) : Out (Nat × Nat × Cmap.MapVariant) × C14St :=
  match s.sel with
  | none => (.done, s)
  | some r =>
    -- `if let Some(default_uvs) = self.default_uvs.as_mut() { if let Some(cp) = default_uvs.next() { return … } }`
    let a : Out Nat × Option DuSt :=
      match s.du with
      | some d => ((duNext d).1, some (duNext d).2)
      | none => (.done, none)
    match a.1 with
    | .yield cp => (.yield (cp, r.selector, .useDefault), { s with du := a.2 })
    | .trap => (.trap, c14Dead s.ix)
    | _ =>
      -- `if let Some(non_default_uvs) = … { if let Some((cp, variant)) = non_default_uvs.next() { return … } }`
      match s.nd with
      | some (m :: ms) => (.yield (m.1, r.selector, .variant m.2), { s with du := a.2, nd := some ms })
      | _ =>
        -- `self.cur_selector_ix += 1; … = self.subtable.selector(self.cur_selector_ix)`
        match c14Load t (s.ix + 1) with
        | none => (.trap, c14Dead (s.ix + 1))
        | some s' => (.cont, s')

/-- trips one selector record costs: its default code points, its mappings, one to move on -/
def c14Weight (r : Cmap.VarSel) : Nat :=
  (match r.defaults with | some rs => duTotal rs | none => 0) +
  (match r.nonDefaults with | some ms => ms.length | none => 0) + 1

/-- items one selector record yields: its default code points and its mappings -/
def c14Items (r : Cmap.VarSel) : Nat :=
  (match r.defaults with | some rs => duTotal rs | none => 0) +
  (match r.nonDefaults with | some ms => ms.length | none => 0)

/-- every remaining range end `start + additional_count + 1` fits `u32` -/
def RestOk (rest : List (Nat × Nat)) : Prop := ∀ r ∈ rest, uvsEnd r ≠ none

/-- the decoded default UVS ranges hold a `Uint24` start and a `u8` count -/
def C14Wf (t : List Cmap.VarSel) : Prop :=
  ∀ rec ∈ t, ∀ ranges, rec.defaults = some ranges → ∀ r ∈ ranges, r.1 < 16777216 ∧ r.2 < 256

/-- fuel that always suffices (`cmap14_iter_bounded`) -/
def c14Fuel (t : List Cmap.VarSel) : Nat := (t.map c14Weight).sum + 1

/-- `cmap14.iter().collect()` as a trace -/
def c14Trace (t : List Cmap.VarSel) : Option (List (Out (Nat × Nat × Cmap.MapVariant))) :=
  match c14Load t 0 with
  | none => some [.trap]
  | some s => run (c14Step t) (c14Fuel t) s

/-- `Cmap14::closure_glyphs(unicodes, glyph_set)`: the glyph ids added (in table order; the caller's set
sorts and de-duplicates).  `has` = `unicodes.contains`. -/
def closure14 (t : List Cmap.VarSel) (has : Nat → Bool) : List Nat :=
  t.flatMap fun r =>
    if has r.selector then
      match r.nonDefaults with
      | some ms => (ms.filter (fun m => has m.1)).map (·.2)
      | none => []
    else []

/-- `Cmap::closure_glyphs`: the first record whose subtable reads as format 14 (`some t`; `none` = `Err` or
another format, `continue`) decides -/
def cmapClosure : List (Option (List Cmap.VarSel)) → (Nat → Bool) → List Nat
  | [], _ => []
  | some t :: _, has => closure14 t has
  | none :: rest, has => cmapClosure rest has

/-! ## name.rs — `MacRomanMapping::{decode, encode}`, `CharIter::{bump_u16, bump_u8, next}`,
`NameRecord::string`, `LangTagRecord::lang_tag`, `Name::string_data` -/

/-- `MacRomanMapping::decode(raw)`: `raw < 128 → raw as char`; else `MAC_ROMAN_DECODE[(raw - 128) as usize]`
(index panic = `none`) and `char::from_u32(..).unwrap()` (`none` for a surrogate / out-of-range value) -/
def macDecodeT (raw : Nat) : Option Nat :=
  if raw < 128 then some raw
  else
    match NameStr.macDecodeTable[raw - 128]? with
    | none => none
    | some v => if NameStr.isChar v then some v else none

/-- `MacRomanMapping::encode(c)`: `u16::try_from(c as u32).ok()?`; ASCII as is; else
`MAC_ROMAN_ENCODE.binary_search_by_key(&raw_c, |(unic, _)| *unic)` and `MAC_ROMAN_ENCODE[idx].1`.
Outer `none` = the index expression panicked. -/
def macEncodeT (c : Nat) : Option (Option Nat) :=
  if 65536 ≤ c then some none
  else if c < 128 then some (some c)
  else
    match Layout.binarySearchBy NameStr.macEncodeTable.length
        (fun i => Layout.natCmp (NameStr.macEncodeTable.getD i (0, 0)).1 c) with
    | .err _ => some none
    | .ok idx =>
      match NameStr.macEncodeTable[idx]? with
      | none => none
      | some e => some (some e.2)

/-- result of `CharIter::bump_u16` / `bump_u8` -/
inductive Bump where
  /-- `Some(v)`, position moved to `pos` -/
  | val (v pos : Nat)
  | none
  /-- `self.pos + 2` overflowed, or `x.try_into().unwrap()` got a slice that is not 2 bytes long -/
  | trap
  deriving Repr, DecidableEq

/-- `CharIter::bump_u16`: `self.data.get(self.pos..self.pos + 2).map(|x| u16::from_be_bytes(x.try_into().unwrap()))?;
self.pos += 2` -/
def bumpU16 (d : List Nat) (pos : Nat) : Bump :=
  if pos + 2 > MAXU then .trap
  else if pos + 2 ≤ d.length then
    match (d.drop pos).take 2 with
    | [a, b] => .val (a * 256 + b) (pos + 2)
    | _ => .trap
  else .none

/-- `CharIter::bump_u8`: `self.data.get(self.pos)?; self.pos += 1` -/
def bumpU8 (d : List Nat) (pos : Nat) : Bump :=
  match d[pos]? with
  | none => .none
  | some b => if pos + 1 > MAXU then .trap else .val b (pos + 1)

/-- `std::char::from_u32(raw_c).unwrap_or(REPLACEMENT_CHARACTER)` -/
def charOrRep (raw : Nat) : Nat := if NameStr.isChar raw then raw else 0xFFFD

/-- `CharIter::next` (one call; the state is `pos`).  After a trap the position is parked at the end. -/
def charStep (enc : NameStr.Encoding) (d : List Nat) (pos : Nat) : Out Nat × Nat :=
  if pos ≥ d.length then (.done, pos)
  else
    match enc with
    | .utf16be =>
      match bumpU16 d pos with
      | .trap => (.trap, d.length)
      | .none => (.done, pos)
      | .val c1 p1 =>
        if 0xD800 ≤ c1 ∧ c1 < 0xDC00 then
          match bumpU16 d p1 with
          | .trap => (.trap, d.length)
          | .none => (.yield 0xFFFD, p1)
          | .val c2 p2 =>
            -- `((c1 & 0x3FF) << 10) + (c2 as u32 & 0x3FF) + 0x10000` in `u32`
            let raw := (c1 % 1024) * 1024 + c2 % 1024 + 0x10000
            if raw ≥ 4294967296 then (.trap, d.length) else (.yield (charOrRep raw), p2)
        else (.yield (charOrRep c1), p1)
    | .macRoman =>
      match bumpU8 d pos with
      | .trap => (.trap, d.length)
      | .none => (.done, pos)
      | .val c p1 =>
        match macDecodeT c with
        | none => (.trap, d.length)
        | some v => (.yield (charOrRep v), p1)
    | .unknown => (.done, pos)

/-- `name_string.chars().collect()` (`NameString::chars`, `IntoIterator`, `iter_chars`, `Display::fmt` all
start a `CharIter` at `pos = 0`) -/
def charTrace (enc : NameStr.Encoding) (d : List Nat) : Option (List (Out Nat)) :=
  run (charStep enc d) (d.length + 1) 0

/-- chars a `CharIter` at `pos` can still yield, per encoding: two bytes per UTF-16 char at least, one per Mac
Roman char, none for an unknown encoding -/
def charNu (enc : NameStr.Encoding) (len pos : Nat) : Nat :=
  match enc with
  | .utf16be => (len - pos) / 2
  | .macRoman => len - pos
  | .unknown => 0

/-- a storage slice handed out by `NameRecord::string` / `LangTagRecord::lang_tag` -/
inductive Slice where
  | ok (a b : Nat)
  /-- `Err(ReadError::OutOfBounds)` -/
  | oob
  /-- `start + self.length() as usize` overflowed -/
  | trap
  deriving Repr, DecidableEq

/-- `NameRecord::string(data)` / `LangTagRecord::lang_tag(data)`:
`start = offset.non_null().unwrap_or(0)`, `end = start + length as usize`, `data.as_bytes().get(start..end)` -/
def nameSlice (dataLen off len : Nat) : Slice :=
  let start := if off = 0 then 0 else off
  if start + len > MAXU then .trap
  else if start ≤ start + len ∧ start + len ≤ dataLen then .ok start (start + len)
  else .oob

/-- `Name::string_data`: `base.split_off(storage_offset as usize).unwrap_or_default()` (its length) -/
def stringDataLen (d : List Nat) (storageOffset : Nat) : Nat := (splitOff d storageOffset).getD 0

/-! ## post.rs — `PString::read`, `Post::{num_names, glyph_name}` (over the generated `Post::read`) -/

/-- `std::str::from_utf8` acceptance (well-formed UTF-8, RFC 3629 ranges) -/
def validUtf8 : List Nat → Bool
  | [] => true
  | b0 :: r =>
    if b0 < 0x80 then validUtf8 r
    else if 0xC2 ≤ b0 ∧ b0 ≤ 0xDF then
      match r with
      | b1 :: r1 => (0x80 ≤ b1 && b1 ≤ 0xBF) && validUtf8 r1
      | _ => false
    else if 0xE0 ≤ b0 ∧ b0 ≤ 0xEF then
      match r with
      | b1 :: b2 :: r2 =>
        let lo := if b0 = 0xE0 then 0xA0 else 0x80
        let hi := if b0 = 0xED then 0x9F else 0xBF
        (lo ≤ b1 && b1 ≤ hi) && (0x80 ≤ b2 && b2 ≤ 0xBF) && validUtf8 r2
      | _ => false
    else if 0xF0 ≤ b0 ∧ b0 ≤ 0xF4 then
      match r with
      | b1 :: b2 :: b3 :: r3 =>
        let lo := if b0 = 0xF0 then 0x90 else 0x80
        let hi := if b0 = 0xF4 then 0x8F else 0xBF
        (lo ≤ b1 && b1 ≤ hi) && (0x80 ≤ b2 && b2 ≤ 0xBF) && (0x80 ≤ b3 && b3 ≤ 0xBF) && validUtf8 r3
      | _ => false
    else false

inductive PStr where
  | ok (bytes : List Nat)
  /-- `ReadError::OutOfBounds` -/
  | oob
  /-- `ReadError::MalformedData("Must be valid ascii")` -/
  | malformed
  /-- `from_utf8(..).unwrap()` on `Err` / `len as usize + 1` overflow -/
  | trap
  deriving Repr, DecidableEq

/-- `PString::read(data)`: `len: u8 = data.read_at(0)?`, `data.as_bytes().get(1..len as usize + 1)`,
`is_ascii()`, `from_utf8(pstring).unwrap()` -/
def pstringRead (d : List Nat) : PStr :=
  match readAt d 0 1 with
  | none => .oob
  | some len =>
    if len + 1 > MAXU then .trap
    else if 1 ≤ len + 1 ∧ len + 1 ≤ d.length then
      let s := (d.drop 1).take len
      if s.all (· < 128) then (if validUtf8 s then .ok s else .trap) else .malformed
    else .oob

/-- the parts of a successfully read `Post` the hand-written functions use -/
structure PostT where
  version : Nat
  /-- `num_glyphs()` -/
  numGlyphs : Option Nat
  /-- `glyph_name_index()` -/
  index : Option (List Nat)
  /-- the bytes of `string_data()` -/
  sdata : Option (List Nat)
  deriving Repr, DecidableEq

/-- `n` big-endian `u16`s from `pos` (only used when they exist) -/
def u16sAt (d : List Nat) (pos : Nat) : Nat → List Nat
  | 0 => []
  | n + 1 => HandRead.beAt d pos 2 :: u16sAt d (pos + 2) n

/-- the generated `Post::read` (read-fonts/generated/generated_post.rs) over `HandRead.Cur`: version, seven
skipped fields, and for `version.compatible((2, 0))` (major = 2) `num_glyphs`, `num_glyphs * 2` index
bytes and the remaining bytes as string data; every `cursor.position()?` and the final `finish` check
`pos ≤ len`.  `none` = `Err`. -/
def postRead (d : List Nat) : Option PostT :=
  match Cur.init.read d 4 with
  | (none, _) => none
  | (some version, c) =>
    -- `advance::<Fixed>()`, 2 × `FWord`, 5 × `u32`
    let c := [4, 2, 2, 4, 4, 4, 4, 4].foldl Cur.advanceBy c
    if version / 65536 = 2 then
      match c.position d with
      | none => none
      | some _ =>
        match c.read d 2 with
        | (none, _) => none
        | (some n, c1) =>
          match c1.position d, checkedMul n 2 with
          | some istart, some ilen =>
            let c2 := c1.advanceBy ilen
            match c2.position d with
            | none => none
            | some sstart =>
              let c3 := c2.advanceBy (c2.remainingBytes d)
              if c3.finish d then
                some { version := version, numGlyphs := some n, index := some (u16sAt d istart n),
                       sdata := some (d.drop sstart) }
              else none
          | _, _ => none
    else if c.finish d then some { version := version, numGlyphs := none, index := none, sdata := none }
    else none

/-- `usize` results that may panic -/
inductive NumRes where
  | val (n : Nat)
  /-- `self.num_glyphs().unwrap()` on `None` -/
  | trap
  deriving Repr, DecidableEq

/-- `Post::num_names` -/
def numNames (t : PostT) : NumRes :=
  if t.version = 0x10000 then .val 258
  else if t.version = 0x20000 then
    match t.numGlyphs with
    | some n => .val n
    | none => .trap
  else .val 0

inductive GName where
  /-- `DEFAULT_GLYPH_NAMES[i]` -/
  | std (i : Nat)
  /-- a Pascal string of the string data -/
  | str (bytes : List Nat)
  | none
  /-- `string_data().unwrap()` on `None`, or `PString::read` trapped -/
  | trap
  deriving Repr, DecidableEq

/-- `VarLenArray::<PString>::get(idx)` over the string data: `none` = `None` or `Some(Err(_))` -/
def pstringGet (sd : List Nat) (idx : Nat) : Option PStr :=
  match varGetPos (.plain 1) sd idx 0 with
  | none => none
  | some pos => if pos ≤ sd.length then some (pstringRead (sd.drop pos)) else none

/-- `Post::glyph_name(glyph_id)` -/
def glyphName (t : PostT) (gid : Nat) : GName :=
  if t.version = 0x10000 then (if gid < 258 then .std gid else .none)
  else if t.version = 0x20000 then
    match t.index with
    | none => .none
    | some ix =>
      match ix[gid]? with
      | none => .none
      | some idx =>
        if idx < 258 then .std idx
        else
          -- `let idx = idx - DEFAULT_GLYPH_NAMES.len();` cannot underflow here
          match t.sdata with
          | none => .trap
          | some sd =>
            match pstringGet sd (idx - 258) with
            | some (.ok s) => .str s
            | some .trap => .trap
            | _ => .none
  else .none

end FontVerif.HandText
