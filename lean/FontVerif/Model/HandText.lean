/-
C01 (hand-written code) — transcriptions of the loop-carrying / index-computing hand-written functions of
read-fonts/src/tables/name.rs / post.rs / cmap.rs (NameString / CharIter / MacRoman, Post::glyph_name / PString, cmap formats 0/2/6/10/13/14 lookups and iterators).

Every definition cites the Rust function it transcribes (file + fn) and keeps its checked / saturating /
wrapping arithmetic and its error returns; `Out.trap` / `none`-as-panic results mark what would be a panic of
the overflow-checked profile, and Props/C01HandText.lean shows they are never produced.  Tied to the real code
by harness group `text.model` (driver commands `ht.*`, Drv/C01HandText.lean).
-/
import FontVerif.Model.ReadIter
import FontVerif.Model.HandRead
namespace FontVerif.HandText
open FontVerif FontVerif.ReadIter FontVerif.HandRead

end FontVerif.HandText
