/-
C03 — the CONTROL flow of FreeType 2.12.1's TrueType bytecode interpreter (the build freetype-sys 0.17 links) as a
small-step machine.  Transcribed from freetype2/src/truetype/ttinterp.c:

* `TT_RunIns`            main loop: opcode fetch, instruction length (`opcode_length`, NPUSHB / NPUSHW), the
                         `Pop_Push_Count` stack-depth checks (too few arguments: `Too_Few_Arguments` in pedantic mode,
                         otherwise the popped cells are ZEROED — all of them, also the ones that were present),
                         `new_top > stackSize` ⇒ `Stack_Overflow`, `step_ins` / `IP += length`, the instruction cap
                         `TT_CONFIG_OPTION_MAX_RUNNABLE_OPCODES` = 1 000 000, the end-of-code test at `LSuiteLabel_`
* `SkipCode`, `Ins_IF`, `Ins_ELSE`, `Ins_EIF`
* `Ins_JMPR`, `Ins_JROT`, `Ins_JROF` (zero offset, negative target, target past `Def->end`, `neg_jump_counter_max`)
* `Ins_FDEF`, `Ins_IDEF` (table search / append, `maxFDefs` / `maxIDefs`, `maxFunc` / `maxIns`, key range, the scan to
  ENDF, nested definitions), `Ins_ENDF`, `Ins_CALL`, `Ins_LOOPCALL` (`loopcall_counter_max`), `Ins_UNKNOWN`,
  `Ins_Goto_CodeRange`, call stack (`callTop` / `callSize` = 32, `TT_New_Context`)
* the loop budget formula at the top of `TT_RunIns` (`loopMax`)

Every opcode that is not a control opcode is executed by the parameter `Cfg.sem` on the stack the main loop has
prepared (after the zero fill, before `top = new_top`); it returns the whole new stack.  `semSubset` is the concrete
instance the correspondence harness uses (pushes, stack shuffling, arithmetic / logic, storage, SCFS on the x axis).

Conventions.  Code ranges are numbered as in FreeType: 1 = font program, 2 = cvt program, 3 = glyph.  All three
ranges are assumed to be set (`range->base != NULL`): `Invalid_CodeRange` is not modelled.  A `TT_CallRec.Def` POINTER
is modelled as (table, index): it is dereferenced when used (`Def->start` in ENDF, `Def->end` in JMPR), like the C.
The value stack is a list, top first; the cell ABOVE the top (read by opcode 0x92 of a non-GX font, whose
`Pop_Push_Count` says "pushes 1" although `Ins_UNKNOWN` writes nothing) is the parameter `Cfg.stale`.
NPUSHW advances `IP` itself (`step_ins = FALSE`, `GetShortIns`) by exactly `length`: modelled as a normal advance.
The SPH_INFINALITY blocks are compiled out in this build (`TT_SUPPORT_SUBPIXEL_HINTING_INFINALITY` undefined).

Imports only Model.Base.
-/
import FontVerif.Model.Base
namespace FontVerif.FtControl
open FontVerif

/-- `TT_CONFIG_OPTION_MAX_RUNNABLE_OPCODES` -/
def MAX_RUNNABLE_OPCODES : Nat := 1000000

/-- the `FT_Err_*` values an interpreter run can return (fterrdef.h); `data n` = any other error of a data opcode. -/
inductive Err
  | invalidOpcode | tooFewArguments | stackOverflow | codeOverflow | badArgument | divideByZero | invalidReference
  | debugOpcode | endfInExecStream | nestedDefs | invalidCodeRange | executionTooLong | tooManyFunctionDefs
  | tooManyInstructionDefs | defInGlyfBytecode
  | data (code : Nat)
deriving DecidableEq, Repr, Inhabited

/-- the numeric `FT_Error` -/
def Err.code : Err → Nat
  | .invalidOpcode => 0x80 | .tooFewArguments => 0x81 | .stackOverflow => 0x82 | .codeOverflow => 0x83
  | .badArgument => 0x84 | .divideByZero => 0x85 | .invalidReference => 0x86 | .debugOpcode => 0x87
  | .endfInExecStream => 0x88 | .nestedDefs => 0x89 | .invalidCodeRange => 0x8A | .executionTooLong => 0x8B
  | .tooManyFunctionDefs => 0x8C | .tooManyInstructionDefs => 0x8D | .defInGlyfBytecode => 0x9C
  | .data n => n

/-! ## tables -/

/-- `Pop_Push_Count[256]` (`PACK(pops, pushes)` = `pops << 4 | pushes`) -/
def popPushCount : Array Nat := #[
  0,0,0,0,0,0,32,32,32,32,32,32,2,2,0,80,
  16,16,16,16,16,16,16,16,0,0,16,0,16,16,16,16,
  18,16,0,34,1,17,16,32,0,16,32,16,16,0,16,16,
  0,0,0,0,16,16,16,16,16,0,32,32,0,0,32,32,
  0,0,32,17,32,17,17,17,32,33,33,1,1,0,0,16,
  33,33,33,33,33,33,17,17,16,0,33,33,17,16,16,16,
  33,33,33,33,17,17,17,17,17,17,17,17,17,17,17,17,
  32,16,16,16,16,16,16,16,32,32,0,0,0,0,16,16,
  0,32,32,0,0,16,32,32,17,16,51,33,33,16,32,0,
  0,0,1,0,0,0,0,0,0,0,0,0,0,0,0,0,
  0,0,0,0,0,0,0,0,0,0,0,0,0,0,0,0,
  1,2,3,4,5,6,7,8,1,2,3,4,5,6,7,8,
  16,16,16,16,16,16,16,16,16,16,16,16,16,16,16,16,
  16,16,16,16,16,16,16,16,16,16,16,16,16,16,16,16,
  32,32,32,32,32,32,32,32,32,32,32,32,32,32,32,32,
  32,32,32,32,32,32,32,32,32,32,32,32,32,32,32,32]

/-- `Pop_Push_Count[op] >> 4` -/
def pops (op : Nat) : Nat := popPushCount.getD op 0 / 16
/-- `Pop_Push_Count[op] & 15` -/
def pushes (op : Nat) : Nat := popPushCount.getD op 0 % 16

/-- `opcode_length[256]`: 1 everywhere except NPUSHB −1, NPUSHW −2, PUSHB[n] n+2, PUSHW[n] 2n+3 -/
def opcodeLength (op : Nat) : Int :=
  if op = 0x40 then -1
  else if op = 0x41 then -2
  else if 0xB0 ≤ op ∧ op ≤ 0xB7 then (op - 0xB0 + 2 : Nat)
  else if 0xB8 ≤ op ∧ op ≤ 0xBF then ((op - 0xB8) * 2 + 3 : Nat)
  else 1

/-- the opcode and `exc->length` of the instruction at `ip`, as computed identically at the top of the main loop and in
`SkipCode`; `none` = `Code_Overflow` (`IP >= codeSize`, `IP + 1 >= codeSize` for a counted push, `IP + length > codeSize`). -/
def insLength (code : Array Nat) (ip : Nat) : Option (Nat × Nat) :=
  match code[ip]? with
  | none => none
  | some op =>
    let l := opcodeLength op
    if l < 0 then
      match code[ip + 1]? with
      | none => none
      | some n =>
        let len := 2 + (-l).toNat * n                  -- `2 - exc->length * exc->code[exc->IP + 1]`
        if ip + len ≤ code.size then some (op, len) else none
    else if ip + l.toNat ≤ code.size then some (op, l.toNat) else none

/-- the inline bytes of the instruction (after the count byte of NPUSHB / NPUSHW) -/
def inlineBytes (code : Array Nat) (ip op len : Nat) : List Nat :=
  (code.extract (ip + 1 + (if opcodeLength op < 0 then 1 else 0)) (ip + len)).toList

/-! ## state -/

/-- `TT_DefRecord` -/
structure DefRec where
  range : Nat := 0
  opc : Nat := 0
  start : Nat := 0
  stop : Nat := 0        -- `end`
  active : Bool := false
deriving Repr, DecidableEq, Inhabited

/-- `TT_CallRec`; `Def` = entry `defIx` of the function (`isFunc`) or instruction definition table -/
structure CallRec where
  callerRange : Nat
  callerIP : Nat
  curCount : Int
  isFunc : Bool
  defIx : Nat
deriving Repr, DecidableEq

inductive Status
  | running
  | done                 -- `TT_RunIns` returned `FT_Err_Ok`
  | failed (e : Err)     -- returned `e`
  | stuck                -- the model's scan fuel ran out (unreachable: every scan consumes code)
deriving Repr, DecidableEq

/-- the part of `TT_ExecContextRec` the control flow uses + an opaque data state -/
structure St (D : Type) where
  iniRange : Nat
  curRange : Nat
  ip : Nat                      -- `IP` (`FT_Long`, never negative: JMPR rejects negative targets)
  callStack : List CallRec      -- top first; `callTop` = length
  fdefs : List DefRec           -- `FDefs[0 .. numFDefs)`
  idefs : List DefRec           -- `IDefs[0 .. numIDefs)`
  maxFunc : Nat
  maxIns : Nat
  negJumps : Nat                -- `neg_jump_counter`
  loopCalls : Nat               -- `loopcall_counter`
  insCounter : Nat              -- `ins_counter`
  stack : List Int              -- `stack[0 .. top)`, top first
  data : D
  status : Status

structure Cfg (D : Type) where
  font : Array Nat
  cvt : Array Nat
  glyph : Array Nat
  stackSize : Nat
  callSize : Nat := 32          -- `TT_New_Context`
  maxFDefs : Nat
  maxIDefs : Nat
  loopcallMax : Nat             -- `loopcall_counter_max`
  negJumpMax : Nat              -- `neg_jump_counter_max`
  pedantic : Bool               -- `pedantic_hinting`
  blend : Bool := false         -- `face->blend != NULL` (a GX instance is selected)
  stale : Int := 0              -- the cell above the stack top (see the header)
  /-- every non-control opcode: opcode, inline bytes, (prepared stack, data) ↦ (new stack, data) or `exc->error` -/
  sem : Nat → List Nat → List Int × D → Except Err (List Int × D)

def Cfg.code {D} (c : Cfg D) (range : Nat) : Array Nat :=
  if range = 1 then c.font else if range = 2 then c.cvt else c.glyph

/-- sfnt/ttload.c `tt_face_load_maxp`: "We allocate 64 function entries by default when the maxFunctionDefs value is
smaller" — the `maxFDefs` of a font whose `maxp.maxFunctionDefs` is `n` (ttobjs.c `tt_size_init_bytecode`). -/
def maxFDefsOf (maxpFunctionDefs : Nat) : Nat := if maxpFunctionDefs < 64 then 64 else maxpFunctionDefs

/-- the loop budget computed at the top of `TT_RunIns` (both counters get the same maximum): `nPoints` =
`exc->pts.n_points`, `cvtSize`, `numGlyphs` = `face->root.num_glyphs`. -/
def loopMax (nPoints cvtSize numGlyphs : Nat) : Nat :=
  let m := if nPoints ≠ 0 then max 50 (10 * nPoints) + max 50 (cvtSize / 10) else 300 + 22 * cvtSize
  if m > 100 * numGlyphs then 100 * numGlyphs else m

/-! ## scans (`SkipCode` loops) — `pos` = `IP + length`, the position `SkipCode` moves to first -/

/-- `Ins_IF`, false branch.  Returns the `IP` AFTER the main loop's `IP += length` for the ELSE / EIF that ended the scan. -/
def scanIf (code : Array Nat) : (fuel : Nat) → (pos : Nat) → (nIfs : Nat) → Option (Except Err Nat)
  | 0, _, _ => none
  | fuel + 1, pos, nIfs =>
    match insLength code pos with
    | none => some (.error .codeOverflow)
    | some (op, len) =>
      if op = 0x58 then scanIf code fuel (pos + len) (nIfs + 1)
      else if op = 0x1B then
        if nIfs = 1 then some (.ok (pos + len)) else scanIf code fuel (pos + len) nIfs
      else if op = 0x59 then
        if nIfs - 1 = 0 then some (.ok (pos + len)) else scanIf code fuel (pos + len) (nIfs - 1)
      else scanIf code fuel (pos + len) nIfs

/-- `Ins_ELSE` -/
def scanElse (code : Array Nat) : (fuel : Nat) → (pos : Nat) → (nIfs : Nat) → Option (Except Err Nat)
  | 0, _, _ => none
  | fuel + 1, pos, nIfs =>
    match insLength code pos with
    | none => some (.error .codeOverflow)
    | some (op, len) =>
      if op = 0x58 then scanElse code fuel (pos + len) (nIfs + 1)
      else if op = 0x59 then
        if nIfs - 1 = 0 then some (.ok (pos + len)) else scanElse code fuel (pos + len) (nIfs - 1)
      else scanElse code fuel (pos + len) nIfs

/-- the `while ( SkipCode( exc ) == SUCCESS )` loop of `Ins_FDEF` / `Ins_IDEF`: (IP of the ENDF, IP after it) -/
def scanDef (code : Array Nat) : (fuel : Nat) → (pos : Nat) → Option (Except Err (Nat × Nat))
  | 0, _ => none
  | fuel + 1, pos =>
    match insLength code pos with
    | none => some (.error .codeOverflow)        -- the loop ends, `exc->error` was set by `SkipCode`
    | some (op, len) =>
      if op = 0x89 ∨ op = 0x2C then some (.error .nestedDefs)
      else if op = 0x2D then some (.ok (pos, pos + len))
      else scanDef code fuel (pos + len)

/-! ## definition tables -/

/-- index of the first record satisfying `p` (the `for ( ; rec < limit; rec++ )` searches) -/
def findIx (p : DefRec → Bool) : List DefRec → Nat → Option Nat
  | [], _ => none
  | r :: rest, i => if p r then some i else findIx p rest (i + 1)

/-- the function lookup of `Ins_CALL` / `Ins_LOOPCALL`: `F = (FT_ULong)args`, `BOUNDSL( F, maxFunc + 1 )`, the direct
slot `FDefs + F` when `maxFunc + 1 == numFDefs` and its `opc` is `F`, else the linear search; then `active`. -/
def lookupFunc {D} (t : St D) (v : Int) : Option (Nat × DefRec) :=
  let F := (wrapU64 v).toNat
  if F ≥ t.maxFunc + 1 then none
  else
    let direct : Bool :=
      t.maxFunc + 1 = t.fdefs.length &&
        (match t.fdefs[F]? with
         | some d => d.opc = F
         | none => false)
    let ix := if direct then some F else findIx (fun r => r.opc = F) t.fdefs 0
    match ix with
    | none => none
    | some i =>
      match t.fdefs[i]? with
      | some d => if d.active then some (i, d) else none
      | none => none

/-- the search of `Ins_UNKNOWN`: first record with `(FT_Byte)def->opc == opcode && def->active` -/
def lookupIns {D} (t : St D) (op : Nat) : Option (Nat × DefRec) :=
  match findIx (fun r => r.opc % 256 = op && r.active) t.idefs 0 with
  | none => none
  | some i =>
    match t.idefs[i]? with
    | some d => some (i, d)
    | none => none

/-- `callStack[..].Def` dereferenced -/
def defOf {D} (t : St D) (r : CallRec) : DefRec :=
  ((if r.isFunc then t.fdefs else t.idefs)[r.defIx]?).getD {}

/-! ## control instructions.  Each returns the state after the main loop's `top = new_top; if step_ins then IP += length`. -/

/-- first argument cell and the rest (total: after the zero fill the cells exist) -/
def pop1 (st : List Int) : Int × List Int :=
  match st with
  | v :: rest => (v, rest)
  | [] => (0, [])

/-- `Ins_Goto_CodeRange` (its result is ignored by the callers, but `exc->error` stays set) -/
def gotoCodeRange {D} (c : Cfg D) (t : St D) (range ip : Nat) : Except Err (St D) :=
  if range < 1 ∨ range > 3 then .error .badArgument
  else if ip > (c.code range).size then .error .codeOverflow
  else .ok { t with curRange := range, ip := ip }

/-- `exc->callTop > 0 && exc->IP > exc->callStack[exc->callTop - 1].Def->end` -/
def pastEnd {D} (t : St D) (target : Int) : Bool :=
  match t.callStack with
  | r :: _ => decide (target > ((defOf t r).stop : Int))
  | [] => false

/-- `Ins_JMPR` with `args[0] = off`; `argsIx` = `exc->args`, the stack index of the first argument -/
def insJmpr {D} (c : Cfg D) (t : St D) (off : Int) (argsIx : Nat) : Except Err (St D) :=
  if off = 0 ∧ argsIx = 0 then .error .badArgument
  else
    let ip := wrapI64 ((t.ip : Int) + off)            -- `ADD_LONG`
    if ip < 0 ∨ pastEnd t ip then .error .badArgument
    else
      -- `step_ins = FALSE`
      if off < 0 then
        let n := t.negJumps + 1
        if n > c.negJumpMax then .error .executionTooLong
        else .ok { t with ip := ip.toNat, negJumps := n }
      else .ok { t with ip := ip.toNat }

/-- push a call record and go to the definition (`Ins_CALL`, `Ins_LOOPCALL`, `Ins_UNKNOWN`) -/
def enterDef {D} (c : Cfg D) (t : St D) (isFunc : Bool) (i : Nat) (d : DefRec) (count : Int) : Except Err (St D) :=
  let r : CallRec := { callerRange := t.curRange, callerIP := t.ip + 1, curCount := count, isFunc := isFunc, defIx := i }
  gotoCodeRange c { t with callStack := r :: t.callStack } d.range d.start

/-- `Ins_CALL` -/
def insCall {D} (c : Cfg D) (t : St D) (f : Int) : Except Err (St D) :=
  match lookupFunc t f with
  | none => .error .invalidReference
  | some (i, d) =>
    if t.callStack.length ≥ c.callSize then .error .stackOverflow
    else enterDef c t true i d 1

/-- `Ins_LOOPCALL` with `args[0] = count`, `args[1] = f`; `len` = 1 -/
def insLoopcall {D} (c : Cfg D) (t : St D) (count f : Int) : Except Err (St D) :=
  match lookupFunc t f with
  | none => .error .invalidReference
  | some (i, d) =>
    if t.callStack.length ≥ c.callSize then .error .stackOverflow
    else if count > 0 then
      let r := enterDef c t true i d (wrapI32 count)          -- `(FT_Int)args[0]`
      let lc := t.loopCalls + count.toNat
      if lc > c.loopcallMax then .error .executionTooLong
      else
        match r with
        | .error e => .error e
        | .ok t2 => .ok { t2 with loopCalls := lc }
    else .ok { t with ip := t.ip + 1 }

/-- `Ins_ENDF` -/
def insEndf {D} (c : Cfg D) (t : St D) : Except Err (St D) :=
  match t.callStack with
  | [] => .error .endfInExecStream
  | r :: rest =>
    let n := r.curCount - 1
    if n > 0 then .ok { t with callStack := { r with curCount := n } :: rest, ip := (defOf t r).start }
    else gotoCodeRange c { t with callStack := rest } r.callerRange r.callerIP

/-- `Ins_UNKNOWN` (and the repeated search under `case FT_ERR( Invalid_Opcode )`, which finds the same nothing) -/
def insUnknown {D} (c : Cfg D) (t : St D) (op : Nat) : Except Err (St D) :=
  match lookupIns t op with
  | none => .error .invalidOpcode
  | some (i, d) =>
    if t.callStack.length ≥ c.callSize then .error .stackOverflow
    else enterDef c t false i d 1

/-- `Ins_FDEF` (`isFunc`) / `Ins_IDEF` with `args[0] = v`; the instruction is at `t.ip`, one byte long -/
def insDef {D} (c : Cfg D) (t : St D) (isFunc : Bool) (v : Int) : Option (Except Err (St D)) :=
  if t.iniRange = 3 then some (.error .defInGlyfBytecode)
  else
    let n := (wrapU64 v).toNat
    let defs := if isFunc then t.fdefs else t.idefs
    let cap := if isFunc then c.maxFDefs else c.maxIDefs
    let tooMany : Err := if isFunc then .tooManyFunctionDefs else .tooManyInstructionDefs
    let found := findIx (fun r => r.opc = n) defs 0
    if found.isNone ∧ defs.length ≥ cap then some (.error tooMany)
    else
      -- a new record is appended (`numFDefs++`) before the key range test
      let limit := if isFunc then 0xFFFF else 0xFF
      if n > limit then some (.error tooMany)
      else
        let ix := found.getD defs.length
        let old : DefRec := (defs[ix]?).getD {}
        let rec0 : DefRec := { old with range := t.curRange, opc := n, start := t.ip + 1, active := true }
        let put (r : DefRec) : List DefRec := if found.isNone then defs ++ [r] else defs.set ix r
        let code := c.code t.curRange
        match scanDef code (code.size + 1) (t.ip + 1) with
        | none => none
        | some (.error e) => some (.error e)
        | some (.ok (endf, next)) =>
          let defs' := put { rec0 with stop := endf }
          if isFunc then
            some (.ok { t with fdefs := defs', maxFunc := if n > t.maxFunc then n else t.maxFunc, ip := next })
          else
            some (.ok { t with idefs := defs', maxIns := if n > t.maxIns then n else t.maxIns, ip := next })

/-- opcodes that reach `Ins_UNKNOWN`: no `case`, or GETVARIATION / GETDATA of a face without `blend` -/
def isUnknown (blend : Bool) (op : Nat) : Bool :=
  op = 0x28 || op = 0x7B || op = 0x83 || op = 0x84 || op = 0x8F || op = 0x90 || (0x93 ≤ op && op ≤ 0xAF)
  || (!blend && (op = 0x91 || op = 0x92))

/-- the `switch ( opcode )` for one instruction of length `len` at `t.ip`; `t.stack` is the prepared stack (zero fill
done), `argsIx` = `exc->args`.  `none` = scan fuel exhausted. -/
def exec {D} (c : Cfg D) (t : St D) (op len argsIx : Nat) (bytes : List Nat) : Option (Except Err (St D)) :=
  let code := c.code t.curRange
  if op = 0x58 then
    let (v, rest) := pop1 t.stack
    let t := { t with stack := rest }
    if v ≠ 0 then some (.ok { t with ip := t.ip + len })
    else
      match scanIf code (code.size + 1) (t.ip + len) 1 with
      | none => none
      | some (.error e) => some (.error e)
      | some (.ok ip) => some (.ok { t with ip := ip })
  else if op = 0x1B then
    match scanElse code (code.size + 1) (t.ip + len) 1 with
    | none => none
    | some (.error e) => some (.error e)
    | some (.ok ip) => some (.ok { t with ip := ip })
  else if op = 0x59 then some (.ok { t with ip := t.ip + len })
  else if op = 0x1C then
    let (off, rest) := pop1 t.stack
    some (insJmpr c { t with stack := rest } off argsIx)
  else if op = 0x78 ∨ op = 0x79 then
    -- `args[1]` (the top) is the condition, `args[0]` the offset
    let (e, r1) := pop1 t.stack
    let (off, rest) := pop1 r1
    let t := { t with stack := rest }
    if (if op = 0x78 then e ≠ 0 else e = 0) then some (insJmpr c t off argsIx)
    else some (.ok { t with ip := t.ip + len })
  else if op = 0x2B then
    let (f, rest) := pop1 t.stack
    some (insCall c { t with stack := rest } f)
  else if op = 0x2A then
    let (f, r1) := pop1 t.stack
    let (count, rest) := pop1 r1
    some (insLoopcall c { t with stack := rest } count f)
  else if op = 0x2C ∨ op = 0x89 then
    let (v, rest) := pop1 t.stack
    insDef c { t with stack := rest } (op = 0x2C) v
  else if op = 0x2D then some (insEndf c t)
  else if isUnknown c.blend op then
    -- `new_top = args + (Pop_Push_Count & 15)`: opcode 0x92 "pushes" the stale cell
    some (insUnknown c { t with stack := if op = 0x92 then c.stale :: t.stack else t.stack } op)
  else
    match c.sem op bytes (t.stack, t.data) with
    | .error e => some (.error e)
    | .ok (st, d) => some (.ok { t with stack := st, data := d, ip := t.ip + len })

/-- the stack-depth treatment before the `switch`: `args = top - pops`; negative ⇒ `Too_Few_Arguments` (pedantic) or
ALL `pops` argument cells zeroed with `args = 0`. -/
def prepArgs (pedantic : Bool) (npop : Nat) (st : List Int) : Except Err (List Int) :=
  if st.length < npop then
    if pedantic then .error .tooFewArguments else .ok (List.replicate npop 0)
  else .ok st

/-- what the loop fetches next: `none` when the run is over or the fetch fails -/
def fetch {D} (c : Cfg D) (t : St D) : Option (Nat × Nat) :=
  match t.status with
  | .running =>
    if t.ip ≥ (c.code t.curRange).size then none
    else (insLength (c.code t.curRange) t.ip).map (fun (op, _) => (t.ip, op))
  | _ => none

/-- one iteration of the `do … while` of `TT_RunIns`, starting with the end-of-code test of `LSuiteLabel_` (the
callers run non-empty programs only, so testing first is the same as testing last). -/
def step {D} (c : Cfg D) (t : St D) : St D :=
  match t.status with
  | .running =>
    let code := c.code t.curRange
    if t.ip ≥ code.size then
      if t.callStack.length > 0 then { t with status := .failed .codeOverflow } else { t with status := .done }
    else
      match insLength code t.ip with
      | none => { t with status := .failed .codeOverflow }
      | some (op, len) =>
        match prepArgs c.pedantic (pops op) t.stack with
        | .error e => { t with status := .failed e }
        | .ok st =>
          let argsIx := st.length - pops op
          if argsIx + pushes op > c.stackSize then { t with status := .failed .stackOverflow }
          else
            match exec c { t with stack := st } op len argsIx (inlineBytes code t.ip op len) with
            | none => { t with status := .stuck }
            | some (.error e) => { t with status := .failed e }
            | some (.ok t2) =>
              let n := t2.insCounter + 1
              if n > MAX_RUNNABLE_OPCODES then { t2 with insCounter := n, status := .failed .executionTooLong }
              else { t2 with insCounter := n }
  | _ => t

def iter {D} (c : Cfg D) : Nat → St D → St D
  | 0, t => t
  | n + 1, t => iter c n (step c t)

def runLoop {D} (c : Cfg D) : Nat → St D → St D
  | 0, t => t
  | n + 1, t =>
    match t.status with
    | .running => runLoop c n (step c t)
    | _ => t

/-- `TT_RunIns` -/
def run {D} (c : Cfg D) (t : St D) : St D := runLoop c (MAX_RUNNABLE_OPCODES + 3) t

/-- the context at the start of `TT_Run_Context` / `tt_size_run_fpgm` / `tt_size_run_prep`: `callTop = 0`, `top = 0`
(the caller passes the stack: FreeType always starts with an EMPTY one), `IP = 0`, counters reset by `TT_RunIns`;
`tt_size_init_bytecode` (before the font program) sets `numFDefs = numIDefs = 0`, `max_func = max_ins = 0`. -/
def initSt {D} (range : Nat) (fdefs idefs : List DefRec) (maxFunc maxIns : Nat) (stack : List Int) (d : D) : St D :=
  { iniRange := range, curRange := range, ip := 0, callStack := [],
    fdefs := if range = 1 then [] else fdefs, idefs := if range = 1 then [] else idefs,
    maxFunc := if range = 1 then 0 else maxFunc, maxIns := if range = 1 then 0 else maxIns,
    negJumps := 0, loopCalls := 0, insCounter := 0, stack := stack, data := d, status := .running }

/-! ## concrete data subset for the correspondence harness.
`Dat`: x coordinates (26.6) of the glyph zone, the storage area.  Vectors stay on the x axis. -/

structure Dat where
  xs : List Int
  store : List Int
  stackSize : Nat
  pedantic : Bool
deriving Repr, DecidableEq

def b2i (b : Bool) : Int := if b then 1 else 0

/-- big-endian words, sign extended (`GetShortIns`) -/
def words : List Nat → List Int
  | hi :: lo :: rest => wrapI16 ((hi * 256 + lo : Nat) : Int) :: words rest
  | _ => []

/-- binary operator on `args[0]` (deeper) and `args[1]` (top) -/
def bin (st : List Int) (f : Int → Int → Int) : List Int :=
  let (b, r1) := pop1 st
  let (a, rest) := pop1 r1
  f a b :: rest

/-- `Ins_NPUSHB/NPUSHW/PUSHB/PUSHW` (`BOUNDS( L, stackSize + 1 - top )` ⇒ `Stack_Overflow`), `Ins_DUP/POP/CLEAR/SWAP/DEPTH`,
`Ins_ADD/SUB/NEG` (`ADD_LONG` … on 64-bit longs), `Ins_LT/GTEQ/EQ/AND/OR/NOT`, `Ins_RS/WS` (`BOUNDSL( I, storeSize )`:
pedantic ⇒ `Invalid_Reference`, else RS yields 0 / WS does nothing), `Ins_SCFS` with both vectors on the x axis
(`BOUNDS( L, zp2.n_points )`: pedantic ⇒ `Invalid_Reference`, else nothing), `Ins_DEBUG` (always `Debug_OpCode`),
`Ins_AA` (pops one cell), the state setters that cannot fail.  Anything else: `Err.data (1000 + op)` = "not in
the subset" (the driver answers `tainted`, the harness skips the case). -/
def semSubset (op : Nat) (bytes : List Nat) (x : List Int × Dat) : Except Err (List Int × Dat) :=
  let (st, d) := x
  if op = 0x40 ∨ op = 0x41 ∨ (0xB0 ≤ op ∧ op ≤ 0xBF) then
    let vals : List Int := if op = 0x41 ∨ 0xB8 ≤ op then words bytes else bytes.map (fun (b : Nat) => (b : Int))
    if st.length + vals.length > d.stackSize then .error .stackOverflow
    else .ok (vals.reverse ++ st, d)
  else if op = 0x20 then let (a, rest) := pop1 st; .ok (a :: a :: rest, d)
  else if op = 0x21 then .ok ((pop1 st).2, d)
  else if op = 0x22 then .ok ([], d)
  else if op = 0x23 then
    let (b, r1) := pop1 st
    let (a, rest) := pop1 r1
    .ok (a :: b :: rest, d)
  else if op = 0x24 then .ok ((st.length : Int) :: st, d)
  else if op = 0x60 then .ok (bin st (fun a b => wrapI64 (a + b)), d)
  else if op = 0x61 then .ok (bin st (fun a b => wrapI64 (a - b)), d)
  else if op = 0x65 then let (a, rest) := pop1 st; .ok (wrapI64 (-a) :: rest, d)
  else if op = 0x50 then .ok (bin st (fun a b => b2i (a < b)), d)
  else if op = 0x53 then .ok (bin st (fun a b => b2i (a ≥ b)), d)
  else if op = 0x54 then .ok (bin st (fun a b => b2i (a = b)), d)
  else if op = 0x5A then .ok (bin st (fun a b => b2i (a ≠ 0 ∧ b ≠ 0)), d)
  else if op = 0x5B then .ok (bin st (fun a b => b2i (a ≠ 0 ∨ b ≠ 0)), d)
  else if op = 0x5C then let (a, rest) := pop1 st; .ok (b2i (a = 0) :: rest, d)
  else if op = 0x43 then
    let (i, rest) := pop1 st
    let I := (wrapU64 i).toNat
    match d.store[I]? with
    | some v => .ok (v :: rest, d)
    | none => if d.pedantic then .error .invalidReference else .ok (0 :: rest, d)
  else if op = 0x42 then
    let (v, r1) := pop1 st
    let (i, rest) := pop1 r1
    let I := (wrapU64 i).toNat
    if I < d.store.length then .ok (rest, { d with store := d.store.set I v })
    else if d.pedantic then .error .invalidReference else .ok (rest, d)
  else if op = 0x48 then
    let (v, r1) := pop1 st
    let (p, rest) := pop1 r1
    let L := (wrapU16 p).toNat                      -- `(FT_UShort)args[0]`
    if L < d.xs.length then .ok (rest, { d with xs := d.xs.set L v })
    else if d.pedantic then .error .invalidReference else .ok (rest, d)
  else if op = 0x4F then .error .debugOpcode
  else if op = 0x7F then .ok ((pop1 st).2, d)
  else if op = 0x18 ∨ op = 0x19 ∨ op = 0x3D ∨ op = 0x4D ∨ op = 0x4E ∨ op = 0x7A ∨ op = 0x7C ∨ op = 0x7D then
    .ok (st, d)
  else .error (.data (1000 + op))

end FontVerif.FtControl
