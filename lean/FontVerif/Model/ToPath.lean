/-
Model of `skrifa/src/outline/path.rs`: `to_path`, `contour_to_path` (both `PathStyle`s),
`PendingState::{emit, finish}`.

Coordinates are `Int`s in the unit of the coordinate type (26.6 bits, font units, or — for the
`f32` instantiation — doubled values so that midpoints are exact).  The two operations of
`PointCoord` the code uses are parameters (`Coord.mid`, `Coord.out`):
  * `fixedCoord`  ≙ `F26Dot6` / `Fixed` / `i32`: `midpoint_i32 a b = a.wrapping_add(b) / 2`
    (Rust `/` truncates) and `to_f32` = nearest-even rounding of the bits to a 24 bit significand
    (the constant scale `1/64` is a power of two and exact);
  * `exactCoord`  ≙ `f32` on exactly representable inputs: `a + 0.5 * (b - a)` is the exact mean.
Flags are the raw `PointFlags` bits; only bit 0 (`ON_CURVE`) and bit 7 (`OFF_CURVE_CUBIC`) are
looked at, exactly as `is_on_curve` / `is_off_curve_quad` / `is_off_curve_cubic` do.
The functions return the commands handed to the pen *so far* together with the error, if any
(the real code has already called the pen when it returns `Err`).
-/
import FontVerif.Model.Base
namespace FontVerif.ToPath

/-- `PathStyle` -/
inductive Style | freeType | harfBuzz
deriving DecidableEq, Repr

/-- `ContourPoint<C>` -/
structure Pt where
  x : Int
  y : Int
  flags : Nat
deriving DecidableEq, Repr

/-- `PointFlags::is_on_curve`: `bits & 1 != 0` -/
def isOn (f : Nat) : Bool := f % 2 == 1
/-- `PointFlags::is_off_curve_cubic`: `bits & 0x80 != 0` -/
def isCubic (f : Nat) : Bool := f / 128 % 2 == 1
/-- `PointFlags::is_off_curve_quad`: `bits & 0x81 == 0` -/
def isQuad (f : Nat) : Bool := !isOn f && !isCubic f

/-- calls on `OutlinePen` -/
inductive Cmd
  | move (x y : Int)
  | line (x y : Int)
  | quad (cx cy x y : Int)
  | cubic (c0x c0y c1x c1y x y : Int)
  | close
deriving DecidableEq, Repr

/-- `ToPathError` -/
inductive Err
  | contourOrder (ix : Nat)
  | expectedQuad (ix : Nat)
  | expectedQuadOrOnCurve (ix : Nat)
  | expectedCubic (ix : Nat)
  | pointFlagMismatch (numPoints numFlags : Nat)
deriving DecidableEq, Repr

/-- the two `PointCoord` operations used by path.rs -/
structure Coord where
  mid : Int → Int → Int
  out : Int → Int

/-- `midpoint_i32`: `a.wrapping_add(b) / 2` with Rust's truncating division -/
def midI32 (a b : Int) : Int := Int.tdiv (wrapI32 (a + b)) 2

/-- one rounding step of `i32 as f32` for magnitudes in `[2^23 q, 2^24 q)`: round to a multiple
of `q`, ties to even -/
def f32Step (a q : Int) : Int :=
  let r := a % q
  let lo := a - r
  if 2 * r < q then lo else if 2 * r > q then lo + q
  else if lo / q % 2 = 0 then lo else lo + q

/-- `|v| as f32` for `0 ≤ a ≤ 2^32` as an exact integer -/
def f32RoundNat (a : Int) : Int :=
  if a < 16777216 then a
  else if a < 33554432 then f32Step a 2
  else if a < 67108864 then f32Step a 4
  else if a < 134217728 then f32Step a 8
  else if a < 268435456 then f32Step a 16
  else if a < 536870912 then f32Step a 32
  else if a < 1073741824 then f32Step a 64
  else if a < 2147483648 then f32Step a 128
  else if a < 4294967296 then f32Step a 256
  else a

/-- `v as f32` (round to nearest, ties to even) as an exact integer, for `i32` inputs -/
def f32RoundInt (v : Int) : Int := if v < 0 then -(f32RoundNat (-v)) else f32RoundNat v

/-- `F26Dot6` / `Fixed` / `i32` coordinates (values are the raw bits) -/
def fixedCoord : Coord := { mid := midI32, out := f32RoundInt }
/-- `f32` coordinates on exactly representable inputs, carried as doubled integers -/
def exactCoord : Coord := { mid := fun a b => (a + b) / 2, out := id }

/-- `ContourPoint::midpoint` (`flags: other.flags`) -/
def Pt.midpoint (C : Coord) (a b : Pt) : Pt :=
  { x := C.mid a.x b.x, y := C.mid a.y b.y, flags := b.flags }

/-- `PendingState` -/
inductive Pending
  | empty
  | quad (p : Pt)
  | cubic (p : Pt)
  | two (a b : Pt)
deriving DecidableEq, Repr

/-- `PendingState::emit`: new state and the pen calls made (zero or one) -/
def emit (C : Coord) (st : Pending) (ix : Nat) (p : Pt) : Except Err (Pending × List Cmd) :=
  let f := p.flags
  match st with
  | .empty =>
    if isQuad f then .ok (.quad p, [])
    else if isCubic f then .ok (.cubic p, [])
    else .ok (.empty, [.line (C.out p.x) (C.out p.y)])
  | .quad q =>
    if isQuad f then
      let m := q.midpoint C p
      .ok (.quad p, [.quad (C.out q.x) (C.out q.y) (C.out m.x) (C.out m.y)])
    else if isCubic f then .error (.expectedQuadOrOnCurve ix)
    else .ok (.empty, [.quad (C.out q.x) (C.out q.y) (C.out p.x) (C.out p.y)])
  | .cubic c =>
    if isCubic f then .ok (.two c p, [])
    else .error (.expectedCubic ix)
  | .two c0 c1 =>
    if isQuad f then .error (.expectedCubic ix)
    else if isCubic f then
      let m := c1.midpoint C p
      .ok (.cubic p, [.cubic (C.out c0.x) (C.out c0.y) (C.out c1.x) (C.out c1.y) (C.out m.x) (C.out m.y)])
    else
      .ok (.empty, [.cubic (C.out c0.x) (C.out c0.y) (C.out c1.x) (C.out c1.y) (C.out p.x) (C.out p.y)])

/-- the `for (ix, point) in … { state.emit(ix, point, pen)? }` loops: commands emitted so far and
either the error or the final state -/
def emitMany (C : Coord) : Pending → List (Nat × Pt) → List Cmd × Except Err Pending
  | st, [] => ([], .ok st)
  | st, (ix, p) :: rest =>
    match emit C st ix p with
    | .error e => ([], .error e)
    | .ok (st', cs) =>
      let r := emitMany C st' rest
      (cs ++ r.1, r.2)

/-- `PendingState::finish(0, start_point, pen)` -/
def finish (C : Coord) (st : Pending) (start : Pt) : List Cmd × Option Err :=
  match st with
  | .empty => ([.close], none)
  | _ =>
    match emit C st 0 { start with flags := 1 } with
    | .error e => ([], some e)
    | .ok (_, cs) => (cs ++ [.close], none)

/-- `points.enumerate()` starting at index `i` -/
def enumFrom : Nat → List Pt → List (Nat × Pt)
  | _, [] => []
  | i, p :: ps => (i, p) :: enumFrom (i + 1) ps

/-- the part of `contour_to_path` after the start point is known -/
def runContour (C : Coord) (start : Pt) (body : List (Nat × Pt)) : List Cmd × Option Err :=
  let mv := Cmd.move (C.out start.x) (C.out start.y)
  match emitMany C .empty body with
  | (cs, .error e) => (mv :: cs, some e)
  | (cs, .ok st) =>
    let f := finish C st start
    (mv :: cs ++ f.1, f.2)

/-- `contour_to_path(points, last_point, style, pen)` -/
def contourToPath (C : Coord) (style : Style) (pts : List Pt) (last : Pt) : List Cmd × Option Err :=
  match pts with
  | [] => ([], none)
  | first :: tail =>
    if isCubic first.flags then ([], some (.expectedQuadOrOnCurve 0))
    else if isQuad first.flags then
      match style with
      | .freeType =>
        if isOn last.flags then
          -- omit_last: every point except the final one is emitted
          runContour C last (enumFrom 0 pts).dropLast
        else
          runContour C (last.midpoint C first) (enumFrom 0 pts)
      | .harfBuzz =>
        match tail with
        | [] => ([], none)
        | next :: rest =>
          if isOn next.flags then
            runContour C next (enumFrom 2 rest ++ [(0, first), (1, next)])
          else
            runContour C (first.midpoint C next) (enumFrom 1 tail ++ [(0, first)])
    else
      runContour C first (enumFrom 1 tail)

/-- the index remapping `map_err` of `to_path` -/
def shiftErr (start : Nat) : Err → Err
  | .expectedCubic ix => .expectedCubic (ix + start)
  | .expectedQuad ix => .expectedQuad (ix + start)
  | .expectedQuadOrOnCurve ix => .expectedQuadOrOnCurve (ix + start)
  | e => e

def zipPts : List (Int × Int) → List Nat → List Pt
  | (x, y) :: ps, f :: fs => { x := x, y := y, flags := f } :: zipPts ps fs
  | _, _ => []

/-- the contour loop of `to_path`; `ix` = `contour_ix`, `start` = `start_ix` -/
def toPathGo (C : Coord) (style : Style) (pts : List (Int × Int)) (flags : List Nat) :
    List Nat → Nat → Nat → List Cmd × Option Err
  | [], _, _ => ([], none)
  | e :: rest, ix, start =>
    if e < start ∨ e ≥ pts.length then ([], some (.contourOrder ix))
    else if e ≥ flags.length then ([], some (.pointFlagMismatch (e - start + 1) flags.length))
    else
      let n := e - start + 1
      let cp := zipPts ((pts.drop start).take n) ((flags.drop start).take n)
      match cp.getLast? with
      | none => toPathGo C style pts flags rest (ix + 1) (e + 1)   -- unreachable: n ≥ 1
      | some last =>
        match contourToPath C style cp last with
        | (cs, some err) => (cs, some (shiftErr start err))
        | (cs, none) =>
          let r := toPathGo C style pts flags rest (ix + 1) (e + 1)
          (cs ++ r.1, r.2)

/-- `to_path(points, flags, contours, path_style, pen)` -/
def toPath (C : Coord) (style : Style) (pts : List (Int × Int)) (flags : List Nat)
    (contours : List Nat) : List Cmd × Option Err :=
  toPathGo C style pts flags contours 0 0

/-! ## the grammar, as an executable check (also implemented by the harness on real pen streams) -/

def Cmd.isSeg : Cmd → Bool
  | .line .. | .quad .. | .cubic .. => true
  | _ => false

/-- `inside = true` while a contour is open -/
def wellFormedGo : Bool → List Cmd → Bool
  | inside, [] => !inside
  | false, .move .. :: r => wellFormedGo true r
  | false, _ :: _ => false
  | true, .close :: r => wellFormedGo false r
  | true, c :: r => c.isSeg && wellFormedGo true r

/-- `(Move Seg* Close)*` -/
def wellFormed (l : List Cmd) : Bool := wellFormedGo false l

def Cmd.coords : Cmd → List Int
  | .move x y => [x, y]
  | .line x y => [x, y]
  | .quad a b c d => [a, b, c, d]
  | .cubic a b c d e f => [a, b, c, d, e, f]
  | .close => []

/-! ## the error automaton over flag kinds only -/

inductive Kind | on | quad | cubic
deriving DecidableEq, Repr

/-- the classification order used by every branch of `emit`: quad test, then cubic test, else on -/
def kindOf (f : Nat) : Kind := if isQuad f then .quad else if isCubic f then .cubic else .on

/-- `PendingState` without the points -/
inductive PK | empty | quad | cubic | two
deriving DecidableEq, Repr

def stepK : PK → Kind → Option PK
  | .empty, .quad => some .quad
  | .empty, .cubic => some .cubic
  | .empty, .on => some .empty
  | .quad, .quad => some .quad
  | .quad, .cubic => none
  | .quad, .on => some .empty
  | .cubic, .cubic => some .two
  | .cubic, _ => none
  | .two, .quad => none
  | .two, .cubic => some .cubic
  | .two, .on => some .empty

def runK : PK → List Kind → Option PK
  | s, [] => some s
  | s, k :: ks => match stepK s k with
    | none => none
    | some s' => runK s' ks

/-- a sequence of emitted kinds is accepted iff the automaton survives it and the closing
on-curve point (`finish`) is accepted too -/
def acceptsK (ks : List Kind) : Bool :=
  match runK .empty ks with
  | none => false
  | some .empty => true
  | some s => (stepK s .on).isSome

/-! ## rendering for the line protocol -/

def Cmd.render : Cmd → String
  | .move x y => s!"M {x} {y}"
  | .line x y => s!"L {x} {y}"
  | .quad a b c d => s!"Q {a} {b} {c} {d}"
  | .cubic a b c d e f => s!"C {a} {b} {c} {d} {e} {f}"
  | .close => "Z"

def Err.render : Err → String
  | .contourOrder i => s!"err:ContourOrder:{i}"
  | .expectedQuad i => s!"err:ExpectedQuad:{i}"
  | .expectedQuadOrOnCurve i => s!"err:ExpectedQuadOrOnCurve:{i}"
  | .expectedCubic i => s!"err:ExpectedCubic:{i}"
  | .pointFlagMismatch p f => s!"err:PointFlagMismatch:{p}:{f}"

def render (r : List Cmd × Option Err) : String :=
  let cs := " ".intercalate (r.1.map Cmd.render)
  let e := match r.2 with | none => "ok" | some e => e.render
  if r.1.isEmpty then e else s!"{cs} {e}"

end FontVerif.ToPath
