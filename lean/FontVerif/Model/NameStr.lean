/-
C04 — the hand-written `name` table string conversions.

Transcribes
* write-fonts/src/tables/name.rs: `NameStringWriter::compute_length` (UTF-16BE: `chars().map(|c| c.len_utf16() as u16 * 2).sum()`
  in `u16` — an overflowing sum panics in the strict profile; MacRoman: `chars().count().try_into().unwrap()`; unknown: 0),
  `impl FontWrite for NameStringWriter` (UTF-16BE: `char::encode_utf16` code units big-endian; MacRoman:
  `MacRomanMapping.encode(c).expect(..)`; unknown encoding panics), `Name::compute_storage_offset`, `Name::compute_version`;
* read-fonts/src/tables/name.rs: `Encoding::new`, `MacRomanMapping::{encode, decode}` with both tables, `CharIter::next`
  (the decoder `impl FromObjRef<NameString> for String` = `obj.chars().collect()` runs).

A string is the list of its `char`s as scalar values.  `none` = panic.
`x & 0x3FF`, `x << 10`, `x >> 10` are written `% 1024`, `* 1024`, `/ 1024`.
-/
import FontVerif.Model.Field

namespace FontVerif.NameStr
open FontVerif.Field (Bytes be)

/-- Unicode scalar value (`char`) -/
def isChar (c : Nat) : Bool := c < 0xD800 || (0xE000 ≤ c && c < 0x110000)

inductive Encoding
  | utf16be | macRoman | unknown
  deriving DecidableEq, Repr

/-- read-fonts `Encoding::new(platform_id, encoding_id)` -/
def Encoding.new (platform encoding : Nat) : Encoding :=
  if platform = 0 then .utf16be
  else if platform = 1 ∧ encoding = 0 then .macRoman
  else if platform = 3 ∧ (encoding = 0 ∨ encoding = 1 ∨ encoding = 10) then .utf16be
  else .unknown

/-- `char::len_utf16` -/
def lenUtf16 (c : Nat) : Nat := if c < 0x10000 then 1 else 2

/-- `char::encode_utf16` -/
def encodeUtf16 (c : Nat) : List Nat :=
  if c < 0x10000 then [c] else [0xD800 + (c - 0x10000) / 1024, 0xDC00 + (c - 0x10000) % 1024]

/-- `MAC_ROMAN_DECODE` (bytes 128..=255) -/
def macDecodeTable : List Nat :=
  [196, 197, 199, 201, 209, 214, 220, 225, 224, 226, 228, 227, 229, 231, 233, 232, 234, 235, 237, 236,
   238, 239, 241, 243, 242, 244, 246, 245, 250, 249, 251, 252, 8224, 176, 162, 163, 167, 8226, 182,
   223, 174, 169, 8482, 180, 168, 8800, 198, 216, 8734, 177, 8804, 8805, 165, 181, 8706, 8721, 8719,
   960, 8747, 170, 186, 937, 230, 248, 191, 161, 172, 8730, 402, 8776, 8710, 171, 187, 8230, 160, 192,
   195, 213, 338, 339, 8211, 8212, 8220, 8221, 8216, 8217, 247, 9674, 255, 376, 8260, 8364, 8249, 8250,
   64257, 64258, 8225, 183, 8218, 8222, 8240, 194, 202, 193, 203, 200, 205, 206, 207, 204, 211, 212,
   63743, 210, 218, 219, 217, 305, 710, 732, 175, 728, 729, 730, 184, 733, 731, 711]

/-- `MAC_ROMAN_ENCODE` (sorted by the Unicode value) -/
def macEncodeTable : List (Nat × Nat) :=
  [(160, 202), (161, 193), (162, 162), (163, 163), (165, 180), (167, 164), (168, 172), (169, 169),
   (170, 187), (171, 199), (172, 194), (174, 168), (175, 248), (176, 161), (177, 177), (180, 171),
   (181, 181), (182, 166), (183, 225), (184, 252), (186, 188), (187, 200), (191, 192), (192, 203),
   (193, 231), (194, 229), (195, 204), (196, 128), (197, 129), (198, 174), (199, 130), (200, 233),
   (201, 131), (202, 230), (203, 232), (204, 237), (205, 234), (206, 235), (207, 236), (209, 132),
   (210, 241), (211, 238), (212, 239), (213, 205), (214, 133), (216, 175), (217, 244), (218, 242),
   (219, 243), (220, 134), (223, 167), (224, 136), (225, 135), (226, 137), (227, 139), (228, 138),
   (229, 140), (230, 190), (231, 141), (232, 143), (233, 142), (234, 144), (235, 145), (236, 147),
   (237, 146), (238, 148), (239, 149), (241, 150), (242, 152), (243, 151), (244, 153), (245, 155),
   (246, 154), (247, 214), (248, 191), (249, 157), (250, 156), (251, 158), (252, 159), (255, 216),
   (305, 245), (338, 206), (339, 207), (376, 217), (402, 196), (710, 246), (711, 255), (728, 249),
   (729, 250), (730, 251), (731, 254), (732, 247), (733, 253), (937, 189), (960, 185), (8211, 208),
   (8212, 209), (8216, 212), (8217, 213), (8218, 226), (8220, 210), (8221, 211), (8222, 227), (8224,
   160), (8225, 224), (8226, 165), (8230, 201), (8240, 228), (8249, 220), (8250, 221), (8260, 218),
   (8364, 219), (8482, 170), (8706, 182), (8710, 198), (8719, 184), (8721, 183), (8730, 195), (8734,
   176), (8747, 186), (8776, 197), (8800, 173), (8804, 178), (8805, 179), (9674, 215), (63743, 240),
   (64257, 222), (64258, 223)]

/-- `MacRomanMapping::decode` -/
def macDecode (b : Nat) : Nat := if b < 128 then b else macDecodeTable.getD (b - 128) 0

/-- `MacRomanMapping::encode`: `u16::try_from(c).ok()?`, ASCII as is, else `binary_search_by_key` in the table (keys
sorted and unique, so the search finds exactly the entry a linear lookup finds) -/
def macEncode (c : Nat) : Option Nat :=
  if 65536 ≤ c then none
  else if c < 128 then some c
  else (macEncodeTable.find? (fun e => e.1 == c)).map (·.2)

/-- the encoded string data: `impl FontWrite for NameStringWriter` -/
def encodeString : Encoding → List Nat → Option Bytes
  | .utf16be, s => some (s.flatMap fun c => (encodeUtf16 c).flatMap (be 2))
  | .macRoman, s => s.mapM macEncode
  | .unknown, [] => some []
  | .unknown, _ :: _ => none

/-- checked `u16` sum (`Iterator::sum` with overflow checks) -/
def sumU16 : List Nat → Option Nat → Option Nat
  | [], acc => acc
  | x :: xs, some a => if a + x < 65536 then sumU16 xs (some (a + x)) else none
  | _ :: _, none => none

/-- `NameStringWriter::compute_length` -/
def computeLength : Encoding → List Nat → Option Nat
  | .utf16be, s => sumU16 (s.map fun c => lenUtf16 c * 2) (some 0)
  | .macRoman, s => if s.length < 65536 then some s.length else none
  | .unknown, _ => some 0

/-- `NameRecord::validate_string_data` (no report = `true`): unknown platform / encoding pairs are rejected; UTF-16 strings
of more than `u16::MAX / 2` code units and MacRoman strings of more than `u16::MAX` chars do not fit the length field;
every MacRoman char must be encodable -/
def validateString : Encoding → List Nat → Bool
  | .unknown, _ => false
  | .utf16be, s => decide ((s.map lenUtf16).sum ≤ 32767)
  | .macRoman, s => decide (s.length ≤ 65535) && s.all fun c => (macEncode c).isSome

/-- `CharIter::next` collected (`obj.chars().collect()`), UTF-16BE -/
def decodeUtf16 : Bytes → List Nat
  | b0 :: b1 :: rest =>
    let c1 := b0 * 256 + b1
    if 0xD800 ≤ c1 ∧ c1 < 0xDC00 then
      match rest with
      | b2 :: b3 :: rest' =>
        let raw := (c1 % 1024) * 1024 + (b2 * 256 + b3) % 1024 + 0x10000
        (if isChar raw then raw else 0xFFFD) :: decodeUtf16 rest'
      | _ => [0xFFFD]
    else (if isChar c1 then c1 else 0xFFFD) :: decodeUtf16 rest
  | _ => []

/-- `CharIter` for MacRoman -/
def decodeMac (bs : Bytes) : List Nat := bs.map macDecode

def decodeString : Encoding → Bytes → List Nat
  | .utf16be, bs => decodeUtf16 bs
  | .macRoman, bs => decodeMac bs
  | .unknown, _ => []

/-- `Name::compute_storage_offset`: `6 + 12 * records (+ 4 * lang tags)` `.try_into().unwrap()` -/
def storageOffset (records : Nat) (langTags : Option Nat) : Option Nat :=
  let v := 6 + records * 12 + (match langTags with | some k => 4 * k | none => 0)
  if v < 65536 then some v else none

/-- `Name::compute_version` -/
def version (langTags : Option Nat) : Nat := if langTags.isSome then 1 else 0

end FontVerif.NameStr
