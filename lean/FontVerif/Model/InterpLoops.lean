/-
C02 core 1b — the LOOP-CARRYING data opcodes of skrifa's TrueType interpreter, as a concrete instance of `Cfg.sem`
(Model/Interp.lean), replacing "an arbitrary function that returns" for these opcodes by their real loop structure.

Transcribed from (all under /repo/skrifa/src/outline/glyf/hint):
* engine/graphics.rs `op_sloop` (clamp to 0xFFFF), `op_szp0/1/2/szps`, `op_srp0/1/2`
* engine/outline.rs `op_flippt`, `set_on_curve_for_range` (FLIPRGON/FLIPRGOFF), `op_shp`, `op_shc`, `op_shz`, `op_shpix`,
  `op_ip`, `op_alignrp`, `op_iup`
* engine/delta.rs `op_deltap`, `op_deltac`
* value_stack.rs `pop`, `pop_usize`, `pop_count_checked`, `copy_index` (CINDEX), `move_index` (MINDEX),
  `push_inline_operands` (NPUSHB/NPUSHW: in `semSubset`)
* zone.rs `Zone::{point, point_mut, original, contour, touch, flip_on_curve, set_on_curve, iup}`,
  `GraphicsState::{in_bounds, move_point, move_zp2_point, point_displacement}`, `ZonePointer::try_from`

What is modelled: for every opcode, WHERE its iteration count comes from, what it pops per iteration, and which
index check ends it early with which `HintErrorKind`.  Point coordinates, flags and cvt VALUES are abstract: they
never decide whether an index is checked.  What does decide it is modelled: the zone sizes, `backward_compatibility`
(`true` while the font program runs — the `Default` — `false` in the control value program and, for a non-smooth
target, in glyph programs), the two `did_iup` flags and which components of the freedom vector are non-zero (it is
axis-aligned in the compared subset: only SVTCA / SFVTCA change it).  `GraphicsState::is_pedantic` and `ValueStack::is_pedantic` are both
the flag passed to `Engine::run_program` (`ped`).

`G.iters` is a GHOST counter: the number of loop iterations (and of points visited by a range operation) performed by
data opcodes so far.  Props/C02Loops.lean bounds its growth per dispatched instruction.
-/
import FontVerif.Model.Interp
namespace FontVerif.InterpLoops
open FontVerif FontVerif.Interp

/-- error kinds raised by these opcodes, as `Err.data` codes (rendered by name in the driver) -/
def E_POINT : Err := .data 1001        -- InvalidPointIndex
def E_RANGE : Err := .data 1002        -- InvalidPointRange
def E_CONTOUR : Err := .data 1003      -- InvalidContourIndex
def E_ZONE : Err := .data 1004         -- InvalidZoneIndex
def E_NEGLOOP : Err := .data 1005      -- NegativeLoopCounter
def E_STACKVAL : Err := .data 1006     -- InvalidStackValue
def E_CVT : Err := .data 1007          -- InvalidCvtIndex

/-- the data state: value-stack capacity, the graphics-state registers these opcodes read, and the zone sizes -/
structure G where
  cap : Nat
  loop : Nat := 1                -- `loop_counter` (u32)
  zp0 : Nat := 1                 -- 0 = Twilight, 1 = Glyph
  zp1 : Nat := 1
  zp2 : Nat := 1
  rp0 : Nat := 0                 -- usize
  rp1 : Nat := 0
  rp2 : Nat := 0
  glyphPts : Nat := 0            -- `zones[1].points.len()` (= flags.len() = original.len()), phantom points included
  glyphContours : List Nat := [] -- `zones[1].contours`
  twiPts : Nat := 0              -- `zones[0].points.len()`; its contours are `[twiPts as u16]`
  cvtLen : Nat := 0
  ppem : Nat := 0
  deltaBase : Nat := 9
  bc : Bool := false             -- `backward_compatibility`
  didX : Bool := false           -- `did_iup_x`
  didY : Bool := false           -- `did_iup_y`
  fvX : Bool := true             -- `freedom_vector.x != 0`
  fvY : Bool := false            -- `freedom_vector.y != 0`
  iters : Nat := 0               -- GHOST
deriving Repr, DecidableEq, Inhabited

def G.zoneLen (g : G) (z : Nat) : Nat := if z = 0 then g.twiPts else g.glyphPts
def G.zoneContours (g : G) (z : Nat) : List Nat := if z = 0 then [g.twiPts % 65536] else g.glyphContours

/-- `i32 as usize` (sign-extending, 64-bit) -/
def asUsize (v : Int) : Nat := if v < 0 then (v + 18446744073709551616).toNat else v.toNat

/-- `Zone::point(i)` / `point_mut` / `original` / `touch` / `is_touched` / `flip_on_curve`: `Err(InvalidPointIndex)` iff
    `i ≥ len` (all per-point arrays of a zone have the same length) -/
def checkPoint (g : G) (z i : Nat) : Except Err Unit :=
  if i < g.zoneLen z then .ok () else .error E_POINT

/-- `backward_compatibility && did_iup_x && did_iup_y` -/
def G.bcDone (g : G) : Bool := g.bc && g.didX && g.didY

/-- `move_zp2_point(i, dx, dy, do_touch)`: `point_mut(i)?` / `touch(i)?` are reached only on some paths -/
def checkMoveZp2 (g : G) (i : Nat) (doTouch : Bool) : Except Err Unit :=
  if (g.fvX && (!g.bc || doTouch)) || (g.fvY && (!g.bcDone || doTouch)) then checkPoint g g.zp2 i else .ok ()

/-- `GraphicsState::in_bounds([(z, i)])`: NB `index > len` (so `i = len` is "in bounds") -/
def inBounds (g : G) (z i : Nat) : Bool := !(i > g.zoneLen z)

/-- `ZonePointer::try_from(i32)` -/
def zoneOf (v : Int) : Except Err Nat :=
  if v = 0 then .ok 0 else if v = 1 then .ok 1 else .error E_ZONE

/-- `for _ in 0..count { let p = value_stack.pop_usize()?; body(p)? }` — structural recursion on `count`.
    Returns the remaining stack and the number of iterations begun. -/
def popLoop (ped : Bool) (body : Nat → Except Err Unit) : Nat → List Int → Nat → Except Err (List Int × Nat)
  | 0, vs, k => .ok (vs, k)
  | n + 1, vs, k =>
    match pop ped vs with
    | .error e => .error e
    | .ok (v, vs) =>
      match body (asUsize v) with
      | .error e => .error e
      | .ok _ => popLoop ped body n vs (k + 1)

/-- `for i in start..end { if skip != Some(i) { body(i)? } }` — structural recursion on the length of the range -/
def rangeLoop (body : Nat → Except Err Unit) (skip : Option Nat) : Nat → Nat → Nat → Except Err Nat
  | 0, _, k => .ok k
  | n + 1, i, k =>
    match (if skip = some i then .ok () else body i) with
    | .error e => .error e
    | .ok _ => rangeLoop body skip n (i + 1) (k + 1)

/-- `point_displacement(opcode)`: the reference point must exist; returns (zone, point index) -/
def pointDisplacement (g : G) (opcode : Nat) : Except Err (Nat × Nat) :=
  let zr := if opcode % 2 = 1 then (g.zp0, g.rp1) else (g.zp1, g.rp2)
  match checkPoint g zr.1 zr.2 with
  | .error e => .error e
  | .ok _ => .ok zr

/-- DELTAP / DELTAC exception loop: `n` iterations, two pops each; `body(arg, index)` -/
def deltaLoop (ped : Bool) (body : Int → Nat → Except Err Unit) : Nat → List Int → Nat → Except Err (List Int × Nat)
  | 0, vs, k => .ok (vs, k)
  | n + 1, vs, k =>
    match pop ped vs with
    | .error e => .error e
    | .ok (ix, vs) =>
      match pop ped vs with
      | .error e => .error e
      | .ok (b, vs) =>
        match body b (asUsize ix) with
        | .error e => .error e
        | .ok _ => deltaLoop ped body n vs (k + 1)

/-- `Zone::iup(axis)` — the scan structure only (`touched` abstract): returns the number of loop iterations and of
    points handed to `iup_interpolate` / `iup_shift`.  `point` only moves forward, so the work is linear. -/
def iupContour (touched : Nat → Bool) (endPoint : Nat) : Nat → Nat → Nat → Nat × Nat
  -- skip untouched points: `while point <= end_point && !is_touched(point)`
  | 0, point, k => (point, k)
  | fuel + 1, point, k =>
    if point ≤ endPoint ∧ !touched point then iupContour touched endPoint fuel (point + 1) (k + 1) else (point, k)

def iup (touched : Nat → Bool) (nPoints : Nat) : List Nat → Nat → Nat → Nat
  | [], _, k => k
  | c :: rest, point, k =>
    let endPoint := if c ≥ nPoints then nPoints - 1 else c
    let first := point
    let (p1, k1) := iupContour touched endPoint (endPoint + 1 - point) point k
    if p1 ≤ endPoint then
      -- the second scan runs to `end_point + 1`; every point of `first..=end_point` is written at most twice
      iup touched nPoints rest (endPoint + 1) (k1 + (endPoint + 1 - p1) + 2 * (endPoint + 1 - first))
    else iup touched nPoints rest p1 k1

abbrev OpR := Except Err (List Int × G)

/-- `let v = value_stack.pop()?; f(v)` -/
def popThen (ped : Bool) (vs : List Int) (f : Int → List Int → OpR) : OpR :=
  match pop ped vs with
  | .error e => .error e
  | .ok (v, vs) => f v vs

/-- the SLOOP-driven point loops: `count = loop_counter; loop_counter = 1; for _ in 0..count { pop_usize()?; body(p)? }` -/
def counted (ped : Bool) (vs : List Int) (g : G) (body : Nat → Except Err Unit) : OpR :=
  match popLoop ped body g.loop vs 0 with
  | .error e => .error e
  | .ok (vs, k) => .ok (vs, { g with loop := 1, iters := g.iters + k })

/-- SLOOP: `loop_counter = (n as u32).min(0xFFFF)` -/
def opSloop (ped : Bool) (vs : List Int) (g : G) : OpR :=
  popThen ped vs fun n vs =>
    if n < 0 then .error E_NEGLOOP else .ok (vs, { g with loop := min n.toNat 0xFFFF })

/-- SRP0 / SRP1 / SRP2 (`which` = 0, 1, 2) -/
def opSrp (ped : Bool) (which : Nat) (vs : List Int) (g : G) : OpR :=
  popThen ped vs fun p vs =>
    .ok (vs, if which = 0 then { g with rp0 := asUsize p } else if which = 1 then { g with rp1 := asUsize p }
             else { g with rp2 := asUsize p })

/-- SZP0 / SZP1 / SZP2 / SZPS (`which` = 0, 1, 2, 3) -/
def opSzp (ped : Bool) (which : Nat) (vs : List Int) (g : G) : OpR :=
  popThen ped vs fun n vs =>
    match zoneOf n with
    | .error e => .error e
    | .ok z =>
      .ok (vs, if which = 0 then { g with zp0 := z } else if which = 1 then { g with zp1 := z }
               else if which = 2 then { g with zp2 := z } else { g with zp0 := z, zp1 := z, zp2 := z })

/-- FLIPRGON / FLIPRGOFF: `set_on_curve_for_range` -/
def opFlipRange (ped : Bool) (vs : List Int) (g : G) : OpR :=
  popThen ped vs fun hi vs =>
    popThen ped vs fun lo vs =>
      let hi := asUsize hi
      let lo := asUsize lo
      -- `high_point.checked_add(1)`
      if hi = 18446744073709551615 then .error E_POINT
      else if g.bcDone then .ok (vs, g)
      else
        -- `flags.get_mut(lo..hi + 1)`
        if lo ≤ hi + 1 ∧ hi + 1 ≤ g.glyphPts then .ok (vs, { g with iters := g.iters + (hi + 1 - lo) })
        else .error E_RANGE

/-- SHP -/
def opShp (ped : Bool) (op : Nat) (vs : List Int) (g : G) : OpR :=
  match pointDisplacement g op with
  | .error e => .error e
  | .ok _ => counted ped vs g fun p => checkMoveZp2 g p true

/-- SHC -/
def opShc (ped : Bool) (op : Nat) (vs : List Int) (g : G) : OpR :=
  popThen ped vs fun c vs =>
    let c := asUsize c
    let contours := g.zoneContours g.zp2
    -- `!gs.is_pedantic && contour_ix >= contours.len()`
    if !ped ∧ c ≥ contours.length then .ok (vs, g)
    else
      match pointDisplacement g op with
      | .error e => .error e
      | .ok (dz, dp) =>
        match (if c ≠ 0 then (match contours[c - 1]? with | some e => Except.ok (e + 1) | none => .error E_CONTOUR) else .ok 0) with
        | .error e => .error e
        | .ok start =>
          match (if g.zp2 = 0 then Except.ok (g.zoneLen 0) else
                  (match contours[c]? with | some e => Except.ok (e + 1) | none => .error E_CONTOUR)) with
          | .error e => .error e
          | .ok stop =>
            match rangeLoop (fun i => checkMoveZp2 g i true) (if dz = g.zp2 then some dp else none) (stop - start) start 0 with
            | .error e => .error e
            | .ok k => .ok (vs, { g with iters := g.iters + k })

/-- SHZ's range end: all points of the twilight zone, or up to the last contour end point of the glyph zone -/
def shzStop (g : G) : Nat :=
  if g.zp2 = 0 then g.zoneLen 0 else (match (g.zoneContours g.zp2).getLast? with | some e => e + 1 | none => 0)

/-- SHZ -/
def opShz (ped : Bool) (op : Nat) (vs : List Int) (g : G) : OpR :=
  popThen ped vs fun e vs =>
    match zoneOf e with
    | .error e => .error e
    | .ok _ =>
      match pointDisplacement g op with
      | .error e => .error e
      | .ok (dz, dp) =>
        match rangeLoop (fun i => checkMoveZp2 g i false) (if dz = g.zp2 then some dp else none) (shzStop g) 0 0 with
        | .error e => .error e
        | .ok k => .ok (vs, { g with iters := g.iters + k })

/-- IP -/
def opIp (ped : Bool) (vs : List Int) (g : G) : OpR :=
  let g1 := { g with loop := 1 }
  if !ped ∧ !(inBounds g g.zp0 g.rp1 && inBounds g g.zp1 g.rp2) then .ok (vs, g1)
  else
    match checkPoint g g.zp0 g.rp1 with
    | .error e => .error e
    | .ok _ =>
      match checkPoint g g.zp1 g.rp2 with
      | .error e => .error e
      | .ok _ =>
        match popLoop ped (fun p => if !ped ∧ !inBounds g g.zp2 p then .ok () else checkPoint g g.zp2 p) g.loop vs 0 with
        | .error e => .error e
        | .ok (vs, k) => .ok (vs, { g1 with iters := g.iters + k })

/-- DELTAP1-3 / DELTAC1-3 -/
def opDelta (ped : Bool) (op : Nat) (vs : List Int) (g : G) : OpR :=
  popThen ped vs fun n vs =>
    -- `pop_count_checked`
    if n < 0 ∧ ped then .error E_STACKVAL
    else
      -- `n.min(self.value_stack.len() / 2)`
      let n := min (if n < 0 then 0 else n.toNat) (vs.length / 2)
      let isC := op = 0x73 ∨ op = 0x74 ∨ op = 0x75
      let bias := (if op = 0x71 ∨ op = 0x74 then 16 else if op = 0x72 ∨ op = 0x75 then 32 else 0) + g.deltaBase
      let body (b : Int) (ix : Nat) : Except Err Unit :=
        -- DELTAP ignores out-of-range points and moves in-range ones; DELTAC reads / writes `cvt[ix]` when the
        -- exception applies to the current ppem
        if isC ∧ g.ppem = ((b % 4294967296).toNat / 16) % 16 + bias then
          (if ix < g.cvtLen then .ok () else .error E_CVT)
        else .ok ()
      match deltaLoop ped body n vs 0 with
      | .error e => .error e
      | .ok (vs, k) => .ok (vs, { g with iters := g.iters + k })

/-- CINDEX: `copy_index` -/
def opCindex (vs : List Int) (g : G) : OpR :=
  match vs with
  | [] => .error .vsUnderflow
  | top :: _ =>
    match vs[asUsize top]? with
    | none => .error .vsUnderflow
    | some v => .ok (vs.set 0 v, g)

/-- MINDEX: `move_index` (`copy_within` moves `k` elements) -/
def opMindex (vs : List Int) (g : G) : OpR :=
  match vs with
  | [] => .error .vsUnderflow
  | top :: _ =>
    let k := asUsize top
    match vs[k]? with
    | none => .error .vsUnderflow
    | some v =>
      if vs.length < 2 then .error .vsUnderflow
      else .ok ((vs.eraseIdx k).set 0 v, { g with iters := g.iters + k })

/-- the loop-carrying opcodes (+ the register setters they depend on).  `none` = not one of them. -/
def semLoopOp (ped : Bool) (op : Nat) (vs : List Int) (g : G) : Option OpR :=
  if op = 0x17 then some (opSloop ped vs g)
  else if op = 0x10 then some (opSrp ped 0 vs g)
  else if op = 0x11 then some (opSrp ped 1 vs g)
  else if op = 0x12 then some (opSrp ped 2 vs g)
  else if op = 0x13 then some (opSzp ped 0 vs g)
  else if op = 0x14 then some (opSzp ped 1 vs g)
  else if op = 0x15 then some (opSzp ped 2 vs g)
  else if op = 0x16 then some (opSzp ped 3 vs g)
  else if op = 0x80 then                                                                -- FLIPPT (glyph zone)
    -- in backward compatibility mode after both IUPs the instruction bails out before popping anything (the point
    -- arguments stay on the stack, /repo commit 2e3eaf9); the loop counter is reset all the same
    if g.bcDone then some (.ok (vs, { g with loop := 1 }))
    else some (counted ped vs g fun p => checkPoint g 1 p)
  else if op = 0x81 ∨ op = 0x82 then some (opFlipRange ped vs g)
  else if op = 0x32 ∨ op = 0x33 then some (opShp ped op vs g)
  else if op = 0x34 ∨ op = 0x35 then some (opShc ped op vs g)
  else if op = 0x36 ∨ op = 0x37 then some (opShz ped op vs g)
  else if op = 0x38 then                                                                -- SHPIX
    -- backward compatibility: the point is looked at only `if in_twilight || (!did_iup && (… || is_touched(p)?))`
    some (popThen ped vs fun _ vs => counted ped vs g fun p =>
      if g.bc && !((g.zp0 = 0 || g.zp1 = 0 || g.zp2 = 0) || !(g.didX && g.didY)) then .ok () else checkPoint g g.zp2 p)
  else if op = 0x39 then some (opIp ped vs g)
  else if op = 0x3C then                                                                -- ALIGNRP
    some (counted ped vs g fun p =>
      match checkPoint g g.zp1 p with
      | .error e => .error e
      | .ok _ => checkPoint g g.zp0 g.rp0)
  else if op = 0x5D ∨ op = 0x71 ∨ op = 0x72 ∨ op = 0x73 ∨ op = 0x74 ∨ op = 0x75 then some (opDelta ped op vs g)
  else if op = 0x25 then some (opCindex vs g)
  else if op = 0x26 then some (opMindex vs g)
  else if op = 0x30 ∨ op = 0x31 then                          -- IUP (glyph zone; never fails; see `iup`)
    some (.ok (vs, if g.bc then (if op = 0x31 then { g with didX := true } else { g with didY := true }) else g))
  -- SVTCA[y] / SVTCA[x] / SFVTCA[y] / SFVTCA[x]: the freedom vector becomes an axis
  else if op = 0x00 ∨ op = 0x04 then some (.ok (vs, { g with fvX := false, fvY := true }))
  else if op = 0x01 ∨ op = 0x05 then some (.ok (vs, { g with fvX := true, fvY := false }))
  else none

/-- `Cfg.sem` for the correspondence: the loop opcodes above, everything else as in `semSubset` -/
def semLoops (ped : Bool) (op : Nat) (bytes : List Nat) (x : List Int × G) : Except Err (List Int × G) :=
  match semLoopOp ped op x.1 x.2 with
  | some r => r
  | none =>
    match semSubset ped op bytes (x.1, x.2.cap) with
    | .error e => .error e
    | .ok (vs, _) => .ok (vs, x.2)

/-! ## the per-dispatch contract of a data opcode (used by Props/C02Loops.lean, Props/C02Run.lean) -/

/-- well-formed graphics state: `loop_counter ≤ 0xFFFF` (established by `Default` = 1, `op_sloop`'s clamp and the reset
    to 1 after every use) and the glyph zone's contour end points are `u16` -/
def Wf (g : G) : Prop := g.loop ≤ 65535 ∧ ∀ c ∈ g.glyphContours, c < 65536

/-- iteration budget of ONE dispatched data opcode in state `g` with value stack `vs`: the clamped loop counter, the
    points of both zones (IUP scans and rewrites every glyph point at most four times), the stack depth (MINDEX,
    DELTA) and the stack capacity (values pushed) -/
def work (g : G) (vs : List Int) : Nat := 65536 + 4 * g.glyphPts + g.twiPts + vs.length + g.cap

/-- what one data opcode may do to the data state: keep it well formed, leave the zone sizes alone, and add at most
    `work g vs` loop iterations -/
def Step (g : G) (vs : List Int) (g' : G) : Prop :=
  Wf g' ∧ g'.iters ≤ g.iters + work g vs ∧
  g'.glyphPts = g.glyphPts ∧ g'.twiPts = g.twiPts ∧ g'.glyphContours = g.glyphContours ∧ g'.cap = g.cap

end FontVerif.InterpLoops
