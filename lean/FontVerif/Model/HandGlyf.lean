/-
C01 (hand-written code) — transcriptions of the loop-carrying / index-computing hand-written functions of
read-fonts/src/tables/glyf.rs / loca.rs (SimpleGlyph points, PointIter, resolve_coords_len, CompositeGlyph components / instructions, Anchor / Transform, Loca::get_raw / get_glyf / all_offsets_are_ascending).

Every definition cites the Rust function it transcribes (file + fn) and keeps its checked / saturating /
wrapping arithmetic and its error returns; `Out.trap` / `none`-as-panic results mark what would be a panic of
the overflow-checked profile, and Props/C01HandGlyf.lean shows they are never produced.  Tied to the real code
by harness group `glyf.model` (driver commands `hg.*`, Drv/C01HandGlyf.lean).
-/
import FontVerif.Model.ReadIter
import FontVerif.Model.HandRead
namespace FontVerif.HandGlyf
open FontVerif FontVerif.ReadIter FontVerif.HandRead

end FontVerif.HandGlyf
