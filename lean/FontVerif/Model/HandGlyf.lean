/-
C01 (hand-written code) — transcriptions of the loop-carrying / index-computing hand-written functions of
read-fonts/src/tables/glyf.rs / loca.rs (SimpleGlyph points, PointIter, resolve_coords_len, CompositeGlyph components / instructions, Anchor / Transform, Loca::get_raw / get_glyf / all_offsets_are_ascending).

Every definition cites the Rust function it transcribes (file + fn) and keeps its checked / saturating /
wrapping arithmetic and its error returns; `Out.trap` / `none`-as-panic results mark what would be a panic of
the overflow-checked profile, and Props/C01HandGlyf.lean shows they are never produced.  Tied to the real code
by harness group `glyf.model` (driver commands `hg.*`, Drv/C01HandGlyf.lean).

Relation to Model/Glyf.lean (check C09): that file transcribes the same readers as *value* functions over
list tails (what a well-behaved run returns) and has no way to express a panic; here every cursor is the
`HandRead.Cur` position model (saturating, advancing on failed reads) and every unchecked `+ - *`, index
and slice of the Rust source is an explicit trap test.  The flag constants, `hasBit`, `Anchor` and
`Transform` of Model/Glyf.lean are reused; the generated `SimpleGlyph::read` is `Glyf.readSimple`.
-/
import FontVerif.Model.ReadIter
import FontVerif.Model.HandRead
import FontVerif.Model.Glyf
namespace FontVerif.HandGlyf
open FontVerif FontVerif.ReadIter FontVerif.HandRead
open FontVerif.Glyf (hasBit ON_CURVE X_SHORT Y_SHORT REPEAT X_SAME Y_SAME Anchor Transform
  ARG_WORDS ARGS_XY HAVE_SCALE MORE_COMPONENTS HAVE_XY_SCALE HAVE_2X2 HAVE_INSTR COMPOSITE_ALL)

/-! ## machine arithmetic of the overflow-checked profile (`none` = panic) -/

def U16_MAX : Nat := 65535
def U32_MAX : Nat := 4294967295

/-- `a + b` on `u16` -/
def addU16 (a b : Nat) : Option Nat := if a + b ≤ U16_MAX then some (a + b) else none
/-- `a + b` on `u32` -/
def addU32 (a b : Nat) : Option Nat := if a + b ≤ U32_MAX then some (a + b) else none
/-- `a * b` on `u32` -/
def mulU32 (a b : Nat) : Option Nat := if a * b ≤ U32_MAX then some (a * b) else none
/-- `a - b` on an unsigned type -/
def subU (a b : Nat) : Option Nat := if b ≤ a then some (a - b) else none
/-- `a + b` on `usize` -/
def addUsize (a b : Nat) : Option Nat := if a + b ≤ MAXU then some (a + b) else none

/-- the `ReadError` values these functions return -/
inductive GErr where
  | oob
  | invalidArrayLen
  /-- `MalformedData("repeat count too large in glyf")` -/
  | malformed
  deriving DecidableEq, Repr

/-- result of a fallible function: a value, a Rust `Err`, a panic, or (model artefact) out of fuel -/
inductive R (α : Type) where
  | ok (a : α)
  | err (e : GErr)
  | trap
  | fuel
  deriving Repr, DecidableEq

def ofRErr : RErr → GErr
  | .oob => .oob
  | .invalidArrayLen => .invalidArrayLen

/-! ## `SimpleGlyph` (glyf.rs)

A parsed simple glyph is given by its `end_pts_of_contours()` (u16 values) and its `glyph_data()`
bytes (generated accessors; `Glyf.readSimple`). -/

/-- `SimpleGlyph::num_points`: `end_pts_of_contours().last().map(|last| last.get() as usize + 1).unwrap_or(0)`;
`none` = the usize `+ 1` overflows. -/
def numPoints (ends : List Nat) : Option Nat :=
  match ends.getLast? with
  | none => some 0
  | some last => addUsize last 1

/-- `SimpleGlyph::has_overlapping_contours`: `read_at::<SimpleGlyphFlags>(0)`, bit `OVERLAP_SIMPLE`
(0x40), `unwrap_or_default()` -/
def hasOverlappingContours (gd : List Nat) : Bool :=
  match readAt gd 0 1 with
  | some f => hasBit f 0x40
  | none => false

/-- `FieldLengths` -/
structure Lens where
  flags : Nat
  x : Nat
  y : Nat
  deriving Repr, DecidableEq

/-- loop state of `resolve_coords_len`: `cursor`, `flags_left`, `x_coords_len`, `y_coords_len` (u32s) -/
structure RclSt where
  c : Cur
  left : Nat
  x : Nat
  y : Nat
  deriving Repr, DecidableEq

/-- the accumulation of one trip of `resolve_coords_len` (all `u32`, unchecked in the source):
`x_coords_len += ((flags & x_short).bits() != 0) as u32 * repeats;`
`x_coords_len += ((flags & x_long).bits() == 0) as u32 * repeats * 2;` (same for y),
`flags_left -= repeats`.  `none` = overflow panic. -/
def rclAccum (f repeats x y left : Nat) : Option (Nat × Nat × Nat) :=
  let xs : Nat := if (f &&& X_SHORT) != 0 then 1 else 0
  let xl : Nat := if (f &&& (X_SHORT ||| X_SAME)) == 0 then 1 else 0
  let ys : Nat := if (f &&& Y_SHORT) != 0 then 1 else 0
  let yl : Nat := if (f &&& (Y_SHORT ||| Y_SAME)) == 0 then 1 else 0
  -- each `if` is the overflow test of one `u32` operation of the source, in evaluation order
  let a := xs * repeats
  if a > U32_MAX then none else
  let x1 := x + a
  if x1 > U32_MAX then none else
  let b0 := xl * repeats
  if b0 > U32_MAX then none else
  let b := b0 * 2
  if b > U32_MAX then none else
  let x2 := x1 + b
  if x2 > U32_MAX then none else
  let c := ys * repeats
  if c > U32_MAX then none else
  let y1 := y + c
  if y1 > U32_MAX then none else
  let d0 := yl * repeats
  if d0 > U32_MAX then none else
  let d := d0 * 2
  if d > U32_MAX then none else
  let y2 := y1 + d
  if y2 > U32_MAX then none else
  if left < repeats then none else
  some (x2, y2, left - repeats)

/-- what one trip round a `while` loop does -/
inductive Trip (σ α : Type) where
  | next (s : σ)
  | ret (r : R α)

/-- body of `while flags_left > 0` in `resolve_coords_len`:
`let flags = cursor.read()?;` `repeats = if REPEAT_FLAG { u32::from(cursor.read::<u8>()?) + 1 } else { 1 }`,
`if repeats > flags_left { return Err(MalformedData) }`, the accumulation. -/
def rclBody (d : List Nat) (s : RclSt) : Trip RclSt Lens :=
  match s.c.read d 1 with
  | (none, _) => .ret (.err .oob)
  | (some f, c1) =>
    let rr : R (Nat × Cur) :=
      if hasBit f REPEAT then
        match c1.read d 1 with
        | (none, _) => .err .oob
        | (some r, c2) =>
          match addU32 r 1 with
          | none => .trap
          | some v => .ok (v, c2)
      else .ok (1, c1)
    match rr with
    | .err e => .ret (.err e)
    | .trap => .ret .trap
    | .fuel => .ret .fuel
    | .ok (repeats, c2) =>
      if repeats > s.left then .ret (.err .malformed)
      else
        match rclAccum f repeats s.x s.y s.left with
        | none => .ret .trap
        | some (x2, y2, l) => .next ⟨c2, l, x2, y2⟩

/-- after the loop: `Ok(FieldLengths { flags: cursor.position()? as u32, .. })` -/
def rclFinish (d : List Nat) (s : RclSt) : R Lens :=
  match s.c.position d with
  | none => .err .oob
  | some p => .ok ⟨p % 4294967296, s.x, s.y⟩

def rclLoop (d : List Nat) : Nat → RclSt → R Lens
  | 0, _ => .fuel
  | fuel + 1, s =>
    if s.left = 0 then rclFinish d s
    else
      match rclBody d s with
      | .ret r => r
      | .next s' => rclLoop d fuel s'

/-- `resolve_coords_len(data, points_total)` (`points_total: u16`); every trip consumes a byte, so
`data.len() + 1` units of fuel always suffice (`resolveCoordsLen_total`). -/
def resolveCoordsLen (d : List Nat) (total : Nat) : R Lens :=
  rclLoop d (d.length + 1) ⟨Cur.init, total, 0, 0⟩

/-- `struct PointIter`: three cursors over three slices, `flag_repeats: u16`, `cur_flags`,
`cur_x`, `cur_y: i16` -/
structure PiSt where
  fd : List Nat
  xd : List Nat
  yd : List Nat
  fc : Cur
  xc : Cur
  yc : Cur
  rep : Nat
  flags : Nat
  x : Int
  y : Int
  deriving Repr, DecidableEq

/-- `PointIter::new` -/
def PiSt.new (flags xs ys : List Nat) : PiSt :=
  { fd := flags, xd := xs, yd := ys, fc := Cur.init, xc := Cur.init, yc := Cur.init,
    rep := 0, flags := 0, x := 0, y := 0 }

/-- result of `PointIter::advance_flags` -/
inductive AF where
  /-- `None` (the `?` on the flag read) -/
  | none (s : PiSt)
  | trap
  | ok (s : PiSt)

/-- `PointIter::advance_flags`: when `flag_repeats == 0` read a flag byte (`?`), then
`flag_repeats = contains(REPEAT_FLAG).then(|| flags.read::<u8>().ok()).flatten().unwrap_or(0) as u16 + 1`;
in every case `flag_repeats -= 1`.  The two u16 operations are unchecked in the source. -/
def advanceFlags (s : PiSt) : AF :=
  if s.rep = 0 then
    match s.fc.read s.fd 1 with
    | (none, c1) => .none { s with fc := c1 }
    | (some f, c1) =>
      let rr : Nat × Cur :=
        if hasBit f REPEAT then (let r := c1.read s.fd 1; (r.1.getD 0, r.2)) else (0, c1)
      match addU16 rr.1 1 with
      | none => .trap
      | some fr =>
        match subU fr 1 with
        | none => .trap
        | some fr' => .ok { s with fc := rr.2, flags := f, rep := fr' }
  else
    match subU s.rep 1 with
    | none => .trap
    | some r => .ok { s with rep := r }

/-- one coordinate of `PointIter::advance_points`:
`(true, false) => -(read::<u8>().unwrap_or(0) as i16)`, `(true, true) => read::<u8>().unwrap_or(0) as i16`,
`(false, false) => read::<i16>().unwrap_or(0)`, `_ => 0` (the negation of a value in 0..=255 cannot
overflow an i16) -/
def readDelta (short same : Bool) (d : List Nat) (c : Cur) : Int × Cur :=
  match short, same with
  | true, false => let r := c.read d 1; (-((r.1.getD 0 : Nat) : Int), r.2)
  | true, true => let r := c.read d 1; (((r.1.getD 0 : Nat) : Int), r.2)
  | false, false => let r := c.read d 2; (wrapI16 ((r.1.getD 0 : Nat) : Int), r.2)
  | false, true => (0, c)

/-- `PointIter::advance_points` (`wrapping_add` on i16) -/
def advancePoints (s : PiSt) : PiSt :=
  let dx := readDelta (hasBit s.flags X_SHORT) (hasBit s.flags X_SAME) s.xd s.xc
  let dy := readDelta (hasBit s.flags Y_SHORT) (hasBit s.flags Y_SAME) s.yd s.yc
  { s with xc := dx.2, yc := dy.2, x := wrapI16 (s.x + dx.1), y := wrapI16 (s.y + dy.1) }

/-- a `CurvePoint`: x, y, on_curve -/
abbrev Pt := Int × Int × Bool

/-- `impl Iterator for PointIter`: `self.advance_flags()?; self.advance_points(); Some(..)` -/
def piStep (s : PiSt) : Out Pt × PiSt :=
  match advanceFlags s with
  | .none s1 => (.done, s1)
  | .trap => (.trap, s)
  | .ok s1 =>
    let s2 := advancePoints s1
    (.yield (s2.x, s2.y, hasBit s2.flags ON_CURVE), s2)

/-- result of `SimpleGlyph::points_impl` -/
inductive PImpl where
  | none
  | trap
  | fuel
  | some (s : PiSt)
  deriving Repr, DecidableEq

/-- `SimpleGlyph::points_impl`: `n_points = end_points.last()?.get().checked_add(1)?`,
`lens = resolve_coords_len(data, n_points).ok()?`,
`total_len = lens.flags + lens.x_coords + lens.y_coords` (unchecked u32 adds),
`if data.len() < total_len as usize { return None }`, two `split_at`s (panic when `mid > len`). -/
def pointsImpl (ends gd : List Nat) : PImpl :=
  match ends.getLast? with
  | none => .none
  | some last =>
    if last + 1 > U16_MAX then .none
    else
      match resolveCoordsLen gd (last + 1) with
      | .err _ => .none
      | .trap => .trap
      | .fuel => .fuel
      | .ok lens =>
        match addU32 lens.flags lens.x with
        | none => .trap
        | some t1 =>
          match addU32 t1 lens.y with
          | none => .trap
          | some total =>
            if gd.length < total then .none
            else if lens.flags > gd.length then .trap
            else
              let rest := gd.drop lens.flags
              if lens.x > rest.length then .trap
              else .some (PiSt.new (gd.take lens.flags) (rest.take lens.x) (rest.drop lens.x))

/-- `SimpleGlyph::points()`: `points_impl().unwrap_or_else(|| PointIter::new(&[], &[], &[]))`,
collected; `none` = `points_impl` panicked (or ran out of fuel).  A flag byte yields at most 256
points, so `256 · flags.len() + 1` units of fuel suffice (`pointIter_bounded`). -/
def points (ends gd : List Nat) : Option (List (Out Pt)) :=
  match pointsImpl ends gd with
  | .trap => none
  | .fuel => none
  | .none => run piStep 1 (PiSt.new [] [] [])
  | .some s => run piStep (256 * s.fd.length + 1) s

/-! ### `read_points_fast` -/

/-- the `while let Some(flag_bits) = flags_iter.next()` loop of `read_points_fast` over the
`flags_data` bytes still to come: `read_flags_bytes`, `i`, the caller's flag buffer.

repeat flag: `count = (flags_iter.next().ok_or(OutOfBounds)? as usize + 1).min(n_points - i)`,
`for f in &mut flags[i..i + count] { f.0 = flag_bits }`, `i += count`; otherwise
`flags[i].0 = flag_bits; i += 1`; `if i == n_points { break }`.
When the iterator is exhausted the loop ends; since `fix:` d12a1b2 `if i != n_points { return
Err(OutOfBounds) }` follows (flags that end before every point has one).
Returns `(read_flags_bytes, flags)`. -/
def fastFlags (n : Nat) : List Nat → (rfb i : Nat) → (buf : List Nat) → R (Nat × List Nat)
  | [], rfb, i, buf => if i = n then .ok (rfb, buf) else .err .oob
  | f :: rest, rfb, i, buf =>
    match addUsize rfb 1 with
    | none => .trap
    | some rfb1 =>
      if hasBit f REPEAT then
        match rest with
        | [] => .err .oob
        | r :: rest' =>
          match addUsize r 1, subU n i with
          | some r1, some room =>
            let count := min r1 room
            match addUsize rfb1 1, addUsize i count with
            | some rfb2, some e =>
              if e > buf.length then .trap
              else
                let buf' := buf.take i ++ List.replicate count f ++ buf.drop e
                if e = n then .ok (rfb2, buf') else fastFlags n rest' rfb2 e buf'
            | _, _ => .trap
          | _, _ => .trap
      else
        if i < buf.length then
          let buf' := buf.set i f
          match addUsize i 1 with
          | none => .trap
          | some i' => if i' = n then .ok (rfb1, buf') else fastFlags n rest rfb1 i' buf'
        else .trap

/-- one delta of `read_points_fast`: short vector → `cursor.read::<u8>()? as i32`, negated unless the
same/positive bit is set; else, unless that bit is set, `cursor.read::<i16>()? as i32`; else 0.
`none` = `Err(OutOfBounds)`. -/
def fastDelta (short same : Bool) (d : List Nat) (c : Cur) : Option (Int × Cur) :=
  if short then
    match c.read d 1 with
    | (none, _) => none
    | (some v, c1) => some (if same then ((v : Nat) : Int) else -((v : Nat) : Int), c1)
  else if !same then
    match c.read d 2 with
    | (none, _) => none
    | (some v, c1) => some (wrapI16 ((v : Nat) : Int), c1)
  else some (0, c)

/-- one coordinate pass of `read_points_fast` over the (expanded) flags: `x = x.wrapping_add(delta)`
on i32 -/
def fastCoords (short same : Nat) (d : List Nat) : List Nat → Cur → Int → R (List Int × Cur)
  | [], c, _ => .ok ([], c)
  | f :: fs, c, acc =>
    match fastDelta (hasBit f short) (hasBit f same) d c with
    | none => .err .oob
    | some (dl, c1) =>
      let acc' := wrapI32 (acc + dl)
      match fastCoords short same d fs c1 acc' with
      | .ok (l, c2) => .ok (acc' :: l, c2)
      | .err e => .err e
      | .trap => .trap
      | .fuel => .fuel

/-- `SimpleGlyph::read_points_fast::<i32>(points, flags)` with `points.len() = pl` and the caller's
flag buffer `flags0` (its content is observable: slots the glyph's flag bytes do not reach keep the
caller's bits and steer the coordinate decoding).  `mask` is `PointFlags::ON_CURVE` (0x01), or
`CURVE_MASK` (0x81) with feature `spec_next`.  Result: `(x, y, flag bits)` per point. -/
def readPointsFast (ends gd : List Nat) (pl : Nat) (flags0 : List Nat) (mask : Nat) :
    R (List (Int × Int × Nat)) :=
  match numPoints ends with
  | none => .trap
  | some n =>
    if pl ≠ n ∨ flags0.length ≠ n then .err .invalidArrayLen
    else
      let c0 := Cur.init
      -- `n_points.saturating_mul(2).min(cursor.remaining_bytes())` (`fix:` d12a1b2: a legal flag array
      -- takes up to two bytes per point)
      match (c0.readArray gd (min (min (2 * n) MAXU) (c0.remainingBytes gd)) 1).1 with
      | .error e => .err (ofRErr e)
      | .ok k =>
        match fastFlags n (gd.take k) 0 0 flags0 with
        | .err e => .err e
        | .trap => .trap
        | .fuel => .fuel
        | .ok (rfb, buf) =>
          let c := Cur.init.advanceBy rfb
          match fastCoords X_SHORT X_SAME gd buf c 0 with
          | .err e => .err e
          | .trap => .trap
          | .fuel => .fuel
          | .ok (xs, c1) =>
            match fastCoords Y_SHORT Y_SAME gd buf c1 0 with
            | .err e => .err e
            | .trap => .trap
            | .fuel => .fuel
            | .ok (ys, _) => .ok ((xs.zip (ys.zip buf)).map (fun t => (t.1, t.2.1, t.2.2 &&& mask)))

/-! ## `CompositeGlyph` (glyf.rs): the data is `component_data()` -/

/-- `struct ComponentIter` / `struct ComponentGlyphIdFlagsIter` -/
structure CSt where
  curFlags : Nat
  done : Bool
  c : Cur
  deriving Repr, DecidableEq

/-- `CompositeGlyph::components` / `component_glyphs_and_flags`: the initial iterator -/
def CSt.init : CSt := ⟨0, false, Cur.init⟩

/-- successive `self.cursor.read::<T>().ok()?` of the given sizes: stops at the first failure (the
cursor keeps the advance of the failed read) -/
def readSeq (d : List Nat) : List Nat → Cur → Option (List Nat) × Cur
  | [], c => (some [], c)
  | sz :: rest, c =>
    match c.read d sz with
    | (none, c1) => (none, c1)
    | (some v, c1) =>
      match readSeq d rest c1 with
      | (none, c2) => (none, c2)
      | (some vs, c2) => (some (v :: vs), c2)

/-- byte sizes of the two anchor arguments (`ARG_1_AND_2_ARE_WORDS`) -/
def argSizes (flags : Nat) : List Nat := if hasBit flags ARG_WORDS then [2, 2] else [1, 1]

/-- byte sizes of the transform values: `WE_HAVE_A_SCALE`, else `WE_HAVE_AN_X_AND_Y_SCALE`, else
`WE_HAVE_A_TWO_BY_TWO` -/
def transformSizes (flags : Nat) : List Nat :=
  if hasBit flags HAVE_SCALE then [2]
  else if hasBit flags HAVE_XY_SCALE then [2, 2]
  else if hasBit flags HAVE_2X2 then [2, 2, 2, 2]
  else []

/-- the `Anchor` of `ComponentIter::next` from the two raw arguments:
`(args_are_xy_values, args_are_words)` → `Offset` of i16 / `i8 as i16`, `Point` of u16 / `u8 as u16` -/
def decodeAnchor (flags a b : Nat) : Anchor :=
  match hasBit flags ARGS_XY, hasBit flags ARG_WORDS with
  | true, true => .offset (wrapI16 (a : Int)) (wrapI16 (b : Int))
  | true, false => .offset (wrapI8 (a : Int)) (wrapI8 (b : Int))
  | false, _ => .point a b

/-- the `Transform` of `ComponentIter::next` (`Transform::default()` = identity, `F2Dot14` 1.0 =
0x4000; a single scale sets `yy = xx`) from the raw values read -/
def decodeTransform (vals : List Nat) : Transform :=
  match vals with
  | [a] => ⟨wrapI16 (a : Int), 0, 0, wrapI16 (a : Int)⟩
  | [a, d] => ⟨wrapI16 (a : Int), 0, 0, wrapI16 (d : Int)⟩
  | [a, b, c, d] => ⟨wrapI16 (a : Int), wrapI16 (b : Int), wrapI16 (c : Int), wrapI16 (d : Int)⟩
  | _ => ⟨16384, 0, 0, 16384⟩

/-- a `Component` -/
structure Comp where
  flags : Nat
  gid : Nat
  anchor : Anchor
  t : Transform
  deriving Repr, DecidableEq

/-- `ComponentIter::next`: `if self.done { return None }`, flags (`from_bits_truncate`), glyph id, the
two anchor arguments, the transform values — every read `.ok()?` —, `done = !MORE_COMPONENTS`. -/
def compStep (d : List Nat) (s : CSt) : Out Comp × CSt :=
  if s.done then (.done, s)
  else
    match s.c.read d 2 with
    | (none, c1) => (.done, { s with c := c1 })
    | (some raw, c1) =>
      let flags := raw &&& COMPOSITE_ALL
      match c1.read d 2 with
      | (none, c2) => (.done, { s with curFlags := flags, c := c2 })
      | (some gid, c2) =>
        match readSeq d (argSizes flags ++ transformSizes flags) c2 with
        | (none, c3) => (.done, { s with curFlags := flags, c := c3 })
        | (some vals, c3) =>
          (.yield ⟨flags, gid, decodeAnchor flags (vals.getD 0 0) (vals.getD 1 0), decodeTransform (vals.drop 2)⟩,
           ⟨flags, !hasBit flags MORE_COMPONENTS, c3⟩)

/-- `CompositeGlyph::components().collect()`: every yielded component consumed ≥ 6 bytes -/
def components (d : List Nat) : Option (List (Out Comp)) :=
  run (compStep d) (d.length + 1) CSt.init

/-- `ComponentGlyphIdFlagsIter::next`: flags and glyph id are read (`.ok()?`), the arguments and the
transform are skipped with `advance_by` (which never fails; the position may pass the end) -/
def gfStep (d : List Nat) (s : CSt) : Out (Nat × Nat) × CSt :=
  if s.done then (.done, s)
  else
    match s.c.read d 2 with
    | (none, c1) => (.done, { s with c := c1 })
    | (some raw, c1) =>
      let flags := raw &&& COMPOSITE_ALL
      match c1.read d 2 with
      | (none, c2) => (.done, { s with curFlags := flags, c := c2 })
      | (some gid, c2) =>
        let c3 := c2.advanceBy (if hasBit flags ARG_WORDS then 4 else 2)
        let c4 :=
          if hasBit flags HAVE_SCALE then c3.advanceBy 2
          else if hasBit flags HAVE_XY_SCALE then c3.advanceBy 4
          else if hasBit flags HAVE_2X2 then c3.advanceBy 8
          else c3
        (.yield (gid, flags), ⟨flags, !hasBit flags MORE_COMPONENTS, c4⟩)

/-- `CompositeGlyph::component_glyphs_and_flags().collect()` -/
def glyphsAndFlags (d : List Nat) : Option (List (Out (Nat × Nat))) :=
  run (gfStep d) (d.length + 1) CSt.init

/-- `while iter.by_ref().next().is_some() { count += 1 }` of `count_and_instructions` (`count` is a
usize); returns the count and the iterator as the loop leaves it -/
def countLoop (d : List Nat) : Nat → CSt → Nat → R (Nat × CSt)
  | 0, _, _ => .fuel
  | fuel + 1, s, count =>
    match gfStep d s with
    | (.yield _, s') =>
      match addUsize count 1 with
      | none => .trap
      | some c' => countLoop d fuel s' c'
    | (.trap, _) => .trap
    | (_, s') => .ok (count, s')

/-- `CompositeGlyph::count_and_instructions`: the count and, when the LAST flags read contain
`WE_HAVE_INSTRUCTIONS`, `cursor.read::<u16>().ok().and_then(|len| cursor.read_array(len).ok())` —
as the byte range `(start, len)` of `component_data()` handed out -/
def countAndInstructions (d : List Nat) : R (Nat × Option (Nat × Nat)) :=
  match countLoop d (d.length + 1) CSt.init 0 with
  | .err e => .err e
  | .trap => .trap
  | .fuel => .fuel
  | .ok (count, s) =>
    if hasBit s.curFlags HAVE_INSTR then
      match s.c.read d 2 with
      | (none, _) => .ok (count, none)
      | (some len, c1) =>
        match (c1.readArray d len 1).1 with
        | .error _ => .ok (count, none)
        | .ok k => .ok (count, some (c1.pos, k))
    else .ok (count, none)

/-- `CompositeGlyph::instructions` = `count_and_instructions().1` -/
def instructions (d : List Nat) : R (Option (Nat × Nat)) :=
  match countAndInstructions d with
  | .ok r => .ok r.2
  | .err e => .err e
  | .trap => .trap
  | .fuel => .fuel

/-! ## `Loca` (loca.rs) -/

/-- `enum Loca { Short(&[BigEndian<u16>]), Long(&[BigEndian<u32>]) }`: the raw entries -/
structure Loca where
  long : Bool
  entries : List Nat
  deriving Repr, DecidableEq

/-- `Loca::read(data, is_long)` = `read_with_args`: `data.read_array(0..data.len())` of u32 / u16 -/
def locaRead (d : List Nat) (isLong : Bool) : Except RErr Loca :=
  let w := if isLong then 4 else 2
  match HandRead.readArray d 0 d.length w with
  | .error e => .error e
  | .ok n => .ok ⟨isLong, (List.range n).map (fun i => HandRead.beAt d (i * w) w)⟩

/-- `Loca::len`: `data.len().saturating_sub(1)` -/
def Loca.len (l : Loca) : Nat := l.entries.length - 1

/-- `Loca::is_empty` -/
def Loca.isEmpty (l : Loca) : Bool := l.len == 0

/-- `Loca::all_offsets_are_ascending`: `!data.iter().zip(data.iter().skip(1)).any(|(start, end)| start > end)` -/
def Loca.allAscending (l : Loca) : Bool :=
  !(l.entries.zip (l.entries.drop 1)).any (fun p => decide (p.1 > p.2))

/-- `Loca::get_raw(idx)`: `data.get(idx)`, short entries `x.get() as u32 * 2` (unchecked u32
product).  `.ok none` = `None`. -/
def Loca.getRaw (l : Loca) (idx : Nat) : R (Option Nat) :=
  match l.entries[idx]? with
  | none => .ok none
  | some v =>
    if l.long then .ok (some v)
    else
      match mulU32 v 2 with
      | none => .trap
      | some w => .ok (some w)

/-- result of `Loca::get_glyf` up to the call of the generated `Glyph::read` -/
inductive GG where
  | err (e : GErr)
  | trap
  /-- `Ok(None)`: `start == end` -/
  | none
  /-- the slice `start..end` of the glyf table handed to `Glyph::read` -/
  | slice (a b : Nat)
  deriving Repr, DecidableEq

/-- `Loca::get_glyf(gid, glyf)`: `idx = gid.to_u32() as usize`, `get_raw(idx)`, `get_raw(idx + 1)`
(unchecked usize `+ 1`), `Ok(None)` for an empty range,
`glyf.offset_data().slice(start as usize..end as usize).ok_or(OutOfBounds)?` -/
def Loca.getGlyf (l : Loca) (glyfLen gid : Nat) : GG :=
  match l.getRaw gid with
  | .trap => .trap
  | .fuel => .trap
  | .err e => .err e
  | .ok none => .err .oob
  | .ok (some start) =>
    match addUsize gid 1 with
    | none => .trap
    | some idx1 =>
      match l.getRaw idx1 with
      | .trap => .trap
      | .fuel => .trap
      | .err e => .err e
      | .ok none => .err .oob
      | .ok (some end_) =>
        if start = end_ then .none
        else
          match getRange glyfLen start end_ with
          | none => .err .oob
          | some _ => .slice start end_

end FontVerif.HandGlyf
