/-
Unhinted scaling of a simple TrueType glyph of a static font: point × 16.16 scale → 26.6, the
horizontal phantom points, the shift of the outline by the scaled left phantom point and the
advance.  Two transcriptions:

skrifa   skrifa/src/outline/glyf/mod.rs   `Outlines::compute_scale`, `FreeTypeScaler::
         setup_phantom_points`, `load_simple` (no deltas, scaled, not hinted),
         glyf/outline.rs `ScaledOutline::new` (x shift), `adjusted_advance_width` (no hdmx when
         unhinted).  `F26Dot6` `*` and `/` are the `Fixed` operators (same macro: Model/Fixed.lean),
         `+`/`-` are `wrapping_add`/`wrapping_sub`.
FreeType ttobjs.c `tt_size_reset` (`x_scale = FT_DivFix(ppem << 6, units_per_EM)`), ttgload.c
         `tt_loader_set_pp`, `TT_Process_Simple_Glyph` (`FT_MulFix(vec->x, x_scale)`, phantom points
         scaled the same way), `TT_Load_Glyph` (`FT_Outline_Translate(-pp1.x, 0)` when `pp1.x ≠ 0`),
         `compute_glyph_metrics` (`horiAdvance = SUB_LONG(pp2.x, pp1.x)`); 64-bit `long`.
Values: coordinates, bearings and advance in font units; `p` = ppem·64, `u` = units per em.
-/
import FontVerif.Model.Fixed
import FontVerif.Model.FtCalc
namespace FontVerif.Scale
open FontVerif

structure Simple where
  pts : List (Int × Int)
  xMin : Int
  lsb : Int
  adv : Int

/-- `compute_scale`: `F26Dot6::from_bits((ppem * 64.) as i32) / F26Dot6::from_bits(upem as i32)`. -/
def skScale (p u : Int) : Int := Fixed.div p u
/-- `tt_size_reset`: `FT_DivFix(ppem << 6, units_per_EM)` (an `FT_Fixed`, i.e. a `long`). -/
def ftScale (p u : Int) : Int := FtCalc.divFix p u

/-- skrifa: `(points, advance)` in 26.6. -/
def skSimple (s : Int) (g : Simple) : List (Int × Int) × Int :=
  let pp1u := g.xMin - g.lsb
  let pp2u := wrapI32 (pp1u + g.adv)
  let pp1 := Fixed.mul pp1u s
  let pp2 := Fixed.mul pp2u s
  let pts := g.pts.map fun q => (Fixed.mul q.1 s, Fixed.mul q.2 s)
  let pts := if pp1 ≠ 0 then pts.map fun q => (wrapI32 (q.1 - pp1), q.2) else pts
  (pts, wrapI32 (pp2 - pp1))

/-- FreeType: `(outline points, metrics.horiAdvance)` in 26.6. -/
def ftSimple (s : Int) (g : Simple) : List (Int × Int) × Int :=
  let pp1u := g.xMin - g.lsb
  let pp2u := pp1u + g.adv
  let pp1 := FtCalc.mulFix pp1u s
  let pp2 := FtCalc.mulFix pp2u s
  let pts := g.pts.map fun q => (FtCalc.mulFix q.1 s, FtCalc.mulFix q.2 s)
  let pts := if pp1 ≠ 0 then pts.map fun q => (FtCalc.addLong q.1 (-pp1), q.2) else pts
  (pts, FtCalc.subLong pp2 pp1)

end FontVerif.Scale
