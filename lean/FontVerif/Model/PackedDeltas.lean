/-
Model of the packed "delta" and packed "point number" encodings of the tuple variation store:

writer  write-fonts/src/tables/variations.rs
          PackedDeltas::{iter_runs (preferred_run_type, count_leading_zeros, next_run_len),
          compute_size}, PackedDeltaRun::{compute_flag, compute_size, write_into},
          PackedPointNumbers::{write_into, compute_size, iter_runs}, PackedPointRun::write_into
reader  read-fonts/src/tables/variations.rs
          DeltaRunType::new, DeltaRunIter::{next, skip_fast, read_next_control}, count_all_deltas,
          PackedDeltas::{iter, x_deltas, y_deltas, consume_all},
          PackedPointNumbers::{count_and_count_bytes, total_len, split_off_front, iter},
          PackedPointNumbersIter::next, PointRunIter::next, read_control_byte,
          TupleDeltaIter::{new, next}, read_dense_deltas, read_sparse_deltas

Bytes are `Nat`s below 256; deltas are `Int`s; point numbers are `Nat`s.  `none` from a writer
function = the Rust panics in the overflow-checked profile.
-/
import FontVerif.Model.Base
namespace FontVerif.PackedDeltas
open FontVerif

/-- `DeltaRunType` (read-fonts, re-exported by write-fonts). -/
inductive RunType where
  | zero | i8 | i16 | i32
  deriving DecidableEq, Repr, Inhabited

/-- bytes per value: `DeltaRunType as usize`. -/
def RunType.size : RunType → Nat
  | .zero => 0 | .i8 => 1 | .i16 => 2 | .i32 => 4

/-! ## writer: `PackedDeltas` -/

/-- `preferred_run_type`. -/
def prefType (v : Int) : RunType :=
  if v = 0 then .zero
  else if v > 32767 ∨ v < -32768 then .i32
  else if v > 127 ∨ v < -128 then .i16
  else .i8

/-- `count_leading_zeros`: `.take(MAX_POINTS_PER_RUN).take_while(== 0).count()`; `cap` = 64. -/
def countLeadingZeros : Nat → List Int → Nat
  | 0, _ => 0
  | _, [] => 0
  | cap + 1, v :: vs => if v = 0 then countLeadingZeros cap vs + 1 else 0

/-- the "any reason to stop?" test of `next_run_len` for the element `cur` (type `cur`) followed by
an element of type `next` (`none` past the end), inside a run of type `ty`. -/
def stopHere (ty cur : RunType) (next : Option RunType) : Bool :=
  match ty with
  | .i8 =>
    match cur with
    | .zero => next == some .zero
    | .i16 => true
    | .i32 => true
    | .i8 => false
  | .i16 =>
    match cur, next with
    | .zero, _ => true
    | .i32, _ => true
    | .i8, some .zero => true
    | .i8, some .i8 => true
    | _, _ => false
  | .i32 => cur != .i32
  | .zero => false

/-- the `while idx < MAX_POINTS_PER_RUN && idx < slice.len()` loop of `next_run_len`, counting the
elements taken after the first; `cap` = 63 at entry. -/
def runScan (ty : RunType) : Nat → List Int → Nat
  | 0, _ => 0
  | _, [] => 0
  | cap + 1, cur :: rest =>
    if stopHere ty (prefType cur) (rest.head?.map prefType) then 0
    else runScan ty cap rest + 1

/-- `next_run_len` for a slice `first :: rest` with `first ≠ 0`. -/
def nextRunLen (first : Int) (rest : List Int) : Nat × RunType :=
  (runScan (prefType first) 63 rest + 1, prefType first)

/-- a `PackedDeltaRun`: `Zeros(n)` is `(.zero, n zeros)`. -/
abbrev Run := RunType × List Int

/-- `iter_runs` collected; `fuel ≥ ds.length` suffices (every run consumes ≥ 1 element). -/
def runsOf : Nat → List Int → List Run
  | 0, _ => []
  | _, [] => []
  | fuel + 1, v :: rest =>
    if v = 0 then
      let n := countLeadingZeros 64 (v :: rest)
      (.zero, (v :: rest).take n) :: runsOf fuel ((v :: rest).drop n)
    else
      let len := (nextRunLen v rest).1
      ((nextRunLen v rest).2, (v :: rest).take len) :: runsOf fuel ((v :: rest).drop len)

/-- `compute_flag`: `(len - 1) | DELTAS_ARE_ZERO / DELTAS_ARE_WORDS`; `len - 1 ≤ 63` so the OR of
the flag bits is an addition. -/
def flagByte (ty : RunType) (len : Nat) : Nat :=
  match ty with
  | .zero => (len - 1) + 128
  | .i8 => len - 1
  | .i16 => (len - 1) + 64
  | .i32 => (len - 1) + 64 + 128

/-- `(*v as i8)`, `(*v as i16)`, `v` written big-endian. -/
def valBytes (ty : RunType) (v : Int) : List Nat :=
  match ty with
  | .zero => []
  | .i8 => [(v % 256).toNat]
  | .i16 => let u := (v % 65536).toNat; [u / 256, u % 256]
  | .i32 => let u := (v % 4294967296).toNat
            [u / 16777216, u / 65536 % 256, u / 256 % 256, u % 256]

/-- `PackedDeltaRun::write_into`. -/
def serializeRun (r : Run) : List Nat :=
  flagByte r.1 r.2.length :: r.2.flatMap (valBytes r.1)

/-- `PackedDeltas::write_into`. -/
def encodeDeltas (ds : List Int) : List Nat :=
  (runsOf ds.length ds).flatMap serializeRun

/-- `PackedDeltaRun::compute_size` (u16; cannot overflow for ≤ 64 values). -/
def runSize (r : Run) : Nat := r.2.length * r.1.size + 1

/-- `PackedDeltas::compute_size`: `fold(0u16, checked_add(..).unwrap())`. -/
def computeSize (ds : List Int) : Option Nat :=
  (runsOf ds.length ds).foldl (fun acc r =>
    match acc with
    | none => none
    | some a => if a + runSize r > 65535 then none else some (a + runSize r)) (some 0)

/-! ## reader: `DeltaRunIter` -/

/-- `DeltaRunType::new(control)`. -/
def runTypeOf (control : Nat) : RunType :=
  match control / 128 % 2 == 1, control / 64 % 2 == 1 with
  | false, false => .i8
  | false, true => .i16
  | true, false => .zero
  | true, true => .i32

/-- `read_next_control`: `(remaining_in_run, value_type, rest)`. -/
def readControl : List Nat → Option (Nat × RunType × List Nat)
  | [] => none
  | c :: bs => some (c % 64 + 1, runTypeOf c, bs)

/-- the `match self.value_type` of `DeltaRunIter::next`. -/
def readVal : RunType → List Nat → Option (Int × List Nat)
  | .zero, bs => some (0, bs)
  | .i8, b :: bs => some (wrapI8 b, bs)
  | .i16, a :: b :: bs => some (wrapI16 ((a * 256 + b : Nat) : Int), bs)
  | .i32, a :: b :: c :: d :: bs =>
    some (wrapI32 ((((a * 256 + b) * 256 + c) * 256 + d : Nat) : Int), bs)
  | _, _ => none

/-- `DeltaRunIter` with `limit = Some(limit)` collected until the first `None`. -/
def decNext : Nat → Nat → RunType → List Nat → List Int
  | 0, _, _, _ => []
  | limit + 1, rem, ty, bs =>
    match (if rem = 0 then readControl bs else some (rem, ty, bs)) with
    | none => []
    | some (rem', ty', bs') =>
      match readVal ty' bs' with
      | none => []
      | some (v, bs'') => v :: decNext limit (rem' - 1) ty' bs''

/-- `PackedDeltas::new(data, count).iter()` collected. -/
def decodeDeltas (bs : List Nat) (count : Nat) : List Int := decNext count 0 .i8 bs

/-- `count_all_deltas`; `fuel ≥ bs.length` suffices. -/
def countAll : Nat → List Nat → Nat
  | 0, _ => 0
  | _, [] => 0
  | fuel + 1, c :: bs =>
    let rc := c % 64 + 1
    rc + countAll fuel (bs.drop (rc * (runTypeOf c).size))

/-- `PackedDeltas::consume_all(data).iter()` collected. -/
def decodeAll (bs : List Nat) : List Int := decodeDeltas bs (countAll bs.length bs)

/-- iterator state of `DeltaRunIter` (`limit` is always `Some` on the modelled paths). -/
structure St where
  limit : Nat
  rem : Nat
  ty : RunType
  bs : List Nat

/-- `skip_fast(n)`: the `loop`, with `wanted` the running counter; `fuel ≥ bs.length + 1`. -/
def skipLoop (n : Nat) : Nat → Nat → St → St
  | 0, _, st => st
  | fuel + 1, wanted, st =>
    if wanted > st.rem then
      let bs := st.bs.drop (st.rem * st.ty.size)
      match readControl bs with
      | none => { limit := 0, rem := 0, ty := st.ty, bs := bs.drop 1 }
      | some (rem', ty', bs') =>
        skipLoop n fuel (wanted - st.rem) { limit := st.limit, rem := rem', ty := ty', bs := bs' }
    else
      { limit := st.limit - n, rem := st.rem - wanted, ty := st.ty,
        bs := st.bs.drop (wanted * st.ty.size) }

def skipFast (st : St) (n : Nat) : St := skipLoop n (st.bs.length + 2) n st

/-- `x_deltas()` / `y_deltas()` of `PackedDeltas { data, count }` collected. -/
def xDeltas (bs : List Nat) (count : Nat) : List Int := decNext (count / 2) 0 .i8 bs
def yDeltas (bs : List Nat) (count : Nat) : List Int :=
  let st := skipFast { limit := count, rem := 0, ty := .i8, bs := bs } (count / 2)
  decNext st.limit st.rem st.ty st.bs

/-! ## writer: `PackedPointNumbers` -/

/-- the `.take(128).scan(prev, ..).count()` of `iter_runs`; `none` = `point - *prev` underflows
(`u16` subtraction, traps in the checked profile). -/
def ptRunLen (words : Bool) : Nat → Nat → List Nat → Option Nat
  | 0, _, _ => some 0
  | _, _, [] => some 0
  | cap + 1, prev, p :: ps =>
    if p < prev then none else
    let takeThis := if words then p - prev > 255 else p - prev ≤ 255
    if takeThis then (ptRunLen words cap p ps).map (· + 1) else some 0

/-- a `PackedPointRun { last_point, are_words, points }`. -/
structure PtRun where
  last : Nat
  words : Bool
  pts : List Nat
  deriving Repr

/-- `PackedPointNumbers::iter_runs` collected (`fuel ≥ pts.length`). -/
def ptRunsOf : Nat → Nat → List Nat → Option (List PtRun)
  | 0, _, _ => some []
  | _, _, [] => some []
  | fuel + 1, prev, p :: ps =>
    if p < prev then none else
    let words := decide (p - prev > 255)
    match ptRunLen words 128 prev (p :: ps) with
    | none => none
    | some len =>
      let head := (p :: ps).take len
      match ptRunsOf fuel (head.getLastD prev) ((p :: ps).drop len) with
      | none => none
      | some rs => some ({ last := prev, words := words, pts := head } :: rs)

/-- the point-delta bytes of `PackedPointRun::write_into`. -/
def ptDeltaBytes (words : Bool) : Nat → List Nat → List Nat
  | _, [] => []
  | last, p :: ps =>
    (if words then [(p - last) / 256 % 256, (p - last) % 256] else [(p - last) % 256])
      ++ ptDeltaBytes words p ps

/-- `PackedPointRun::write_into` (`len |= 0x80` is an addition: `len ≤ 127`). -/
def serializePtRun (r : PtRun) : List Nat :=
  ((r.pts.length - 1) + (if r.words then 128 else 0)) :: ptDeltaBytes r.words r.last r.pts

/-- the count prefix of `PackedPointNumbers::write_into`. -/
def ptCountBytes (len : Nat) : List Nat :=
  if len ≤ 127 then [len] else
    let v := len % 65536 % 32768 + 32768   -- `len as u16 | 0x8000`
    [v / 256, v % 256]

/-- `PackedPointNumbers::Some(pts).write_into`; `All` is `encodePoints []`. -/
def encodePoints (pts : List Nat) : Option (List Nat) :=
  match ptRunsOf pts.length 0 pts with
  | none => none
  | some rs => some (ptCountBytes pts.length ++ rs.flatMap serializePtRun)

/-- `PackedPointNumbers::compute_size` for `Some(pts)` (`All` returns 1). -/
def ptComputeSize (pts : List Nat) : Option Nat :=
  match ptRunsOf pts.length 0 pts with
  | none => none
  | some rs =>
    rs.foldl (fun acc r =>
      match acc with
      | none => none
      | some a =>
        let sz := r.pts.length * (if r.words then 2 else 1) + 1
        if a + sz > 65535 then none else some (a + sz))
      (some (if pts.length < 128 then 1 else 2))

/-! ## reader: `PackedPointNumbers` -/

/-- `count_and_count_bytes`. -/
def countAndCountBytes (bs : List Nat) : Nat × Nat :=
  match bs with
  | [] => (0, 1)
  | b0 :: rest =>
    if b0 = 0 then (0, 1)
    else if b0 ≤ 127 then (b0, 1)
    else
      match rest with
      | [] => (0, 2)             -- `read_at::<u16>(0).unwrap_or_default()`
      | b1 :: _ =>
        let count := (b0 * 256 + b1) % 32768
        (count, 2)

/-- `read_control_byte` (point runs). -/
def readPtControl : List Nat → Option (Nat × Bool × List Nat)
  | [] => none
  | c :: bs => some (c % 128 + 1, decide (c / 128 % 2 = 1), bs)

/-- the `while n_seen < n_points` loop of `total_len`; returns `n_bytes`. -/
def totalLenLoop : Nat → Nat → Nat → Nat → List Nat → Nat
  | 0, nBytes, _, _, _ => nBytes
  | fuel + 1, nBytes, nSeen, nPoints, bs =>
    if nSeen < nPoints then
      match readPtControl bs with
      | none => nBytes
      | some (count, two, bs') =>
        let runSize := (1 + if two then 1 else 0) * count
        totalLenLoop fuel (nBytes + runSize + 1) (nSeen + count) nPoints (bs'.drop runSize)
    else nBytes

/-- `total_len`. -/
def totalLen (bs : List Nat) : Nat :=
  let (n, nb) := countAndCountBytes bs
  if n = 0 then nb else totalLenLoop (n + 1) nb 0 n (bs.drop nb)

/-- `split_off_front`: the remainder `data.split_off(total_len).unwrap_or_default()`. -/
def splitRemainder (bs : List Nat) : List Nat := bs.drop (totalLen bs)

/-- `PointRunIter::next`'s value read. -/
def readPtVal : Bool → List Nat → Option (Nat × List Nat)
  | false, b :: bs => some (b, bs)
  | true, a :: b :: bs => some (a * 256 + b, bs)
  | _, _ => none

/-- `PackedPointNumbersIter::next` for `count > 0`, collected until the first `None`. -/
def ptNext : Nat → Nat → Bool → Nat → List Nat → List Nat
  | 0, _, _, _, _ => []
  | n + 1, rem, two, last, bs =>
    match (if rem = 0 then readPtControl bs else some (rem, two, bs)) with
    | none => []
    | some (rem', two', bs') =>
      match readPtVal two' bs' with
      | none => []
      | some (v, bs'') =>
        if last + v > 65535 then []      -- `checked_add(..)?`
        else (last + v) :: ptNext n (rem' - 1) two' (last + v) bs''

/-- result of `PackedPointNumbers::iter()`: `none` = count 0 = "all points" (the iterator then
counts 0, 1, 2, … 65534); `some l` = the collected point numbers. -/
def decodePoints (bs : List Nat) : Option (List Nat) :=
  let (n, nb) := countAndCountBytes bs
  if n = 0 then none else some (ptNext n 0 false 0 (bs.drop nb))

/-! ## reader: `TupleDeltaIter<GlyphDelta>` -/

/-- a `PackedPointNumbersIter`: either the "all points" counter or the remaining explicit list. -/
inductive PtIter where
  | counter (next : Nat)
  | list (l : List Nat)

def PtIter.next : PtIter → Option (Nat × PtIter)
  | .counter k => if k + 1 > 65535 then none else some (k, .counter (k + 1))
  | .list [] => none
  | .list (p :: ps) => some (p, .list ps)

def ptIterOf (bs : List Nat) : PtIter :=
  match decodePoints bs with
  | none => .counter 0
  | some l => .list l

/-- `TupleDeltaIter::next` repeated, sparse mode (`points = Some(..)`).  The inner `loop` steps
`cur` up to `next_point` one at a time; that stretch has no other effect, so it is taken in one
step here.  Emits `(position, dx, dy)`. -/
def sparseLoop : Nat → Nat → Nat → PtIter → List Int → List Int → List (Nat × Int × Int)
  | 0, _, _, _, _, _ => []
  | fuel + 1, cur, np, pts, xs, ys =>
    if cur > np then
      match pts.next with
      | none => []
      | some (p, pts') =>
        if p < cur then sparseLoop fuel (cur + 1) p pts' xs ys
        else
          match xs, ys with
          | x :: xs', y :: ys' => (p, x, y) :: sparseLoop fuel (p + 1) p pts' xs' ys'
          | _, _ => []
    else
      match xs, ys with
      | x :: xs', y :: ys' => (np, x, y) :: sparseLoop fuel (np + 1) np pts xs' ys'
      | _, _ => []

/-- dense mode (`points = None`): `position = cur`. -/
def denseZip : Nat → List Int → List Int → List (Nat × Int × Int)
  | cur, x :: xs, y :: ys => (cur, x, y) :: denseZip (cur + 1) xs ys
  | _, _, _ => []

def ptIterLen : PtIter → Nat
  | .counter _ => 0
  | .list l => l.length

/-- `TupleVariation::<GlyphDelta>::deltas()` collected, given the packed point-number bytes
`ptBytes` (shared or private) and the packed delta bytes `dBytes`.  Positions are `as u16`. -/
def tupleDeltas (ptBytes dBytes : List Nat) : List (Nat × Int × Int) :=
  let count := (countAndCountBytes ptBytes).1
  let n := if count = 0 then countAll dBytes.length dBytes else count * 2
  let xs := xDeltas dBytes n
  let ys := yDeltas dBytes n
  let it := ptIterOf ptBytes
  let out :=
    match it.next with
    | none => denseZip 0 xs ys
    | some (p, it') => sparseLoop (2 * (xs.length + ptIterLen it') + 4) 0 p it' xs ys
  out.map (fun (p, x, y) => (p % 65536, x, y))

/-! ## reader: `read_dense_deltas` / `read_sparse_deltas` (the path skrifa uses) -/

/-- read `n` values of type `ty` (`cursor.read_array::<T>(run_count)?`): `none` = out of bounds. -/
def readArray (ty : RunType) : Nat → List Nat → Option (List Int × List Nat)
  | 0, bs => some ([], bs)
  | n + 1, bs =>
    match readVal ty bs with
    | none => none
    | some (v, bs') =>
      match readArray ty n bs' with
      | none => none
      | some (vs, bs'') => some (v :: vs, bs'')

/-- `read_dense_deltas` for a target of `count` entries: the values to add per index
(zeros for zero runs), and the cursor afterwards.  `none` = `Err(OutOfBounds)`. -/
def readDense : Nat → Nat → Nat → List Nat → Option (List Int × List Nat)
  | 0, _, _, _ => none
  | fuel + 1, cur, count, bs =>
    if cur < count then
      match bs with
      | [] => none
      | c :: bs' =>
        let ty := runTypeOf c
        let rc := c % 64 + 1
        if cur + rc > count then none else
        match readArray ty rc bs' with
        | none => none
        | some (vs, bs'') =>
          match readDense fuel (cur + rc) count bs'' with
          | none => none
          | some (rest, bs3) => some (vs ++ rest, bs3)
    else some ([], bs)

end FontVerif.PackedDeltas
