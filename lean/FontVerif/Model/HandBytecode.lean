/-
C01 (hand-written code) — the TrueType bytecode decoder of read-fonts,
read-fonts/src/tables/glyf/bytecode/{decode,instruction,opcode}.rs: `Opcode::{from_byte, len, is_push,
is_push_words}`, `Decoder::{new, decode, decode_inner}`, `decode_all`, `InlineOperands::{len, is_empty, values}`.

The program counter is an EXTERNAL `usize` argument and the operand count of NPUSHB / NPUSHW is a font byte, so
every `usize` `+` / `-` of `decode_inner` (`pc + 1`, `pc + opcode_len`, `pc + 1 + count_len`,
`next_pc - inline_start`, `inline_start + inline_size`, `pc += opcode_len`), the `i32` product
`opcode_len.abs() * inline_count + 2` and the table index `OPCODE_LENGTHS[self as usize]` are representable
traps (`DRes.trap` / `none`); Props/C01HandBytecode.lean shows none is reachable, for every byte string and every
`pc`.  `Opcode` is `repr(u8)` with `from_byte` the identity on discriminants, so an opcode is its byte.
-/
import FontVerif.Model.ReadIter
import FontVerif.Model.HandRead
namespace FontVerif.HandBytecode
open FontVerif FontVerif.ReadIter

/-- `OPCODE_LENGTHS: [i8; 256]` (opcode.rs), literally -/
def OPCODE_LENGTHS : List Int :=
  [1, 1, 1, 1, 1, 1, 1, 1, 1, 1, 1, 1, 1, 1, 1, 1, 1, 1, 1, 1, 1, 1, 1, 1, 1, 1, 1, 1, 1, 1, 1, 1,
   1, 1, 1, 1, 1, 1, 1, 1, 1, 1, 1, 1, 1, 1, 1, 1, 1, 1, 1, 1, 1, 1, 1, 1, 1, 1, 1, 1, 1, 1, 1, 1,
   -1, -2, 1, 1, 1, 1, 1, 1, 1, 1, 1, 1, 1, 1, 1, 1, 1, 1, 1, 1, 1, 1, 1, 1, 1, 1, 1, 1, 1, 1, 1, 1,
   1, 1, 1, 1, 1, 1, 1, 1, 1, 1, 1, 1, 1, 1, 1, 1, 1, 1, 1, 1, 1, 1, 1, 1, 1, 1, 1, 1, 1, 1, 1, 1,
   1, 1, 1, 1, 1, 1, 1, 1, 1, 1, 1, 1, 1, 1, 1, 1, 1, 1, 1, 1, 1, 1, 1, 1, 1, 1, 1, 1, 1, 1, 1, 1,
   1, 1, 1, 1, 1, 1, 1, 1, 1, 1, 1, 1, 1, 1, 1, 1, 2, 3, 4, 5, 6, 7, 8, 9, 3, 5, 7, 9, 11, 13, 15, 17,
   1, 1, 1, 1, 1, 1, 1, 1, 1, 1, 1, 1, 1, 1, 1, 1, 1, 1, 1, 1, 1, 1, 1, 1, 1, 1, 1, 1, 1, 1, 1, 1,
   1, 1, 1, 1, 1, 1, 1, 1, 1, 1, 1, 1, 1, 1, 1, 1, 1, 1, 1, 1, 1, 1, 1, 1, 1, 1, 1, 1, 1, 1, 1, 1]

/-- `Opcode::len`: `OPCODE_LENGTHS[self as usize] as i32`; `none` = index out of bounds -/
def opLen (b : Nat) : Option Int := OPCODE_LENGTHS[b]?

/-- `Opcode::is_push_words`: `PUSHW000..=PUSHW111` or `NPUSHW` -/
def isPushWords (b : Nat) : Bool := (0xB8 ≤ b && b ≤ 0xBF) || b == 0x41

/-- `Opcode::is_push`: `PUSHB000..=PUSHW111`, `NPUSHB`, `NPUSHW` -/
def isPush (b : Nat) : Bool := (0xB0 ≤ b && b ≤ 0xBF) || b == 0x40 || b == 0x41

/-- plain `usize` `+` of the overflow-checked profile -/
def uadd (a b : Nat) : Option Nat := HandRead.checkedAdd a b
/-- plain `usize` `-` -/
def usub (a b : Nat) : Option Nat := if b ≤ a then some (a - b) else none

/-- result of `Decoder::decode` -/
inductive DRes where
  /-- `None`: `pc` is not inside the bytecode -/
  | none
  /-- `Some(Err(DecodeError))` -/
  | err
  /-- `Some(Ok(Instruction { opcode, inline_operands: bytes[start .. start + size] / is_words, pc }))` -/
  | ok (opcode pc start size : Nat) (words : Bool)
  | trap
  deriving Repr, DecidableEq

/-- `Decoder::decode_inner(opcode)` at `pc` (which the caller found inside the bytecode): the result and the new `pc`
(unchanged on `Err`) -/
def decodeInner (d : List Nat) (pc b : Nat) : DRes × Nat :=
  match opLen b with
  | none => (.trap, pc)
  | some len0 =>
    -- `if opcode_len < 0 { inline_count = bytecode.get(pc + 1)?; opcode_len = abs * count + 2; count_len = 1 }`
    let step1 : Option (Option (Int × Nat)) :=     -- none = trap, some none = Err
      if len0 < 0 then
        match uadd pc 1 with
        | none => none
        | some p1 =>
          match d[p1]? with
          | none => some none
          | some cnt =>
            let l := (if len0 < 0 then -len0 else len0) * (cnt : Int) + 2
            if l ≤ 2147483647 then some (some (l, 1)) else none
      else some (some (len0, 0))
    match step1 with
    | none => (.trap, pc)
    | some none => (.err, pc)
    | some (some (l, countLen)) =>
      let opcodeLen := l.toNat                     -- `as usize` of a non-negative i32
      match uadd pc opcodeLen, (uadd pc 1).bind (uadd · countLen) with
      | some nextPc, some inlineStart =>
        match usub nextPc inlineStart with
        | none => (.trap, pc)
        | some inlineSize =>
          if inlineSize > 0 then
            match uadd inlineStart inlineSize with
            | none => (.trap, pc)
            | some e =>
              if e ≤ d.length then (.ok b pc inlineStart inlineSize (isPushWords b), nextPc)
              else (.err, pc)
          else (.ok b pc 0 0 false, nextPc)
      | _, _ => (.trap, pc)

/-- `Decoder::decode`: `Opcode::from_byte(*bytecode.get(pc)?)`, `Some(decode_inner(opcode))` -/
def decode (d : List Nat) (pc : Nat) : DRes × Nat :=
  match d[pc]? with
  | none => (.none, pc)
  | some b => decodeInner d pc b

/-- state of the `decode_all` closure: the decoder's `pc` and `failed` -/
structure ASt where
  pc : Nat
  failed : Bool
  deriving Repr, DecidableEq

/-- one call of the `from_fn` closure of `decode_all` -/
def allStep (d : List Nat) (s : ASt) : Out DRes × ASt :=
  if s.failed then (.done, s)
  else
    match decode d s.pc with
    | (.none, _) => (.done, s)
    | (.trap, _) => (.trap, s)
    | (.err, pc') => (.yield .err, ⟨pc', true⟩)
    | (r, pc') => (.yield r, ⟨pc', false⟩)

/-- `decode_all(bytecode, pc).collect()`; fuel `len + 2` always suffices -/
def allTrace (d : List Nat) (pc : Nat) : Option (List (Out DRes)) :=
  run (allStep d) (d.length + 2) ⟨pc, false⟩

/-- `word as i16 as i32` -/
def toI16 (v : Nat) : Int := if v < 32768 then v else (v : Int) - 65536

/-- the `words.chunks_exact(2).map(|chunk| (chunk[0] << 8 | chunk[1]) as i16 as i32)` half of `values` -/
def wordValues : List Nat → List Int
  | a :: b :: rest => toI16 (a * 256 + b) :: wordValues rest
  | _ => []

/-- `InlineOperands::values().collect()` over the operand bytes -/
def operandValues (bytes : List Nat) (words : Bool) : List Int :=
  if words then wordValues bytes else bytes.map (fun (b : Nat) => (b : Int))

/-- `InlineOperands::len` -/
def operandLen (size : Nat) (words : Bool) : Nat := if words then size / 2 else size

end FontVerif.HandBytecode
