/-
The paint graph as a tree (the unfolding of the DAG along offsets / links), three ways:

* `expectTree p b fuel off`  — SPECIFICATION: walk the SOURCE table `b` from the paint at `off`; every node is
  its own fixed-size record with the ids renamed through the plan (`renameNode`: glyph ids by `glyph_map`,
  palette indices by `colr_palettes`, `firstLayerIndex` by `colrv1_layers`, `VarIdxBase` by
  `colr_varidx_delta_map`), its colour line / affine matrix renamed likewise, and the trees of its child
  paints.  With the identity plan this is simply the source tree (`srcTree`).
* `objTree packed fuel i`    — the same unfolding of the OBJECT GRAPH the subsetter model builds (object `i`
  of the serializer's packed list, children through its links).
* `outTree out fuel pos`     — the same unfolding of a laid-out COLR table (what read-fonts yields following
  the 24-bit offsets), = `srcTree` of the output.

In all three the three bytes of every child offset are masked (set to 0): offsets are layout, not content.
`none` = something below is unreadable / a lookup of the plan fails.
-/
import FontVerif.Model.SubsetColr
namespace FontVerif.SubsetColr
open FontVerif FontVerif.ColrSer
open FontVerif.SubsetHvar (Err R)

inductive Tree where
  /-- masked fixed-size record, raw bytes of the colour line / affine (`[]` = none), child paints -/
  | node (bytes : List Nat) (blob : List Nat) (kids : List Tree)
  deriving Repr, Inhabited

/-- positions of all 24-bit offset fields of a paint record -/
def offsetPositions (fmt : Nat) : List Nat :=
  kidPositions fmt ++ (match blobOf fmt with | some (pos, _) => [pos] | none => [])

/-- the record with its offset fields zeroed -/
def mask (fmt : Nat) (bytes : List Nat) : List Nat :=
  (offsetPositions fmt).foldl (fun b pos => writeBE b pos 3 0) bytes

def toOpt {α} (r : R α) : Option α :=
  match r with
  | .ok a => some a
  | .error _ => none

def consOpt (a : Option Tree) (as : Option (List Tree)) : Option (List Tree) :=
  match a, as with
  | some t, some ts => some (t :: ts)
  | _, _ => none

/-- the tree of the child paint behind the 24-bit offset at `pos` of the paint at `off` -/
def expectKid (rec : Nat → Option Tree) (b : Array Nat) (off pos : Nat) : Option Tree :=
  match resolveOff b 3 off pos with
  | none => none
  | some c => if !paintOk b c then none else rec c

/-- the expected trees of the child paints at `positions` -/
def expectKids (rec : Nat → Option Tree) (b : Array Nat) (off : Nat) : List Nat → Option (List Tree)
  | [] => some []
  | pos :: rest => consOpt (expectKid rec b off pos) (expectKids rec b off rest)

/-- the expected (renamed) colour line / affine of the paint at `off` -/
def expectBlob (p : PlanIn) (b : Array Nat) (off : Nat) (spec : Option (Nat × Blob)) : Option (List Nat) :=
  match spec with
  | none => some []
  | some (pos, kind) => (toOpt (blobObj b p off pos kind)).map (·.bytes)

def expectTree (p : PlanIn) (b : Array Nat) : Nat → Nat → Option Tree
  | 0, _ => none
  | fuel + 1, off =>
    match rd 1 b off with
    | none => none
    | some fmt =>
      match paintSize fmt with
      | none => none
      | some size =>
        match sl b off size with
        | none => none
        | some src =>
          match toOpt (renameNode p fmt src), expectKids (expectTree p b fuel) b off (kidPositions fmt),
              expectBlob p b off (blobOf fmt) with
          | some bytes, some kids, some blob => some (.node (mask fmt bytes) blob kids)
          | _, _, _ => none

/-- the target of the link at position `pos` -/
def linkAt (links : List Link) (pos : Nat) : Option Nat :=
  (links.find? (·.pos = pos)).map (·.target)

def objKids (rec : Nat → Option Tree) (links : List Link) : List Nat → Option (List Tree)
  | [] => some []
  | pos :: rest =>
    match linkAt links pos with
    | none => none
    | some t => consOpt (rec t) (objKids rec links rest)

/-- unfolding of the object graph from object `i` -/
def objTree (packed : List Obj) : Nat → Nat → Option Tree
  | 0, _ => none
  | fuel + 1, i =>
    match packed[i]? with
    | none => none
    | some o =>
      let fmt := o.bytes.getD 0 0
      match objKids (objTree packed fuel) o.links (kidPositions fmt) with
      | none => none
      | some kids =>
        match blobOf fmt with
        | none => some (.node (mask fmt o.bytes) [] kids)
        | some (pos, _) =>
          match linkAt o.links pos with
          | none => none
          | some t =>
            match packed[t]? with
            | none => none
            | some bo => some (.node (mask fmt o.bytes) bo.bytes kids)

/-- the identity plan over everything a table can mention is not finite; the source tree is defined
directly: like `expectTree` without renaming -/
def srcBlob (b : Array Nat) (off : Nat) (spec : Option (Nat × Blob)) : Option (List Nat) :=
  match spec with
  | none => some []
  | some (pos, kind) =>
    match resolveOff b 3 off pos with
    | none => none
    | some c =>
      match kind with
      | .line isVar =>
        match rd 2 b (c + 1) with
        | none => none
        | some n => sl b c (3 + n * (if isVar then 10 else 6))
      | .affine isVar => sl b c (if isVar then 28 else 24)

def srcTree (b : Array Nat) : Nat → Nat → Option Tree
  | 0, _ => none
  | fuel + 1, off =>
    match rd 1 b off with
    | none => none
    | some fmt =>
      match paintSize fmt with
      | none => none
      | some size =>
        match sl b off size with
        | none => none
        | some src =>
          match expectKids (srcTree b fuel) b off (kidPositions fmt), srcBlob b off (blobOf fmt) with
          | some kids, some blob => some (.node (mask fmt src) blob kids)
          | _, _ => none

mutual
/-- canonical rendering for the line protocol: `(bytes[blob]kids…)` -/
def Tree.render : Tree → String
  | .node bytes blob kids => "(" ++ toHex bytes ++ "[" ++ toHex blob ++ "]" ++ renderList kids ++ ")"
def renderList : List Tree → String
  | [] => ""
  | t :: ts => t.render ++ renderList ts
end

def renderOpt (t : Option Tree) : String :=
  match t with
  | some t => t.render
  | none => "none"

/-- the paint of a COLRv1 base glyph: `v1_base_glyph(gid)` = binary search in the BaseGlyphList;
returns the absolute position of the paint -/
def v1BasePaint (b : Array Nat) (gid : Nat) : Option Nat :=
  match readHeader b with
  | some { v1 := some (a, _, _, _, _), .. } =>
    if a = 0 ∨ a > b.size then none
    else match baseGlyphPaintRecords b a with
      | none => none
      | some recs =>
        match Layout.binarySearchBy recs.length (fun i => Layout.natCmp (recs[i]?.getD (0, 0)).1 gid) with
        | .ok i =>
          let o := (recs[i]?.getD (0, 0)).2
          if o = 0 ∨ a + o > b.size then none else if paintOk b (a + o) then some (a + o) else none
        | .err _ => none
  | _ => none

/-- the paint of layer `idx` of the LayerList: `v1_layer(idx)` -/
def v1LayerPaint (b : Array Nat) (idx : Nat) : Option Nat :=
  match readHeader b with
  | some { v1 := some (_, l, _, _, _), .. } =>
    if l = 0 ∨ l > b.size then none
    else match rd 4 b l with
      | none => none
      | some n =>
        if l + 4 + 4 * n > b.size ∨ idx ≥ n then none
        else match resolveOff b 4 l (4 + 4 * idx) with
          | none => none
          | some c => if paintOk b c then some c else none
  | _ => none

end FontVerif.SubsetColr
