/-
Model of the state handling around the TrueType interpreter (the interpreter itself is a parameter):
  * `skrifa/src/outline/glyf/hint/cow_slice.rs`: `CowSlice::{new, get, set, len}`;
  * `skrifa/src/outline/glyf/hint/instance.rs`: `HintInstance::{setup, reconfigure}`;
  * `skrifa/src/outline/glyf/hint/engine/dispatch.rs`: `Engine::reset` (definition maps under
    `Program::Font`), `definition.rs`: `DefinitionMap::reset`.
-/
import FontVerif.Model.Base
namespace FontVerif.HintState

/-! ## CowSlice -/

/-- `CowSlice`: `data` is the instance's array (shared, immutable), `dataMut` the per-draw copy
carved from the caller's scratch memory (arbitrary initial contents) -/
structure Cow where
  data : List Int
  dataMut : List Int
  useMut : Bool
deriving DecidableEq, Repr

/-- `CowSlice::new`: `Err(CowSliceSizeMismatchError)` if the lengths differ -/
def Cow.new (data dataMut : List Int) : Option Cow :=
  if data.length ≠ dataMut.length then none else some ⟨data, dataMut, false⟩

/-- `CowSlice::new_mut` -/
def Cow.newMut (dataMut : List Int) : Cow := ⟨[], dataMut, true⟩

/-- `CowSlice::get` -/
def Cow.get (c : Cow) (i : Nat) : Option Int := if c.useMut then c.dataMut[i]? else c.data[i]?

/-- `CowSlice::set`: the state afterwards and `Some(())` / `None`.
`copy_from_slice` needs equal lengths (guaranteed by `new`); it replaces the whole mutable buffer. -/
def Cow.set (c : Cow) (i : Nat) (v : Int) : Cow × Bool :=
  let c := if !c.useMut then { c with dataMut := c.data, useMut := true } else c
  if i < c.dataMut.length then ({ c with dataMut := c.dataMut.set i v }, true) else (c, false)

/-- `CowSlice::len` -/
def Cow.len (c : Cow) : Nat := if c.useMut then c.dataMut.length else c.data.length

/-- operations the interpreter performs on a CVT / storage slice -/
inductive CowOp
  | get (i : Nat)
  | set (i : Nat) (v : Int)
  | len
deriving DecidableEq, Repr

/-- observable result of an operation -/
inductive CowObs
  | got (v : Option Int)
  | didSet (ok : Bool)
  | length (n : Nat)
deriving DecidableEq, Repr

def Cow.step (c : Cow) : CowOp → Cow × CowObs
  | .get i => (c, .got (c.get i))
  | .set i v => let r := c.set i v; (r.1, .didSet r.2)
  | .len => (c, .length c.len)

def Cow.run : Cow → List CowOp → List CowObs
  | _, [] => []
  | c, op :: ops => let r := c.step op; r.2 :: Cow.run r.1 ops

/-- the specification: a plain private array initialised from the instance's array -/
def arrStep (a : List Int) : CowOp → List Int × CowObs
  | .get i => (a, .got a[i]?)
  | .set i v => if i < a.length then (a.set i v, .didSet true) else (a, .didSet false)
  | .len => (a, .length a.length)

def arrRun : List Int → List CowOp → List CowObs
  | _, [] => []
  | a, op :: ops => let r := arrStep a op; r.2 :: arrRun r.1 ops

/-! ## HintInstance reset -/

/-- `Definition` (`None` ≙ `Definition::default()`, inactive) -/
abbrev Defn := Option (Nat × Nat × Int × Nat)

/-- `glyf::HintInstance`; `G` = `RetainedGraphicsState` -/
structure Inst (G : Type) where
  functions : List Defn
  instructions : List Defn
  cvt : List Int
  storage : List Int
  graphics : G
  twilightScaled : List (Int × Int)
  twilightOriginalScaled : List (Int × Int)
  twilightFlags : List Nat
  axisCount : Nat
  maxStack : Nat

/-- everything `setup` / `reconfigure` read from their arguments and the font: the limits, the scaled
control values (`cvt`/`cvar`, `scale`, `coords` → `cvtScaled`), and the initial retained graphics
state `RetainedGraphicsState::new(scale, ppem, target)` -/
structure Cfg (G : Type) where
  maxFunctionDefs : Nat
  maxInstructionDefs : Nat
  cvtScaled : List Int
  maxStorage : Nat
  maxTwilightPoints : Nat
  axisCount : Nat
  maxStackElements : Nat
  graphicsDefault : G
  graphicsNew : G

/-- `Vec::resize(n, d)` -/
def resize {α : Type} (l : List α) (n : Nat) (d : α) : List α :=
  l.take n ++ List.replicate (n - l.length) d

/-- `HintInstance::setup`.  Note: `functions` and every other vector is `clear()`ed before the
`resize`; `instructions` is only `resize`d, so it keeps definitions of the previous configuration. -/
def setup {G : Type} (s : Inst G) (c : Cfg G) : Inst G :=
  { functions := resize [] c.maxFunctionDefs none
    instructions := resize s.instructions c.maxInstructionDefs none
    cvt := c.cvtScaled
    storage := resize [] c.maxStorage 0
    graphics := c.graphicsDefault
    twilightScaled := resize [] c.maxTwilightPoints (0, 0)
    twilightOriginalScaled := resize [] c.maxTwilightPoints (0, 0)
    twilightFlags := resize [] c.maxTwilightPoints 0
    axisCount := c.axisCount
    maxStack := c.maxStackElements }

/-- what `setup` (above) does to each field of `struct HintInstance`, as data: the same table is
re-extracted from instance.rs by translate/c12_src.py on every run -/
def setupActions : List (String × String) :=
  [("functions", "clear+resize"), ("instructions", "resize"), ("cvt", "clear+fill"),
   ("storage", "clear+resize"), ("graphics", "assign"), ("twilight_scaled", "clear+resize"),
   ("twilight_original_scaled", "clear+resize"), ("twilight_flags", "clear+resize"),
   ("axis_count", "assign"), ("max_stack", "assign")]

/-- every field is either overwritten without looking at its old contents, or only resized *and*
then wiped by the font-program reset -/
def resetComplete (fields : List (String × String)) (fontReset : List String) : Bool :=
  fields.all fun fa =>
    fa.2 == "clear+resize" || fa.2 == "clear+fill" || fa.2 == "assign" ||
    (fa.2 == "resize" && fontReset.contains fa.1)

/-- the mutable state `Engine::new` is handed in `reconfigure` -/
structure EngineState (G : Type) where
  functions : List Defn
  instructions : List Defn
  cvt : List Int
  storage : List Int
  graphics : G
  twilightScaled : List (Int × Int)
  twilightOriginalScaled : List (Int × Int)
  twilightFlags : List Nat
  /-- `vec![0; self.max_stack]` -/
  stack : List Int

/-- `DefinitionMap::reset` on a `Mut` map: `defs.fill(Default::default())` -/
def resetDefs (l : List Defn) : List Defn := l.map (fun _ => none)

/-- `HintInstance::reconfigure`; the interpreter runs (`fpgm`, then `prep`) are the parameter `run`, a
function of the state handed to `Engine::new` (`Engine::reset(Program::Font)` has already reset both
definition maps).  `none` ≙ `Err(HintError)`: the caller drops the instance. -/
def reconfigure {G E : Type} (run : EngineState G → Except E (EngineState G)) (s : Inst G) (c : Cfg G) :
    Except E (Inst G) :=
  let s1 := setup s c
  let es : EngineState G :=
    { functions := resetDefs s1.functions
      instructions := resetDefs s1.instructions
      cvt := s1.cvt
      storage := s1.storage
      graphics := c.graphicsNew
      twilightScaled := s1.twilightScaled
      twilightOriginalScaled := s1.twilightOriginalScaled
      twilightFlags := s1.twilightFlags
      stack := List.replicate s1.maxStack 0 }
  match run es with
  | .error e => .error e
  | .ok es' =>
    .ok { functions := es'.functions
          instructions := es'.instructions
          cvt := es'.cvt
          storage := es'.storage
          graphics := es'.graphics
          twilightScaled := es'.twilightScaled
          twilightOriginalScaled := es'.twilightOriginalScaled
          twilightFlags := es'.twilightFlags
          axisCount := s1.axisCount
          maxStack := s1.maxStack }

/-! ## the public `HintingInstance` around it (skrifa/src/outline/hint.rs) -/

/-- `HintingInstance { size, coords, target, kind }`; `kind`: `none` ≙ `HinterKind::None`, `some i` ≙
`HinterKind::Glyf(i)` (the CFF and autohinting kinds are rebuilt from scratch by `reconfigure`) -/
structure Outer (G : Type) where
  size : Int
  coords : List Int
  target : Nat
  kind : Option (Inst G)

/-- `match current_kind { HinterKind::Glyf(instance) => instance, _ => Box::default() }` -/
def Outer.inst {G : Type} (o : Outer G) (fresh : Inst G) : Inst G :=
  match o.kind with
  | some i => i
  | none => fresh

/-- `HintingInstance::reconfigure` for a `glyf` collection and `Engine::Interpreter`: the three scalar
fields are overwritten first (`coords` with the *effective* coordinates), the old kind is moved out,
its `glyf::HintInstance` (or a default one) is reconfigured; on error `kind` stays `None`. -/
def outerReconfigure {G E : Type} (run : EngineState G → Except E (EngineState G)) (fresh : Inst G)
    (o : Outer G) (size : Int) (coords : List Int) (target : Nat) (c : Cfg G) : Outer G × Option E :=
  match reconfigure run (o.inst fresh) c with
  | .error e => ({ size := size, coords := coords, target := target, kind := none }, some e)
  | .ok i => ({ size := size, coords := coords, target := target, kind := some i }, none)

/-! ## every piece of state on the reconfigure / draw path and where it is (re)initialised

The same table is re-extracted from hint.rs, hint/instance.rs, hint/engine/{mod, dispatch}.rs,
hint/{graphics, value_stack, program, cow_slice, zone}.rs by translate/c12_wbr.py on every run.
`ctor`: named in the struct literal of the constructor that runs for every draw (`Engine::new` is
called by `HintInstance::hint`, which takes `&self`); `default`: filled by `..Default::default()` there. -/
def persistModel : List (String × String × String × String) :=
  [("HintingInstance", "size", "assign", "HintingInstance::reconfigure"),
   ("HintingInstance", "coords", "clear+extend", "HintingInstance::reconfigure"),
   ("HintingInstance", "target", "assign", "HintingInstance::reconfigure"),
   ("HintingInstance", "kind", "replace-none+assign", "HintingInstance::reconfigure"),
   ("HintInstance", "functions", "clear+resize", "HintInstance::setup"),
   ("HintInstance", "instructions", "resize", "HintInstance::setup"),
   ("HintInstance", "cvt", "clear+fill", "HintInstance::setup"),
   ("HintInstance", "storage", "clear+resize", "HintInstance::setup"),
   ("HintInstance", "graphics", "assign", "HintInstance::setup"),
   ("HintInstance", "twilight_scaled", "clear+resize", "HintInstance::setup"),
   ("HintInstance", "twilight_original_scaled", "clear+resize", "HintInstance::setup"),
   ("HintInstance", "twilight_flags", "clear+resize", "HintInstance::setup"),
   ("HintInstance", "axis_count", "assign", "HintInstance::setup"),
   ("HintInstance", "max_stack", "assign", "HintInstance::setup"),
   ("Engine::reset(Font)", "definitions.functions", "reset", "Engine::reset"),
   ("Engine::reset(Font)", "definitions.instructions", "reset", "Engine::reset"),
   ("Engine", "program", "ctor", "Engine::new"),
   ("Engine", "graphics", "ctor", "Engine::new"),
   ("Engine", "definitions", "ctor", "Engine::new"),
   ("Engine", "cvt", "ctor", "Engine::new"),
   ("Engine", "storage", "ctor", "Engine::new"),
   ("Engine", "value_stack", "ctor", "Engine::new"),
   ("Engine", "loop_budget", "ctor", "Engine::new"),
   ("Engine", "axis_count", "ctor", "Engine::new"),
   ("Engine", "coords", "ctor", "Engine::new"),
   ("GraphicsState", "retained", "ctor", "Engine::new"),
   ("GraphicsState", "proj_vector", "default", "Engine::new"),
   ("GraphicsState", "proj_axis", "default", "Engine::new"),
   ("GraphicsState", "dual_proj_vector", "default", "Engine::new"),
   ("GraphicsState", "dual_proj_axis", "default", "Engine::new"),
   ("GraphicsState", "freedom_vector", "default", "Engine::new"),
   ("GraphicsState", "freedom_axis", "default", "Engine::new"),
   ("GraphicsState", "fdotp", "default", "Engine::new"),
   ("GraphicsState", "round_state", "default", "Engine::new"),
   ("GraphicsState", "rp0", "default", "Engine::new"),
   ("GraphicsState", "rp1", "default", "Engine::new"),
   ("GraphicsState", "rp2", "default", "Engine::new"),
   ("GraphicsState", "loop_counter", "default", "Engine::new"),
   ("GraphicsState", "zp0", "default", "Engine::new"),
   ("GraphicsState", "zp1", "default", "Engine::new"),
   ("GraphicsState", "zp2", "default", "Engine::new"),
   ("GraphicsState", "zones", "ctor", "Engine::new"),
   ("GraphicsState", "is_composite", "ctor", "Engine::new"),
   ("GraphicsState", "backward_compatibility", "default", "Engine::new"),
   ("GraphicsState", "is_pedantic", "default", "Engine::new"),
   ("GraphicsState", "did_iup_x", "default", "Engine::new"),
   ("GraphicsState", "did_iup_y", "default", "Engine::new"),
   ("GraphicsState::reset", "retained", "kept", "GraphicsState::reset"),
   ("GraphicsState::reset", "zones", "kept", "GraphicsState::reset"),
   ("GraphicsState::reset", "is_composite", "kept", "GraphicsState::reset"),
   ("RetainedGraphicsState", "auto_flip", "default", "RetainedGraphicsState::new"),
   ("RetainedGraphicsState", "control_value_cutin", "default", "RetainedGraphicsState::new"),
   ("RetainedGraphicsState", "delta_base", "default", "RetainedGraphicsState::new"),
   ("RetainedGraphicsState", "delta_shift", "default", "RetainedGraphicsState::new"),
   ("RetainedGraphicsState", "instruct_control", "default", "RetainedGraphicsState::new"),
   ("RetainedGraphicsState", "min_distance", "default", "RetainedGraphicsState::new"),
   ("RetainedGraphicsState", "scan_control", "default", "RetainedGraphicsState::new"),
   ("RetainedGraphicsState", "scan_type", "default", "RetainedGraphicsState::new"),
   ("RetainedGraphicsState", "single_width_cutin", "default", "RetainedGraphicsState::new"),
   ("RetainedGraphicsState", "single_width", "default", "RetainedGraphicsState::new"),
   ("RetainedGraphicsState", "target", "ctor", "RetainedGraphicsState::new"),
   ("RetainedGraphicsState", "scale", "ctor", "RetainedGraphicsState::new"),
   ("RetainedGraphicsState", "ppem", "ctor", "RetainedGraphicsState::new"),
   ("RetainedGraphicsState", "is_rotated", "default", "RetainedGraphicsState::new"),
   ("RetainedGraphicsState", "is_stretched", "default", "RetainedGraphicsState::new"),
   ("Engine::reset", "program", "reset", "Engine::reset"),
   ("Engine::reset", "graphics", "reset", "Engine::reset"),
   ("Engine::reset", "graphics.is_pedantic", "reset", "Engine::reset"),
   ("Engine::reset", "loop_budget", "reset", "Engine::reset"),
   ("Engine::reset", "value_stack", "reset", "Engine::reset"),
   ("Engine::reset(ControlValue)", "graphics.backward_compatibility", "assign", "Engine::reset"),
   ("Engine::reset(Glyph)", "graphics.backward_compatibility", "assign", "Engine::reset"),
   ("Engine::reset(Glyph)", "graphics.retained", "reset-if-instruct-control-bit-1", "Engine::reset"),
   ("ValueStack", "values", "ctor", "ValueStack::new"),
   ("ValueStack", "len", "ctor", "ValueStack::new"),
   ("ValueStack", "is_pedantic", "ctor", "ValueStack::new"),
   ("ProgramState", "bytecode", "ctor", "ProgramState::new"),
   ("ProgramState", "initial", "ctor", "ProgramState::new"),
   ("ProgramState", "current", "ctor", "ProgramState::new"),
   ("ProgramState", "decoder", "ctor", "ProgramState::new"),
   ("ProgramState", "call_stack", "ctor", "ProgramState::new"),
   ("LoopBudget", "limit", "ctor", "LoopBudget::new"),
   ("LoopBudget", "backward_jumps", "ctor", "LoopBudget::new"),
   ("LoopBudget", "loop_calls", "ctor", "LoopBudget::new"),
   ("CowSlice", "data", "ctor", "CowSlice::new"),
   ("CowSlice", "data_mut", "ctor", "CowSlice::new"),
   ("CowSlice", "use_mut", "ctor", "CowSlice::new"),
   ("Zone", "unscaled", "ctor", "Zone::new"),
   ("Zone", "original", "ctor", "Zone::new"),
   ("Zone", "points", "ctor", "Zone::new"),
   ("Zone", "flags", "ctor", "Zone::new"),
   ("Zone", "contours", "ctor", "Zone::new")]

/-- structs that live across draws (their fields must be re-derived by `reconfigure`) -/
def persistentStructs : List String := ["HintingInstance", "HintInstance"]
/-- structs constructed for every draw / every program run -/
def perDrawStructs : List String :=
  ["Engine", "GraphicsState", "RetainedGraphicsState", "ValueStack", "ProgramState", "LoopBudget", "CowSlice", "Zone"]

/-- no field survives: a persistent field is overwritten without looking at its old value (or only
resized and then wiped by the font-program reset); a per-draw field is named in the constructor or
filled from `Default`; the per-run resets are present -/
def persistComplete (t : List (String × String × String × String)) : Bool :=
  let fontReset := (t.filter (fun r => r.1 == "Engine::reset(Font)" && r.2.2.1 == "reset")).map (fun r => r.2.1)
  t.all (fun r =>
    if persistentStructs.contains r.1 then
      ["assign", "clear+extend", "replace-none+assign", "clear+resize", "clear+fill"].contains r.2.2.1 ||
      (r.2.2.1 == "resize" && fontReset.contains ("definitions." ++ r.2.1))
    else if perDrawStructs.contains r.1 then r.2.2.1 == "ctor" || r.2.2.1 == "default"
    else ["reset", "assign", "kept", "reset-if-instruct-control-bit-1"].contains r.2.2.1) &&
  -- the value stack starts empty, whatever the buffer holds
  t.contains ("ValueStack", "len", "ctor", "ValueStack::new") &&
  -- is_pedantic and backward_compatibility are set for every program run
  t.contains ("Engine::reset", "graphics.is_pedantic", "reset", "Engine::reset") &&
  t.contains ("Engine::reset(ControlValue)", "graphics.backward_compatibility", "assign", "Engine::reset") &&
  t.contains ("Engine::reset(Glyph)", "graphics.backward_compatibility", "assign", "Engine::reset")

end FontVerif.HintState
