/-
Model of the state handling around the TrueType interpreter (the interpreter itself is a parameter):
  * `skrifa/src/outline/glyf/hint/cow_slice.rs`: `CowSlice::{new, get, set, len}`;
  * `skrifa/src/outline/glyf/hint/instance.rs`: `HintInstance::{setup, reconfigure}`;
  * `skrifa/src/outline/glyf/hint/engine/dispatch.rs`: `Engine::reset` (definition maps under
    `Program::Font`), `definition.rs`: `DefinitionMap::reset`.
-/
import FontVerif.Model.Base
namespace FontVerif.HintState

/-! ## CowSlice -/

/-- `CowSlice`: `data` is the instance's array (shared, immutable), `dataMut` the per-draw copy
carved from the caller's scratch memory (arbitrary initial contents) -/
structure Cow where
  data : List Int
  dataMut : List Int
  useMut : Bool
deriving DecidableEq, Repr

/-- `CowSlice::new`: `Err(CowSliceSizeMismatchError)` if the lengths differ -/
def Cow.new (data dataMut : List Int) : Option Cow :=
  if data.length ≠ dataMut.length then none else some ⟨data, dataMut, false⟩

/-- `CowSlice::new_mut` -/
def Cow.newMut (dataMut : List Int) : Cow := ⟨[], dataMut, true⟩

/-- `CowSlice::get` -/
def Cow.get (c : Cow) (i : Nat) : Option Int := if c.useMut then c.dataMut[i]? else c.data[i]?

/-- `CowSlice::set`: the state afterwards and `Some(())` / `None`.
`copy_from_slice` needs equal lengths (guaranteed by `new`); it replaces the whole mutable buffer. -/
def Cow.set (c : Cow) (i : Nat) (v : Int) : Cow × Bool :=
  let c := if !c.useMut then { c with dataMut := c.data, useMut := true } else c
  if i < c.dataMut.length then ({ c with dataMut := c.dataMut.set i v }, true) else (c, false)

/-- `CowSlice::len` -/
def Cow.len (c : Cow) : Nat := if c.useMut then c.dataMut.length else c.data.length

/-- operations the interpreter performs on a CVT / storage slice -/
inductive CowOp
  | get (i : Nat)
  | set (i : Nat) (v : Int)
  | len
deriving DecidableEq, Repr

/-- observable result of an operation -/
inductive CowObs
  | got (v : Option Int)
  | didSet (ok : Bool)
  | length (n : Nat)
deriving DecidableEq, Repr

def Cow.step (c : Cow) : CowOp → Cow × CowObs
  | .get i => (c, .got (c.get i))
  | .set i v => let r := c.set i v; (r.1, .didSet r.2)
  | .len => (c, .length c.len)

def Cow.run : Cow → List CowOp → List CowObs
  | _, [] => []
  | c, op :: ops => let r := c.step op; r.2 :: Cow.run r.1 ops

/-- the specification: a plain private array initialised from the instance's array -/
def arrStep (a : List Int) : CowOp → List Int × CowObs
  | .get i => (a, .got a[i]?)
  | .set i v => if i < a.length then (a.set i v, .didSet true) else (a, .didSet false)
  | .len => (a, .length a.length)

def arrRun : List Int → List CowOp → List CowObs
  | _, [] => []
  | a, op :: ops => let r := arrStep a op; r.2 :: arrRun r.1 ops

/-! ## HintInstance reset -/

/-- `Definition` (`None` ≙ `Definition::default()`, inactive) -/
abbrev Defn := Option (Nat × Nat × Int × Nat)

/-- `glyf::HintInstance`; `G` = `RetainedGraphicsState` -/
structure Inst (G : Type) where
  functions : List Defn
  instructions : List Defn
  cvt : List Int
  storage : List Int
  graphics : G
  twilightScaled : List (Int × Int)
  twilightOriginalScaled : List (Int × Int)
  twilightFlags : List Nat
  axisCount : Nat
  maxStack : Nat

/-- everything `setup` / `reconfigure` read from their arguments and the font: the limits, the scaled
control values (`cvt`/`cvar`, `scale`, `coords` → `cvtScaled`), and the initial retained graphics
state `RetainedGraphicsState::new(scale, ppem, target)` -/
structure Cfg (G : Type) where
  maxFunctionDefs : Nat
  maxInstructionDefs : Nat
  cvtScaled : List Int
  maxStorage : Nat
  maxTwilightPoints : Nat
  axisCount : Nat
  maxStackElements : Nat
  graphicsDefault : G
  graphicsNew : G

/-- `Vec::resize(n, d)` -/
def resize {α : Type} (l : List α) (n : Nat) (d : α) : List α :=
  l.take n ++ List.replicate (n - l.length) d

/-- `HintInstance::setup`.  Note: `functions` and every other vector is `clear()`ed before the
`resize`; `instructions` is only `resize`d, so it keeps definitions of the previous configuration. -/
def setup {G : Type} (s : Inst G) (c : Cfg G) : Inst G :=
  { functions := resize [] c.maxFunctionDefs none
    instructions := resize s.instructions c.maxInstructionDefs none
    cvt := c.cvtScaled
    storage := resize [] c.maxStorage 0
    graphics := c.graphicsDefault
    twilightScaled := resize [] c.maxTwilightPoints (0, 0)
    twilightOriginalScaled := resize [] c.maxTwilightPoints (0, 0)
    twilightFlags := resize [] c.maxTwilightPoints 0
    axisCount := c.axisCount
    maxStack := c.maxStackElements }

/-- what `setup` (above) does to each field of `struct HintInstance`, as data: the same table is
re-extracted from instance.rs by translate/c12_src.py on every run -/
def setupActions : List (String × String) :=
  [("functions", "clear+resize"), ("instructions", "resize"), ("cvt", "clear+fill"),
   ("storage", "clear+resize"), ("graphics", "assign"), ("twilight_scaled", "clear+resize"),
   ("twilight_original_scaled", "clear+resize"), ("twilight_flags", "clear+resize"),
   ("axis_count", "assign"), ("max_stack", "assign")]

/-- every field is either overwritten without looking at its old contents, or only resized *and*
then wiped by the font-program reset -/
def resetComplete (fields : List (String × String)) (fontReset : List String) : Bool :=
  fields.all fun fa =>
    fa.2 == "clear+resize" || fa.2 == "clear+fill" || fa.2 == "assign" ||
    (fa.2 == "resize" && fontReset.contains fa.1)

/-- the mutable state `Engine::new` is handed in `reconfigure` -/
structure EngineState (G : Type) where
  functions : List Defn
  instructions : List Defn
  cvt : List Int
  storage : List Int
  graphics : G
  twilightScaled : List (Int × Int)
  twilightOriginalScaled : List (Int × Int)
  twilightFlags : List Nat
  /-- `vec![0; self.max_stack]` -/
  stack : List Int

/-- `DefinitionMap::reset` on a `Mut` map: `defs.fill(Default::default())` -/
def resetDefs (l : List Defn) : List Defn := l.map (fun _ => none)

/-- `HintInstance::reconfigure`; the interpreter runs (`fpgm`, then `prep`) are the parameter `run`, a
function of the state handed to `Engine::new` (`Engine::reset(Program::Font)` has already reset both
definition maps).  `none` ≙ `Err(HintError)`: the caller drops the instance. -/
def reconfigure {G E : Type} (run : EngineState G → Except E (EngineState G)) (s : Inst G) (c : Cfg G) :
    Except E (Inst G) :=
  let s1 := setup s c
  let es : EngineState G :=
    { functions := resetDefs s1.functions
      instructions := resetDefs s1.instructions
      cvt := s1.cvt
      storage := s1.storage
      graphics := c.graphicsNew
      twilightScaled := s1.twilightScaled
      twilightOriginalScaled := s1.twilightOriginalScaled
      twilightFlags := s1.twilightFlags
      stack := List.replicate s1.maxStack 0 }
  match run es with
  | .error e => .error e
  | .ok es' =>
    .ok { functions := es'.functions
          instructions := es'.instructions
          cvt := es'.cvt
          storage := es'.storage
          graphics := es'.graphics
          twilightScaled := es'.twilightScaled
          twilightOriginalScaled := es'.twilightOriginalScaled
          twilightFlags := es'.twilightFlags
          axisCount := s1.axisCount
          maxStack := s1.maxStack }

end FontVerif.HintState
