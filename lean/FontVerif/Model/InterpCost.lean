/-
C02 core 1c — a COST semantics for the run loop of Model/Interp.lean: how many elementary steps `Engine::run`
performs.  Nothing here changes the machine; these are ghost functions that walk the same path as `step` and count:

* 1 for the decode + dispatch of the instruction itself;
* the instructions decoded by the skip loops of `op_if` / `op_else` and by the ENDF scan of `do_def` (the same
  recursion as `scanIf` / `scanElse` / `scanDef`, returning the number of decoded instructions instead of the pc);
* the entries looked at by `DefinitionMap::allocate` (backward walk) and `DefinitionMap::get` (`find` from the back):
  at most the length of the definition table;
* for a data opcode, the growth of the ghost iteration counter `G.iters` of Model/InterpLoops.lean (loop iterations
  of the SLOOP-driven point loops, range loops, DELTA loops, MINDEX's `copy_within`, …) as seen through a projection
  `proj : D → G` of the data state.

Props/C02Run.lean bounds `runCost` for every program.
-/
import FontVerif.Model.InterpLoops
namespace FontVerif.InterpCost
open FontVerif FontVerif.Interp FontVerif.InterpLoops

/-- instructions decoded by the skip loop of `op_if` (same recursion as `scanIf`) -/
def scanIfSteps (code : Array Nat) : (fuel : Nat) → (pc : Nat) → (depth : Nat) → Nat
  | 0, _, _ => 0
  | fuel + 1, pc, depth =>
    match decode code pc with
    | .eof => 1
    | .bad => 1
    | .ins op _ _ next =>
      if op = 0x58 then 1 + scanIfSteps code fuel next (depth + 1)
      else if op = 0x1B then
        if depth = 1 then 1 else 1 + scanIfSteps code fuel next depth
      else if op = 0x59 then
        if depth - 1 = 0 then 1 else 1 + scanIfSteps code fuel next (depth - 1)
      else 1 + scanIfSteps code fuel next depth

/-- instructions decoded by the skip loop of `op_else` -/
def scanElseSteps (code : Array Nat) : (fuel : Nat) → (pc : Nat) → (depth : Nat) → Nat
  | 0, _, _ => 0
  | fuel + 1, pc, depth =>
    match decode code pc with
    | .eof => 1
    | .bad => 1
    | .ins op _ _ next =>
      if op = 0x58 then 1 + scanElseSteps code fuel next (depth + 1)
      else if op = 0x59 then
        if depth - 1 = 0 then 1 else 1 + scanElseSteps code fuel next (depth - 1)
      else 1 + scanElseSteps code fuel next depth

/-- instructions decoded by the ENDF scan of `do_def` -/
def scanDefSteps (code : Array Nat) : (fuel : Nat) → (pc : Nat) → Nat
  | 0, _ => 0
  | fuel + 1, pc =>
    match decode code pc with
    | .eof => 1
    | .bad => 1
    | .ins op _ _ next =>
      if op = 0x2C ∨ op = 0x89 then 1
      else if op = 0x2D then 1
      else 1 + scanDefSteps code fuel next

/-- steps charged to the control part of one dispatch (the state is the one handed to `dispatch`: the decoder
    already points past the instruction).  The skip loop of IF only runs when the popped value is 0. -/
def ctlCost {D} (c : Cfg D) (s : St D) (op : Nat) : Nat :=
  let code := c.code s.current
  if op = 0x58 then
    match pop c.pedantic s.vs with
    | .ok (v, _) => if v = 0 then scanIfSteps code (code.size + 1) s.pc 1 else 0
    | .error _ => 0
  else if op = 0x1B then scanElseSteps code (code.size + 1) s.pc 1
  else if op = 0x2C then s.funcs.length + scanDefSteps code (code.size + 1) s.pc
  else if op = 0x89 then s.idefs.length + scanDefSteps code (code.size + 1) s.pc
  else if op = 0x2B ∨ op = 0x2A then s.funcs.length
  else if isUnknownFor c.axisCount op then s.idefs.length
  else 0

/-- steps of ONE iteration of the `while let Some(ins) = self.decode()` loop of `Engine::run` -/
def stepCost {D} (c : Cfg D) (proj : D → G) (s : St D) : Nat :=
  match s.status with
  | .running =>
    match decode (c.code s.current) s.pc with
    | .ins op _ _ next =>
      1 + ctlCost c { s with pc := next } op + ((proj (step c s).data).iters - (proj s.data).iters)
    | _ => 1
  | _ => 0

/-- steps of `n` iterations of the run loop -/
def runCost {D} (c : Cfg D) (proj : D → G) : Nat → St D → Nat
  | 0, _ => 0
  | n + 1, s => stepCost c proj s + runCost c proj n (step c s)

/-- the longest of the three programs -/
def _root_.FontVerif.Interp.Cfg.maxCode {D} (c : Cfg D) : Nat := max c.font.size (max c.cv.size c.glyph.size)

/-- the bound on the steps of ONE run-loop iteration: decode/dispatch, skip loops (≤ code length + 1), definition
    table walks (≤ both table lengths), data-opcode loops (≤ 65536 + 4 × glyph points + twilight points + 2 × stack
    capacity: `work` of Model/InterpLoops.lean with the stack within capacity) -/
def perStep {D} (c : Cfg D) (nDefs : Nat) (g : G) : Nat :=
  1 + (c.maxCode + 1) + nDefs + (65536 + 4 * g.glyphPts + g.twiPts + 2 * g.cap)

end FontVerif.InterpCost
