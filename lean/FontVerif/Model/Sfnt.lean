/-
C06 — model of the sfnt container writer and reader.

Rust transcribed (pinned /repo):
* `write-fonts/src/font_builder.rs` : `FontBuilder::{add_raw, contains, copy_missing_tables,
  ordered_tags, build}`, `round4`, `checksum_and_padding`, `TableDirectory::from_table_records`,
  `RECOMMENDED_TABLE_ORDER_{TTF,CFF}`
* `write-fonts/src/util.rs`         : `SearchRange::compute`
* `write-fonts/generated/generated_font.rs` : `TableDirectory::write_into`, `TableRecord::write_into`
* `read-fonts/src/tables.rs`        : `compute_checksum`
* `read-fonts/generated/font.rs`    : `TableDirectory::read`, `table_records`
* `read-fonts/src/lib.rs`           : `FontRef::{new, with_table_directory, table_data}`
  (`data_for_tag` = `table_data`), using core `<[T]>::binary_search_by` (rustc 1.95 algorithm).

Representation: a byte is a `Nat` (the driver only ever produces values < 256; theorems that need
it state `WFBytes`), a `Tag` is the big-endian `u32` value of its four bytes (`Tag`'s derived `Ord`
on `[u8; 4]` is exactly the order of that number), the builder's `BTreeMap<Tag, Cow<[u8]>>` is an
association list kept strictly ascending by tag.  `u32` arithmetic of the strict (overflow-checked)
build profile: an overflowing `+=` is a trap (`none`); `as u32` truncates.
-/
import FontVerif.Model.Base
namespace FontVerif.Sfnt

/-- a tag is the big-endian `u32` value of its four bytes; written `Nat` throughout so that `omega` sees it -/
abbrev TagT := Nat
abbrev Bytes := List Nat
/-- `BTreeMap<Tag, Cow<[u8]>>`: association list, strictly ascending by tag. -/
abbrev Tables := List (Nat × Bytes)

def U32 : Nat := 4294967296

def TAG_head : Nat := 0x68656164
def TAG_DSIG : Nat := 0x44534947
def TAG_CFF : Nat := 0x43464620

/-- `RECOMMENDED_TABLE_ORDER_TTF`: head hhea maxp OS/2 hmtx LTSH VDMX hdmx cmap fpgm prep 'cvt '
loca glyf kern name post gasp PCLT -/
def ORDER_TTF : List Nat :=
  [0x68656164, 0x68686561, 0x6d617870, 0x4f532f32, 0x686d7478, 0x4c545348, 0x56444d58,
   0x68646d78, 0x636d6170, 0x6670676d, 0x70726570, 0x63767420, 0x6c6f6361, 0x676c7966,
   0x6b65726e, 0x6e616d65, 0x706f7374, 0x67617370, 0x50434c54]

/-- `RECOMMENDED_TABLE_ORDER_CFF`: head hhea maxp OS/2 name cmap post 'CFF ' -/
def ORDER_CFF : List Nat :=
  [0x68656164, 0x68686561, 0x6d617870, 0x4f532f32, 0x6e616d65, 0x636d6170, 0x706f7374,
   0x43464620]

/-! ## big-endian scalars -/

def be32 (a b c d : Nat) : Nat := a * 16777216 + b * 65536 + c * 256 + d

/-- `u32::to_be_bytes` -/
def be4 (v : Nat) : Bytes := [v / 16777216 % 256, v / 65536 % 256, v / 256 % 256, v % 256]

/-- `u16::to_be_bytes` -/
def be2 (v : Nat) : Bytes := [v / 256 % 256, v % 256]

/-! ## `compute_checksum` (read-fonts/src/tables.rs) -/

/-- the loop of `compute_checksum`: `sum` is the running `u32`, every `+` is `wrapping_add`;
a trailing 1–3 byte remainder is zero-extended to a big-endian word. -/
def checksumAux : Nat → Bytes → Nat
  | s, a :: b :: c :: d :: rest => checksumAux ((s + be32 a b c d) % 4294967296) rest
  | s, [a, b, c] => (s + be32 a b c 0) % 4294967296
  | s, [a, b] => (s + be32 a b 0 0) % 4294967296
  | s, [a] => (s + be32 a 0 0 0) % 4294967296
  | s, [] => (s + 0) % 4294967296

def checksum (bs : Bytes) : Nat := checksumAux 0 bs

/-! ## the builder's table map -/

/-- `BTreeMap::insert` (replaces the value of an existing key). -/
def insert (t : Nat) (d : Bytes) : Tables → Tables
  | [] => [(t, d)]
  | (t', d') :: rest =>
    if t < t' then (t, d) :: (t', d') :: rest
    else if t = t' then (t, d) :: rest
    else (t', d') :: insert t d rest

/-- `BTreeMap::get` -/
def lookup : Tables → Nat → Option Bytes
  | [], _ => none
  | (t', d') :: rest, t => if t' = t then some d' else lookup rest t

/-- `FontBuilder::contains` -/
def contains (m : Tables) (t : Nat) : Bool := (lookup m t).isSome

/-- `FontBuilder::add_raw` -/
def addRaw (m : Tables) (t : Nat) (d : Bytes) : Tables := insert t d m

/-! ## `ordered_tags` -/

def position (xs : List Nat) (t : Nat) : Option Nat :=
  match xs with
  | [] => none
  | x :: rest => if x = t then some 0 else (position rest t).map (· + 1)

/-- the sort key of `ordered_tags`: `(group, index in the recommended order, tag)` -/
def sortKey (recommended : List Nat) (t : Nat) : Nat × Nat × Nat :=
  if t = TAG_DSIG then (2, 0, t)
  else match position recommended t with
    | some idx => (0, idx, t)
    | none => (1, 0, t)

/-- lexicographic `≤` on the key triples (the derived `Ord` of a Rust tuple) -/
def keyLe (a b : Nat × Nat × Nat) : Bool :=
  a.1 < b.1 || (a.1 == b.1 && (a.2.1 < b.2.1 || (a.2.1 == b.2.1 && a.2.2 ≤ b.2.2)))

def recommendedOrder (m : Tables) : List Nat :=
  if contains m TAG_CFF then ORDER_CFF else ORDER_TTF

/-- The map's entries in `ordered_tags()` order.  (The Rust sorts the key vector with
`sort_unstable_by_key` and then fetches each value with `get(tag).unwrap()`; keys are distinct and
the sort key contains the tag, so the result is the unique key-ascending arrangement, whichever
sorting algorithm is used.) -/
def orderedEntries (m : Tables) : Tables :=
  let r := recommendedOrder m
  m.mergeSort (fun a b => keyLe (sortKey r a.1) (sortKey r b.1))

/-- `FontBuilder::ordered_tags` -/
def orderedTags (m : Tables) : List Nat := (orderedEntries m).map Prod.fst

/-! ## `SearchRange::compute` -/

/-- `SearchRange::compute(n_items, item_size)`;
`(n as f64).log2().floor() as usize` is `⌊log₂ n⌋` (and `0` for `n = 0`: `-inf as usize`),
`range_shift = (n_items * item_size).saturating_sub(search_range)` uses the UNCLAMPED
`search_range`; then each of the three `usize` values is stored with
`try_into::<u16>().unwrap_or(u16::MAX)`: a value that does not fit saturates to 65535
(nothing traps). -/
def searchRange (n itemSize : Nat) : Nat × Nat × Nat :=
  let entrySelector := Nat.log2 n
  let searchRange := 2 ^ entrySelector * itemSize
  let rangeShift := n * itemSize - searchRange        -- `saturating_sub` = `Nat` subtraction
  (if searchRange < 65536 then searchRange else 65535,
   if entrySelector < 65536 then entrySelector else 65535,
   if rangeShift < 65536 then rangeShift else 65535)

/-! ## `build` -/

structure Rec where
  tag : Nat
  checksum : Nat
  offset : Nat
  length : Nat
deriving Repr, DecidableEq

/-- `round4` : `(sz + 3) & !3` -/
def round4 (n : Nat) : Nat := (n + 3) / 4 * 4

def zeros (n : Nat) : Bytes := List.replicate n 0

/-- first loop of `build`: `head[8..12] = 0` when the head table has at least 12 bytes -/
def zeroAdj (t : Nat) (d : Bytes) : Bytes :=
  if t = TAG_head ∧ 12 ≤ d.length then d.take 8 ++ [0, 0, 0, 0] ++ d.drop 12 else d

/-- second loop of `build`: `table[..8] ++ adjustment.to_be_bytes() ++ table[12..]` for head -/
def withAdj (adj : Nat) (t : Nat) (d : Bytes) : Bytes :=
  if t = TAG_head ∧ 12 ≤ d.length then d.take 8 ++ be4 adj ++ d.drop 12 else d

/-- first loop of `build` over the (already zero-adjusted) tables in `ordered_tags` order, starting
at `position`; `none` = overflow trap of `position += …` in the strict profile. -/
def layout : Tables → Nat → Option (List Rec)
  | [], _ => some []
  | (t, d) :: rest, pos =>
    let length := d.length % 4294967296            -- `data.len() as u32`
    if 4294967296 ≤ pos + length then none else    -- `position += length`
    let padding := (round4 d.length - d.length) % 4294967296
    if 4294967296 ≤ pos + length + padding then none else   -- `position += padding`
    match layout rest (pos + length + padding) with
    | none => none
    | some rs => some ({ tag := t, checksum := checksum d, offset := pos, length := length } :: rs)

/-- `TableRecord::write_into` -/
def recBytes (r : Rec) : Bytes := be4 r.tag ++ be4 r.checksum ++ be4 r.offset ++ be4 r.length

/-- `TableDirectory::write_into` (sfnt version is always `TT_SFNT_VERSION`) -/
def dirBytes (sr es rs : Nat) (recs : List Rec) : Bytes :=
  be4 0x00010000 ++ be2 recs.length ++ be2 sr ++ be2 es ++ be2 rs ++ recs.flatMap recBytes

/-- padded table bodies in `ordered_tags` order (second loop of `build`) -/
def bodyBytes (adj : Nat) (es : Tables) : Bytes :=
  es.flatMap (fun e => withAdj adj e.1 e.2 ++ zeros (round4 e.2.length - e.2.length))

/-- `checksums.into_iter().fold(0u32, u32::wrapping_add)` -/
def wrappingSum (xs : List Nat) : Nat := xs.foldl (fun a c => (a + c) % 4294967296) 0

/-- `FontBuilder::build`; `none` = panic: u32 position overflow (strict profile), or more than
65535 records (`assert!(table_records.len() <= u16::MAX as usize)` in
`TableDirectory::from_table_records`: `numTables` is a `u16`).  `SearchRange::compute` itself never
panics (its fields saturate). -/
def build (m : Tables) : Option Bytes :=
  let n := m.length
  let headerLen := 4 + 2 * 4 + n * 16
  let es0 := (orderedEntries m).map (fun e => (e.1, zeroAdj e.1 e.2))
  match layout es0 (headerLen % 4294967296) with
  | none => none
  | some recs =>
    let sorted := recs.mergeSort (fun a b => decide (a.tag ≤ b.tag))
    if 65535 < n then none else                       -- assert!(len <= u16::MAX)
    let sr := searchRange n 16
    let dir := dirBytes sr.1 sr.2.1 sr.2.2 sorted
    let total := wrappingSum (recs.map (·.checksum) ++ [checksum dir])
    let adj := (0xB1B0AFBA + 4294967296 - total) % 4294967296   -- wrapping_sub
    some (dir ++ bodyBytes adj es0)

/-! ## the reader: `FontRef::new`, `table_records`, `table_data` -/

inductive OpenErr where
  | outOfBounds
  | invalidSfnt
deriving Repr, DecidableEq

/-- big-endian word at the front of a byte list (`0` if too short; callers bounds-check first) -/
def rd32 : Bytes → Nat
  | a :: b :: c :: d :: _ => be32 a b c d
  | _ => 0

def rd16 : Bytes → Nat
  | a :: b :: _ => a * 256 + b
  | _ => 0

/-- an opened font: the data and `num_tables` of its directory (`TableRef` shape) -/
structure Font where
  data : Bytes
  numTables : Nat
deriving Repr, DecidableEq

/-- `FontRef::new` = `TableDirectory::read` then the sfnt-version check of
`with_table_directory` (accepted: 0x00010000, 'OTTO', 'true'). -/
def openFont (data : Bytes) : Except OpenErr Font :=
  if data.length < 6 then .error .outOfBounds else        -- `cursor.read::<u16>()` at 4
  let n := rd16 (data.drop 4)
  if data.length < 12 + n * 16 then .error .outOfBounds else   -- `cursor.finish`
  let v := rd32 data
  if v = 0x00010000 ∨ v = 0x4F54544F ∨ v = 0x74727565 then .ok { data := data, numTables := n }
  else .error .invalidSfnt

def parseRecs : Nat → Bytes → List Rec
  | 0, _ => []
  | n + 1, bs =>
    { tag := rd32 bs, checksum := rd32 (bs.drop 4), offset := rd32 (bs.drop 8),
      length := rd32 (bs.drop 12) } :: parseRecs n (bs.drop 16)

/-- `table_directory.table_records()` -/
def records (f : Font) : List Rec := parseRecs f.numTables (f.data.drop 12)

/-- the `while size > 1` loop of core `binary_search_by`, `f(rec) = rec.tag.cmp(&tag)`;
`fuel` only makes the recursion structural (`size` at least loses one per round). -/
def bsLoop (tags : List Nat) (tag : Nat) : Nat → Nat → Nat → Nat
  | 0, _, base => base
  | fuel + 1, size, base =>
    if 1 < size then
      let half := size / 2
      let mid := base + half
      bsLoop tags tag fuel (size - half) (if tag < tags.getD mid 0 then base else mid)
    else base

/-- `records.binary_search_by(|rec| rec.tag.cmp(&tag)).ok()` -/
def binarySearch (tags : List Nat) (tag : Nat) : Option Nat :=
  if tags.length = 0 then none else
  let base := bsLoop tags tag tags.length tags.length 0
  if tags.getD base 0 = tag then some base else none

/-- `FontRef::table_data` given the already parsed records -/
def tableDataIn (recs : List Rec) (data : Bytes) (tag : Nat) : Option Bytes :=
  match binarySearch (recs.map (·.tag)) tag with
  | none => none
  | some idx =>
    match recs[idx]? with
    | none => none
    | some r =>
      if r.offset = 0 then none else                       -- `Offset32::non_null`
      if r.offset + r.length ≤ data.length then            -- `data.slice(start..start + len)`
        some ((data.drop r.offset).take r.length)
      else none

/-- `FontRef::table_data` / `TableProvider::data_for_tag` -/
def tableData (f : Font) (tag : Nat) : Option Bytes := tableDataIn (records f) f.data tag

/-- `FontBuilder::copy_missing_tables` -/
def copyMissing (f : Font) (m : Tables) : Tables :=
  let recs := records f
  recs.foldl (fun m r =>
    if contains m r.tag then m
    else match tableDataIn recs f.data r.tag with
      | some d => insert r.tag d m
      | none => m) m

/-! ## builder histories (what the harness replays) -/

inductive Op where
  | add (t : Nat) (d : Bytes)
  /-- `FontRef::new(bytes)` then `copy_missing_tables`; skipped when the bytes do not open -/
  | copy (src : Bytes)

def applyOp (m : Tables) : Op → Tables
  | .add t d => addRaw m t d
  | .copy src => match openFont src with
    | .ok f => copyMissing f m
    | .error _ => m

def runOps (ops : List Op) : Tables := ops.foldl applyOp []

def WFBytes (bs : Bytes) : Prop := ∀ b ∈ bs, b < 256

end FontVerif.Sfnt
