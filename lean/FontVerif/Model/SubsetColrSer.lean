/-
The klippa `Serializer` as far as the COLR / CPAL subsetters use it
(`klippa/src/serialize.rs`, `klippa/src/offset.rs`, `klippa/src/offset_array.rs`):

* `push` / `embed*` / `allocate_size` / `copy_assign` build the bytes of the current object;
* `Offset24/Offset32::serialize_subset` = `push`, build the child, `pop_pack(true)`, `add_link` with
  `OffsetWhence::Head`, bias 0 in the parent (3- or 4-byte wide);
* `pop_pack(true)`: a zero-length object yields `None`; an object equal (bytes at the time of packing
  — including whatever stale bytes sit in its offset fields — and real links) to an already packed
  one is dropped and the existing index returned; otherwise it is appended to `packed`;
* `end_serialize`: `pop_pack(false)` of the root (when something was packed), `resolve_links`
  (offset = child.head - parent.head; more than the field can hold ⇒ OFFSET_OVERFLOW, the table is then
  omitted by `lib.rs subset`);
* `copy_bytes`: the root object followed by the packed objects, LAST packed first.

Children are always packed before their parents, so every link of the object with index `k` targets an
index `< k`, and the distance `child.head - parent.head` is the total size of the objects with an index
in `(target, k]`: it does not depend on anything packed later (`relOff`).  The root object behaves like
an object with index `packed.length` whose own size does not count.

Not modelled: the buffer size and the out-of-room retry loop of `lib.rs try_subset` (it restarts the
same deterministic computation with a larger buffer), virtual links (unused here).
-/
import FontVerif.Model.Base
import FontVerif.Model.SubsetHvar
namespace FontVerif.ColrSer
open FontVerif

open FontVerif.SubsetHvar (Err R)

/-- a real link: position in the object, width in bytes (3 or 4), index of the target object -/
structure Link where
  pos : Nat
  width : Nat
  target : Nat
  deriving Repr, DecidableEq

structure Obj where
  bytes : List Nat
  links : List Link
  deriving Repr, DecidableEq

def Obj.size (o : Obj) : Nat := o.bytes.length

/-- `pop_pack(true)`: `none` for a zero-length object (nothing packed) -/
def popPack (packed : List Obj) (o : Obj) : List Obj × Option Nat :=
  if o.bytes.isEmpty then (packed, none)
  else
    match packed.findIdx? (· == o) with
    | some i => (packed, some i)
    | none => (packed ++ [o], some packed.length)

/-- overwrite `w` bytes at `pos` with the big-endian value `v` (`copy_assign`, `assign_offset`) -/
def writeBE (b : List Nat) (pos w v : Nat) : List Nat :=
  b.take pos ++ beBytes w v ++ b.drop (pos + w)

/-- total size of the objects with an index in `(target, k]`: `child.head - parent.head` for the packed
object `k` -/
def relOff (packed : List Obj) (k target : Nat) : Nat :=
  (((packed.take (k + 1)).drop (target + 1)).map Obj.size).sum

/-- a packed object with its links resolved -/
def patchObj (packed : List Obj) (k : Nat) (o : Obj) : List Nat :=
  o.links.foldl (fun b l => writeBE b l.pos l.width (relOff packed k l.target)) o.bytes

/-- the packed objects `k-1, …, 0` in output order -/
def bodyUpTo (packed : List Obj) : Nat → List Nat
  | 0 => []
  | k + 1 => patchObj packed k (packed.getD k ⟨[], []⟩) ++ bodyUpTo packed k

/-- offset from the root's head to the packed object `t` -/
def rootOff (rootLen : Nat) (packed : List Obj) (t : Nat) : Nat :=
  rootLen + ((packed.drop (t + 1)).map Obj.size).sum

def patchRoot (packed : List Obj) (root : Obj) : List Nat :=
  root.links.foldl (fun b l => writeBE b l.pos l.width (rootOff root.bytes.length packed l.target)) root.bytes

/-- does some resolved offset exceed its field? -/
def linkOverflow (packed : List Obj) (root : Obj) : Bool :=
  root.links.any (fun l => rootOff root.bytes.length packed l.target ≥ 256 ^ l.width) ||
  packed.zipIdx.any (fun (o, k) => o.links.any (fun l => relOff packed k l.target ≥ 256 ^ l.width))

/-- `end_serialize` + `copy_bytes` -/
def layout (packed : List Obj) (root : Obj) : R (List Nat) :=
  if linkOverflow packed root then throw Err.dropped
  else pure (patchRoot packed root ++ bodyUpTo packed packed.length)

/-! ## byte readers (read-fonts `FontData::read_at`, `None` = out of bounds) -/

def rdN (w : Nat) (b : List Nat) (p : Nat) : Option Nat :=
  if p + w ≤ b.length then some (beValue ((b.drop p).take w)) else none

def rd8 := rdN 1
def rd16 := rdN 2
def rd24 := rdN 3
def rd32 := rdN 4

/-- `data.get(p .. p + n)` -/
def slice (b : List Nat) (p n : Nat) : Option (List Nat) :=
  if p + n ≤ b.length then some ((b.drop p).take n) else none

end FontVerif.ColrSer
