/-
Model of COLR paint-graph traversal (property C13).

Transcribes, from /repo (skrifa):
* `skrifa/src/decycler.rs`            `Decycler::enter` / guard drop          ⇒ `enter`
* `skrifa/src/color/traversal.rs`     `CollectFillGlyphPainter` (all methods) ⇒ `optPrim`, `optCalls`, `sendL`
                                      `traverse_with_callbacks` (every arm)   ⇒ `trav`
                                      `traverse_v0_range`                     ⇒ `travV0`
* `skrifa/src/color/mod.rs`           default `ColorPainter::fill_glyph`      ⇒ `expandFillGlyph`
                                      default `paint_cached_color_glyph`      ⇒ `askCached` (optimizer case)
                                      `ColorGlyph::paint` (v1 and v0 roots)   ⇒ `paintV1`, `paintV0`

What is abstracted (and supplied per input by the correspondence harness, which extracts it from the
font bytes with read-fonts accessors only):
* a `ColrInstance` is the four partial lookup functions the traversal uses:
  `resolve`  = `resolve_paint` on the paint at an absolute table position (`none` = `Err(ReadError)`),
  `layer`    = `Colr::v1_layer`      (`none` = `Err`), result = paint id (absolute position),
  `base`     = `Colr::v1_base_glyph` (`err` / `notFound` = `Ok(None)` / `found id`),
  `hasClip`  = `get_clipbox_font_units(..).is_some()`;
* solid / gradient arms are the single node `leaf brush?`: `none` when the arm does not reach its (only)
  `painter.fill(..)` call, else the brush it passes, as an opaque integer description (`Brush`; the
  byte-level instance of Model/PaintBytes.lean computes it from the table bytes);
* the five transform arms are one node (`Transform::try_from` cannot fail on them) carrying a `tag`
  that identifies the transform paint; a pushed transform is a word (product) of such tags, so that the
  accumulation `*existing_transform *= transform` of `CollectFillGlyphPainter` is visible;
* payloads of callbacks: glyph ids, composite modes, clip box values (`[x_min, y_min, x_max, y_max]`),
  brushes, transform words.

The client (`&mut impl ColorPainter` passed to `ColorGlyph::paint`) is a `Client`: does it override
`fill_glyph` (otherwise the trait default is expanded into the primitive callbacks), and what does
`paint_cached_color_glyph` answer for each glyph id.  `pop_layer_with_mode` is observed with its mode.
-/
import FontVerif.Model.Base
namespace FontVerif.Paint

abbrev PaintId := Nat
abbrev Gid := Nat
/-- what `painter.fill(brush)` receives, as integers (opaque to the traversal) -/
abbrev Brush := List Int
/-- `BoundingBox<f32>` of `push_clip_box`: `[x_min, y_min, x_max, y_max]` -/
abbrev ClipBoxV := List Int
/-- a `Transform` as the product of the transform paints (their tags) it was accumulated from -/
abbrev TWord := List Nat

/-- `ResolvedPaint` reduced to its traversal-relevant shape. -/
inductive Node where
  | colrLayers (first num : Nat)
  | leaf (brush : Option Brush)
  | glyph (gid : Gid) (child : PaintId)
  | colrGlyph (gid : Gid)
  | transform (tag : Nat) (child : PaintId)
  | composite (src : PaintId) (mode : Nat) (backdrop : PaintId)
  deriving DecidableEq, Repr, Inhabited

/-- result of `Colr::v1_base_glyph` -/
inductive BaseGlyph where
  | err
  | notFound
  | found (pid : PaintId)
  deriving DecidableEq, Repr, Inhabited

structure Instance where
  resolve : PaintId → Option Node
  layer : Nat → Option PaintId
  base : Gid → BaseGlyph
  /-- `get_clipbox_font_units(instance, gid)` -/
  clip : Gid → Option ClipBoxV

/-- `ColorPainter` callbacks as received by the client (root painter). -/
inductive Event where
  | pushT (w : TWord)
  | popT
  | pushClipGlyph (g : Gid)
  | pushClipBox (b : ClipBoxV)
  | popClip
  | pushLayer (m : Nat)
  | popLayer (m : Nat)
  | fill (b : Brush)
  | fillGlyph (g : Gid) (bt : Option TWord) (b : Brush)
  | cached (g : Gid)
  deriving DecidableEq, Repr, Inhabited

/-- `PaintError` classes (`client` = an `Err` returned by the client's `paint_cached_color_glyph`). -/
inductive PErr where
  | parse
  | glyphNotFound
  | cycle
  | depth
  | client
  deriving DecidableEq, Repr, Inhabited

/-! ## decycler.rs -/

/-- `MAX_TRAVERSAL_DEPTH` (traversal.rs), also the const parameter `D` of `PaintDecycler`. -/
def MAX_TRAVERSAL_DEPTH : Nat := 64

/-- `Decycler::enter`.  The decycler state is `node_ids[0..depth]`, i.e. the list of ids entered on
the current path (entries at index ≥ depth are never read).  Dropping the guard restores the
previous list, which in this functional model is simply the caller's value. -/
def enter (path : List PaintId) (id : PaintId) : Except PErr (List PaintId) :=
  if path.length < MAX_TRAVERSAL_DEPTH then
    if path.length = 0 ∨ path.getD (path.length / 2) 0 ≠ id then
      .ok (path ++ [id])
    else
      .error .cycle
  else
    .error .depth

/-! ## painters -/

inductive CachedAns where
  | ok
  | unimplemented
  | err
  deriving DecidableEq, Repr, Inhabited

structure Client where
  overridesFillGlyph : Bool
  cached : Gid → CachedAns

/-- state of one `CollectFillGlyphPainter` -/
structure Opt where
  success : Bool
  /-- `brush_transform` -/
  bt : Option TWord
  gid : Gid
  deriving DecidableEq, Repr, Inhabited

/-- default `ColorPainter::fill_glyph`: the primitive calls it makes on `self`. -/
def expandFillGlyph (g : Gid) (bt : Option TWord) (b : Brush) : List Event :=
  [.pushClipGlyph g] ++ (match bt with
    | some w => [.pushT w, .fill b, .popT]
    | none => [.fill b]) ++ [.popClip]

/-- One primitive callback on a `CollectFillGlyphPainter`; returns the new state and the calls it
makes on its parent painter (`fill` ⇒ `parent.fill_glyph(..)` while still successful). -/
def optPrim (o : Opt) : Event → Opt × List Event
  | .pushT w => (if o.success then { o with bt := some (match o.bt with
      | none => w
      | some e => e ++ w) } else o, [])
  | .popT => (o, [])
  | .fill b => (o, if o.success then [.fillGlyph o.gid o.bt b] else [])
  | .pushClipGlyph _ => ({ o with success := false }, [])
  | .pushClipBox _ => ({ o with success := false }, [])
  | .popClip => ({ o with success := false }, [])
  | .pushLayer _ => ({ o with success := false }, [])
  | .popLayer _ => ({ o with success := false }, [])
  | .fillGlyph _ _ _ => (o, [])   -- not primitive; handled by `optCalls`
  | .cached _ => (o, [])        -- default `paint_cached_color_glyph`: no state change

def optPrims (o : Opt) : List Event → Opt × List Event
  | [] => (o, [])
  | e :: es =>
    let r1 := optPrim o e
    let r2 := optPrims r1.1 es
    (r2.1, r1.2 ++ r2.2)

/-- A sequence of calls on a `CollectFillGlyphPainter` (it does not override `fill_glyph`, so that
call is the trait default run on itself). -/
def optCalls (o : Opt) : List Event → Opt × List Event
  | [] => (o, [])
  | e :: es =>
    let r1 := match e with
      | .fillGlyph g bt b => optPrims o (expandFillGlyph g bt b)
      | e => optPrim o e
    let r2 := optCalls r1.1 es
    (r2.1, r1.2 ++ r2.2)

/-- what the client records for one call -/
def rootRecord (c : Client) : Event → List Event
  | .fillGlyph g bt b => if c.overridesFillGlyph then [.fillGlyph g bt b] else expandFillGlyph g bt b
  | e => [e]

/-- Deliver calls to the painter on top of a stack of nested `CollectFillGlyphPainter`s (top first)
sitting on the client.  Returns the new stack and what the client records. -/
def sendL (c : Client) : List Opt → List Event → List Opt × List Event
  | [], evs => ([], evs.flatMap (rootRecord c))
  | o :: rest, evs =>
    let r1 := optCalls o evs
    let r2 := sendL c rest r1.2
    (r1.1 :: r2.1, r2.2)

structure St where
  opts : List Opt
  evs : List Event
  visits : Nat
  deriving Repr, Inhabited

def emit (c : Client) (ev : Event) (st : St) : St :=
  let r := sendL c st.opts [ev]
  { st with opts := r.1, evs := st.evs ++ r.2 }

/-- `painter.paint_cached_color_glyph(g)`: only the client can answer anything but `Unimplemented`. -/
def askCached (c : Client) (g : Gid) (st : St) : CachedAns × St :=
  match st.opts with
  | [] => (c.cached g, { st with evs := st.evs ++ [.cached g] })
  | _ :: _ => (.unimplemented, st)

/-- `if let Some(rect) = clipbox { painter.push_clip_box(rect) }` -/
def pushClip (c : Client) (box : Option ClipBoxV) (st : St) : St :=
  match box with
  | some b => emit c (.pushClipBox b) st
  | none => st

/-- `if clipbox.is_some() { painter.pop_clip() }` -/
def popClipIf (c : Client) (box : Option ClipBoxV) (st : St) : St :=
  match box with
  | some _ => emit c .popClip st
  | none => st

/-! ## traversal.rs -/

abbrev Res := Option PErr × St

def forLayers (body : Nat → St → Res) : List Nat → St → Res
  | [], st => (none, st)
  | i :: is, st =>
    match body i st with
    | (some e, st') => (some e, st')
    | (none, st') => forLayers body is st'

/-- `CompositeMode::SrcOver as u8` -/
def SRC_OVER : Nat := 3

/-- count one visited paint node -/
def bump (st : St) : St := { st with visits := st.visits + 1 }

/-- The body of `traverse_with_callbacks` after the depth check: the `match paint { … }`, with the
recursive call `traverse_with_callbacks(.., recurse_depth + 1)` abstracted as `rec`.
`painter` = top of `st.opts` over the client, `dec` = the decycler's current path. -/
def arm (inst : Instance) (c : Client) (rec : Node → List PaintId → St → Res)
    (node : Node) (dec : List PaintId) (st : St) : Res :=
  match node with
  | .colrLayers first num =>
    forLayers (fun i st =>
      match inst.layer i with
      | none => (some .parse, st)
      | some pid =>
        match enter dec pid with
        | .error e => (some e, st)
        | .ok dec' =>
          match inst.resolve pid with
          | none => (some .parse, st)
          | some n => rec n dec' st) (List.range' first num) st
  | .leaf brush => (none, match brush with
    | some b => emit c (.fill b) st
    | none => st)
  | .glyph g child =>
    match inst.resolve child with
    | none => (some .parse, st)
    | some n =>
      let r1 := rec n dec { st with opts := { success := true, bt := none, gid := g } :: st.opts }
      match r1.2.opts with
      | [] => r1   -- unreachable: the stack height is preserved
      | o :: rest =>
        let st3 : St := { r1.2 with opts := rest }
        if o.success then (r1.1, st3)
        else
          let r2 := rec n dec (emit c (.pushClipGlyph g) st3)
          (r2.1, emit c .popClip r2.2)
  | .colrGlyph g =>
    match inst.base g with
    | .err => (some .parse, st)
    | .notFound => (some .glyphNotFound, st)
    | .found pid =>
      match enter dec pid with
      | .error e => (some e, st)
      | .ok dec' =>
        let a := askCached c g st
        match a.1 with
        | .err => (some .client, a.2)
        | .ok => (none, a.2)
        | .unimplemented =>
          let st2 := pushClip c (inst.clip g) a.2
          match inst.resolve pid with
          | none => (some .parse, st2)
          | some n =>
            let r := rec n dec' st2
            (r.1, popClipIf c (inst.clip g) r.2)
  | .transform tag child =>
    let st1 := emit c (.pushT [tag]) st
    match inst.resolve child with
    | none => (some .parse, st1)
    | some n =>
      let r := rec n dec st1
      (r.1, emit c .popT r.2)
  | .composite src mode backdrop =>
    let st1 := emit c (.pushLayer SRC_OVER) st
    match inst.resolve backdrop with
    | none => (some .parse, st1)
    | some nb =>
      let r1 := rec nb dec st1
      match r1.1 with
      | some e => (some e, r1.2)
      | none =>
        let st2 := emit c (.pushLayer mode) r1.2
        match inst.resolve src with
        | none => (some .parse, st2)
        | some ns =>
          let r2 := rec ns dec st2
          (r2.1, emit c (.popLayer SRC_OVER) (emit c (.popLayer mode) r2.2))

/-- `traverse_with_callbacks(paint, instance, painter, decycler, _, recurse_depth)` where
`fuel = MAX_TRAVERSAL_DEPTH - recurse_depth` (so `recurse_depth >= MAX_TRAVERSAL_DEPTH ⇔ fuel = 0`). -/
def trav (inst : Instance) (c : Client) : Nat → Node → List PaintId → St → Res
  | 0, _, _, st => (some .depth, st)
  | f + 1, node, dec, st => arm inst c (trav inst c f) node dec (bump st)

def St.init : St := { opts := [], evs := [], visits := 0 }

/-- `ColorGlyph::paint` for a `ColorGlyphRoot::V1Paint`; `none` = `get_with_format(gid, ColrV1)`
returned no glyph. -/
def paintV1 (inst : Instance) (c : Client) (gid : Gid) : Option Res :=
  match inst.base gid with
  | .err => none
  | .notFound => none
  | .found pid =>
    let st1 := pushClip c (inst.clip gid) St.init
    match enter [] pid with
    | .error e => some (some e, st1)
    | .ok dec =>
      match inst.resolve pid with
      | none => some (some .parse, st1)
      | some n =>
        let r := trav inst c MAX_TRAVERSAL_DEPTH n dec st1
        match r.1 with
        | some e => some (some e, r.2)
        | none => some (none, popClipIf c (inst.clip gid) r.2)

/-- `Brush::Solid { palette_index, alpha }` (alpha: raw `F2Dot14` bits, `1.0` = 16384) -/
def solidBrush (palette : Nat) (alpha : Int) : Brush := [0, (palette : Int), alpha]

/-- `traverse_v0_range`: `layers i` = `Colr::v0_layer(i)` (`none` = `Err`), giving the layer glyph and its
palette index (`0xFFFF`, the foreground colour, is passed on like any other index). -/
def travV0 (c : Client) (layers : Nat → Option (Gid × Nat)) : List Nat → St → Res
  | [], st => (none, st)
  | i :: is, st =>
    match layers i with
    | none => (some .parse, st)
    | some (g, pal) => travV0 c layers is (emit c (.fillGlyph g none (solidBrush pal 16384)) st)

/-- `ColorGlyph::paint` for a `ColorGlyphRoot::V0Range(first .. first+num)` -/
def paintV0 (c : Client) (layers : Nat → Option (Gid × Nat)) (first num : Nat) : Res :=
  travV0 c layers (List.range' first num) St.init

/-! ## nesting discipline (the observable the property talks about) -/

inductive Frame where
  | transform
  | clip
  | layer (m : Nat)
  deriving DecidableEq, Repr

/-- one callback against the stack of currently open scopes; `none` = a pop that does not match the
innermost open scope (or nothing open) -/
def step (s : List Frame) : Event → Option (List Frame)
  | .pushT _ => some (.transform :: s)
  | .popT => match s with
    | .transform :: r => some r
    | _ => none
  | .pushClipGlyph _ => some (.clip :: s)
  | .pushClipBox _ => some (.clip :: s)
  | .popClip => match s with
    | .clip :: r => some r
    | _ => none
  | .pushLayer m => some (.layer m :: s)
  | .popLayer m => match s with
    | .layer m' :: r => if m = m' then some r else none
    | _ => none
  | .fill _ => some s
  | .fillGlyph _ _ _ => some s
  | .cached _ => some s

def run (s : List Frame) : List Event → Option (List Frame)
  | [] => some s
  | e :: es => match step s e with
    | none => none
    | some s' => run s' es

/-- every push is popped exactly once, LIFO, by a pop of the matching kind (and mode); nothing is
popped that was not pushed; nothing stays open -/
def WellNested (evs : List Event) : Prop := run [] evs = some []

instance (evs : List Event) : Decidable (WellNested evs) := by unfold WellNested; infer_instance

/-! ## graph vocabulary used by the theorems -/

/-- `m` is a child paint of `n` that `traverse_with_callbacks` can descend into (all lookups on the
way succeed) -/
inductive Edge (inst : Instance) : Node → Node → Prop
  | glyph {g child m} : inst.resolve child = some m → Edge inst (.glyph g child) m
  | transform {tag child m} : inst.resolve child = some m → Edge inst (.transform tag child) m
  | compSrc {src mode bd m} : inst.resolve src = some m → Edge inst (.composite src mode bd) m
  | compBackdrop {src mode bd m} : inst.resolve bd = some m → Edge inst (.composite src mode bd) m
  | layer {first num i pid m} : first ≤ i → i < first + num → inst.layer i = some pid →
      inst.resolve pid = some m → Edge inst (.colrLayers first num) m
  | colrGlyph {g pid m} : inst.base g = .found pid → inst.resolve pid = some m →
      Edge inst (.colrGlyph g) m

/-- there is a descending path of `k` edges starting at the node -/
inductive Path (inst : Instance) : Node → Nat → Prop
  | here (n : Node) : Path inst n 0
  | step {n m : Node} {k : Nat} : Edge inst n m → Path inst m k → Path inst n (k + 1)

/-- a walk of `k` edges from the first node to the second -/
inductive Walk (inst : Instance) : Node → Node → Nat → Prop
  | here (n : Node) : Walk inst n n 0
  | step {n m b : Node} {k : Nat} : Edge inst n m → Walk inst m b k → Walk inst n b (k + 1)

/-- `1 + k + k² + … + k^(f-1)`: nodes of the complete `k`-ary tree of height `f` -/
def geom (k : Nat) : Nat → Nat
  | 0 => 0
  | f + 1 => 1 + k * geom k f

/-- every `PaintColrLayers` the instance can resolve has at most `k` layers (`num_layers` is a `u8`,
so 255 always works) -/
def LayersBounded (inst : Instance) (k : Nat) : Prop :=
  ∀ id first num, inst.resolve id = some (.colrLayers first num) → num ≤ k

/-- a chain of `d` nested `PaintGlyph` tables ending in a `PaintSolid`: paint `i < d` is
`PaintGlyph(glyph 0, child i+1)`, paint `d` is the solid; colour glyph 0 has root paint 0.
As a font this is a 250-byte tree-shaped COLR table with no sharing and no cycle. -/
def glyphChain (d : Nat) : Instance where
  resolve := fun i => if i < d then some (.glyph 0 (i + 1)) else if i = d then some (.leaf (some [])) else none
  layer := fun _ => none
  base := fun g => if g = 0 then .found 0 else .notFound
  clip := fun _ => none

/-- paint nodes visited when painting `glyphChain d` -/
def chainVisits : Nat → Nat
  | 0 => 1
  | 1 => 2
  | j + 2 => 1 + 2 * chainVisits (j + 1)

/-- a DAG of `d` `PaintComposite` tables whose source and backdrop are the SAME next paint, over one
`PaintSolid`: paint `i < d` is `PaintComposite(src i+1, mode 0, backdrop i+1)`, paint `d` the solid.
`d + 1` paint tables (both `Offset24`s of a composite point at the same child). -/
def compDag (d : Nat) : Instance where
  resolve := fun i => if i < d then some (.composite (i + 1) 0 (i + 1)) else if i = d then some (.leaf (some [])) else none
  layer := fun _ => none
  base := fun g => if g = 0 then .found 0 else .notFound
  clip := fun _ => none

/-- paint nodes visited below (and including) a node that has `j` composites above the solid -/
def compVisits : Nat → Nat
  | 0 => 1
  | j + 1 => 1 + 2 * compVisits j

/-! ## helpers for the driver and for examples -/

def lookup {α : Type} (tbl : List (Nat × α)) (k : Nat) : Option α :=
  match tbl with
  | [] => none
  | (k', v) :: r => if k = k' then some v else lookup r k

/-- instance given by finite tables; bases: `some pid` = found, `none` = error, unlisted = notFound -/
def Instance.ofTables (nodes : List (Nat × Node)) (layers : List (Nat × Option PaintId))
    (bases : List (Nat × Option PaintId)) (clips : List (Nat × ClipBoxV)) : Instance where
  resolve := fun id => lookup nodes id
  layer := fun i => (lookup layers i).bind id
  base := fun g => match lookup bases g with
    | none => .notFound
    | some none => .err
    | some (some p) => .found p
  clip := fun g => lookup clips g

def cachedMode (mode : Nat) (g : Gid) : CachedAns :=
  match mode with
  | 0 => .unimplemented
  | 1 => .ok
  | 2 => if g % 2 = 0 then .ok else .unimplemented
  | _ => if g % 3 = 0 then .err else if g % 3 = 1 then .ok else .unimplemented

def Client.ofModes (fg : Nat) (cm : Nat) : Client where
  overridesFillGlyph := fg ≠ 0
  cached := cachedMode cm

end FontVerif.Paint
