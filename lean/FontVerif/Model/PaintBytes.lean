/-
C13 at the byte level: the paint graph of Model/Paint.lean read from the COLR table BYTES.

Composes the traversal model (Model/Paint.lean ⇄ skrifa/src/color/{traversal,mod}.rs, decycler.rs) with
the byte-level models of the read-fonts COLR readers of C01 (Model/HandColr.lean ⇄
read-fonts/src/tables/colr.rs + generated_colr.rs): `colrRead`, `v0BaseGlyph`, `v0Layer`, `v1BaseGlyph`,
`v1Layer`, `v1ClipBox`, `resolvePaint`, `childAt`.

New here (transcribed from /repo):
* `skrifa/src/color/instance.rs`   `resolve_paint` (every arm: which accessor can fail, children,
                                    `first..first+num`, glyph ids, composite mode)      ⇒ `nodeOfBytes`
                                    `resolve_clip_box` at the default location            ⇒ `clipBoxAt`
                                    `ColorStops::resolve` offsets at the default location ⇒ `colorLineAt`
* `skrifa/src/color/traversal.rs`  the three gradient arms of `traverse_with_callbacks`, reduced to
                                    the decision "is the single `painter.fill(..)` reached"
                                    (`make_sorted_resolved_stops`, degenerate p0/p1/p2, `color_stop_range`,
                                    extend modes incl. `Unknown`, sweep angle normalisation in `f32`)
                                                                                          ⇒ `linearCase`, `radialCase`, `sweepCase`
                                    `get_clipbox_font_units`                              ⇒ `clipOfBytes`
* `skrifa/src/color/mod.rs`        `ColorGlyphCollection::get_with_format`, `ColorGlyph::paint`,
                                    `ColorGlyph::bounding_box` (unscaled)                 ⇒ `paintBytes`, `paintV0Bytes`, `boundingBoxBytes`

Paint ids are byte offsets of the paint in the table (the real id is `offset + table address`).
Location: the default one (`LocationRef::default()`, every variation delta is `0.0`, so
`apply_float_delta` is the identity on the font value).
-/
import FontVerif.Model.Paint
import FontVerif.Model.HandColr
import FontVerif.Model.Ieee
import FontVerif.Model.IeeeArith
namespace FontVerif.PaintBytes
open FontVerif FontVerif.Paint FontVerif.HandRead FontVerif.HandColr

/-- `i16::from_be_bytes` of a 16-bit field -/
def i16 (v : Nat) : Int := if v ≥ 32768 then (v : Int) - 65536 else (v : Int)

/-! ## gradients: does the arm reach its `painter.fill(..)`? -/

/-- `Extend` of a colour line (`Extend::new(raw)`: 0 Pad, 1 Repeat, 2 Reflect, anything else `Unknown`)
and the stops in table order: raw `F2Dot14` offset (`to_bits() as i16`; the value is `bits / 16384`, exact in
`f32`), palette index, raw `F2Dot14` alpha -/
structure CLine where
  ext : Nat
  stops : List (Int × Nat × Int)
  deriving Repr, DecidableEq

/-- the stop offsets -/
def CLine.offs (cl : CLine) : List Int := cl.stops.map (·.1)

/-- `gradient.color_line()` (`Offset24` at `p+1` relative to the paint; `ColorLine::read` /
`VarColorLine::read`: extend `u8`, `num_stops: u16`, `num_stops` records of 6 / 10 bytes) and
`color_stops()`; `none` = `Err` (null offset, out of bounds) -/
def colorLineAt (d : List Nat) (p : Nat) (var : Bool) : Option CLine :=
  let off := be d (p + 1) 3
  if off = 0 then none
  else if p + off > d.length then none
  else
    let q := p + off
    match readAt d (q + 1) 2 with
    | none => none
    | some n =>
      let sz := if var then 10 else 6
      if 3 + n * sz ≤ d.length - q then
        some ⟨be d q 1, records (fun r => (i16 (be d r 2), be d (r + 2) 2, i16 (be d (r + 4) 2))) (q + 3) n sz⟩
      else none

/-- what a gradient arm does -/
inductive GCase where
  /-- linear only: `p1 == p0 || p2 == p0 || cross == 0` with at least one stop: `fill(Brush::Solid)` -/
  | degenerateSolid
  /-- linear only: degenerate and no stop: nothing -/
  | degenerateEmpty
  /-- no colour stop: nothing drawn -/
  | noStops
  /-- `color_stop_range == 0.0 && extend != Pad` (Repeat, Reflect, Unknown): nothing drawn -/
  | zeroRangeNotPad
  /-- `color_stop_range == 0.0 && extend == Pad`: an extra stop at `+1.0` is appended, gradient filled -/
  | zeroRangePad
  /-- sweep only: `start_angle_scaled == end_angle_scaled && extend != Pad`: nothing drawn -/
  | sweepEmptySector
  /-- the ordinary case: gradient filled -/
  | gradient
  deriving DecidableEq, Repr, Inhabited

/-- does the case reach `painter.fill(..)` -/
def GCase.fills : GCase → Bool
  | .degenerateSolid => true
  | .degenerateEmpty => false
  | .noStops => false
  | .zeroRangeNotPad => false
  | .zeroRangePad => true
  | .sweepEmptySector => false
  | .gradient => true

def listMin : List Int → Option Int
  | [] => none
  | x :: xs => match listMin xs with
    | none => some x
    | some m => some (if x ≤ m then x else m)

def listMax : List Int → Option Int
  | [] => none
  | x :: xs => match listMax xs with
    | none => some x
    | some m => some (if m ≤ x then x else m)

/-- the shared tail of the linear and radial arms: `(first, last)` of the sorted stops (the stable sort
by offset puts a minimal offset first and a maximal one last), `color_stop_range = last - first`
(exact: both are multiples of `2^-14` below `4`), the two `color_stop_range == 0.0` tests -/
def radialCase (cl : CLine) : GCase :=
  match listMin cl.offs, listMax cl.offs with
  | some lo, some hi =>
    if hi - lo = 0 then (if cl.ext = 0 then .zeroRangePad else .zeroRangeNotPad) else .gradient
  | _, _ => .noStops

open Ieee in
/-- `cross_product(p1 - p0, p2 - p0) == 0.0` in `f32` (`a.x * b.y - a.y * b.x`; the coordinates are
integers below `2^16`, their differences are exact, the two products are rounded) -/
def crossZero (ax ay bx by_ : Int) : Bool :=
  feq (sub f32 (mul f32 (ofInt f32 ax) (ofInt f32 by_)) (mul f32 (ofInt f32 ay) (ofInt f32 bx))) zero

/-- `ResolvedPaint::LinearGradient` arm; coordinates are the `FWord`s as integers -/
def linearCase (x0 y0 x1 y1 x2 y2 : Int) (cl : CLine) : GCase :=
  if (x1 = x0 ∧ y1 = y0) ∨ (x2 = x0 ∧ y2 = y0) ∨ crossZero (x1 - x0) (y1 - y0) (x2 - x0) (y2 - y0) = true then
    (if cl.stops.isEmpty then .degenerateEmpty else .degenerateSolid)
  else radialCase cl

open Ieee in
/-- `F2Dot14::to_f32` of raw bits -/
def f2dot14 (v : Int) : FVal := .fin (decide (v < 0)) v.natAbs (-14)

open Ieee in
/-- `ResolvedPaint::SweepGradient` arm (`sa`, `ea`: raw `F2Dot14` bits of the angles), `f32` arithmetic
of `sweep_angle_to_degrees`, `sector_angle`, `start/end_angle_scaled`, `360.0 - ..`, the swap and the
final equality test -/
def sweepCase (sa ea : Int) (cl : CLine) : GCase :=
  let c180 : FVal := .fin false 180 0
  let c360 : FVal := .fin false 360 0
  let startAngle := add f32 (mul f32 (f2dot14 sa) c180) c180
  let endAngle := add f32 (mul f32 (f2dot14 ea) c180) c180
  let sector := sub f32 endAngle startAngle
  match listMin cl.offs, listMax cl.offs with
  | some lo, some hi =>
    let s := add f32 startAngle (mul f32 sector (f2dot14 lo))
    let e := add f32 startAngle (mul f32 sector (f2dot14 hi))
    if hi - lo = 0 ∧ cl.ext ≠ 0 then .zeroRangeNotPad
    else
      let s := sub f32 c360 s
      let e := sub f32 c360 e
      -- `if s >= e { swap }`, then `s == e`: the swap does not change the equality
      if feq s e = true ∧ cl.ext ≠ 0 then .sweepEmptySector
      else if hi - lo = 0 then .zeroRangePad else .gradient
  | _, _ => .noStops

/-- the case of a gradient paint of format 4 … 9 at `p` given its colour line -/
def caseOf (d : List Nat) (p fmt : Nat) (cl : CLine) : GCase :=
  let c := fun k => i16 (be d (p + k) 2)
  if fmt = 4 ∨ fmt = 5 then linearCase (c 4) (c 6) (c 8) (c 10) (c 12) (c 14) cl
  else if fmt = 6 ∨ fmt = 7 then radialCase cl
  else sweepCase (c 8) (c 10) cl

/-- the gradient formats 4 … 9 at `p` (the paint's `MinByteRange` is in bounds) -/
def gradientCase (d : List Nat) (p fmt : Nat) : Option GCase :=
  (colorLineAt d p (fmt % 2 = 1)).map (caseOf d p fmt)

/-- `resolved_stops.first()` after `make_sorted_resolved_stops` (a stable sort by offset): the earliest
stop among those with the smallest offset -/
def firstSorted : List (Int × Nat × Int) → Option (Int × Nat × Int)
  | [] => none
  | x :: xs => match firstSorted xs with
    | none => some x
    | some m => some (if x.1 ≤ m.1 then x else m)

/-- `Extend as u8` -/
def extOf (raw : Nat) : Nat := if raw ≤ 2 then raw else 3

/-- the `Brush` a gradient arm passes to `painter.fill` (`none`: the arm returns without filling):
`[0, palette, alpha]` for `Brush::Solid`, `[kind, extend, number of colour stops]` for the gradients
(kind 1 linear, 2 radial, 3 sweep; the stop count includes the stop appended for a zero range in Pad mode) -/
def gradientBrush (fmt : Nat) (cl : CLine) (g : GCase) : Option Brush :=
  let kind : Int := if fmt = 4 ∨ fmt = 5 then 1 else if fmt = 6 ∨ fmt = 7 then 2 else 3
  match g with
  | .degenerateSolid => (firstSorted cl.stops).map (fun s => solidBrush s.2.1 s.2.2)
  | .zeroRangePad => some [kind, (extOf cl.ext : Nat), (cl.stops.length + 1 : Nat)]
  | .gradient => some [kind, (extOf cl.ext : Nat), (cl.stops.length : Nat)]
  | _ => none

/-! ## `resolve_paint` (instance.rs) from the bytes -/

/-- `CompositeMode::new(raw) as u8`: the 28 assigned modes, everything else is `Unknown` (= 28) -/
def modeOf (raw : Nat) : Nat := if raw ≤ 27 then raw else 28

/-- `PaintTransform::transform()` / `PaintVarTransform::transform()`: `Offset24` at `p+4`, 24 / 28 bytes -/
def affineOk (d : List Nat) (p : Nat) (var : Bool) : Bool :=
  let off := be d (p + 4) 3
  if off = 0 then false
  else if p + off > d.length then false
  else decide (p + off + (if var then 28 else 24) ≤ d.length)

/-- `resolve_paint(instance, paint)` for the paint whose data starts at `p` (`Paint::read` first), as
the traversal-relevant `Node`; `none` = `Err(ReadError)` -/
def nodeOfBytes (d : List Nat) (p : Nat) : Option Node :=
  match paintRead d p with
  | .error _ => none
  | .ok fmt =>
    if fmt = 1 then some (.colrLayers (be d (p + 2) 4) (be d (p + 1) 1))
    else if fmt = 2 ∨ fmt = 3 then some (.leaf (some (solidBrush (be d (p + 1) 2) (i16 (be d (p + 3) 2)))))
    else if 4 ≤ fmt ∧ fmt ≤ 9 then
      (colorLineAt d p (fmt % 2 = 1)).map (fun cl => .leaf (gradientBrush fmt cl (caseOf d p fmt cl)))
    else if fmt = 10 then (childAt d p (p + 1)).map (fun q => .glyph (be d (p + 4) 2) q)
    else if fmt = 11 then some (.colrGlyph (be d (p + 1) 2))
    else if fmt = 12 ∨ fmt = 13 then
      (if affineOk d p (fmt = 13) then (childAt d p (p + 1)).map (.transform p) else none)
    else if fmt = 32 then
      match childAt d p (p + 1), childAt d p (p + 5) with
      | some s, some b => some (.composite s (modeOf (be d (p + 4) 1)) b)
      | _, _ => none
    else (childAt d p (p + 1)).map (.transform p)

/-- `get_clipbox_font_units(instance, gid)` at the default location: `v1_clip_box(gid).ok().flatten()`,
then `resolve_clip_box`: the four `FWord`s (`to_i16() as f32`; for `ClipBoxFormat2` the deltas are `0.0`) -/
def clipOfBytes (t : Colr) (g : Gid) : Option ClipBoxV :=
  match v1ClipBox t g with
  | .ok (some (_, q)) =>
    some [i16 (be t.d (q + 1) 2), i16 (be t.d (q + 3) 2), i16 (be t.d (q + 5) 2), i16 (be t.d (q + 7) 2)]
  | _ => none

/-- the `ColrInstance` lookups of a parsed table, as the traversal model's `Instance`.  A `trap`
(index panic) of a lookup is mapped to the error answer; Props/C01HandColr.lean shows it never occurs. -/
def instOfBytes (t : Colr) : Instance where
  resolve := nodeOfBytes t.d
  layer := fun i => match v1Layer t i with
    | .ok (_, q) => some q
    | _ => none
  base := fun g => match v1BaseGlyph t g with
    | .ok (some (_, q)) => .found q
    | .ok none => .notFound
    | _ => .err
  clip := clipOfBytes t

/-- `font.color_glyphs().get_with_format(gid, ColrV1)` + `ColorGlyph::paint(default location, client)`
on the bytes of the COLR table; `none` = no such colour glyph (`Colr::read` fails, no v1 base glyph) -/
def paintBytes (d : List Nat) (c : Client) (gid : Gid) : Option Res :=
  match colrRead d with
  | none => none
  | some t => paintV1 (instOfBytes t) c gid

/-- `Colr::v0_layer(i)`: the layer glyph and its palette index (`none` = `Err`) -/
def v0LayerGid (t : Colr) (i : Nat) : Option (Gid × Nat) :=
  match v0Layer t i with
  | .ok l => some (l.gid, l.pal)
  | _ => none

/-- `get_with_format(gid, ColrV0)` + `paint` -/
def paintV0Bytes (d : List Nat) (c : Client) (gid : Gid) : Option Res :=
  match colrRead d with
  | none => none
  | some t =>
    match v0BaseGlyph t gid with
    | .ok (some (s, e)) => some (paintV0 c (v0LayerGid t) s (e - s))
    | _ => none

/-- `get_with_format(gid, fmt)` + `ColorGlyph::bounding_box(default location, Size::unscaled())`:
`none` = no such colour glyph; `some none` = `None` (always for COLRv0; COLRv1 without clip box);
`some (some box)`: the clip box (`linear_scale` of an unscaled size is `1.0`) -/
def boundingBoxBytes (d : List Nat) (gid : Gid) (v0 : Bool) : Option (Option ClipBoxV) :=
  match colrRead d with
  | none => none
  | some t =>
    if v0 then
      match v0BaseGlyph t gid with
      | .ok (some _) => some none
      | _ => none
    else
      match v1BaseGlyph t gid with
      | .ok (some _) => some (clipOfBytes t gid)
      | _ => none

end FontVerif.PaintBytes
