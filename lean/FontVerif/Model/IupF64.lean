/-
The f64 arithmetic of the IUP optimiser, bit exact on the IEEE model (Model/Ieee.lean,
Model/IeeeArith.lean), for arbitrary f64 inputs:

write-fonts/src/tables/gvar/iup.rs
    iup_segment (one axis of one point), can_iup_in_between (`(d - i).hypot2() <= tolerance.powi(2)`,
    kurbo `Vec2::hypot2` = `x * x + y * y`), and the values written by iup_contour_optimize /
    iup_delta_optimize: `delta.to_point().ot_round()` (write-fonts/src/round.rs `OtRound<(i16, i16)>`,
    Model/FixedConv.lean `otRoundPoint`).

Model/Iup.lean models the same functions for INTEGER inputs with exact rational interpolation; this
file is what the Rust computes, rounding included.
-/
import FontVerif.Model.Base
import FontVerif.Model.Ieee
import FontVerif.Model.IeeeArith
import FontVerif.Model.FixedConv
namespace FontVerif.IupF64
open FontVerif FontVerif.Ieee

/-- `x >= y` (false on NaN) -/
def ge (x y : FVal) : Bool := le y x

/-- one axis of `iup_segment` for one point with coordinate `c`:
```
if c1 == c2 { if d1 == d2 { d1 } else { 0.0 } }
else { (c1, c2, d1, d2) = if c1 > c2 { flip }; scale = (d2 - d1) / (c2 - c1);
       if c <= c1 { d1 } else if c >= c2 { d2 } else { d1 + (c - c1) * scale } }
``` -/
def segAxis (c1 d1 c2 d2 c : FVal) : FVal :=
  if feq c1 c2 then (if feq d1 d2 then d1 else zero)
  else
    let sw := gt c1 c2
    let lo := if sw then c2 else c1
    let hi := if sw then c1 else c2
    let dlo := if sw then d2 else d1
    let dhi := if sw then d1 else d2
    let scale := div f64 (sub f64 dhi dlo) (sub f64 hi lo)
    if le c lo then dlo
    else if ge c hi then dhi
    else add f64 dlo (mul f64 (sub f64 c lo) scale)

/-- `(d - i).hypot2() <= tolerance.powi(2)` -/
def withinTol (tol dx dy ix iy : FVal) : Bool :=
  let ex := sub f64 dx ix
  let ey := sub f64 dy iy
  le (add f64 (mul f64 ex ex) (mul f64 ey ey)) (mul f64 tol tol)

abbrev P := FVal × FVal

def getP (l : List P) (i : Nat) : P := l.getD i (zero, zero)

/-- `can_iup_in_between(deltas, coords, tolerance, from, to)` for valid `from`/`to`
(`-1 ≤ from`, `from + 2 ≤ to < len`); `from = -1` takes the last entry as first reference -/
def canIup (tol : FVal) (ds cs : List P) (frm : Int) (to : Nat) : Bool :=
  let a := if frm < 0 then ds.length - 1 else frm.toNat
  let first := (frm + 1).toNat
  (List.range (to - first)).all fun j =>
    let k := first + j
    withinTol tol (getP ds k).1 (getP ds k).2
      (segAxis (getP cs a).1 (getP ds a).1 (getP cs to).1 (getP ds to).1 (getP cs k).1)
      (segAxis (getP cs a).2 (getP ds a).2 (getP cs to).2 (getP ds to).2 (getP cs k).2)

/-- the `(x, y)` written for a delta: `delta.to_point().ot_round()` -/
def writtenValue (dx dy : FVal) : Int × Int := FixedConv.otRoundPoint dx dy

end FontVerif.IupF64
