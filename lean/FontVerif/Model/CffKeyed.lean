/-
C18 — glyph-keyed patching of the `CFF ` / `CFF2` charstrings INDEX (the `Cff::TAG` and `Cff2::TAG`
arms of the font-level loop in Model/GlyphKeyed.lean).

Transcribes incremental-font-transfer/src/glyph_keyed.rs
  `CFFAndCharStrings::{from_cff_font, from_cff2_font, check_glyph_count, charstrings_data, offset_type}`,
  `impl GlyphDataOffsetArray for CFFAndCharStrings` (`offset_type`, `available_offset_types`,
  `offset_for`, `all_offsets_are_ascending`, `get`, `add_to_font`) and the two arms of
  `apply_glyph_keyed_patches` (`font.ift().ok().and_then(|t| t.cff_charstrings_offset())`, …);
read-fonts generated `Index1::read` / `Index2::read`, postscript/index.rs `read_offset`,
  `Index1::size_in_bytes`, `Index2::size_in_bytes`, cff.rs `Cff::read` (header + name / top dict / string /
  global subr INDEXes), cff2.rs `Cff2::read` (header + top dict data + global subr INDEX),
  generated_ift.rs `Ift::read` (`PatchMapFormat1::read`, `PatchMapFormat2::read`: only the shape, i.e.
  where the optional `cff_charstrings_offset` / `cff2_charstrings_offset` fields sit).

What the code does NOT do (and the model therefore does not either): it never looks at the Top DICT
(operator 17 `CharStrings`).  The position of the charstrings INDEX is taken from the font's `IFT `
mapping table (always `IFT `, never `IFTX`), the table itself only has to get through `Cff::read` /
`Cff2::read`.  `add_to_font` keeps the bytes `[0, charstrings_offset)`, then writes a fresh INDEX (count,
new offSize, new offsets, new data) — whatever followed the old INDEX's last object, and whatever lay
between the offset array and the first object, is dropped.

`cffPatch v2 ift table gps maxGid` = the new table bytes `apply_glyph_keyed_patches` adds to the font
builder for the patches `gps` (in application order), or the error it returns.

ASSUMPTION: the emitted table is below 4 GiB (`Serializer::allocate_size` refuses more than `u32::MAX`
bytes at once; not modelled).
-/
import FontVerif.Model.GlyphSplice
namespace FontVerif.Ift

/-! ## PostScript INDEX -/

/-- a successfully read `Index1` (2-byte count) / `Index2` (4-byte count) -/
structure IndexView where
  count : Nat
  offSize : Nat
  /-- `offsets()`: the `(count + 1) * offSize` bytes after count and offSize -/
  offsetBytes : Bytes
  /-- `data()`: everything after the offset array, up to the end of the input -/
  data : Bytes
  deriving Repr

/-- `Index1::read` (`cw = 2`) / `Index2::read` (`cw = 4`): count, offSize, then
`add_multiply(count, 1, off_size)` offset bytes must fit (`cursor.finish`); the rest is data. -/
def indexRead (cw : Nat) (d : Bytes) : Except RErr IndexView :=
  if d.length < cw + 1 then .error .outOfBounds
  else
    let count := beValue (d.take cw)
    let offSize := (d.drop cw).headD 0
    let ol := (count + 1) * offSize
    if d.length < cw + 1 + ol then .error .outOfBounds
    else .ok { count := count, offSize := offSize, offsetBytes := sliceLen d (cw + 1) ol,
               data := d.drop (cw + 1 + ol) }

/-- index.rs `read_offset` as used by `get_offset`: `None` for an index beyond `count`, an offSize
outside 1..=4, or a stored offset of 0 (`checked_sub(1)` — offsets are biased by 1).  Every caller
modelled here collapses the three error kinds (`map_err(|_| …)`). -/
def indexOffset (v : IndexView) (i : Nat) : Option Nat :=
  if i > v.count then none
  else if v.offSize < 1 ∨ v.offSize > 4 then none
  else
    let raw := beValue (sliceLen v.offsetBytes (i * v.offSize) v.offSize)
    if raw = 0 then none else some (raw - 1)

/-- `Index1::size_in_bytes` / `Index2::size_in_bytes` -/
def indexSize (cw : Nat) (v : IndexView) : Except RErr Nat :=
  if v.count = 0 then .ok cw
  else
    match indexOffset v v.count with
    | none => .error .outOfBounds
    | some o => .ok (cw + 1 + v.offsetBytes.length + o)

/-- `Index1::read(data)?; data.split_off(index.size_in_bytes()?)` -/
def skipIndex (cw : Nat) (d : Bytes) : Except RErr Bytes :=
  match indexRead cw d with
  | .error e => .error e
  | .ok v =>
    match indexSize cw v with
    | .error e => .error e
    | .ok sz => if d.length < sz then .error .outOfBounds else .ok (d.drop sz)

/-- `Cff::read`: `CffHeader::read` (hdrSize at byte 2, `hdrSize - 4` padding bytes), then the name,
top dict and string INDEXes are skipped and the global subr INDEX is read. -/
def cffTableRead (b : Bytes) : Except RErr Unit :=
  if b.length < 3 then .error .outOfBounds
  else
    let start := 4 + ((b.drop 2).headD 0 - 4)
    if b.length < start then .error .outOfBounds
    else
      match skipIndex 2 (b.drop start) with
      | .error e => .error e
      | .ok d1 =>
        match skipIndex 2 d1 with
        | .error e => .error e
        | .ok d2 =>
          match skipIndex 2 d2 with
          | .error e => .error e
          | .ok d3 =>
            match indexRead 2 d3 with
            | .error e => .error e
            | .ok _ => .ok ()

/-- `Cff2::read`: `Cff2Header::read` (headerSize at byte 2, topDictLength at 3, `headerSize - 5`
padding bytes, the top dict data), then the global subr INDEX. -/
def cff2TableRead (b : Bytes) : Except RErr Unit :=
  if b.length < 5 then .error .outOfBounds
  else
    let start := 5 + ((b.drop 2).headD 0 - 5) + beValue (sliceLen b 3 2)
    if b.length < start then .error .outOfBounds
    else
      match indexRead 4 (b.drop start) with
      | .error e => .error e
      | .ok _ => .ok ()

/-! ## the charstrings offset recorded in the `IFT ` table -/

/-- `Ift::read` (format byte 1 → `PatchMapFormat1::read`, 2 → `PatchMapFormat2::read`), reduced to
what the two arms need: the `field_flags` byte and the position of the first optional field.
Format 1: …, maxEntryIndex at 21, the applied-entries bitmap (`max_value_bitmap_len`) at 36, then
uriTemplateLength, the template, patchFormat.  Format 2: uriTemplateLength at 33, the template.
The optional fields (4 bytes each) must lie inside the table (`position()?`, `cursor.finish`). -/
def iftOptionalFields (d : Bytes) : Option (Nat × Nat) :=
  if d.length < 5 then none
  else
    let flags := (d.drop 4).headD 0
    let finish (q : Nat) : Option (Nat × Nat) :=
      if d.length < q + 4 * (flags % 2) + 4 * (flags / 2 % 2) then none else some (flags, q)
    if d.headD 0 = 1 then
      if d.length < 23 then none
      else
        let p := 36 + (beValue (sliceLen d 21 2) + 8) / 8
        if d.length < p + 2 then none
        else finish (p + 2 + beValue (sliceLen d p 2) + 1)
    else if d.headD 0 = 2 then
      if d.length < 35 then none
      else finish (35 + beValue (sliceLen d 33 2))
    else none

/-- `font.ift().ok().as_ref().and_then(|t| t.cff_charstrings_offset())` (`v2 = false`) /
`…cff2_charstrings_offset()` (`v2 = true`): flag bit 0 / bit 1 of `field_flags`; the CFF2 field
follows the CFF field when both are present. -/
def iftCharstringsOffset (ift : Option Bytes) (v2 : Bool) : Option Nat :=
  match ift with
  | none => none
  | some d =>
    match iftOptionalFields d with
    | none => none
    | some (flags, q) =>
      if v2 then
        if flags / 2 % 2 = 1 then some (beValue (sliceLen d (q + 4 * (flags % 2)) 4)) else none
      else
        if flags % 2 = 1 then some (beValue (sliceLen d q 4)) else none

/-! ## `CFFAndCharStrings` -/

/-- `CFFAndCharStrings::offset_type(size)` -/
def cffOffsetType (size : Nat) : Except RErr OffsetType :=
  if size = 1 then .ok .cffOne
  else if size = 2 then .ok .cffTwo
  else if size = 3 then .ok .cffThree
  else if size = 4 then .ok .cffFour
  else .error (.malformedData "Invalid charstrings offset size (is not 1, 2, 3, or 4).")

def cffTag (v2 : Bool) : Tag := if v2 then TAG_CFF2 else TAG_CFF
def cffCountWidth (v2 : Bool) : Nat := if v2 then 4 else 2

/-- `from_cff_font` / `from_cff2_font` on a present table: it must pass `Cff::read` / `Cff2::read`,
the recorded offset must lie inside the table, an INDEX must be readable there, its offSize must be
1..=4 and its count must be `max_glyph_id + 1`. -/
def cffView (v2 : Bool) (b : Bytes) (at_ maxGid : Nat) : Except RErr (IndexView × OffsetType) :=
  match (if v2 then cff2TableRead b else cffTableRead b) with
  | .error e => .error e
  | .ok () =>
    if b.length < at_ then .error .outOfBounds
    else
      match indexRead (cffCountWidth v2) (b.drop at_) with
      | .error e => .error e
      | .ok ix =>
        match cffOffsetType ix.offSize with
        | .error e => .error e
        | .ok t =>
          if ix.count ≠ maxGid + 1 then
            .error (.malformedData "CFF/CFF2 charstrings glyph count does not match maxp's.")
          else .ok (ix, t)

/-- `all_offsets_are_ascending` of `CFFAndCharStrings`: pairs `(offset_for(i), offset_for(i+1))` for
`i + 1 < count` — the LAST entry of the offset array (index `count`) is not looked at, and with one
glyph nothing is; an unreadable entry inside a pair counts as not ascending. -/
def ascendingOpt : List (Option Nat) → Bool
  | some a :: some b :: rest => a ≤ b && ascendingOpt (some b :: rest)
  | _ :: _ :: _ => false
  | _ => true

/-- all `count + 1` results of `offset_for` -/
def cffOffsetOpts (ix : IndexView) : List (Option Nat) :=
  (List.range (ix.count + 1)).map (indexOffset ix)

/-- the decoded offset array (bias of 1 removed); an unreadable entry (stored 0) is listed as 0 and
flagged in `cffArray.unreadable` -/
def cffOffsets (ix : IndexView) : List Nat := (cffOffsetOpts ix).map (·.getD 0)

/-- `impl GlyphDataOffsetArray for CFFAndCharStrings` as the builder sees it: offsets with the bias
of 1 removed (`get_offset`), `get` slices `charstrings_object_data` (the INDEX's data area) -/
def cffArray (ix : IndexView) (t : OffsetType) : OffsetArray :=
  { offsetType := t
    available := [.cffOne, .cffTwo, .cffThree, .cffFour]
    offsets := cffOffsets ix
    data := ix.data
    missing := .fontParsingFailed .outOfBounds
    getErr := .fontParsingFailed .outOfBounds
    ascOk := ascendingOpt ((cffOffsetOpts ix).take ix.count)
    unreadable := (List.range (ix.count + 1)).filter (fun i => (indexOffset ix i).isNone) }

/-- a CFF / CFF2 table that ends with an INDEX: `pre`, then count (2 or 4 bytes), offSize, the offset
array, the object data -/
def cffEmit (v2 : Bool) (pre : Bytes) (count : Nat) (t : OffsetType) (offs data : Bytes) : Bytes :=
  pre ++ beBytes (cffCountWidth v2) count ++ [t.width] ++ offs ++ data

/-- `CFFAndCharStrings::add_to_font`: the bytes before the charstrings INDEX (`cff_data[0..charstrings_offset]`),
then a fresh INDEX: the old count, the new offSize, the new offset array, the new object data. -/
def cffAssemble (v2 : Bool) (b : Bytes) (at_ count : Nat) (t : OffsetType) (data offs : Bytes) : Bytes :=
  cffEmit v2 (b.take at_) count t offs data

def cffMissingMsg (v2 : Bool) : String :=
  if v2 then "Required CFF2 charstrings offset is missing from IFT table."
  else "Required CFF charstrings offset is missing from IFT table."

/-- the `Cff::TAG` / `Cff2::TAG` arm; `ift` = the font's `IFT ` table, `table` = its CFF / CFF2 table
(`font.cff()` / `font.cff2()` answer `TableIsMissing` without one) -/
def cffPatch (v2 : Bool) (ift table : Option Bytes) (gps : List GlyphPatches) (maxGid : Nat) :
    Except PErr Bytes :=
  match iftCharstringsOffset ift v2 with
  | none => .error (.invalidPatch (cffMissingMsg v2))
  | some at_ =>
    match table with
    | none => .error (.fontParsingFailed (.tableIsMissing (cffTag v2)))
    | some b =>
      match cffView v2 b at_ maxGid with
      | .error e => .error (.fontParsingFailed e)
      | .ok (ix, t0) =>
        match dedup (cffTag v2) gps with
        | .error e => .error (.patchParsingFailed e)
        | .ok repl =>
          match patchOffsetArray (cffArray ix t0) repl maxGid with
          | .error e => .error e
          | .ok (t, data, offs) => .ok (cffAssemble v2 b at_ ix.count t data offs)

end FontVerif.Ift
