/-
The lazily filled slots of `UnscaledStyleMetricsSet::Lazy` (skrifa/src/outline/autohint/metrics/mod.rs,
`get`, `lazy`): a vector of `Option<UnscaledStyleMetrics>` behind an `RwLock`, shared by every thread
that draws through one autohinting `HintingInstance`.  One slot, any number of threads, every
interleaving of the lock-protected actions.

The value a thread computes for a slot is a pure function of (font, coords, style): every thread
computes the same `final`.  `other` stands for any different value (a placeholder).
-/
import FontVerif.Model.Base
namespace FontVerif.LazySlot

/-- the actions of one call of `get` (extracted by translate/c12_wbr.py as `lazyGetSrc`) -/
inductive Act
  | readLock | readSlot | returnIfSome | unlock | compute | writeLock | storeFinal | storeOther
  | returnComputed | returnOther
deriving DecidableEq, Repr

def Act.ofString : String → Option Act
  | "readLock" => some .readLock
  | "readSlot" => some .readSlot
  | "returnIfSome" => some .returnIfSome
  | "unlock" => some .unlock
  | "compute" => some .compute
  | "writeLock" => some .writeLock
  | "storeFinal" => some .storeFinal
  | "storeOther" => some .storeOther
  | "returnComputed" => some .returnComputed
  | "returnOther" => some .returnOther
  | _ => none

/-- `get`, `Self::Lazy` arm, as written: read lock; look at the slot; return a clone if it is `Some`;
drop the lock; compute; write lock; store `Some(computed)`; return the computed value (the write guard
is dropped at the end of the function) -/
def lazyGetModel : List Act :=
  [.readLock, .readSlot, .returnIfSome, .unlock, .compute, .writeLock, .storeFinal, .returnComputed]

structure Thread where
  pc : Nat
  /-- what `readSlot` saw -/
  seen : Option (Option Nat)
  /-- what `compute` produced -/
  mine : Option Nat
  /-- the value `get` returned -/
  ret : Option (Option Nat)
  holdsRead : Bool
  holdsWrite : Bool
deriving DecidableEq, Repr

def Thread.start : Thread := ⟨0, none, none, none, false, false⟩

structure Sys where
  slot : Option Nat
  readers : Nat
  writer : Bool
  threads : List Thread
deriving DecidableEq, Repr

def Sys.start (n : Nat) : Sys := ⟨none, 0, false, List.replicate n Thread.start⟩

/-- a thread that has returned releases its guards -/
def release (s : Sys) (t : Thread) : Sys × Thread :=
  ({ s with readers := if t.holdsRead then s.readers - 1 else s.readers,
            writer := if t.holdsWrite then false else s.writer },
   { t with holdsRead := false, holdsWrite := false })

/-- one atomic action of thread `t` (a thread that cannot get the lock does not move) -/
def stepThread (proto : List Act) (final other : Nat) (s : Sys) (t : Thread) : Sys × Thread :=
  if t.ret.isSome then (s, t) else
  match proto[t.pc]? with
  | none => (s, t)
  | some .readLock =>
    if s.writer then (s, t) else ({ s with readers := s.readers + 1 }, { t with pc := t.pc + 1, holdsRead := true })
  | some .writeLock =>
    if s.writer || s.readers != 0 then (s, t) else ({ s with writer := true }, { t with pc := t.pc + 1, holdsWrite := true })
  | some .readSlot => (s, { t with pc := t.pc + 1, seen := some s.slot })
  | some .returnIfSome =>
    match t.seen with
    | some (some v) => release s { t with pc := t.pc + 1, ret := some (some v) }
    | _ => (s, { t with pc := t.pc + 1 })
  | some .unlock => let r := release s t; (r.1, { r.2 with pc := t.pc + 1 })
  | some .compute => (s, { t with pc := t.pc + 1, mine := some final })
  | some .storeFinal => ({ s with slot := t.mine }, { t with pc := t.pc + 1 })
  | some .storeOther => ({ s with slot := some other }, { t with pc := t.pc + 1 })
  | some .returnComputed => release s { t with pc := t.pc + 1, ret := some t.mine }
  | some .returnOther => release s { t with pc := t.pc + 1, ret := some (some other) }

def step (proto : List Act) (final other : Nat) (s : Sys) (i : Nat) : Sys :=
  match s.threads[i]? with
  | none => s
  | some t =>
    let r := stepThread proto final other s t
    { r.1 with threads := r.1.threads.set i r.2 }

/-- run a schedule (a list of thread numbers) -/
def run (proto : List Act) (final other : Nat) (s : Sys) (sched : List Nat) : Sys :=
  sched.foldl (step proto final other) s

end FontVerif.LazySlot
