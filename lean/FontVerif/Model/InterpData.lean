/-
C02 core 1d — ALL data opcodes of skrifa's TrueType interpreter as one concrete instance of `Cfg.sem`
(Model/Interp.lean): no opcode is "an arbitrary function that returns" any more.

Transcribed from (all under /repo/skrifa/src/outline/glyf/hint):
* engine/dispatch.rs `dispatch_inner` (which handler each opcode byte reaches)
* engine/stack.rs + value_stack.rs (`push`, `pop`, `pop_usize`, `dup`, `swap`, `roll`, `copy_index`, `move_index`,
  `push_inline_operands`, `apply_unary`, `apply_binary`)
* engine/arith.rs, engine/logical.rs, engine/round.rs (values through hint/math.rs = Model/HintMath.lean, rounding
  through the parameter `Arith.round` = `RoundState::round`, Model/HintRound.lean)
* engine/storage.rs, engine/cvt.rs, storage.rs, cvt.rs, cow_slice.rs (`CowSlice::{get, set, len}` incl. the
  `copy_from_slice` of the first write)
* engine/graphics.rs (vector / reference point / zone pointer / round state / cut-in / delta base+shift / INSTCTRL /
  SCANCTRL / SCANTYPE setters, `super_round`)
* engine/data.rs (GC, SCFS, MD, MPPEM, MPS), engine/outline.rs (MDAP, MIAP, MDRP, MIRP, MSIRP, ALIGNPTS, ISECT, UTP and,
  through Model/InterpLoops.lean, the loop-carrying opcodes), engine/delta.rs, engine/misc.rs (GETINFO, GETVARIATION,
  GETDATA), zone.rs (`Zone::{point, point_mut, original, original_mut, unscaled, touch, untouch}`,
  `GraphicsState::{in_bounds, move_point, move_original}`)

What is modelled: every value-stack access, every index into a zone / the cvt / the storage area with its bounds
check, the error kind it raises (pedantic mode) or what the code does instead (non-pedantic mode), every register the
checks depend on, and the VALUES that flow back to the value stack (storage, cvt, arithmetic, GETINFO, MPPEM, …).
Point COORDINATES are not modelled: an opcode that pushes a value computed from coordinates (GC, MD) pushes
`Arith.coord k`, a vector computed from points or by `normalize14` is `Arith.vec k`; the theorems quantify over `Arith`.
The ghost flags `pend` / `taint` tell the correspondence driver when such a value is live (it then stops comparing).

Rust panic sites inside the data opcodes are modelled as the error `E_PANIC` and proved unreachable
(Props/C02Data.lean): `copy_from_slice` in `CowSlice::set` (length mismatch), the raw `self.values[..]` accesses of
`copy_index` / `move_index`, `1 << (6 - delta_shift)` in DELTAP/DELTAC, `self.points.len() - 1` in `Zone::iup`, and an
operand count that does not match the handler (`arity` vs `effect`).
-/
import FontVerif.Model.InterpLoops
import FontVerif.Model.HintMath
namespace FontVerif.InterpData
open FontVerif FontVerif.Interp FontVerif.InterpLoops

def E_STORAGE : Err := .data 1008      -- InvalidStorageIndex
def E_DIVZERO : Err := .data 1009      -- DivideByZero
/-- a Rust panic (index out of bounds, `copy_from_slice` length mismatch, shift overflow, `usize` underflow) -/
def E_PANIC : Err := .data 1999

/-! ## CowSlice (cow_slice.rs) with values -/

structure Cow where
  data : List Int
  dataMut : List Int
  useMut : Bool
deriving Repr, DecidableEq, Inhabited

/-- `CowSlice::get` -/
def Cow.get (c : Cow) (i : Nat) : Option Int := if c.useMut then c.dataMut[i]? else c.data[i]?

/-- `CowSlice::len` -/
def Cow.len (c : Cow) : Nat := if c.useMut then c.dataMut.length else c.data.length

/-- `CowSlice::set`: the first write copies `data` into `data_mut` (`copy_from_slice` PANICS when the lengths differ);
    `Some(())` = `true`, `None` (index out of range) = `false` -/
def Cow.set (c : Cow) (i : Nat) (v : Int) : Except Err (Cow × Bool) :=
  if !c.useMut && c.data.length != c.dataMut.length then .error E_PANIC
  else
    let m := if c.useMut then c.dataMut else c.data
    if i < m.length then .ok ({ c with dataMut := m.set i v, useMut := true }, true)
    else .ok ({ c with dataMut := m, useMut := true }, false)

/-- `CowSlice::new` succeeded (equal lengths) or `new_mut` -/
def Cow.Ok (c : Cow) : Prop := c.useMut = true ∨ c.data.length = c.dataMut.length

/-! ## what the model does not compute -/

structure Arith where
  /-- `RoundState::round` of `{mode, threshold, phase, period}` (total: Props/C20 `roundStateRound_no_trap`) -/
  round : (mode thr ph per d : Int) → Int
  /-- the k-th value computed from point coordinates (GC, MD) -/
  coord : Nat → Int
  /-- the k-th unit vector computed from points or by `normalize14` -/
  vec : Nat → Int × Int
  /-- `is_touched` of the k-th IUP -/
  touched : Nat → Nat → Bool

/-! ## the data state -/

structure F where
  g : G                                   -- registers and sizes deciding the loop-carrying opcodes
  prog : Nat := 0                         -- `program.initial`
  storage : Cow
  cvt : Cow
  pv : Int × Int := (0x4000, 0)           -- `proj_vector` (= `dual_proj_vector` as far as values reach the stack)
  fv : Int × Int := (0x4000, 0)           -- `freedom_vector`; `g.fvX` / `g.fvY` are its `!= 0` tests
  rmode : Int := 0                        -- `round_state` (mode numbering of Model/HintRound.lean)
  rthr : Int := 0
  rphase : Int := 0
  rperiod : Int := 64
  scale : Int := 0
  smooth : Bool := false                  -- `target.is_smooth()`
  vertLcd : Bool := false
  symmetric : Bool := false
  grayCt : Bool := false
  preserveLinear : Bool := false
  isRotated : Bool := false
  isStretched : Bool := false
  instructControl : Nat := 0              -- u8
  deltaShift : Nat := 3                   -- u16
  axes : Nat := 0                         -- `axis_count` (u16)
  coords : List Int := []                 -- normalized coordinates (F2Dot14 bits)
  nAbs : Nat := 0                         -- GHOST: oracle values consumed
  pend : Bool := false                    -- GHOST: the last data opcode left ONE oracle value on top of the stack
  taint : Bool := false                   -- GHOST: an oracle value reached state that later checks may depend on
deriving Repr, Inhabited

/-! ## stack plumbing -/

/-- `n` × `value_stack.pop()?`; the popped values in pop order -/
def popN (ped : Bool) : Nat → List Int → Except Err (List Int × List Int)
  | 0, vs => .ok ([], vs)
  | n + 1, vs =>
    match pop ped vs with
    | .error e => .error e
    | .ok (v, vs) =>
      match popN ped n vs with
      | .error e => .error e
      | .ok (as, vs) => .ok (v :: as, vs)

/-- `push(v0)?; push(v1)?; …` (the stack is dropped on error, so only the total matters) -/
def pushAll (cap : Nat) (vs : List Int) (outs : List Int) : Except Err (List Int) :=
  if vs.length + outs.length ≤ cap then .ok (outs.reverse ++ vs) else .error .vsOverflow

/-- bit `k` of an `i32` seen as `u32` -/
def bit (v : Int) (k : Nat) : Bool := ((v % 4294967296).toNat / 2 ^ k) % 2 == 1

/-- number of values an opcode pops before it does anything else (the opcodes handled by `effect`) -/
def arity (op : Nat) : Nat :=
  if op ≤ 0x05 then 0
  else if op ≤ 0x0B then 2
  else if op ≤ 0x0E then 0
  else if op = 0x0F then 5
  else if op = 0x18 ∨ op = 0x19 then 0
  else if op = 0x1A ∨ op = 0x1D ∨ op = 0x1E ∨ op = 0x1F then 1
  else if op = 0x27 then 2
  else if op = 0x29 ∨ op = 0x2E ∨ op = 0x2F then 1
  else if op = 0x3A ∨ op = 0x3B ∨ op = 0x3E ∨ op = 0x3F then 2
  else if op = 0x3D then 0
  else if op = 0x42 ∨ op = 0x44 ∨ op = 0x48 ∨ op = 0x49 ∨ op = 0x4A then 2
  else if op = 0x43 ∨ op = 0x45 ∨ op = 0x46 ∨ op = 0x47 ∨ op = 0x4F then 1
  else if 0x4B ≤ op ∧ op ≤ 0x4E then 0
  else if 0x50 ≤ op ∧ op ≤ 0x55 then 2
  else if op = 0x56 ∨ op = 0x57 ∨ op = 0x5C ∨ op = 0x5E ∨ op = 0x5F then 1
  else if op = 0x5A ∨ op = 0x5B then 2
  else if 0x60 ≤ op ∧ op ≤ 0x63 then 2
  else if 0x64 ≤ op ∧ op ≤ 0x6B then 1
  else if 0x6C ≤ op ∧ op ≤ 0x6F then 0
  else if op = 0x70 then 2
  else if op = 0x76 ∨ op = 0x77 ∨ op = 0x7E ∨ op = 0x7F ∨ op = 0x85 ∨ op = 0x88 ∨ op = 0x8D then 1
  else if op = 0x86 ∨ op = 0x87 ∨ op = 0x8B ∨ op = 0x8C ∨ op = 0x8E then 2
  else if 0xC0 ≤ op ∧ op ≤ 0xDF then 1
  else if 0xE0 ≤ op ∧ op ≤ 0xFF then 2
  else 0

abbrev ER := Except Err (List Int × F)

/-- the error kinds the fixed-arity opcodes raise (a closed type: none of them is a panic) -/
inductive DErr
  | point | cvt | storage | divzero | stackval
deriving Repr, DecidableEq

def DErr.toErr : DErr → Err
  | .point => E_POINT
  | .cvt => E_CVT
  | .storage => E_STORAGE
  | .divzero => E_DIVZERO
  | .stackval => E_STACKVAL

/-- what a fixed-arity opcode may change: registers, vectors, round state, delta base / shift, the two flags, ONE
    storage or cvt write, and the ghosts.  Zone sizes, stack capacity, table lengths are not in here. -/
structure Upd where
  rp : Option (Nat × Nat × Nat) := none              -- (rp0, rp1, rp2)
  pv : Option (Int × Int) := none
  fv : Option (Int × Int) := none
  round : Option (Int × Int × Int × Int) := none     -- (mode, threshold, phase, period)
  deltaBase : Option Nat := none
  deltaShift : Option Nat := none
  bc : Option Bool := none
  instructControl : Option Nat := none
  stoSet : Option (Nat × Int) := none                -- `storage.set(i, v)` was called
  cvtSet : Option (Nat × Int) := none                -- `cvt.set(i, v)` was called
  absUsed : Nat := 0                                 -- GHOST: oracle values consumed
  pend : Bool := false
  taint : Bool := false
deriving Repr, Inhabited

/-- `CowSlice::set` once the copy is known not to panic: copy on first write, then store if in range -/
def Cow.write (c : Cow) (i : Nat) (v : Int) : Cow :=
  let m := if c.useMut then c.dataMut else c.data
  { c with dataMut := if i < m.length then m.set i v else m, useMut := true }

def Cow.okb (c : Cow) : Bool := c.useMut || c.data.length == c.dataMut.length

/-- apply an update.  (`delta_shift` is only ever produced by SDS, which has checked `≤ 6`; the re-check here is
    redundant and makes the invariant `deltaShift ≤ 6` syntactic.) -/
def F.apply (f : F) (u : Upd) : F :=
  let g := f.g
  let g := match u.rp with | some (a, b, c) => { g with rp0 := a, rp1 := b, rp2 := c } | none => g
  let g := match u.fv with | some v => { g with fvX := v.1 != 0, fvY := v.2 != 0 } | none => g
  let g := match u.deltaBase with | some n => { g with deltaBase := n } | none => g
  let g := match u.bc with | some b => { g with bc := b } | none => g
  { f with
    g := g
    pv := u.pv.getD f.pv
    fv := u.fv.getD f.fv
    rmode := match u.round with | some r => r.1 | none => f.rmode
    rthr := match u.round with | some r => r.2.1 | none => f.rthr
    rphase := match u.round with | some r => r.2.2.1 | none => f.rphase
    rperiod := match u.round with | some r => r.2.2.2 | none => f.rperiod
    deltaShift := match u.deltaShift with | some n => if n ≤ 6 then n else f.deltaShift | none => f.deltaShift
    instructControl := u.instructControl.getD f.instructControl
    storage := match u.stoSet with | some (i, v) => f.storage.write i v | none => f.storage
    cvt := match u.cvtSet with | some (i, v) => f.cvt.write i v | none => f.cvt
    nAbs := f.nAbs + u.absUsed
    pend := u.pend
    taint := f.taint || u.taint }

abbrev UR := Except DErr (List Int × Upd)

/-- `Zone::point(i)?` etc. on zone `z` -/
def ptD (f : F) (z i : Nat) : Except DErr Unit := if i < f.g.zoneLen z then .ok () else .error .point

/-- both checks, first failure wins (both raise InvalidPointIndex) -/
def pt2D (f : F) (z1 i1 z2 i2 : Nat) : Except DErr Unit :=
  if i1 < f.g.zoneLen z1 ∧ i2 < f.g.zoneLen z2 then .ok () else .error .point

/-- `Engine::super_round(grid_period, selector)` (all intermediate values are small: Props/C20 `superRound_small`) -/
def superRound (gridPeriod selector : Int) : Int × Int × Int :=
  let f76 := selector / 64 % 4
  let f54 := selector / 16 % 4
  let f30 := selector % 16
  let period := if f76 = 0 then Int.tdiv gridPeriod 2 else if f76 = 2 then gridPeriod * 2 else gridPeriod
  let phase := if f54 = 0 then 0 else if f54 = 1 then Int.tdiv period 4 else if f54 = 2 then Int.tdiv period 2
               else Int.tdiv (period * 3) 4
  let threshold := if f30 = 0 then period - 1 else Int.tdiv ((f30 - 4) * period) 8
  (period / 256, phase / 256, threshold / 256)

/-- GETINFO's answer -/
def getInfo (f : F) (sel : Int) : Int :=
  (if bit sel 0 then 40 else 0)
  + (if bit sel 1 && f.isRotated then 256 else 0)
  + (if bit sel 2 && f.isStretched then 512 else 0)
  + (if bit sel 3 && f.axes != 0 then 1024 else 0)
  + (if f.smooth then
      (if bit sel 6 then 8192 else 0)
      + (if bit sel 8 && f.vertLcd then 32768 else 0)
      + (if bit sel 10 then 131072 else 0)
      + (if bit sel 11 && f.symmetric then 262144 else 0)
      + (if bit sel 12 && f.grayCt then 524288 else 0)
     else 0)

/-- no push, update `u` -/
def upd (u : Upd) : UR := .ok ([], u)
/-- no push, no change -/
def nop : UR := .ok ([], {})
/-- push values, no change -/
def out (vs : List Int) : UR := .ok (vs, {})

/-- one abstract value on top of the stack (GC, MD) -/
def pushCoord (A : Arith) (f : F) : UR := .ok ([A.coord f.nAbs], { absUsed := 1, pend := true })
/-- a new abstract projection / freedom vector -/
def absPv (A : Arith) (f : F) : Upd := { pv := some (A.vec f.nAbs), absUsed := 1, taint := true }
def absFv (A : Arith) (f : F) : Upd := { fv := some (A.vec f.nAbs), absUsed := 1, taint := true }

/-- `x as i16 as i32` -/
def asI16 (v : Int) : Int := wrapI16 v

/-- **the opcodes that pop a fixed number of operands, check, update registers and push results**:
    `args` = the popped values in pop order (`arity op` of them: `a0` was popped first), result = (values to push in
    push order, update). -/
def effect (A : Arith) (ped : Bool) (op : Nat) (args : List Int) (f : F) : UR :=
  let g := f.g
  let a0 := args.getD 0 0
  let a1 := args.getD 1 0
  -- SVTCA / SPVTCA / SFVTCA
  if op ≤ 0x05 then
    let v : Int × Int := if op % 2 = 1 then (0x4000, 0) else (0, 0x4000)
    upd { pv := if op < 4 then some v else none, fv := if op % 4 < 2 then some v else none }
  -- SPVTL / SFVTL: `index1 = pop, index2 = pop; zp1.point(index2)?; zp2.point(index1)?`
  else if op ≤ 0x09 then
    match pt2D f g.zp1 (asUsize a1) g.zp2 (asUsize a0) with
    | .error e => .error e
    | .ok _ => upd (if op < 8 then absPv A f else absFv A f)
  -- SPVFS / SFVFS: `y = pop, x = pop`; `(x, y) == (0, 0)` keeps the vector, anything else is normalized
  else if op = 0x0A ∨ op = 0x0B then
    if asI16 a1 = 0 ∧ asI16 a0 = 0 then nop
    else upd (if op = 0x0A then absPv A f else absFv A f)
  -- GPV / GFV
  else if op = 0x0C then out [f.pv.1, f.pv.2]
  else if op = 0x0D then out [f.fv.1, f.fv.2]
  -- SFVTPV
  else if op = 0x0E then upd { fv := some f.pv }
  -- ISECT: pops b1, b0, a1, a0, point; a0, a1 in zp1; b0, b1 in zp0; the moved point in zp2 (`point_mut`, `touch`)
  else if op = 0x0F then
    match pt2D f g.zp1 (asUsize (args.getD 3 0)) g.zp1 (asUsize (args.getD 2 0)) with
    | .error e => .error e
    | .ok _ =>
      match pt2D f g.zp0 (asUsize a1) g.zp0 (asUsize a0) with
      | .error e => .error e
      | .ok _ =>
        match ptD f g.zp2 (asUsize (args.getD 4 0)) with
        | .error e => .error e
        | .ok _ => nop
  -- RTG / RTHG / RTDG / ROFF / RUTG / RDTG
  else if op = 0x18 ∨ op = 0x19 ∨ op = 0x3D ∨ op = 0x7A ∨ op = 0x7C ∨ op = 0x7D then
    upd { round := some (if op = 0x18 then 0 else if op = 0x19 then 1 else if op = 0x3D then 2
                         else if op = 0x7A then 5 else if op = 0x7C then 4 else 3, f.rthr, f.rphase, f.rperiod) }
  -- SMD / SCVTCI / SSWCI / SSW / SANGW / SCANCTRL / SCANTYPE / DEBUG: pop one value into state no check depends on
  else if op = 0x1A ∨ op = 0x1D ∨ op = 0x1E ∨ op = 0x1F ∨ op = 0x7E ∨ op = 0x85 ∨ op = 0x8D ∨ op = 0x4F then nop
  -- ALIGNPTS: `p2 = pop, p1 = pop; zp0.point(p2)?, zp1.point(p1)?, move_point(zp1, p1), move_point(zp0, p2)`
  else if op = 0x27 then
    match pt2D f g.zp0 (asUsize a0) g.zp1 (asUsize a1) with
    | .error e => .error e
    | .ok _ => nop
  -- UTP: `untouch(p)` only when the freedom vector has a non-zero component
  else if op = 0x29 then
    if g.fvX || g.fvY then
      match ptD f g.zp0 (asUsize a0) with
      | .error e => .error e
      | .ok _ => nop
    else nop
  -- MDAP
  else if op = 0x2E ∨ op = 0x2F then
    let p := asUsize a0
    if !ped ∧ !inBounds g g.zp0 p then upd { rp := some (p, p, g.rp2) }
    else
      match ptD f g.zp0 p with
      | .error e => .error e
      | .ok _ => upd { rp := some (p, p, g.rp2) }
  -- MSIRP: `distance = pop, point = pop`; every path checks (zp1, point) and (zp0, rp0)
  else if op = 0x3A ∨ op = 0x3B then
    let p := asUsize a1
    if !ped ∧ !(inBounds g g.zp1 p && inBounds g g.zp0 g.rp0) then nop
    else
      match pt2D f g.zp1 p g.zp0 g.rp0 with
      | .error e => .error e
      | .ok _ => upd { rp := some (if op % 2 = 1 then p else g.rp0, g.rp0, p) }
  -- MIAP: `cvt_entry = pop, point = pop`; `cvt.get(cvt_entry)?` first, then the point of zp0
  else if op = 0x3E ∨ op = 0x3F then
    let p := asUsize a1
    match f.cvt.get (asUsize a0) with
    | none => .error .cvt
    | some _ =>
      match ptD f g.zp0 p with
      | .error e => .error e
      | .ok _ => upd { rp := some (p, p, g.rp2) }
  -- WS: `value = pop, location = pop`
  else if op = 0x42 then
    if ped ∧ !(asUsize a1 < f.storage.len) then .error .storage else upd { stoSet := some (asUsize a1, a0) }
  -- RS
  else if op = 0x43 then
    match f.storage.get (asUsize a0) with
    | some v => out [v]
    | none => if ped then .error .storage else out [0]
  -- WCVTP / WCVTF: `value = pop, location = pop`
  else if op = 0x44 ∨ op = 0x70 then
    if ped ∧ !(asUsize a1 < f.cvt.len) then .error .cvt
    else upd { cvtSet := some (asUsize a1, if op = 0x70 then HintMath.mul a0 f.scale else a0) }
  -- RCVT
  else if op = 0x45 then
    match f.cvt.get (asUsize a0) with
    | some v => out [v]
    | none => if ped then .error .cvt else out [0]
  -- GC
  else if op = 0x46 ∨ op = 0x47 then
    let p := asUsize a0
    if !ped ∧ !inBounds g g.zp2 p then out [0]
    else
      match ptD f g.zp2 p with
      | .error e => .error e
      | .ok _ => pushCoord A f
  -- SCFS: `value = pop, p = pop`
  else if op = 0x48 then
    match ptD f g.zp2 (asUsize a1) with
    | .error e => .error e
    | .ok _ => nop
  -- MD: `p1 = pop, p2 = pop`; the odd opcode measures current points; the even one original points (twilight) or
  -- UNSCALED points, which are read with `get(..).unwrap_or_default()`: no check at all
  else if op = 0x49 ∨ op = 0x4A then
    let p1 := asUsize a0
    let p2 := asUsize a1
    if !ped ∧ !(inBounds g g.zp0 p2 && inBounds g g.zp1 p1) then out [0]
    else if op = 0x49 ∨ g.zp0 = 0 ∨ g.zp1 = 0 then
      match pt2D f g.zp0 p2 g.zp1 p1 with
      | .error e => .error e
      | .ok _ => pushCoord A f
    else pushCoord A f
  -- MPPEM / MPS (`ppem.saturating_mul(64)`)
  else if op = 0x4B then out [(g.ppem : Int)]
  else if op = 0x4C then out [if (g.ppem : Int) * 64 > 2147483647 then 2147483647 else (g.ppem : Int) * 64]
  -- FLIPON / FLIPOFF (auto_flip: no check depends on it), NROUND, AA (its one argument is popped by `arity`)
  else if op = 0x4D ∨ op = 0x4E ∨ (0x6C ≤ op ∧ op ≤ 0x6F) ∨ op = 0x7F then nop
  -- LT LTEQ GT GTEQ EQ NEQ: `b = pop, a = pop`
  else if 0x50 ≤ op ∧ op ≤ 0x55 then
    let b := a0
    let a := a1
    out [b2i (if op = 0x50 then a < b else if op = 0x51 then a ≤ b else if op = 0x52 then a > b
              else if op = 0x53 then a ≥ b else if op = 0x54 then a = b else a ≠ b)]
  -- ODD / EVEN
  else if op = 0x56 ∨ op = 0x57 then
    out [b2i (A.round f.rmode f.rthr f.rphase f.rperiod a0 % 128 = (if op = 0x56 then 64 else 0))]
  -- AND / OR
  else if op = 0x5A ∨ op = 0x5B then
    out [b2i (if op = 0x5A then a1 ≠ 0 ∧ a0 ≠ 0 else a1 ≠ 0 ∨ a0 ≠ 0)]
  -- NOT
  else if op = 0x5C then out [b2i (a0 = 0)]
  -- SDB: `n as u16`
  else if op = 0x5E then upd { deltaBase := some (a0 % 65536).toNat }
  -- SDS: `n as u32 > 6` is InvalidStackValue
  else if op = 0x5F then
    if a0 < 0 ∨ a0 > 6 then .error .stackval else upd { deltaShift := some a0.toNat }
  -- ADD SUB DIV MUL: `b = pop, a = pop`
  else if 0x60 ≤ op ∧ op ≤ 0x63 then
    let b := a0
    let a := a1
    if op = 0x60 then out [wrapI32 (a + b)]
    else if op = 0x61 then out [wrapI32 (a - b)]
    else if op = 0x62 then (if b = 0 then .error .divzero else out [HintMath.mulDivNoRound a 64 b])
    else out [HintMath.mulDiv a b 64]
  -- ABS NEG FLOOR CEILING
  else if 0x64 ≤ op ∧ op ≤ 0x67 then
    out [if op = 0x64 then (if a0 < 0 then wrapI32 (-a0) else a0) else if op = 0x65 then wrapI32 (-a0)
         else if op = 0x66 then HintMath.floor a0 else HintMath.ceil a0]
  -- ROUND
  else if 0x68 ≤ op ∧ op ≤ 0x6B then out [A.round f.rmode f.rthr f.rphase f.rperiod a0]
  -- SROUND / S45ROUND
  else if op = 0x76 ∨ op = 0x77 then
    let r := superRound (if op = 0x76 then 0x4000 else 0x2D41) (a0 % 256)
    upd { round := some (if op = 0x76 then 6 else 7, r.2.2, r.2.1, r.1) }
  -- SDPVTL: originals and current points of (zp1, index2), (zp2, index1)
  else if op = 0x86 ∨ op = 0x87 then
    match pt2D f g.zp1 (asUsize a1) g.zp2 (asUsize a0) with
    | .error e => .error e
    | .ok _ => upd (absPv A f)
  -- GETINFO
  else if op = 0x88 then out [getInfo f a0]
  -- MAX / MIN: `b = pop, a = pop`
  else if op = 0x8B ∨ op = 0x8C then
    out [if op = 0x8B then (if a1 ≥ a0 then a1 else a0) else (if a1 ≤ a0 then a1 else a0)]
  -- INSTCTRL: `selector = pop as u32, value = pop as u32`
  else if op = 0x8E then
    let sel := (a0 % 4294967296).toNat
    let v := (a1 % 4294967296).toNat
    if sel < 1 ∨ sel > 3 then nop
    else
      let flag := 2 ^ (sel - 1)
      if v ≠ 0 ∧ v ≠ flag then nop
      else if sel = 3 ∧ f.preserveLinear then nop
      else if f.prog = 1 then
        -- `instruct_control &= !(flag as u8); instruct_control |= value as u8` (flag is one of 1, 2, 4; value 0 or flag)
        upd { instructControl := some ((if (f.instructControl / flag) % 2 = 1 then f.instructControl - flag
                                        else f.instructControl) + v) }
      else if f.prog = 2 ∧ sel = 3 then upd { bc := some (v != 4) }
      else nop
  -- GETVARIATION (`axis_count` values: the coordinates, padded with zeros) / GETDATA; with no axes both are handled
  -- by the control machine (`op_unknown`)
  else if op = 0x91 then out ((List.range f.axes).map (fun i => f.coords.getD i 0))
  else if op = 0x92 then out [17]
  -- MDRP: every path that does not return early checks (zp1, p) and (zp0, rp0)
  else if 0xC0 ≤ op ∧ op ≤ 0xDF then
    let p := asUsize a0
    let regs : Upd := { rp := some (if (op / 16) % 2 = 1 then p else g.rp0, g.rp0, p) }
    if !ped ∧ !(inBounds g g.zp1 p && inBounds g g.zp0 g.rp0) then upd regs
    else
      match pt2D f g.zp1 p g.zp0 g.rp0 with
      | .error e => .error e
      | .ok _ => upd regs
  -- MIRP: `n = pop().wrapping_add(1) as usize, p = pop`; cvt entry `n - 1` (none for n = 0), then the points
  else if 0xE0 ≤ op ∧ op ≤ 0xFF then
    let n := asUsize (wrapI32 (a0 + 1))
    let p := asUsize a1
    let regs : Upd := { rp := some (if (op / 16) % 2 = 1 then p else g.rp0, g.rp0, p) }
    if !ped ∧ (!(inBounds g g.zp1 p && inBounds g g.zp0 g.rp0) ∨ n > f.cvt.len) then upd regs
    else
      match (if n = 0 then some 0 else f.cvt.get (n - 1)) with
      | none => .error .cvt
      | some _ =>
        match pt2D f g.zp1 p g.zp0 g.rp0 with
        | .error e => .error e
        | .ok _ => upd regs
  else nop

/-- the opcodes `effect` handles -/
def isEffectOp (op : Nat) : Bool :=
  op ≤ 0x0F || op = 0x18 || op = 0x19 || op = 0x1A || op = 0x1D || op = 0x1E || op = 0x1F || op = 0x27 || op = 0x29
  || op = 0x2E || op = 0x2F || op = 0x3A || op = 0x3B || op = 0x3D || op = 0x3E || op = 0x3F
  || (0x42 ≤ op && op ≤ 0x57) || op = 0x5A || op = 0x5B || op = 0x5C || op = 0x5E || op = 0x5F
  || (0x60 ≤ op && op ≤ 0x70) || op = 0x76 || op = 0x77 || op = 0x7A || op = 0x7C || op = 0x7D || op = 0x7E || op = 0x7F
  || op = 0x85 || op = 0x86 || op = 0x87 || op = 0x88 || op = 0x8B || op = 0x8C || op = 0x8D || op = 0x8E
  || op = 0x91 || op = 0x92 || (0xC0 ≤ op && op ≤ 0xFF)

/-- the opcodes that call `CowSlice::set` on the storage area / the cvt -/
def writesStorage (op : Nat) : Bool := op = 0x42
def writesCvt (op : Nat) : Bool := op = 0x44 || op = 0x70

/-! ## DELTAC with cvt values (engine/delta.rs `op_deltac`) -/

/-- the exception loop of DELTAC: two pops per iteration; when the exception applies to the current ppem the cvt
    entry is read (`cvt.get(ix)?`) and rewritten (`cvt.set(ix, v + delta)?`) -/
def deltaCLoop (ped : Bool) (ppem bias shift : Nat) : Nat → List Int → Cow → Nat → Except Err (List Int × Cow × Nat)
  | 0, vs, c, k => .ok (vs, c, k)
  | n + 1, vs, c, k =>
    match pop ped vs with
    | .error e => .error e
    | .ok (ix, vs) =>
      match pop ped vs with
      | .error e => .error e
      | .ok (b, vs) =>
        if ppem = ((b % 4294967296).toNat / 16) % 16 + bias then
          match c.get (asUsize ix) with
          | none => .error E_CVT
          | some v =>
            -- `b = (b & 0xF) - 8; if b >= 0 { b += 1 }; b *= 1 << (6 - delta_shift)`
            let b1 := b % 16 - 8
            let b2 := if b1 ≥ 0 then b1 + 1 else b1
            match c.set (asUsize ix) (wrapI32 (v + b2 * 2 ^ (6 - shift))) with
            | .error e => .error e
            | .ok (c', ok) => if ok then deltaCLoop ped ppem bias shift n vs c' (k + 1) else .error E_CVT
        else deltaCLoop ped ppem bias shift n vs c (k + 1)

def opDeltaC (ped : Bool) (op : Nat) (vs : List Int) (f : F) : ER :=
  match pop ped vs with
  | .error e => .error e
  | .ok (n, vs) =>
    if n < 0 ∧ ped then .error E_STACKVAL
    else
      let n := min (if n < 0 then 0 else n.toNat) (vs.length / 2)
      let bias := (if op = 0x74 then 16 else if op = 0x75 then 32 else 0) + f.g.deltaBase
      match deltaCLoop ped f.g.ppem bias f.deltaShift n vs f.cvt 0 with
      | .error e => .error e
      | .ok (vs, c, k) => .ok (vs, { f with cvt := c, g := { f.g with iters := f.g.iters + k } })

/-! ## the complete data semantics -/

/-- ROLL: `a = pop; b = pop; c = pop; push(b); push(a); push(c)` -/
def opRoll (ped : Bool) (cap : Nat) (vs : List Int) : Except Err (List Int) :=
  match popN ped 3 vs with
  | .error e => .error e
  | .ok (args, vs) =>
    match args with
    | [a, b, c] => pushAll cap vs [b, a, c]
    | _ => .error E_PANIC

/-- **`dispatch_inner` for every opcode that is not a control opcode**, on a state whose `pend` ghost is cleared -/
def semCore (A : Arith) (ped : Bool) (op : Nat) (bytes : List Nat) (vs : List Int) (f : F) : ER :=
  let g := f.g
  -- pushes and DUP POP CLEAR SWAP DEPTH (Model/Interp.lean `semSubset`); a push copies its operands one by one
  if op = 0x40 ∨ op = 0x41 ∨ (0xB0 ≤ op ∧ op ≤ 0xBF) ∨ (0x20 ≤ op ∧ op ≤ 0x24) then
    match semSubset ped op bytes (vs, g.cap) with
    | .error e => .error e
    | .ok (vs', _) =>
      .ok (vs', if 0x20 ≤ op ∧ op ≤ 0x24 then f
                else { f with g := { g with iters := g.iters + (operandValues op bytes).length } })
  else if op = 0x8A then
    match opRoll ped g.cap vs with
    | .error e => .error e
    | .ok vs' => .ok (vs', f)
  -- CINDEX / MINDEX index `self.values[..]` directly: in range while `len ≤ values.len()`
  else if op = 0x25 ∨ op = 0x26 then
    if vs.length > g.cap then .error E_PANIC
    else
      match semLoopOp ped op vs g with
      | some (.ok (vs', g')) => .ok (vs', { f with g := g' })
      | some (.error e) => .error e
      | none => .error E_PANIC
  -- DELTAP / DELTAC: `1 << (6 - delta_shift)` (checked conservatively at entry)
  else if op = 0x5D ∨ op = 0x71 ∨ op = 0x72 then
    if f.deltaShift > 6 then .error E_PANIC
    else
      match semLoopOp ped op vs g with
      | some (.ok (vs', g')) => .ok (vs', { f with g := g' })
      | some (.error e) => .error e
      | none => .error E_PANIC
  else if op = 0x73 ∨ op = 0x74 ∨ op = 0x75 then
    if f.deltaShift > 6 then .error E_PANIC else opDeltaC ped op vs f
  -- IUP: `Zone::iup` computes `self.points.len() - 1` for every contour; its scans are counted
  else if op = 0x30 ∨ op = 0x31 then
    let run := !(g.bc && g.didX && g.didY)
    if run ∧ g.glyphContours ≠ [] ∧ g.glyphPts = 0 then .error E_PANIC
    else
      match semLoopOp ped op vs g with
      | some (.ok (vs', g')) =>
        .ok (vs', { f with nAbs := f.nAbs + 1
                           g := { g' with iters := g'.iters + (if run then InterpLoops.iup (A.touched f.nAbs) g.glyphPts g.glyphContours 0 0 else 0) } })
      | some (.error e) => .error e
      | none => .error E_PANIC
  -- the fixed-arity opcodes: pops, then the `copy_from_slice` of a first storage / cvt write, checks, pushes
  else if isEffectOp op then
    match popN ped (arity op) vs with
    | .error e => .error e
    | .ok (args, vs1) =>
      if (writesStorage op && !f.storage.okb) || (writesCvt op && !f.cvt.okb) then .error E_PANIC
      else
        match effect A ped op args f with
        | .error e => .error e.toErr
        | .ok (outs, u) =>
          match pushAll g.cap vs1 outs with
          | .error e => .error e
          | .ok vs' =>
            let f' := f.apply u
            .ok (vs', { f' with g := { f'.g with iters := f'.g.iters + outs.length } })
  -- the remaining loop-carrying opcodes and SRP / SZP / SLOOP (Model/InterpLoops.lean)
  else
    match semLoopOp ped op vs g with
    | some (.ok (vs', g')) => .ok (vs', { f with g := g' })
    | some (.error e) => .error e
    | none => .error (.data op)

/-- `Cfg.sem`: `pend` is cleared first (it only describes the result of the last data opcode) -/
def semAll (A : Arith) (ped : Bool) (op : Nat) (bytes : List Nat) (x : List Int × F) : ER :=
  semCore A ped op bytes x.1 { x.2 with pend := false }

/-! ## `Engine::reset` (engine/dispatch.rs) -/

/-- `Engine::reset(program, _)`: `graphics.reset()` puts everything except the retained state and the zones back to
    `Default` (vectors = x axis, round state, reference points, zone pointers, `loop_counter = 1`, IUP flags), then
    the program-specific part: the control value program runs without backward compatibility; a glyph program first
    drops the retained state when `instruct_control & 2`, then derives `backward_compatibility` from the target. -/
def F.reset (f : F) (prog : Nat) : F :=
  let f : F := if prog = 2 ∧ (f.instructControl / 2) % 2 = 1
               then { f with instructControl := 0, deltaShift := 3, g := { f.g with deltaBase := 9 } } else f
  let bc : Bool :=
    if prog = 0 then true
    else if prog = 1 then false
    else if f.preserveLinear then true
    else if f.smooth then (f.instructControl / 4) % 2 == 0
    else false
  { f with prog := prog, pv := (0x4000, 0), fv := (0x4000, 0), rmode := 0, rthr := 0, rphase := 0, rperiod := 64,
           pend := false,
           g := { f.g with loop := 1, zp0 := 1, zp1 := 1, zp2 := 1, rp0 := 0, rp1 := 0, rp2 := 0, bc := bc,
                           didX := false, didY := false, fvX := true, fvY := false } }

end FontVerif.InterpData
