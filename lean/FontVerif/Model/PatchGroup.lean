/-
Model of `incremental-font-transfer/src/patch_group.rs`: `GroupingByInvalidation::group_patches`,
`PatchGroup::{select_next_patches, select_next_patches_from_candidates,
select_invalidating_candidate, uris, has_uris, invalidating_patch_iter,
non_invalidating_patch_iter, apply_next_patches_with_decoder}`, `ScopedGroup::has_uris`, and the
`select → fetch → apply` extension loop of `src/bin/ift_extend.rs`.
Patch application itself (`apply_table_keyed_patch`, `apply_glyph_keyed_patches`: C18) is an
arbitrary partial function parameter.
-/
import FontVerif.Model.PatchMapDecode
import FontVerif.Model.UriTemplate
namespace FontVerif.PatchGroup
open FontVerif FontVerif.PatchMap FontVerif.UriTemplate

abbrev Uri := List Nat

/-- `PatchInfo` -/
structure PatchInfo where
  uri : Uri
  table : TableTag
  compat : Nat
  bit : Nat
  deriving Repr, DecidableEq, Inhabited

/-- `CandidatePatch` -/
structure Candidate where
  info : IntersectionInfo
  patch : PatchInfo
  deriving Repr, DecidableEq, Inhabited

/-- `TryFrom<PatchUri> for PatchInfo` / `for CandidatePatch` (`none` = `UriTemplateError`) -/
def toPatchInfo (u : PatchUri) : Option PatchInfo :=
  match uriString u with
  | none => none
  | some s => some { uri := s, table := u.table, compat := u.compat, bit := u.bit }

def toCandidate (u : PatchUri) : Option Candidate :=
  match toPatchInfo u with
  | none => none
  | some p => some { info := u.info, patch := p }

/-- byte-wise `String` order (`BTreeMap<String, _>` key order) -/
def uriLt : Uri → Uri → Bool
  | [], [] => false
  | [], _ :: _ => true
  | _ :: _, [] => false
  | a :: as, b :: bs => if a < b then true else if b < a then false else uriLt as bs

/-- `BTreeMap<String, NoInvalidationPatch>` as a key-sorted association list -/
abbrev UriMap := List (Uri × PatchInfo)

/-- `BTreeMap::insert`: an existing key keeps its place and gets the new value -/
def mapInsert (k : Uri) (v : PatchInfo) : UriMap → UriMap
  | [] => [(k, v)]
  | (k', v') :: rest =>
    if k = k' then (k', v) :: rest
    else if uriLt k k' then (k, v) :: (k', v') :: rest
    else (k', v') :: mapInsert k v rest

/-- `BTreeMap::remove` -/
def mapRemove (k : Uri) (m : UriMap) : UriMap := m.filter fun p => p.1 ≠ k

/-- `GroupingByInvalidation` -/
structure Grouping where
  full : List Candidate
  partialIft : List Candidate
  partialIftx : List Candidate
  noInvIft : UriMap
  noInvIftx : UriMap
  deriving Repr, Inhabited

def Grouping.empty : Grouping := ⟨[], [], [], [], []⟩

/-- one iteration of `group_patches` (`none` = template error) -/
def groupStep (iftId iftxId : Option Nat) (g : Grouping) (u : PatchUri) : Option Grouping :=
  match u.enc with
  | .tkFull =>
    match toCandidate u with
    | none => none
    | some c => some { g with full := g.full ++ [c] }
  | .tkPartial =>
    if some u.compat = iftId then
      match toCandidate u with
      | none => none
      | some c => some { g with partialIft := g.partialIft ++ [c] }
    else if some u.compat = iftxId then
      match toCandidate u with
      | none => none
      | some c => some { g with partialIftx := g.partialIftx ++ [c] }
    else some g
  | .glyphKeyed =>
    if some u.compat = iftId then
      match toPatchInfo u with
      | none => none
      | some p => some { g with noInvIft := mapInsert p.uri p g.noInvIft }
    else if some u.compat = iftxId then
      match toPatchInfo u with
      | none => none
      | some p => some { g with noInvIftx := mapInsert p.uri p g.noInvIftx }
    else some g

/-- `GroupingByInvalidation::group_patches` -/
def groupPatches (iftId iftxId : Option Nat) : Grouping → List PatchUri → Option Grouping
  | g, [] => some g
  | g, u :: us =>
    match groupStep iftId iftxId g u with
    | none => none
    | some g' => groupPatches iftId iftxId g' us

/-- `Iterator::max_by_key` with the `IntersectionInfo` order: the **last** maximal element -/
def maxByInfo : Option Candidate → List Candidate → Option Candidate
  | best, [] => best
  | none, c :: cs => maxByInfo (some c) cs
  | some b, c :: cs =>
    if b.info.cmp c.info = .gt then maxByInfo (some b) cs else maxByInfo (some c) cs

/-- `select_invalidating_candidate` -/
def selectInvalidating (cs : List Candidate) : Option Candidate := maxByInfo none cs

/-- `ScopedGroup` -/
inductive Scoped where
  | partialInv (p : PatchInfo)
  | noInv (m : UriMap)
  deriving Repr, Inhabited

/-- `CompatibleGroup` -/
inductive Group where
  | full (p : PatchInfo)
  | mixed (ift iftx : Scoped)
  deriving Repr, Inhabited

/-- `select_next_patches_from_candidates` -/
def selectFromCandidates (cands : List PatchUri) (iftId iftxId : Option Nat) : Except String Group :=
  match groupPatches iftId iftxId Grouping.empty cands with
  | none => .error "err:Malformed:Malformed_URI_templates."
  | some g =>
    match selectInvalidating g.full with
    | some c => .ok (.full c.patch)
    | none =>
      let iftSel := selectInvalidating g.partialIft
      let iftxSel := selectInvalidating (g.partialIftx.filter fun c =>
        match iftSel with
        | none => true
        | some s => s.patch.uri ≠ c.patch.uri)
      match iftSel, iftxSel with
      | some a, some b => .ok (.mixed (.partialInv a.patch) (.partialInv b.patch))
      | some a, none => .ok (.mixed (.partialInv a.patch) (.noInv (mapRemove a.patch.uri g.noInvIftx)))
      | none, some b => .ok (.mixed (.noInv (mapRemove b.patch.uri g.noInvIft)) (.partialInv b.patch))
      | none, none =>
        .ok (.mixed (.noInv g.noInvIft)
          (.noInv (g.noInvIftx.filter fun p => !(g.noInvIft.any fun q => q.1 = p.1))))

/-- compat id of a mapping table (`font.ift().ok().map(|t| t.compatibility_id())`) -/
def MapTable.compatId : MapTable → Option Nat
  | .none => none
  | .f1 t => some t.compat
  | .f2 t => some t.compat

/-- `PatchGroup::select_next_patches`: `none` group = no candidates -/
def selectNext (ift iftx : MapTable) (d : SubsetDef) : Except String (Option Group) :=
  match intersectingPatches ift iftx d with
  | .error e => .error e
  | .ok cands =>
    if cands.isEmpty then .ok none else
    if MapTable.compatId ift = MapTable.compatId iftx then .error "err:ValidationError" else
    match selectFromCandidates cands (MapTable.compatId ift) (MapTable.compatId iftx) with
    | .error e => .error e
    | .ok g => .ok (some g)

/-- `invalidating_patch_iter` -/
def Group.invalidating : Group → List PatchInfo
  | .full p => [p]
  | .mixed a b =>
    (match a with | .partialInv p => [p] | .noInv _ => []) ++
    (match b with | .partialInv p => [p] | .noInv _ => [])

/-- `non_invalidating_patch_iter` -/
def Group.nonInvalidating : Group → List PatchInfo
  | .full _ => []
  | .mixed a b =>
    (match a with | .partialInv _ => [] | .noInv m => m.map (·.2)) ++
    (match b with | .partialInv _ => [] | .noInv m => m.map (·.2))

/-- `PatchGroup::uris` -/
def Group.uris (g : Group) : List Uri := (g.invalidating ++ g.nonInvalidating).map (·.uri)

def optUris : Option Group → List Uri
  | none => []
  | some g => g.uris

/-- `PatchGroup::has_uris` -/
def hasUris : Option Group → Bool
  | none => false
  | some (.full _) => true
  | some (.mixed a b) =>
    (match a with | .partialInv _ => true | .noInv m => !m.isEmpty) ||
    (match b with | .partialInv _ => true | .noInv m => !m.isEmpty)

/-! ## applying a group -/

/-- `UriStatus` -/
inductive UriStatus where
  | applied
  | pending (data : List Nat)
  deriving Repr, DecidableEq, Inhabited

/-- `HashMap<String, UriStatus>` as an association list with unique keys -/
abbrev PatchData := List (Uri × UriStatus)

def pdGet (pd : PatchData) (u : Uri) : Option UriStatus :=
  match pd with
  | [] => none
  | (k, v) :: rest => if k = u then some v else pdGet rest u

/-- `*status = UriStatus::Applied` for an existing key -/
def pdSetApplied (pd : PatchData) (u : Uri) : PatchData :=
  pd.map fun p => if p.1 = u then (p.1, .applied) else p

/-- `HashMap::insert` -/
def pdInsert (pd : PatchData) (u : Uri) (s : UriStatus) : PatchData :=
  if pd.any (fun p => p.1 = u) then pd.map fun p => if p.1 = u then (p.1, s) else p
  else pd ++ [(u, s)]

/-- the pending data of the non-invalidating patches, or `none` if one is missing -/
def accumulate (pd : PatchData) : List PatchInfo → Option (List (PatchInfo × List Nat))
  | [] => some []
  | p :: ps =>
    match pdGet pd p.uri with
    | none => none
    | some .applied => accumulate pd ps
    | some (.pending data) =>
      match accumulate pd ps with
      | none => none
      | some acc => some ((p, data) :: acc)

/-- `apply_next_patches_with_decoder`.  `applyTk` / `applyGk` stand for
`apply_table_keyed_patch` / `apply_glyph_keyed_patches` on the group's font: arbitrary partial
functions returning the new font (type `F`) or a `PatchingError` (rendered as a string). -/
def applyNext {F : Type} (g : Option Group)
    (applyTk : PatchInfo → List Nat → Except String F)
    (applyGk : List (PatchInfo × List Nat) → Except String F)
    (pd : PatchData) : Except String (F × PatchData) :=
  let inv := match g with | none => [] | some g => g.invalidating
  let nonInv := match g with | none => [] | some g => g.nonInvalidating
  let rest : Unit → Except String (F × PatchData) := fun _ =>
    match accumulate pd nonInv with
    | none => .error "err:MissingPatches"
    | some acc =>
      if acc.isEmpty then .error "err:EmptyPatchList" else
      match applyGk acc with
      | .error e => .error e
      | .ok f => .ok (f, nonInv.foldl (fun pd p => pdSetApplied pd p.uri) pd)
  match inv.head? with
  | some p =>
    match pdGet pd p.uri with
    | none => .error "err:MissingPatches"
    | some (.pending data) =>
      match applyTk p data with
      | .error e => .error e
      | .ok f => .ok (f, pdSetApplied pd p.uri)
    | some .applied => rest ()
  | none => rest ()

def appliedCount (pd : PatchData) : Nat := (pd.filter fun p => p.2 = .applied).length

/-- the client of `src/bin/ift_extend.rs` (since fix 980e661): a selected uri is fetched (entered as
`Pending`) only if it has no status yet; already applied uris stay applied. -/
def fetchMissing (fetch : Uri → List Nat) (pd : PatchData) (uris : List Uri) : PatchData :=
  uris.foldl (fun pd u => match pdGet pd u with
    | some _ => pd
    | none => pd ++ [(u, .pending (fetch u))]) pd

/-- what `src/bin/ift_extend.rs` did before fix 980e661: `patch_data.insert(uri, Pending(bytes))`
for every selected uri, overwriting an `Applied` status (kept to state why that loops) -/
def fetchOverwrite (fetch : Uri → List Nat) (pd : PatchData) (uris : List Uri) : PatchData :=
  uris.foldl (fun pd u => pdInsert pd u (.pending (fetch u))) pd

/-- outcome of an extension run -/
inductive RunResult (F : Type) where
  | done (font : F) (pd : PatchData) (rounds : Nat)
  | failed (err : String) (rounds : Nat)
  | outOfFuel (font : F) (pd : PatchData)

/-- the extension loop: select; stop when the group has no uris; fetch; apply; repeat.
`select` and the two apply functions depend on the current font. -/
def extend {F : Type} (select : F → Except String (Option Group))
    (applyTk : F → PatchInfo → List Nat → Except String F)
    (applyGk : F → List (PatchInfo × List Nat) → Except String F)
    (fetch : Uri → List Nat) : Nat → Nat → F → PatchData → RunResult F
  | 0, _, font, pd => .outOfFuel font pd
  | fuel + 1, rounds, font, pd =>
    match select font with
    | .error e => .failed e rounds
    | .ok g =>
      if !hasUris g then .done font pd rounds else
      let pd1 := fetchMissing fetch pd (optUris g)
      match applyNext g (applyTk font) (applyGk font) pd1 with
      | .error e => .failed e rounds
      | .ok (font', pd') => extend select applyTk applyGk fetch fuel (rounds + 1) font' pd'

/-! ## the loop of `src/bin/ift_extend.rs` with a server that may fail

The statement skeleton of the binary's `loop { … }` is re-extracted from the source on every run by
translate/c19_extend.py (Gen/C19Extend.lean) and compared with the constants below
(Props/C19Extend.lean `extend_model_matches_source`). -/

/-- `for uri in next_patches.uris() { if patch_data.contains_key(uri) { continue; } … read …
patch_data.insert(uri, Pending(bytes)) }`: `none` = a fetch failed (the binary panics) -/
def fetchMissingOpt (fetch : Uri → Option (List Nat)) : PatchData → List Uri → Option PatchData
  | pd, [] => some pd
  | pd, u :: us =>
    match pdGet pd u with
    | some _ => fetchMissingOpt fetch pd us
    | none =>
      match fetch u with
      | none => none
      | some data => fetchMissingOpt fetch (pd ++ [(u, .pending data)]) us

/-- the loop: select (an `Err` ends the run); `if !has_uris() { break }`; fetch what has no status
yet (a failed fetch ends the run); apply (an `Err` ends the run); the new font and the status map are
carried into the next round -/
def extendF {F : Type} (select : F → Except String (Option Group))
    (applyTk : F → PatchInfo → List Nat → Except String F)
    (applyGk : F → List (PatchInfo × List Nat) → Except String F)
    (fetch : Uri → Option (List Nat)) : Nat → Nat → F → PatchData → RunResult F
  | 0, _, font, pd => .outOfFuel font pd
  | fuel + 1, rounds, font, pd =>
    match select font with
    | .error e => .failed e rounds
    | .ok g =>
      if !hasUris g then .done font pd rounds else
      match fetchMissingOpt fetch pd (optUris g) with
      | none => .failed "err:fetch-failed" rounds
      | some pd1 =>
        match applyNext g (applyTk font) (applyGk font) pd1 with
        | .error e => .failed e rounds
        | .ok (font', pd') => extendF select applyTk applyGk fetch fuel (rounds + 1) font' pd'

/-- the steps of one iteration of `extendF`, in order (names as translate/c19_extend.py gives them) -/
def extendSteps : List String :=
  ["parse-font", "select", "exit-test", "uris", "status-lookup", "fetch", "status-insert-pending", "apply"]
/-- the steps of `extendF` whose failure ends the run with an error -/
def extendFailing : List String := ["parse-font", "select", "fetch", "apply"]
/-- what `extendF` carries from one round to the next (`rounds`, the font, the status map) -/
def extendCarried : List String := ["font_bytes", "it_count", "patch_data"]
/-- one exit (`!has_uris`), one skip (`contains_key`), no early return, one status-map write, no `?` -/
def extendControlFlow : List Nat := [1, 1, 0, 1, 0]

end FontVerif.PatchGroup
