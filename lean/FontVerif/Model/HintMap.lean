/-
C02 — the CFF hinter's hint map (`skrifa/src/outline/cff/hint.rs`, `struct HintMap`, `fn insert`).

`HintMap` stores its edges in a FIXED array `edges: [Hint; MAX_HINTS]` (MAX_HINTS = 96) with `len` active entries.
`insert` is called once per stem hint of a charstring (font controlled: up to 96 stems, each one or two edges, in any
order, plus synthetic edges), so every array access below is a potential `index out of bounds` PANIC.  The model
keeps the array as a list of exactly 96 slots and makes every indexed read / write CHECKED (`none` = the Rust
panics), transcribing the control flow of `insert` statement by statement for the case `initial = None` (the
branch that recomputes device-space positions through the initial map only changes `ds` values, never an index).
-/
import FontVerif.Model.Base
namespace FontVerif.HintMap

/-- `const MAX_HINTS: usize = 96` -/
def MAX_HINTS : Nat := 96

/-- `struct Hint` (`index` and `scale` do not influence `insert`) -/
structure Hint where
  flags : Nat
  cs : Int
  ds : Int
deriving Repr, DecidableEq, Inhabited

def PAIR_TOP : Nat := 8
def LOCKED : Nat := 16

/-- `Hint::is_valid`: `flags != 0` -/
def Hint.isValid (h : Hint) : Bool := h.flags != 0
/-- `Hint::is_pair_top`: `flags & PAIR_TOP != 0` -/
def Hint.isPairTop (h : Hint) : Bool := (h.flags / 8) % 2 == 1

/-- `struct HintMap { edges: [Hint; MAX_HINTS], len, .. }`; `edges` always has 96 slots -/
structure Map where
  edges : List Hint
  len : Nat
deriving Repr, DecidableEq

/-- `HintMap::new` -/
def Map.new : Map := { edges := List.replicate MAX_HINTS default, len := 0 }

/-- `self.edges[i]` (read): panics when `i >= 96` -/
def getAt (l : List Hint) (i : Nat) : Option Hint := l[i]?

/-- `self.edges[i] = h`: panics when `i >= 96` -/
def setAt (l : List Hint) (i : Nat) (h : Hint) : Option (List Hint) :=
  if i < l.length then some (l.set i h) else none

/-- `while insert_ix < self.len { if self.edges[insert_ix].cs_coord >= first_edge.cs_coord { break; } insert_ix += 1; }`
    (fuel = number of remaining iterations, `len - ix`) -/
def findIx (edges : List Hint) (len : Nat) (cs : Int) (ix : Nat) : Nat → Option Nat
  | 0 => some ix
  | fuel + 1 =>
    if ix < len then
      match getAt edges ix with
      | none => none
      | some e => if e.cs ≥ cs then some ix else findIx edges len cs (ix + 1) fuel
    else some ix

/-- the make-room loop
    `loop { self.edges[dst_index] = self.edges[src_index]; if src_index == insert_ix { break; } src_index -= 1; dst_index -= 1; }`
    with `src_index = ix + d`, `dst_index = src_index + cnt` (the distance `edge_count` is constant) -/
def shiftUp (edges : List Hint) (ix cnt : Nat) : Nat → Option (List Hint)
  | 0 =>
    match getAt edges ix with
    | none => none
    | some v => setAt edges (ix + cnt) v
  | d + 1 =>
    match getAt edges (ix + (d + 1)) with
    | none => none
    | some v =>
      match setAt edges (ix + (d + 1) + cnt) v with
      | none => none
      | some e => shiftUp e ix cnt d

/-- the capacity check of `insert`: `self.len + edge_count > MAX_HINTS` ("Won't fit. Again, ignore.") -/
def wontFit (len cnt : Nat) : Bool := len + cnt > MAX_HINTS

/-- the three "discard" tests of `insert` once the insertion index is known: overlap in character space with the
    edge at `ix`, then (no initial map: `ds` unchanged) overlap in device space with the edge below and the edge at
    `ix`.  `some true` = the hint is ignored; `none` = index panic. -/
def discard (m : Map) (first second : Hint) (isPair : Bool) (ix : Nat) : Option Bool :=
  let csOverlap : Option Bool :=
    if ix < m.len then
      match getAt m.edges ix with
      | none => none
      | some cur => some (cur.cs == first.cs || (isPair && cur.cs ≤ second.cs) || cur.isPairTop)
    else some false
  match csOverlap with
  | none => none
  | some true => some true
  | some false =>
    let below : Option Bool :=
      if ix > 0 then
        match getAt m.edges (ix - 1) with
        | none => none
        | some prev => some (first.ds < prev.ds)
      else some false
    match below with
    | none => none
    | some true => some true
    | some false =>
      if ix < m.len then
        match getAt m.edges ix with
        | none => none
        | some cur => some ((isPair && second.ds > cur.ds) || first.ds > cur.ds)
      else some false

/-- "If we're inserting in the middle, make room in the edge array", then
    `self.edges[insert_ix] = first_edge; if is_pair { self.edges[insert_ix + 1] = second_edge; } self.len += edge_count;` -/
def place (m : Map) (first second : Hint) (isPair : Bool) (cnt ix : Nat) : Option Map :=
  let moved : Option (List Hint) :=
    if ix != m.len then shiftUp m.edges ix cnt (m.len - 1 - ix) else some m.edges
  match moved with
  | none => none
  | some e1 =>
    match setAt e1 ix first with
    | none => none
    | some e2 =>
      let e3 : Option (List Hint) := if isPair then setAt e2 (ix + 1) second else some e2
      match e3 with
      | none => none
      | some e3 => some { edges := e3, len := m.len + cnt }

/-- `HintMap::insert(&mut self, bottom, top, initial = None)`, parametrised by the capacity check so that the
    off-by-one variant can be stated (see Props/C02HintMap.lean).  `none` = index out of bounds panic. -/
def insertWith (full : Nat → Nat → Bool) (m : Map) (bottom top : Hint) : Option Map :=
  let isPair : Bool := bottom.isValid && top.isValid
  let first : Hint := if !bottom.isValid then top else bottom
  let second : Hint := top
  if isPair && top.cs < bottom.cs then some m else
  let cnt : Nat := if isPair then 2 else 1
  if full m.len cnt then some m else
  match findIx m.edges m.len first.cs 0 m.len with
  | none => none
  | some ix =>
    match discard m first second isPair ix with
    | none => none
    | some true => some m
    | some false => place m first second isPair cnt ix

/-- the code as it is -/
def insert (m : Map) (bottom top : Hint) : Option Map := insertWith wontFit m bottom top

/-- a sequence of inserts on a fresh map (`HintMap::build` calls `insert` once per active stem) -/
def insertAll (m : Map) : List (Hint × Hint) → Option Map
  | [] => some m
  | (b, t) :: rest =>
    match insert m b t with
    | none => none
    | some m' => insertAll m' rest

/-- canonical rendering of the active edges: `flags:cs:ds` -/
def render (m : Map) : String :=
  let es := (m.edges.take m.len).map (fun h => s!"{h.flags}:{h.cs}:{h.ds}")
  s!"len={m.len} " ++ (if es.isEmpty then "-" else String.intercalate "," es)

/-! ## `HintMap::adjust` and `HintMap::transform`: index discipline

`adjust` walks the active edges unit by unit (a single ghost edge, or a bottom / top pair: `i += 2`), looks at the
neighbours `edges[j + 1]`, `edges[i - 1]`, records up to one entry per unit in the fixed array `saved: [_; MAX_HINTS]`
and revisits the saved indices in a second pass (`edges[j + 1]`, `edges[j]`, `edges[j - 1]`).  It only rewrites
`ds_coord` and `scale`, never `flags` or `cs_coord`, so the model reads the flags from the unchanged edge list; the
outcomes of the coordinate comparisons are an oracle `ora unit which`.  `none` = index out of bounds / `usize`
underflow panic. -/

def PAIR_BOTTOM : Nat := 4

/-- `Hint::is_pair`: `flags & (PAIR_BOTTOM | PAIR_TOP) != 0` -/
def Hint.isPair (h : Hint) : Bool := (h.flags / 4) % 2 == 1 || (h.flags / 8) % 2 == 1
/-- `Hint::is_locked`: `flags & LOCKED != 0` -/
def Hint.isLocked (h : Hint) : Bool := (h.flags / 16) % 2 == 1

/-- the body of the first pass for an UNLOCKED unit `i ..= j` (`j = i + 1` for a pair): reads `edges[j]`, the
    neighbours `edges[j + 1]` / `edges[i - 1]` when they exist, and possibly records `j` in `saved` -/
def adjustUnit (edges : List Hint) (len : Nat) (ora : Nat → Nat → Bool) (i j : Nat) (saved : List Nat) :
    Option (List Nat) :=
  match getAt edges j with                               -- `self.edges[j].ds_coord.fract()`
  | none => none
  | some _ =>
    -- `j >= self.len - 1 || self.edges[j + 1].ds_coord >= …`
    let up : Option Bool := if j ≥ len - 1 then some true else (getAt edges (j + 1)).map (fun _ => ora i 0)
    match up with
    | none => none
    | some up =>
      -- `i == 0 || self.edges[i - 1].ds_coord <= …` (evaluated on both paths)
      let down : Option Bool := if i = 0 then some true else (getAt edges (i - 1)).map (fun _ => ora i 1)
      match down with
      | none => none
      | some down =>
        let save : Bool := if up then false else if down then ora i 2 else true
        -- `if save_edge && j < self.len - 1 && !self.edges[j + 1].is_locked() { saved[saved_count] = …; saved_count += 1 }`
        if save ∧ j < len - 1 then
          match getAt edges (j + 1) with
          | none => none
          | some n =>
            if !n.isLocked then (if saved.length < MAX_HINTS then some (j :: saved) else none)
            else some saved
        else some saved

/-- first pass of `adjust` from index `i` with `saved` (newest first); `fuel` = remaining iterations (`len` suffices) -/
def adjustPass1 (edges : List Hint) (len : Nat) (ora : Nat → Nat → Bool) : Nat → Nat → List Nat → Option (List Nat)
  | 0, _, saved => some saved
  | fuel + 1, i, saved =>
    if i < len then
      match getAt edges i with                                   -- `self.edges[i].is_pair()`
      | none => none
      | some ei =>
        let j := if ei.isPair then i + 1 else i
        match (if !ei.isLocked then adjustUnit edges len ora i j saved else some saved) with
        | none => none
        | some saved =>
          -- `if i > 0 && self.edges[i].cs_coord != self.edges[i - 1].cs_coord`
          match (if i > 0 then (getAt edges (i - 1)).map (fun _ => ()) else some ()) with
          | none => none
          | some _ =>
            if ei.isPair then
              match getAt edges j with                             -- `self.edges[j]`, `self.edges[j - 1]` (= `edges[i]`)
              | none => none
              | some _ => adjustPass1 edges len ora fuel (i + 2) saved
            else adjustPass1 edges len ora fuel (i + 1) saved
    else some saved

/-- second pass: `for (j, adjustment) in saved[..saved_count].iter().copied().rev()` (the `edges[j - 1]` access of a pair
    is checked whenever `edges[j]` is a pair edge: the write it guards may or may not happen) -/
def adjustPass2 (edges : List Hint) : List Nat → Option Unit
  | [] => some ()
  | j :: rest =>
    match getAt edges (j + 1), getAt edges j with
    | some _, some ej =>
      if ej.isPair then
        if j = 0 then none                                          -- `j - 1` on `usize`
        else
          match getAt edges (j - 1) with
          | none => none
          | some _ => adjustPass2 edges rest
      else adjustPass2 edges rest
    | _, _ => none

/-- `HintMap::adjust` -/
def adjust (m : Map) (ora : Nat → Nat → Bool) : Option Unit :=
  match adjustPass1 m.edges m.len ora m.len 0 [] with
  | none => none
  | some saved => adjustPass2 m.edges saved

/-- `HintMap::transform(coord)`: the two scans and the final `edges[i]` / `edges[0]` reads; `ge k` / `lt k` are the
    outcomes of `coord >= edges[k].cs_coord` / `coord < edges[k].cs_coord`.  Returns the index used. -/
def transformUp (edges : List Hint) (limit : Nat) (ge : Nat → Bool) : Nat → Nat → Option Nat
  | 0, i => some i
  | fuel + 1, i =>
    if i < limit then
      match getAt edges (i + 1) with
      | none => none
      | some _ => if ge (i + 1) then transformUp edges limit ge fuel (i + 1) else some i
    else some i

def transformDown (edges : List Hint) (lt : Nat → Bool) : Nat → Nat → Option Nat
  | 0, i => some i
  | fuel + 1, i =>
    if i > 0 then
      match getAt edges i with
      | none => none
      | some _ => if lt i then transformDown edges lt fuel (i - 1) else some i
    else some i

def transform (m : Map) (ge lt : Nat → Bool) : Option Nat :=
  if m.len = 0 then some 0
  else
    match transformUp m.edges (m.len - 1) ge m.len 0 with
    | none => none
    | some i =>
      match transformDown m.edges lt (i + 1) i with
      | none => none
      | some i =>
        match getAt m.edges 0, getAt m.edges i with
        | some _, some _ => some i
        | _, _ => none

end FontVerif.HintMap
