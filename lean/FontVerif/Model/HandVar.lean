/-
C01 (hand-written code) — transcriptions of the loop-carrying / index-computing hand-written functions of
read-fonts/src/tables/variations.rs / gvar.rs / cvar.rs / hvar.rs / vvar.rs / mvar.rs / avar.rs (tuple variation headers, shared / private point numbers, phantom deltas, DeltaSetIndexMap, ItemVariationStore deltas).

Every definition cites the Rust function it transcribes (file + fn) and keeps its checked / saturating /
wrapping arithmetic and its error returns; `Out.trap` / `none`-as-panic results mark what would be a panic of
the overflow-checked profile, and Props/C01HandVar.lean shows they are never produced.  Tied to the real code
by harness group `vars.model` (driver commands `hv.*`, Drv/C01HandVar.lean).
-/
import FontVerif.Model.ReadIter
import FontVerif.Model.HandRead
namespace FontVerif.HandVar
open FontVerif FontVerif.ReadIter FontVerif.HandRead

end FontVerif.HandVar
