/-
C01 (hand-written code) — transcriptions of the loop-carrying / index-computing hand-written functions of
read-fonts/src/tables/variations.rs / gvar.rs / cvar.rs / hvar.rs / vvar.rs / mvar.rs / avar.rs (tuple variation headers, shared / private point numbers, phantom deltas, DeltaSetIndexMap, ItemVariationStore deltas).

Every definition cites the Rust function it transcribes (file + fn) and keeps its checked / saturating /
wrapping arithmetic and its error returns; `Out.trap` / `none`-as-panic results mark what would be a panic of
the overflow-checked profile, and Props/C01HandVar.lean shows they are never produced.  Tied to the real code
by harness group `vars.model` (driver commands `hv.*`, Drv/C01HandVar.lean).

Conventions: a table is its byte list `d : List Nat`; `usize` is 64 bit (`HandRead.MAXU`); an unchecked
`a + b` / `a * b` of the source on `usize` values is `uadd` / `umul` (`none` = overflow panic of the strict
profile); a getter of a `TableRef` (`self.data.read_at(range.start).unwrap()`) is an `Option` whose `none`
is the `unwrap` panic.  Results that can be a Rust `Err` *or* a panic are values of `R`.
Arithmetic kernels that C10 / C20 already transcribe are imported: `Checked.tupleScalar`
(`TupleVariation::compute_scalar`), `Tent.deltaSet` / `Tent.itemDeltas` / `Tent.deltaLoop` /
`Tent.computeScalar` (item variation store), `GvarLayout.dataRange` / `dataForGid`.
-/
import FontVerif.Model.ReadIter
import FontVerif.Model.HandRead
import FontVerif.Model.Tent
import FontVerif.Model.GvarLayout
import FontVerif.Model.Checked
namespace FontVerif.HandVar
open FontVerif FontVerif.ReadIter FontVerif.HandRead

/-! ## results, unchecked `usize` arithmetic -/

/-- `ReadError` kinds that occur in this sub-system -/
inductive VErr where
  | oob
  | nullOffset
  | invalidFormat (n : Nat)
  | malformed
  | invalidIndex (i : Nat)
  | metricMissing
  deriving DecidableEq, Repr

/-- result of a function that returns `Result<α, ReadError>` and could panic -/
inductive R (α : Type) where
  | ok (a : α)
  | err (e : VErr)
  | trap
  deriving Repr

def R.bind {α β : Type} (r : R α) (k : α → R β) : R β :=
  match r with
  | .ok a => k a
  | .err e => .err e
  | .trap => .trap

instance : Monad R where
  pure := R.ok
  bind := R.bind

/-- `opt.unwrap()` -/
def unwrapR {α : Type} : Option α → R α
  | some a => .ok a
  | none => .trap

/-- `opt.ok_or(e)?` -/
def okOr {α : Type} (e : VErr) : Option α → R α
  | some a => .ok a
  | none => .err e

def R.isTrap {α : Type} : R α → Bool
  | .trap => true
  | _ => false

/-- unchecked `a + b` on `usize`: `none` = "attempt to add with overflow" -/
def uadd (a b : Nat) : Option Nat := if a + b ≤ MAXU then some (a + b) else none
/-- unchecked `a * b` on `usize` -/
def umul (a b : Nat) : Option Nat := if a * b ≤ MAXU then some (a * b) else none

/-- an `i16` (`F2Dot14` bits) from its big-endian `u16` value -/
def toI16 (v : Nat) : Int := if v < 32768 then (v : Int) else (v : Int) - 65536

/-! ## `TupleIndex`, `TupleVariationCount` (variations.rs) -/

/-- `TupleIndex::embedded_peak_tuple`: `bits & 0x8000 != 0` -/
def tiEmbedded (ti : Nat) : Bool := decide (ti / 32768 % 2 = 1)
/-- `TupleIndex::intermediate_region`: `bits & 0x4000 != 0` -/
def tiInter (ti : Nat) : Bool := decide (ti / 16384 % 2 = 1)
/-- `TupleIndex::private_point_numbers`: `bits & 0x2000 != 0` -/
def tiPrivate (ti : Nat) : Bool := decide (ti / 8192 % 2 = 1)
/-- `TupleIndex::tuple_records_index`: `(!embedded).then_some(bits & 0x0FFF)` -/
def tiRecordsIndex (ti : Nat) : Option Nat := if tiEmbedded ti then none else some (ti % 4096)
/-- `TupleVariationCount::count`: `bits & 0x0FFF` -/
def tvcCount (b : Nat) : Nat := b % 4096
/-- `TupleVariationCount::shared_point_numbers`: `bits & 0x8000 != 0` -/
def tvcShared (b : Nat) : Bool := decide (b / 32768 % 2 = 1)

/-- `TupleIndex::tuple_len(axis_count, flag)`: `flag as usize * axis_count as usize` -/
def tupleLen (ti ac flag : Nat) : Nat :=
  if flag = 0 then (if tiEmbedded ti then 1 else 0) * ac else (if tiInter ti then 1 else 0) * ac

/-! ## `TupleVariationHeader` (generated reader + the hand-written getters) -/

/-- a successfully read `TupleVariationHeader`: `TableRef { data, shape }`.  `data` is everything
from the start of the header to the end of the enclosing data (it is not trimmed). -/
structure Hdr where
  data : List Nat
  peakLen : Nat
  isLen : Nat
  ieLen : Nat
  deriving Repr, DecidableEq

/-- generated `TupleVariationHeader::read_with_args(data, &axis_count)`: `cursor.advance::<u16>()`,
`tuple_index = cursor.read()?`, the three `tuple_len(..).checked_mul(2).ok_or(OutOfBounds)?` +
`advance_by` (saturating), `cursor.finish`.  `none` = `Err(OutOfBounds)` (the only error). -/
def tvhRead (d : List Nat) (ac : Nat) : Option Hdr :=
  match readAt d 2 2 with
  | none => none
  | some ti =>
    match checkedMul (tupleLen ti ac 0) 2, checkedMul (tupleLen ti ac 1) 2 with
    | some pk, some it =>
      let pos := satAdd (satAdd (satAdd 4 pk) it) it
      if pos ≤ d.length then some ⟨d, pk, it, it⟩ else none
    | _, _ => none

/-- generated getter `variation_data_size()`: `self.data.read_at(0).unwrap()` (`none` = panic) -/
def Hdr.size (h : Hdr) : Option Nat := readAt h.data 0 2
/-- generated getter `tuple_index()`: `self.data.read_at(2).unwrap()` -/
def Hdr.ti (h : Hdr) : Option Nat := readAt h.data 2 2

/-- generated `peak_tuple_byte_range()`: `start..start + self.peak_tuple_byte_len` (unchecked) -/
def Hdr.peakRange (h : Hdr) : Option (Nat × Nat) := (uadd 4 h.peakLen).map (fun e => (4, e))
/-- generated `intermediate_start_tuple_byte_range()` -/
def Hdr.isRange (h : Hdr) : Option (Nat × Nat) :=
  match h.peakRange with
  | none => none
  | some (_, s) => (uadd s h.isLen).map (fun e => (s, e))
/-- generated `intermediate_end_tuple_byte_range()` -/
def Hdr.ieRange (h : Hdr) : Option (Nat × Nat) :=
  match h.isRange with
  | none => none
  | some (_, s) => (uadd s h.ieLen).map (fun e => (s, e))

/-- the `n` big-endian `F2Dot14` values at `a` -/
def tupleVals (d : List Nat) (a n : Nat) : List Int :=
  (List.range n).map (fun i => toI16 (HandRead.beAt d (a + 2 * i) 2))

/-- an optional tuple whose construction may panic -/
inductive TupR where
  | none
  | some (vals : List Int)
  | trap
  deriving Repr, DecidableEq

/-- `Tuple { values: self.data.read_array(range).unwrap() }`; the range itself comes from unchecked
additions -/
def tupleAt (d : List Nat) (r : Option (Nat × Nat)) : TupR :=
  match r with
  | none => .trap
  | some (a, b) =>
    match HandRead.readArray d a b 2 with
    | .ok n => .some (tupleVals d a n)
    | .error _ => .trap

/-- `TupleVariationHeader::peak_tuple` -/
def Hdr.peakTuple (h : Hdr) : TupR :=
  match h.ti with
  | none => .trap
  | some ti => if tiEmbedded ti then tupleAt h.data h.peakRange else .none

/-- `TupleVariationHeader::intermediate_start_tuple` -/
def Hdr.interStartTuple (h : Hdr) : TupR :=
  match h.ti with
  | none => .trap
  | some ti => if tiInter ti then tupleAt h.data h.isRange else .none

/-- `TupleVariationHeader::intermediate_end_tuple` -/
def Hdr.interEndTuple (h : Hdr) : TupR :=
  match h.ti with
  | none => .trap
  | some ti => if tiInter ti then tupleAt h.data h.ieRange else .none

/-- an optional pair of tuples whose construction may panic -/
inductive Tup2R where
  | none
  | some (a b : List Int)
  | trap
  deriving Repr, DecidableEq

/-- `TupleVariationHeader::intermediate_tuples` -/
def Hdr.interTuples (h : Hdr) : Tup2R :=
  match h.ti with
  | none => .trap
  | some ti =>
    if tiInter ti then
      match tupleAt h.data h.isRange, tupleAt h.data h.ieRange with
      | .some a, .some b => .some a b
      | _, _ => .trap
    else .none

/-- `TupleVariationHeader::byte_len(axis_count)`: `FIXED_LEN + embedded.then_some(tuple_byte_len)
.unwrap_or_default() + intermediate.then_some(tuple_byte_len * 2).unwrap_or_default()` — `then_some`
evaluates its argument eagerly; all operators unchecked.  `none` = panic. -/
def Hdr.byteLen (h : Hdr) (ac : Nat) : Option Nat :=
  match h.ti with
  | none => none
  | some ti =>
    match umul 2 ac with
    | none => none
    | some tbl =>
      match uadd 4 (if tiEmbedded ti then tbl else 0), umul tbl 2 with
      | some a, some t2 => uadd a (if tiInter ti then t2 else 0)
      | _, _ => none

/-! ## `TupleVariationHeaderIter` -/

structure HSt where
  data : List Nat
  current : Nat
  deriving Repr, DecidableEq

/-- `TupleVariationHeaderIter::next` (one call): `if current == n_headers { return None }`,
`current += 1`, `next = TupleVariationHeader::read(data, axis_count)`,
`next_len = next.map(byte_len).unwrap_or(0)`, `data = data.split_off(next_len)?`, `Some(next)`.
An item is `some h` (`Ok`) or `none` (`Err(OutOfBounds)`). -/
def tvhNext (n ac : Nat) (s : HSt) : Out (Option Hdr) × HSt :=
  if s.current = n then (.done, s)
  else
    match uadd s.current 1 with
    | none => (.trap, s)
    | some c1 =>
      let next := tvhRead s.data ac
      let nextLen : Option Nat := match next with
        | some h => h.byteLen ac
        | none => some 0
      match nextLen with
      | none => (.trap, { s with current := c1 })
      | some nl =>
        match splitOff s.data nl with
        | none => (.done, { s with current := c1 })
        | some _ => (.yield next, { data := s.data.drop nl, current := c1 })

/-- `TupleVariationHeaderIter::new(data, n, axis_count).collect()`; fuel `n + 1` always suffices -/
def tvhTrace (d : List Nat) (n ac : Nat) : Option (List (Out (Option Hdr))) :=
  run (tvhNext n ac) (n + 1) ⟨d, 0⟩

/-! ## `TupleVariationData`, `TupleVariationIter`, `TupleVariation` -/

/-- `TupleVariationData<T>` -/
structure TVD where
  ac : Nat
  /-- data of the `ComputedArray<Tuple>` of shared tuples (items of `2 * axis_count` bytes) -/
  shared : Option (List Nat)
  /-- data of the shared `PackedPointNumbers` -/
  sharedPts : Option (List Nat)
  /-- `tuple_count` bits -/
  countBits : Nat
  headerData : List Nat
  ser : List Nat
  deriving Repr, DecidableEq

/-- `TupleVariation<T>` (the parent's fields stay in the `TVD`) -/
structure TV where
  hdr : Hdr
  varData : List Nat
  deriving Repr, DecidableEq

structure TSt where
  current : Nat
  h : HSt
  ser : List Nat
  deriving Repr, DecidableEq

/-- `TupleVariationData::tuples` -/
def TVD.tuplesInit (p : TVD) : TSt := { current := 0, h := ⟨p.headerData, 0⟩, ser := p.ser }

/-- `TupleVariationIter::next_tuple` (one call): `if tuple_count == current { return None }`,
`current += 1`, `header = header_iter.next()?.ok()?`, `data_len = header.variation_data_size()`,
`var_data = serialized_data.take_up_to(data_len)?`. -/
def tvNext (p : TVD) (s : TSt) : Out TV × TSt :=
  let count := tvcCount p.countBits
  if count = s.current then (.done, s)
  else
    match uadd s.current 1 with
    | none => (.trap, s)
    | some c1 =>
      match tvhNext count p.ac s.h with
      | (.trap, h') => (.trap, { s with current := c1, h := h' })
      | (.done, h') => (.done, { s with current := c1, h := h' })
      | (.cont, h') => (.cont, { s with current := c1, h := h' })
      | (.yield none, h') => (.done, { s with current := c1, h := h' })
      | (.yield (some hdr), h') =>
        match hdr.size with
        | none => (.trap, { s with current := c1, h := h' })
        | some dataLen =>
          match takeUpTo s.ser dataLen with
          | (none, _) => (.done, { s with current := c1, h := h' })
          | (some _, _) =>
            (.yield ⟨hdr, s.ser.take dataLen⟩, { current := c1, h := h', ser := s.ser.drop dataLen })

/-- `tvd.tuples().collect()` (up to the first `None`); fuel `count + 1` always suffices -/
def tvTrace (p : TVD) : Option (List (Out TV)) :=
  run (tvNext p) (tvcCount p.countBits + 1) p.tuplesInit

/-- `PackedPointNumbers::split_off_front(data)`: `(points, data.split_off(total_len).unwrap_or_default())`;
`none` = `total_len` panicked (u16 overflow) / ran out of fuel -/
def splitOffFront (d : List Nat) : Option (List Nat × List Nat) :=
  match totalLen d with
  | none => none
  | some tl => some (d, if tl ≤ d.length then d.drop tl else [])

/-- `TupleVariation::point_numbers_and_packed_deltas`: private points are split off the tuple's own
data, otherwise the shared ones (or the empty default = "all points") apply.  `none` = panic. -/
def TV.pointsAndDeltas (p : TVD) (t : TV) : Option (List Nat × List Nat) :=
  match t.hdr.ti with
  | none => none
  | some ti =>
    if tiPrivate ti then splitOffFront t.varData
    else some (p.sharedPts.getD [], t.varData)

/-- `TupleVariation::has_deltas_for_all_points` -/
def TV.hasDeltasForAllPoints (p : TVD) (t : TV) : Option Bool :=
  match t.hdr.ti with
  | none => none
  | some ti =>
    if tiPrivate ti then some (pointCount t.varData = 0)
    else match p.sharedPts with
      | some sp => some (pointCount sp = 0)
      | none => some false

/-- `ComputedArray<Tuple>::get(idx)` on shared-tuple data: `compGet` finds the item,
`Tuple::read_with_args` (`cursor.read_array(axis_count)`) reads it -/
def sharedTupleGet (sd : List Nat) (ac idx : Nat) : Option (List Int) :=
  (compGet sd.length (2 * ac) idx).map (fun off => tupleVals sd off ac)

/-- the first half of `TupleVariation::peak`:
`tuple_records_index().and_then(|idx| self.shared_tuples.as_ref()?.get(idx as usize).ok())` -/
def peakShared (p : TVD) (ti : Nat) : Option (List Int) :=
  match tiRecordsIndex ti, p.shared with
  | some idx, some sd => sharedTupleGet sd p.ac idx
  | _, _ => none

/-- `TupleVariation::peak`: `tuple_records_index().and_then(|idx| shared_tuples?.get(idx).ok())
.or_else(|| header.peak_tuple()).unwrap_or_default()`; `none` = panic -/
def TV.peak (p : TVD) (t : TV) : Option (List Int) :=
  match t.hdr.ti with
  | none => none
  | some ti =>
    match peakShared p ti with
    | some v => some v
    | none =>
      match t.hdr.peakTuple with
      | .trap => none
      | .none => some []
      | .some v => some v

/-- `TupleVariation::compute_scalar(coords)`: the peak must have `axis_count` values, then the loop
over the non-zero peaks (`Checked.tupleScalar`, whose `none` is an arithmetic trap); `coords`, peaks
and intermediates are `F2Dot14` bits, the result `Fixed` bits (`ok none` = not applicable) -/
def TV.computeScalar (p : TVD) (t : TV) (coords : List Int) : R (Option Int) :=
  match t.peak p with
  | none => .trap
  | some pk =>
    if pk.length ≠ p.ac then .ok none
    else
      match t.hdr.interTuples with
      | .trap => .trap
      | .none => unwrapR (Checked.tupleScalar pk none coords)
      | .some a b => unwrapR (Checked.tupleScalar pk (some (a, b)) coords)

/-- the `for i in 0..axis_count` loop of `compute_scalar_f32`: only the control flow (`false` =
`return None`); the `f32` products cannot trap.  All values are `to_bits() as i32`. -/
def f32Loop (inter : Option (List Int × List Int)) (coords pk : List Int) : List Nat → Bool
  | [] => true
  | i :: rest =>
    let coord := coords.getD i 0
    let peak := pk.getD i 0
    if peak = 0 ∨ peak = coord then f32Loop inter coords pk rest
    else if coord = 0 then false
    else
      match inter with
      | some (starts, ends) =>
        let start := starts.getD i 0
        let end_ := ends.getD i 0
        if start > peak ∨ peak > end_ ∨ (start < 0 ∧ end_ > 0 ∧ peak ≠ 0) then f32Loop inter coords pk rest
        else if coord < start ∨ coord > end_ then false
        else f32Loop inter coords pk rest
      | none =>
        if coord < min peak 0 ∨ coord > max peak 0 then false
        else f32Loop inter coords pk rest

/-- `TupleVariation::compute_scalar_f32(coords)`, `Some` / `None` only: the two intermediate tuples
are fetched before the length test -/
def TV.computeScalarF32 (p : TVD) (t : TV) (coords : List Int) : R Bool :=
  match t.peak p with
  | none => .trap
  | some pk =>
    match t.hdr.interStartTuple with
    | .trap => .trap
    | is_ =>
      match t.hdr.interEndTuple with
      | .trap => .trap
      | ie =>
        if pk.length ≠ p.ac then .ok false
        else
          let inter : Option (List Int × List Int) :=
            match is_, ie with
            | .some a, .some b => some (a, b)
            | _, _ => none
          .ok (f32Loop inter coords pk (List.range p.ac))

/-- `TupleVariationData::active_tuples_at(coords).collect()`:
`self.tuples().filter_map(|tuple| Some((tuple, tuple.compute_scalar(coords)?)))`; `none` = out of fuel,
`some (.trap)` = a panic inside `tuples()` or `compute_scalar` -/
def activeTuples (p : TVD) (coords : List Int) : Option (R (List (TV × Int))) :=
  match tvTrace p with
  | none => none
  | some evs =>
    if trapped evs then some .trap
    else
      some ((items evs).foldr (fun t acc =>
        match t.computeScalar p coords, acc with
        | .trap, _ => .trap
        | _, .trap => .trap
        | _, .err e => .err e
        | .err e, _ => .err e
        | .ok (some v), .ok l => .ok ((t, v) :: l)
        | .ok none, .ok l => .ok l) (.ok []))

/-- `TupleVariation::deltas` + `TupleDeltaIter::new` with the point numbers `pd` and the packed
deltas `dd` in separate buffers (`ReadIter.tdInit` is the special case of private points); `none` = a
helper ran out of fuel / trapped (never: `tdInit2_some`) -/
def tdInit2 (pd dd : List Nat) (isPoint : Bool) : Option TdSt :=
  let count := pointCount pd
  let total : Option Nat :=
    if count = 0 then countAllDeltas dd else some (if isPoint then count * 2 else count)
  match total with
  | none => none
  | some total =>
    let first := ptNext pd (ptInit pd)
    let (pts, np) : Option PtSt × Nat :=
      match first.1 with
      | .yield v => (some first.2, v)
      | _ => (none, 0)
    if isPoint then
      match skipFast dd (total / 2) (dlInit (some total)) with
      | none => none
      | some ys => some { cur := 0, points := pts, nextPoint := np, x := dlInit (some (total / 2)), y := some ys }
    else
      some { cur := 0, points := pts, nextPoint := np, x := dlInit (some total), y := none }

/-- `tuple.deltas().collect()`; items `(position, dx, dy)` -/
def TV.deltasTrace (p : TVD) (t : TV) (isPoint : Bool) : Option (List (Out (Nat × Int × Int))) :=
  match t.pointsAndDeltas p with
  | none => none
  | some (pd, dd) =>
    match tdInit2 pd dd isPoint with
    | none => none
    | some s => run (tdStep pd dd) (tdFuel dd) s

/-! ## `GlyphVariationData::new` (gvar.rs), `Cvar::variation_data` (cvar.rs) -/

/-- `Offset16/32::resolve::<FontData>(data)`: `non_null().ok_or(NullOffset)`,
`data.split_off(off).ok_or(OutOfBounds)` -/
def resolveData (d : List Nat) (off : Nat) : R (List Nat) :=
  if off = 0 then .err .nullOffset
  else if off ≤ d.length then .ok (d.drop off) else .err .oob

/-- the shared point numbers, if the count says so: `PackedPointNumbers::split_off_front` -/
def splitShared (countBits : Nat) (data : List Nat) : R (Option (List Nat) × List Nat) :=
  if tvcShared countBits then
    match splitOffFront data with
    | none => .trap
    | some (pts, rest) => .ok (some pts, rest)
  else .ok (none, data)

/-- `GlyphVariationData::new(data, axis_count, shared_tuples)`:
generated `GlyphVariationDataHeader::read` (two `advance`s, `advance_by(remaining_bytes())`, `finish`),
`raw_tuple_header_data` (`data.split_off(4).unwrap()`), the unwrapping getters,
`serialized_data()?`, the shared point numbers -/
def gvdNew (d : List Nat) (ac : Nat) (shared : List Nat) : R TVD :=
  let pos := satAdd 4 (d.length - 4)
  if pos > d.length then .err .oob
  else
    match splitOff d 4, readAt d 0 2, readAt d 2 2 with
    | some _, some count, some off =>
      match resolveData d off with
      | .err e => .err e
      | .trap => .trap
      | .ok data =>
        match splitShared count data with
        | .err e => .err e
        | .trap => .trap
        | .ok (sp, ser) =>
          .ok { ac := ac, shared := some shared, sharedPts := sp, countBits := count,
                headerData := d.drop 4, ser := ser }
    | _, _, _ => .trap

/-- generated `Cvar::read` + `Cvar::variation_data(axis_count)`: `tuple_variation_count()` (unwrap
getter), `self.data()?` (offset from the table start), `raw_tuple_header_data`
(`data.split_off(8).unwrap()`), the shared point numbers; there are no shared tuples -/
def cvarVariationData (d : List Nat) (ac : Nat) : R TVD :=
  let pos := satAdd 8 (d.length - 8)
  if pos > d.length then .err .oob
  else
    match readAt d 4 2, readAt d 6 2 with
    | some count, some off =>
      match resolveData d off with
      | .err e => .err e
      | .trap => .trap
      | .ok data =>
        match splitOff d 8 with
        | none => .trap
        | some _ =>
          match splitShared count data with
          | .err e => .err e
          | .trap => .trap
          | .ok (sp, ser) =>
            .ok { ac := ac, shared := none, sharedPts := sp, countBits := count,
                  headerData := d.drop 8, ser := ser }
    | _, _ => .trap

/-! ## `Cvar::deltas` (cvar.rs) -/

/-- `*value = value.wrapping_add(delta.apply_scalar(scalar).to_bits())` for `deltas.get_mut(ix)`;
`CvtDelta::apply_scalar` = `Fixed::from_i32(self.value) * scalar` (`Checked.fxFromI32`, `Checked.fxMul`:
`none` = arithmetic trap).  An index beyond the buffer is skipped. -/
def applyCvt (buf : List Int) (ix : Nat) (value scalar : Int) : Option (List Int) :=
  match buf[ix]? with
  | none => some buf
  | some cur =>
    match Checked.fxFromI32 value with
    | none => none
    | some f =>
      match Checked.fxMul f scalar with
      | none => none
      | some prod => some (buf.set ix (Checked.i32.wrappingAdd cur prod))

/-- the inner `for delta in tuple.deltas()` loop -/
def applyCvtAll : List (Nat × Int × Int) → Int → List Int → Option (List Int)
  | [], _, buf => some buf
  | (pos, v, _) :: rest, scalar, buf =>
    match applyCvt buf pos v scalar with
    | none => none
    | some buf' => applyCvtAll rest scalar buf'

/-- the outer `for (tuple, scalar) in var_data.active_tuples_at(coords)` loop -/
def cvarDeltasLoop (p : TVD) : List (TV × Int) → List Int → R (List Int)
  | [], buf => .ok buf
  | (t, scalar) :: rest, buf =>
    match t.deltasTrace p false with
    | none => .trap
    | some evs =>
      if trapped evs then .trap
      else
        match applyCvtAll (items evs) scalar buf with
        | none => .trap
        | some buf' => cvarDeltasLoop p rest buf'

/-- `Cvar::deltas(axis_count, coords, deltas)` on the caller's buffer `buf`; `ok` = the buffer afterwards -/
def cvarDeltas (d : List Nat) (ac : Nat) (coords : List Int) (buf : List Int) : R (List Int) :=
  match cvarVariationData d ac with
  | .err e => .err e
  | .trap => .trap
  | .ok p =>
    match activeTuples p coords with
    | none => .trap
    | some .trap => .trap
    | some (.err e) => .err e
    | some (.ok l) => cvarDeltasLoop p l buf

/-! ## `Gvar` (gvar.rs + the generated reader) -/

/-- a successfully read `Gvar`: `TableRef { data, shape }` -/
structure Gv where
  d : List Nat
  /-- `glyph_variation_data_offsets_byte_len` -/
  offsLen : Nat
  deriving Repr, DecidableEq

/-- generated `Gvar::read`: four `advance`s, `glyph_count = cursor.read()?`, `flags = cursor.read()?`,
`advance::<u32>()`, `transforms::add(glyph_count, 1).checked_mul(U16Or32::compute_size(&flags)?)
.ok_or(OutOfBounds)?`, `advance_by`, `finish`.  `none` = `Err(OutOfBounds)`. -/
def gvarRead (d : List Nat) : Option Gv :=
  match readAt d 12 2, readAt d 14 2 with
  | some gc, some flags =>
    match checkedMul (satAdd gc 1) (if flags % 2 = 1 then 4 else 2) with
    | none => none
    | some olen => if satAdd 20 olen ≤ d.length then some ⟨d, olen⟩ else none
  | _, _ => none

/-- generated getters (`self.data.read_at(range.start).unwrap()`; `none` = panic) -/
def Gv.axisCount (g : Gv) : Option Nat := readAt g.d 4 2
def Gv.sharedTupleCount (g : Gv) : Option Nat := readAt g.d 6 2
def Gv.sharedTuplesOffset (g : Gv) : Option Nat := readAt g.d 8 4
def Gv.glyphCount (g : Gv) : Option Nat := readAt g.d 12 2
/-- `GvarFlags::from_raw` = `from_bits_truncate`: only `LONG_OFFSETS` (bit 0) is a known flag -/
def Gv.flags (g : Gv) : Option Nat := (readAt g.d 14 2).map (· % 2)
def Gv.dao (g : Gv) : Option Nat := readAt g.d 16 4

/-- `Gvar::shared_tuples()?.tuples()`: `Offset32::resolve_with_args` (`NullOffset` for 0, `split_off`),
generated `SharedTuples::read_with_args` (`count.checked_mul(Tuple::compute_size(&axis_count)?)`,
`advance_by`, `finish`), `tuples()` = `data.read_with_args(0..len, &axis_count).unwrap()`
(`ComputedArray::new` cannot fail for `Tuple`).  Result: the bytes of the `ComputedArray<Tuple>`. -/
def Gv.sharedTuples (g : Gv) : R (List Nat) :=
  match g.sharedTupleCount, g.axisCount, g.sharedTuplesOffset with
  | some count, some ac, some off =>
    match resolveData g.d off with
    | .err e => .err e
    | .trap => .trap
    | .ok data =>
      match checkedMul ac 2 with
      | none => .err .oob
      | some sz =>
        match checkedMul count sz with
        | none => .err .oob
        | some tbl =>
          if satAdd 0 tbl ≤ data.length then
            match sliceExcl data 0 tbl with
            | some _ => .ok (data.take tbl)
            | none => .trap
          else .err .oob
  | _, _, _ => .trap

/-- the stored offsets: `glyph_variation_data_offsets()` (`ComputedArray<U16Or32>` over the
`offsLen` bytes at 20, item size 2 / 4 by `LONG_OFFSETS`) as the list of raw values; `get(i)` is `Ok`
exactly for the whole items, i.e. `offs[i]?` -/
def Gv.offsets (g : Gv) (long : Bool) : List Nat :=
  let w := if long then 4 else 2
  (List.range (g.offsLen / w)).map (fun i => HandRead.beAt g.d (20 + i * w) w)

/-- `Gvar::data_for_gid(gid)` (`data_range_for_gid`: two `ComputedArray::get`, two `u32::checked_add`;
empty range → `None`; `self.data.slice(range)`): `GvarLayout.dataForGid` on the decoded offsets -/
def Gv.dataForGid (g : Gv) (gid : Nat) : R (Option (List Nat)) :=
  match g.flags, g.dao with
  | some flags, some dao =>
    let long := decide (flags % 2 = 1)
    match GvarLayout.dataForGid g.d long dao (g.offsets long) gid with
    | none => .err .oob
    | some r => .ok r
  | _, _ => .trap

/-- `Gvar::glyph_variation_data(gid)`: `shared_tuples()?`, `axis_count()`, `data_for_gid(gid)?`,
`GlyphVariationData::new` -/
def Gv.glyphVariationData (g : Gv) (gid : Nat) : R (Option TVD) :=
  match g.sharedTuples with
  | .err e => .err e
  | .trap => .trap
  | .ok shared =>
    match g.axisCount with
    | none => .trap
    | some ac =>
      match g.dataForGid gid with
      | .err e => .err e
      | .trap => .trap
      | .ok none => .ok none
      | .ok (some bytes) =>
        match gvdNew bytes ac shared with
        | .err e => .err e
        | .trap => .trap
        | .ok p => .ok (some p)

end FontVerif.HandVar
