/-
C01 (hand-written code) — transcriptions of the loop-carrying / index-computing hand-written functions of
read-fonts/src/tables/variations.rs / gvar.rs / cvar.rs / hvar.rs / vvar.rs / mvar.rs / avar.rs (tuple variation headers, shared / private point numbers, phantom deltas, DeltaSetIndexMap, ItemVariationStore deltas).

Every definition cites the Rust function it transcribes (file + fn) and keeps its checked / saturating /
wrapping arithmetic and its error returns; `Out.trap` / `none`-as-panic results mark what would be a panic of
the overflow-checked profile, and Props/C01HandVar.lean shows they are never produced.  Tied to the real code
by harness group `vars.model` (driver commands `hv.*`, Drv/C01HandVar.lean).

Contents (Rust → Lean):
* variations.rs  `TupleIndex` / `TupleVariationCount` bit helpers → `tiEmbedded … tvcShared`;
  generated `TupleVariationHeader::read` + `peak_tuple / intermediate_*_tuple(s) / byte_len` → `tvhRead`, `Hdr.*`;
  `TupleVariationHeaderIter::next` → `tvhNext`; `TupleVariationData::{tuples, active_tuples_at}`,
  `TupleVariationIter::next_tuple` → `tvNext`, `tvTrace`, `activeTuples`;
  `TupleVariation::{peak, has_deltas_for_all_points, point_numbers_and_packed_deltas, compute_scalar,
  compute_scalar_f32, deltas}` → `TV.*`, `tdInit2`;
  `read_dense_deltas`, `read_sparse_deltas`, `accumulate_{dense,sparse}_deltas` → `readDense`, `readSparse`, `accumulate*`;
  `EntryFormat`, `DeltaSetIndexMap::{read, get}` → `dsimRead`, `Dsim.get`;
  `ItemVariationData::{read, delta_row_len, delta_sets_len, delta_set}`, `ItemDeltas::next` → `ivdRead`, `deltaRowLen`,
  `Ivd.deltaSet`, `itemDeltasGo`; `ItemVariationStore::{read, compute_delta, compute_float_delta}` → `ivsRead`,
  `Ivs.deltaWalk`, `Ivs.computeDelta`; `advance_delta`, `item_delta` → `advanceDelta`, `itemDelta`
* gvar.rs  `Gvar::{read, shared_tuples, data_for_gid, glyph_variation_data, phantom_point_deltas}`,
  `GlyphVariationData::new`, `find_glyph_and_point_count` → `gvarRead`, `Gv.*`, `gvdNew`, `findGlyph`
* cvar.rs  `Cvar::{read, variation_data, deltas}` → `cvarVariationData`, `cvarDeltas`
* hvar.rs / vvar.rs  the seven `*_delta` functions → `metricsDelta`;  mvar.rs `Mvar::metric_delta` → `mvarSearch`,
  `mvarMetricDelta`;  avar.rs `SegmentMaps::{read, apply}` → `segmentMapsApply`

Conventions: a table is its byte list `d : List Nat`; `usize` is 64 bit (`HandRead.MAXU`); an unchecked
`a + b` / `a * b` of the source on `usize` values is `uadd` / `umul` (`none` = overflow panic of the strict
profile); a getter of a `TableRef` (`self.data.read_at(range.start).unwrap()`) is an `Option` whose `none`
is the `unwrap` panic.  Results that can be a Rust `Err` *or* a panic are values of `R`.
Arithmetic kernels that C10 / C20 already transcribe are imported, not duplicated: `Checked.tupleScalar`
(`TupleVariation::compute_scalar`), `Checked.computeDelta` / `Checked.regionScalar` (`compute_delta`,
`VariationRegion::compute_scalar`), `Checked.avarApply`, `Checked.fxMul` / `fxFromI32` …, `Tent.readW` /
`Tent.colWidth` (`ItemDeltas`), `GvarLayout.dataForGid` (`data_range_for_gid`).  Where a Rust `?` and a
possible arithmetic trap are interleaved in one loop (`compute_delta`: `regions.get(i)?` then `accum +=`),
the model collects the `?` results first and runs the kernel afterwards; this only matters for the order of
two outcomes of which one (the trap) is proved impossible.
-/
import FontVerif.Model.ReadIter
import FontVerif.Model.HandRead
import FontVerif.Model.Tent
import FontVerif.Model.GvarLayout
import FontVerif.Model.Checked
namespace FontVerif.HandVar
open FontVerif FontVerif.ReadIter FontVerif.HandRead

/-! ## results, unchecked `usize` arithmetic -/

/-- `ReadError` kinds that occur in this sub-system -/
inductive VErr where
  | oob
  | nullOffset
  | invalidFormat (n : Nat)
  | malformed
  | invalidIndex (i : Nat)
  | metricMissing
  deriving DecidableEq, Repr

/-- result of a function that returns `Result<α, ReadError>` and could panic -/
inductive R (α : Type) where
  | ok (a : α)
  | err (e : VErr)
  | trap
  deriving Repr

def R.bind {α β : Type} (r : R α) (k : α → R β) : R β :=
  match r with
  | .ok a => k a
  | .err e => .err e
  | .trap => .trap

instance : Monad R where
  pure := R.ok
  bind := R.bind

/-- `opt.unwrap()` -/
def unwrapR {α : Type} : Option α → R α
  | some a => .ok a
  | none => .trap

/-- `opt.ok_or(e)?` -/
def okOr {α : Type} (e : VErr) : Option α → R α
  | some a => .ok a
  | none => .err e

def R.isTrap {α : Type} : R α → Bool
  | .trap => true
  | _ => false

/-- unchecked `a + b` on `usize`: `none` = "attempt to add with overflow" -/
def uadd (a b : Nat) : Option Nat := if a + b ≤ MAXU then some (a + b) else none
/-- unchecked `a * b` on `usize` -/
def umul (a b : Nat) : Option Nat := if a * b ≤ MAXU then some (a * b) else none

/-- an `i16` (`F2Dot14` bits) from its big-endian `u16` value -/
def toI16 (v : Nat) : Int := if v < 32768 then (v : Int) else (v : Int) - 65536

/-! ## `TupleIndex`, `TupleVariationCount` (variations.rs) -/

/-- `TupleIndex::embedded_peak_tuple`: `bits & 0x8000 != 0` -/
def tiEmbedded (ti : Nat) : Bool := decide (ti / 32768 % 2 = 1)
/-- `TupleIndex::intermediate_region`: `bits & 0x4000 != 0` -/
def tiInter (ti : Nat) : Bool := decide (ti / 16384 % 2 = 1)
/-- `TupleIndex::private_point_numbers`: `bits & 0x2000 != 0` -/
def tiPrivate (ti : Nat) : Bool := decide (ti / 8192 % 2 = 1)
/-- `TupleIndex::tuple_records_index`: `(!embedded).then_some(bits & 0x0FFF)` -/
def tiRecordsIndex (ti : Nat) : Option Nat := if tiEmbedded ti then none else some (ti % 4096)
/-- `TupleVariationCount::count`: `bits & 0x0FFF` -/
def tvcCount (b : Nat) : Nat := b % 4096
/-- `TupleVariationCount::shared_point_numbers`: `bits & 0x8000 != 0` -/
def tvcShared (b : Nat) : Bool := decide (b / 32768 % 2 = 1)

/-- `TupleIndex::tuple_len(axis_count, flag)`: `flag as usize * axis_count as usize` -/
def tupleLen (ti ac flag : Nat) : Nat :=
  if flag = 0 then (if tiEmbedded ti then 1 else 0) * ac else (if tiInter ti then 1 else 0) * ac

/-! ## `TupleVariationHeader` (generated reader + the hand-written getters) -/

/-- a successfully read `TupleVariationHeader`: `TableRef { data, shape }`.  `data` is everything
from the start of the header to the end of the enclosing data (it is not trimmed). -/
structure Hdr where
  data : List Nat
  peakLen : Nat
  isLen : Nat
  ieLen : Nat
  deriving Repr, DecidableEq

/-- generated `TupleVariationHeader::read_with_args(data, &axis_count)`: `cursor.advance::<u16>()`,
`tuple_index = cursor.read()?`, the three `tuple_len(..).checked_mul(2).ok_or(OutOfBounds)?` +
`advance_by` (saturating), `cursor.finish`.  `none` = `Err(OutOfBounds)` (the only error). -/
def tvhRead (d : List Nat) (ac : Nat) : Option Hdr :=
  match readAt d 2 2 with
  | none => none
  | some ti =>
    match checkedMul (tupleLen ti ac 0) 2, checkedMul (tupleLen ti ac 1) 2 with
    | some pk, some it =>
      let pos := satAdd (satAdd (satAdd 4 pk) it) it
      if pos ≤ d.length then some ⟨d, pk, it, it⟩ else none
    | _, _ => none

/-- generated getter `variation_data_size()`: `self.data.read_at(0).unwrap()` (`none` = panic) -/
def Hdr.size (h : Hdr) : Option Nat := readAt h.data 0 2
/-- generated getter `tuple_index()`: `self.data.read_at(2).unwrap()` -/
def Hdr.ti (h : Hdr) : Option Nat := readAt h.data 2 2

/-- generated `peak_tuple_byte_range()`: `start..start + self.peak_tuple_byte_len` (unchecked) -/
def Hdr.peakRange (h : Hdr) : Option (Nat × Nat) := (uadd 4 h.peakLen).map (fun e => (4, e))
/-- generated `intermediate_start_tuple_byte_range()` -/
def Hdr.isRange (h : Hdr) : Option (Nat × Nat) :=
  match h.peakRange with
  | none => none
  | some (_, s) => (uadd s h.isLen).map (fun e => (s, e))
/-- generated `intermediate_end_tuple_byte_range()` -/
def Hdr.ieRange (h : Hdr) : Option (Nat × Nat) :=
  match h.isRange with
  | none => none
  | some (_, s) => (uadd s h.ieLen).map (fun e => (s, e))

/-- the `n` big-endian `F2Dot14` values at `a` -/
def tupleVals (d : List Nat) (a n : Nat) : List Int :=
  (List.range n).map (fun i => toI16 (HandRead.beAt d (a + 2 * i) 2))

/-- an optional tuple whose construction may panic -/
inductive TupR where
  | none
  | some (vals : List Int)
  | trap
  deriving Repr, DecidableEq

/-- `Tuple { values: self.data.read_array(range).unwrap() }`; the range itself comes from unchecked
additions -/
def tupleAt (d : List Nat) (r : Option (Nat × Nat)) : TupR :=
  match r with
  | none => .trap
  | some (a, b) =>
    match HandRead.readArray d a b 2 with
    | .ok n => .some (tupleVals d a n)
    | .error _ => .trap

/-- `TupleVariationHeader::peak_tuple` -/
def Hdr.peakTuple (h : Hdr) : TupR :=
  match h.ti with
  | none => .trap
  | some ti => if tiEmbedded ti then tupleAt h.data h.peakRange else .none

/-- `TupleVariationHeader::intermediate_start_tuple` -/
def Hdr.interStartTuple (h : Hdr) : TupR :=
  match h.ti with
  | none => .trap
  | some ti => if tiInter ti then tupleAt h.data h.isRange else .none

/-- `TupleVariationHeader::intermediate_end_tuple` -/
def Hdr.interEndTuple (h : Hdr) : TupR :=
  match h.ti with
  | none => .trap
  | some ti => if tiInter ti then tupleAt h.data h.ieRange else .none

/-- an optional pair of tuples whose construction may panic -/
inductive Tup2R where
  | none
  | some (a b : List Int)
  | trap
  deriving Repr, DecidableEq

/-- `TupleVariationHeader::intermediate_tuples` -/
def Hdr.interTuples (h : Hdr) : Tup2R :=
  match h.ti with
  | none => .trap
  | some ti =>
    if tiInter ti then
      match tupleAt h.data h.isRange, tupleAt h.data h.ieRange with
      | .some a, .some b => .some a b
      | _, _ => .trap
    else .none

/-- `TupleVariationHeader::byte_len(axis_count)`: `FIXED_LEN + embedded.then_some(tuple_byte_len)
.unwrap_or_default() + intermediate.then_some(tuple_byte_len * 2).unwrap_or_default()` — `then_some`
evaluates its argument eagerly; all operators unchecked.  `none` = panic. -/
def Hdr.byteLen (h : Hdr) (ac : Nat) : Option Nat :=
  match h.ti with
  | none => none
  | some ti =>
    match umul 2 ac with
    | none => none
    | some tbl =>
      match uadd 4 (if tiEmbedded ti then tbl else 0), umul tbl 2 with
      | some a, some t2 => uadd a (if tiInter ti then t2 else 0)
      | _, _ => none

/-! ## `TupleVariationHeaderIter` -/

structure HSt where
  data : List Nat
  current : Nat
  deriving Repr, DecidableEq

/-- `TupleVariationHeaderIter::next` (one call): `if current == n_headers { return None }`,
`current += 1`, `next = TupleVariationHeader::read(data, axis_count)`,
`next_len = next.map(byte_len).unwrap_or(0)`, `data = data.split_off(next_len)?`, `Some(next)`.
An item is `some h` (`Ok`) or `none` (`Err(OutOfBounds)`). -/
def tvhNext (n ac : Nat) (s : HSt) : Out (Option Hdr) × HSt :=
  if s.current = n then (.done, s)
  else
    match uadd s.current 1 with
    | none => (.trap, s)
    | some c1 =>
      let next := tvhRead s.data ac
      let nextLen : Option Nat := match next with
        | some h => h.byteLen ac
        | none => some 0
      match nextLen with
      | none => (.trap, { s with current := c1 })
      | some nl =>
        match splitOff s.data nl with
        | none => (.done, { s with current := c1 })
        | some _ => (.yield next, { data := s.data.drop nl, current := c1 })

/-- `TupleVariationHeaderIter::new(data, n, axis_count).collect()`; fuel `n + 1` always suffices -/
def tvhTrace (d : List Nat) (n ac : Nat) : Option (List (Out (Option Hdr))) :=
  run (tvhNext n ac) (n + 1) ⟨d, 0⟩

/-! ## `TupleVariationData`, `TupleVariationIter`, `TupleVariation` -/

/-- `TupleVariationData<T>` -/
structure TVD where
  ac : Nat
  /-- data of the `ComputedArray<Tuple>` of shared tuples (items of `2 * axis_count` bytes) -/
  shared : Option (List Nat)
  /-- data of the shared `PackedPointNumbers` -/
  sharedPts : Option (List Nat)
  /-- `tuple_count` bits -/
  countBits : Nat
  headerData : List Nat
  ser : List Nat
  deriving Repr, DecidableEq

/-- `TupleVariation<T>` (the parent's fields stay in the `TVD`) -/
structure TV where
  hdr : Hdr
  varData : List Nat
  deriving Repr, DecidableEq

structure TSt where
  current : Nat
  h : HSt
  ser : List Nat
  deriving Repr, DecidableEq

/-- `TupleVariationData::tuples` -/
def TVD.tuplesInit (p : TVD) : TSt := { current := 0, h := ⟨p.headerData, 0⟩, ser := p.ser }

/-- `TupleVariationIter::next_tuple` (one call): `if tuple_count == current { return None }`,
`current += 1`, `header = header_iter.next()?.ok()?`, `data_len = header.variation_data_size()`,
`var_data = serialized_data.take_up_to(data_len)?`. -/
def tvNext (p : TVD) (s : TSt) : Out TV × TSt :=
  let count := tvcCount p.countBits
  if count = s.current then (.done, s)
  else
    match uadd s.current 1 with
    | none => (.trap, s)
    | some c1 =>
      match tvhNext count p.ac s.h with
      | (.trap, h') => (.trap, { s with current := c1, h := h' })
      | (.done, h') => (.done, { s with current := c1, h := h' })
      | (.cont, h') => (.cont, { s with current := c1, h := h' })
      | (.yield none, h') => (.done, { s with current := c1, h := h' })
      | (.yield (some hdr), h') =>
        match hdr.size with
        | none => (.trap, { s with current := c1, h := h' })
        | some dataLen =>
          match takeUpTo s.ser dataLen with
          | (none, _) => (.done, { s with current := c1, h := h' })
          | (some _, _) =>
            (.yield ⟨hdr, s.ser.take dataLen⟩, { current := c1, h := h', ser := s.ser.drop dataLen })

/-- `tvd.tuples().collect()` (up to the first `None`); fuel `count + 1` always suffices -/
def tvTrace (p : TVD) : Option (List (Out TV)) :=
  run (tvNext p) (tvcCount p.countBits + 1) p.tuplesInit

/-- `PackedPointNumbers::split_off_front(data)`: `(points, data.split_off(total_len).unwrap_or_default())`;
`none` = `total_len` panicked (u16 overflow) / ran out of fuel -/
def splitOffFront (d : List Nat) : Option (List Nat × List Nat) :=
  match totalLen d with
  | none => none
  | some tl => some (d, if tl ≤ d.length then d.drop tl else [])

/-- `TupleVariation::point_numbers_and_packed_deltas`: private points are split off the tuple's own
data, otherwise the shared ones (or the empty default = "all points") apply.  `none` = panic. -/
def TV.pointsAndDeltas (p : TVD) (t : TV) : Option (List Nat × List Nat) :=
  match t.hdr.ti with
  | none => none
  | some ti =>
    if tiPrivate ti then splitOffFront t.varData
    else some (p.sharedPts.getD [], t.varData)

/-- `TupleVariation::has_deltas_for_all_points` -/
def TV.hasDeltasForAllPoints (p : TVD) (t : TV) : Option Bool :=
  match t.hdr.ti with
  | none => none
  | some ti =>
    if tiPrivate ti then some (pointCount t.varData = 0)
    else match p.sharedPts with
      | some sp => some (pointCount sp = 0)
      | none => some false

/-- `ComputedArray<Tuple>::get(idx)` on shared-tuple data: `compGet` finds the item,
`Tuple::read_with_args` (`cursor.read_array(axis_count)`) reads it -/
def sharedTupleGet (sd : List Nat) (ac idx : Nat) : Option (List Int) :=
  (compGet sd.length (2 * ac) idx).map (fun off => tupleVals sd off ac)

/-- the first half of `TupleVariation::peak`:
`tuple_records_index().and_then(|idx| self.shared_tuples.as_ref()?.get(idx as usize).ok())` -/
def peakShared (p : TVD) (ti : Nat) : Option (List Int) :=
  match tiRecordsIndex ti, p.shared with
  | some idx, some sd => sharedTupleGet sd p.ac idx
  | _, _ => none

/-- `TupleVariation::peak`: `tuple_records_index().and_then(|idx| shared_tuples?.get(idx).ok())
.or_else(|| header.peak_tuple()).unwrap_or_default()`; `none` = panic -/
def TV.peak (p : TVD) (t : TV) : Option (List Int) :=
  match t.hdr.ti with
  | none => none
  | some ti =>
    match peakShared p ti with
    | some v => some v
    | none =>
      match t.hdr.peakTuple with
      | .trap => none
      | .none => some []
      | .some v => some v

/-- `TupleVariation::compute_scalar(coords)`: the peak must have `axis_count` values, then the loop
over the non-zero peaks (`Checked.tupleScalar`, whose `none` is an arithmetic trap); `coords`, peaks
and intermediates are `F2Dot14` bits, the result `Fixed` bits (`ok none` = not applicable) -/
def TV.computeScalar (p : TVD) (t : TV) (coords : List Int) : R (Option Int) :=
  match t.peak p with
  | none => .trap
  | some pk =>
    if pk.length ≠ p.ac then .ok none
    else
      match t.hdr.interTuples with
      | .trap => .trap
      | .none => unwrapR (Checked.tupleScalar pk none coords)
      | .some a b => unwrapR (Checked.tupleScalar pk (some (a, b)) coords)

/-- the `for i in 0..axis_count` loop of `compute_scalar_f32`: only the control flow (`false` =
`return None`); the `f32` products cannot trap.  All values are `to_bits() as i32`. -/
def f32Loop (inter : Option (List Int × List Int)) (coords pk : List Int) : List Nat → Bool
  | [] => true
  | i :: rest =>
    let coord := coords.getD i 0
    let peak := pk.getD i 0
    if peak = 0 ∨ peak = coord then f32Loop inter coords pk rest
    else if coord = 0 then false
    else
      match inter with
      | some (starts, ends) =>
        let start := starts.getD i 0
        let end_ := ends.getD i 0
        if start > peak ∨ peak > end_ ∨ (start < 0 ∧ end_ > 0 ∧ peak ≠ 0) then f32Loop inter coords pk rest
        else if coord < start ∨ coord > end_ then false
        else f32Loop inter coords pk rest
      | none =>
        if coord < min peak 0 ∨ coord > max peak 0 then false
        else f32Loop inter coords pk rest

/-- `TupleVariation::compute_scalar_f32(coords)`, `Some` / `None` only: the two intermediate tuples
are fetched before the length test -/
def TV.computeScalarF32 (p : TVD) (t : TV) (coords : List Int) : R Bool :=
  match t.peak p with
  | none => .trap
  | some pk =>
    match t.hdr.interStartTuple with
    | .trap => .trap
    | is_ =>
      match t.hdr.interEndTuple with
      | .trap => .trap
      | ie =>
        if pk.length ≠ p.ac then .ok false
        else
          let inter : Option (List Int × List Int) :=
            match is_, ie with
            | .some a, .some b => some (a, b)
            | _, _ => none
          .ok (f32Loop inter coords pk (List.range p.ac))

/-- `TupleVariationData::active_tuples_at(coords).collect()`:
`self.tuples().filter_map(|tuple| Some((tuple, tuple.compute_scalar(coords)?)))`; `none` = out of fuel,
`some (.trap)` = a panic inside `tuples()` or `compute_scalar` -/
def activeTuples (p : TVD) (coords : List Int) : Option (R (List (TV × Int))) :=
  match tvTrace p with
  | none => none
  | some evs =>
    if trapped evs then some .trap
    else
      some ((items evs).foldr (fun t acc =>
        match t.computeScalar p coords, acc with
        | .trap, _ => .trap
        | _, .trap => .trap
        | _, .err e => .err e
        | .err e, _ => .err e
        | .ok (some v), .ok l => .ok ((t, v) :: l)
        | .ok none, .ok l => .ok l) (.ok []))

/-- `TupleVariation::deltas` + `TupleDeltaIter::new` with the point numbers `pd` and the packed
deltas `dd` in separate buffers (`ReadIter.tdInit` is the special case of private points); `none` = a
helper ran out of fuel / trapped (never: `tdInit2_some`) -/
def tdInit2 (pd dd : List Nat) (isPoint : Bool) : Option TdSt :=
  let count := pointCount pd
  let total : Option Nat :=
    if count = 0 then countAllDeltas dd else some (if isPoint then count * 2 else count)
  match total with
  | none => none
  | some total =>
    let first := ptNext pd (ptInit pd)
    let (pts, np) : Option PtSt × Nat :=
      match first.1 with
      | .yield v => (some first.2, v)
      | _ => (none, 0)
    if isPoint then
      match skipFast dd (total / 2) (dlInit (some total)) with
      | none => none
      | some ys => some { cur := 0, points := pts, nextPoint := np, x := dlInit (some (total / 2)), y := some ys }
    else
      some { cur := 0, points := pts, nextPoint := np, x := dlInit (some total), y := none }

/-- `tuple.deltas().collect()`; items `(position, dx, dy)` -/
def TV.deltasTrace (p : TVD) (t : TV) (isPoint : Bool) : Option (List (Out (Nat × Int × Int))) :=
  match t.pointsAndDeltas p with
  | none => none
  | some (pd, dd) =>
    match tdInit2 pd dd isPoint with
    | none => none
    | some s => run (tdStep pd dd) (tdFuel dd) s

/-! ## `GlyphVariationData::new` (gvar.rs), `Cvar::variation_data` (cvar.rs) -/

/-- `Offset16/32::resolve::<FontData>(data)`: `non_null().ok_or(NullOffset)`,
`data.split_off(off).ok_or(OutOfBounds)` -/
def resolveData (d : List Nat) (off : Nat) : R (List Nat) :=
  if off = 0 then .err .nullOffset
  else if off ≤ d.length then .ok (d.drop off) else .err .oob

/-- the shared point numbers, if the count says so: `PackedPointNumbers::split_off_front` -/
def splitShared (countBits : Nat) (data : List Nat) : R (Option (List Nat) × List Nat) :=
  if tvcShared countBits then
    match splitOffFront data with
    | none => .trap
    | some (pts, rest) => .ok (some pts, rest)
  else .ok (none, data)

/-- `GlyphVariationData::new(data, axis_count, shared_tuples)`:
generated `GlyphVariationDataHeader::read` (two `advance`s, `advance_by(remaining_bytes())`, `finish`),
`raw_tuple_header_data` (`data.split_off(4).unwrap()`), the unwrapping getters,
`serialized_data()?`, the shared point numbers -/
def gvdNew (d : List Nat) (ac : Nat) (shared : List Nat) : R TVD :=
  let pos := satAdd 4 (d.length - 4)
  if pos > d.length then .err .oob
  else
    match splitOff d 4, readAt d 0 2, readAt d 2 2 with
    | some _, some count, some off =>
      match resolveData d off with
      | .err e => .err e
      | .trap => .trap
      | .ok data =>
        match splitShared count data with
        | .err e => .err e
        | .trap => .trap
        | .ok (sp, ser) =>
          .ok { ac := ac, shared := some shared, sharedPts := sp, countBits := count,
                headerData := d.drop 4, ser := ser }
    | _, _, _ => .trap

/-- generated `Cvar::read` + `Cvar::variation_data(axis_count)`: `tuple_variation_count()` (unwrap
getter), `self.data()?` (offset from the table start), `raw_tuple_header_data`
(`data.split_off(8).unwrap()`), the shared point numbers; there are no shared tuples -/
def cvarVariationData (d : List Nat) (ac : Nat) : R TVD :=
  let pos := satAdd 8 (d.length - 8)
  if pos > d.length then .err .oob
  else
    match readAt d 4 2, readAt d 6 2 with
    | some count, some off =>
      match resolveData d off with
      | .err e => .err e
      | .trap => .trap
      | .ok data =>
        match splitOff d 8 with
        | none => .trap
        | some _ =>
          match splitShared count data with
          | .err e => .err e
          | .trap => .trap
          | .ok (sp, ser) =>
            .ok { ac := ac, shared := none, sharedPts := sp, countBits := count,
                  headerData := d.drop 8, ser := ser }
    | _, _ => .trap

/-! ## `Cvar::deltas` (cvar.rs) -/

/-- `*value = value.wrapping_add(delta.apply_scalar(scalar).to_bits())` for `deltas.get_mut(ix)`;
`CvtDelta::apply_scalar` = `Fixed::from_i32(self.value) * scalar` (`Checked.fxFromI32`, `Checked.fxMul`:
`none` = arithmetic trap).  An index beyond the buffer is skipped. -/
def applyCvt (buf : List Int) (ix : Nat) (value scalar : Int) : Option (List Int) :=
  match buf[ix]? with
  | none => some buf
  | some cur =>
    match Checked.fxFromI32 value with
    | none => none
    | some f =>
      match Checked.fxMul f scalar with
      | none => none
      | some prod => some (buf.set ix (Checked.i32.wrappingAdd cur prod))

/-- the inner `for delta in tuple.deltas()` loop -/
def applyCvtAll : List (Nat × Int × Int) → Int → List Int → Option (List Int)
  | [], _, buf => some buf
  | (pos, v, _) :: rest, scalar, buf =>
    match applyCvt buf pos v scalar with
    | none => none
    | some buf' => applyCvtAll rest scalar buf'

/-- the outer `for (tuple, scalar) in var_data.active_tuples_at(coords)` loop -/
def cvarDeltasLoop (p : TVD) : List (TV × Int) → List Int → R (List Int)
  | [], buf => .ok buf
  | (t, scalar) :: rest, buf =>
    match t.deltasTrace p false with
    | none => .trap
    | some evs =>
      if trapped evs then .trap
      else
        match applyCvtAll (items evs) scalar buf with
        | none => .trap
        | some buf' => cvarDeltasLoop p rest buf'

/-- `Cvar::deltas(axis_count, coords, deltas)` on the caller's buffer `buf`; `ok` = the buffer afterwards -/
def cvarDeltas (d : List Nat) (ac : Nat) (coords : List Int) (buf : List Int) : R (List Int) :=
  match cvarVariationData d ac with
  | .err e => .err e
  | .trap => .trap
  | .ok p =>
    match activeTuples p coords with
    | none => .trap
    | some .trap => .trap
    | some (.err e) => .err e
    | some (.ok l) => cvarDeltasLoop p l buf

/-! ## `Gvar` (gvar.rs + the generated reader) -/

/-- a successfully read `Gvar`: `TableRef { data, shape }` -/
structure Gv where
  d : List Nat
  /-- `glyph_variation_data_offsets_byte_len` -/
  offsLen : Nat
  deriving Repr, DecidableEq

/-- generated `Gvar::read`: four `advance`s, `glyph_count = cursor.read()?`, `flags = cursor.read()?`,
`advance::<u32>()`, `transforms::add(glyph_count, 1).checked_mul(U16Or32::compute_size(&flags)?)
.ok_or(OutOfBounds)?`, `advance_by`, `finish`.  `none` = `Err(OutOfBounds)`. -/
def gvarRead (d : List Nat) : Option Gv :=
  match readAt d 12 2, readAt d 14 2 with
  | some gc, some flags =>
    match checkedMul (satAdd gc 1) (if flags % 2 = 1 then 4 else 2) with
    | none => none
    | some olen => if satAdd 20 olen ≤ d.length then some ⟨d, olen⟩ else none
  | _, _ => none

/-- generated getters (`self.data.read_at(range.start).unwrap()`; `none` = panic) -/
def Gv.axisCount (g : Gv) : Option Nat := readAt g.d 4 2
def Gv.sharedTupleCount (g : Gv) : Option Nat := readAt g.d 6 2
def Gv.sharedTuplesOffset (g : Gv) : Option Nat := readAt g.d 8 4
def Gv.glyphCount (g : Gv) : Option Nat := readAt g.d 12 2
/-- `GvarFlags::from_raw` = `from_bits_truncate`: only `LONG_OFFSETS` (bit 0) is a known flag -/
def Gv.flags (g : Gv) : Option Nat := (readAt g.d 14 2).map (· % 2)
def Gv.dao (g : Gv) : Option Nat := readAt g.d 16 4

/-- `Gvar::shared_tuples()?.tuples()`: `Offset32::resolve_with_args` (`NullOffset` for 0, `split_off`),
generated `SharedTuples::read_with_args` (`count.checked_mul(Tuple::compute_size(&axis_count)?)`,
`advance_by`, `finish`), `tuples()` = `data.read_with_args(0..len, &axis_count).unwrap()`
(`ComputedArray::new` cannot fail for `Tuple`).  Result: the bytes of the `ComputedArray<Tuple>`. -/
def Gv.sharedTuples (g : Gv) : R (List Nat) :=
  match g.sharedTupleCount, g.axisCount, g.sharedTuplesOffset with
  | some count, some ac, some off =>
    match resolveData g.d off with
    | .err e => .err e
    | .trap => .trap
    | .ok data =>
      match checkedMul ac 2 with
      | none => .err .oob
      | some sz =>
        match checkedMul count sz with
        | none => .err .oob
        | some tbl =>
          if satAdd 0 tbl ≤ data.length then
            match sliceExcl data 0 tbl with
            | some _ => .ok (data.take tbl)
            | none => .trap
          else .err .oob
  | _, _, _ => .trap

/-- the stored offsets: `glyph_variation_data_offsets()` (`ComputedArray<U16Or32>` over the
`offsLen` bytes at 20, item size 2 / 4 by `LONG_OFFSETS`) as the list of raw values; `get(i)` is `Ok`
exactly for the whole items, i.e. `offs[i]?` -/
def Gv.offsets (g : Gv) (long : Bool) : List Nat :=
  let w := if long then 4 else 2
  (List.range (g.offsLen / w)).map (fun i => HandRead.beAt g.d (20 + i * w) w)

/-- `Gvar::data_for_gid(gid)` (`data_range_for_gid`: two `ComputedArray::get`, two `u32::checked_add`;
empty range → `None`; `self.data.slice(range)`): `GvarLayout.dataForGid` on the decoded offsets -/
def Gv.dataForGid (g : Gv) (gid : Nat) : R (Option (List Nat)) :=
  match g.flags, g.dao with
  | some flags, some dao =>
    let long := decide (flags % 2 = 1)
    match GvarLayout.dataForGid g.d long dao (g.offsets long) gid with
    | none => .err .oob
    | some r => .ok r
  | _, _ => .trap

/-- `Gvar::glyph_variation_data(gid)`: `shared_tuples()?`, `axis_count()`, `data_for_gid(gid)?`,
`GlyphVariationData::new` -/
def Gv.glyphVariationData (g : Gv) (gid : Nat) : R (Option TVD) :=
  match g.sharedTuples with
  | .err e => .err e
  | .trap => .trap
  | .ok shared =>
    match g.axisCount with
    | none => .trap
    | some ac =>
      match g.dataForGid gid with
      | .err e => .err e
      | .trap => .trap
      | .ok none => .ok none
      | .ok (some bytes) =>
        match gvdNew bytes ac shared with
        | .err e => .err e
        | .trap => .trap
        | .ok p => .ok (some p)

/-! ## `DeltaSetIndexMap` (variations.rs + the generated readers) -/

/-- a successfully read `DeltaSetIndexMap` (format 0: `u16` count at 2, data at 4; format 1: `u32`
count at 2, data at 6) -/
structure Dsim where
  d : List Nat
  format : Nat
  /-- start of `map_data` -/
  hdr : Nat
  /-- `map_data_byte_len` -/
  mapLen : Nat
  deriving Repr, DecidableEq

/-- `EntryFormat::entry_size`: `((bits & 0x30) >> 4) + 1` -/
def entrySize (ef : Nat) : Nat := ef / 16 % 4 + 1
/-- `EntryFormat::bit_count`: `(bits & 0x0F) + 1` -/
def bitCount (ef : Nat) : Nat := ef % 16 + 1

/-- `EntryFormat::map_size(map_count)`: `entry_size as usize * map_count as usize` (unchecked) -/
def mapSize (ef mc : Nat) : Option Nat := umul (entrySize ef) mc

/-- generated `DeltaSetIndexMap::read`: `format = data.read_at::<u8>(0)?`, then the format's reader
(`advance::<u8>`, `entry_format = read()?`, `map_count = read()?`,
`map_size(..).checked_mul(1).ok_or(OutOfBounds)?`, `advance_by`, `finish`), else `InvalidFormat` -/
def dsimRead (d : List Nat) : R Dsim :=
  match readAt d 0 1 with
  | none => .err .oob
  | some fmt =>
    if fmt = 0 ∨ fmt = 1 then
      let cw := if fmt = 0 then 2 else 4
      match readAt d 1 1, readAt d 2 cw with
      | some ef, some mc =>
        match mapSize ef mc with
        | none => .trap
        | some ms =>
          match checkedMul ms 1 with
          | none => .err .oob
          | some len =>
            if satAdd (2 + cw) len ≤ d.length then .ok ⟨d, fmt, 2 + cw, len⟩ else .err .oob
      | _, _ => .err .oob
    else .err (.invalidFormat fmt)

/-- generated getters (`read_at(..).unwrap()`; `EntryFormat::from_raw` = `from_bits_truncate`: the
two reserved bits are dropped) -/
def Dsim.entryFormat (m : Dsim) : Option Nat := (readAt m.d 1 1).map (· % 64)
def Dsim.mapCount (m : Dsim) : Option Nat := readAt m.d 2 (if m.format = 0 then 2 else 4)
/-- `map_data()`: `self.data.read_array(range).unwrap()` with the range from an unchecked `start + len` -/
def Dsim.mapData (m : Dsim) : Option (List Nat) :=
  match uadd m.hdr m.mapLen with
  | none => none
  | some e =>
    match HandRead.readArray m.d m.hdr e 1 with
    | .ok n => some ((m.d.drop m.hdr).take n)
    | .error _ => none

/-- `DeltaSetIndexMap::get(index)`: `index.min(map_count.saturating_sub(1))`,
`offset = index as usize * entry_size as usize`, the entry read (`?`), `outer = (entry >> bit_count) as
u16`, `inner = (entry & ((1 << bit_count) - 1)) as u16`.  `ok (outer, inner)`. -/
def Dsim.get (m : Dsim) (index : Nat) : R (Nat × Nat) :=
  match m.entryFormat, m.mapCount, m.mapData with
  | some ef, some mc, some data =>
    let es := entrySize ef
    let idx := min index (mc - 1)
    match umul idx es with
    | none => .trap
    | some off =>
      if 1 ≤ es ∧ es ≤ 4 then
        match readAt data off es with
        | none => .err .oob
        | some entry =>
          let bc := bitCount ef
          -- `entry >> bit_count`, `1 << bit_count` on a `u32`: the shift amount must be below 32
          if bc < 32 then
            -- `(1 << bit_count) - 1`
            if 2 ^ bc - 1 < 2 ^ bc then .ok (entry / 2 ^ bc % 65536, entry % 2 ^ bc % 65536) else .trap
          else .trap
      else .err .malformed
  | _, _, _ => .trap

/-! ## `ItemVariationStore` -/

structure Ivs where
  d : List Nat
  /-- `item_variation_data_offsets_byte_len` -/
  offsLen : Nat
  deriving Repr, DecidableEq

/-- generated `ItemVariationStore::read`: format (2), region list offset (4), `count = read()?`,
`count.checked_mul(4)`, `advance_by`, `finish` -/
def ivsRead (d : List Nat) : Option Ivs :=
  match readAt d 6 2 with
  | none => none
  | some cnt =>
    match checkedMul cnt 4 with
    | none => none
    | some ol => if satAdd 8 ol ≤ d.length then some ⟨d, ol⟩ else none

/-- `ItemVariationData::delta_row_len(word_delta_count, region_index_count)` (all operators unchecked
except the `saturating_sub`); `none` = overflow panic -/
def deltaRowLen (wdc ric : Nat) : Option Nat :=
  let long := decide (wdc / 32768 % 2 = 1)
  let wordSize := if long then 4 else 2
  let smallSize := if long then 2 else 1
  let longCount := wdc % 32768
  let shortCount := ric - longCount
  match umul longCount wordSize, umul shortCount smallSize with
  | some a, some b => uadd a b
  | _, _ => none

/-- `ItemVariationData::delta_sets_len(item_count, word_delta_count, region_index_count)`:
`bytes_per_row * item_count as usize` (unchecked) -/
def deltaSetsLen (ic wdc ric : Nat) : Option Nat :=
  match deltaRowLen wdc ric with
  | none => none
  | some r => umul r ic

/-- a successfully read `ItemVariationData` -/
structure Ivd where
  d : List Nat
  /-- `region_indexes_byte_len` -/
  riLen : Nat
  /-- `delta_sets_byte_len` -/
  dsLen : Nat
  deriving Repr, DecidableEq

/-- generated `ItemVariationData::read` -/
def ivdRead (d : List Nat) : R Ivd :=
  match readAt d 0 2, readAt d 2 2, readAt d 4 2 with
  | some ic, some wdc, some ric =>
    match checkedMul ric 2 with
    | none => .err .oob
    | some ril =>
      match deltaSetsLen ic wdc ric with
      | none => .trap
      | some n =>
        match checkedMul n 1 with
        | none => .err .oob
        | some dsl =>
          if satAdd (satAdd 6 ril) dsl ≤ d.length then .ok ⟨d, ril, dsl⟩ else .err .oob
  | _, _, _ => .err .oob

def Ivd.wordDeltaCount (v : Ivd) : Option Nat := readAt v.d 2 2
def Ivd.regionIndexCount (v : Ivd) : Option Nat := readAt v.d 4 2
/-- `region_indexes()`: `read_array(6..6 + len).unwrap()`, as the list of values -/
def Ivd.regionIndexes (v : Ivd) : Option (List Nat) :=
  match uadd 6 v.riLen with
  | none => none
  | some e =>
    match HandRead.readArray v.d 6 e 2 with
    | .ok n => some ((List.range n).map (fun i => HandRead.beAt v.d (6 + 2 * i) 2))
    | .error _ => none
/-- `delta_sets()`: `read_array(start..start + len).unwrap()` -/
def Ivd.deltaSets (v : Ivd) : Option (List Nat) :=
  match uadd 6 v.riLen with
  | none => none
  | some s =>
    match uadd s v.dsLen with
    | none => none
    | some e =>
      match HandRead.readArray v.d s e 1 with
      | .ok n => some ((v.d.drop s).take n)
      | .error _ => none

/-- `ItemDeltas::next` collected: `if pos >= len { None }`, `pos += 1` (`u16`, unchecked), the column
width by `(pos >= word_delta_count, long_words)`, `cursor.read().ok()?`.  `none` = overflow panic.
Structural on the fuel `len - pos`. -/
def itemDeltasGo (wdcLow : Nat) (long : Bool) (len : Nat) : Nat → Nat → List Nat → Option (List Int)
  | 0, _, _ => some []
  | fuel + 1, pos, bytes =>
    if pos ≥ len then some []
    else if pos + 1 > 65535 then none
    else
      match Tent.readW (Tent.colWidth wdcLow long pos) bytes with
      | none => some []
      | some (v, rest) => (itemDeltasGo wdcLow long len fuel (pos + 1) rest).map (v :: ·)

/-- `ItemVariationData::delta_set(inner_index).collect()`: `offset = bytes_per_row * inner_index as
usize` (unchecked), `FontData::new(delta_sets()).slice(offset..).unwrap_or_default()` -/
def Ivd.deltaSet (v : Ivd) (inner : Nat) : Option (List Int) :=
  match v.wordDeltaCount, v.regionIndexCount, v.deltaSets with
  | some wdc, some ric, some ds =>
    match deltaRowLen wdc ric with
    | none => none
    | some row =>
      match umul row inner with
      | none => none
      | some off =>
        let sliced := if off ≤ ds.length then ds.drop off else []
        itemDeltasGo (wdc % 32768) (decide (wdc / 32768 % 2 = 1)) ric ric 0 sliced
  | _, _, _ => none

/-- the `(start, peak, end)` `F2Dot14` triples of the `n` `RegionAxisCoordinates` records at `a` -/
def regionAxes (d : List Nat) (a n : Nat) : List (Int × Int × Int) :=
  (List.range n).map (fun i =>
    (toI16 (HandRead.beAt d (a + 6 * i) 2), toI16 (HandRead.beAt d (a + 6 * i + 2) 2),
     toI16 (HandRead.beAt d (a + 6 * i + 4) 2)))

/-- a successfully read `VariationRegionList` with its `ComputedArray<VariationRegion>` -/
structure Vrl where
  d : List Nat
  /-- `variation_regions_byte_len` -/
  regLen : Nat
  deriving Repr, DecidableEq

/-- `ItemVariationStore::variation_region_list()`: non-nullable `Offset32` at 2, generated
`VariationRegionList::read` (`axis_count`, `region_count`,
`region_count.checked_mul(axis_count.checked_mul(6)?)`, `advance_by`, `finish`) -/
def Ivs.regionList (s : Ivs) : R Vrl :=
  match readAt s.d 2 4 with
  | none => .trap
  | some off =>
    match resolveData s.d off with
    | .err e => .err e
    | .trap => .trap
    | .ok data =>
      match readAt data 0 2, readAt data 2 2 with
      | some ac, some rc =>
        match checkedMul ac 6 with
        | none => .err .oob
        | some sz =>
          match checkedMul rc sz with
          | none => .err .oob
          | some len => if satAdd 4 len ≤ data.length then .ok ⟨data, len⟩ else .err .oob
      | _, _ => .err .oob

def Vrl.axisCount (r : Vrl) : Option Nat := readAt r.d 0 2

/-- `variation_regions().get(idx)`: `ComputedArray<VariationRegion>` over the `regLen` bytes at 4, items
of `6 * axis_count` bytes; `VariationRegion::read_with_args` = `cursor.read_array(axis_count)` -/
def Vrl.region (r : Vrl) (idx : Nat) : R (List (Int × Int × Int)) :=
  match r.axisCount, uadd 4 r.regLen with
  | some ac, some e =>
    match sliceExcl r.d 4 e with
    | none => .trap
    | some _ =>
      match compGet r.regLen (6 * ac) idx with
      | none => .err .oob
      | some off => .ok (regionAxes r.d (4 + off) ac)
  | _, _ => .trap

/-- `item_variation_data().get(outer)`: `ArrayOfNullableOffsets::get` —
`offsets.get(idx)` missing → `Some(Err(InvalidCollectionIndex))`, a null offset → `None`, else
`resolve` + `ItemVariationData::read`.  `ok none` = Rust `None`. -/
def Ivs.itemData (s : Ivs) (outer : Nat) : R (Option Ivd) :=
  match uadd 8 s.offsLen with
  | none => .trap
  | some e =>
    match HandRead.readArray s.d 8 e 4 with
    | .error _ => .trap
    | .ok n =>
      if outer < n then
        let off := HandRead.beAt s.d (8 + 4 * outer) 4
        if off = 0 then .ok none
        else if off ≤ s.d.length then
          match ivdRead (s.d.drop off) with
          | .ok v => .ok (some v)
          | .err e => .err e
          | .trap => .trap
        else .err .oob
      else .err (.invalidIndex outer)

/-- the body of the `for (i, region_delta) in data.delta_set(inner).enumerate()` loop without the
arithmetic: pairs every delta with the axes of its region.
`region_indices.get(i).ok_or(MalformedData)?`, `regions.get(region_index)?` -/
def deltaRegions (r : Vrl) : List Int → List Nat → R (List (Int × List (Int × Int × Int)))
  | [], _ => .ok []
  | _ :: _, [] => .err .malformed
  | dl :: ds, ri :: ris =>
    match r.region ri with
    | .err e => .err e
    | .trap => .trap
    | .ok axes =>
      match deltaRegions r ds ris with
      | .ok rest => .ok ((dl, axes) :: rest)
      | .err e => .err e
      | .trap => .trap

/-- the part of `compute_delta` / `compute_float_delta` in front of the arithmetic: `ok none` = the
early `Ok(0)` (no coordinates / null subtable offset) -/
def Ivs.deltaWalk (s : Ivs) (outer inner : Nat) (coordsEmpty : Bool) :
    R (Option (List (Int × List (Int × Int × Int)))) :=
  if coordsEmpty then .ok none
  else
    match s.itemData outer with
    | .err e => .err e
    | .trap => .trap
    | .ok none => .ok none
    | .ok (some v) =>
      match s.regionList with
      | .err e => .err e
      | .trap => .trap
      | .ok rl =>
        match v.regionIndexes, v.deltaSet inner with
        | some ris, some ds =>
          match deltaRegions rl ds ris with
          | .ok l => .ok (some l)
          | .err e => .err e
          | .trap => .trap
        | _, _ => .trap

/-- `ItemVariationStore::compute_delta(index, coords)`: the walk, then C20's kernel
`Checked.computeDelta` (`VariationRegion::compute_scalar` per region, the `i64` accumulation and the
final rounding; `none` = arithmetic trap) -/
def Ivs.computeDelta (s : Ivs) (outer inner : Nat) (coords : List Int) : R Int :=
  match s.deltaWalk outer inner coords.isEmpty with
  | .err e => .err e
  | .trap => .trap
  | .ok none => .ok 0
  | .ok (some l) => unwrapR (Checked.computeDelta (l.map (fun x => (x.2, x.1))) coords)

/-- `ItemVariationStore::compute_float_delta`: the same walk; the `f32` / `f64` arithmetic cannot trap
and is not rendered -/
def Ivs.computeFloatDelta (s : Ivs) (outer inner : Nat) (coords : List Int) : R Unit :=
  match s.deltaWalk outer inner coords.isEmpty with
  | .err e => .err e
  | .trap => .trap
  | .ok _ => .ok ()

/-! ## `advance_delta`, `item_delta` (variations.rs), `Hvar`, `Vvar` (hvar.rs, vvar.rs) -/

/-- `Nullable<Offset32>::resolve::<DeltaSetIndexMap>`: `none` = null offset -/
def resolveDsim (d : List Nat) (off : Nat) : Option (R Dsim) :=
  if off = 0 then none
  else if off ≤ d.length then some (dsimRead (d.drop off)) else some (.err .oob)

/-- `Offset32::resolve::<ItemVariationStore>` -/
def resolveIvs (d : List Nat) (off : Nat) : R Ivs :=
  match resolveData d off with
  | .err e => .err e
  | .trap => .trap
  | .ok data => okOr .oob (ivsRead data)

/-- `Fixed::from_i32(ivs?.compute_delta(ix, coords)?)` -/
def deltaAsFixed (ivs : R Ivs) (ix : Nat × Nat) (coords : List Int) : R Int :=
  match ivs with
  | .err e => .err e
  | .trap => .trap
  | .ok s =>
    match s.computeDelta ix.1 ix.2 coords with
    | .err e => .err e
    | .trap => .trap
    | .ok v => unwrapR (Checked.fxFromI32 v)

/-- `variations::advance_delta(dsim, ivs, glyph_id, coords)`: without a (readable) map the index is
`{ outer: 0, inner: gid as u16 }` -/
def advanceDelta (dsim : Option (R Dsim)) (ivs : R Ivs) (gid : Nat) (coords : List Int) : R Int :=
  match dsim, ivs with
  | some .trap, _ => .trap
  | _, .trap => .trap
  | _, _ =>
    if coords.isEmpty then .ok 0
    else
      match dsim with
      | some (.ok m) =>
        match m.get gid with
        | .err e => .err e
        | .trap => .trap
        | .ok ix => deltaAsFixed ivs ix coords
      | _ => deltaAsFixed ivs (0, gid % 65536) coords

/-- `variations::item_delta`: without a (readable) map `Err(NullOffset)` -/
def itemDelta (dsim : Option (R Dsim)) (ivs : R Ivs) (gid : Nat) (coords : List Int) : R Int :=
  match dsim, ivs with
  | some .trap, _ => .trap
  | _, .trap => .trap
  | _, _ =>
    if coords.isEmpty then .ok 0
    else
      match dsim with
      | some (.ok m) =>
        match m.get gid with
        | .err e => .err e
        | .trap => .trap
        | .ok ix => deltaAsFixed ivs ix coords
      | _ => .err .nullOffset

/-- `Hvar::{advance_width_delta, lsb_delta, rsb_delta}` (`which` = 0, 1, 2) and
`Vvar::{advance_height_delta, tsb_delta, bsb_delta, v_org_delta}` (`vvar`, `which` = 0..3) on a table
that was read successfully (`20` / `24` header bytes): the store offset at 4, the map offsets from 8;
the getters are `read_at(..).unwrap()` -/
def metricsDelta (d : List Nat) (vvar : Bool) (which gid : Nat) (coords : List Int) : R Int :=
  if d.length < (if vvar then 24 else 20) then .err .oob
  else
    match readAt d 4 4, readAt d (8 + 4 * which) 4 with
    | some so, some mo =>
      if which = 0 then advanceDelta (resolveDsim d mo) (resolveIvs d so) gid coords
      else itemDelta (resolveDsim d mo) (resolveIvs d so) gid coords
    | _, _ => .trap

/-! ## `Mvar::metric_delta` (mvar.rs) -/

/-- the `while lo < hi` binary search over `value_records()` (`tags` = the records' `value_tag`s as
`u32`s): `i = (lo + hi) / 2` (unchecked `+`), `&records[i]` (an index panic is `trap`), `hi = i` /
`lo = i + 1`.  `ok (some i)` = found at `i`, `ok none` = `MetricIsMissing`; fuel = the array length + 1. -/
def mvarSearch (tags : List Nat) (tag : Nat) : Nat → Nat → Nat → R (Option Nat)
  | 0, _, _ => .trap
  | fuel + 1, lo, hi =>
    if lo < hi then
      match uadd lo hi with
      | none => .trap
      | some sum =>
        let i := sum / 2
        match tags[i]? with
        | none => .trap
        | some t =>
          if tag < t then mvarSearch tags tag fuel lo i
          else if tag > t then
            match uadd i 1 with
            | none => .trap
            | some lo' => mvarSearch tags tag fuel lo' hi
          else .ok (some i)
    else .ok none

/-- `Mvar::read` + `Mvar::metric_delta(tag, coords)`: 12 header bytes, `count` records of 8 bytes
(`value_records()` = `read_array(12..12 + 8·count).unwrap()`), the search, then
`item_variation_store().ok_or(NullOffset)??` (`Nullable<Offset16>` at 10) and `compute_delta` with the
record's outer / inner index -/
def mvarMetricDelta (d : List Nat) (tag : Nat) (coords : List Int) : R Int :=
  match readAt d 8 2 with
  | none => .err .oob
  | some count =>
    match checkedMul count 8 with
    | none => .err .oob
    | some len =>
      if satAdd 12 len ≤ d.length then
        match uadd 12 len with
        | none => .trap
        | some e =>
          match HandRead.readArray d 12 e 8 with
          | .error _ => .trap
          | .ok n =>
            let tags := (List.range n).map (fun i => HandRead.beAt d (12 + 8 * i) 4)
            match mvarSearch tags tag (n + 1) 0 n with
            | .trap => .trap
            | .err e => .err e
            | .ok none => .err .metricMissing
            | .ok (some i) =>
              match readAt d 10 2 with
              | none => .trap
              | some so =>
                if so = 0 then .err .nullOffset
                else
                  let ivs : R Ivs := if so ≤ d.length then okOr .oob (ivsRead (d.drop so)) else .err .oob
                  deltaAsFixed ivs (HandRead.beAt d (12 + 8 * i + 4) 2, HandRead.beAt d (12 + 8 * i + 6) 2) coords
      else .err .oob

/-! ## `SegmentMaps` (avar.rs) -/

/-- `SegmentMaps::read` (`position_map_count = cursor.read_be()?`,
`cursor.read_array::<AxisValueMap>(count)?`) + `SegmentMaps::apply(coord)`: the loop over the
`(from, to)` records is C20's `Checked.avarApply` (`none` = arithmetic trap); `coord` and the result are
`Fixed` bits -/
def segmentMapsApply (d : List Nat) (coord : Int) : R Int :=
  match readAt d 0 2 with
  | none => .err .oob
  | some count =>
    match (Cur.readArray d ⟨2⟩ count 4).1 with
    | .error _ => .err .oob
    | .ok n =>
      let maps := (List.range n).map (fun i =>
        (toI16 (HandRead.beAt d (2 + 4 * i) 2), toI16 (HandRead.beAt d (2 + 4 * i + 2) 2)))
      unwrapR (Checked.avarApply maps coord)

/-! ## `read_dense_deltas`, `read_sparse_deltas`, `TupleVariation::accumulate_{dense,sparse}_deltas`

The caller's `&mut [Point<D>]` is the pair of coordinate lists `(xs, ys)` (bit patterns of `D`), the
`&mut [PointFlags]` the list of `HAS_DELTA` markers.  `D` is one of the integer-backed `PointCoord`
types; `f32` is not modelled.  KNOWN FINDING `C01-accumulate-deltas-i32-overflow`: for `D = i32` the
`+=` is the plain `i32` addition and can overflow — `DKind.addAssign .int` is `Checked.i32.add`, whose
`none` is that panic. -/

inductive DKind where
  | fixed
  | f26dot6
  | int
  deriving Repr, DecidableEq

/-- `D::from_i32(v)` (`Fixed::from_i32` = `v << 16`, `F26Dot6::from_i32` = `v << 6`, identity) -/
def DKind.fromI32 : DKind → Int → Option Int
  | .fixed, v => Checked.fxFromI32 v
  | .f26dot6, v => Checked.f26FromI32 v
  | .int, v => some v

/-- `D::from_fixed(x)` (identity, `to_f26dot6`, `to_i32`) -/
def DKind.fromFixed : DKind → Int → Option Int
  | .fixed, x => some x
  | .f26dot6, x => Checked.fxToF26Dot6 x
  | .int, x => Checked.fxToI32 x

/-- `a += b` of the coordinate type: `wrapping_add` for the fixed-point types, the plain `+` for `i32` -/
def DKind.addAssign : DKind → Int → Int → Option Int
  | .int, a, b => Checked.i32.add a b
  | _, a, b => some (Checked.i32.wrappingAdd a b)

/-- the value a closure adds for `new_delta`: `D::from_i32(new_delta)` when `scalar == Fixed::ONE`,
else `D::from_fixed(Fixed::from_i32(new_delta) * scalar)`; `none` = arithmetic trap -/
def deltaTerm (k : DKind) (scalar nd : Int) : Option Int :=
  if scalar = 65536 then k.fromI32 nd
  else
    match Checked.fxFromI32 nd with
    | none => none
    | some f =>
      match Checked.fxMul f scalar with
      | none => none
      | some p => k.fromFixed p

/-- `coord += term` at index `ix` (the index is known to be in range) -/
def addAt (k : DKind) (buf : List Int) (ix : Nat) (term : Int) : Option (List Int) :=
  match buf[ix]? with
  | none => none
  | some cur => (k.addAssign cur term).map (buf.set ix)

/-- the `run_count` values of a run at `pos` (`Cursor::read_array` succeeded: they exist) -/
def runValues (d : List Nat) (vsize pos n : Nat) : List Int :=
  (List.range n).map (fun i => (dlReadValue d vsize (pos + i * vsize)).getD 0)

/-- `for (delta, new_delta) in dest.iter_mut().zip(packed_deltas) { f(delta, new_delta) }` -/
def denseApply (k : DKind) (scalar : Int) : List Int → Nat → List Int → Option (List Int)
  | [], _, buf => some buf
  | v :: rest, ix, buf =>
    match deltaTerm k scalar v with
    | none => none
    | some t =>
      match addAt k buf ix t with
      | none => none
      | some buf' => denseApply k scalar rest (ix + 1) buf'

/-- `read_dense_deltas(cursor, deltas, f)` on one coordinate: `while cur < count`, `control =
cursor.read()?`, `dest = deltas.get_mut(cur..cur + run_count).ok_or(OutOfBounds)?` (unchecked `+`),
the typed `cursor.read_array(run_count)?`, `cur += run_count`.  Returns the result and the cursor
position; fuel `count + 1` always suffices. -/
def readDense (k : DKind) (scalar : Int) (d : List Nat) : Nat → Nat → Nat → List Int → R (List Int × Nat)
  | 0, _, _, _ => .trap
  | fuel + 1, pos, cur, buf =>
    if cur < buf.length then
      match u8At d pos with
      | none => .err .oob
      | some control =>
        let runCount := control % 64 + 1
        match uadd cur runCount with
        | none => .trap
        | some e =>
          if e ≤ buf.length then
            let vsize := runTypeSize control
            if vsize = 0 then readDense k scalar d fuel (pos + 1) e buf
            else
              match (Cur.readArray d ⟨pos + 1⟩ runCount vsize).1 with
              | .error _ => .err .oob
              | .ok _ =>
                match denseApply k scalar (runValues d vsize (pos + 1) runCount) cur buf with
                | none => .trap
                | some buf' => readDense k scalar d fuel (pos + 1 + runCount * vsize) e buf'
          else .err .oob
    else .ok (buf, pos)

/-- `TupleVariation::accumulate_dense_deltas(deltas, scalar)`: the x pass, then the y pass with the
same cursor, over the packed deltas `dd` of the tuple -/
def accumulateDense (k : DKind) (scalar : Int) (dd : List Nat) (xs ys : List Int) : R (List Int × List Int) :=
  match readDense k scalar dd (xs.length + 1) 0 0 xs with
  | .err e => .err e
  | .trap => .trap
  | .ok (xs', pos) =>
    match readDense k scalar dd (ys.length + 1) pos 0 ys with
    | .err e => .err e
    | .trap => .trap
    | .ok (ys', _) => .ok (xs', ys')

/-- the closure of one `read_sparse_deltas` pass: `limit` = how many indices the closure accepts
(`deltas.get_mut(ix).zip(flags.get_mut(ix))` for x: `min`, `deltas.get_mut(ix)` for y), `mark` = set
`HAS_DELTA` (x pass only) -/
def sparseAt (k : DKind) (scalar : Int) (limit : Nat) (mark : Bool) (ix : Nat) (v : Int)
    (buf : List Int) (flags : List Bool) : Option (List Int × List Bool) :=
  if ix < limit then
    match deltaTerm k scalar v with
    | none => none
    | some t =>
      match addAt k buf ix t with
      | none => none
      | some buf' => some (buf', if mark then flags.set ix true else flags)
  else some (buf, flags)

/-- `for (new_delta, point_ix) in packed_deltas.iter().zip(points_iter.by_ref())`: ends silently when
the points run out -/
def sparseZip (pd : List Nat) (k : DKind) (scalar : Int) (limit : Nat) (mark : Bool) :
    List Int → PtSt → List Int → List Bool → Option (List Int × List Bool × PtSt)
  | [], s, buf, flags => some (buf, flags, s)
  | v :: rest, s, buf, flags =>
    match ptNext pd s with
    | (.yield ix, s') =>
      match sparseAt k scalar limit mark ix v buf flags with
      | none => none
      | some (buf', flags') => sparseZip pd k scalar limit mark rest s' buf' flags'
    | (_, s') => some (buf, flags, s')

/-- `for _ in 0..run_count { point_ix = points_iter.next().ok_or(OutOfBounds)?; f(point_ix, 0) }` -/
def sparseZero (pd : List Nat) (k : DKind) (scalar : Int) (limit : Nat) (mark : Bool) :
    Nat → PtSt → List Int → List Bool → R (List Int × List Bool × PtSt)
  | 0, s, buf, flags => .ok (buf, flags, s)
  | n + 1, s, buf, flags =>
    match ptNext pd s with
    | (.yield ix, s') =>
      match sparseAt k scalar limit mark ix 0 buf flags with
      | none => .trap
      | some (buf', flags') => sparseZero pd k scalar limit mark n s' buf' flags'
    | (_, _) => .err .oob

/-- `read_sparse_deltas(cursor, point_numbers, count, f)`; fuel `count + 1` always suffices -/
def readSparse (pd dd : List Nat) (k : DKind) (scalar : Int) (limit : Nat) (mark : Bool) (count : Nat) :
    Nat → Nat → Nat → PtSt → List Int → List Bool → R (List Int × List Bool × Nat)
  | 0, _, _, _, _, _ => .trap
  | fuel + 1, pos, cur, s, buf, flags =>
    if cur < count then
      match u8At dd pos with
      | none => .err .oob
      | some control =>
        let runCount := control % 64 + 1
        let vsize := runTypeSize control
        match uadd cur runCount with
        | none => .trap
        | some cur' =>
          if vsize = 0 then
            match sparseZero pd k scalar limit mark runCount s buf flags with
            | .err e => .err e
            | .trap => .trap
            | .ok (buf', flags', s') => readSparse pd dd k scalar limit mark count fuel (pos + 1) cur' s' buf' flags'
          else
            match (Cur.readArray dd ⟨pos + 1⟩ runCount vsize).1 with
            | .error _ => .err .oob
            | .ok _ =>
              match sparseZip pd k scalar limit mark (runValues dd vsize (pos + 1) runCount) s buf flags with
              | none => .trap
              | some (buf', flags', s') =>
                readSparse pd dd k scalar limit mark count fuel (pos + 1 + runCount * vsize) cur' s' buf' flags'
    else .ok (buf, flags, pos)

/-- `TupleVariation::accumulate_sparse_deltas(deltas, flags, scalar)` with the point numbers `pd` and the
packed deltas `dd` of the tuple: `count = point_numbers.count()`, the x pass (marks `HAS_DELTA`), the y
pass; each pass iterates the point numbers afresh -/
def accumulateSparse (k : DKind) (scalar : Int) (pd dd : List Nat) (xs ys : List Int) (flags : List Bool) :
    R (List Int × List Int × List Bool) :=
  let count := pointCount pd
  match readSparse pd dd k scalar (min xs.length flags.length) true count (count + 1) 0 0 (ptInit pd) xs flags with
  | .err e => .err e
  | .trap => .trap
  | .ok (xs', flags', pos) =>
    match readSparse pd dd k scalar ys.length false count (count + 1) pos 0 (ptInit pd) ys flags' with
    | .err e => .err e
    | .trap => .trap
    | .ok (ys', _, _) => .ok (xs', ys', flags')

/-! ## `find_glyph_and_point_count`, `Gvar::phantom_point_deltas` (gvar.rs)

The glyf / loca side (`loca.get_glyf`, `SimpleGlyph::num_points`, `CompositeGlyph::components`) belongs
to the glyf sub-system; here it is a parameter `glyph : gid → GR` (what `get_glyf` + the accessors
answer), and the recursion over `USE_MY_METRICS` components and the accumulation are modelled. -/

/-- what `loca.get_glyf(gid, glyf)` answers, as far as `find_glyph_and_point_count` looks -/
inductive GR where
  /-- `Err(e)` -/
  | err (e : VErr)
  /-- `Ok(None)`: an empty glyph -/
  | none
  /-- a simple glyph with `num_points()` points -/
  | simple (n : Nat)
  /-- a composite glyph: `(USE_MY_METRICS, component glyph id)` per component, in order -/
  | composite (comps : List (Bool × Nat))
  deriving Repr, DecidableEq

/-- the `for component in composite.components()` loop: `count += 1` (unchecked `usize`), and the first
component with `USE_MY_METRICS` ends it.  `some (count, target)`; `none` = overflow panic. -/
def firstMetrics : List (Bool × Nat) → Nat → Option (Nat × Option Nat)
  | [], count => some (count, none)
  | (flag, g) :: rest, count =>
    match uadd count 1 with
    | none => none
    | some c => if flag then some (c, some g) else firstMetrics rest c

/-- `find_glyph_and_point_count(glyf, loca, glyph_id, recurse_depth)`: `recurse_depth > 64` →
`MalformedData`; fuel 66 always suffices -/
def findGlyph (glyph : Nat → GR) : Nat → Nat → Nat → R (Nat × Nat)
  | 0, _, _ => .trap
  | fuel + 1, gid, depth =>
    if depth > 64 then .err .malformed
    else
      match glyph gid with
      | .err e => .err e
      | .none => .ok (gid, 0)
      | .simple n => .ok (gid, n)
      | .composite comps =>
        match firstMetrics comps 0 with
        | none => .trap
        | some (count, none) => .ok (gid, count)
        | some (_, some g') =>
          match uadd depth 1 with
          | none => .trap
          | some d' => findGlyph glyph fuel g' d'

/-- `tuple_delta.apply_scalar::<Fixed>(scalar)`: `Point::new(x, y).map(Fixed::from_i32) * scalar` -/
def applyScalarFixed (x y scalar : Int) : Option (Int × Int) :=
  match Checked.fxFromI32 x, Checked.fxFromI32 y with
  | some fx, some fy =>
    match Checked.fxMul fx scalar, Checked.fxMul fy scalar with
    | some px, some py => some (px, py)
    | _, _ => none
  | _, _ => none

/-- the inner loop `for tuple_delta in tuple.deltas()`: `if phantom_range.contains(&ix) {
phantom_deltas[ix - phantom_range.start] += … }` (`Point<Fixed>` `+=` wraps); `none` = panic -/
def phantomApply (pc e : Nat) (scalar : Int) : List (Nat × Int × Int) → List (Int × Int) → Option (List (Int × Int))
  | [], ph => some ph
  | (ix, x, y) :: rest, ph =>
    if pc ≤ ix ∧ ix < e then
      match ph[ix - pc]?, applyScalarFixed x y scalar with
      | some cur, some d =>
        phantomApply pc e scalar rest (ph.set (ix - pc) (Checked.fxAdd cur.1 d.1, Checked.fxAdd cur.2 d.2))
      | _, _ => none
    else phantomApply pc e scalar rest ph

/-- the outer loop over `var_data.active_tuples_at(coords)` -/
def phantomLoop (p : TVD) (pc e : Nat) : List (TV × Int) → List (Int × Int) → R (List (Int × Int))
  | [], ph => .ok ph
  | (t, scalar) :: rest, ph =>
    match t.deltasTrace p true with
    | none => .trap
    | some evs =>
      if trapped evs then .trap
      else
        match phantomApply pc e scalar (items evs) ph with
        | none => .trap
        | some ph' => phantomLoop p pc e rest ph'

/-- `Gvar::phantom_point_deltas(glyf, loca, coords, glyph_id)`: `ok none` = no variation data,
`ok (some [left, right, top, bottom])` -/
def Gv.phantomPointDeltas (g : Gv) (glyph : Nat → GR) (coords : List Int) (gid : Nat) :
    R (Option (List (Int × Int))) :=
  match findGlyph glyph 66 gid 0 with
  | .err e => .err e
  | .trap => .trap
  | .ok (gid', pc) =>
    match uadd pc 4 with
    | none => .trap
    | some e =>
      match g.glyphVariationData gid' with
      | .err er => .err er
      | .trap => .trap
      | .ok none => .ok none
      | .ok (some p) =>
        match activeTuples p coords with
        | none => .trap
        | some .trap => .trap
        | some (.err er) => .err er
        | some (.ok l) =>
          match phantomLoop p pc e l [(0, 0), (0, 0), (0, 0), (0, 0)] with
          | .ok ph => .ok (some ph)
          | .err er => .err er
          | .trap => .trap

end FontVerif.HandVar
