/-
Model of skrifa's FreeType-compatible glyph loader for a composite glyph whose components are simple
glyphs WITHOUT instructions (static font, scaled): skrifa/src/outline/glyf/mod.rs
  `Scaler::load`, `FreeTypeScaler::setup_phantom_points` (horizontal pair), `load_simple` (scaling, the
  committed phantom points, `round_phantom_points` when hinting is requested, there are no instructions and
  backward compatibility is off), `load_composite` (phantom scaling, USE_MY_METRICS, 2x2 transform,
  SCALED_COMPONENT_OFFSET, offset scaling, ROUND_XY_TO_GRID, point anchors, translation),
  `FreeTypeScaler::scale` (hdmx), glyf/outline.rs `ScaledOutline::new` (shift by the first phantom
  point), `adjusted_advance_width`, and the rounding of the advance in `HintingInstance::draw`.
`F26Dot6` `*` is the 16.16 multiply of font-types (`Fixed.mul`), `+ -` wrap, `round()` is
`wrapping_add(32) & !63`; `bounds[0] as i32 - lsb` is a plain (checked) `i32` subtraction.
The vertical phantom points are not modelled (without instructions nothing observable depends on them).
`ft_hypot` (CORDIC) is not modelled: its two values per component are inputs (`hx`, `hy`).
-/
import FontVerif.Model.HintMath
import FontVerif.Model.TtState
set_option linter.unusedVariables false
namespace FontVerif.HintLoad
open FontVerif FontVerif.HintMath FontVerif.Tt

/-- header box and horizontal metrics of a glyph: `x_min`, `lsb`, `advance` (font units). -/
structure GM where
  xMin : Int
  lsb : Int
  adv : Int
deriving Repr, DecidableEq

/-- one component: flags (u16), the 2x2 transform as raw F2Dot14 bits, the two arguments (offsets or
point numbers), the two `ft_hypot` values, the component glyph's metrics and its points (font units). -/
structure Comp where
  flags : Int
  xx : Int
  yx : Int
  xy : Int
  yy : Int
  arg1 : Int
  arg2 : Int
  hx : Int
  hy : Int
  m : GM
  pts : List Vec
deriving Repr

def flag (flags k : Int) : Bool := flags / k % 2 = 1

def ARGS_ARE_XY : Int := 2
def ROUND_XY : Int := 4
def WE_HAVE_A_SCALE : Int := 8
def XY_SCALE : Int := 64
def TWO_BY_TWO : Int := 128
def USE_MY_METRICS : Int := 512
def SCALED_OFFSET : Int := 2048

def wadd (a b : Int) : Int := wrapI32 (a + b)
def wsub (a b : Int) : Int := wrapI32 (a - b)
/-- `F26Dot6::round`. -/
def rnd (a : Int) : Int := wrapI32 (a + 32) - wrapI32 (a + 32) % 64

/-- `setup_phantom_points`, horizontal pair (unscaled). -/
def setupPhantom (m : GM) : Option (Int × Int) :=
  (chk (m.xMin - m.lsb)).map fun p0 => (p0, wadd p0 m.adv)

/-- the phantom coordinate a component without instructions leaves behind: rounded
(`round_phantom_points`) when hinting is requested and backward compatibility is off. -/
def phRound (hinted bc : Bool) (v : Int) : Int := if hinted ∧ ¬ bc then rnd v else v

/-- `load_simple` for a component without instructions: scaled points and the phantom pair it leaves in
`self.phantom`.  `hinted` = hinting requested (`is_hinted`), `bc` = `hinter.backward_compatibility()`. -/
def loadSimple (hinted bc : Bool) (scale : Int) (m : GM) (pts : List Vec) : Option (List Vec × Int × Int) :=
  (setupPhantom m).map fun (p0, p1) =>
    (pts.map fun q => Vec.mk (Fixed.mul q.x scale) (Fixed.mul q.y scale),
     phRound hinted bc (Fixed.mul p0 scale), phRound hinted bc (Fixed.mul p1 scale))

/-- the four phantom points as the interpreter receives them from `load_simple` / `load_composite` when the
glyph has instructions: FIRST `original_scaled.copy_from_slice(scaled)` (the original positions keep the
unrounded scaled phantom points), THEN `round_phantom_points(&mut scaled[phantom_start..])` (pp1.x, pp2.x,
pp3.y, pp4.y of the current positions): `(original, current)`. -/
def hintPhantom (pp : List Vec) : List Vec × List Vec :=
  let original := pp
  let current := match pp with
    | [p1, p2, p3, p4] => [⟨rnd p1.x, p1.y⟩, ⟨rnd p2.x, p2.y⟩, ⟨p3.x, rnd p3.y⟩, ⟨p4.x, rnd p4.y⟩]
    | _ => pp
  (original, current)

/-- the 2x2 transform of `load_composite` on one scaled point: `scale_component(x) = bits * 4`. -/
def xform (c : Comp) (q : Vec) : Vec :=
  let xx := c.xx * 4
  let yx := c.yx * 4
  let xy := c.xy * 4
  let yy := c.yy * 4
  ⟨wadd (Fixed.mul q.x xx) (Fixed.mul q.y xy), wadd (Fixed.mul q.x yx) (Fixed.mul q.y yy)⟩

def haveXform (c : Comp) : Bool := flag c.flags WE_HAVE_A_SCALE ∨ flag c.flags XY_SCALE ∨ flag c.flags TWO_BY_TWO

/-- the anchor offset of an `Anchor::Offset` component. -/
def offsetXY (hinted : Bool) (scale : Int) (c : Comp) : Vec :=
  let scaled := haveXform c ∧ flag c.flags SCALED_OFFSET
  let x := if scaled then Fixed.mul c.arg1 c.hx else c.arg1
  let y := if scaled then Fixed.mul c.arg2 c.hy else c.arg2
  let ox := Fixed.mul x scale
  let oy := Fixed.mul y scale
  ⟨ox, if hinted ∧ flag c.flags ROUND_XY then rnd oy else oy⟩

/-- `Anchor::Point { base, component }`: `*base_point - *component_point` (`acc` = points of this
composite loaded so far, `sp` = the transformed points of the component).  `none`: a point number out of
range (an error on both sides, not modelled). -/
def pointAnchor (acc sp : List Vec) (a1 a2 : Int) : Option Vec :=
  if a1 < 0 ∨ a2 < 0 then none
  else match acc[a1.toNat]?, sp[a2.toNat]? with
    | some b, some q => some ⟨wsub b.x q.x, wsub b.y q.y⟩
    | _, _ => none

/-- `for point in &mut self.memory.scaled[start_point..end_point] { *point += anchor_offset }` (when the
offset is not zero). -/
def translate (sp : List Vec) (off : Vec) : List Vec :=
  if off.x ≠ 0 ∨ off.y ≠ 0 then sp.map fun q => Vec.mk (wadd q.x off.x) (wadd q.y off.y) else sp

/-- `load_composite`, one component: `acc` = the points loaded so far (this composite's, `point_base` = 0),
`ph` = the current phantom pair; returns the new points and phantom pair.  `none`: trap, or an anchor
point number out of range. -/
def component (hinted bc : Bool) (scale : Int) (acc : List Vec) (ph : Int × Int) (c : Comp) :
    Option (List Vec × (Int × Int)) :=
  (loadSimple hinted bc scale c.m c.pts).bind fun (sp, c0, c1) =>
  let ph' := if flag c.flags USE_MY_METRICS then (c0, c1) else ph
  let sp := if haveXform c then sp.map (xform c) else sp
  (if flag c.flags ARGS_ARE_XY then some (offsetXY hinted scale c) else pointAnchor acc sp c.arg1 c.arg2).map fun off =>
  (acc ++ translate sp off, ph')

def components (hinted bc : Bool) (scale : Int) : List Comp → List Vec → (Int × Int) → Option (List Vec × (Int × Int))
  | [], acc, ph => some (acc, ph)
  | c :: rest, acc, ph => (component hinted bc scale acc ph c).bind fun (acc, ph) => components hinted bc scale rest acc ph

/-- `adjusted_advance_width`: `hdmx_width` (a `u8`, `C::from_i32`) if selected, else the difference of
the phantom pair. -/
def advPick (sel : Option Int) (q0 q1 : Int) : Int :=
  match sel with
  | some w => wrapI32 (w * 64)
  | none => wsub q1 q0

/-- the whole load of a composite glyph: final points (after the shift by the first phantom point) and
the advance in 26.6.  `hdmx` = the `hdmx` width of this glyph for this ppem, if the table has a record;
`fixedPitch` = `post.is_fixed_pitch() != 0` (after fix 20350f1 hdmx is not used then). -/
def load (hinted bc fixedPitch : Bool) (scale : Int) (hdmx : Option Int) (m : GM) (cs : List Comp) :
    Option (List Vec × Int) :=
  (setupPhantom m).bind fun (p0, p1) =>
  (components hinted bc scale cs [] (Fixed.mul p0 scale, Fixed.mul p1 scale)).map fun (pts, (q0, q1)) =>
  let pts := if q0 ≠ 0 then pts.map fun q => Vec.mk (wsub q.x q0) q.y else pts
  let adv := advPick (if hinted ∧ ¬ bc ∧ ¬ fixedPitch then hdmx else none) q0 q1
  (pts, if hinted then rnd adv else adv)

end FontVerif.HintLoad
