/-
Model/LoopIter.lean — the (hand-written, import-free) vocabulary of the control-skeleton models that
`translate/c02_blues.py` regenerates from Rust `loop { … }` blocks (Gen/BluesScan.lean).

A Rust `loop { body }` whose exits are `break` / `continue` / falling off the end of `body` is modelled by ONE
function `step : St → Out` for one execution of `body`, and the loop itself by the fuelled iterator `iter`:
`iter step fuel s` runs `body` at most `fuel` times and returns the state at the `break`; it returns `none` when the
fuel runs out before a `break` — i.e. `none` is the model of "the Rust loop did not exit within `fuel` iterations"
— or when the body reports `.stuck` (a nested loop that itself ran out of fuel).  Termination theorems
(Props/C02Blues.lean) therefore have the form `∃ s', iter step fuel s = some s'`.
-/
namespace FontVerif.LoopIter

/-- The control variables of the scan loops of `compute_default_blues` (skrifa autohint/metrics/blues.rs):
`last` and `segment_first` index the contour `best_contour`, `n = best_contour.len()`.
`tick` is a ghost counter: the number of loop-body entries (of any of the nested loops) so far; the generated
step functions increment it on entry and index the data oracle with it, so that every evaluation of a data
condition can be given an independent truth value. -/
structure St where
  last : Nat
  segFirst : Nat
  n : Nat
  tick : Nat
deriving Repr, DecidableEq

/-- `Contour::next` (skrifa autohint/outline.rs) in coordinates relative to the contour: indices are offsets from
`contour.first()`, so `first_ix = 0`, `last_ix = n - 1`:  `if index >= last_ix { first_ix } else { index + 1 }`.
(translate/c02_autohint_loops.py checks the Rust body on every run.) -/
def cnext (n i : Nat) : Nat := if i ≥ n - 1 then 0 else i + 1

/-- `Contour::prev`, same coordinates: `if index <= first_ix { last_ix } else { index - 1 }` -/
def cprev (n i : Nat) : Nat := if i ≤ 0 then n - 1 else i - 1

/-- the index yielded by `cycle_forward(items, start)` (with `start + 1`) / `cycle_backward(items, start)`
(skrifa autohint/metrics/blues.rs): `(ix + start) % len`.  (translate/c02_blues.py checks the two bodies.) -/
def cycleIx (len start ix : Nat) : Nat := (ix + start) % len

/-- `Contour::next` in ABSOLUTE point indices (`first = first_ix`, `last = last_ix`), as the Rust reads:
`if index >= self.last_ix { self.first_ix } else { index + 1 }` -/
def contourNext (first last i : Nat) : Nat := if i ≥ last then first else i + 1

/-- `Contour::prev` in absolute indices with the `usize` subtraction CHECKED (`none` = it would underflow):
`if index <= self.first_ix { self.last_ix } else { index - 1 }` -/
def contourPrev (first last i : Nat) : Option Nat :=
  if i ≤ first then some last else if i < 1 then none else some (i - 1)

/-- How one execution of a loop body ended: `break`, `continue` (or falling off the end), or — marker — a nested
loop of the body did not exit within its fuel. -/
inductive Out where
  | brk (s : St)
  | cont (s : St)
  | stuck
  /-- a `usize` subtraction of the control arithmetic would underflow (a panic in the Rust) -/
  | trap
deriving Repr, DecidableEq

/-- Run `step` until it breaks, at most `fuel` times.  `none` = no `break` within `fuel` body executions
(or a nested loop got stuck). -/
def iter (step : St → Out) : Nat → St → Option St
  | 0, _ => none
  | fuel + 1, s =>
    match step s with
    | .brk s' => some s'
    | .cont s' => iter step fuel s'
    | .stuck => none
    | .trap => none

/-- `iter` with the number of body executions it performed (for the non-vacuity examples). -/
def iterCount (step : St → Out) : Nat → St → Option (St × Nat)
  | 0, _ => none
  | fuel + 1, s =>
    match step s with
    | .brk s' => some (s', 1)
    | .cont s' => (iterCount step fuel s').map fun (r, k) => (r, k + 1)
    | .stuck => none
    | .trap => none

/-! ### Generic variant (any state type; a labelled `break 'outer` / `return` out of a nested loop) -/

/-- `St` plus one Boolean control variable (`passed` of `build_segments`) -/
structure StF extends St where
  flag : Bool
deriving Repr, DecidableEq

/-- `exit` = the body left not only this loop but also the enclosing one (`break 'outer`, `return`, `?`) -/
inductive OutG (σ : Type) where
  | brk (s : σ)
  | cont (s : σ)
  | exit (s : σ)
  | stuck
  | trap
deriving Repr, DecidableEq

/-- Run `step` until it breaks or exits, at most `fuel` times; the Boolean says whether it was an `exit`. -/
def iterG {σ : Type} (step : σ → OutG σ) : Nat → σ → Option (Bool × σ)
  | 0, _ => none
  | fuel + 1, s =>
    match step s with
    | .brk s' => some (false, s')
    | .exit s' => some (true, s')
    | .cont s' => iterG step fuel s'
    | .stuck => none
    | .trap => none

/-- `iterG` with the number of body executions -/
def iterGCount {σ : Type} (step : σ → OutG σ) : Nat → σ → Option (Bool × σ × Nat)
  | 0, _ => none
  | fuel + 1, s =>
    match step s with
    | .brk s' => some (false, s', 1)
    | .exit s' => some (true, s', 1)
    | .cont s' => (iterGCount step fuel s').map fun (e, r, k) => (e, r, k + 1)
    | .stuck => none
    | .trap => none

/-- the edge binary search of `align_strong_points` (autohint/hint/outline.rs; text compared on every run):
`while min_ix < max_ix { let mid_ix = (min_ix + max_ix) >> 1; match u.cmp(&fpos) { Less => max_ix = mid_ix,
Greater => min_ix = mid_ix + 1, Equal => { …; continue 'points } } }`.  `cmp mid tick` is the data comparison
(arbitrary); the result is `some (found?, index)`, `none` = no exit within `fuel` iterations. -/
def bsearch (cmp : Nat → Nat → Ordering) : Nat → Nat → Nat → Nat → Option (Bool × Nat)
  | 0, _, _, _ => none
  | fuel + 1, tick, mn, mx =>
    if mn < mx then
      let mid := (mn + mx) >>> 1
      match cmp mid tick with
      | .lt => bsearch cmp fuel (tick + 1) mn mid
      | .gt => bsearch cmp fuel (tick + 1) (mid + 1) mx
      | .eq => some (true, mid)
    else some (false, mn)

/-- the range-seeking loop of the CFF charset iterator (read-fonts tables/postscript/charset.rs `RangeIter::next`;
text compared on every run): `while gid >= self.end { let (first, end) = next_range(&mut self.ranges)?; …;
self.end = self.prev_end.checked_add(end)? }`, where `next_range` takes the NEXT element of a slice iterator
(`(first, n_left + 1)`).  Arguments: the remaining ranges, `self.end`, the turns so far; result: (loop-body entries,
left by `?`). -/
def charsetSeek (gid : Nat) : List (Nat × Nat) → Nat → Nat → Nat × Bool
  | [], e, t => if gid ≥ e then (t + 1, true) else (t, false)
  | (_, len) :: rest, e, t =>
    if gid ≥ e then (if e + len ≥ 4294967296 then (t + 1, true) else charsetSeek gid rest (e + len) (t + 1))
    else (t, false)

/-- a loop that takes ONE item per turn from a finite source and returns when the source is exhausted
(`cursor.read::<u8>()?` in `parse_bcd`, `token_iter.next()?` in the DICT `entries` iterator; read-fonts
tables/postscript/dict.rs, text compared on every run) or when the item makes it stop (`stop`: the 0xF nibble / an
invalid nibble / a full buffer; an operator token / a stack or blend error).  Result: (loop-body entries, items left). -/
def consumeLoop {α : Type} (stop : α → Bool) : List α → Nat → Nat × List α
  | [], t => (t + 1, [])
  | a :: rest, t => if stop a then (t + 1, rest) else consumeLoop stop rest (t + 1)

end FontVerif.LoopIter
