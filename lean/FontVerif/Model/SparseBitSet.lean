/-
Model of the sparse-bit-set codec:
  read-fonts/src/collections/int_set/sparse_bit_set.rs   (decode, encode, BranchFactor)
  read-fonts/src/collections/int_set/input_bit_stream.rs  (InputBitStream)
  read-fonts/src/collections/int_set/output_bit_stream.rs (OutputBitStream)

Bytes are `Nat`s `< 256`, byte strings `List Nat`.  The decoder's output set is represented by
the list of ranges it inserts (`builder.insert(v)` as `(v, v)`, `insert_range(s..=e)` as `(s, e)`),
normalised by `RangeSet.insert` (sorted, disjoint, non-adjacent) for comparison with
`IntSet::iter_ranges`.  `u64`/`u32` arithmetic is modelled in `Nat`; the places where the Rust
uses checked / saturating / `try_from` arithmetic are transcribed as explicit bounds tests.
No `u64` overflow is possible within `max_height` (2^31, 4^16, 8^11, 32^7 ≤ 2^35).
-/
import FontVerif.Model.RangeSet
namespace FontVerif.SparseBitSet

def U32_MAX : Nat := 4294967295

/-! ### BranchFactor -/

/-- `decode_header`: branch factor from the two low bits -/
def bfOfBits (b : Nat) : Nat :=
  match b % 4 with
  | 0 => 2
  | 1 => 4
  | 2 => 8
  | _ => 32

/-- `BranchFactor::bit_id` -/
def bitId (bf : Nat) : Nat := if bf = 2 then 0 else if bf = 4 then 1 else if bf = 8 then 2 else 3

/-- `BranchFactor::max_height` -/
def maxHeight (bf : Nat) : Nat :=
  if bf = 2 then 31 else if bf = 4 then 16 else if bf = 8 then 11 else 7

/-- `BranchFactor::node_size_log2` -/
def log2Bf (bf : Nat) : Nat := if bf = 2 then 1 else if bf = 4 then 2 else if bf = 8 then 3 else 5

/-- `BranchFactor::tree_height_for`: `loop { height += 1; max_value >>= log2; if max_value == 0 … }`
(at most 32 iterations for a `u32`). -/
def treeHeightFor (bf : Nat) (maxValue : Nat) : Nat :=
  let rec go (fuel height v : Nat) : Nat :=
    match fuel with
    | 0 => height
    | fuel + 1 =>
      let v' := v / 2 ^ log2Bf bf
      if v' = 0 then height + 1 else go fuel (height + 1) v'
  go 33 0 maxValue

/-! ### InputBitStream -/

structure BitIn where
  byteIndex : Nat
  subIndex : Nat
deriving Repr, DecidableEq

/-- `InputBitStream::from(data)`: positioned after the header byte -/
def BitIn.start : BitIn := ⟨1, 0⟩

/-- `InputBitStream::next`: read one node (`BF` bits).  For `BF ∈ {2,4}`
`(byte & (mask << sub)) >> sub` is `byte / 2^sub % 2^BF`. -/
def nextNode (bf : Nat) (data : List Nat) (st : BitIn) : Option (Nat × BitIn) :=
  if bf = 2 ∨ bf = 4 then
    match data[st.byteIndex]? with
    | none => none
    | some byte =>
      let val := byte / 2 ^ st.subIndex % 2 ^ bf
      let sub := (st.subIndex + bf) % 8
      some (val, ⟨if sub = 0 then st.byteIndex + 1 else st.byteIndex, sub⟩)
  else if bf = 8 then
    match data[st.byteIndex]? with
    | none => none
    | some byte => some (byte, ⟨st.byteIndex + 1, st.subIndex⟩)
  else
    match data[st.byteIndex]?, data[st.byteIndex + 1]?, data[st.byteIndex + 2]?,
        data[st.byteIndex + 3]? with
    | some b1, some b2, some b3, some b4 =>
      some (b1 + b2 * 256 + b3 * 65536 + b4 * 16777216, ⟨st.byteIndex + 4, st.subIndex⟩)
    | _, _, _, _ => none

/-- `InputBitStream::bytes_consumed` -/
def bytesConsumed (st : BitIn) : Nat := st.byteIndex + (if st.subIndex > 0 then 1 else 0)

/-- `InputBitStream::skip_nodes(n)`; the returned flag is `bytes_consumed() <= data.len()` -/
def skipNodes (bf : Nat) (dataLen : Nat) (st : BitIn) (n : Nat) : BitIn × Bool :=
  let st' : BitIn :=
    if bf = 2 ∨ bf = 4 then
      let bitIndex := st.subIndex + n * bf
      ⟨st.byteIndex + bitIndex / 8, bitIndex % 8⟩
    else if bf = 8 then ⟨st.byteIndex + n, st.subIndex⟩
    else ⟨st.byteIndex + 4 * n, st.subIndex⟩
  (st', decide (bytesConsumed st' ≤ dataLen))

/-! ### decoding -/

inductive DecodeResult where
  /-- `Err(DecodingError)` -/
  | error
  /-- the model's loop fuel ran out (proved unreachable: `decode_total`) -/
  | outOfFuel
  /-- `Ok((set, remaining))`: the inserted ranges in insertion order, and the unread bytes -/
  | ok (inserted : List (Nat × Nat)) (rest : List Nat)
deriving Repr, DecidableEq

/-- indices of the set bits of a node, ascending (`trailing_zeros` / clear-lowest-bit loop) -/
def setBits (bits : Nat) : List Nat := (List.range 32).filter (fun i => bits.testBit i)

/-- the leaf-level part of the inner `loop`: insert `start + bit + bias` for each set bit while it
is representable and `≤ max_value`; the first failure is `break 'outer` (flag `true`). -/
def leafValues (start bias maxValue : Nat) : List Nat → List (Nat × Nat) × Bool
  | [] => ([], false)
  | i :: rest =>
    let v := start + i + bias
    if start ≤ U32_MAX ∧ start + i ≤ U32_MAX ∧ v ≤ U32_MAX ∧ v ≤ maxValue then
      let r := leafValues start bias maxValue rest
      ((v, v) :: r.1, r.2)
    else ([], true)

/-- what follows the `'outer` loop: `skip_nodes(queue.len())`, the overrun test, and the split
of the remaining data. -/
def finish (bf : Nat) (data : List Nat) (st : BitIn) (queueLen : Nat) (acc : List (Nat × Nat)) :
    DecodeResult :=
  let r := skipNodes bf data.length st queueLen
  if r.2 then .ok acc (data.drop (bytesConsumed r.1)) else .error

/-- the `'outer: while let Some(next) = queue.pop_front()` loop of
`decode_sparse_bit_set_nodes`.  Queue entries are `(start, depth)`. -/
def decodeLoop (bf height bias maxValue : Nat) (data : List Nat) :
    Nat → BitIn → List (Nat × Nat) → List (Nat × Nat) → DecodeResult
  | 0, _, _, _ => .outOfFuel
  | _ + 1, st, [], acc => finish bf data st 0 acc
  | fuel + 1, st, (start, depth) :: queue, acc =>
    match nextNode bf data st with
    | none => .error
    | some (bits, st') =>
      if bits = 0 then
        -- filled node
        let nodeSize := bf ^ (height - depth + 1)
        if start ≤ U32_MAX ∧ start + bias ≤ U32_MAX ∧ start + bias ≤ maxValue then
          let last := min (min (min (start + nodeSize - 1) U32_MAX + bias) U32_MAX) maxValue
          decodeLoop bf height bias maxValue data fuel st' queue (acc ++ [(start + bias, last)])
        else decodeLoop bf height bias maxValue data fuel st' queue acc
      else if depth = height then
        let r := leafValues start bias maxValue (setBits bits)
        if r.2 then finish bf data st' queue.length (acc ++ r.1)
        else decodeLoop bf height bias maxValue data fuel st' queue (acc ++ r.1)
      else
        let nextNodeSize := bf ^ (height - depth)
        let children := (setBits bits).map (fun i => (start + i * nextNodeSize, depth + 1))
        decodeLoop bf height bias maxValue data fuel st' (queue ++ children) acc

/-- `IntSet::<u32>::from_sparse_bit_set_bounded(data, bias, max_value)`.
Every loop iteration consumes one node of at least 2 bits, so `4 * data.length + 2` iterations
always suffice. -/
def decode (data : List Nat) (bias maxValue : Nat) : DecodeResult :=
  match data with
  | [] => .error
  | b0 :: _ =>
    let bf := bfOfBits b0
    let height := b0 / 4 % 32
    if height > maxHeight bf then .error
    else if height = 0 then .ok [] (data.drop 1)
    else decodeLoop bf height bias maxValue data (4 * data.length + 2) BitIn.start [(0, 1)] []

/-- canonical form of the decoded set: `iter_ranges()` of the resulting `IntSet` -/
def normalize (ins : List (Nat × Nat)) : List (Int × Int) :=
  RangeSet.insertAll [] (ins.map (fun p => ((p.1 : Int), (p.2 : Int))))

/-! ### the specification's decoder, written independently (layer by layer)

<https://w3c.github.io/IFT/Overview.html#sparse-bit-set-decoding>: the tree is stored in
breadth-first order, so layer `d` of the tree is one contiguous run of nodes in the stream.
`specLayers` reads the stream one whole layer at a time: `nodes` are the start values of the
current layer's nodes; each is decoded to either a filled interval, leaf values, or child
starts for the next layer.  Values are *not* biased/bounded here: bias and maximum are applied
afterwards by `specMembers` to the mathematical set. -/

/-- read `n` nodes -/
def readNodes (bf : Nat) (data : List Nat) : Nat → BitIn → Option (List Nat × BitIn)
  | 0, st => some ([], st)
  | n + 1, st =>
    match nextNode bf data st with
    | none => none
    | some (v, st') =>
      match readNodes bf data n st' with
      | none => none
      | some (vs, st'') => some (v :: vs, st'')

/-- one layer: `(filled-or-leaf intervals, starts of the next layer)` -/
def specLayer (bf height depth : Nat) : List Nat → List Nat → List (Nat × Nat) × List Nat
  | start :: starts, bits :: bitss =>
    let r := specLayer bf height depth starts bitss
    if bits = 0 then ((start, start + bf ^ (height - depth + 1) - 1) :: r.1, r.2)
    else if depth = height then ((setBits bits).map (fun i => (start + i, start + i)) ++ r.1, r.2)
    else (r.1, (setBits bits).map (fun i => start + i * bf ^ (height - depth)) ++ r.2)
  | _, _ => ([], [])

/-- all layers from `depth` to `height`; returns the (unbiased) intervals and the stream position -/
def specLayers (bf height : Nat) (data : List Nat) :
    Nat → Nat → List Nat → BitIn → Option (List (Nat × Nat) × BitIn)
  | 0, _, _, st => some ([], st)
  | _ + 1, _, [], st => some ([], st)
  | fuel + 1, depth, starts, st =>
    match readNodes bf data starts.length st with
    | none => none
    | some (bitss, st') =>
      let r := specLayer bf height depth starts bitss
      match specLayers bf height data fuel (depth + 1) r.2 st' with
      | none => none
      | some (more, st'') => some (r.1 ++ more, st'')

/-- the spec decoder: `none` = invalid; otherwise unbiased intervals and the unread bytes -/
def specDecode (data : List Nat) : Option (List (Nat × Nat) × List Nat) :=
  match data with
  | [] => none
  | b0 :: _ =>
    let bf := bfOfBits b0
    let height := b0 / 4 % 32
    if height = 0 then some ([], data.drop 1)
    else
      match specLayers bf height data height 1 [0] BitIn.start with
      | none => none
      | some (ivs, st) => some (ivs, data.drop (bytesConsumed st))

/-- members of the biased, bounded set denoted by unbiased intervals: `x` is a member iff
`x = v + bias` for some `v` in an interval, `x ≤ maxValue` (and `x` is a `u32`). -/
def SpecMem (ivs : List (Nat × Nat)) (bias maxValue : Nat) (x : Nat) : Prop :=
  x ≤ maxValue ∧ x ≤ U32_MAX ∧ ∃ p ∈ ivs, p.1 + bias ≤ x ∧ x ≤ p.2 + bias

/-- executable version used for the correspondence: clip every interval -/
def specClip (ivs : List (Nat × Nat)) (bias maxValue : Nat) : List (Nat × Nat) :=
  ivs.filterMap (fun p =>
    let lo := p.1 + bias
    let hi := min (min (p.2 + bias) maxValue) U32_MAX
    if lo ≤ hi then some (lo, hi) else none)

/-! ### OutputBitStream -/

structure BitOut where
  /-- bytes written so far, in reverse order -/
  rev : List Nat
  subIndex : Nat
deriving Repr

/-- `OutputBitStream::new(branch_factor, height)` + `write_header` -/
def BitOut.new (bf height : Nat) : BitOut := ⟨[(height % 32) * 4 + bitId bf], 0⟩

/-- `OutputBitStream::write_node(bits)` -/
def writeNode (bf : Nat) (o : BitOut) (bits : Nat) : BitOut :=
  if bf = 2 ∨ bf = 4 then
    let perByte := 8 / bf
    let part := (bits % 2 ^ bf) * 2 ^ (o.subIndex * bf) % 256
    let rev :=
      if o.subIndex = 0 then part :: o.rev
      else
        match o.rev with
        | last :: more => (last ||| part) :: more
        | [] => [part]
    ⟨rev, (o.subIndex + 1) % perByte⟩
  else if bf = 8 then ⟨(bits % 256) :: o.rev, o.subIndex⟩
  else
    ⟨(bits / 16777216 % 256) :: (bits / 65536 % 256) :: (bits / 256 % 256) :: (bits % 256) :: o.rev,
      o.subIndex⟩

def BitOut.bytes (o : BitOut) : List Nat := o.rev.reverse

/-! ### encoding -/

inductive NodeType where
  | standard | filled | skip
deriving Repr, DecidableEq

structure Node where
  bits : Nat
  parentIndex : Nat
  nodeType : NodeType
deriving Repr

/-- `BranchFactor::u32_mask` -/
def u32Mask (bf : Nat) : Nat := 2 ^ bf - 1

/-- state of `create_layer` (`CreateLayerState`); `nodes` is the *whole* node vector (in push
order), `upper`/`upperFilled` are ascending because values arrive descending. -/
structure LayerState where
  upper : List Nat
  upperFilled : List Nat
  current : Option Node
  currentFilledBits : Nat
  nodes : List Node
deriving Repr

/-- `CreateLayerState::commit_current_node` -/
def commit (bf childCount initLen : Nat) (s : LayerState) : LayerState :=
  match s.current with
  | none => s
  | some node =>
    let upper := if s.upper.head? = some node.parentIndex then s.upper else node.parentIndex :: s.upper
    if s.currentFilledBits = u32Mask bf then
      let upperFilled :=
        if s.upperFilled.head? = some node.parentIndex then s.upperFilled
        else node.parentIndex :: s.upperFilled
      let node' : Node := { node with nodeType := .filled }
      let nodes :=
        if initLen ≥ childCount then
          -- mark the children (in the previous layer's slice) as skipped
          let lo := initLen - childCount
          s.nodes.zipIdx.map (fun (c, i) =>
            if lo ≤ i ∧ i < initLen ∧ c.parentIndex ≥ node.parentIndex * bf ∧
                c.parentIndex < (node.parentIndex + 1) * bf
            then { c with nodeType := .skip } else c)
        else s.nodes
      { upper := upper, upperFilled := upperFilled, current := none, currentFilledBits := 0,
        nodes := nodes ++ [node'] }
    else
      { s with upper := upper, current := none, currentFilledBits := 0, nodes := s.nodes ++ [node] }

/-- the `for v in values.iter().rev()` loop of `create_layer`; `filled = none` means
`IntSet::all()` -/
def layerLoop (bf childCount initLen : Nat) (filled : Option (List Nat)) :
    List Nat → LayerState → LayerState
  | [], s => s
  | v :: rest, s =>
    let parentIndex := v / bf
    let prevParent := match s.current with
      | some n => n.parentIndex
      | none => parentIndex
    let s := if prevParent ≠ parentIndex then commit bf childCount initLen s else s
    let cur : Node := match s.current with
      | some n => n
      | none => { bits := 0, parentIndex := parentIndex, nodeType := .standard }
    let mask := 2 ^ (v % bf)
    let isFilled := match filled with
      | none => true
      | some f => f.contains v
    let s := { s with current := some { cur with bits := cur.bits ||| mask },
                      currentFilledBits := if isFilled then s.currentFilledBits ||| mask
                                           else s.currentFilledBits }
    layerLoop bf childCount initLen filled rest s

/-- `create_layer(branch_factor, values, filled_values, nodes)`; `values` ascending -/
def createLayer (bf : Nat) (values : List Nat) (filled : Option (List Nat)) (nodes : List Node) :
    List Nat × List Nat × List Node :=
  let s0 : LayerState :=
    { upper := [], upperFilled := [], current := none, currentFilledBits := 0, nodes := nodes }
  let s := layerLoop bf values.length nodes.length filled values.reverse s0
  let s := commit bf values.length nodes.length s
  (s.upper, s.upperFilled, s.nodes)

/-- the `while height > 0 { create_layer … }` loop -/
def buildLayers (bf : Nat) : Nat → List Nat → Option (List Nat) → List Node → List Node
  | 0, _, _, nodes => nodes
  | h + 1, indices, filled, nodes =>
    let r := createLayer bf indices filled nodes
    buildLayers bf h r.1 (some r.2.1) r.2.2

/-- `to_sparse_bit_set_with_bf::<BF>(set)`; `members` ascending.  `none` = the Rust panics
("Height value exceeds the maximum for this branch factor."), unreachable for `u32` values. -/
def encodeBf (bf : Nat) (members : List Nat) : Option (List Nat) :=
  match members.getLast? with
  | none => some (BitOut.new bf 0).bytes
  | some maxValue =>
    let height := treeHeightFor bf maxValue
    let bf' := if height > maxHeight bf ∧ bf = 2 then 4 else bf
    let height' := treeHeightFor bf' maxValue
    if height' > maxHeight bf' then none
    else
      let nodes := buildLayers bf' height' members none []
      let out := nodes.reverse.foldl (fun o n =>
        match n.nodeType with
        | .standard => writeNode bf' o n.bits
        | .filled => writeNode bf' o 0
        | .skip => o) (BitOut.new bf' height')
      some out.bytes

/-- `IntSet::<u32>::to_sparse_bit_set`: the shortest of the admissible branch factors
(`min_by_key` keeps the first of equally short candidates). -/
def encode (members : List Nat) : List Nat :=
  match members.getLast? with
  | none => (BitOut.new 2 0).bytes
  | some maxValue =>
    let cands := [2, 4, 8, 32].filterMap (fun bf =>
      if treeHeightFor bf maxValue ≤ maxHeight bf then encodeBf bf members else none)
    match cands with
    | [] => []
    | c :: cs => cs.foldl (fun best x => if x.length < best.length then x else best) c

end FontVerif.SparseBitSet
